#!/usr/bin/env python3
"""Automated mutation campaign (a search for generator gaps, not a verification result).

For each sampled single-line mutation of a non-test source file of /repo that a property is anchored
in: apply it to /repo's working tree, discard it if the package no longer builds or the 674-test
baseline no longer passes, otherwise run the quick checks of the properties anchored in that file
until one reports a VIOLATION.  A mutant that passes every check is a SURVIVOR: either the change is
behaviour-preserving / outside every property, or a generator dimension is missing.  The file is
restored from git after every mutant (and on exit).  Results: .work/mutants/results.jsonl.

usage: tools/mutation_campaign.py [--per-file N] [--seed S] [--files a.go,b.go] [--only-props C01,C02]
"""
import argparse, json, os, random, re, subprocess, sys, time

ROOT = os.path.dirname(os.path.dirname(os.path.abspath(__file__)))
REPO = os.environ.get("VERIF_REPO", "/repo")
ENV = dict(os.environ, GOFLAGS="-mod=mod", GOPROXY="off", GOSUMDB="off", GOTOOLCHAIN="local",
           VERIF_EVIDENCE_DIR=os.path.join(ROOT, ".work", "evidence_mut"))

OPS = [
    (r"==", "!="), (r"!=", "=="), (r"<=", "<"), (r">=", ">"), (r"(?<![<=>!-])<(?![=<-])", "<="), (r"(?<![<=>!-])>(?![=>])", ">="),
    (r"&&", "||"), (r"\|\|", "&&"),
    (r"\+ 1\b", "+ 2"), (r"- 1\b", "- 0"), (r"\+1\b", "+2"), (r"-1\b", "-2"), (r"\b0\b", "1"), (r"\b1\b", "0"), (r"\b2\b", "3"),
    (r"\btrue\b", "false"), (r"\bfalse\b", "true"),
    (r"^(\s*)if (.+) \{$", r"\1if !(\2) {"),
    (r"^(\s*)([A-Za-z_][\w\.]*\([^;{}]*\))$", r"\1_ = 0 // deleted: \2"),       # drop a call statement
    (r"^(\s*)return (.+), (.+)$", r"\1return \3, \2"),
    (r"\.Parent\(\)", ".File()"), (r"append\(([^,]+), ", r"append(\1[:0], "),
    (r"^(\s*)(break|continue)$", r"\1_ = 0 // deleted: \2"),
    (r"\bi\+\+", "i += 2"), (r"len\(([^)]+)\)", r"(len(\1) - 1)"),
]


def candidates(path):
    src = open(path).read().split("\n")
    out = []
    in_import = in_comment = False
    for ln, line in enumerate(src):
        s = line.strip()
        if s.startswith("/*"):
            in_comment = True
        if in_comment:
            if "*/" in s:
                in_comment = False
            continue
        if s.startswith("import ("):
            in_import = True
        if in_import:
            if s == ")":
                in_import = False
            continue
        if not s or s.startswith("//") or s.startswith("package ") or s.startswith("import "):
            continue
        code = line.split("//")[0] if '"' not in line else line
        for k, (pat, rep) in enumerate(OPS):
            for m in re.finditer(pat, code):
                new = code[:m.start()] + m.expand(rep) + code[m.end():]
                if new != code:
                    out.append((ln, k, new))
    return src, out


def sh(cmd, cwd=None, timeout=1800):
    p = subprocess.run(cmd, cwd=cwd, env=ENV, stdout=subprocess.PIPE, stderr=subprocess.STDOUT, text=True, timeout=timeout)
    return p.returncode, p.stdout


def restore(rel):
    subprocess.run(["git", "-C", REPO, "checkout", "--", rel], check=True)


def main():
    ap = argparse.ArgumentParser()
    ap.add_argument("--per-file", type=int, default=10)
    ap.add_argument("--seed", type=int, default=1)
    ap.add_argument("--files", default="")
    ap.add_argument("--only-props", default="")
    a = ap.parse_args()
    props = [json.loads(l) for l in open(os.path.join(ROOT, "properties.jsonl"))]
    anchors = {}
    for p in props:
        for f in p["anchors"]["files"]:
            anchors.setdefault(f, []).append(p["id"])
    files = [f for f in sorted(anchors) if os.path.exists(os.path.join(REPO, f)) and not f.endswith("_test.go")]
    if a.files:
        files = [f for f in files if f in a.files.split(",")]
    only = set(a.only_props.split(",")) if a.only_props else None
    rnd = random.Random(a.seed)
    outdir = os.path.join(ROOT, ".work", "mutants")
    os.makedirs(outdir, exist_ok=True)
    res = open(os.path.join(outdir, f"results-seed{a.seed}.jsonl"), "a")
    assert subprocess.run(["git", "-C", REPO, "status", "--porcelain"], stdout=subprocess.PIPE, text=True).stdout.strip() == "", "/repo not clean"
    n = 0
    for rel in files:
        path = os.path.join(REPO, rel)
        src, cands = candidates(path)
        rnd.shuffle(cands)
        done = 0
        for ln, k, new in cands:
            if done >= a.per_file:
                break
            mutated = list(src)
            mutated[ln] = new
            rec = {"file": rel, "line": ln + 1, "op": k, "old": src[ln].strip(), "new": new.strip()}
            try:
                open(path, "w").write("\n".join(mutated))
                pkg = "./lang/go/..." if rel.startswith("lang/go/") else "."
                rc, out = sh(["go", "build", pkg], cwd=REPO)
                if rc != 0:
                    rec["status"] = "stillborn"
                    continue
                rc, out = sh(["python3", os.path.join(ROOT, "tools", "baseline.py")])
                if rc != 0:
                    rec["status"] = "killed-by-tests"
                    continue
                done += 1
                rec["status"] = "survived"
                t0 = time.time()
                for pid in anchors[rel]:
                    if only and pid not in only:
                        continue
                    rc, out = sh([os.path.join(ROOT, "check"), pid], cwd=ROOT, timeout=3600)
                    if "VIOLATION" in out or rc != 0:
                        rec["status"] = "killed"
                        rec["by"] = pid
                        m = re.search(r"VIOLATION.*", out)
                        rec["line_out"] = m.group(0)[:200] if m else out[-200:]
                        break
                rec["secs"] = round(time.time() - t0)
            finally:
                restore(rel)
                if rec.get("status") in ("killed", "survived"):
                    n += 1
                    res.write(json.dumps(rec) + "\n")
                    res.flush()
                    print(n, rec["status"], rel, rec["line"], rec["old"][:60], "=>", rec["new"][:60], rec.get("by", ""), flush=True)
    print("done", n)


if __name__ == "__main__":
    try:
        main()
    finally:
        subprocess.run(["git", "-C", REPO, "checkout", "--", "."])
