#!/usr/bin/env python3
"""Run /repo's test suite with the `verif` guard OFF and compare with /root/.vp/BASELINE.json.
Exit 0 iff every stable_pass test passes (and prints a one-line summary)."""
import json, os, subprocess, sys
env = dict(os.environ, GOFLAGS="-mod=mod", GOPROXY="off", GOSUMDB="off", GOTOOLCHAIN="local")
repo = os.environ.get("VERIF_REPO", "/repo")
p = subprocess.run(["go", "test", "-json", "-vet=off", "-count=1", "-timeout", "25m", "./..."],
                   cwd=repo, env=env, stdout=subprocess.PIPE, stderr=subprocess.STDOUT, text=True)
passed, failed = set(), set()
for line in p.stdout.splitlines():
    line = line.strip()
    if not line.startswith("{"):
        continue
    try:
        ev = json.loads(line)
    except Exception:
        continue
    a, pkg, t = ev.get("Action"), ev.get("Package", ""), ev.get("Test")
    if t is None or a not in ("pass", "fail"):
        continue
    (passed if a == "pass" else failed).add(pkg + "::" + t)
passed -= failed
base = json.load(open("/root/.vp/BASELINE.json")) if os.path.exists("/root/.vp/BASELINE.json") else None
if base is None:
    print(f"baseline file missing; passed={len(passed)} failed={len(failed)}")
    sys.exit(0 if passed else 1)
stable = set(base["stable_pass"])
missing = sorted(stable - passed)
newfail = sorted(failed - set(base.get("always_fail", [])))
print(f"baseline: stable={len(stable)} passed_now={len(passed)} missing={len(missing)} new_failures={len(newfail)}")
for m in missing[:20]:
    print("  MISSING", m)
for m in newfail[:20]:
    print("  NEWFAIL", m)
sys.exit(0 if not missing else 1)
