"""Per-property configuration of ./check: which harness engines feed which Lean engines, which Lean
modules hold the property theorems, what counts as a non-trivial input, known-finding predicates."""

TRUSTED_BASE = [
    "Lean 4.33.0 kernel (leanchecker re-check in the thorough tier); axioms limited to propext, Classical.choice, Quot.sound (audited per theorem by `#print axioms`)",
    "hand-written Lean model tied to /repo only by the correspondence run (differential testing on generated inputs) and by the regenerated tables",
    "Go harness (generators, canonicalisers), Lean compiler/runtime executing the model in the driver, ./check orchestrator",
]
ASSUMPTIONS = [
    "model = implementation is established only on the generated inputs (counts and distribution in coverage.engines)",
]


def nonempty_bytes(key):
    return lambda i: isinstance(i, dict) and len(i.get(key) or []) > 0


NONTRIVIAL = {
    "c11": nonempty_bytes("name"),
    "fp": lambda i: isinstance(i, dict) and any(len(a) > 0 for a in i.get("args", [])),
    "c19": lambda i: isinstance(i, dict) and (len(i.get("s") or []) > 0 or len(i.get("m") or []) > 0 or i.get("op") not in ("parse", "print")),
    "c20": lambda i: isinstance(i, dict) and len(i.get("runes") or []) > 1,
    "c18": lambda i: isinstance(i, dict) and len(i.get("ops") or []) > 1,
    "c11p": lambda i: isinstance(i, dict) and len(i.get("arts") or []) > 1,
    "c10": lambda i: isinstance(i, dict) and len(i.get("arts") or []) > 1,
    "c12": lambda i: isinstance(i, dict) and len(i.get("arts") or []) > 1,
    "c13": lambda i: isinstance(i, dict) and len(i.get("ops") or []) > 1 and len(i.get("mods") or []) > 0,
    "c14": lambda i: isinstance(i, dict) and len(i.get("arts") or []) > 1,
    "c01": lambda i: isinstance(i, dict) and sum(len(f.get("msgs") or []) for f in i.get("files", [])) > 0,
    "c02": lambda i: isinstance(i, dict) and sum(len(f.get("msgs") or []) for f in i.get("files", [])) > 0,
    "c03": lambda i: isinstance(i, dict) and sum(len(f.get("msgs") or []) for f in i.get("files", [])) > 0,
    "c04": lambda i: isinstance(i, dict) and len(i.get("files", [])) > 1,
    "c08": lambda i: isinstance(i, dict) and sum(len(f.get("msgs") or []) for f in i.get("files", [])) > 0,
    "c09": lambda i: isinstance(i, dict) and sum(len(f.get("msgs") or []) for f in i.get("files", [])) > 0,
    "c07": lambda i: isinstance(i, dict) and len(i.get("walks") or []) > 1,
    "c05": lambda i: isinstance(i, dict) and len(i.get("queries") or []) > 1,
    "c06": lambda i: isinstance(i, dict) and len(i.get("ops") or []) > 1,
    "c16": lambda i: isinstance(i, dict) and sum(len(f.get("msgs") or []) for f in i.get("files", [])) > 0,
    "c17": lambda i: isinstance(i, dict) and sum(len(f.get("msgs") or []) for f in i.get("files", [])) > 0,
    "c15": lambda i: isinstance(i, dict) and len(i.get("name") or []) > 1,
}

FINDING_PREDICATES = {}

PROPS = {
    "C11": {
        "engines": [("c11", "main"), ("c11p", "main"), ("fp", "aux")],
        "lean": ["PgsVerif.Props.C11"],
        "level_text": "Theorems over all byte strings: C11_rejects (absolute/empty/'.'/climbing names rejected), C11_accepted_normal (accepted names are relative, free of empty/./.. segments, denote the same file as the given name, strictly inside the base directory), C11_accepts_normalised, and C11_judge (the checker applied to implementation observations never fires on the model). The model (cleanGeneratorFileName over a segment-level filepath.Clean) is compared with the real code on ~135k names per quick run, through ProtoFile() of all six artifact kinds.",
        "level_note": "Trusted: Lean kernel; the segment-level model of Unix path/filepath (validated against the real functions by engine fp on every run, not proved); GOOS=linux; symlink-free denotation of paths.",
        "rule": "exhaustive segment sequences over {a,b.go,.,..,..x,'',...,c} (len<=4 quick / <=6 thorough) x leading/trailing '/', plus seeded random byte strings; each name goes through ProtoFile() of all six generator artifact kinds (engine c11) and through the whole persister into the decoded response (engine c11p, crash-isolated); non-trivial = non-empty name; distinct by input bytes",
        "trusted": ["path/filepath on GOOS=linux is modelled at segment level (Model/FilePath.lean) and compared with the real functions by engine `fp` on every run"],
        "assumptions": ["GOOS=linux (ToSlash is the identity; '/' is the only separator)"],
    },
    "C15": {
        "engines": [("c15", "main")],
        "lean": ["PgsVerif.Props.C15"],
        "rule": "corpus + exhaustive strings over {a,B,1,_,.,E-acute} up to length 5 (7 thorough), exhaustive separator-free words over {a,B,C,1,Omega} (with/without leading underscore), seeded random Unicode (multi-byte upper, title-case, non-Latin digits, invalid bytes); non-trivial = at least 2 runes; distinct by input",
        "level_text": "Theorems for all rune sequences and all upper/digit classifications: C15_lossless (join of the parts with the separator split on = name), C15_camel_no_empty_part, C15_dot_segments / C15_underscore_segments / C15_camel_branch (which segmentation applies), C15_index_safe (parts[1] in range), C15_transform and C15_conversions_agree (every helper is the part-wise conversion joined by its separator; all conversions share one skeleton). The declarative camel-case word boundaries (Model.NameSplit.boundary) are checked by Phi on every implementation observation and compared with the scanner on every input; Split and the eight helpers are compared with the model on ~25k names per quick run.",
        "level_note": "Trusted: Lean kernel; Go's unicode.IsUpper/IsTitle/IsDigit and strings.Title/ToUpper/ToLower enter as per-input tables computed by the harness (the theorems hold for every table); utf-8 decoding of the name by Go's range loop. The equality scanner = declarative boundary cut is validated by correspondence + Phi, not yet a theorem (C15_camel_segments pending).",
    },
    "C19": {
        "engines": [("c19", "main")],
        "lean": ["PgsVerif.Props.C19"],
        "rule": "exhaustive parameter strings over {a,b,',','=',' '} up to length 6 (8 thorough) + corpus; random maps inside and outside the stated domain; int/uint extremes and random magnitudes, raw strings through the typed getters; clone followed by random writes through either handle (including empty maps); float/duration codecs sampled (incl. +-Inf, NaN, subnormals, min/max duration); non-trivial = non-empty string/map or a typed/clone op",
        "level_text": "Theorems: print invariant under permutation of the map's entries and sorted; parse(print m) = m on the stated domain; parse(print(parse s)) = parse s for every byte string; last duplicate wins (parse of a++','++b = parse a overridden by parse b); bare key maps to empty and reads as true; int/uint/bool set-then-get round trips for all 64-bit values with Lean models of Itoa/Atoi/FormatUint/ParseUint/FormatBool/ParseBool; writes through a clone never reach the original. All over unbounded byte strings / maps.",
        "level_note": "Trusted: Lean kernel; Go map semantics (a map is an association list with distinct keys; iteration order arbitrary - print is proved order-independent); strconv float and time.Duration format/parse pairs are assumed to round-trip (sampled by the harness every run, labelled as a test, not proved); unicode.IsSpace restricted to ASCII blanks in the Bool model.",
    },
    "C20": {
        "engines": [("c20", "main")],
        "lean": ["PgsVerif.Props.C20"],
        "rule": "corpus + exhaustive texts over {a,' ',newline,e-acute,U+3000,bb} up to 5 symbols (7 thorough) x widths incl. degenerate ones; word-length x separator x width grids; random texts with Unicode blanks and invalid bytes; texts beyond 4KiB and 64KiB; non-trivial = at least 2 runes",
        "level_text": "Theorem C20_wrap over all texts, all rune decorations and all widths (also <= 3 and negative): words of the output in order = words of the input, every line marked and non-empty, every multi-word line within the width.",
        "level_note": "Trusted: Lean kernel; utf8.DecodeRune and unicode.IsSpace enter as per-input decoration of the text (theorems hold for every decoration); bufio.Scanner modelled for a reader that delivers the whole text in one read (the buffer is sized len(text)+1 by the code), validated against the real scanner incl. texts > 64KiB; fmt.Fprintln/strings.Fields/Join modelled as marker + blank-separated words.",
    },
    "C18": {
        "engines": [("c18", "main")],
        "lean": ["PgsVerif.Props.C18"],
        "rule": "exhaustive operation sequences up to length 5 (7 thorough) over {push p, push q, pushDir x, pushDir a/b, pushDir .., pushDir /abs, pop, popDir} that never pop the root, each on a raw context and through a ModuleBase, plus seeded random histories up to 14 ops with richer directories/prefixes; after every op: OutputPath, JoinPath, Log and Logf lines (recording debugger), Parameters; non-trivial = at least 2 ops",
        "level_text": "Refinement theorem: for every operation history that never pops the root, the chain of context objects (transcription of rootContext/dirContext/prefixContext and the prefixed debugger) shows exactly the observations of an abstract stack of directory/prefix frames (C18_refines), with corollaries for push/pushDir/pop/popDir/JoinPath/Parameters/log prefixes.",
        "level_note": "Trusted: Lean kernel; segment-level filepath model (validated by C11's fp engine); fmt.Println/Printf rendering of log lines modelled for verb-free formats; ModuleBase is observed through the same model (its wrappers only reassign the embedded context) - compared by K, not separately modelled. PushDir reads 'joined with that directory, cleaned' as Join(path, Clean(dir)), which differs from Join(path, dir) only for an absolute dir with excess '..' (documented in DESIGN.md).",
    },
    "C10": {
        "engines": [("c10", "main")],
        "lean": ["PgsVerif.Props.C10"],
        "rule": "exhaustive artifact sequences up to length 4 (5 thorough) over {file a, overwriting file a, file b, file ./a, append a, append b, append d/../a, injection a, error}; seeded random sequences up to 30 with template twins, illegal names, unknown artifacts, custom files and post-processor stacks of 0-3 matching/non-matching/failing processors; driven through Init(...).RegisterModule(...).Render() in a crash-isolated worker (a fail-stop is an observation); non-trivial = at least 2 artifacts",
        "level_text": "Refinement theorem C10_refines for ALL artifact sequences and ALL post-processor stacks: the transcription of Persist / indexOfFile / tailOfFile / insertFile / insertAppend / postProcess over the flat chunk list fails exactly when the abstract semantics `meaning` fails (same cause) and otherwise protoc's reading of the response (`interp`: a nameless chunk continues the preceding entry, an injection never absorbs one) is exactly the entries the artifacts mean, errors joined with '; ' (proof: the flat list is the concatenation of entry blocks; each operation commutes with that abstraction). C10_judge: Phi never fires on the model. Corollaries for templates and processor order.",
        "level_note": "Trusted: proto.Marshal/Unmarshal (responses compared after decoding); templates and post-processors are modelled by their input/output behaviour (rendered text or failure; suffix-appending or failing processors).",
    },
    "C12": {
        "engines": [("c12", "main")],
        "lean": ["PgsVerif.Props.C12"],
        "rule": "exhaustive custom-artifact sequences up to length 4 (5 thorough) over {a, a overwrite, d/a, d/./a, d/e/../a overwrite, /abs/a, d/b overwrite} x permission bits x subsets of 4 pre-existing files on afero.MemMapFs; seeded random runs mixing custom templates, generator files, errors and post-processors; every path of the run and all its parents probed afterwards (kind, content, mode); non-trivial = at least 2 artifacts",
        "level_text": "Theorems for ALL initial file systems, artifact lists and processor stacks: C12_files (after a non-failing run every path holds exactly what the per-path rule says: first writer wins unless overwrite, only the content is replaced on overwrite, creator's permission bits, post-processed content), C12_response (the response equals that of the run with the custom artifacts removed), C12_parent_created. Hypothesis noDirClash (no artifact path is a directory at the moment it is written) - such conflicts are fail-stop on a real file system and belong to C14.",
        "level_note": "Trusted: afero MemMapFs semantics as modelled (normalizePath, create-or-truncate, chmod only on create, MkdirAll of all ancestors); domain excludes file/directory prefix conflicts (fail-stop on a real file system, C14's territory).",
    },
    "C13": {
        "engines": [("c13", "main")],
        "lean": ["PgsVerif.Props.C13"],
        "rule": "every history over {AST(), Render()} up to length 4 (6 thorough) x 60 (120) random configurations (1 or 4 proto files, target subsets, 5 parameter strings, 3 mutator line-ups, 0-4 recording modules returning 0-3 legal artifacts and leaving context pushes unbalanced, optional post-processor / supported-features / bidirectional mode) + seeded random histories up to 8; effects observed through a counting reader, a decoding writer and recording modules logging through a recording debugger; non-trivial = at least 2 ops and 1 module",
        "level_text": "Theorem C13_trace: for every configuration and every finite history of AST()/Render() calls the effect trace of the once-guarded workflow equals the declarative trace (input read once before anything else; on the first Render all InitContext in order then all Execute in order then one Write of persist(concat artifacts); nothing afterwards), by an invariant over the three Once flags; corollaries for 'rendering again does nothing'.",
        "level_note": "Trusted: sync.Once modelled sequentially (the library is single-threaded); proto.Marshal/Unmarshal (response compared after decoding); the AST handed to modules is observed only through Targets()/Packages() keys and object identity (its content is C01's subject); persist is the C10 model.",
    },
    "C14": {
        "engines": [("c14", "main")],
        "lean": ["PgsVerif.Props.C14"],
        "rule": "5 otherwise valid runs x {fault-free control; unreadable / unparsable input / no target; output write error / short write; each of 8 bad artifacts (absolute name, climbing name, append to a file never generated, empty injection name, unknown artifact, failing generator template, failing custom template, failing template append) at every index; a failing post-processor at each chain position after each artifact; each of 6 file-system operations (MkdirAll, Stat, OpenFile, Write, Close, short Write) of each custom file} + seeded random combinations (soft error before the fault, several faults at once); every case is a REAL CHILD PROCESS (`pgsharness plugin`, default stdin/stdout, the library's own os.Exit): exit status, stdout bytes and the cause on stderr are observed; non-trivial = at least 2 artifacts",
        "level_text": "Theorems over all fault plans (C14_fail_stop): the modelled pipeline ends with exit status 1 and a named cause exactly when a planned fault takes effect, and then no response byte was written unless the fault is the short write of the output; a fault-free plan exits 0 with one complete response. PARTIAL by nature: that os.Exit really terminates the process and that nothing else writes to stdout is runtime behaviour - established only by the correspondence run on real child processes.",
        "level_note": "Trusted: the model of the pipeline order (input, artifacts in order, file-system operations of writeFile in order, output write); afero.WriteFile's use of OpenFile/Write/Close; the harness' fault-injecting reader/writer/file system; classification of the stderr text into cause tags.",
    },
    "C01": {
        "engines": [("c01", "main")],
        "lean": ["PgsVerif.Props.C01"],
        "rule": "curated worlds (Struct/Value/ListValue shape, packageless files, map entry between nested messages, extension-only import, public re-export) + seeded random protodesc-valid worlds (1-5 files, DAG imports with public re-exports, shared/nested/empty packages, proto2 omitted/spelled and proto3, nesting depth <= 4, map entries interleaved among nested types, real and synthetic oneofs, extensions at file and message scope, services, any target subset incl. shuffled order, FileDescriptorSet entry point, bidirectional mode); the real AST is navigated from Packages()/Targets() through every containment accessor, every entity identified by the pointer of the descriptor it exposes; non-trivial = at least one message",
        "level_text": "Lean theorems over the executable model of ast.go's hydration (index timeline: every mustSeen looked up against the index as it is at that moment): C01_no_failure (Valid w -> hydrate w succeeds and the index holds exactly the declarations of the request; proved by induction over the files with the invariant 'index = reversed declarations of the files processed so far', services/methods/field types/map entries/extensions each resolved at their moment), validB_sound (the decidable hypothesis evaluated on every generated request implies Valid), C01_nav_not_failed. The declaration-order listings of the navigation model are read off containment by definition; Phi_C01 (no failure, targets, packages, exactly-once reachability, every listing = declared children in order, all-listings as multisets) is evaluated on every navigated real AST and the model must equal the implementation on every case.",
        "level_note": "Trusted: protodesc.NewFiles defines 'valid request' (every generated world must pass it); descriptor pointer identity as entity identity.",
    },
    "C02": {
        "engines": [("c02", "main")],
        "lean": ["PgsVerif.Props.C02"],
        "rule": "curated worlds + seeded random protodesc-valid worlds (see C01: 1-5 files, import DAGs with public re-exports and unused imports, shared/nested/empty packages, both proto2 spellings and proto3, nesting depth <= 4, map entries interleaved among nested types, real/synthetic oneofs, all scalar kinds x labels x map keys, enum/message references to same file / direct imports / publicly re-exported files, recursion, extensions at file and message scope, services, SourceCodeInfo); observed: per entity: FullyQualifiedName, Lookup(key) identity, kind-specific container accessor, File(), Package(), Syntax(), BuildTarget(); Lookup of up to 60 perturbed names (dropped dot, suffix, truncated, nested name at file scope, protobuf-style sibling-scoped enum value names, package names); non-trivial = world with at least one message (C04: at least 2 files)",
        "level_text": "Lean theorems (Props/C02, on top of C01's timeline invariant): C02_lookup (for every Valid request: lookup of the key of any declared entity returns that declaration; any key no descriptor declares is not found), lifted to the compared observation: C02_not_failed, C02_lookup_self, C02_all_present, C02_probe_absent, C02_probe_present. Container/file/package/syntax/build-target columns of the model are read off containment by definition and tied to the code by the correspondence check; Phi_C02 (fqn = container fqn + '.' + name, links = containment, undeclared names not found) is evaluated on every observed real AST.",
        "level_note": "Trusted: protodesc.NewFiles defines 'valid request'; descriptor pointer identity as entity identity; protoreflect (protobuf-go v1.23.0) as the reference for 'protobuf's own semantics'.",
    },
    "C03": {
        "engines": [("c03", "main")],
        "lean": ["PgsVerif.Props.C03"],
        "rule": "curated worlds + seeded random protodesc-valid worlds (see C01: 1-5 files, import DAGs with public re-exports and unused imports, shared/nested/empty packages, both proto2 spellings and proto3, nesting depth <= 4, map entries interleaved among nested types, real/synthetic oneofs, all scalar kinds x labels x map keys, enum/message references to same file / direct imports / publicly re-exported files, recursion, extensions at file and message scope, services, SourceCodeInfo); observed: per field and extension: classification (IsMap/IsRepeated/IsEnum/IsEmbed), ProtoType/ProtoLabel, Enum()/Embed()/Element()/Key() targets by descriptor identity, owner back-links, every accessor of the type called under recover, second opinion from protobuf's own reflection (IsMap/IsList/Kind/Message().FullName) on the same descriptors; methods' input/output; extendees and back-listing; non-trivial = world with at least one message (C04: at least 2 files)",
        "level_text": "Lean theorems (Props/C03 over Proofs/HydrateSpec): hydrate_spec / C03_graph (on every Valid request the build succeeds and the type of EVERY field and extension is specType - classified by the table (label, type, referenced message is a map entry) - and every enum/message it refers to directly, as repeated element or as map key/value, every method input/output and every extendee is declaredAs w name kind, THE declaration of the request bearing that fully-qualified name, whichever file declares it; proved by reading each timed index lookup of the successful run back to the declarative lookup over all declarations), C03_shape + C03_shape_one_of (exactly one of scalar/enum/embed/repeated/map, by the table), C03_target_declared, C03_ext_resolves, C03_not_failed; concrete two-file example checked by decide. Owner back-links, totality of every accessor (incl. extension types) and agreement with protobuf's own reflection are observed columns: Phi_C03 evaluates them on every real AST and the model must equal the implementation on every case.",
        "level_note": "Trusted: protodesc.NewFiles defines 'valid request'; descriptor pointer identity as entity identity; protoreflect (protobuf-go v1.23.0) as the reference for 'protobuf's own semantics'.",
    },
    "C04": {
        "engines": [("c04", "main")],
        "lean": ["PgsVerif.Props.C04"],
        "rule": "curated worlds + seeded random protodesc-valid worlds (see C01: 1-5 files, import DAGs with public re-exports and unused imports, shared/nested/empty packages, both proto2 spellings and proto3, nesting depth <= 4, map entries interleaved among nested types, real/synthetic oneofs, all scalar kinds x labels x map keys, enum/message references to same file / direct imports / publicly re-exported files, recursion, extensions at file and message scope, services, SourceCodeInfo); observed: per file: Imports (ordered), TransitiveImports, Dependents, UnusedImports (as sets + duplicate flag); per message/field/oneof/service/method/extension: Imports (set + duplicate flag); non-trivial = world with at least one message (C04: at least 2 files)",
        "level_text": "Lean theorems (Props/C04), for every Valid request: C04_imports (a file's Imports are its declared dependencies in order, each THE file of that name: C04_import_is_named_file), C04_acyclic (imports point to earlier files, so the fuelled recursion is never cut short), C04_transitive (TransitiveImports = exactly the files reachable through one or more imports; generic lemma clos_sound/clos_complete: fuelled closure = reachability under a decreasing measure), C04_dependents (exactly the files that reach it), C04_listed_once. PARTIAL: the entity-level clauses (imports of field/oneof/message/method/service) and UnusedImports are computed by the model from the graph that C03 proves declarative, and are stated declaratively in Phi_C04, but their model-level theorems are not written: they are decided by Phi on every real AST + model==implementation on every case.",
        "level_note": "Trusted: protodesc.NewFiles defines 'valid request'; descriptor pointer identity as entity identity; protoreflect (protobuf-go v1.23.0) as the reference for 'protobuf's own semantics'.",
    },
    "C08": {
        "engines": [("c08", "main")],
        "lean": ["PgsVerif.Props.C08"],
        "rule": "curated worlds + seeded random protodesc-valid worlds (see C01: 1-5 files, import DAGs with public re-exports and unused imports, shared/nested/empty packages, both proto2 spellings and proto3, nesting depth <= 4, map entries interleaved among nested types, real/synthetic oneofs, all scalar kinds x labels x map keys, enum/message references to same file / direct imports / publicly re-exported files, recursion, extensions at file and message scope, services, SourceCodeInfo); observed: per entity the tag of the attached location (or none), per file the syntax/package statement locations; every declaration carries a uniquely tagged location, interleaved with distractors (names, numbers, options, ranges, unknown field numbers, odd and even lengths, option paths below leaf declarations), whole-file location first, rest shuffled; non-trivial = world with at least one message (C04: at least 2 files)",
        "level_text": "Lean theorems (Props/C08) over the transcription of the childAtPath chain (file/message/enum/service, preservedMsgs indexing, odd-length rule) and of hydrateSourceCodeInfo's routing fold, for EVERY file and EVERY path: C08_no_other (whatever entity a path is routed to is the entity whose declaration path IS that path), C08_designated (the path of every declared message, field, oneof, enum, enum value, service, method and extension, at any nesting depth and with map entries occupying nested-type indices, is routed to that declaration; induction over the nested message structure composing routes), C08_only_designated / C08_attached (lifted to the state built by folding over all locations), C08_info (with one location per path, the information reported for a declaration is that of the location whose path designates it, none if there is none, whatever distractor locations are present). The syntax/package statement infos are Phi+K only (domain note: whole-file location before the syntax location).",
        "level_note": "Trusted: protodesc.NewFiles defines 'valid request'; descriptor pointer identity as entity identity; protoreflect (protobuf-go v1.23.0) as the reference for 'protobuf's own semantics'.",
    },
    "C09": {
        "engines": [("c09", "main")],
        "lean": ["PgsVerif.Props.C09"],
        "rule": "curated worlds + seeded random protodesc-valid worlds (see C01: 1-5 files, import DAGs with public re-exports and unused imports, shared/nested/empty packages, both proto2 spellings and proto3, nesting depth <= 4, map entries interleaved among nested types, real/synthetic oneofs, all scalar kinds x labels x map keys, enum/message references to same file / direct imports / publicly re-exported files, recursion, extensions at file and message scope, services, SourceCodeInfo); observed: per message field: HasPresence/Required/InOneOf/InRealOneOf/HasOptionalKeyword plus protoreflect's HasPresence/Cardinality/ContainingOneof().IsSynthetic on the same descriptors; per oneof IsSynthetic (+protoreflect); per message IsMapEntry (+protoreflect) and the four listings; per file Syntax; non-trivial = world with at least one message (C04: at least 2 files)",
        "level_text": "Theorems for every file / message / field satisfying the side conditions descriptor validation guarantees (FieldOK: syntax in {'', proto2, proto3}, oneof members optional, proto3_optional only in proto3 inside a oneof, no groups, required only in proto2 - a decidable checker of these conditions is evaluated by the driver on every generated world, fieldOK_of_check): C09_presence (pgs HasPresence = protobuf-go v1.23.0 HasPresence = in a oneof / singular message / singular proto2 / proto3-optional), C09_required, C09_synthetic (pgs IsSynthetic = protobuf IsSynthetic = single proto3-optional member), C09_in_real_oneof, C09_proto2_spelling. The partition of the four listings is checked by Phi and the correspondence run (not a theorem).",
        "level_note": "Trusted: protodesc.NewFiles defines 'valid request'; descriptor pointer identity as entity identity; protoreflect (protobuf-go v1.23.0) as the reference for 'protobuf's own semantics'.",
    },
    "C07": {
        "engines": [("c07", "main")],
        "lean": ["PgsVerif.Props.C07"],
        "category": "exploration",
        "rule": "the C01 worlds x per world: every package with an always-descend visitor + 6 random start nodes (files, messages, enums, services, leaves; never inside a map entry) x random policies assigning same / replacement visitor / prune / (nil, err) / (v, err) to 0-40% of the entities, also through PassThroughVisitor and NilVisitor; the callback trace records (entity by descriptor identity, visitor id) and the returned error; non-trivial = at least 2 walks",
        "level_text": "THEOREMS PENDING (level exploration until proved): executable Lean transcription of the ten accept methods compared with pgs.Walk; Phi_C07 = the trace equals the declarative pruned walk over the containment pre-order (kind order, declaration order, no map entries, contiguous subtrees, visitor handed down, prune skips exactly the contents, first error stops and is returned), evaluated on every observed trace.",
        "level_note": "Trusted: protodesc validity of the worlds; descriptor pointer identity; visitors are modelled by their answers (policy), which covers stateful and replacement visitors.",
    },
    "C05": {
        "engines": [("c05", "main")],
        "lean": ["PgsVerif.Props.C05"],
        "rule": "ALL digraphs with self loops on 1-3 message nodes (stride-sampled on 4 in the thorough tier) embedded in valid bidirectionally built requests (edge = singular / repeated / map-value message field, nodes partly nested under holders sharing the simple name 'Item', an enum used by 1-2 nodes) x ALL orders of asking the nodes (dependents/dependencies interleaved or phased, the enum asked at every position); seeded random graphs up to 12 nodes with long cycles and random query histories with repetitions; the general world generator in bidirectional mode with up to 40 shuffled queries; non-trivial = at least 2 queries",
        "level_text": "Theorems for EVERY finite edge relation and EVERY history of accessor calls: C05_order_independent (invariant: the per-entity caches only ever hold complete closures, so each answer equals the answer of a fresh AST whatever was asked before), C05_dependencies / C05_dependents / C05_enum_dependents (the visited-set traversal returns exactly the reachability closure - sound and complete, cycles of every shape - minus the message itself), reach_preds_iff (dependents = messages from which it is reachable). The identification of the recorded edges with 'a field of m has message type x' (model edges = descriptor-level edges) is checked by Phi on every observed answer and by the correspondence run, not yet a theorem (it needs C03's resolution theorem).",
        "level_note": "Trusted: protodesc validity; descriptor pointer identity; Go map iteration order (answers compared as sets, duplicates flagged).",
    },
    "C06": {
        "engines": [("c06", "main")],
        "lean": ["PgsVerif.Props.C06"],
        "rule": "curated + seeded random protodesc-valid worlds built bidirectionally; TWO ASTs from the same request: A observed once per (entity, accessor) in canonical order (first-call oracle), B driven by a random history of 20-100 calls with repetitions over 31 (kind, accessor) pairs (file: imports/transitive/dependents/unused/messages/allMessages/enums/allEnums/services/exts/walk; message: 16 accessors incl. dependencies/dependents/imports/walk; enum: values/dependents; service: methods/imports/walk), biased towards the cached / derived ones; every result compared with A's and with the model; non-trivial = at least 2 ops",
        "level_text": "Lean theorems (Props/C06, on top of C05's cache invariant): the model threads the only mutable state read accessors touch - the memoised message/enum closures and the per-file dependents cache - through an arbitrary history (runHistory/stepH); C06_history (for EVERY finite sequence of accessor calls and walks, any order, any repetition, from every admissible cache state, each call answers what the first call on a freshly built AST answers), C06_from_fresh, C06_prefix_irrelevant, C06_repetition, C06_model (the compared observation is that stateful run). The correspondence check runs the real accessors under random permutations with repetitions against a second AST built from the same bytes and against this model. Not modelled: aliasing of returned Go slices (a caller mutating a returned slice) - the harness only reads.",
        "level_note": "Trusted: protodesc validity; descriptor pointer identity; derived relations compared as sorted sequences (a duplicate stays visible).",
    },
    "C16": {
        "engines": [("c16", "main")],
        "lean": ["PgsVerif.Props.C16"],
        "rule": "collision probe world (getter collisions in both declaration orders, repeated protected names, oneof wrappers colliding once / twice / with a map entry / with an enum, oneof names colliding with fields) + seeded random protodesc-valid worlds whose identifiers are drawn per scope from adversarial pools (leading / trailing / doubled underscores, digits, mixed case, names equal to generated method names, foo / get_foo / get_get_foo, oneof members named like nested types), nesting depth <= 4, every file with a go_package; for every message, enum, value, field, oneof, oneof wrapper, service and method: pgsgo's prediction, protogen v1.23.0's name (the pinned protoc-gen-go run in-process) and whether the identifier is declared in the source internal_gengo.GenerateFile emits (parsed with go/parser); non-trivial = at least one message",
        "level_text": "Theorems over all byte strings: C16_camelCase_eq_GoCamelCase (pgsgo's camelCase = protobuf-go v1.23.0 strs.GoCamelCase on every name without a dot), C16_joinChild and C16_nested_name (pgsgo's chain of joinChild from the outermost message = GoCamelCase of the dotted nested name, at any depth, including the lower-case-initial no-underscore rule and '_' -> 'X'), C16_unique_names (both sides resolve field / oneof names by the same makeNameUnique algorithm over their camel-casing). Enum values, wrappers, services and methods are built from these; their agreement on whole worlds is checked by Phi on every generated world (two Lean transcriptions, each compared with its real counterpart: pgsgo and protogen+internal_gengo run in-process).",
        "level_note": "Trusted: 'what protoc-gen-go emits' is protogen + internal_gengo of the pinned protobuf-go v1.23.0 run as a library (no protoc binary); its Lean transcription is a second model tied to the real generator only by its own correspondence; identifiers are ASCII.",
    },
    "C17": {
        "engines": [("c17", "main")],
        "lean": ["PgsVerif.Props.C17"],
        "rule": "the C16 worlds (proto2/proto3 x every label x every scalar / enum / message kind x map keys and values x references to the same package, the same import path and foreign packages) x go_package drawn from 12 forms (path, path;name, bare name per directory, dash / dot / digit / keyword / mixed-case last elements, two files sharing an import path) x paths unset or source_relative; for every field outside a real oneof: pgsgo Type(f), the reference type by protoc-gen-go's fieldGoType rule (qualifier = package name of the defining file) and the struct field type in the parsed generated source; per file: PackageName / ImportPath / OutputPath against protogen's GoPackageName / GoImportPath / GeneratedFilenamePrefix; non-trivial = at least one message",
        "level_text": "Theorems: C17_scalar_table (both sides map every scalar kind to the same Go type), C17_scalar_pointer (the pointer is added exactly when protoc-gen-go adds it: both follow field presence, by C09_presence), C17_package_name (pgsgo's sanitising + keyword / leading-digit prefix = protoc-gen-go's GoSanitized on every go_package whose last element starts with a letter or digit, for the forms path;name, path/last and bare name), C17_import_path. Type qualification, map / slice shapes and output paths on whole worlds are checked by Phi on every generated world against protogen, the parsed generated source and the Lean transcription of fieldGoType (not theorems: they need C03's resolution theorem and a filepath algebra).",
        "level_note": "Trusted: protogen + internal_gengo v1.23.0 as the reference; segment-level filepath model; divergences outside the stated domain (leading underscore / non-ASCII letters in the last element, 'a;b;c') are documented in DESIGN.md (F12), not claimed.",
    },
}
