"""Per-property configuration of ./check: which harness engines feed which Lean engines, which Lean
modules hold the property theorems, what counts as a non-trivial input, known-finding predicates."""

TRUSTED_BASE = [
    "Lean 4.33.0 kernel (leanchecker re-check in the thorough tier); axioms limited to propext, Classical.choice, Quot.sound (audited per theorem by `#print axioms`)",
    "hand-written Lean model tied to /repo only by the correspondence run (differential testing on generated inputs) and by the regenerated tables",
    "Go harness (generators, canonicalisers), Lean compiler/runtime executing the model in the driver, ./check orchestrator",
]
ASSUMPTIONS = [
    "model = implementation is established only on the generated inputs (counts and distribution in coverage.engines)",
]


def nonempty_bytes(key):
    return lambda i: isinstance(i, dict) and len(i.get(key) or []) > 0


NONTRIVIAL = {
    "c11": nonempty_bytes("name"),
    "fp": lambda i: isinstance(i, dict) and any(len(a) > 0 for a in i.get("args", [])),
}

FINDING_PREDICATES = {}

PROPS = {
    "C11": {
        "engines": [("c11", "main"), ("fp", "aux")],
        "lean": ["PgsVerif.Props.C11"],
        "level_text": "Theorems over all byte strings: C11_rejects (absolute/empty/'.'/climbing names rejected), C11_accepted_normal (accepted names are relative, free of empty/./.. segments, denote the same file as the given name, strictly inside the base directory), C11_accepts_normalised, and C11_judge (the checker applied to implementation observations never fires on the model). The model (cleanGeneratorFileName over a segment-level filepath.Clean) is compared with the real code on ~135k names per quick run, through ProtoFile() of all six artifact kinds.",
        "level_note": "Trusted: Lean kernel; the segment-level model of Unix path/filepath (validated against the real functions by engine fp on every run, not proved); GOOS=linux; symlink-free denotation of paths.",
        "rule": "exhaustive segment sequences over {a,b.go,.,..,..x,'',...,c} (len<=4 quick / <=6 thorough) x leading/trailing '/', plus seeded random byte strings; each name goes through ProtoFile() of all six generator artifact kinds; non-trivial = non-empty name; distinct by input bytes",
        "trusted": ["path/filepath on GOOS=linux is modelled at segment level (Model/FilePath.lean) and compared with the real functions by engine `fp` on every run"],
        "assumptions": ["GOOS=linux (ToSlash is the identity; '/' is the only separator)"],
    },
}
