#!/bin/bash
# Parallel version of sweep_seeded.sh: every seeded change against the check of the property it
# breaks, on N isolated workers (each its own git worktree of /repo and its own copy of /verif, so
# /repo itself is never touched).  Writes seeded/RESULTS.md.   usage: tools/sweep_seeded_par.sh [N] [ids-regex]
N=${1:-6}
FILTER=${2:-.}
SW=/tmp/pgs-sweep
out=${SWEEP_OUT:-/verif/seeded/RESULTS.md}
for k in $(seq 0 15); do git -C /repo worktree remove --force $SW/repo$k >/dev/null 2>&1; done
rm -rf $SW; mkdir -p $SW
cd /verif
for d in seeded/*/; do [ -f $d/patch.diff ] && echo $d; done | grep -E "$FILTER" > $SW/all.txt
for k in $(seq 0 $((N-1))); do
  git -C /repo worktree add --detach $SW/repo$k HEAD >/dev/null 2>&1 || { echo "worktree failed"; exit 2; }
  mkdir -p $SW/verif$k
  rsync -a --exclude .git --exclude .work --exclude seeded --exclude replays --exclude evidence /verif/ $SW/verif$k/
  mkdir -p $SW/verif$k/.work $SW/verif$k/evidence $SW/verif$k/replays
  sed -i "s#=> /repo#=> $SW/repo$k#" $SW/verif$k/harness/go.mod
  awk "NR%$N==$k" $SW/all.txt > $SW/list$k.txt
  (
    cd $SW/verif$k
    export VERIF_REPO=$SW/repo$k GOCACHE=/verif/.work/gocache VERIF_JOBS=${SWEEP_JOBS:-4}
    while read d; do
      id=$(basename $d)
      pid=$(python3 -c "import json;m=json.load(open('/verif/$d/meta.json'));print(m.get('breaks') or m.get('property'))")
      git -C $SW/repo$k apply /verif/$d/patch.diff 2>/dev/null || { echo "| $id | $pid | PATCH DOES NOT APPLY | |"; continue; }
      res=$(./check $pid 2>/dev/null | grep -E "^(VIOLATION|OK)" | head -1)
      clause=""
      rp=$(echo "$res" | sed -n 's/.*replay=\([^ ]*\).*/\1/p')
      if [ -n "$rp" ] && [ -f "$rp" ]; then clause=$(python3 -c "import json;r=json.load(open('$rp'));print(str(r.get('failed_clause') or r.get('broken'))[:110].replace('|','/'))"); fi
      git -C $SW/repo$k checkout -- . ; git -C $SW/repo$k clean -fdq
      case "$res" in VIOLATION*no-failing-input-found) r="VIOLATION (no-failing-input-found)";; VIOLATION*) r="VIOLATION with replay";; *) r="MISSED";; esac
      echo "| $id | $pid | $r | $clause |"
      echo "$id $pid $r" >&2
    done < $SW/list$k.txt > $SW/out$k.txt
  ) &
done
wait
{ echo "| seeded change | property | check result | failed clause |"; echo "|---|---|---|---|"; cat $SW/out*.txt | sort; } > $out
for k in $(seq 0 $((N-1))); do git -C /repo worktree remove --force $SW/repo$k >/dev/null 2>&1; done
git -C /repo worktree prune
rm -rf $SW
echo "done: $(grep -c VIOLATION $out) detected, $(grep -c MISSED $out) missed, of $(($(wc -l < $out)-2))"
