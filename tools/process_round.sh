#!/bin/bash
# usage: tools/process_round.sh <base dir of the round, e.g. /tmp/mut4> <tag, e.g. r4-> <ids...>
# validates the sub-agents' mutants (demo passes clean / fails patched, builds, baseline passes),
# copies confirmed ones to seeded/, runs the owning property's quick check on each and lists misses
base=$1; tag=$2; shift 2
cd "$(dirname "$0")/.."
MUT_BASE=$base MUT_TAG=$tag python3 tools/validate_mutants.py "$@" 2>&1 | sed -E 's/suite=.*patched_demo/patched_demo/'
for p in "$@"; do
  for d in seeded/$p-${tag}m*; do
    [ -d "$d" ] || continue
    r=$(tools/try_mutant.sh $d/patch.diff $p 2>&1 | grep -E '^(VIOLATION|OK)' | head -1 | cut -c1-80)
    echo "== $(basename $d): $r"
  done
done
