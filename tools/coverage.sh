#!/bin/bash
# Measures which statements of /repo's non-test sources the correspondence runs execute: the harness
# is rebuilt with Go's coverage instrumentation for the two library packages, every engine is run
# once (quick tier, one shard), and the merged profile is summarised per file and per function into
# coverage/REPORT.md.  Scratch lives under /tmp/scratch/cov and is removed at the end.
set -e
cd "$(dirname "$0")/.."
export GOFLAGS=-mod=mod GOPROXY=off GOSUMDB=off GOTOOLCHAIN=local
S=/tmp/scratch/cov; rm -rf $S; mkdir -p $S/data
cp /repo/go.sum harness/go.sum 2>/dev/null || true
(cd harness && go build -tags verif -cover -coverpkg=github.com/lyft/protoc-gen-star/v2/...,verifharness/... -o $S/pgsharness ./cmd/pgsharness)
tier="${1:-quick}"
for e in $($S/pgsharness list); do
  GOCOVERDIR=$S/data $S/pgsharness gen -e $e -seed 1 -tier $tier -shard 0/1 > /dev/null 2> $S/$e.err || echo "engine $e exited $?" >&2
done
go tool covdata textfmt -i=$S/data -o $S/profile.txt
mkdir -p coverage
python3 tools/coverage_report.py $S/profile.txt > coverage/REPORT.md
cp $S/profile.txt .work/coverage_profile.txt; rm -rf $S
head -40 coverage/REPORT.md
