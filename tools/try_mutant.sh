#!/bin/bash
# usage: tools/try_mutant.sh <patch.diff> <property-id>...   (applies to /repo, runs checks, always reverts)
patch=$(realpath "$1"); shift
cd /repo || exit 2
if ! git diff --quiet; then echo "/repo has local changes; refusing"; exit 2; fi
git apply "$patch" || { echo "patch does not apply"; exit 2; }
# undo the change, and the files the translator regenerated from the changed tree
trap 'git -C /repo checkout -- . ; git -C /repo clean -fdq; git -C /verif checkout -- lean/PgsVerif/Generated' EXIT
for pid in "$@"; do
  (cd /verif && ./check "$pid" 2>/dev/null | grep -E "^(VIOLATION|OK|KNOWN)" | head -5)
  echo "exit=$? ($pid)"
done
