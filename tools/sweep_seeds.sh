#!/bin/bash
# Unchanged-tree sweep: every property's quick check under several seeds; evidence goes to a
# scratch directory so the committed evidence (seed 1) is not overwritten.
# usage: tools/sweep_seeds.sh "2 3 4" [tier]
cd "$(dirname "$0")/.."
seeds="${1:-2 3 4}"; tier="${2:-quick}"
out=.work/sweep_seeds.log; : > $out
for s in $seeds; do
  for p in C01 C02 C03 C04 C05 C06 C07 C08 C09 C10 C11 C12 C13 C14 C15 C16 C17 C18 C19 C20; do
    VERIF_EVIDENCE_DIR=.work/evidence_sweep VERIF_SEED=$s ./check $p --tier $tier 2>/dev/null | tail -1 | sed "s/^/seed=$s /" >> $out
  done
done
grep -c "^seed=.* OK " $out; grep -v " OK " $out
