#!/bin/bash
# Run every seeded change against the check of the property it breaks; write seeded/RESULTS.md.
# (Applies each patch to /repo and reverts it straight afterwards.)
cd /verif
out=${SWEEP_OUT:-seeded/RESULTS.md}   # VERIF_SEED=<n> SWEEP_OUT=.work/RESULTS-seed<n>.md for the seed-sensitivity sweeps
echo "| seeded change | property | check result | failed clause |" > $out.tmp
echo "|---|---|---|---|" >> $out.tmp
for d in seeded/*/; do
  id=$(basename $d)
  [ -f $d/patch.diff ] || continue
  pid=$(python3 -c "import json;m=json.load(open('$d/meta.json'));print(m.get('breaks') or m.get('property'))")
  (cd /repo && git diff --quiet) || { echo "/repo dirty"; exit 2; }
  (cd /repo && git apply /verif/$d/patch.diff) || { echo "| $id | $pid | PATCH DOES NOT APPLY | |" >> $out.tmp; continue; }
  res=$(./check $pid 2>/dev/null | grep -E "^(VIOLATION|OK)" | head -1)
  clause=""
  rp=$(echo "$res" | sed -n 's/.*replay=\([^ ]*\).*/\1/p')
  if [ -n "$rp" ] && [ -f "$rp" ]; then clause=$(python3 -c "import json;r=json.load(open('$rp'));print(str(r.get('failed_clause') or r.get('broken'))[:110].replace('|','/'))"); fi
  (cd /repo && git checkout -- . && git clean -fdq)
  case "$res" in VIOLATION*no-failing-input-found) r="VIOLATION (no-failing-input-found)";; VIOLATION*) r="VIOLATION with replay";; *) r="MISSED";; esac
  echo "| $id | $pid | $r | $clause |" >> $out.tmp
  echo "$id $pid $r"
done
mv $out.tmp $out
