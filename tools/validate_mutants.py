#!/usr/bin/env python3
"""Validate sub-agent mutants in their scratch worktrees and copy confirmed ones to /verif/seeded/.
usage: validate_mutants.py C01 C02 ...   (expects /tmp/mut/<id> worktree and /tmp/mut/<id>.out/m<k>/)"""
import json, os, shutil, subprocess, sys, glob
ENV = dict(os.environ, GOFLAGS="-mod=mod", GOPROXY="off", GOSUMDB="off", GOTOOLCHAIN="local")

def sh(cmd, cwd=None):
    p = subprocess.run(cmd, shell=True, cwd=cwd, env=ENV, stdout=subprocess.PIPE, stderr=subprocess.STDOUT, text=True, errors="replace")
    return p.returncode, p.stdout

def clean(wt):
    sh("git checkout -- . && git clean -fdq", wt)

BASE = os.environ.get("MUT_BASE", "/tmp/mut")       # round 2: MUT_BASE=/tmp/mut2 MUT_TAG=r2-
TAG = os.environ.get("MUT_TAG", "")
for pid in sys.argv[1:]:
    wt = f"{BASE}/{pid}"
    for md in sorted(glob.glob(f"{BASE}/{pid}.out/m*")):
        k = os.path.basename(md)
        meta = json.load(open(os.path.join(md, "meta.json")))
        demo = meta["demo_cmd"].replace("<repo>", wt).replace("<worktree>", wt)
        clean(wt)
        rc_a, out_a = sh(demo, wt)                      # (a) demo passes on clean tree
        clean(wt)
        rc_ap, out_ap = sh(f"git apply {md}/patch.diff", wt)
        rc_b, out_b = sh("go build ./...", wt)
        rc_s, out_s = sh(f"VERIF_REPO={wt} python3 /verif/tools/baseline.py")
        rc_d, out_d = sh(demo, wt)                      # demo fails with the patch
        clean(wt)
        passed = lambda rc, out: rc == 0 and "FAIL" not in out and "panic:" not in out
        rc_a = 0 if passed(rc_a, out_a) else 1
        rc_d = 0 if passed(rc_d, out_d) else 1
        ok = rc_a == 0 and rc_ap == 0 and rc_b == 0 and rc_s == 0 and "missing=0 new_failures=0" in out_s and rc_d != 0
        print(f"{pid} {k}: clean_demo={rc_a} apply={rc_ap} build={rc_b} suite={out_s.strip().splitlines()[0] if out_s.strip() else rc_s} patched_demo={rc_d} => {'CONFIRMED' if ok else 'REJECTED'}", flush=True)
        if ok:
            dst = f"/verif/seeded/{pid}-{TAG}{k}"
            shutil.rmtree(dst, ignore_errors=True)
            os.makedirs(dst)
            for f in os.listdir(md):
                shutil.copy(os.path.join(md, f), dst)
            meta.update({"breaks": pid, "validated": {
                "clean_tree_demo": "pass", "patch_applies": True, "builds": True,
                "suite": out_s.strip().splitlines()[0], "patched_demo": "fail",
                "ran": ["<demo_cmd> on clean worktree", "git apply patch.diff", "go build ./...", "tools/baseline.py on the worktree", "<demo_cmd> again"],
                "base_commit": sh("git rev-parse HEAD", wt)[1].strip()}})
            json.dump(meta, open(os.path.join(dst, "meta.json"), "w"), indent=1)
