#!/usr/bin/env python3
"""Regenerate MANIFEST.json from tools/verif_cfg.py (claimed properties) + properties.jsonl."""
import json, os, sys
ROOT = os.path.dirname(os.path.dirname(os.path.abspath(__file__)))
sys.path.insert(0, os.path.join(ROOT, "tools"))
import verif_cfg as cfg

props = [json.loads(l) for l in open(os.path.join(ROOT, "properties.jsonl"))]
checks, na = [], []
for p in props:
    pid = p["id"]
    c = cfg.PROPS.get(pid)
    if not c or c.get("pending"):
        na.append({"property_id": pid, "reason": (c or {}).get("pending", "check not built yet (work in progress; see DESIGN.md section 5)")})
        continue
    checks.append({
        "property_id": pid,
        "quick_cmd": f"./check {pid} --tier quick",
        "thorough_cmd": f"./check {pid} --tier thorough",
        "evidence_file": f"/verif/evidence/{pid}.json",
        "replay_cmd_template": f"./check {pid} --replay {{path}}",
        "engine": "lean-proof+correspondence",
        "level_claimed": {"category": c.get("category", "proof"), "text": c["level_text"], "design_ref": c.get("design_ref", f"DESIGN.md section 5, {pid}")},
        "level_note": c["level_note"],
        "technique": c.get("technique", "Lean 4 theorems over a hand-written executable model; model tied to /repo on every check by (1) a differential correspondence run (real Go code vs. compiled Lean model on generated inputs, Phi judged on every implementation observation) and (2) for the source's literal tables a go/ast translator (factgen) whose output the tie theorems Props/Tie*.lean compare with the model"),
    })
m = {
    "version": 1,
    "setup_cmd": "./setup.sh",
    "hooks": {
        "guard": "verif",
        "enable": "go build -tags verif (the harness module replaces github.com/lyft/protoc-gen-star/v2 by /repo); no guarded files exist in /repo: every observation goes through exported API",
        "baseline_off_cmd": "python3 /verif/tools/baseline.py",
        "source_commits": [],
        "add_only": True,
    },
    "engines": [
        {"name": "lean", "path": "lean/", "serves_properties": [c["property_id"] for c in checks],
         "kind_free_text": "Lean 4 project PgsVerif: Model/ (executable models, core only), Proofs/ (lemmas), Props/ (property theorems), Driver (line-protocol executable running the models and the property checkers)"},
        {"name": "harness", "path": "harness/", "serves_properties": [c["property_id"] for c in checks],
         "kind_free_text": "Go module replacing protoc-gen-star by /repo: input generators, in-process / crash-isolated runners of the real code, canonicalisers; factgen (go/ast table extractor)"},
        {"name": "check", "path": "check", "serves_properties": [c["property_id"] for c in checks],
         "kind_free_text": "python orchestrator: build proofs, audit axioms, run correspondence, decide, write evidence and replays"},
    ],
    "checks": checks,
    "not_applicable": na,
    "notes": "Every check: (1) lake build of the property's theorems + axiom audit, (2) harness rebuilt from /repo's working tree, (3) model vs implementation on generated inputs and Phi (the property as a checker, proved to hold of the model) on every implementation observation. See DESIGN.md.",
}
json.dump(m, open(os.path.join(ROOT, "MANIFEST.json"), "w"), indent=1)
print("claimed:", [c["property_id"] for c in checks], "not_applicable:", len(na))
