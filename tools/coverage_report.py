#!/usr/bin/env python3
"""Summarise a Go text coverage profile of /repo (module github.com/lyft/protoc-gen-star/v2) per file and
per function (functions located with a light-weight scan of the source)."""
import re, sys, os, collections, json
prof = sys.argv[1]
MOD = "github.com/lyft/protoc-gen-star/v2/"
blocks = collections.defaultdict(dict)   # file -> (sl,sc,el,ec) -> (nstmt, hit)
for line in open(prof):
    if line.startswith("mode:"):
        continue
    m = re.match(r"(.+):(\d+)\.(\d+),(\d+)\.(\d+) (\d+) (\d+)", line)
    if not m:
        continue
    f = m.group(1)
    if not f.startswith(MOD):
        continue
    f = f[len(MOD):]
    key = tuple(int(m.group(i)) for i in (2, 3, 4, 5))
    n, c = int(m.group(6)), int(m.group(7))
    old = blocks[f].get(key, (n, 0))
    blocks[f][key] = (n, old[1] + c)

props = [json.loads(l) for l in open(os.path.join(os.path.dirname(__file__), "..", "properties.jsonl"))]
anchored = collections.defaultdict(list)
for p in props:
    for a in p["anchors"]["files"]:
        anchored[a].append(p["id"])

def funcs(path):
    out = []
    try:
        src = open(os.path.join("/repo", path)).read().split("\n")
    except OSError:
        return out
    cur = None
    for i, l in enumerate(src, 1):
        m = re.match(r"func\s+(\([^)]*\)\s*)?([A-Za-z0-9_]+)", l)
        if m:
            recv = re.sub(r"[()*\s]|\b\w+\s+", "", m.group(1) or "") if m.group(1) else ""
            recv = (m.group(1) or "").strip("() ").split()[-1].lstrip("*") if m.group(1) else ""
            cur = [(recv + "." if recv else "") + m.group(2), i, None]
            out.append(cur)
        if l.startswith("}") and cur and cur[2] is None:
            cur[2] = i
    return [(n, a, b or a) for n, a, b in out]

print("# Statement coverage of /repo by the correspondence runs (quick tier, seed 1, one shard per engine)\n")
print("Produced by `tools/coverage.sh` (Go `-cover` build of the harness, `GOCOVERDIR`, `go tool covdata`).")
print("It measures what the *generators* reach in the real code; it is evidence about the tie between model")
print("and code, not a verification result.\n")
tot_n = tot_h = 0
rows = []
for f in sorted(blocks):
    n = sum(v[0] for v in blocks[f].values())
    h = sum(v[0] for v in blocks[f].values() if v[1] > 0)
    tot_n += n; tot_h += h
    rows.append((f, n, h))
print(f"Total: {tot_h}/{tot_n} statements ({100.0*tot_h/max(1,tot_n):.1f} %) of the two library packages.\n")
print("| file | statements | covered | % | anchors of |")
print("|---|---|---|---|---|")
for f, n, h in rows:
    print(f"| {f} | {n} | {h} | {100.0*h/max(1,n):.0f} | {' '.join(anchored.get(f, []))} |")
print("\n## Functions in files anchored by a property that are not fully covered\n")
print("| file | function | covered statements |")
print("|---|---|---|")
for f, n, h in rows:
    if f not in anchored:
        continue
    for name, a, b in funcs(f):
        bn = bh = 0
        for (sl, sc, el, ec), (k, c) in blocks[f].items():
            if sl >= a and el <= b:
                bn += k; bh += k if c > 0 else 0
        if bn and bh < bn:
            print(f"| {f} | {name} | {bh}/{bn} |")

print("\n## Uncovered blocks in anchored files (file:startline-endline)\n")
for f, n, h in rows:
    if f not in anchored:
        continue
    unc = sorted(k for k, v in blocks[f].items() if v[1] == 0)
    if unc:
        print(f"* {f}: " + ", ".join(f"{a}-{c}" for a, b, c, d in unc))
