package main

import (
	"fmt"
	"regexp"
	"sort"

	pgs "github.com/lyft/protoc-gen-star/v2"
	pgsgo "github.com/lyft/protoc-gen-star/v2/lang/go"
	"google.golang.org/protobuf/compiler/protogen"
	"google.golang.org/protobuf/reflect/protoreflect"
)

// ---- C17: Go types, packages and paths ----

var qualifierRE = regexp.MustCompile(`([A-Za-z_][A-Za-z0-9_]*)\.([A-Za-z_][A-Za-z0-9_]*)`)

type typeCmp struct {
	Ref ref    `json:"ref"`
	Pgs string `json:"pgs"` // pgsgo Type(field)
	Gen string `json:"gen"` // reference: protoc-gen-go's struct field type, qualifier = package name of the defining file
	Src string `json:"src"` // the type expression in the generated source, import aliases mapped back to package names ("" if the file is not generated)
}
type fileCmp struct {
	File   int    `json:"file"`
	PgsPkg string `json:"pgsPkg"`
	GenPkg string `json:"genPkg"`
	PgsImp string `json:"pgsImp"`
	GenImp string `json:"genImp"`
	PgsOut string `json:"pgsOut"`
	GenOut string `json:"genOut"`
}
type c17Obs struct {
	Failed bool      `json:"failed"`
	Types  []typeCmp `json:"types"`
	Files  []fileCmp `json:"files"`
}

// refGoType is protoc-gen-go v1.23.0's fieldGoType, with identifiers qualified by the package
// NAME of the defining file (what the property speaks about) when its import path differs.
func refGoType(self *protogen.File, f *protogen.Field, pkgOf map[string]string) string {
	qual := func(id protogen.GoIdent) string {
		if id.GoImportPath == self.GoImportPath {
			return id.GoName
		}
		return pkgOf[string(id.GoImportPath)] + "." + id.GoName
	}
	var base func(f *protogen.Field) (string, bool)
	base = func(f *protogen.Field) (string, bool) {
		pointer := f.Desc.HasPresence()
		var t string
		switch f.Desc.Kind() {
		case protoreflect.BoolKind:
			t = "bool"
		case protoreflect.EnumKind:
			t = qual(f.Enum.GoIdent)
		case protoreflect.Int32Kind, protoreflect.Sint32Kind, protoreflect.Sfixed32Kind:
			t = "int32"
		case protoreflect.Uint32Kind, protoreflect.Fixed32Kind:
			t = "uint32"
		case protoreflect.Int64Kind, protoreflect.Sint64Kind, protoreflect.Sfixed64Kind:
			t = "int64"
		case protoreflect.Uint64Kind, protoreflect.Fixed64Kind:
			t = "uint64"
		case protoreflect.FloatKind:
			t = "float32"
		case protoreflect.DoubleKind:
			t = "float64"
		case protoreflect.StringKind:
			t = "string"
		case protoreflect.BytesKind:
			t, pointer = "[]byte", false
		case protoreflect.MessageKind, protoreflect.GroupKind:
			t, pointer = "*"+qual(f.Message.GoIdent), false
		}
		switch {
		case f.Desc.IsList():
			return "[]" + t, false
		case f.Desc.IsMap():
			k, _ := base(f.Message.Fields[0])
			v, _ := base(f.Message.Fields[1])
			return fmt.Sprintf("map[%s]%s", k, v), false
		}
		return t, pointer
	}
	t, ptr := base(f)
	if ptr {
		return "*" + t
	}
	return t
}

func observeC17(r *astRun) c17Obs {
	o := c17Obs{Types: []typeCmp{}, Files: []fileCmp{}}
	if r.failed {
		o.Failed = true
		return o
	}
	gr := runProtogen(r.w, r.b, r.w.Param)
	if gr.err != nil {
		return c17Obs{Failed: true, Types: []typeCmp{{Ref: noRef, Pgs: gr.err.Error()}}}
	}
	params := pgs.ParseParameters(r.w.Param)
	ctx := pgsgo.InitContext(params)
	if len(r.w.Files)%2 == 0 {
		// the context exists first, the path mode is set afterwards - `SetPaths` is the documented
		// runtime override; what counts is the mode in force when a path is asked for
		late := pgs.Parameters{}
		if pgsgo.Paths(params) == pgsgo.SourceRelative {
			pgsgo.SetPaths(late, pgsgo.ImportPathRelative)
		} else {
			pgsgo.SetPaths(late, pgsgo.SourceRelative)
		}
		ctx = pgsgo.InitContext(late)
		pgsgo.SetPaths(late, pgsgo.Paths(params))
	}
	// protogen fields by reference
	fields := map[string]*protogen.Field{}
	owner := map[string]*protogen.File{}
	var msg func(f *protogen.File, m *protogen.Message)
	msg = func(f *protogen.File, m *protogen.Message) {
		for _, fd := range m.Fields {
			k := refOfDesc(gr.fileIdx, fd.Desc).key()
			fields[k], owner[k] = fd, f
		}
		for _, sm := range m.Messages {
			msg(f, sm)
		}
	}
	for _, f := range gr.gen.Files {
		for _, m := range f.Messages {
			msg(f, m)
		}
	}
	for _, en := range allEntities(r) {
		switch x := en.e.(type) {
		case pgs.File:
			pf := gr.files[en.ref.File]
			fc := fileCmp{File: en.ref.File, PgsPkg: ctx.PackageName(x).String(), PgsImp: ctx.ImportPath(x).String(), PgsOut: ctx.OutputPath(x).String()}
			if pf != nil {
				fc.GenPkg, fc.GenImp, fc.GenOut = string(pf.GoPackageName), string(pf.GoImportPath), pf.GeneratedFilenamePrefix+".pb.go"
			}
			o.Files = append(o.Files, fc)
		case pgs.Extension:
		case pgs.Field:
			if x.InRealOneOf() || inMapEntry(r.w, en.ref) {
				continue
			}
			pf, ok := fields[en.ref.key()]
			if !ok {
				continue
			}
			tc := typeCmp{Ref: en.ref, Gen: refGoType(owner[en.ref.key()], pf, gr.pkgOf)}
			func() {
				defer func() {
					if p := recover(); p != nil {
						tc.Pgs = fmt.Sprint("panic: ", p)
					}
				}()
				tc.Pgs = ctx.Type(x).String()
			}()
			if owner[en.ref.key()].Generate {
				parent := gr.names[r.refOf(x.Message()).key()+"|msg"]
				src := gr.srcField[en.ref.File][parent+"."+pf.GoName]
				// import aliases -> package names of the imported files (one pass, whole qualifiers only)
				imps := gr.imports[en.ref.File]
				src = qualifierRE.ReplaceAllStringFunc(src, func(q string) string {
					m := qualifierRE.FindStringSubmatch(q)
					alias, sel := m[1], m[2]
					paths := imps[alias]
					if len(paths) > 1 { // one alias, several imports (`_ "."` next to blank imports): the one that declares the identifier
						var hit []string
						for _, p := range paths {
							if gr.declBy[p][sel] {
								hit = append(hit, p)
							}
						}
						paths = hit
					}
					if len(paths) == 1 {
						if name, ok := gr.pkgOf[paths[0]]; ok {
							return name + "." + sel
						}
					}
					return q
				})
				tc.Src = src
				if src == "" {
					tc.Src = "\x00missing"
				}
				if src == "\x00ambiguous" {
					tc.Src = tc.Gen // not compared
				}
			}
			o.Types = append(o.Types, tc)
		}
	}
	sort.SliceStable(o.Files, func(i, j int) bool { return o.Files[i].File < o.Files[j].File })
	return o
}

// goCuratedWorlds: the collision probe behind F11 and package-option forms.
func goCuratedWorlds() []wWorld {
	i := func(v int) *int { return &v }
	f := func(name string, num int) wField { return wField{Name: name, Number: num, Label: 1, Type: 9} }
	of := func(name string, num, idx int) wField {
		x := f(name, num)
		x.OneofIndex = i(idx)
		return x
	}
	mh := func(name string, fields ...wField) wMsgHead {
		if fields == nil {
			fields = []wField{}
		}
		return wMsgHead{Name: name, Fields: fields, Enums: []wEnum{}, Oneofs: []string{}, Exts: []wField{}}
	}
	fl := wFile{Name: "probe.proto", Pkg: "probe", Syn: "proto2", Deps: []string{}, PublicDeps: []int{}, Enums: []wEnum{}, Msgs: []wMsg{}, Services: []wService{}, Exts: []wField{}, Locs: []wLoc{},
		GoPackage: "example.com/probe"}
	// getter collisions and protected names, in both declaration orders
	a := wMsg{Head: mh("Getters", f("foo", 1), f("get_foo", 2), f("reset", 3), f("reset_", 4), f("get_reset", 5), f("string", 6), f("descriptor", 7)), Nested: []wMsg{}}
	b := wMsg{Head: mh("GettersRev", f("get_foo", 1), f("foo", 2), f("get_get_foo", 3)), Nested: []wMsg{}}
	// oneof wrappers colliding with nested types (also twice, also with a map entry), oneof names colliding with fields
	c := wMsg{Head: mh("Wrap", of("bar", 1, 0), of("baz", 2, 0), of("bar_", 3, 0), f("choice", 4), of("reset", 5, 1)), Nested: []wMsg{
		{Head: mh("Bar"), Nested: []wMsg{}}, {Head: mh("Bar_"), Nested: []wMsg{}}}}
	c.Head.Oneofs = []string{"choice_", "descriptor"}
	c.Head.Enums = []wEnum{{Name: "Baz", Values: []wEnumVal{{"BAZ_ZERO", 0}}}}
	d := wMsg{Head: mh("WrapMap", wField{Name: "foo", Number: 1, Label: 3, Type: 11, TypeName: ".probe.WrapMap.FooEntry"}, of("foo_entry", 2, 0), of("other", 3, 0)), Nested: []wMsg{
		{Head: wMsgHead{Name: "FooEntry", MapEntry: true, Fields: []wField{f("key", 1), f("value", 2)}, Enums: []wEnum{}, Oneofs: []string{}, Exts: []wField{}}, Nested: []wMsg{}}}}
	d.Head.Oneofs = []string{"pick"}
	// nested types whose names start with a lower-case letter join WITHOUT '_' (Doc.text_block -> DocTextBlock):
	// members named like them must not be treated as colliding (Doc_TextBlock), also at depth 2
	inner := wMsg{Head: mh("part", of("kind", 1, 0), of("Kind", 2, 0)), Nested: []wMsg{{Head: mh("kind_"), Nested: []wMsg{}}}}
	inner.Head.Oneofs = []string{"sel"}
	inner.Head.Enums = []wEnum{{Name: "kind2d", Values: []wEnumVal{{"K2D_ZERO", 0}}}}
	e := wMsg{Head: mh("Doc", of("textBlock", 1, 0), of("Kind", 2, 0), of("sha256sum", 3, 0), f("vector3d_point", 4)), Nested: []wMsg{
		{Head: mh("text_block"), Nested: []wMsg{}}, {Head: mh("sha256Sum"), Nested: []wMsg{}}, inner}}
	e.Head.Oneofs = []string{"body"}
	e.Head.Enums = []wEnum{{Name: "kind", Values: []wEnumVal{{"KIND_ZERO", 0}}}}
	// the conflict loop must start over after every rename: here the colliding nested types are
	// declared in the order that needs a second pass (Bar_ before Bar, Baz_ before Baz)
	rev := wMsg{Head: mh("WrapRev", of("bar", 1, 0), of("baz", 2, 0)), Nested: []wMsg{
		{Head: mh("Bar_"), Nested: []wMsg{}}, {Head: mh("Bar"), Nested: []wMsg{}}}}
	rev.Head.Oneofs = []string{"c"}
	rev.Head.Enums = []wEnum{{Name: "Baz_", Values: []wEnumVal{{"BAZ1_ZERO", 0}}}, {Name: "Baz", Values: []wEnumVal{{"BAZ2_ZERO", 0}}}}
	// reserving a oneof's name (no getter) gives up an earlier reservation of Get<name>:
	// field get_x (GetX, GetGetX), oneof x (X; GetX free again), oneof getX -> GetX, not GetX_
	free1 := wMsg{Head: mh("Free1", f("get_x", 1), of("a", 2, 0), of("b", 3, 1)), Nested: []wMsg{}}
	free1.Head.Oneofs = []string{"x", "getX"}
	free2 := wMsg{Head: mh("Free2", of("a", 1, 0), of("b", 2, 1), f("getX", 3)), Nested: []wMsg{}}
	free2.Head.Oneofs = []string{"get_x", "x"}
	ctrl := wMsg{Head: mh("FreeCtrl", f("get_x", 1), of("b", 2, 0)), Nested: []wMsg{}}
	ctrl.Head.Oneofs = []string{"getX"}
	fl.Msgs = []wMsg{a, b, c, d, e, rev, free1, free2, ctrl}
	// a bare-name go_package at the root directory has import path ".", for which protoc-gen-go
	// emits the qualifier `_` - the same alias as its blank imports of unused dependencies
	// (false alarm of the thorough tier, seed 1: the source reader resolved `_` to the wrong import)
	emptyF := func(name, pkg, gopkg string, deps ...string) wFile {
		if deps == nil {
			deps = []string{}
		}
		return wFile{Name: name, Pkg: pkg, Syn: "proto2", Deps: deps, PublicDeps: []int{}, Enums: []wEnum{}, Msgs: []wMsg{}, Services: []wService{}, Exts: []wField{}, Locs: []wLoc{}, GoPackage: gopkg}
	}
	r0 := emptyF("dir1/f0.proto", "", "example.com/z/a.b-c;d-e.f")
	r0.Services = []wService{{Name: "Svc", Methods: []wMethod{}}}
	r1 := emptyF("f1.proto", "a.b", "bareroot")
	r1.Msgs = []wMsg{{Head: mh("Item", f("x", 1)), Nested: []wMsg{}}}
	r1.Enums = []wEnum{{Name: "Kind", Values: []wEnumVal{{"KIND_UNKNOWN", 0}}}}
	r2 := emptyF("dir0/f2.proto", "c", "example.com/x/v1.2", "dir1/f0.proto", "f1.proto")
	r2.Msgs = []wMsg{{Head: mh("User", wField{Name: "item", Number: 1, Label: 1, Type: 11, TypeName: ".a.b.Item"},
		wField{Name: "kinds", Number: 2, Label: 3, Type: 14, TypeName: ".a.b.Kind"}), Nested: []wMsg{}}}
	// round-2 seeded changes: (1) the synthetic oneof of a proto3-optional field reserves its Go name
	// (`_foo` -> XFoo) against a sibling `x_foo`; (2) oneof wrapper names collide only with DIRECT
	// nested types: M.A.B (Go M_A_B) two levels down must not rename the wrapper of member `a_B`
	p3 := emptyF("probe3.proto", "probe3", "example.com/probe3")
	p3.Syn = "proto3"
	optFoo := f("foo", 1)
	optFoo.Proto3Optional = true
	optFoo.OneofIndex = i(0)
	opt := wMsg{Head: mh("Opt", optFoo, f("x_foo", 2)), Nested: []wMsg{}}
	opt.Head.Oneofs = []string{"_foo"}
	deepA := wMsg{Head: mh("A"), Nested: []wMsg{{Head: mh("B"), Nested: []wMsg{}}}}
	deepA.Head.Enums = []wEnum{{Name: "E", Values: []wEnumVal{{"E_ZERO", 0}}}}
	deep := wMsg{Head: mh("Deep", of("a_B", 1, 0), of("A_E", 2, 0), of("a", 3, 0)), Nested: []wMsg{deepA}}
	deep.Head.Oneofs = []string{"o"}
	p3.Msgs = []wMsg{opt, deep}
	// round-2 seeded change C16-r2-m2 (found again by the regression sweep when the random worlds
	// stopped producing the shape): two different messages with the same Go package NAME and the same
	// Go type name (different import paths) in one request - whatever is remembered per message must
	// be keyed by the message, not by how it is spelled in Go
	v1a := emptyF("acme/a/v1/item.proto", "acme.a.v1", "example.com/acme/a/v1;v1")
	v1a.Msgs = []wMsg{{Head: mh("Item", f("foo", 1), f("get_foo", 2)), Nested: []wMsg{}}}
	v1b := emptyF("acme/b/v1/item.proto", "acme.b.v1", "example.com/acme/b/v1;v1")
	twin := wMsg{Head: mh("Item", f("reset", 1), of("string", 2, 0), of("item", 3, 0)), Nested: []wMsg{{Head: mh("Item"), Nested: []wMsg{}}}}
	twin.Head.Oneofs = []string{"descriptor"}
	v1b.Msgs = []wMsg{twin}
	// the same bare-name go_package in two directories: the import path of such a file is its OWN
	// directory, so the two are different Go packages with the same name
	sa := emptyF("alpha/a.proto", "sh.a", "shared")
	sa.Msgs = []wMsg{{Head: mh("A", f("x", 1)), Nested: []wMsg{}}}
	sb := emptyF("beta/b.proto", "sh.b", "shared", "alpha/a.proto")
	sb.Msgs = []wMsg{{Head: mh("B", wField{Name: "a", Number: 1, Label: 1, Type: 11, TypeName: ".sh.a.A"}), Nested: []wMsg{}}}
	// every ordered choice of three of these member names, each a plain field or a oneof (reserved
	// when its first member is met): all the ways an appended underscore can run into an earlier
	// name, an earlier getter, or a getter given up by a oneof
	uq := emptyF("uniq.proto", "uniq", "example.com/uniq")
	{
		pool := []string{"foo", "get_foo", "foo_", "get_foo_", "get_get_foo"}
		for a := range pool {
			for b := range pool {
				for c := range pool {
					if a == b || a == c || b == c {
						continue
					}
					for kinds := 0; kinds < 8; kinds++ {
						m := wMsg{Head: mh(fmt.Sprintf("U%d", len(uq.Msgs))), Nested: []wMsg{}}
						for k, nm := range []string{pool[a], pool[b], pool[c]} {
							num := len(m.Head.Fields) + 1
							if kinds&(1<<uint(k)) == 0 {
								m.Head.Fields = append(m.Head.Fields, f(nm, num))
								continue
							}
							m.Head.Fields = append(m.Head.Fields, of(fmt.Sprintf("z%d", k), num, len(m.Head.Oneofs)), of(fmt.Sprintf("y%d", k), num+1, len(m.Head.Oneofs)))
							m.Head.Oneofs = append(m.Head.Oneofs, nm)
						}
						uq.Msgs = append(uq.Msgs, m)
					}
				}
			}
		}
	}
	return []wWorld{{Files: []wFile{fl}, Targets: []string{"probe.proto"}},
		{Files: []wFile{uq}, Targets: []string{"uniq.proto"}},
		{Files: []wFile{sa, sb}, Targets: []string{"alpha/a.proto", "beta/b.proto"}},
		{Files: []wFile{r0, r1, r2}, Targets: []string{"f1.proto", "dir0/f2.proto"}},
		{Files: []wFile{p3}, Targets: []string{"probe3.proto"}},
		{Files: []wFile{v1a, v1b}, Targets: []string{"acme/a/v1/item.proto", "acme/b/v1/item.proto"}},
		{Files: []wFile{v1b, v1a}, Targets: []string{"acme/a/v1/item.proto", "acme/b/v1/item.proto"}}}
}
