package main

import (
	"encoding/json"
	"fmt"
	"math"
	"sort"
	"strconv"
	"time"

	pgs "github.com/lyft/protoc-gen-star/v2"
)

// ---- C19: Parameters ----

type kvB [2]B

type clOp struct {
	T int `json:"t"`
	K B   `json:"k"`
	V B   `json:"v"`
}
type c19In struct {
	Op  string      `json:"op"`
	S   B           `json:"s"`
	M   []kvB       `json:"m"`
	I   int64       `json:"i"`
	U   uint64      `json:"u"`
	Bv  bool        `json:"b"`
	Ops []clOp      `json:"ops"`
	X   interface{} `json:"x,omitempty"` // codec payload (harness only)
}
type c19Obs struct {
	Entries []kvB    `json:"entries"`
	Print   B        `json:"print"`
	Reparse []kvB    `json:"reparse"`
	Bools   []string `json:"bools"`
	Stored  B        `json:"stored"`
	Got     string   `json:"got"`
	Other   []kvB    `json:"other"`
}

func emptyC19Obs() c19Obs {
	return c19Obs{Entries: []kvB{}, Print: B{}, Reparse: []kvB{}, Bools: []string{}, Stored: B{}, Got: "", Other: []kvB{}}
}

func sortedKV(p pgs.Parameters) []kvB {
	keys := make([]string, 0, len(p))
	for k := range p {
		keys = append(keys, k)
	}
	sort.Strings(keys)
	out := make([]kvB, 0, len(keys))
	for _, k := range keys {
		out = append(out, kvB{toB(k), toB(p[k])})
	}
	return out
}

func obsOfParams(p pgs.Parameters) c19Obs {
	o := emptyC19Obs()
	o.Entries = sortedKV(p)
	pr := p.String()
	// determinism: printing twice (and printing a clone) must give the same text
	for i := 0; i < 3; i++ {
		if p.Clone().String() != pr {
			pr = "\x00nondeterministic"
		}
	}
	o.Print = toB(pr)
	o.Reparse = sortedKV(pgs.ParseParameters(pr))
	for _, kv := range o.Entries {
		b, err := p.Bool(kv[0].String())
		switch {
		case err != nil:
			o.Bools = append(o.Bools, "e")
		case b:
			o.Bools = append(o.Bools, "t")
		default:
			o.Bools = append(o.Bools, "f")
		}
	}
	return o
}

type c19Engine struct{}

func (c19Engine) Isolated() bool { return false }

func (c19Engine) Gen(g *Gen) {
	base := func(op string) c19In {
		return c19In{Op: op, S: B{}, M: []kvB{}, Ops: []clOp{}}
	}
	emitParse := func(s string) {
		in := base("parse")
		in.S = toB(s)
		g.Count("op", "parse")
		g.Emit(in)
	}
	// exhaustive strings over {a, b, ',', '=', ' '} up to length 6 (7 thorough)
	alpha := []string{"a", "b", ",", "=", " "}
	maxLen := 6
	if g.Thorough() {
		maxLen = 8
	}
	var rec func(p string, n int)
	rec = func(p string, n int) {
		emitParse(p)
		if n == 0 {
			return
		}
		for _, a := range alpha {
			rec(p+a, n-1)
		}
	}
	rec("", maxLen)
	// the same over an alphabet with the characters other syntaxes give a meaning: backslash,
	// quotes, percent, semicolon, newline - here they are ordinary
	alpha = []string{"a", ",", "=", "\\", "\"", "%", ";", "\n"}
	var rec2 func(p string, n int)
	rec2 = func(p string, n int) {
		emitParse(p)
		if n == 0 {
			return
		}
		for _, a := range alpha {
			rec2(p+a, n-1)
		}
	}
	rec2("", maxLen-2)
	for _, s := range []string{"foo=bar,fizz", "foo=bar,foo", "a= ", "a=\t", "output_path=/x,paths=source_relative,Ma/b.proto=c/d", "k=é,é=k", "\xff=\xfe,\xff", "a==,=,==a"} {
		emitParse(s)
	}
	pool := []string{"a", "b", "c", "ab", "", " ", "x y", "1", "true", "é", "\xff", "a=b", "=", "==", "k", "zz", "A", "_", "-", "a b", "x\\", "\\", "B", "Ab", "aB", "%d", "\"q\""}
	nrand := 3000
	if g.Thorough() {
		nrand = 60000
	}
	// random maps (in and out of the stated domain)
	for i := 0; i < nrand; i++ {
		in := base("print")
		n := g.Rng.Intn(5)
		if g.Rng.Intn(10) > 0 && n == 0 {
			n = 1
		}
		used := map[string]bool{}
		for j := 0; j < n; j++ {
			k := pick(g.Rng, pool[:12])
			if g.Rng.Intn(3) == 0 {
				k += pick(g.Rng, pool)
			}
			if g.Rng.Intn(12) == 0 {
				k += ","
			}
			v := pick(g.Rng, pool)
			if g.Rng.Intn(4) == 0 {
				v += "=" + pick(g.Rng, pool)
			}
			if g.Rng.Intn(15) == 0 {
				v += ",q"
			}
			if used[k] {
				continue
			}
			used[k] = true
			in.M = append(in.M, kvB{toB(k), toB(v)})
		}
		g.Count("op", "print")
		g.Count("print_entries", fmt.Sprint(len(in.M)))
		g.Emit(in)
	}
	// typed values
	ints := []int64{0, 1, -1, 9, 10, -10, 99, 100, 12345, math.MaxInt64, math.MinInt64, math.MaxInt64 - 1, math.MinInt64 + 1, math.MaxInt32, math.MinInt32, 1 << 53}
	for i := 0; i < nrand/10; i++ {
		ints = append(ints, g.Rng.Int63()>>uint(g.Rng.Intn(63))*int64(1-2*g.Rng.Intn(2)))
	}
	for _, v := range ints {
		in := base("int")
		in.I = v
		g.Count("op", "int")
		g.Emit(in)
	}
	uints := []uint64{0, 1, 9, 10, 99, 100, math.MaxUint64, math.MaxUint64 - 1, 1 << 63, 1<<63 - 1, 1<<63 + 1, math.MaxUint32}
	for i := 0; i < nrand/10; i++ {
		uints = append(uints, g.Rng.Uint64()>>uint(g.Rng.Intn(64)))
	}
	for _, v := range uints {
		in := base("uint")
		in.U = v
		g.Count("op", "uint")
		g.Emit(in)
	}
	for _, b := range []bool{true, false} {
		in := base("bool")
		in.Bv = b
		g.Emit(in)
	}
	raws := []string{"", " ", "\t\n", "0", "1", "t", "T", "f", "F", "true", "TRUE", "True", "tRue", "false", "FALSE", "False", "yes", "-", "+", "-0", "+0", "+5", "-5",
		"007", "1_000", "0x10", "9223372036854775807", "9223372036854775808", "-9223372036854775808", "-9223372036854775809", "18446744073709551615", "18446744073709551616",
		"1e3", " 1", "1 ", "１", "99999999999999999999999", "--1", "+-1", "a"}
	for _, s := range raws {
		for _, op := range []string{"getint", "getuint", "getbool"} {
			in := base(op)
			in.S = toB(s)
			g.Count("op", op)
			g.Emit(in)
		}
	}
	for i := 0; i < nrand/5; i++ {
		cs := "0123456789+-_ tTfFaeEx."
		l := g.Rng.Intn(22)
		b := make([]byte, l)
		for j := range b {
			if g.Rng.Intn(3) > 0 {
				b[j] = cs[g.Rng.Intn(10)]
			} else {
				b[j] = cs[g.Rng.Intn(len(cs))]
			}
		}
		for _, op := range []string{"getint", "getuint", "getbool"} {
			in := base(op)
			in.S = toB(string(b))
			g.Emit(in)
		}
	}
	// clone independence: maps of 0..3 entries, then writes through either handle
	for i := 0; i < nrand; i++ {
		in := base("clone")
		n := g.Rng.Intn(4)
		if i%7 == 0 {
			n = 0
		}
		used := map[string]bool{}
		for j := 0; j < n; j++ {
			k := pick(g.Rng, pool[:6])
			if used[k] {
				continue
			}
			used[k] = true
			v := pick(g.Rng, pool)
			// maps built through the API need not be printable: ',' and '=' anywhere
			switch g.Rng.Intn(8) {
			case 0:
				v += "," + pick(g.Rng, pool)
			case 1:
				k += ","
			case 2:
				k += "=" + pick(g.Rng, pool[:6])
			}
			in.M = append(in.M, kvB{toB(k), toB(v)})
		}
		for j := g.Rng.Intn(5); j >= 0; j-- {
			in.Ops = append(in.Ops, clOp{g.Rng.Intn(2), toB(pick(g.Rng, pool[:6])), toB(pick(g.Rng, pool))})
		}
		g.Count("op", "clone")
		g.Count("clone_entries", fmt.Sprint(len(in.M)))
		g.Emit(in)
	}
	// float / duration codecs: sampled (assumed, not modelled)
	floats := []float64{0, math.Copysign(0, -1), 1, -1, 0.1, 1e-320, 5e-324, math.MaxFloat64, math.SmallestNonzeroFloat64, math.Inf(1), math.Inf(-1), math.NaN(), 1e21, 1e20, 123456789.125}
	for i := 0; i < nrand/10; i++ {
		floats = append(floats, math.Float64frombits(g.Rng.Uint64()))
	}
	for _, f := range floats {
		in := base("codec")
		in.X = map[string]interface{}{"kind": "float", "bits": strconv.FormatUint(math.Float64bits(f), 10)}
		g.Count("op", "codec-float")
		g.Emit(in)
	}
	outs := []string{"gen", "a/b", "/abs/out", ".", "", "..", "x y", "sub/./dir/", "gen"}
	for _, init := range []string{"-", "", "output_path=first", "foo=bar,output_path=/root/x", "output_path=", "output_path"} {
		for i, a := range outs {
			in := base("codec")
			in.X = map[string]interface{}{"kind": "outpath", "init": init, "a": a, "b": outs[(i+3)%len(outs)]}
			g.Count("op", "codec-outpath")
			g.Emit(in)
		}
	}
	durs := []int64{0, 1, -1, 999, 1000, 1e6, 1e9, 60e9, 3600e9, math.MaxInt64, math.MinInt64, math.MinInt64 + 1, 1500e6, 90061e9 + 1}
	for i := 0; i < nrand/10; i++ {
		durs = append(durs, g.Rng.Int63()>>uint(g.Rng.Intn(63))*int64(1-2*g.Rng.Intn(2)))
	}
	for _, d := range durs {
		in := base("codec")
		in.X = map[string]interface{}{"kind": "duration", "ns": strconv.FormatInt(d, 10)}
		g.Count("op", "codec-duration")
		g.Emit(in)
	}
}

func (c19Engine) Run(raw json.RawMessage) (interface{}, error) {
	var in c19In
	if err := json.Unmarshal(raw, &in); err != nil {
		return nil, err
	}
	mk := func() pgs.Parameters {
		p := pgs.Parameters{}
		for _, kv := range in.M {
			p.SetStr(kv[0].String(), kv[1].String())
		}
		return p
	}
	o := emptyC19Obs()
	switch in.Op {
	case "parse":
		return obsOfParams(pgs.ParseParameters(in.S.String())), nil
	case "print":
		return obsOfParams(mk()), nil
	case "int":
		p := pgs.Parameters{}
		p.SetInt("k", int(in.I))
		o.Stored = toB(p.Str("k"))
		if v, err := p.Int("k"); err != nil {
			o.Got = "err"
		} else {
			o.Got = strconv.FormatInt(int64(v), 10)
		}
		// the getter with a default is a getter too: the value set wins over any default, an unset key gives it
		for _, def := range []int{0, 1, -1, int(in.I) + 1} {
			if v, err := p.IntDefault("k", def); err != nil || int64(v) != in.I {
				o.Got = fmt.Sprintf("IntDefault(k,%d) after SetInt(%d) = %d (%v)", def, in.I, v, err)
			}
			if v, err := p.IntDefault("unset", def); err != nil || v != def {
				o.Got = fmt.Sprintf("IntDefault(unset,%d) = %d (%v)", def, v, err)
			}
		}
	case "uint":
		p := pgs.Parameters{}
		p.SetUint("k", uint(in.U))
		o.Stored = toB(p.Str("k"))
		if v, err := p.Uint("k"); err != nil {
			o.Got = "err"
		} else {
			o.Got = strconv.FormatUint(uint64(v), 10)
		}
		for _, def := range []uint{0, 1, uint(in.U) + 1} {
			if v, err := p.UintDefault("k", def); err != nil || uint64(v) != in.U {
				o.Got = fmt.Sprintf("UintDefault(k,%d) after SetUint(%d) = %d (%v)", def, in.U, v, err)
			}
			if v, err := p.UintDefault("unset", def); err != nil || v != def {
				o.Got = fmt.Sprintf("UintDefault(unset,%d) = %d (%v)", def, v, err)
			}
		}
	case "bool":
		p := pgs.Parameters{}
		p.SetBool("k", in.Bv)
		o.Stored = toB(p.Str("k"))
		o.Got = boolStr(p.Bool("k"))
		for _, def := range []bool{false, true} {
			if v, err := p.BoolDefault("k", def); err != nil || v != in.Bv {
				o.Got = fmt.Sprintf("BoolDefault(k,%v) after SetBool(%v) = %v (%v)", def, in.Bv, v, err)
			}
			if v, err := p.BoolDefault("unset", def); err != nil || v != def {
				o.Got = fmt.Sprintf("BoolDefault(unset,%v) = %v (%v)", def, v, err)
			}
		}
	case "getint":
		p := pgs.Parameters{"k": in.S.String()}
		if v, err := p.Int("k"); err != nil {
			o.Got = "err"
		} else {
			o.Got = strconv.FormatInt(int64(v), 10)
		}
	case "getuint":
		p := pgs.Parameters{"k": in.S.String()}
		if v, err := p.Uint("k"); err != nil {
			o.Got = "err"
		} else {
			o.Got = strconv.FormatUint(uint64(v), 10)
		}
	case "getbool":
		p := pgs.Parameters{"k": in.S.String()}
		o.Got = boolStr(p.Bool("k"))
	case "clone":
		orig := mk()
		cl := orig.Clone()
		for _, op := range in.Ops {
			if op.T == 0 {
				orig.SetStr(op.K.String(), op.V.String())
			} else {
				cl.SetStr(op.K.String(), op.V.String())
			}
		}
		o.Entries = sortedKV(orig)
		o.Other = sortedKV(cl)
	case "codec":
		x, _ := in.X.(map[string]interface{})
		p := pgs.Parameters{}
		o.Got = "ok"
		switch x["kind"] {
		case "float":
			bits, _ := strconv.ParseUint(x["bits"].(string), 10, 64)
			f := math.Float64frombits(bits)
			p.SetFloat("k", f)
			got, err := p.Float("k")
			if err != nil || !(math.Float64bits(got) == bits || (math.IsNaN(f) && math.IsNaN(got))) {
				o.Got = fmt.Sprintf("float %v -> %q -> %v (%v)", f, p.Str("k"), got, err)
			}
			for _, def := range []float64{0, 1, math.NaN(), -f} {
				if v, err := p.FloatDefault("k", def); err != nil || !(math.Float64bits(v) == bits || (math.IsNaN(f) && math.IsNaN(v))) {
					o.Got = fmt.Sprintf("FloatDefault(k,%v) after SetFloat(%v) = %v (%v)", def, f, v, err)
				}
				if v, err := p.FloatDefault("unset", def); err != nil || !(v == def || (math.IsNaN(def) && math.IsNaN(v))) {
					o.Got = fmt.Sprintf("FloatDefault(unset,%v) = %v (%v)", def, v, err)
				}
			}
		case "outpath":
			// SetOutputPath / OutputPath: the value set is the value read, whatever was there before
			if init, _ := x["init"].(string); init != "-" {
				p = pgs.ParseParameters(init)
			}
			if len(p) == 0 || p.Str("output_path") == "" {
				if _, has := p["output_path"]; !has && p.OutputPath() != "." {
					o.Got = fmt.Sprintf("OutputPath() of a map without the key = %q", p.OutputPath())
				}
			}
			for _, v := range []string{x["a"].(string), x["b"].(string), x["a"].(string)} {
				p.SetOutputPath(v)
				if got := p.OutputPath(); got != v || p.Str("output_path") != v {
					o.Got = fmt.Sprintf("SetOutputPath(%q) then OutputPath() = %q (stored %q)", v, got, p.Str("output_path"))
				}
			}
		case "duration":
			ns, _ := strconv.ParseInt(x["ns"].(string), 10, 64)
			p.SetDuration("k", time.Duration(ns))
			got, err := p.Duration("k")
			if err != nil || int64(got) != ns {
				o.Got = fmt.Sprintf("duration %d -> %q -> %d (%v)", ns, p.Str("k"), int64(got), err)
			}
			for _, def := range []time.Duration{0, 1, time.Second, time.Duration(ns) + 1} {
				if v, err := p.DurationDefault("k", def); err != nil || int64(v) != ns {
					o.Got = fmt.Sprintf("DurationDefault(k,%d) after SetDuration(%d) = %d (%v)", int64(def), ns, int64(v), err)
				}
				if v, err := p.DurationDefault("unset", def); err != nil || v != def {
					o.Got = fmt.Sprintf("DurationDefault(unset,%d) = %d (%v)", int64(def), int64(v), err)
				}
			}
		}
	default:
		return nil, fmt.Errorf("unknown op %q", in.Op)
	}
	return o, nil
}

func boolStr(b bool, err error) string {
	if err != nil {
		return "e"
	}
	if b {
		return "t"
	}
	return "f"
}

func init() { register("c19", c19Engine{}) }
