package main

import (
	"fmt"
	"sort"
	"strings"

	pgs "github.com/lyft/protoc-gen-star/v2"
	"google.golang.org/protobuf/reflect/protoreflect"
)

// ---- enumeration of all entities of the real AST (top-down, like the navigator) ----

type ent struct {
	e    pgs.Entity
	kind string
	ref  ref
}

func allEntities(r *astRun) []ent {
	var out []ent
	add := func(e pgs.Entity, kind string) { out = append(out, ent{e, kind, r.refOf(e)}) }
	var msg func(m pgs.Message)
	enum := func(e pgs.Enum) {
		add(e, "enum")
		for _, v := range e.Values() {
			add(v, "value")
		}
	}
	msg = func(m pgs.Message) {
		add(m, "msg")
		for _, e := range m.Enums() {
			enum(e)
		}
		for _, sm := range m.Messages() {
			msg(sm)
		}
		for _, me := range m.MapEntries() {
			msg(me)
		}
		for _, o := range m.OneOfs() {
			add(o, "oneof")
		}
		for _, f := range m.Fields() {
			add(f, "field")
		}
		for _, x := range m.DefinedExtensions() {
			add(x, "ext")
		}
	}
	for _, name := range sortedPkgNames(r.ast) {
		for _, f := range r.ast.Packages()[name].Files() {
			add(f, "file")
			for _, e := range f.Enums() {
				enum(e)
			}
			for _, x := range f.DefinedExtensions() {
				add(x, "ext")
			}
			for _, m := range f.Messages() {
				msg(m)
			}
			for _, s := range f.Services() {
				add(s, "service")
				for _, m := range s.Methods() {
					add(m, "method")
				}
			}
		}
	}
	sort.SliceStable(out, func(i, j int) bool { return refLess(out[i].ref, out[j].ref) })
	return out
}

// ---- C02 ----

type entRec struct {
	Ref    ref    `json:"ref"`
	Kind   string `json:"kind"`
	Fqn    string `json:"fqn"`
	Lookup ref    `json:"lookup"`
	Parent ref    `json:"parent"`
	File   ref    `json:"file"`
	Pkg    string `json:"pkg"`
	Syn    string `json:"syn"`
	BT     bool   `json:"bt"`
}
type c02Obs struct {
	Failed bool            `json:"failed"`
	Ents   []entRec        `json:"ents"`
	Probes [][]interface{} `json:"probes"`
}

func (r *astRun) lookupRef(name string) ref {
	e, ok := r.ast.Lookup(name)
	if !ok || e == nil {
		return noRef
	}
	return r.refOf(e)
}

func observeC02(r *astRun) c02Obs {
	o := c02Obs{Ents: []entRec{}, Probes: [][]interface{}{}}
	if r.failed {
		o.Failed = true
		return o
	}
	for _, en := range allEntities(r) {
		rec := entRec{Ref: en.ref, Kind: en.kind, Fqn: en.e.FullyQualifiedName(), Parent: noRef, Syn: en.e.Syntax().String(), BT: en.e.BuildTarget()}
		key := rec.Fqn
		switch x := en.e.(type) {
		case pgs.File:
			key = x.Name().String()
		case pgs.Message:
			rec.Parent = r.refOf(x.Parent())
		case pgs.Enum:
			rec.Parent = r.refOf(x.Parent())
		case pgs.EnumValue:
			rec.Parent = r.refOf(x.Enum())
		case pgs.Extension: // before pgs.Field: an Extension is a Field
			rec.Parent = r.refOf(x.DefinedIn())
		case pgs.Field:
			rec.Parent = r.refOf(x.Message())
		case pgs.OneOf:
			rec.Parent = r.refOf(x.Message())
		case pgs.Service:
			rec.Parent = r.refOf(x.File())
		case pgs.Method:
			rec.Parent = r.refOf(x.Service())
		}
		rec.Lookup = r.lookupRef(key)
		if f := en.e.File(); f != nil {
			rec.File = r.refOf(f)
		} else {
			rec.File = noRef
		}
		if p := en.e.Package(); p != nil {
			rec.Pkg = p.ProtoName().String()
			// the package an entity answers is THE package of that name: the object `Packages()` holds, and
			// that object lists the entity's file (a stale twin with the right name is not it)
			if q := r.ast.Packages()[rec.Pkg]; q != p {
				rec.Pkg = "\x00stale:" + rec.Pkg
			} else if f := en.e.File(); f != nil {
				listed := false
				for _, pf := range q.Files() {
					if pf == f {
						listed = true
					}
				}
				if !listed {
					rec.Pkg = "\x00unlisted:" + rec.Pkg
				}
			}
		} else {
			rec.Pkg = "\x00nil"
		}
		o.Ents = append(o.Ents, rec)
	}
	for _, n := range r.w.Probes {
		o.Probes = append(o.Probes, []interface{}{n, r.lookupRef(n)})
	}
	return o
}

// probeNames: declared keys and perturbations of them that no descriptor declares.
func probeNames(w wWorld) []string {
	seen := map[string]bool{}
	var out []string
	add := func(s string) {
		if !seen[s] {
			seen[s] = true
			out = append(out, s)
		}
	}
	add("")
	add(".")
	for _, f := range w.Files {
		add(f.Name)
		add(f.Pkg)
		add("." + f.Pkg)
		add(f.Name + "x")
		scope := ""
		if f.Pkg != "" {
			scope = "." + f.Pkg
		}
		var walk func(ms []wMsg, sc string)
		walk = func(ms []wMsg, sc string) {
			for _, m := range ms {
				fq := sc + "." + m.Head.Name
				add(fq)
				add(strings.TrimPrefix(fq, "."))
				add(fq + "_")
				add(fq[:len(fq)-1])
				add(fq + ".")
				add(scope + "." + m.Head.Name) // nested name looked up at file scope
				for _, fd := range m.Head.Fields {
					add(fq + "." + fd.Name)
					add(sc + "." + fd.Name)
				}
				for _, e := range m.Head.Enums {
					for _, v := range e.Values {
						add(fq + "." + e.Name + "." + v.Name)
						add(fq + "." + v.Name) // protobuf's sibling scoping of enum values is not pgs's
					}
				}
				walk(m.Nested, fq)
			}
		}
		walk(f.Msgs, scope)
	}
	if len(out) > 60 {
		out = out[:60]
	}
	return out
}

// ---- C03 ----

type typeRec struct {
	Ref     ref    `json:"ref"`
	Shape   string `json:"shape"`
	PType   int    `json:"ptype"`
	Label   int    `json:"label"`
	En      ref    `json:"en"`
	Em      ref    `json:"em"`
	ElKind  string `json:"elKind"`
	ElT     int    `json:"elT"`
	ElRef   ref    `json:"elRef"`
	KeyKind string `json:"keyKind"`
	KeyT    int    `json:"keyT"`
	Back    bool   `json:"back"`
	Total   bool   `json:"total"`
	PR      bool   `json:"pr"`
}
type c03Obs struct {
	Failed  bool            `json:"failed"`
	Types   []typeRec       `json:"types"`
	Methods [][]interface{} `json:"methods"`
	Exts    [][]interface{} `json:"exts"`
	Applied [][]interface{} `json:"applied"`
}

func elemKind(el pgs.FieldTypeElem) string {
	switch {
	case el.IsEnum():
		return "enum"
	case el.IsEmbed():
		return "embed"
	}
	return "scalar"
}

func (r *astRun) optRef(e interface{}, isNil bool) ref {
	if isNil {
		return noRef
	}
	return r.refOf(e)
}

func (r *astRun) typeRecOf(f pgs.Field, fd protoreflect.FieldDescriptor) (rec typeRec) {
	rec = typeRec{Ref: r.refOf(f), En: noRef, Em: noRef, ElRef: noRef, Total: true, Back: true, PR: true}
	defer func() {
		if p := recover(); p != nil {
			rec.Total = false
		}
	}()
	t := f.Type()
	if t == nil {
		rec.Total = false
		return
	}
	rec.PType, rec.Label = int(t.ProtoType()), int(t.ProtoLabel())
	n := 0
	for _, b := range []bool{t.IsMap(), t.IsRepeated(), t.IsEnum(), t.IsEmbed()} {
		if b {
			n++
		}
	}
	switch {
	case n > 1:
		rec.Shape = "ambiguous"
	case t.IsMap():
		rec.Shape = "map"
	case t.IsRepeated():
		rec.Shape = "repeated"
	case t.IsEnum():
		rec.Shape = "enum"
	case t.IsEmbed():
		rec.Shape = "embed"
	default:
		rec.Shape = "scalar"
	}
	rec.En = r.optRef(t.Enum(), t.Enum() == nil)
	rec.Em = r.optRef(t.Embed(), t.Embed() == nil)
	if t.Field() != f {
		rec.Back = false
	}
	// every remaining accessor of the type must answer
	_ = t.IsOptional()
	_ = t.IsRequired()
	_ = t.Imports()
	if el := t.Element(); el != nil {
		rec.ElKind, rec.ElT = elemKind(el), int(el.ProtoType())
		switch rec.ElKind {
		case "enum":
			rec.ElRef = r.refOf(el.Enum())
		case "embed":
			rec.ElRef = r.refOf(el.Embed())
		}
		if el.ParentType() != t {
			rec.Back = false
		}
		_ = el.Imports()
	}
	if k := t.Key(); k != nil {
		rec.KeyKind, rec.KeyT = elemKind(k), int(k.ProtoType())
		if k.ParentType() != t {
			rec.Back = false
		}
		_ = k.Imports()
	}
	// second opinion: protobuf's own reflection on the same descriptors
	if fd != nil {
		prShape := "scalar"
		switch {
		case fd.IsMap():
			prShape = "map"
		case fd.IsList():
			prShape = "repeated"
		case fd.Kind() == protoreflect.EnumKind:
			prShape = "enum"
		case fd.Kind() == protoreflect.MessageKind || fd.Kind() == protoreflect.GroupKind:
			prShape = "embed"
		}
		if prShape != rec.Shape || int(fd.Kind()) != rec.PType {
			rec.PR = false
		}
		name := func(e pgs.Entity) string { return strings.TrimPrefix(e.FullyQualifiedName(), ".") }
		switch rec.Shape {
		case "enum":
			rec.PR = rec.PR && string(fd.Enum().FullName()) == name(t.Enum())
		case "embed":
			rec.PR = rec.PR && string(fd.Message().FullName()) == name(t.Embed())
		case "repeated":
			if rec.ElKind == "enum" {
				rec.PR = rec.PR && string(fd.Enum().FullName()) == name(t.Element().Enum())
			} else if rec.ElKind == "embed" {
				rec.PR = rec.PR && string(fd.Message().FullName()) == name(t.Element().Embed())
			}
		case "map":
			rec.PR = rec.PR && int(fd.MapKey().Kind()) == rec.KeyT && int(fd.MapValue().Kind()) == rec.ElT
			if rec.ElKind == "enum" {
				rec.PR = rec.PR && string(fd.MapValue().Enum().FullName()) == name(t.Element().Enum())
			} else if rec.ElKind == "embed" {
				rec.PR = rec.PR && string(fd.MapValue().Message().FullName()) == name(t.Element().Embed())
			}
		}
	} else {
		rec.PR = false
	}
	return rec
}

func observeC03(r *astRun) c03Obs {
	o := c03Obs{Types: []typeRec{}, Methods: [][]interface{}{}, Exts: [][]interface{}{}, Applied: [][]interface{}{}}
	if r.failed {
		o.Failed = true
		return o
	}
	find := func(rf ref) protoreflect.FieldDescriptor {
		fd, _ := r.prAt(rf).(protoreflect.FieldDescriptor)
		return fd
	}
	for _, en := range allEntities(r) {
		switch x := en.e.(type) {
		case pgs.Extension:
			o.Types = append(o.Types, r.typeRecOf(x, find(en.ref)))
			listed := false
			if ex := x.Extendee(); ex != nil {
				for _, y := range ex.Extensions() {
					if y == x {
						listed = true
					}
				}
				o.Exts = append(o.Exts, []interface{}{en.ref, []interface{}{r.refOf(ex), listed}})
			} else {
				o.Exts = append(o.Exts, []interface{}{en.ref, []interface{}{noRef, false}})
			}
		case pgs.Field:
			o.Types = append(o.Types, r.typeRecOf(x, find(en.ref)))
		case pgs.Method:
			in, out := noRef, noRef
			if x.Input() != nil {
				in = r.refOf(x.Input())
			}
			if x.Output() != nil {
				out = r.refOf(x.Output())
			}
			o.Methods = append(o.Methods, []interface{}{en.ref, []ref{in, out}})
		case pgs.Message:
			if xs := x.Extensions(); len(xs) > 0 {
				o.Applied = append(o.Applied, []interface{}{en.ref, sortRefs(refsOfExts(r, xs))}) // as a set: the order of Extensions() is not specified
			}
		}
	}
	return o
}

var _ = fmt.Sprint

// prAt returns protobuf's own descriptor of the declaration at a reference (by index path, not by name).
func (r *astRun) prAt(rf ref) protoreflect.Descriptor {
	if r.reg == nil {
		r.reg = r.b.registry()
	}
	if r.reg == nil || rf.File < 0 || rf.File >= len(r.w.Files) {
		return nil
	}
	fd, err := r.reg.FindFileByPath(r.w.Files[rf.File].Name)
	if err != nil {
		return nil
	}
	var cur protoreflect.Descriptor = fd
	p := rf.Path
	for len(p) >= 2 {
		tag, i := p[0], p[1]
		p = p[2:]
		switch c := cur.(type) {
		case protoreflect.FileDescriptor:
			switch tag {
			case 4:
				cur = c.Messages().Get(i)
			case 5:
				cur = c.Enums().Get(i)
			case 6:
				cur = c.Services().Get(i)
			case 7:
				cur = c.Extensions().Get(i)
			default:
				return nil
			}
		case protoreflect.MessageDescriptor:
			switch tag {
			case 2:
				cur = c.Fields().Get(i)
			case 3:
				cur = c.Messages().Get(i)
			case 4:
				cur = c.Enums().Get(i)
			case 6:
				cur = c.Extensions().Get(i)
			case 8:
				cur = c.Oneofs().Get(i)
			default:
				return nil
			}
		case protoreflect.EnumDescriptor:
			cur = c.Values().Get(i)
		case protoreflect.ServiceDescriptor:
			cur = c.Methods().Get(i)
		default:
			return nil
		}
	}
	return cur
}
