package main

import (
	"fmt"
	"sort"

	pgs "github.com/lyft/protoc-gen-star/v2"
	"google.golang.org/protobuf/reflect/protoreflect"
)

// ---- C04: imports ----

type impRec struct {
	Ref     ref    `json:"ref"`
	Kind    string `json:"kind"`
	Imports []int  `json:"imports"`
	Dup     bool   `json:"dup"`
}
type fileImp struct {
	File       int   `json:"file"`
	Imports    []int `json:"imports"`
	Transitive []int `json:"transitive"`
	Dependents []int `json:"dependents"`
	Unused     []int `json:"unused"`
	Dup        bool  `json:"dup"`
}
type c04Obs struct {
	Failed bool      `json:"failed"`
	Files  []fileImp `json:"files"`
	Ents   []impRec  `json:"ents"`
}

// fileSet maps the files an accessor returned to sorted distinct indices; dup reports repeats.
func (r *astRun) fileSet(fs []pgs.File) (idxs []int, dup bool) {
	seen := map[int]bool{}
	idxs = []int{}
	for _, f := range fs {
		i := 999999
		if f != nil {
			i = r.refOf(f).File
			if len(r.refOf(f).Path) != 0 {
				i = 999999
			}
		}
		if seen[i] {
			dup = true
			continue
		}
		seen[i] = true
		idxs = append(idxs, i)
	}
	sort.Ints(idxs)
	return
}

func observeC04(r *astRun, reverse bool) c04Obs {
	o := c04Obs{Files: []fileImp{}, Ents: []impRec{}}
	if r.failed {
		o.Failed = true
		return o
	}
	files := make([]pgs.File, len(r.w.Files))
	for _, en := range allEntities(r) {
		if f, ok := en.e.(pgs.File); ok && en.ref.File < len(files) {
			files[en.ref.File] = f
		}
	}
	o.Files = make([]fileImp, len(files))
	for k := range files {
		i := k
		if reverse {
			i = len(files) - 1 - k
		}
		f := files[i]
		fi := fileImp{File: i, Imports: []int{}}
		if f == nil {
			fi.File = -1
			o.Files[i] = fi
			continue
		}
		for _, d := range f.Imports() {
			fi.Imports = append(fi.Imports, r.refOf(d).File)
		}
		var d1, d2, d3 bool
		fi.Transitive, d1 = r.fileSet(f.TransitiveImports())
		fi.Dependents, d2 = r.fileSet(f.Dependents())
		fi.Unused, d3 = r.fileSet(f.UnusedImports())
		fi.Dup = d1 || d2 || d3
		o.Files[i] = fi
	}
	// asked again after every file was asked: the answers must not have changed (an answer that does
	// is flagged like a listing with repetitions - it is not a set of files any more)
	for i, f := range files {
		if f == nil {
			continue
		}
		var imps []int
		for _, d := range f.Imports() {
			imps = append(imps, r.refOf(d).File)
		}
		t, d1 := r.fileSet(f.TransitiveImports())
		dp, d2 := r.fileSet(f.Dependents())
		u, d3 := r.fileSet(f.UnusedImports())
		first := o.Files[i]
		if d1 || d2 || d3 || fmt.Sprint(imps) != fmt.Sprint(first.Imports) || fmt.Sprint(t) != fmt.Sprint(first.Transitive) ||
			fmt.Sprint(dp) != fmt.Sprint(first.Dependents) || fmt.Sprint(u) != fmt.Sprint(first.Unused) {
			first.Dup = true
			o.Files[i] = first
		}
	}
	for _, en := range allEntities(r) {
		switch en.kind {
		case "msg", "field", "oneof", "service", "method", "ext":
			func() {
				rec := impRec{Ref: en.ref, Kind: en.kind, Imports: []int{}}
				defer func() {
					if p := recover(); p != nil {
						rec.Imports, rec.Dup = []int{888888}, true
					}
					o.Ents = append(o.Ents, rec)
				}()
				rec.Imports, rec.Dup = r.fileSet(en.e.Imports())
			}()
		}
	}
	return o
}

// ---- C08: source locations ----

type c08Obs struct {
	Failed bool            `json:"failed"`
	Files  [][]interface{} `json:"files"`
	Infos  [][]interface{} `json:"infos"`
}

func tagOf(info pgs.SourceCodeInfo) int {
	if info == nil {
		return -1
	}
	// an `sci{}` wrapping nil would also be "no location"
	defer func() { recover() }()
	loc := info.Location()
	if loc == nil || len(loc.GetSpan()) == 0 {
		return -1
	}
	return int(loc.GetSpan()[0])
}

func observeC08(r *astRun) c08Obs {
	o := c08Obs{Files: [][]interface{}{}, Infos: [][]interface{}{}}
	if r.failed {
		o.Failed = true
		return o
	}
	type fileTags struct{ s, p int }
	ft := map[int]fileTags{}
	for _, en := range allEntities(r) {
		if f, ok := en.e.(pgs.File); ok {
			st := tagOf(f.SyntaxSourceCodeInfo())
			// the file entity's own SourceCodeInfo() is documented as the syntax statement's: a file
			// that answers something else there reports -3, and the syntax statement once more
			if own := tagOf(f.SourceCodeInfo()); own != st {
				st = -3
			} else if again := tagOf(f.SyntaxSourceCodeInfo()); again != st {
				st = -4
			}
			ft[en.ref.File] = fileTags{st, tagOf(f.PackageSourceCodeInfo())}
			continue
		}
		o.Infos = append(o.Infos, []interface{}{en.ref, tagOf(en.e.SourceCodeInfo())})
	}
	for i := range r.w.Files {
		t, ok := ft[i]
		if !ok {
			t = fileTags{-2, -2}
		}
		o.Files = append(o.Files, []interface{}{i, []int{t.s, t.p}})
	}
	return o
}

// ---- C09: presence / oneof / syntax ----

type presRec struct {
	Ref        ref  `json:"ref"`
	Presence   bool `json:"presence"`
	Required   bool `json:"required"`
	InOneOf    bool `json:"inOneOf"`
	InReal     bool `json:"inReal"`
	OptKw      bool `json:"optKw"`
	PrPresence bool `json:"prPresence"`
	PrRequired bool `json:"prRequired"`
	PrInReal   bool `json:"prInReal"`
}
type oneofRec struct {
	Ref         ref  `json:"ref"`
	Synthetic   bool `json:"synthetic"`
	PrSynthetic bool `json:"prSynthetic"`
}
type msgPres struct {
	Ref         ref   `json:"ref"`
	MapEntry    bool  `json:"mapEntry"`
	PrMapEntry  bool  `json:"prMapEntry"`
	OneofFields []ref `json:"oneofFields"`
	NonOneof    []ref `json:"nonOneof"`
	SynthFields []ref `json:"synthFields"`
	RealOneofs  []ref `json:"realOneofs"`
	FieldsAfter []ref `json:"fieldsAfter"` // Fields() read again after the four listings were asked
}
type c09Obs struct {
	Failed   bool       `json:"failed"`
	Syntaxes []string   `json:"syntaxes"`
	Fields   []presRec  `json:"fields"`
	Oneofs   []oneofRec `json:"oneofs"`
	Msgs     []msgPres  `json:"msgs"`
}

func observeC09(r *astRun) c09Obs {
	o := c09Obs{Syntaxes: make([]string, len(r.w.Files)), Fields: []presRec{}, Oneofs: []oneofRec{}, Msgs: []msgPres{}}
	if r.failed {
		o.Failed = true
		return o
	}
	for i := range o.Syntaxes {
		o.Syntaxes[i] = "\x00unreached"
	}
	for _, en := range allEntities(r) {
		switch x := en.e.(type) {
		case pgs.File:
			o.Syntaxes[en.ref.File] = x.Syntax().String()
		case pgs.Extension:
			// extensions are outside this property's statement (their presence accessors are not asked)
		case pgs.Field:
			rec := presRec{Ref: en.ref, Presence: x.HasPresence(), Required: x.Required(), InOneOf: x.InOneOf(), InReal: x.InRealOneOf(), OptKw: x.HasOptionalKeyword()}
			if fd, ok := r.prAt(en.ref).(protoreflect.FieldDescriptor); ok {
				rec.PrPresence = fd.HasPresence()
				rec.PrRequired = fd.Cardinality() == protoreflect.Required
				rec.PrInReal = fd.ContainingOneof() != nil && !fd.ContainingOneof().IsSynthetic()
			}
			o.Fields = append(o.Fields, rec)
		case pgs.OneOf:
			rec := oneofRec{Ref: en.ref, Synthetic: x.IsSynthetic()}
			if od, ok := r.prAt(en.ref).(protoreflect.OneofDescriptor); ok {
				rec.PrSynthetic = od.IsSynthetic()
			}
			o.Oneofs = append(o.Oneofs, rec)
		case pgs.Message:
			rec := msgPres{Ref: en.ref, MapEntry: x.IsMapEntry(), OneofFields: sortRefs(refsOfFields(r, x.OneOfFields())), NonOneof: refsOfFields(r, x.NonOneOfFields()),
				SynthFields: sortRefs(refsOfFields(r, x.SyntheticOneOfFields())), RealOneofs: []ref{}}
			for _, ro := range x.RealOneOfs() {
				rec.RealOneofs = append(rec.RealOneofs, r.refOf(ro))
			}
			if md, ok := r.prAt(en.ref).(protoreflect.MessageDescriptor); ok {
				rec.PrMapEntry = md.IsMapEntry()
			}
			rec.FieldsAfter = refsOfFields(r, x.Fields())
			o.Msgs = append(o.Msgs, rec)
		}
	}
	return o
}
