// Command pgsharness drives the real protoc-gen-star code (module replaced by /repo's working
// tree) on generated inputs and prints, one JSON object per line, the input together with the
// canonicalised observation the property speaks about.  The Lean driver consumes these lines.
//
//	pgsharness gen    -e <engine> -seed N -tier quick|thorough -shard i/n [-stats file]
//	pgsharness run    -e <engine>            (inputs, one JSON value per line, on stdin)
//	pgsharness worker -e <engine>            (internal: crash-isolated runner)
package main

import (
	"bufio"
	"encoding/json"
	"flag"
	"fmt"
	"os"
	"sort"
	"strconv"
	"strings"
)

func main() {
	if len(os.Args) < 2 {
		fmt.Fprintln(os.Stderr, "usage: pgsharness gen|run|worker|list ...")
		os.Exit(2)
	}
	mode := os.Args[1]
	if mode == "worldtest" {
		worldSelfTest(3000)
		return
	}
	if mode == "plugin" {
		pluginMain()
		return
	}
	fs := flag.NewFlagSet(mode, flag.ExitOnError)
	ename := fs.String("e", "", "engine")
	seed := fs.Int64("seed", 1, "PRNG seed")
	tier := fs.String("tier", "quick", "quick|thorough")
	shard := fs.String("shard", "0/1", "i/n")
	stats := fs.String("stats", "", "write generator statistics (JSON) here")
	_ = fs.Parse(os.Args[2:])

	if mode == "list" {
		names := []string{}
		for n := range engines {
			names = append(names, n)
		}
		sort.Strings(names)
		fmt.Println(strings.Join(names, "\n"))
		return
	}
	eng, ok := engines[*ename]
	if !ok {
		fmt.Fprintf(os.Stderr, "unknown engine %q\n", *ename)
		os.Exit(2)
	}
	out := bufio.NewWriterSize(os.Stdout, 1<<20)
	defer out.Flush()

	switch mode {
	case "gen":
		parts := strings.SplitN(*shard, "/", 2)
		si, _ := strconv.Atoi(parts[0])
		sn, _ := strconv.Atoi(parts[1])
		if sn < 1 {
			sn = 1
		}
		g := newGen(*seed, *tier, si, sn)
		r := newRunner(eng, *ename)
		defer r.close()
		g.emit = func(in interface{}) {
			raw, err := json.Marshal(in)
			if err != nil {
				panic(err)
			}
			obs := r.run(raw)
			writeCase(out, *ename, g.emitted, raw, obs)
			if hung { // the case never returned: report it and stop this shard (its goroutine still runs)
				out.Flush()
				if *stats != "" {
					g.writeStats(*stats)
				}
				os.Exit(0)
			}
		}
		eng.Gen(g)
		if *stats != "" {
			g.writeStats(*stats)
		}
	case "run":
		r := newRunner(eng, *ename)
		defer r.close()
		sc := bufio.NewScanner(os.Stdin)
		sc.Buffer(make([]byte, 1<<20), 1<<28)
		i := 0
		for sc.Scan() {
			line := strings.TrimSpace(sc.Text())
			if line == "" {
				continue
			}
			obs := r.run(json.RawMessage(line))
			writeCase(out, *ename, i, json.RawMessage(line), obs)
			i++
		}
	case "worker":
		workerLoop(eng)
	default:
		fmt.Fprintln(os.Stderr, "unknown mode", mode)
		os.Exit(2)
	}
}

func writeCase(out *bufio.Writer, e string, id int, in json.RawMessage, obs json.RawMessage) {
	fmt.Fprintf(out, `{"e":%q,"id":%d,"in":%s,"obs":%s}`+"\n", e, id, in, obs)
}
