package main

import (
	"encoding/json"
	"fmt"
	"os"
	"path/filepath"
	"strings"

	pgs "github.com/lyft/protoc-gen-star/v2"
)

// ---- C11: generator artifact names through ProtoFile() of all six kinds ----

type c11In struct {
	Name B `json:"name"`
}
type c11Obs struct {
	OK   bool `json:"ok"`
	Name B    `json:"name"`
}

type c11Engine struct{}

func (c11Engine) Isolated() bool { return false }

func pathCorpus(g *Gen, emit func(string)) {
	segs := []string{"a", "b.go", ".", "..", "..x", "", "...", "c"}
	maxLen := 4
	if g.Thorough() {
		maxLen = 6
		segs = segs[:6]
	}
	var rec func(prefix []string, n int)
	rec = func(prefix []string, n int) {
		if len(prefix) > 0 {
			s := strings.Join(prefix, "/")
			emit(s)
			emit("/" + s)
			emit(s + "/")
			emit("/" + s + "/")
		}
		if n == 0 {
			return
		}
		for _, sg := range segs {
			rec(append(prefix, sg), n-1)
		}
	}
	emit("")
	rec(nil, maxLen)
	// long names: a limit on the length of the whole name (rather than of one segment) must not
	// appear; lengths around the usual NAME_MAX / PATH_MAX values, normalised and not
	for _, total := range []int{200, 254, 255, 256, 257, 300, 1023, 1024, 1025, 4095, 4096, 4097, 5000} {
		var sb strings.Builder
		for sb.Len() < total {
			if sb.Len() > 0 {
				sb.WriteByte('/')
			}
			sb.WriteString("seg0123456")
		}
		long := sb.String()[:total]
		long = strings.TrimSuffix(long, "/")
		emit(long)
		emit("./" + long)
		emit(long + "/../x.go")
		emit("../" + long)
	}
	emit(strings.Repeat("x", 255) + ".go")
	emit("d/" + strings.Repeat("y", 300))
	// names spelled along the real working directory: the verdict is lexical and must not depend
	// on where the process runs (climbing out and re-entering by the directory's own name escapes)
	if wd, err := os.Getwd(); err == nil && wd != "/" {
		comps := strings.Split(strings.Trim(wd, "/"), "/")
		base := comps[len(comps)-1]
		up := strings.Repeat("../", len(comps))
		for _, nm := range []string{
			"../" + base + "/x.go", "a/../../" + base + "/x.go",
			up + strings.Join(comps, "/") + "/sub/x.go", "gen/../" + up + strings.Join(comps, "/") + "/x.go",
			up + "etc/passwd", "../" + base, "../" + base + "/", base + "/x.go", "../../" + base + "/x.go",
		} {
			emit(nm)
		}
	}
	// letter case matters
	for _, nm := range []string{"A", "a/B.go", "PKG/a.go", "pkg/A.go", "./A", "x/../A.go", "doc/README.md", "\u212a.go", "\uff21.go", "\u0130x"} {
		emit(nm)
	}
	// invisible or special leading characters are ordinary file-name bytes: nothing is trimmed
	for _, pre := range []string{"\xef\xbb\xbf", "\xe2\x80\x8b", " ", "\t", "\x00", "~", "-", "\xc2\xa0"} {
		for _, rest := range []string{"", "/etc/cron.d/job", "../x", "gen/a.go", "./a", "a", "/", ".."} {
			emit(pre + rest)
			emit(rest + pre)
		}
	}
	// random byte strings, biased to path-relevant bytes
	alphabet := []byte{'/', '.', '.', '/', 'a', 'b', '\\', 0, 0xff, 0xc3, 0x89, ' ', '~', ':'}
	n := 3000
	if g.Thorough() {
		n = 100000
	}
	for i := 0; i < n; i++ {
		l := g.Rng.Intn(12)
		b := make([]byte, l)
		for j := range b {
			if g.Rng.Intn(8) == 0 {
				b[j] = byte(g.Rng.Intn(256))
			} else {
				b[j] = alphabet[g.Rng.Intn(len(alphabet))]
			}
		}
		emit(string(b))
	}
}

func (c11Engine) Gen(g *Gen) {
	pathCorpus(g, func(s string) {
		g.Count("len_segments", fmt.Sprint(len(strings.Split(s, "/"))))
		g.Count("abs", fmt.Sprint(strings.HasPrefix(s, "/")))
		g.Emit(c11In{toB(s)})
	})
}

func (c11Engine) Run(raw json.RawMessage) (interface{}, error) {
	var in c11In
	if err := json.Unmarshal(raw, &in); err != nil {
		return nil, err
	}
	name := in.Name.String()
	tpl := bufTpl{}
	type res struct {
		ok   bool
		name string
	}
	var rs []res
	add := func(f interface{ GetName() string }, err error, named bool) {
		if err != nil {
			rs = append(rs, res{false, ""})
			return
		}
		if named {
			rs = append(rs, res{true, f.GetName()})
		} else {
			rs = append(rs, res{true, "\x00append"})
		}
	}
	f1, e1 := pgs.GeneratorFile{Name: name, Contents: "x"}.ProtoFile()
	add(f1, e1, true)
	f2, e2 := pgs.GeneratorTemplateFile{Name: name, TemplateArtifact: pgs.TemplateArtifact{Template: tpl}}.ProtoFile()
	add(f2, e2, true)
	f3, e3 := pgs.GeneratorAppend{FileName: name, Contents: "x"}.ProtoFile()
	add(f3, e3, false)
	f4, e4 := pgs.GeneratorTemplateAppend{FileName: name, TemplateArtifact: pgs.TemplateArtifact{Template: tpl}}.ProtoFile()
	add(f4, e4, false)
	f5, e5 := pgs.GeneratorInjection{FileName: name, InsertionPoint: "p", Contents: "x"}.ProtoFile()
	add(f5, e5, true)
	f6, e6 := pgs.GeneratorTemplateInjection{FileName: name, InsertionPoint: "p", TemplateArtifact: pgs.TemplateArtifact{Template: tpl}}.ProtoFile()
	add(f6, e6, true)
	// all six kinds must take the same decision and produce the same name
	first := rs[0]
	for k, r := range rs {
		if r.ok != first.ok {
			return map[string]interface{}{"kinds_disagree": k, "ok": r.ok}, nil
		}
		if r.ok && r.name != "\x00append" && r.name != first.name {
			return map[string]interface{}{"kinds_disagree": k, "name": toB(r.name)}, nil
		}
	}
	if !first.ok {
		return c11Obs{false, B{}}, nil
	}
	return c11Obs{true, toB(first.name)}, nil
}

// ---- fp: the FilePath model against path/filepath ----

type fpIn struct {
	Fn   string `json:"fn"`
	Args []B    `json:"args"`
}
type fpEngine struct{}

func (fpEngine) Isolated() bool { return false }
func (fpEngine) Gen(g *Gen) {
	var all []string
	pathCorpus(g, func(s string) { all = append(all, s) })
	for _, s := range all {
		for _, fn := range []string{"clean", "dir", "base", "ext", "isabs"} {
			g.Emit(fpIn{fn, []B{toB(s)}})
		}
	}
	n := 5000
	if g.Thorough() {
		n = 50000
	}
	for i := 0; i < n; i++ {
		k := 1 + g.Rng.Intn(4)
		args := make([]B, k)
		for j := range args {
			args[j] = toB(all[g.Rng.Intn(len(all))])
		}
		g.Emit(fpIn{"join", args})
	}
}
func (fpEngine) Run(raw json.RawMessage) (interface{}, error) {
	var in fpIn
	if err := json.Unmarshal(raw, &in); err != nil {
		return nil, err
	}
	ss := make([]string, len(in.Args))
	for i, a := range in.Args {
		ss[i] = a.String()
	}
	switch in.Fn {
	case "clean":
		return toB(filepath.Clean(ss[0])), nil
	case "join":
		return toB(filepath.Join(ss...)), nil
	case "dir":
		return toB(filepath.Dir(ss[0])), nil
	case "base":
		return toB(filepath.Base(ss[0])), nil
	case "ext":
		return toB(filepath.Ext(ss[0])), nil
	case "isabs":
		if filepath.IsAbs(ss[0]) {
			return B{1}, nil
		}
		return B{0}, nil
	}
	return nil, fmt.Errorf("unknown fn %s", in.Fn)
}

func init() {
	register("c11", c11Engine{})
	register("fp", fpEngine{})
}
