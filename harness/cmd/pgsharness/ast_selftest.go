package main

import (
	"fmt"
	"math/rand"
	"regexp"
	"sort"
)

var quoted = regexp.MustCompile(`"[^"]*"`)

// worldSelfTest prints the acceptance statistics of the world generator (development aid).
func worldSelfTest(n int) {
	r := rand.New(rand.NewSource(1))
	reasons := map[string]int{}
	ok := 0
	for i := 0; i < n; i++ {
		w := genWorld(r, genOpts{maxFiles: 5, maxDepth: 3, locs: true})
		b := buildWorld(w)
		if err := b.valid(); err != nil {
			s := quoted.ReplaceAllString(err.Error(), "Q")
			if len(s) > 110 {
				s = s[:110]
			}
			reasons[s]++
		} else {
			ok++
		}
	}
	for i, w := range curatedWorlds() {
		if err := buildWorld(w).valid(); err != nil {
			fmt.Println("CURATED", i, "rejected:", err)
		}
	}
	fmt.Println("accepted", ok, "of", n)
	var ks []string
	for k := range reasons {
		ks = append(ks, k)
	}
	sort.Strings(ks)
	for _, k := range ks[:min(len(ks), 25)] {
		fmt.Println(reasons[k], k)
	}
}
