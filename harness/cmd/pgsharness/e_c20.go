package main

import (
	"encoding/json"
	"fmt"
	"strings"
	"unicode"
	"unicode/utf8"

	pgs "github.com/lyft/protoc-gen-star/v2"
)

// ---- C20: comment wrapping ----

type c20R struct {
	B  B    `json:"b"`
	Sp bool `json:"sp"`
}
type c20In struct {
	Wrap  int    `json:"wrap"`
	Text  B      `json:"text"` // harness only
	Runes []c20R `json:"runes"`
}
type c20Line struct {
	Marker bool `json:"marker"`
	Words  []B  `json:"words"`
}

func mkC20In(wrap int, text string) c20In {
	in := c20In{Wrap: wrap, Text: toB(text), Runes: []c20R{}}
	for i := 0; i < len(text); {
		r, w := utf8.DecodeRuneInString(text[i:])
		in.Runes = append(in.Runes, c20R{toB(text[i : i+w]), unicode.IsSpace(r)})
		i += w
	}
	return in
}

type c20Engine struct{}

func (c20Engine) Isolated() bool { return false }

func (c20Engine) Gen(g *Gen) {
	emit := func(wrap int, text string) {
		if !g.Mine() {
			g.Emit(nil)
			return
		}
		g.Count("wrap", fmt.Sprint(wrap))
		switch {
		case len(text) > 65536:
			g.Count("text_bytes", ">64KiB")
		case len(text) > 4096:
			g.Count("text_bytes", ">4KiB")
		case len(text) > 64:
			g.Count("text_bytes", ">64")
		default:
			g.Count("text_bytes", "<=64")
		}
		g.Count("has_newline", fmt.Sprint(strings.ContainsAny(text, "\n\r")))
		g.Emit(mkC20In(wrap, text))
	}
	for _, c := range []struct {
		w int
		t string
	}{{80, "foo\nbar"}, {9, "aaaa bbbb"}, {80, ""}, {80, "   "}, {20, "the quick brown ox"}, {20, "  the quick brown fox jumps over the lazy dog  "},
		{10, "alpha　beta gamma delta epsilon"}, {12, "a b c\u0085d e f g h"}, {3, "a b"}, {0, "a b c"}, {-5, "x  y"}, {20, "100% done %d %s"}, {16, "lorem ipsum lorem ipsum dolor"}, {0, "a a"}, {8, "\xff\xfe a\xc3 b"}} {
		emit(c.w, c.t)
	}
	alpha := []string{"a", " ", "\n", "é", "　", "bb"}
	maxLen := 5
	widths := []int{-1, 3, 4, 5, 6, 7, 8, 9, 11}
	if g.Thorough() {
		maxLen = 7
		widths = []int{-7, -1, 0, 2, 3, 4, 5, 6, 7, 8, 9, 10, 11, 13, 16}
	}
	var rec func(p string, n int)
	rec = func(p string, n int) {
		for _, w := range widths {
			emit(w, p)
		}
		if n == 0 {
			return
		}
		for _, a := range alpha {
			rec(p+a, n-1)
		}
	}
	rec("", maxLen)
	// word-length / separator / width grids
	seps := []string{" ", "  ", "\n", "\t ", " ", " 　 "}
	for l1 := 1; l1 <= 6; l1++ {
		for l2 := 1; l2 <= 6; l2++ {
			for l3 := 0; l3 <= 4; l3++ {
				for _, sp := range seps {
					t := strings.Repeat("x", l1) + sp + strings.Repeat("y", l2)
					if l3 > 0 {
						t += sp + strings.Repeat("z", l3)
					}
					for w := 3; w <= 16; w++ {
						emit(w, t)
						if l1 == 2 {
							emit(w, " "+t+" ")
						}
					}
				}
			}
		}
	}
	// random texts
	words := []string{"a", "to", "the", "quick", "brown", "jumps", "überläuft", "日本語", "supercalifragilistic", "x", "\xff", "é", "1234567", "12", "7", "100", "42", "100%", "%d", "%s%v", "%%", "%!s(MISSING)", "50%-off"}
	blanks := []string{" ", " ", " ", "  ", "\n", "\t", "\r\n", " ", "\u0085", " ", " ", " ", "　", "\v", "\f"}
	n := 3000
	if g.Thorough() {
		n = 60000
	}
	for i := 0; i < n; i++ {
		var sb strings.Builder
		if g.Rng.Intn(4) == 0 {
			sb.WriteString(pick(g.Rng, blanks))
		}
		nw := 1 + g.Rng.Intn(25)
		for j := 0; j < nw; j++ {
			sb.WriteString(pick(g.Rng, words))
			if j+1 < nw || g.Rng.Intn(3) == 0 {
				sb.WriteString(pick(g.Rng, blanks))
				if g.Rng.Intn(6) == 0 {
					sb.WriteString(pick(g.Rng, blanks))
				}
			}
		}
		w := []int{-3, 0, 3, 4, 8, 10, 12, 16, 20, 30, 40, 60, 80, 120, 5000}[g.Rng.Intn(15)]
		emit(w, sb.String())
	}
	// long texts: beyond the scanner's initial 4096-byte buffer and beyond 64KiB
	long := []struct {
		w     int
		words int
		wl    int
		lead  string
	}{{80, 900, 5, ""}, {80, 1, 5000, ""}, {80, 1, 5000, " "}, {40, 3, 3000, ""}, {80, 1, 70000, ""}, {80, 1, 70000, " "}, {80, 2, 40000, ""}, {100, 9000, 7, ""},
		{80, 1, 65536, ""}, {80, 1, 65535, "ab cd "}, {30, 1, 66000, "\n"}}
	for _, c := range long {
		var sb strings.Builder
		sb.WriteString(c.lead)
		for j := 0; j < c.words; j++ {
			sb.WriteString(strings.Repeat("w", c.wl))
			if j+1 < c.words {
				sb.WriteString(" ")
			}
		}
		emit(c.w, sb.String())
		emit(c.w, sb.String()+"\n")
		emit(c.w, sb.String()+" tail end")
	}
}

func (c20Engine) Run(raw json.RawMessage) (interface{}, error) {
	if string(raw) == "null" {
		return nil, fmt.Errorf("null input")
	}
	var in c20In
	if err := json.Unmarshal(raw, &in); err != nil {
		return nil, err
	}
	// other calls made earlier in the same process must not matter: the neighbours whose width and
	// text, written one after the other, read the same as this call's (8, "0 errors" and 80, " errors");
	// a longer text at this width; this text at the next width
	if in.Wrap >= 10 {
		pgs.C(in.Wrap/10, string(rune('0'+in.Wrap%10))+in.Text.String())
	}
	pgs.C(in.Wrap, in.Text.String()+" x")
	pgs.C(in.Wrap+1, in.Text.String())
	out := pgs.C(in.Wrap, in.Text.String())
	// the text of a comment is fmt.Sprint of the operands: the same text handed over in several
	// operands of mixed kinds (strings, string-kind names, ints) must wrap the same
	if args := c20Operands(in.Text.String()); len(args) > 1 && fmt.Sprint(args...) == in.Text.String() {
		if out2 := pgs.C(in.Wrap, args...); out2 != out {
			out = out2
		}
	}
	lines := []c20Line{}
	if out == "" {
		return lines, nil
	}
	phys := strings.Split(out, "\n")
	if phys[len(phys)-1] == "" {
		phys = phys[:len(phys)-1]
	} else {
		// the output does not end with a newline: report the last line as unmarked
		phys[len(phys)-1] = "\x00" + phys[len(phys)-1]
	}
	for _, l := range phys {
		ln := c20Line{Words: []B{}}
		rest := l
		if strings.HasPrefix(l, "// ") {
			ln.Marker = true
			rest = l[3:]
		}
		for _, w := range strings.Split(rest, " ") {
			if w != "" {
				ln.Words = append(ln.Words, toB(w))
			}
		}
		lines = append(lines, ln)
	}
	return lines, nil
}

// c20Operands cuts text into operands whose fmt.Sprint is text again: digit runs become ints (a
// single blank between two ints is what Sprint itself inserts), the rest alternates between
// string and pgs.Name.
func c20Operands(text string) []interface{} {
	type tok struct {
		s     string
		n     int
		isInt bool
	}
	var toks []tok
	digit := func(c byte) bool { return c >= '0' && c <= '9' }
	for i := 0; i < len(text); {
		j := i
		for j < len(text) && digit(text[j]) == digit(text[i]) {
			j++
		}
		t := tok{s: text[i:j]}
		if digit(text[i]) && len(t.s) <= 9 && (len(t.s) == 1 || t.s[0] != '0') {
			t.isInt = true
			for _, c := range []byte(t.s) {
				t.n = t.n*10 + int(c-'0')
			}
		}
		toks = append(toks, t)
		i = j
	}
	var args []interface{}
	flip := false
	for k, t := range toks {
		switch {
		case t.isInt:
			args = append(args, t.n)
		case t.s == " " && k > 0 && k+1 < len(toks) && toks[k-1].isInt && toks[k+1].isInt:
			// Sprint puts this blank between the two ints itself
		default:
			if flip = !flip; flip {
				args = append(args, t.s)
			} else {
				args = append(args, pgs.Name(t.s))
			}
		}
	}
	return args
}

func init() { register("c20", c20Engine{}) }
