package main

import (
	"encoding/json"
	"fmt"
	"strconv"
	"strings"

	pgs "github.com/lyft/protoc-gen-star/v2"
)

// ---- C05: bidirectional dependency closures under all query orders ----

type queryJ struct {
	R ref
	K int // 0 Dependencies, 1 Dependents, 2 enum Dependents
}

func (q queryJ) MarshalJSON() ([]byte, error) { return json.Marshal([]interface{}{q.R, q.K}) }
func (q *queryJ) UnmarshalJSON(b []byte) error {
	var raw []json.RawMessage
	if err := json.Unmarshal(b, &raw); err != nil || len(raw) != 2 {
		return fmt.Errorf("bad query")
	}
	if err := json.Unmarshal(raw[0], &q.R); err != nil {
		return err
	}
	return json.Unmarshal(raw[1], &q.K)
}

type c05Obs struct {
	Failed  bool    `json:"failed"`
	Answers [][]ref `json:"answers"`
	Dup     bool    `json:"dup"`
}

func observeC05(r *astRun) c05Obs {
	o := c05Obs{Answers: [][]ref{}}
	if r.failed {
		o.Failed = true
		return o
	}
	byRef := map[string]pgs.Entity{}
	for _, en := range allEntities(r) {
		byRef[en.ref.key()] = en.e
	}
	for _, q := range r.w.Queries {
		var ms []pgs.Message
		switch e := byRef[q.R.key()].(type) {
		case pgs.Message:
			if q.K == 0 {
				ms = e.Dependencies()
			} else {
				ms = e.Dependents()
			}
		case pgs.Enum:
			ms = e.Dependents()
		}
		rs := refsOfMsgs(r, ms)
		seen := map[string]bool{}
		for _, x := range rs {
			if seen[x.key()] {
				o.Dup = true
			}
			seen[x.key()] = true
		}
		o.Answers = append(o.Answers, sortRefs(rs))
	}
	return o
}

// graphWorld embeds a digraph over n messages (edge i->j: a field of Mi has message type Mj,
// singular / repeated / map value by `kind`) plus an enum used by the messages in `enumUsers`,
// in a valid single-file request.  Some nodes are nested and share their simple name.
func graphWorld(n int, edges [][2]int, kind func(i, j int) int, enumUsers []int, nestedDup bool) wWorld {
	fl := wFile{Name: "g.proto", Pkg: "g", Syn: "proto3", Deps: []string{}, PublicDeps: []int{}, Enums: []wEnum{{Name: "E", Values: []wEnumVal{{"E0", 0}, {"E1", 1}}}},
		Msgs: []wMsg{}, Services: []wService{}, Exts: []wField{}, Locs: []wLoc{}}
	fqn := make([]string, n)
	// layout: node k is top-level "N<k>", or (nestedDup) nested as "Item" inside a holder "H<k>"
	nested := func(k int) bool { return nestedDup && k%2 == 1 }
	for k := 0; k < n; k++ {
		if nested(k) {
			fqn[k] = fmt.Sprintf(".g.H%d.Item", k)
		} else {
			fqn[k] = fmt.Sprintf(".g.N%d", k)
		}
	}
	for k := 0; k < n; k++ {
		m := wMsg{Head: wMsgHead{Name: fmt.Sprintf("N%d", k), Fields: []wField{}, Enums: []wEnum{}, Oneofs: []string{}, Exts: []wField{}}, Nested: []wMsg{}}
		if nested(k) {
			m.Head.Name = "Item"
		}
		num := 0
		for _, e := range edges {
			if e[0] != k {
				continue
			}
			num++
			f := wField{Name: fmt.Sprintf("to%d_%d", e[1], num), Number: num, Label: 1, Type: tMessage, TypeName: fqn[e[1]]}
			switch kind(e[0], e[1]) {
			case 1:
				f.Label = 3
			case 2:
				entry := wMsg{Head: wMsgHead{Name: camelOfField(f.Name), MapEntry: true, Fields: []wField{{Name: "key", Number: 1, Label: 1, Type: 9}, {Name: "value", Number: 2, Label: 1, Type: tMessage, TypeName: fqn[e[1]]}},
					Enums: []wEnum{}, Oneofs: []string{}, Exts: []wField{}}, Nested: []wMsg{}}
				f.Label, f.TypeName = 3, fqn[k]+"."+entry.Head.Name
				m.Nested = append(m.Nested, entry)
			}
			m.Head.Fields = append(m.Head.Fields, f)
		}
		for _, u := range enumUsers {
			if u == k {
				num++
				f := wField{Name: fmt.Sprintf("e%d", num), Number: num, Label: 1, Type: tEnum, TypeName: ".g.E"}
				if k%2 == 0 {
					f.Label = 3
				}
				m.Head.Fields = append(m.Head.Fields, f)
			}
		}
		if nested(k) {
			holder := wMsg{Head: wMsgHead{Name: fmt.Sprintf("H%d", k), Fields: []wField{}, Enums: []wEnum{}, Oneofs: []string{}, Exts: []wField{}}, Nested: []wMsg{m}}
			fl.Msgs = append(fl.Msgs, holder)
		} else {
			fl.Msgs = append(fl.Msgs, m)
		}
	}
	return wWorld{Files: []wFile{fl}, Targets: []string{"g.proto"}, Bidi: true}
}

// nodeRefs returns the references of the graph's nodes and of the enum in a graphWorld.
func nodeRefs(n int, nestedDup bool) ([]ref, ref) {
	rs := make([]ref, n)
	for k := 0; k < n; k++ {
		if nestedDup && k%2 == 1 {
			rs[k] = ref{0, []int{4, k, 3, 0}}
		} else {
			rs[k] = ref{0, []int{4, k}}
		}
	}
	return rs, ref{0, []int{5, 0}}
}

func permutations(n int) [][]int {
	if n == 0 {
		return [][]int{{}}
	}
	var out [][]int
	for _, p := range permutations(n - 1) {
		for i := 0; i <= len(p); i++ {
			q := append(append(append([]int{}, p[:i]...), n-1), p[i:]...)
			out = append(out, q)
		}
	}
	return out
}

type c05Engine struct{}

func (c05Engine) Isolated() bool { return false }
func (c05Engine) Run(raw json.RawMessage) (interface{}, error) {
	if string(raw) == "null" {
		return nil, fmt.Errorf("null input")
	}
	var w wWorld
	if err := json.Unmarshal(raw, &w); err != nil {
		return nil, err
	}
	r := buildAST(w)
	if err := r.b.valid(); err != nil {
		return map[string]interface{}{"invalid_world": err.Error()}, nil
	}
	return observeC05(r), nil
}

func (c05Engine) Gen(g *Gen) {
	emit := func(w wWorld, tag string) {
		g.Count("family", tag)
		g.Count("queries", fmt.Sprint(len(w.Queries)))
		g.Emit(w)
	}
	maxN := 3
	if g.Thorough() {
		maxN = 4
	}
	// all digraphs (self loops included) on n <= maxN nodes x all orders of asking the nodes
	for n := 1; n <= maxN; n++ {
		pairs := n * n
		step := 1
		if n == 4 {
			step = 37 // 65536 graphs: a stride-sampled subset, all 24 orders each
		}
		perms := permutations(n)
		for mask := 0; mask < 1<<uint(pairs); mask += step {
			var edges [][2]int
			for b := 0; b < pairs; b++ {
				if mask&(1<<uint(b)) != 0 {
					edges = append(edges, [2]int{b / n, b % n})
				}
			}
			kind := func(i, j int) int { return (i + 2*j + mask) % 3 }
			users := []int{mask % n}
			if mask%3 == 0 {
				users = append(users, (mask/3)%n)
			}
			for pi, p := range perms {
				if !g.Mine() {
					g.Emit(nil)
					continue
				}
				w := graphWorld(n, edges, kind, users, mask%5 == 0)
				nodes, en := nodeRefs(n, mask%5 == 0)
				// variant A: per node dependents then dependencies; B: all dependents, then all dependencies
				for _, k := range p {
					if (pi+mask)%2 == 0 {
						w.Queries = append(w.Queries, queryJ{nodes[k], 1}, queryJ{nodes[k], 0})
					} else {
						w.Queries = append(w.Queries, queryJ{nodes[k], 1})
					}
				}
				if (pi+mask)%2 == 1 {
					for _, k := range p {
						w.Queries = append(w.Queries, queryJ{nodes[k], 0})
					}
				}
				// ... and everything once more, in the same order: an answer must not have been changed by
				// the questions asked after it (a memo adopted from, or shared with, a neighbour)
				w.Queries = append(w.Queries, append([]queryJ{}, w.Queries...)...)
				// the enum is asked first, in the middle or last
				pos := (pi + mask) % (len(w.Queries) + 1)
				w.Queries = append(w.Queries[:pos], append([]queryJ{{en, 2}}, w.Queries[pos:]...)...)
				emit(w, fmt.Sprintf("exhaustive-n%d", n))
			}
		}
	}
	// random graphs up to 12 nodes, cycles of every length, random query histories with repetitions
	n := 1500
	if g.Thorough() {
		n = 30000
	}
	for i := 0; i < n; i++ {
		if !g.Mine() {
			// keep the PRNG stream aligned: generation is cheap, so generate anyway
		}
		nn := 2 + g.Rng.Intn(11)
		var edges [][2]int
		dens := 1 + g.Rng.Intn(3)
		for a := 0; a < nn; a++ {
			for k := 0; k < dens; k++ {
				if g.Rng.Intn(3) > 0 {
					edges = append(edges, [2]int{a, g.Rng.Intn(nn)})
				}
			}
		}
		if g.Rng.Intn(2) == 0 { // a long cycle
			for a := 0; a < nn; a++ {
				edges = append(edges, [2]int{a, (a + 1) % nn})
			}
		}
		// de-duplicate edges (two fields may reference the same type, but keep names unique)
		kinds := map[[2]int]int{}
		var uniq [][2]int
		for _, e := range edges {
			if _, ok := kinds[e]; !ok {
				kinds[e] = g.Rng.Intn(3)
				uniq = append(uniq, e)
			}
		}
		var users []int
		for a := 0; a < nn; a++ {
			if g.Rng.Intn(4) == 0 {
				users = append(users, a)
			}
		}
		dup := g.Rng.Intn(2) == 0
		w := graphWorld(nn, uniq, func(a, b int) int { return kinds[[2]int{a, b}] }, users, dup)
		nodes, en := nodeRefs(nn, dup)
		for q := 3 + g.Rng.Intn(2*nn); q > 0; q-- {
			switch g.Rng.Intn(7) {
			case 0:
				w.Queries = append(w.Queries, queryJ{en, 2})
			default:
				w.Queries = append(w.Queries, queryJ{nodes[g.Rng.Intn(nn)], g.Rng.Intn(2)})
			}
		}
		emit(w, "random")
		if i%5 == 0 { // the same graph among the well-known types of google.protobuf
			emit(wktify(w), "random-wkt")
		}
	}
	// the curated worlds (Struct / Value / ListValue among them), every message and enum asked
	for _, w := range curatedWorlds() {
		w.Bidi, w.FDSet = true, false
		if len(w.Targets) == 0 {
			w.Targets = []string{w.Files[0].Name}
		}
		if !g.Mine() {
			g.Emit(nil)
			continue
		}
		r := buildAST(w)
		if r.failed || r.b.valid() != nil || len(allEntities(r)) > 400 {
			continue
		}
		w.Queries = []queryJ{}
		for _, en := range allEntities(r) {
			switch en.kind {
			case "msg":
				w.Queries = append(w.Queries, queryJ{en.ref, 0}, queryJ{en.ref, 1})
			case "enum":
				w.Queries = append(w.Queries, queryJ{en.ref, 2})
			}
		}
		emit(w, "curated")
	}
	// the general world generator in bidirectional mode: queries over every message and enum
	m := 150
	if g.Thorough() {
		m = 3000
	}
	for i := 0; i < m; i++ {
		w := genWorld(g.Rng, genOpts{maxFiles: 4, maxDepth: 3})
		w.Bidi = true
		if !g.Mine() {
			g.Emit(nil)
			continue
		}
		r := buildAST(w)
		if r.failed || r.b.valid() != nil {
			continue
		}
		var cands []queryJ
		for _, en := range allEntities(r) {
			switch en.kind {
			case "msg":
				cands = append(cands, queryJ{en.ref, 0}, queryJ{en.ref, 1})
			case "enum":
				cands = append(cands, queryJ{en.ref, 2})
			}
		}
		g.Rng.Shuffle(len(cands), func(a, b int) { cands[a], cands[b] = cands[b], cands[a] })
		if len(cands) > 40 {
			cands = cands[:40]
		}
		if cands == nil {
			cands = []queryJ{}
		}
		w.Queries = cands
		emit(w, "general-world")
	}
}

// wktify moves a graph world into package google.protobuf and names its first nodes after
// well-known types (a message's place in the dependency graph has nothing to do with its name).
func wktify(w wWorld) wWorld {
	names := []string{"Struct", "Value", "ListValue", "Any", "Timestamp", "Duration", "Empty", "FieldMask", "DoubleValue", "StringValue", "BoolValue", "BytesValue"}
	rename := func(seg string) string {
		if strings.HasPrefix(seg, "N") {
			if k, err := strconv.Atoi(seg[1:]); err == nil && k < len(names) {
				return names[k]
			}
		}
		return seg
	}
	fixT := func(tn string) string {
		if tn == "" {
			return tn
		}
		parts := strings.Split(tn, ".")
		for i := range parts {
			if i == 1 && parts[i] == "g" {
				parts[i] = "google.protobuf"
			} else {
				parts[i] = rename(parts[i])
			}
		}
		return strings.Join(parts, ".")
	}
	var out wWorld
	b, _ := json.Marshal(w)
	_ = json.Unmarshal(b, &out)
	var fix func(ms []wMsg)
	fix = func(ms []wMsg) {
		for i := range ms {
			ms[i].Head.Name = rename(ms[i].Head.Name)
			for k := range ms[i].Head.Fields {
				ms[i].Head.Fields[k].TypeName = fixT(ms[i].Head.Fields[k].TypeName)
			}
			fix(ms[i].Nested)
		}
	}
	for fi := range out.Files {
		if out.Files[fi].Pkg == "g" {
			out.Files[fi].Pkg = "google.protobuf"
		}
		fix(out.Files[fi].Msgs)
	}
	return out
}

func init() { register("c05", c05Engine{}) }
