package main

import (
	"encoding/json"
	"errors"
	"fmt"

	pgs "github.com/lyft/protoc-gen-star/v2"
)

// ---- C07: Walk ----

// polEntry is one policy entry, on the wire [ref, [action, vid]].
type polEntry struct {
	R    ref
	A, V int
}

func (p polEntry) MarshalJSON() ([]byte, error) {
	return json.Marshal([]interface{}{p.R, []int{p.A, p.V}})
}
func (p *polEntry) UnmarshalJSON(b []byte) error {
	var raw []json.RawMessage
	if err := json.Unmarshal(b, &raw); err != nil || len(raw) != 2 {
		return fmt.Errorf("bad policy entry")
	}
	var av []int
	if err := json.Unmarshal(raw[0], &p.R); err != nil {
		return err
	}
	if err := json.Unmarshal(raw[1], &av); err != nil || len(av) != 2 {
		return fmt.Errorf("bad policy action")
	}
	p.A, p.V = av[0], av[1]
	return nil
}

type walkJ struct {
	Start  ref        `json:"start"`
	Mode   string     `json:"mode"`
	Policy []polEntry `json:"policy"`
}
type walkObs struct {
	Trace [][]interface{} `json:"trace"`
	Err   ref             `json:"err"`
}

type polAct struct{ a, vid int }

type walkRun struct {
	r      *astRun
	pol    map[string]polAct
	trace  [][]interface{}
	pkgIdx map[pgs.Package]int
}

type nodeErr struct{ at ref }

func (e nodeErr) Error() string { return fmt.Sprint("fail at ", e.at) }

type polVisitor struct {
	id  int
	run *walkRun
}

func (v polVisitor) visit(rf ref) (pgs.Visitor, error) {
	v.run.trace = append(v.run.trace, []interface{}{rf, v.id})
	switch a := v.run.pol[rf.key()]; a.a {
	case 1:
		return polVisitor{a.vid, v.run}, nil
	case 2:
		return nil, nil
	case 3:
		return nil, nodeErr{rf}
	case 4:
		return v, nodeErr{rf}
	}
	return v, nil
}
func (v polVisitor) VisitPackage(p pgs.Package) (pgs.Visitor, error) {
	i, ok := v.run.pkgIdx[p]
	if !ok {
		return v.visit(noRef)
	}
	return v.visit(ref{900000 + i, []int{}})
}
func (v polVisitor) VisitFile(e pgs.File) (pgs.Visitor, error) { return v.visit(v.run.r.refOf(e)) }
func (v polVisitor) VisitMessage(e pgs.Message) (pgs.Visitor, error) {
	return v.visit(v.run.r.refOf(e))
}
func (v polVisitor) VisitEnum(e pgs.Enum) (pgs.Visitor, error) { return v.visit(v.run.r.refOf(e)) }
func (v polVisitor) VisitEnumValue(e pgs.EnumValue) (pgs.Visitor, error) {
	return v.visit(v.run.r.refOf(e))
}
func (v polVisitor) VisitField(e pgs.Field) (pgs.Visitor, error) { return v.visit(v.run.r.refOf(e)) }
func (v polVisitor) VisitExtension(e pgs.Extension) (pgs.Visitor, error) {
	return v.visit(v.run.r.refOf(e))
}
func (v polVisitor) VisitOneOf(e pgs.OneOf) (pgs.Visitor, error) { return v.visit(v.run.r.refOf(e)) }
func (v polVisitor) VisitService(e pgs.Service) (pgs.Visitor, error) {
	return v.visit(v.run.r.refOf(e))
}
func (v polVisitor) VisitMethod(e pgs.Method) (pgs.Visitor, error) { return v.visit(v.run.r.refOf(e)) }

// preAccess calls the read accessors of every entity (their answers are dropped): what is asked
// afterwards may not depend on it (deterministic in the input, so a replay repeats it)
func preAccess(r *astRun) {
	if r.failed {
		return
	}
	for _, en := range allEntities(r) {
		for _, acc := range accessorsOf(en.kind) {
			if acc == "walk" || acc == "walkfail" || acc == "desc" || ((acc == "deps" || acc == "dpts" || acc == "edpts" || acc == "dependents") && !r.w.Bidi) {
				continue
			}
			func() {
				defer func() { recover() }()
				callAccessor(r, en.e, acc)
			}()
		}
	}
}

func observeC07(r *astRun) interface{} {
	if r.failed {
		return map[string]interface{}{"failed": true}
	}
	nodes := map[string]pgs.Node{}
	for _, en := range allEntities(r) {
		nodes[en.ref.key()] = en.e
	}
	pkgIdx := map[pgs.Package]int{}
	for i, name := range sortedPkgNames(r.ast) {
		p := r.ast.Packages()[name]
		pkgIdx[p] = i
		nodes[ref{900000 + i, []int{}}.key()] = p
	}
	// on every second world the read accessors of every entity are called first: a walk is a walk of
	// the AST, whatever was asked of it before (deterministic in the input, so a replay repeats it)
	if (len(r.w.Walks)+len(r.w.Files))%2 == 1 {
		preAccess(r)
	}
	out := []walkObs{}
	for _, wk := range r.w.Walks {
		run := &walkRun{r: r, pol: map[string]polAct{}, pkgIdx: pkgIdx, trace: [][]interface{}{}}
		for _, pe := range wk.Policy {
			run.pol[pe.R.key()] = polAct{pe.A, pe.V}
		}
		n, ok := nodes[wk.Start.key()]
		if !ok {
			out = append(out, walkObs{Trace: [][]interface{}{{"start not found"}}, Err: noRef})
			continue
		}
		var v pgs.Visitor = polVisitor{0, run}
		switch wk.Mode {
		case "pass":
			v = pgs.PassThroughVisitor(v)
			// a second pass-through visitor alive in the process is a different visitor: whatever it
			// sees shows up in the trace under visitor id 99
			_ = pgs.PassThroughVisitor(polVisitor{99, run})
		case "nil":
			v = pgs.NilVisitor()
		}
		err := pgs.Walk(v, n)
		if wk.Mode == "pass" && !passTwiceOK(r, n) {
			run.trace = append(run.trace, []interface{}{ref{0, []int{888888}}, 0})
		}
		o := walkObs{Trace: run.trace, Err: noRef}
		var ne nodeErr
		if errors.As(err, &ne) {
			o.Err = ne.at
		} else if err != nil {
			o.Err = ref{777777, []int{}}
		}
		out = append(out, o)
	}
	if len(out) > 0 && !nestedWalksOK(r) {
		out[0].Trace = append(out[0].Trace, []interface{}{ref{0, []int{888889}}, 0})
	}
	return out
}

// recV records every node it is shown and descends everywhere; lim > 0: it prunes below depth lim
// (depth 1 = the nodes it is shown first).
type recV struct {
	r     *astRun
	trace *[]ref
}

func (v recV) see(e interface{}) (pgs.Visitor, error) {
	*v.trace = append(*v.trace, v.r.refOf(e))
	return v, nil
}
func (v recV) VisitPackage(e pgs.Package) (pgs.Visitor, error) {
	*v.trace = append(*v.trace, ref{900000, []int{}})
	return v, nil
}
func (v recV) VisitFile(e pgs.File) (pgs.Visitor, error)           { return v.see(e) }
func (v recV) VisitMessage(e pgs.Message) (pgs.Visitor, error)     { return v.see(e) }
func (v recV) VisitEnum(e pgs.Enum) (pgs.Visitor, error)           { return v.see(e) }
func (v recV) VisitEnumValue(e pgs.EnumValue) (pgs.Visitor, error) { return v.see(e) }
func (v recV) VisitField(e pgs.Field) (pgs.Visitor, error)         { return v.see(e) }
func (v recV) VisitExtension(e pgs.Extension) (pgs.Visitor, error) { return v.see(e) }
func (v recV) VisitOneOf(e pgs.OneOf) (pgs.Visitor, error)         { return v.see(e) }
func (v recV) VisitService(e pgs.Service) (pgs.Visitor, error)     { return v.see(e) }
func (v recV) VisitMethod(e pgs.Method) (pgs.Visitor, error)       { return v.see(e) }

// childV lists the nodes it is shown and prunes below them.
type childV struct{ nodes *[]pgs.Node }

func (v childV) one(n pgs.Node) (pgs.Visitor, error) {
	*v.nodes = append(*v.nodes, n)
	return nil, nil
}
func (v childV) VisitPackage(e pgs.Package) (pgs.Visitor, error)     { return v.one(e) }
func (v childV) VisitFile(e pgs.File) (pgs.Visitor, error)           { return v.one(e) }
func (v childV) VisitMessage(e pgs.Message) (pgs.Visitor, error)     { return v.one(e) }
func (v childV) VisitEnum(e pgs.Enum) (pgs.Visitor, error)           { return v.one(e) }
func (v childV) VisitEnumValue(e pgs.EnumValue) (pgs.Visitor, error) { return v.one(e) }
func (v childV) VisitField(e pgs.Field) (pgs.Visitor, error)         { return v.one(e) }
func (v childV) VisitExtension(e pgs.Extension) (pgs.Visitor, error) { return v.one(e) }
func (v childV) VisitOneOf(e pgs.OneOf) (pgs.Visitor, error)         { return v.one(e) }
func (v childV) VisitService(e pgs.Service) (pgs.Visitor, error)     { return v.one(e) }
func (v childV) VisitMethod(e pgs.Method) (pgs.Visitor, error)       { return v.one(e) }

// passTwiceOK: a pass-through visitor around a pass-through visitor skips two levels - walking n
// through it shows the inner visitor exactly what walking each direct child of n through ONE
// pass-through visitor shows it, child after child. (Both sides are the real code.)
func passTwiceOK(r *astRun, n pgs.Node) bool {
	var kids []pgs.Node
	_ = pgs.Walk(pgs.PassThroughVisitor(childV{&kids}), n)
	want := []ref{}
	for _, k := range kids {
		_ = pgs.Walk(pgs.PassThroughVisitor(recV{r, &want}), k)
	}
	got := []ref{}
	_ = pgs.Walk(pgs.PassThroughVisitor(pgs.PassThroughVisitor(recV{r, &got})), n)
	return sameRefs(got, want)
}

// nestV starts, from inside VisitField, a walk of the message the field embeds - also when that
// message is being walked further up the stack (recursive types) - and compares what that inner
// walk sees with a walk of the same message started on its own.
type nestV struct {
	r     *astRun
	alone map[string]int
	bad   *bool
}

func (v nestV) VisitPackage(pgs.Package) (pgs.Visitor, error)     { return v, nil }
func (v nestV) VisitFile(pgs.File) (pgs.Visitor, error)           { return v, nil }
func (v nestV) VisitMessage(pgs.Message) (pgs.Visitor, error)     { return v, nil }
func (v nestV) VisitEnum(pgs.Enum) (pgs.Visitor, error)           { return v, nil }
func (v nestV) VisitEnumValue(pgs.EnumValue) (pgs.Visitor, error) { return v, nil }
func (v nestV) VisitExtension(pgs.Extension) (pgs.Visitor, error) { return v, nil }
func (v nestV) VisitOneOf(pgs.OneOf) (pgs.Visitor, error)         { return v, nil }
func (v nestV) VisitService(pgs.Service) (pgs.Visitor, error)     { return v, nil }
func (v nestV) VisitMethod(pgs.Method) (pgs.Visitor, error)       { return v, nil }
func (v nestV) VisitField(f pgs.Field) (pgs.Visitor, error) {
	if t := f.Type(); t != nil && t.IsEmbed() && t.Embed() != nil && !t.Embed().IsMapEntry() {
		want, ok := v.alone[t.Embed().FullyQualifiedName()]
		if ok {
			tr := []ref{}
			_ = pgs.Walk(recV{v.r, &tr}, t.Embed())
			if len(tr) != want {
				*v.bad = true
			}
		}
	}
	return v, nil
}

func nestedWalksOK(r *astRun) bool {
	alone := map[string]int{}
	var files []pgs.File
	n := 0
	for _, en := range allEntities(r) {
		switch x := en.e.(type) {
		case pgs.File:
			files = append(files, x)
		case pgs.Message:
			if n++; n > 40 {
				return true // large worlds: not worth the quadratic cost
			}
			if !x.IsMapEntry() {
				tr := []ref{}
				_ = pgs.Walk(recV{r, &tr}, x)
				alone[x.FullyQualifiedName()] = len(tr)
			}
		}
	}
	bad := false
	for _, f := range files {
		_ = pgs.Walk(nestV{r, alone, &bad}, f)
	}
	return !bad
}

// genWalks picks start nodes and visitor policies for a world.
func genWalks(g *Gen, w wWorld) []walkJ {
	r := buildAST(w)
	if r.failed {
		return []walkJ{}
	}
	// candidate start nodes and policy targets: everything except map-entry messages and their
	// fields (the property excludes them from every walk; starting *at* one is outside its domain)
	inEntry := func(rf ref) bool { return inMapEntry(w, rf) }
	var all []ref
	for _, e := range allEntities(r) {
		if !inEntry(e.ref) {
			all = append(all, e.ref)
		}
	}
	npk := len(r.ast.Packages())
	for i := 0; i < npk; i++ {
		all = append(all, ref{900000 + i, []int{}})
	}
	var walks []walkJ
	mk := func(start ref, mode string, density int) walkJ {
		wk := walkJ{Start: start, Mode: mode, Policy: []polEntry{}}
		for _, rf := range all {
			if g.Rng.Intn(100) >= density {
				continue
			}
			a := []int{1, 1, 2, 2, 3, 4}[g.Rng.Intn(6)]
			if density < 10 && a >= 3 && g.Rng.Intn(2) == 0 {
				a = 2
			}
			wk.Policy = append(wk.Policy, polEntry{rf, a, 1 + g.Rng.Intn(3)})
			g.Count("action", []string{"same", "replace", "prune", "fail-nil", "fail-keep"}[a])
		}
		g.Count("walk_mode", mode)
		return wk
	}
	// every package and file with an always-descend visitor; then random starts and policies
	for i := 0; i < npk; i++ {
		walks = append(walks, mk(ref{900000 + i, []int{}}, "rec", 0))
	}
	// every answer at the start node itself, for one start node of each container kind
	firstOf := map[string]ref{}
	for _, e := range allEntities(r) {
		if _, ok := firstOf[e.kind]; !ok && !inEntry(e.ref) {
			firstOf[e.kind] = e.ref
		}
	}
	starts := []ref{{900000, []int{}}}
	for _, k := range []string{"file", "msg", "enum", "service"} {
		if rf, ok := firstOf[k]; ok {
			starts = append(starts, rf)
		}
	}
	for _, st := range starts {
		for a := 1; a <= 4; a++ {
			wk := mk(st, "rec", 5)
			kept := wk.Policy[:0]
			for _, pe := range wk.Policy {
				if pe.R.key() != st.key() {
					kept = append(kept, pe)
				}
			}
			wk.Policy = append(kept, polEntry{st, a, 2})
			walks = append(walks, wk)
		}
	}
	for k := 0; k < 6 && len(all) > 0; k++ {
		start := all[g.Rng.Intn(len(all))]
		if k < 2 {
			start = ref{g.Rng.Intn(len(w.Files)), []int{}}
		}
		mode := "rec"
		switch g.Rng.Intn(8) {
		case 0:
			mode = "pass"
		case 1:
			mode = "nil"
		}
		walks = append(walks, mk(start, mode, []int{3, 8, 20, 40}[g.Rng.Intn(4)]))
	}
	return walks
}
