package main

import (
	"bufio"
	"bytes"
	"encoding/json"
	"fmt"
	"io"
	"math/rand"
	"os"
	"os/exec"
	"sort"
	"strconv"
	"time"
)

// Engine is one correspondence: a generator of inputs and a runner of the real code.
type Engine interface {
	// Gen emits inputs through g.Emit; it must derive every random choice from g.Rng.
	Gen(g *Gen)
	// Run executes the real code on one input and returns the canonical observation.
	Run(in json.RawMessage) (interface{}, error)
	// Isolated engines may terminate the process (os.Exit inside the library); they run in a
	// worker subprocess and a death is itself an observation.
	Isolated() bool
}

var engines = map[string]Engine{}

func register(name string, e Engine) { engines[name] = e }

// Gen carries the PRNG, the tier and the shard filter, and collects distribution statistics.
type Gen struct {
	Rng      *rand.Rand
	Tier     string
	shard, n int
	seen     int // inputs generated (all shards)
	emitted  int // inputs of this shard
	emit     func(in interface{})
	hist     map[string]map[string]int
}

func newGen(seed int64, tier string, shard, n int) *Gen {
	return &Gen{Rng: rand.New(rand.NewSource(seed)), Tier: tier, shard: shard, n: n, hist: map[string]map[string]int{}}
}

func (g *Gen) Thorough() bool { return g.Tier == "thorough" }

// Emit hands one input to the runner if it belongs to this shard.
func (g *Gen) Emit(in interface{}) {
	mine := g.seen%g.n == g.shard
	g.seen++
	if mine {
		g.emitted++
		g.emit(in)
	}
}

// Mine reports whether the next Emit would be processed by this shard (lets generators skip
// expensive construction for other shards while keeping the PRNG stream identical).
func (g *Gen) Mine() bool { return g.seen%g.n == g.shard }

// MineAfter reports whether the Emit after the next k ones would be processed by this shard.
func (g *Gen) MineAfter(k int) bool { return (g.seen+k)%g.n == g.shard }

// Count records one observation of a categorical dimension of the input distribution.
func (g *Gen) Count(dim, val string) {
	if g.seen%g.n != g.shard {
		return // statistics describe the inputs of this shard only (shards are summed afterwards)
	}
	m := g.hist[dim]
	if m == nil {
		m = map[string]int{}
		g.hist[dim] = m
	}
	m[val]++
}

func (g *Gen) writeStats(path string) {
	type kv struct {
		K string `json:"k"`
		N int    `json:"n"`
	}
	out := map[string]interface{}{"generated": g.seen, "emitted": g.emitted}
	h := map[string][]kv{}
	for d, m := range g.hist {
		for k, n := range m {
			h[d] = append(h[d], kv{k, n})
		}
		sort.Slice(h[d], func(i, j int) bool { return h[d][i].K < h[d][j].K })
	}
	out["hist"] = h
	b, _ := json.Marshal(out)
	_ = os.WriteFile(path, b, 0644)
}

// runner executes cases in-process, or through a crash-isolated worker.
type runner struct {
	eng  Engine
	name string
	cmd  *exec.Cmd
	in   io.WriteCloser
	out  *bufio.Reader
	errb *bytes.Buffer
}

func newRunner(e Engine, name string) *runner { return &runner{eng: e, name: name} }

// caseTimeout bounds one case: real code that no longer terminates on an input must become an
// observation ("hang") with that input, not a check that never ends.
var caseTimeout = func() time.Duration {
	if v, err := strconv.Atoi(os.Getenv("VERIF_CASE_TIMEOUT")); err == nil && v > 0 {
		return time.Duration(v) * time.Second
	}
	return 120 * time.Second
}()

// hung is set when a case timed out: the runaway goroutine cannot be stopped, so the process
// reports the case and then exits (remaining cases of this shard are not run).
var hung = false

func safeRun(e Engine, raw json.RawMessage) json.RawMessage {
	done := make(chan json.RawMessage, 1)
	go func() { done <- safeRun1(e, raw) }()
	select {
	case r := <-done:
		return r
	case <-time.After(caseTimeout):
		hung = true
		b, _ := json.Marshal(map[string]interface{}{"hang": true, "seconds": int(caseTimeout.Seconds())})
		return b
	}
}

func safeRun1(e Engine, raw json.RawMessage) (res json.RawMessage) {
	defer func() {
		if r := recover(); r != nil {
			b, _ := json.Marshal(map[string]interface{}{"panic": fmt.Sprint(r)})
			res = b
		}
	}()
	obs, err := e.Run(raw)
	if err != nil {
		b, _ := json.Marshal(map[string]interface{}{"harness_error": err.Error()})
		return b
	}
	b, err := json.Marshal(obs)
	if err != nil {
		b, _ = json.Marshal(map[string]interface{}{"harness_error": err.Error()})
	}
	return b
}

func (r *runner) start() {
	self, _ := os.Executable()
	r.cmd = exec.Command(self, "worker", "-e", r.name)
	r.errb = &bytes.Buffer{}
	r.cmd.Stderr = r.errb
	r.in, _ = r.cmd.StdinPipe()
	so, _ := r.cmd.StdoutPipe()
	r.out = bufio.NewReaderSize(so, 1<<20)
	if err := r.cmd.Start(); err != nil {
		panic(err)
	}
}

func (r *runner) run(raw json.RawMessage) json.RawMessage {
	if !r.eng.Isolated() {
		return safeRun(r.eng, raw)
	}
	if r.cmd == nil {
		r.start()
	}
	fmt.Fprintf(r.in, "%s\n", raw)
	line, err := r.out.ReadBytes('\n')
	if err == nil {
		if bytes.Contains(line, []byte(`"hang":true`)) { // the worker reported a case that never returned and exited
			r.in.Close()
			_ = r.cmd.Wait()
			r.cmd = nil
		}
		return json.RawMessage(bytes.TrimSpace(line))
	}
	// the worker died: that is the observation
	r.in.Close()
	werr := r.cmd.Wait()
	code := 0
	if ee, ok := werr.(*exec.ExitError); ok {
		code = ee.ExitCode()
	}
	stderr := r.errb.String()
	if len(stderr) > 6000 { // keep the head and the tail: the cause of a failure follows the (possibly very long) name it quotes
		stderr = stderr[:3000] + " ... " + stderr[len(stderr)-3000:]
	}
	r.cmd = nil
	if od, ok := r.eng.(interface {
		OnDeath(exit int, stderr string) interface{}
	}); ok {
		b, _ := json.Marshal(od.OnDeath(code, stderr))
		return b
	}
	b, _ := json.Marshal(map[string]interface{}{"died": true, "exit": code, "stderr": stderr, "partial_stdout": string(line)})
	return b
}

func (r *runner) close() {
	if r.cmd != nil {
		r.in.Close()
		_ = r.cmd.Wait()
		r.cmd = nil
	}
}

func workerLoop(e Engine) {
	sc := bufio.NewScanner(os.Stdin)
	sc.Buffer(make([]byte, 1<<20), 1<<28)
	out := bufio.NewWriter(os.Stdout)
	for sc.Scan() {
		res := safeRun(e, json.RawMessage(append([]byte(nil), sc.Bytes()...)))
		out.Write(res)
		out.WriteByte('\n')
		out.Flush()
		if hung {
			os.Exit(0)
		}
	}
}

// ---- helpers shared by engines ----

// B is a Go string transported as an array of byte values (strings need not be UTF-8).
type B []int

func toB(s string) B {
	b := make(B, len(s))
	for i := 0; i < len(s); i++ {
		b[i] = int(s[i])
	}
	return b
}

func (b B) String() string {
	x := make([]byte, len(b))
	for i, v := range b {
		x[i] = byte(v)
	}
	return string(x)
}

func pick(r *rand.Rand, xs []string) string { return xs[r.Intn(len(xs))] }

func newLocalRand(seed int64) *rand.Rand { return rand.New(rand.NewSource(seed)) }
