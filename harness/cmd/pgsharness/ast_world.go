package main

import (
	"fmt"
	"google.golang.org/protobuf/runtime/protoiface"
	"google.golang.org/protobuf/runtime/protoimpl"
	"math/rand"
	"strings"

	"google.golang.org/protobuf/proto"
	"google.golang.org/protobuf/reflect/protodesc"
	"google.golang.org/protobuf/reflect/protoregistry"
	descriptor "google.golang.org/protobuf/types/descriptorpb"
	plugin_go "google.golang.org/protobuf/types/pluginpb"
)

// ---- the descriptor world shared by the AST engines (JSON shape = lean/PgsVerif/Model/World.lean) ----

type wEnumVal struct {
	Name   string `json:"name"`
	Number int32  `json:"number"`
}
type wEnum struct {
	Name   string     `json:"name"`
	Values []wEnumVal `json:"values"`
	// Alias: option allow_alias = true (two values may share a number). Harness-only.
	Alias bool `json:"alias,omitempty"`
}
type wField struct {
	Name           string `json:"name"`
	Number         int    `json:"number"`
	Label          int    `json:"label"`
	Type           int    `json:"type"`
	TypeName       string `json:"typeName"`
	OneofIndex     *int   `json:"oneofIndex"`
	Proto3Optional bool   `json:"proto3Optional"`
	Extendee       string `json:"extendee"`
	// P3Explicit: the descriptor spells `proto3_optional: false` out (valid; same meaning as absent).
	// Harness-only: the Lean world ignores it.
	P3Explicit bool `json:"p3explicit,omitempty"`
	// Packed: 0 absent, 1 `[packed = true]`, 2 `[packed = false]` spelled out (repeated scalars and enums). Harness-only.
	Packed int `json:"packed,omitempty"`
}
type wMethod struct {
	Name   string `json:"name"`
	Input  string `json:"input"`
	Output string `json:"output"`
	CS     bool   `json:"cs"`
	SS     bool   `json:"ss"`
}
type wService struct {
	Name    string    `json:"name"`
	Methods []wMethod `json:"methods"`
}
type wMsgHead struct {
	Name     string   `json:"name"`
	MapEntry bool     `json:"mapEntry"`
	Fields   []wField `json:"fields"`
	Enums    []wEnum  `json:"enums"`
	Oneofs   []string `json:"oneofs"`
	Exts     []wField `json:"exts"`
	ExtRange bool     `json:"extRange"` // has an extension range [1000, 536870912) (not read by the model)
	// MEExplicit: the options spell `map_entry: false` out (valid; same meaning as absent). Harness-only.
	MEExplicit bool `json:"meExplicit,omitempty"`
}
type wMsg struct {
	Head   wMsgHead `json:"head"`
	Nested []wMsg   `json:"nested"`
}
type wLoc struct {
	Path []int `json:"path"`
	Tag  int   `json:"tag"`
}
type wFile struct {
	Name       string     `json:"name"`
	Pkg        string     `json:"pkg"`
	Syn        string     `json:"syn"`
	Deps       []string   `json:"deps"`
	PublicDeps []int      `json:"publicDeps"`
	Enums      []wEnum    `json:"enums"`
	Msgs       []wMsg     `json:"msgs"`
	Services   []wService `json:"services"`
	Exts       []wField   `json:"exts"`
	Locs       []wLoc     `json:"locs"`
	GoPackage  string     `json:"goPackage"`
	// PkgPresent: the `package` field is present in the descriptor although the name is empty (valid; protoc
	// never emits it, hand-built descriptors do). Harness-only: same meaning to the model.
	PkgPresent bool `json:"pkgPresent,omitempty"`
	// WeakDeps: indices into Deps also listed as weak_dependency (valid; pgs does not read it). Harness-only.
	WeakDeps []int `json:"weakDeps,omitempty"`
}
type wWorld struct {
	Files   []wFile  `json:"files"`
	Targets []string `json:"targets"`
	Bidi    bool     `json:"bidi"`
	FDSet   bool     `json:"fdset"`         // entry point ProcessFileDescriptorSet* (harness only; targets are then empty)
	Probes  []string `json:"probes"`        // C02: names to look up
	Walks   []walkJ  `json:"walks"`         // C07: start nodes and visitor policies
	Queries []queryJ `json:"queries"`       // C05: dependency accessor calls, in order
	Ops     []opJ    `json:"ops"`           // C06: accessor calls / walks, in order
	Param   string   `json:"param"`         // C17: the request's parameter string ("" or "paths=source_relative")
	Rev     bool     `json:"rev,omitempty"` // C04 (harness only): ask the files in reverse order
	// Opts (harness only): ordinary messages carry custom options (two string extensions of MessageOptions),
	// which ones is a function of the message's position (optMask)
	Opts bool `json:"opts,omitempty"`
}

// the two custom options of worlds with Opts, per kind of options message
func mkOpt(ext protoiface.MessageV1, field int32, name string) *protoimpl.ExtensionInfo {
	return &protoimpl.ExtensionInfo{ExtendedType: ext, ExtensionType: (*string)(nil), Field: field, Name: "verif." + name,
		Tag: fmt.Sprintf("bytes,%d,opt,name=%s", field, name)}
}

var (
	extOptA  = mkOpt((*descriptor.MessageOptions)(nil), 50001, "opt_a")
	extOptB  = mkOpt((*descriptor.MessageOptions)(nil), 50002, "opt_b")
	extFOptA = mkOpt((*descriptor.FileOptions)(nil), 50011, "fopt_a")
	extFOptB = mkOpt((*descriptor.FileOptions)(nil), 50012, "fopt_b")
	extEOptA = mkOpt((*descriptor.EnumOptions)(nil), 50021, "eopt_a")
	extEOptB = mkOpt((*descriptor.EnumOptions)(nil), 50022, "eopt_b")
	extSOptA = mkOpt((*descriptor.ServiceOptions)(nil), 50031, "sopt_a")
	extSOptB = mkOpt((*descriptor.ServiceOptions)(nil), 50032, "sopt_b")
)

// optMask: bit 0 = the message at r carries option A, bit 1 = option B
func optMask(r ref) int {
	s := r.File + len(r.Path)
	for _, p := range r.Path {
		s += p
	}
	return s % 4
}

type ref struct {
	File int   `json:"file"`
	Path []int `json:"path"`
}

func (r ref) key() string { return fmt.Sprint(r.File, r.Path) }

func mkRef(file int, path []int, more ...int) ref {
	p := append(append([]int{}, path...), more...)
	return ref{file, p}
}

const (
	tMessage = 11
	tEnum    = 14
	tGroup   = 10
)

var scalarKinds = []int{1, 2, 3, 4, 5, 6, 7, 8, 9, 12, 13, 15, 16, 17, 18}
var mapKeyKinds = []int{3, 4, 5, 6, 7, 8, 9, 13, 15, 16, 17, 18}

// ---------- conversion to descriptors, remembering which descriptor is which declaration ----------

type built struct {
	opts  bool
	files []*descriptor.FileDescriptorProto
	refOf map[interface{}]ref // descriptor pointer -> declaration reference
}

func i32(v int) *int32 { x := int32(v); return &x }

func (b *built) field(f wField, r ref) *descriptor.FieldDescriptorProto {
	fd := &descriptor.FieldDescriptorProto{
		Name:   proto.String(f.Name),
		Number: i32(f.Number),
		Label:  descriptor.FieldDescriptorProto_Label(f.Label).Enum(),
		Type:   descriptor.FieldDescriptorProto_Type(f.Type).Enum(),
	}
	if f.TypeName != "" {
		fd.TypeName = proto.String(f.TypeName)
	}
	if f.OneofIndex != nil {
		fd.OneofIndex = i32(*f.OneofIndex)
	}
	if f.Proto3Optional {
		fd.Proto3Optional = proto.Bool(true)
	} else if f.P3Explicit {
		fd.Proto3Optional = proto.Bool(false)
	}
	if f.Extendee != "" {
		fd.Extendee = proto.String(f.Extendee)
	}
	switch f.Packed {
	case 1:
		fd.Options = &descriptor.FieldOptions{Packed: proto.Bool(true)}
	case 2:
		fd.Options = &descriptor.FieldOptions{Packed: proto.Bool(false)}
	}
	b.refOf[fd] = r
	return fd
}

func (b *built) enum(e wEnum, r ref) *descriptor.EnumDescriptorProto {
	ed := &descriptor.EnumDescriptorProto{Name: proto.String(e.Name)}
	if e.Alias {
		ed.Options = &descriptor.EnumOptions{AllowAlias: proto.Bool(true)}
	}
	if b.opts {
		if k := optMask(r); k != 0 {
			if ed.Options == nil {
				ed.Options = &descriptor.EnumOptions{}
			}
			if k&1 != 0 {
				proto.SetExtension(ed.Options, extEOptA, "a-of-"+e.Name)
			}
			if k&2 != 0 {
				proto.SetExtension(ed.Options, extEOptB, "b-of-"+e.Name)
			}
		}
	}
	for i, v := range e.Values {
		vd := &descriptor.EnumValueDescriptorProto{Name: proto.String(v.Name), Number: proto.Int32(v.Number)}
		b.refOf[vd] = mkRef(r.File, r.Path, 2, i)
		ed.Value = append(ed.Value, vd)
	}
	b.refOf[ed] = r
	return ed
}

func (b *built) msg(m wMsg, r ref) *descriptor.DescriptorProto {
	md := &descriptor.DescriptorProto{Name: proto.String(m.Head.Name)}
	if m.Head.MapEntry {
		md.Options = &descriptor.MessageOptions{MapEntry: proto.Bool(true)}
	} else if m.Head.MEExplicit {
		md.Options = &descriptor.MessageOptions{MapEntry: proto.Bool(false)}
	}
	if b.opts && !m.Head.MapEntry {
		if k := optMask(r); k != 0 {
			if md.Options == nil {
				md.Options = &descriptor.MessageOptions{}
			}
			if k&1 != 0 {
				proto.SetExtension(md.Options, extOptA, "a-of-"+m.Head.Name)
			}
			if k&2 != 0 {
				proto.SetExtension(md.Options, extOptB, "b-of-"+m.Head.Name)
			}
		}
	}
	if m.Head.ExtRange {
		md.ExtensionRange = []*descriptor.DescriptorProto_ExtensionRange{{Start: proto.Int32(1000), End: proto.Int32(536870912)}}
	}
	for i, f := range m.Head.Fields {
		md.Field = append(md.Field, b.field(f, mkRef(r.File, r.Path, 2, i)))
	}
	for i, n := range m.Nested {
		md.NestedType = append(md.NestedType, b.msg(n, mkRef(r.File, r.Path, 3, i)))
	}
	for i, e := range m.Head.Enums {
		md.EnumType = append(md.EnumType, b.enum(e, mkRef(r.File, r.Path, 4, i)))
	}
	for i, x := range m.Head.Exts {
		md.Extension = append(md.Extension, b.field(x, mkRef(r.File, r.Path, 6, i)))
	}
	for i, o := range m.Head.Oneofs {
		od := &descriptor.OneofDescriptorProto{Name: proto.String(o)}
		b.refOf[od] = mkRef(r.File, r.Path, 8, i)
		md.OneofDecl = append(md.OneofDecl, od)
	}
	b.refOf[md] = r
	return md
}

func buildWorld(w wWorld) *built {
	b := &built{refOf: map[interface{}]ref{}, opts: w.Opts}
	for fi, f := range w.Files {
		fd := &descriptor.FileDescriptorProto{Name: proto.String(f.Name)}
		if f.Pkg != "" || f.PkgPresent {
			fd.Package = proto.String(f.Pkg)
		}
		if f.Syn != "" {
			fd.Syntax = proto.String(f.Syn)
		}
		fd.Dependency = append(fd.Dependency, f.Deps...)
		for _, p := range f.PublicDeps {
			fd.PublicDependency = append(fd.PublicDependency, int32(p))
		}
		for _, p := range f.WeakDeps {
			fd.WeakDependency = append(fd.WeakDependency, int32(p))
		}
		if f.GoPackage != "" {
			fd.Options = &descriptor.FileOptions{GoPackage: proto.String(f.GoPackage)}
		}
		if b.opts {
			if k := (fi + 1) % 4; k != 0 {
				if fd.Options == nil {
					fd.Options = &descriptor.FileOptions{}
				}
				if k&1 != 0 {
					proto.SetExtension(fd.Options, extFOptA, "a-of-"+f.Name)
				}
				if k&2 != 0 {
					proto.SetExtension(fd.Options, extFOptB, "b-of-"+f.Name)
				}
			}
		}
		for i, m := range f.Msgs {
			fd.MessageType = append(fd.MessageType, b.msg(m, mkRef(fi, nil, 4, i)))
		}
		for i, e := range f.Enums {
			fd.EnumType = append(fd.EnumType, b.enum(e, mkRef(fi, nil, 5, i)))
		}
		for i, s := range f.Services {
			sd := &descriptor.ServiceDescriptorProto{Name: proto.String(s.Name)}
			if b.opts {
				if k := optMask(mkRef(fi, nil, 6, i)); k != 0 {
					sd.Options = &descriptor.ServiceOptions{}
					if k&1 != 0 {
						proto.SetExtension(sd.Options, extSOptA, "a-of-"+s.Name)
					}
					if k&2 != 0 {
						proto.SetExtension(sd.Options, extSOptB, "b-of-"+s.Name)
					}
				}
			}
			for j, m := range s.Methods {
				md := &descriptor.MethodDescriptorProto{Name: proto.String(m.Name), InputType: proto.String(m.Input), OutputType: proto.String(m.Output)}
				if m.CS {
					md.ClientStreaming = proto.Bool(true)
				}
				if m.SS {
					md.ServerStreaming = proto.Bool(true)
				}
				b.refOf[md] = mkRef(fi, nil, 6, i, 2, j)
				sd.Method = append(sd.Method, md)
			}
			b.refOf[sd] = mkRef(fi, nil, 6, i)
			fd.Service = append(fd.Service, sd)
		}
		for i, x := range f.Exts {
			fd.Extension = append(fd.Extension, b.field(x, mkRef(fi, nil, 7, i)))
		}
		if len(f.Locs) > 0 {
			sci := &descriptor.SourceCodeInfo{}
			for _, l := range f.Locs {
				loc := &descriptor.SourceCodeInfo_Location{Span: []int32{int32(l.Tag), 0, 1}, LeadingComments: proto.String(fmt.Sprintf("tag:%d", l.Tag))}
				for _, p := range l.Path {
					loc.Path = append(loc.Path, int32(p))
				}
				sci.Location = append(sci.Location, loc)
			}
			fd.SourceCodeInfo = sci
		}
		b.refOf[fd] = ref{fi, []int{}}
		b.files = append(b.files, fd)
	}
	return b
}

func (b *built) request(w wWorld) *plugin_go.CodeGeneratorRequest {
	return &plugin_go.CodeGeneratorRequest{FileToGenerate: append([]string{}, w.Targets...), ProtoFile: b.files}
}

// valid reports whether protobuf's own descriptor validation accepts the world.
func (b *built) valid() error {
	_, err := protodesc.NewFiles(&descriptor.FileDescriptorSet{File: b.files})
	return err
}

func (b *built) registry() *protoregistry.Files {
	fs, _ := protodesc.NewFiles(&descriptor.FileDescriptorSet{File: b.files})
	return fs
}

// ---------- generator ----------

type declMsg struct {
	fqn      string
	file     int
	mapEntry bool
	extRange bool
	proto3   bool
}
type declEnum struct {
	fqn    string
	file   int
	proto3 bool
	zero   bool // first value is 0 (required of map value enums)
}

type worldGen struct {
	r       *rand.Rand
	n       int // name counter
	extNum  int
	msgs    []declMsg
	enums   []declEnum
	used    map[string]bool
	goNames bool
	pooled  bool // draw names from small pools, unique per scope only
	long    bool // pad names so that qualified names reach 100-300 bytes
	// needZero: only enums whose first value is 0 may be picked (map values)
	needZero bool
	usedMax  bool // extension number 536870911 taken
}

// identifiers of every admissible spelling, names equal to generated method names, fields
// colliding with each other's getters, oneof members colliding with nested types
var goNamePools = map[string][]string{
	"M": {"Item", "item", "_Item", "Item_", "I_tem", "item2", "Item2D", "ITEM", "i", "X_y", "Foo", "Bar", "foo_bar", "Get", "M_Foo", "Foo_", "text_block", "sha256sum", "s3bucket", "v1beta", "z9a", "a0z", "Z0a_9z", "Sha256sum", "V2beta", "X509cert"},
	"E": {"Kind", "kind", "_kind", "Kind_", "K_ind", "KIND", "Foo", "color3d", "x2y", "a9z", "z0_a", "Color3d", "Utf8mode"},
	"V": {"UNKNOWN", "first", "_second", "Third_", "o_ther", "x", "V1", "v_1", "z9z", "a_0a"},
	"f": {"proto", "foo", "get_foo", "reset", "string", "proto_message", "descriptor", "marshal", "unmarshal", "extension_map", "extension_range_array", "foo_", "_foo", "foo__bar",
		"Foo", "fooBar", "foo1", "f_1", "get_reset", "get_get_foo", "x_y_z", "bar", "get_bar", "Reset", "reset_", "get", "get_", "item", "kind",
		"sha256sum", "vector3d_point", "s3bucket", "ipv4_address", "x86", "a1b2c3", "utf8_2go",
		"x0y", "x9y", "base10a", "n9", "a", "z", "a_z", "z_a", "zz_9aa", "_a0", "_9z", "az_za", "q7_z0a", "Crc32c", "Ipv4addr"},
	"of": {"foo", "bar", "item", "kind", "reset", "get_foo", "foo_", "Foo", "baz", "string", "get_bar", "Item", "Kind", "textBlock", "TextBlock", "fooBar", "FooBar", "md5hash", "I", "x9z", "a0_z"},
	"o":  {"choice", "reset", "string", "which_one", "Choice", "_c", "c_", "get_foo", "descriptor", "z9a", "a_0z"},
	"mp": {"labels", "index", "foo_map", "Attrs", "reset"}, "x": {"tag", "ext_1", "_note"},
	"S": {"Api", "admin_svc", "_Svc", "svc2", "s3api", "z9a_svc", "ServerInfo", "GameServerAdmin", "server_status", "ClientHub", "my_client_api", "V2beta", "S3api"}, "Rpc": {"Get", "put_it", "_list", "List2", "get2nd", "a0z", "z_9a", "Get3d", "List2nd"},
}

var namePools = map[string][]string{
	"M": {"Item", "Tag", "Node", "Info", "Data", "proto"}, "E": {"Kind", "State", "Color"}, "V": {"UNKNOWN", "FIRST", "SECOND", "THIRD", "OTHER", "proto"},
	"f": {"id", "name", "value", "item", "tag", "next", "data", "proto"}, "of": {"a", "b", "c", "d", "e"}, "o": {"choice", "kind_of", "which"},
	"mp": {"labels", "index", "attrs"}, "x": {"tag", "ext", "note"}, "S": {"Api", "Admin"}, "Rpc": {"Get", "Put", "List"},
}

// fresh returns a name that is new in `scope` (a package or message scope: protobuf keeps one
// namespace per scope for messages, enums, enum values, fields, oneofs and extensions).
// In pooled mode names repeat across scopes (Cart.Item / Invoice.Item, a.tag / a.Scope.tag).
func (wg *worldGen) fresh(prefix, scope string) string {
	wg.n++
	if wg.used == nil {
		wg.used = map[string]bool{}
	}
	if wg.pooled {
		pool := namePools[prefix]
		if wg.goNames {
			pool = goNamePools[prefix]
		}
		for try := 0; try < 6 && len(pool) > 0; try++ {
			n := pool[wg.r.Intn(len(pool))]
			if wg.long {
				n += strings.Repeat("x", wg.r.Intn(30))
			}
			if prefix == "V" {
				n = n + fmt.Sprint("_", wg.n%7) // enum values also live in the enum's parent scope
			}
			if !wg.used[scope+"\x00"+n] && !wg.used[scope+"\x00"+strings.ToLower(n)] {
				wg.used[scope+"\x00"+n] = true
				wg.used[scope+"\x00"+strings.ToLower(n)] = true
				return n
			}
		}
	}
	n := fmt.Sprintf("%s%d", prefix, wg.n)
	if wg.long {
		n += strings.Repeat("y", wg.r.Intn(40))
	}
	wg.used[scope+"\x00"+n] = true
	return n
}

func camelOfField(name string) string {
	// protoc's map entry name: CamelCase(field name) + "Entry"
	var b strings.Builder
	up := true
	for _, c := range name {
		if c == '_' {
			up = true
			continue
		}
		if up && c >= 'a' && c <= 'z' {
			c -= 'a' - 'A'
		}
		up = false
		b.WriteRune(c)
	}
	return b.String() + "Entry"
}

type genOpts struct {
	goNames   bool // adversarial Go-relevant identifiers
	maxFiles  int
	maxDepth  int
	locs      bool
	goPkg     bool
	fewFields bool
}

func fqnJoin(scope, name string) string { return scope + "." + name }

// genWorld builds a world that protobuf's validation accepts by construction.
func genWorld(r *rand.Rand, o genOpts) wWorld {
	wg := &worldGen{r: r, extNum: 1000, pooled: r.Intn(2) == 0 || o.goNames, long: r.Intn(6) == 0 && !o.goNames, goNames: o.goNames}
	nf := 1 + r.Intn(o.maxFiles)
	shape := r.Intn(4)
	pkgs := []string{"", "a", "a.b", "c"}
	var w wWorld
	visible := make([]map[int]bool, nf) // files whose types file i may reference (besides itself)
	reexports := make([]map[int]bool, nf)
	for fi := 0; fi < nf; fi++ {
		f := wFile{Name: fmt.Sprintf("f%d.proto", fi), Pkg: pkgs[r.Intn(len(pkgs))], Deps: []string{}, PublicDeps: []int{}, Enums: []wEnum{}, Msgs: []wMsg{},
			Services: []wService{}, Exts: []wField{}, Locs: []wLoc{}}
		switch r.Intn(9) {
		case 0, 1, 2:
			f.Name = fmt.Sprintf("dir%d/f%d.proto", r.Intn(2), fi)
		case 3: // dot-directories and dot-files are ordinary paths
			f.Name = fmt.Sprintf(".hidden/f%d.proto", fi)
		case 4:
			f.Name = fmt.Sprintf(".f%d.proto", fi)
		}
		if r.Intn(12) == 0 && !o.goPkg { // spelled un-normalised, consistently (descriptor name, imports, targets)
			f.Name = fmt.Sprintf([]string{"./f%d.proto", "sub//f%d.proto", "a/./f%d.proto", "b/../f%d.proto"}[r.Intn(4)], fi)
		}
		if r.Intn(12) == 0 { // ".proto" elsewhere than at the end
			f.Name = []string{"acme.protos/api/f%d.proto", "f%d.proto3.proto", "x.proto/f%d.proto", "f%d.v1.proto"}[r.Intn(4)]
			f.Name = fmt.Sprintf(f.Name, fi)
		}
		proto3 := r.Intn(2) == 0
		switch {
		case proto3:
			f.Syn = "proto3"
		case r.Intn(2) == 0:
			f.Syn = "proto2"
		}
		if f.Pkg == "" && r.Intn(2) == 0 {
			f.PkgPresent = true
		}
		visible[fi] = map[int]bool{}
		reexports[fi] = map[int]bool{}
		// declaration order of the imports: ascending (as protoc users mostly write them), or any
		// other order - `import "b"; import "a"` with b importing a is as valid
		depOrder := make([]int, fi)
		for i := range depOrder {
			depOrder[i] = i
		}
		switch r.Intn(3) {
		case 0:
			r.Shuffle(len(depOrder), func(i, j int) { depOrder[i], depOrder[j] = depOrder[j], depOrder[i] })
		case 1:
			for i, j := 0, len(depOrder)-1; i < j; i, j = i+1, j-1 {
				depOrder[i], depOrder[j] = depOrder[j], depOrder[i]
			}
		}
		for _, d := range depOrder {
			// import shapes: sparse random DAG, chains, hubs, dense
			take := false
			switch shape {
			case 0:
				take = r.Intn(3) == 0
			case 1: // chain with a few extra edges
				take = d == fi-1 || r.Intn(6) == 0
			case 2: // hubs: the first files are imported by many; later files chain
				take = (d < 2 && r.Intn(4) > 0) || d == fi-1 && r.Intn(2) == 0
			default:
				take = r.Intn(3) > 0
			}
			if !take {
				continue
			}
			f.Deps = append(f.Deps, w.Files[d].Name)
			visible[fi][d] = true
			for x := range reexports[d] {
				visible[fi][x] = true
			}
			if r.Intn(8) == 0 && !o.goPkg {
				f.WeakDeps = append(f.WeakDeps, len(f.Deps)-1)
			} else if r.Intn(3) == 0 {
				f.PublicDeps = append(f.PublicDeps, len(f.Deps)-1)
				reexports[fi][d] = true
				for x := range reexports[d] {
					reexports[fi][x] = true
				}
			}
		}
		scope := ""
		if f.Pkg != "" {
			scope = "." + f.Pkg
		}
		// first pass: declare names (so that fields may refer to later and nested declarations)
		ne := r.Intn(3)
		for i := 0; i < ne; i++ {
			f.Enums = append(f.Enums, wg.genEnum(scope, fi, proto3))
		}
		nm := r.Intn(5)
		if o.maxFiles > 6 {
			nm = r.Intn(3) // many files: keep each small
		}
		for i := 0; i < nm; i++ {
			f.Msgs = append(f.Msgs, wg.declMsgTree(scope, fi, proto3, o.maxDepth))
		}
		w.Files = append(w.Files, f)
		// second pass: fields, oneofs, maps, extensions, services
		fp := &w.Files[fi]
		for i := range fp.Msgs {
			wg.fillMsg(&fp.Msgs[i], scope, fi, proto3, visible[fi], o)
		}
		if !proto3 {
			for k := r.Intn(3); k > 0; k-- {
				if x, ok := wg.genExt(scope, fi, proto3, visible[fi]); ok {
					fp.Exts = append(fp.Exts, x)
				}
			}
		}
		ns := r.Intn(3)
		for i := 0; i < ns; i++ {
			s := wService{Name: wg.fresh("S", scope), Methods: []wMethod{}}
			for k := r.Intn(4); k > 0; k-- {
				in, ok1 := wg.pickMsg(fi, visible[fi], false)
				out, ok2 := wg.pickMsg(fi, visible[fi], false)
				if !ok1 || !ok2 {
					break
				}
				s.Methods = append(s.Methods, wMethod{Name: wg.fresh("Rpc", scope+"."+s.Name), Input: in.fqn, Output: out.fqn, CS: r.Intn(3) == 0, SS: r.Intn(3) == 0})
			}
			fp.Services = append(fp.Services, s)
		}
		if o.goPkg {
			dir := "."
			if i := strings.LastIndex(fp.Name, "/"); i >= 0 {
				dir = fp.Name[:i]
			}
			// a bare-name go_package makes the file's directory the import path: all bare names used in one
			// directory must agree (protoc-gen-go rejects "inconsistent names" otherwise), so there is one
			// spelling per directory
			bare := "bare" + strings.ReplaceAll(dir, ".", "root")
			if len(dir)%2 == 0 {
				bare = "dash\u2014" + strings.ReplaceAll(dir, ".", "root")
			}
			pool := []string{"example.com/gen/alpha", "example.com/gen/beta;betapkg", "example.com/x/go-pkg", "example.com/x/v1.2", "example.com/x/type",
				"example.com/x/9lives", bare, "example.com/gen/alpha", "example.com/y/func;select", "example.com/y/Mixed_Case",
				"example.com/z/a.b-c;d-e.f", "only/one", "example.com/q/my--pkg", "example.com/q/v1.-beta;snake__case", "example.com/q/a.-_b", "example.com/a/types", "example.com/b/types", "example.com/a/types", "example.com/b/types",
				"example.com/acme/billing/v2", "example.com/x/y/v3", "gen;pb", "./pb", "example.com/api/./pb", "example.com/api//pb", "example.com/api/pb", "example.com/x/mapping", "example.com/m/maps", "example.com/m/v2;mapper", "example.com/q/foo\u2013bar", "example.com/q/a\u00b7b;c\U0001F642d", bare}
			fp.GoPackage = pool[r.Intn(len(pool))]
		}
		if o.locs && (fi == 0 || r.Intn(5) > 0) { // some files carry no source info at all
			genLocs(r, fp)
			for k := range fp.Locs {
				fp.Locs[k].Tag += fi * 100000 // tags are unique in the request, not only in the file
			}
		}
	}
	// targets
	switch r.Intn(8) {
	case 0:
		w.FDSet = true
		w.Targets = []string{}
	default:
		for _, f := range w.Files {
			if r.Intn(2) == 0 {
				w.Targets = append(w.Targets, f.Name)
			}
		}
		if len(w.Targets) == 0 {
			w.Targets = []string{w.Files[r.Intn(nf)].Name}
		}
		if r.Intn(4) == 0 { // not in request order
			r.Shuffle(len(w.Targets), func(i, j int) { w.Targets[i], w.Targets[j] = w.Targets[j], w.Targets[i] })
		}
	}
	w.Bidi = r.Intn(2) == 0
	return w
}

func (wg *worldGen) genEnum(scope string, fi int, proto3 bool) wEnum {
	e := wEnum{Name: wg.fresh("E", scope)}
	nv := 1 + wg.r.Intn(3)
	sparse := !proto3 && wg.r.Intn(3) == 0
	// numbers in no particular order (declaration order is what counts), negatives included
	unordered := !sparse && wg.r.Intn(3) == 0
	perm := wg.r.Perm(9)
	for i := 0; i < nv; i++ {
		num := int32(i)
		if sparse {
			num = int32(i*7 + 1)
		}
		if unordered && i > 0 {
			num = int32(perm[i]*3 - 7)
			if num == 0 {
				num = 100
			}
		}
		e.Values = append(e.Values, wEnumVal{wg.fresh("V", scope), num})
	}
	if nv >= 2 && wg.r.Intn(5) == 0 { // aliases: a later value repeats an earlier number
		e.Alias = true
		e.Values[nv-1].Number = e.Values[wg.r.Intn(nv-1)].Number
	}
	wg.enums = append(wg.enums, declEnum{fqnJoin(scope, e.Name), fi, proto3, !sparse})
	return e
}

// declMsgTree declares a message with its nested ordinary messages and enums (no fields yet).
func (wg *worldGen) declMsgTree(scope string, fi int, proto3 bool, depth int) wMsg {
	m := wMsg{Head: wMsgHead{Name: wg.fresh("M", scope), Fields: []wField{}, Enums: []wEnum{}, Oneofs: []string{}, Exts: []wField{}}, Nested: []wMsg{}}
	fqn := fqnJoin(scope, m.Head.Name)
	m.Head.ExtRange = !proto3 && wg.r.Intn(3) == 0
	m.Head.MEExplicit = wg.r.Intn(5) == 0
	wg.msgs = append(wg.msgs, declMsg{fqn, fi, false, m.Head.ExtRange, proto3})
	for k := wg.r.Intn(2); k > 0; k-- {
		m.Head.Enums = append(m.Head.Enums, wg.genEnum(fqn, fi, proto3))
	}
	if depth > 0 {
		for k := wg.r.Intn(3); k > 0; k-- {
			m.Nested = append(m.Nested, wg.declMsgTree(fqn, fi, proto3, depth-1))
		}
	}
	return m
}

func (wg *worldGen) pickMsg(fi int, vis map[int]bool, needExtRange bool) (declMsg, bool) {
	var c []declMsg
	for _, m := range wg.msgs {
		if m.mapEntry || (needExtRange && !m.extRange) {
			continue
		}
		if m.file == fi || vis[m.file] {
			c = append(c, m)
		}
	}
	if len(c) == 0 {
		return declMsg{}, false
	}
	return c[wg.r.Intn(len(c))], true
}

func (wg *worldGen) pickEnum(fi int, vis map[int]bool, proto3 bool) (declEnum, bool) {
	var c []declEnum
	for _, e := range wg.enums {
		if wg.needZero && !e.zero {
			continue
		}
		if proto3 && !e.proto3 {
			continue // proto3 messages may not use closed (proto2) enums
		}
		if e.file == fi || vis[e.file] {
			c = append(c, e)
		}
	}
	if len(c) == 0 {
		return declEnum{}, false
	}
	return c[wg.r.Intn(len(c))], true
}

// typed fills type and type_name of f with a random scalar / enum / message type.
func (wg *worldGen) typed(f *wField, fi int, vis map[int]bool, proto3 bool) {
	switch wg.r.Intn(5) {
	case 0, 1:
		if m, ok := wg.pickMsg(fi, vis, false); ok {
			f.Type, f.TypeName = tMessage, m.fqn
			return
		}
	case 2:
		if e, ok := wg.pickEnum(fi, vis, proto3); ok {
			f.Type, f.TypeName = tEnum, e.fqn
			return
		}
	}
	f.Type = scalarKinds[wg.r.Intn(len(scalarKinds))]
}

func (wg *worldGen) fillMsg(m *wMsg, scope string, fi int, proto3 bool, vis map[int]bool, o genOpts) {
	fqn := fqnJoin(scope, m.Head.Name)
	for i := range m.Nested {
		wg.fillMsg(&m.Nested[i], fqn, fi, proto3, vis, o)
	}
	num := 0
	next := func() int { num++; return num }
	nReal := wg.r.Intn(3)
	if o.fewFields {
		nReal = wg.r.Intn(2)
	}
	var synthetic []int // indices of proto3-optional fields
	addField := func(f wField) { m.Head.Fields = append(m.Head.Fields, f) }
	plain := func() {
		f := wField{Name: wg.fresh("f", fqn), Number: next(), Label: 1}
		switch r := wg.r.Intn(10); {
		case r < 2:
			f.Label = 3
		case r == 2 && !proto3:
			f.Label = 2
		}
		wg.typed(&f, fi, vis, proto3)
		if f.Label == 3 && f.Type != tMessage && f.Type != 9 && f.Type != 12 {
			f.Packed = []int{0, 0, 1, 2}[wg.r.Intn(4)]
		}
		if proto3 && f.Label == 1 && wg.r.Intn(4) == 0 {
			f.Proto3Optional = true
			synthetic = append(synthetic, len(m.Head.Fields))
		} else if wg.r.Intn(6) == 0 {
			f.P3Explicit = true
		}
		addField(f)
		if f.Proto3Optional && o.goNames && wg.r.Intn(3) == 0 && !wg.used[fqn+"\x00x_"+f.Name] {
			// the synthetic oneof `_name` becomes Go `XName`: a sibling `x_name` must be renamed around it
			wg.used[fqn+"\x00x_"+f.Name] = true
			sib := wField{Name: "x_" + f.Name, Number: next(), Label: 1, Type: 5}
			addField(sib)
		}
	}
	mapField := func() {
		f := wField{Name: wg.fresh("mp", fqn), Number: next(), Label: 3, Type: tMessage}
		entry := wMsg{Head: wMsgHead{Name: camelOfField(f.Name), MapEntry: true, Enums: []wEnum{}, Oneofs: []string{}, Exts: []wField{}}, Nested: []wMsg{}}
		k := wField{Name: "key", Number: 1, Label: 1, Type: mapKeyKinds[wg.r.Intn(len(mapKeyKinds))]}
		v := wField{Name: "value", Number: 2, Label: 1}
		wg.needZero = true
		wg.typed(&v, fi, vis, proto3)
		wg.needZero = false
		entry.Head.Fields = []wField{k, v}
		f.TypeName = fqnJoin(fqn, entry.Head.Name)
		wg.used[fqn+"\x00"+entry.Head.Name] = true
		// the entry type is interleaved among the ordinary nested types
		pos := wg.r.Intn(len(m.Nested) + 1)
		m.Nested = append(m.Nested[:pos], append([]wMsg{entry}, m.Nested[pos:]...)...)
		wg.msgs = append(wg.msgs, declMsg{f.TypeName, fi, true, false, proto3})
		addField(f)
	}
	// the pre-proto3 way to write a map by hand: `repeated LabelsEntry labels` next to an ordinary nested
	// message `LabelsEntry { key = 1; value = 2 }` WITHOUT the map_entry option: not a map
	legacyMapField := func() {
		f := wField{Name: wg.fresh("lg", fqn), Number: next(), Label: 3, Type: tMessage}
		entry := wMsg{Head: wMsgHead{Name: camelOfField(f.Name), MapEntry: false, Enums: []wEnum{}, Oneofs: []string{}, Exts: []wField{}}, Nested: []wMsg{}}
		entry.Head.Fields = []wField{{Name: "key", Number: 1, Label: 1, Type: 9}, {Name: "value", Number: 2, Label: 1, Type: 9}}
		f.TypeName = fqnJoin(fqn, entry.Head.Name)
		if wg.used[fqn+"\x00"+entry.Head.Name] {
			return
		}
		wg.used[fqn+"\x00"+entry.Head.Name] = true
		pos := wg.r.Intn(len(m.Nested) + 1)
		m.Nested = append(m.Nested[:pos], append([]wMsg{entry}, m.Nested[pos:]...)...)
		wg.msgs = append(wg.msgs, declMsg{f.TypeName, fi, false, false, proto3})
		addField(f)
	}
	nFields := wg.r.Intn(5)
	if o.fewFields {
		nFields = wg.r.Intn(3)
	}
	for i := 0; i < nFields; i++ {
		switch k := wg.r.Intn(18); {
		case k < 3:
			mapField()
		case k == 3:
			legacyMapField()
		default:
			plain()
		}
	}
	for oi := 0; oi < nReal; oi++ {
		m.Head.Oneofs = append(m.Head.Oneofs, wg.fresh("o", fqn))
		idx := oi
		for k := 1 + wg.r.Intn(3); k > 0; k-- {
			f := wField{Name: wg.fresh("of", fqn), Number: next(), Label: 1, OneofIndex: &idx}
			f.P3Explicit = wg.r.Intn(3) == 0
			wg.typed(&f, fi, vis, proto3)
			addField(f)
		}
		if wg.r.Intn(2) == 0 && oi+1 < nReal {
			plain()
		}
	}
	if wg.r.Intn(2) == 0 {
		plain()
	}
	// synthetic oneofs after the real ones, one per proto3-optional field
	for _, idx := range synthetic {
		oi := len(m.Head.Oneofs)
		on := "_" + m.Head.Fields[idx].Name
		if wg.r.Intn(4) == 0 && !wg.used[fqn+"\x00X"+on] { // what protoc calls it when `_name` is taken
			on = "X" + on
		}
		wg.used[fqn+"\x00"+on] = true
		m.Head.Oneofs = append(m.Head.Oneofs, on)
		m.Head.Fields[idx].OneofIndex = &oi
	}
	if !proto3 {
		for k := []int{0, 0, 0, 1, 2, 3}[wg.r.Intn(6)]; k > 0; k-- {
			if x, ok := wg.genExt(fqn, fi, proto3, vis); ok {
				m.Head.Exts = append(m.Head.Exts, x)
			}
		}
	}
}

func (wg *worldGen) genExt(scope string, fi int, proto3 bool, vis map[int]bool) (wField, bool) {
	target, ok := wg.pickMsg(fi, vis, true)
	if !ok {
		return wField{}, false
	}
	wg.extNum++
	x := wField{Name: wg.fresh("x", scope), Number: wg.extNum, Label: 1, Extendee: target.fqn}
	if !wg.usedMax && wg.r.Intn(3) == 0 { // the last number of the extension range (and of all field numbers)
		wg.usedMax = true
		x.Number = 536870911
	}
	if wg.r.Intn(3) == 0 {
		x.Label = 3
	}
	wg.typed(&x, fi, vis, proto3)
	if x.Label == 3 && x.Type != tMessage && x.Type != 9 && x.Type != 12 {
		x.Packed = []int{0, 0, 1, 2}[wg.r.Intn(4)]
	}
	return x, true
}

// genLocs gives every declaration of the file a location with a unique tag, interleaved with
// distractor locations that designate no declaration.
func genLocs(r *rand.Rand, f *wFile) {
	tag := 0
	add := func(path ...int) {
		tag++
		f.Locs = append(f.Locs, wLoc{append([]int{}, path...), tag})
	}
	distract := func(path []int) {
		// names (1), numbers (3), options, ranges, unknown field numbers: odd and even lengths
		switch r.Intn(6) {
		case 0:
			add(append(append([]int{}, path...), 1)...)
		case 1:
			add(append(append([]int{}, path...), 99, 0)...)
		case 2:
			add(append(append([]int{}, path...), 7, 0, 1)...)
		}
	}
	// whole file (protoc emits it first), syntax and package statements; stripped source info may
	// lack any of them
	switch r.Intn(6) {
	case 0:
		add(2)
	case 1:
		add(12)
	case 2:
		add()
		add(2)
	default:
		add()
		add(12)
		add(2)
	}
	if r.Intn(2) == 0 {
		add(3, 0) // dependency
		add(8)    // options
		add(8, 11)
	}
	var msg func(path []int, m *wMsg)
	enum := func(path []int, e *wEnum) {
		add(path...)
		distract(path)
		for i := range e.Values {
			add(append(append([]int{}, path...), 2, i)...)
			distract(append(append([]int{}, path...), 2, i))
		}
	}
	msg = func(path []int, m *wMsg) {
		add(path...)
		distract(path)
		for i := range m.Head.Fields {
			p := append(append([]int{}, path...), 2, i)
			add(p...)
			distract(p)
			if r.Intn(4) == 0 {
				add(append(append([]int{}, p...), 8, 3)...) // a field option: even length below a leaf
			}
		}
		for i := range m.Nested {
			msg(append(append([]int{}, path...), 3, i), &m.Nested[i])
		}
		for i := range m.Head.Enums {
			enum(append(append([]int{}, path...), 4, i), &m.Head.Enums[i])
		}
		if len(m.Head.Exts) > 0 && r.Intn(2) == 0 {
			add(append(append([]int{}, path...), 6)...) // the `extend` block itself, before its members
		}
		for i := range m.Head.Exts {
			add(append(append([]int{}, path...), 6, i)...)
		}
		for i := range m.Head.Oneofs {
			add(append(append([]int{}, path...), 8, i)...)
		}
		if m.Head.ExtRange {
			add(append(append([]int{}, path...), 5, 0)...)
			add(append(append([]int{}, path...), 5, 0, 1)...)
		}
	}
	for i := range f.Msgs {
		msg([]int{4, i}, &f.Msgs[i])
	}
	for i := range f.Enums {
		enum([]int{5, i}, &f.Enums[i])
	}
	for i, s := range f.Services {
		add(6, i)
		for j := range s.Methods {
			add(6, i, 2, j)
			if r.Intn(3) == 0 {
				add(6, i, 2, j, 4, 1) // method option
			}
		}
	}
	if len(f.Exts) > 0 && r.Intn(2) == 0 {
		add(7)
	}
	for i := range f.Exts {
		add(7, i)
	}
	// keep the whole-file location first, shuffle the rest a little
	rest := f.Locs[1:]
	if r.Intn(2) == 0 {
		r.Shuffle(len(rest), func(i, j int) { rest[i], rest[j] = rest[j], rest[i] })
	}
}
