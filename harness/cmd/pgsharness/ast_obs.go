package main

import (
	"encoding/json"
	"fmt"
	"sort"

	pgs "github.com/lyft/protoc-gen-star/v2"
	"google.golang.org/protobuf/proto"
	"google.golang.org/protobuf/reflect/protoregistry"
	descriptor "google.golang.org/protobuf/types/descriptorpb"
)

// ---- building the real AST and mapping its entities back to declarations ----

type astRun struct {
	w      wWorld
	b      *built
	ast    pgs.AST
	failed bool
	msg    string
	reg    *protoregistry.Files
	// pristine: descriptors of a copy of the request that pgs never saw, by declaration (lazily built)
	pristine map[string]proto.Message
}

func buildAST(w wWorld) (run *astRun) {
	run = &astRun{w: w, b: buildWorld(w)}
	md := pgs.InitMockDebugger()
	defer func() {
		if r := recover(); r != nil {
			run.failed, run.msg = true, fmt.Sprint("panic: ", r)
		}
	}()
	switch {
	case w.FDSet && w.Bidi:
		run.ast = pgs.ProcessFileDescriptorSetBidirectional(md, &descriptor.FileDescriptorSet{File: run.b.files})
	case w.FDSet:
		run.ast = pgs.ProcessFileDescriptorSet(md, &descriptor.FileDescriptorSet{File: run.b.files})
	case w.Bidi:
		run.ast = pgs.ProcessCodeGeneratorRequestBidirectional(md, run.b.request(w))
	default:
		run.ast = pgs.ProcessCodeGeneratorRequest(md, run.b.request(w))
	}
	if md.Failed() {
		run.failed, run.msg = true, "debugger reported failure"
	}
	return run
}

var noRef = ref{0, []int{999999}}

// refOf maps an AST entity to the declaration whose descriptor it exposes (pointer identity).
func (r *astRun) refOf(e interface{}) ref {
	var d interface{}
	switch x := e.(type) {
	case pgs.File:
		d = x.Descriptor()
	case pgs.Message:
		d = x.Descriptor()
	case pgs.Enum:
		d = x.Descriptor()
	case pgs.EnumValue:
		d = x.Descriptor()
	case pgs.Field: // also extensions
		d = x.Descriptor()
	case pgs.OneOf:
		d = x.Descriptor()
	case pgs.Service:
		d = x.Descriptor()
	case pgs.Method:
		d = x.Descriptor()
	default:
		return noRef
	}
	if rf, ok := r.b.refOf[d]; ok {
		return rf
	}
	return noRef
}

func refLess(a, b ref) bool {
	if a.File != b.File {
		return a.File < b.File
	}
	for i := 0; i < len(a.Path) && i < len(b.Path); i++ {
		if a.Path[i] != b.Path[i] {
			return a.Path[i] < b.Path[i]
		}
	}
	return len(a.Path) < len(b.Path)
}

func sortRefs(rs []ref) []ref {
	sort.SliceStable(rs, func(i, j int) bool { return refLess(rs[i], rs[j]) })
	return rs
}

// ---- C01: navigation ----

type navRec struct {
	Of    ref    `json:"of"`
	Acc   string `json:"acc"`
	Items []ref  `json:"items"`
}
type navObs struct {
	Failed   bool            `json:"failed"`
	Targets  [][]interface{} `json:"targets"`
	Packages [][]interface{} `json:"packages"`
	Recs     []navRec        `json:"recs"`
}

type navigator struct {
	r    *astRun
	recs []navRec
}

func (n *navigator) rec(of interface{}, acc string, items []ref, sorted bool) {
	if items == nil {
		items = []ref{}
	}
	if sorted {
		items = sortRefs(items)
	}
	n.recs = append(n.recs, navRec{n.r.refOf(of), acc, items})
}

func refsOfMsgs(r *astRun, ms []pgs.Message) []ref {
	out := []ref{}
	for _, m := range ms {
		out = append(out, r.refOf(m))
	}
	return out
}
func refsOfEnums(r *astRun, es []pgs.Enum) []ref {
	out := []ref{}
	for _, e := range es {
		out = append(out, r.refOf(e))
	}
	return out
}
func refsOfFields(r *astRun, fs []pgs.Field) []ref {
	out := []ref{}
	for _, f := range fs {
		out = append(out, r.refOf(f))
	}
	return out
}
func refsOfExts(r *astRun, xs []pgs.Extension) []ref {
	out := []ref{}
	for _, x := range xs {
		out = append(out, r.refOf(x))
	}
	return out
}

func (n *navigator) enum(e pgs.Enum) {
	vs := []ref{}
	for _, v := range e.Values() {
		vs = append(vs, n.r.refOf(v))
	}
	n.rec(e, "values", vs, false)
}

func (n *navigator) msg(m pgs.Message) {
	r := n.r
	n.rec(m, "enums", refsOfEnums(r, m.Enums()), false)
	n.rec(m, "messages", refsOfMsgs(r, m.Messages()), false)
	n.rec(m, "mapEntries", refsOfMsgs(r, m.MapEntries()), false)
	n.rec(m, "fields", refsOfFields(r, m.Fields()), false)
	os := []ref{}
	for _, o := range m.OneOfs() {
		os = append(os, r.refOf(o))
	}
	n.rec(m, "oneofs", os, false)
	n.rec(m, "exts", refsOfExts(r, m.DefinedExtensions()), false)
	n.rec(m, "allMessages", refsOfMsgs(r, m.AllMessages()), true)
	n.rec(m, "allEnums", refsOfEnums(r, m.AllEnums()), true)
	for _, e := range m.Enums() {
		n.enum(e)
	}
	for _, sm := range m.Messages() {
		n.msg(sm)
	}
	for _, me := range m.MapEntries() {
		n.msg(me)
	}
	for _, o := range m.OneOfs() {
		n.rec(o, "oneofFields", refsOfFields(r, o.Fields()), false)
	}
}

func (n *navigator) file(f pgs.File) {
	r := n.r
	n.rec(f, "enums", refsOfEnums(r, f.Enums()), false)
	n.rec(f, "messages", refsOfMsgs(r, f.Messages()), false)
	n.rec(f, "mapEntries", refsOfMsgs(r, f.MapEntries()), false)
	ss := []ref{}
	for _, s := range f.Services() {
		ss = append(ss, r.refOf(s))
	}
	n.rec(f, "services", ss, false)
	n.rec(f, "exts", refsOfExts(r, f.DefinedExtensions()), false)
	n.rec(f, "allMessages", refsOfMsgs(r, f.AllMessages()), true)
	n.rec(f, "allEnums", refsOfEnums(r, f.AllEnums()), true)
	for _, e := range f.Enums() {
		n.enum(e)
	}
	for _, m := range f.Messages() {
		n.msg(m)
	}
	for _, s := range f.Services() {
		ms := []ref{}
		for _, m := range s.Methods() {
			ms = append(ms, r.refOf(m))
		}
		n.rec(s, "methods", ms, false)
	}
}

func sortedPkgNames(ast pgs.AST) []string {
	var names []string
	for k := range ast.Packages() {
		names = append(names, k)
	}
	sort.Strings(names)
	return names
}

func observeNav(r *astRun) navObs {
	o := navObs{Targets: [][]interface{}{}, Packages: [][]interface{}{}, Recs: []navRec{}}
	if r.failed {
		o.Failed = true
		return o
	}
	var tn []string
	for k := range r.ast.Targets() {
		tn = append(tn, k)
	}
	sort.Strings(tn)
	for _, k := range tn {
		f := r.ast.Targets()[k]
		rf := noRef
		if f != nil {
			rf = r.refOf(f)
		}
		o.Targets = append(o.Targets, []interface{}{k, rf})
	}
	n := &navigator{r: r}
	for _, name := range sortedPkgNames(r.ast) {
		p := r.ast.Packages()[name]
		frs := []ref{}
		for _, f := range p.Files() {
			frs = append(frs, r.refOf(f))
		}
		o.Packages = append(o.Packages, []interface{}{name, frs})
		for _, f := range p.Files() {
			n.file(f)
		}
	}
	o.Recs = n.recs
	if o.Recs == nil {
		o.Recs = []navRec{}
	}
	return o
}

// ---- the AST engines: one per property section, all over the same world generator ----

type astEngine struct{ section string }

func (astEngine) Isolated() bool { return false }

func (e astEngine) opts(g *Gen) (genOpts, int) {
	o := genOpts{maxFiles: 5, maxDepth: 3, locs: true}
	if e.section == "c04" {
		o = genOpts{maxFiles: 9, maxDepth: 2, locs: false}
	}
	n := 1000
	if g.Thorough() {
		n = 6000
	}
	return o, n
}

func (e astEngine) Gen(g *Gen) {
	o, n := e.opts(g)
	for _, w := range curatedWorlds() {
		g.Count("source", "curated")
		if e.section == "c02" {
			w.Probes = probeNames(w)
		}
		if e.section == "c07" {
			w.Walks = genWalks(g, w)
		}
		g.Emit(w)
		if e.section == "c04" {
			w.Rev = true
			g.Emit(w)
		}
	}
	for i := 0; i < n; i++ {
		w := genWorld(g.Rng, o)
		if e.section == "c04" { // twice: asked in request order and in reverse order
			if !g.Mine() && !g.MineAfter(1) {
				g.Emit(nil)
				g.Emit(nil)
				continue
			}
			if err := buildWorld(w).valid(); err != nil {
				g.Count("protodesc", "rejected")
				continue
			}
			g.Count("protodesc", "accepted")
			countWorld(g, w)
			g.Emit(w)
			w.Rev = true
			g.Emit(w)
			continue
		}
		if !g.Mine() {
			g.Emit(nil)
			continue
		}
		if err := buildWorld(w).valid(); err != nil {
			g.Count("protodesc", "rejected")
			continue
		}
		g.Count("protodesc", "accepted")
		countWorld(g, w)
		if e.section == "c02" {
			w.Probes = probeNames(w)
		}
		if e.section == "c07" {
			w.Walks = genWalks(g, w)
		}
		g.Emit(w)
	}
}

func countWorld(g *Gen, w wWorld) {
	g.Count("files", fmt.Sprint(len(w.Files)))
	g.Count("entry", map[bool]string{true: "fdset", false: "request"}[w.FDSet]+map[bool]string{true: "+bidi", false: ""}[w.Bidi])
	depth, maps, oneofs, syn, exts, svcs := 0, 0, 0, 0, 0, 0
	var walk func(ms []wMsg, d int)
	walk = func(ms []wMsg, d int) {
		for _, m := range ms {
			if d > depth {
				depth = d
			}
			if m.Head.MapEntry {
				maps++
			}
			oneofs += len(m.Head.Oneofs)
			exts += len(m.Head.Exts)
			for _, f := range m.Head.Fields {
				if f.Proto3Optional {
					syn++
				}
			}
			walk(m.Nested, d+1)
		}
	}
	for _, f := range w.Files {
		walk(f.Msgs, 1)
		exts += len(f.Exts)
		svcs += len(f.Services)
		g.Count("syntax", map[string]string{"": "proto2-omitted", "proto2": "proto2-spelled", "proto3": "proto3"}[f.Syn])
	}
	bucket := func(n int) string {
		switch {
		case n == 0:
			return "0"
		case n < 3:
			return "1-2"
		}
		return "3+"
	}
	g.Count("nesting_depth", fmt.Sprint(depth))
	g.Count("map_fields", bucket(maps))
	g.Count("oneofs", bucket(oneofs))
	g.Count("proto3_optional", bucket(syn))
	g.Count("extensions", bucket(exts))
	g.Count("services", bucket(svcs))
}

func (e astEngine) Run(raw json.RawMessage) (interface{}, error) {
	if string(raw) == "null" {
		return nil, fmt.Errorf("null input")
	}
	var w wWorld
	if err := json.Unmarshal(raw, &w); err != nil {
		return nil, err
	}
	r := buildAST(w)
	if err := r.b.valid(); err != nil {
		return map[string]interface{}{"invalid_world": err.Error()}, nil
	}
	// on every third world the listing accessors of every entity have already been called when the
	// observation starts: a module may have asked anything before (a listing must not rearrange
	// what it lists from)
	if e.section != "c07" && (len(w.Files)+len(w.Targets))%3 == 1 {
		preAccess(r)
	}
	switch e.section {
	case "c01":
		return observeNav(r), nil
	case "c02":
		return observeC02(r), nil
	case "c03":
		return observeC03(r), nil
	case "c04":
		// the derived relations are asked file by file: in request order, or (every world is run
		// a second time with Rev set) importers before their imports - the answers may not depend on it
		return observeC04(r, w.Rev), nil
	case "c08":
		return observeC08(r), nil
	case "c09":
		return observeC09(r), nil
	case "c07":
		return observeC07(r), nil
	}
	return nil, fmt.Errorf("unknown section %s", e.section)
}

func init() {
	for _, s := range []string{"c01", "c02", "c03", "c04", "c08", "c09", "c07"} {
		register(s, astEngine{s})
	}
}
