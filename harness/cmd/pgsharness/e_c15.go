package main

import (
	"encoding/json"
	"fmt"
	"strings"
	"unicode"
	"unicode/utf8"

	pgs "github.com/lyft/protoc-gen-star/v2"
)

// ---- C15: Name.Split and the eight case helpers ----

type imgEntry struct {
	P []int `json:"p"`
	T []int `json:"t"`
	U []int `json:"u"`
	L []int `json:"l"`
}
type c15In struct {
	S    B          `json:"s"`
	Name []int      `json:"name"`
	Up   []int      `json:"up"`
	Dg   []int      `json:"dg"`
	Img  []imgEntry `json:"img"`
}
type c15Obs struct {
	Parts [][]int `json:"parts"`
	Conv  [][]int `json:"conv"`
}

func runesOf(s string) []int {
	out := []int{}
	for _, r := range s {
		out = append(out, int(r))
	}
	return out
}

func mkC15In(s string) c15In {
	in := c15In{S: toB(s), Name: runesOf(s), Up: []int{}, Dg: []int{}, Img: []imgEntry{}}
	seenU, seenD := map[rune]bool{}, map[rune]bool{}
	for _, r := range s {
		if (unicode.IsUpper(r) || unicode.IsTitle(r)) && !seenU[r] {
			seenU[r] = true
			in.Up = append(in.Up, int(r))
		}
		if unicode.IsDigit(r) && !seenD[r] {
			seenD[r] = true
			in.Dg = append(in.Dg, int(r))
		}
	}
	cand := map[string]bool{}
	func() {
		defer func() { recover() }()
		for _, p := range pgs.Name(s).Split() {
			cand[p] = true
		}
	}()
	rs := []rune{}
	for _, r := range s {
		rs = append(rs, r)
	}
	if len(rs) <= 9 {
		for i := 0; i <= len(rs); i++ {
			for j := i; j <= len(rs); j++ {
				cand[string(rs[i:j])] = true
			}
		}
	}
	for p := range cand {
		in.Img = append(in.Img, imgEntry{runesOf(p), runesOf(strings.Title(p)), runesOf(strings.ToUpper(p)), runesOf(strings.ToLower(p))})
	}
	// deterministic order
	sortImgs(in.Img)
	return in
}

func sortImgs(es []imgEntry) {
	key := func(e imgEntry) string { return fmt.Sprint(e.P) }
	for i := 1; i < len(es); i++ {
		for j := i; j > 0 && key(es[j]) < key(es[j-1]); j-- {
			es[j], es[j-1] = es[j-1], es[j]
		}
	}
}

type c15Engine struct{}

func (c15Engine) Isolated() bool { return false }

func (c15Engine) Gen(g *Gen) {
	emit := func(s string) {
		if !g.Mine() {
			g.Emit(nil)
			return
		}
		kind := "camel"
		if strings.Contains(s, ".") {
			kind = "dot"
		} else if strings.LastIndex(s, "_") > 0 {
			kind = "underscore"
		}
		g.Count("branch", kind)
		g.Count("runes", fmt.Sprint(utf8.RuneCountInString(s)))
		g.Count("valid_utf8", fmt.Sprint(utf8.ValidString(s)))
		g.Emit(mkC15In(s))
	}
	for _, s := range []string{"", "_", "__", ".", "fooBAR9x", "_fooBAR", "Éa", "JSONStringFooBar", "_JString", "__Double", ".foo.bar",
		"_foo_bar", "myJSON", "ABC1DEF", "123def", "_Privatish", "foo_Bar", "JSON_string", "My_JSON", "foo.Bar", "_Xy", "_XYz", "aǅb", "٣abc٣", "ÉÉa", "_Éa",
		"a\ufffdb", "HTTP\ufffdServer", "\ufffd", "x\ufffd9\ufffdY", "x²y", "a½B", "ⅣFoo", "HTTP-proxy", "foo-bar_baz", "a\xffB\xfe"} {
		emit(s)
	}
	alpha := []string{"a", "B", "1", "_", ".", "É"}
	maxLen := 5
	if g.Thorough() {
		maxLen = 7
	}
	var rec func(p string, n int)
	rec = func(p string, n int) {
		if p != "" {
			emit(p)
		}
		if n == 0 {
			return
		}
		for _, a := range alpha {
			rec(p+a, n-1)
		}
	}
	rec("", maxLen)
	// second small alphabet without separators: longer camel-case words
	alpha2 := []string{"a", "B", "C", "1", "Ω"}
	var rec2 func(p string, n int)
	rec2 = func(p string, n int) {
		if n == 0 {
			emit(p)
			emit("_" + p)
			return
		}
		for _, a := range alpha2 {
			rec2(p+a, n-1)
		}
	}
	rec2("", maxLen+1)
	pool := []string{"a", "b", "z", "A", "B", "Z", "0", "9", "_", ".", "É", "é", "Ω", "ω", "Ж", "ж", "ǅ", "ǈ", "٣", "５", "ß", "ı", "İ", "ﬁ",
		"́", "😀", "中", " ", "-", "\xff", "\xc3", "\x00", "ᾈ", "Ⅷ", "²", "½", "\ufffd", "\u2082", "\u2028", "\u00a0", "\xef\xbf", "\xed\xa0\x80"}
	n := 5000
	if g.Thorough() {
		n = 150000
	}
	for i := 0; i < n; i++ {
		l := 1 + g.Rng.Intn(14)
		var sb strings.Builder
		// bias: mostly letters, few separators
		for j := 0; j < l; j++ {
			if g.Rng.Intn(6) == 0 {
				sb.WriteString(pool[g.Rng.Intn(len(pool))])
			} else {
				sb.WriteString(pool[g.Rng.Intn(8)])
			}
		}
		s := sb.String()
		switch g.Rng.Intn(4) {
		case 0:
			s = strings.ReplaceAll(strings.ReplaceAll(s, ".", ""), "_", "")
		case 1:
			s = "_" + strings.ReplaceAll(strings.ReplaceAll(s, ".", ""), "_", "")
		case 2:
			s = strings.ReplaceAll(s, ".", "")
		}
		emit(s)
	}
}

func (c15Engine) Run(raw json.RawMessage) (interface{}, error) {
	if string(raw) == "null" {
		return nil, fmt.Errorf("null input")
	}
	var in c15In
	if err := json.Unmarshal(raw, &in); err != nil {
		return nil, err
	}
	n := pgs.Name(in.S.String())
	// history: a conversion with a custom transformer (public API) on the empty name and on this
	// name must leave nothing behind that a later Split or conversion can see
	mark := pgs.NameTransformer(func(s string) string { return "_" + s + "!" })
	_ = pgs.Name("").Transform(mark, mark, "")
	_ = n.Transform(mark, mark.Chain(strings.ToUpper), "~")
	obs := c15Obs{Parts: [][]int{}, Conv: [][]int{}}
	valid := utf8.ValidString(in.S.String())
	for _, p := range n.Split() {
		rs := runesOf(p)
		// the observation is in runes; a part of a well-formed name that is not well-formed UTF-8
		// itself (bytes of a character lost) would read the same in runes: mark it
		if valid && !utf8.ValidString(p) {
			rs = append(rs, 0x10FFFF)
		}
		obs.Parts = append(obs.Parts, rs)
	}
	for _, c := range []pgs.Name{n.UpperCamelCase(), n.LowerCamelCase(), n.ScreamingSnakeCase(), n.LowerSnakeCase(),
		n.UpperSnakeCase(), n.SnakeCase(), n.LowerDotNotation(), n.UpperDotNotation()} {
		obs.Conv = append(obs.Conv, runesOf(c.String()))
	}
	return obs, nil
}

func init() { register("c15", c15Engine{}) }
