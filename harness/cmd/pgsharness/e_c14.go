package main

import (
	"bytes"
	"encoding/json"
	"errors"
	"fmt"
	"io"
	"os"
	"os/exec"
	"strings"

	pgs "github.com/lyft/protoc-gen-star/v2"
	"github.com/spf13/afero"
	"google.golang.org/protobuf/proto"
	descriptor "google.golang.org/protobuf/types/descriptorpb"
	plugin_go "google.golang.org/protobuf/types/pluginpb"
)

// ---- C14: fail-stop, observed on a real child process ----
//
// `pgsharness plugin` is a real protoc plugin built on the library: it reads the request from
// its stdin, writes the response to its stdout and terminates through the library's own
// os.Exit.  The fault plan (env VERIF_PLAN) says which step is made to fail.

type c14In struct {
	Input string     `json:"input"` // "", "readError", "garbage", "partial", "noTargets"
	Arts  []artJ     `json:"arts"`
	Procs []procJ    `json:"procs"`
	FS0   []fileEntJ `json:"fs0"`
	Dirs0 []B        `json:"dirs0"`
	FsIdx *int       `json:"fsIdx"`
	FsOp  string     `json:"fsOp"`
	Out   string     `json:"out"` // "", "error", "errorfull", "short"
}
type c14Obs struct {
	Exit   int    `json:"exit"`
	Stdout string `json:"stdout"`
	Cause  string `json:"cause"`
}

type errReader struct{}

func (errReader) Read([]byte) (int, error) { return 0, errors.New("injected read failure") }

type errWriter struct{}

func (errWriter) Write([]byte) (int, error) { return 0, errors.New("injected write failure") }

// errFullWriter fails too, but reports every byte as written (what a wrapped or buffered writer
// may do): the error counts, not the count.
type errFullWriter struct{}

func (errFullWriter) Write(p []byte) (int, error) {
	return len(p), errors.New("injected write failure")
}

// shortWriter passes a strict prefix to the real stdout and reports the short count without error.
type shortWriter struct{}

func (shortWriter) Write(p []byte) (int, error) {
	n := len(p) / 2
	if n > 0 {
		os.Stdout.Write(p[:n])
	}
	return n, nil
}

type faultFs struct {
	afero.Fs
	idx    int // index of the custom file being written (counted by MkdirAll calls)
	failAt int
	op     string
}

var errInjected = errors.New("injected fs failure")

func (f *faultFs) active(op string) bool { return f.idx == f.failAt && f.op == op }
func (f *faultFs) MkdirAll(p string, m os.FileMode) error {
	f.idx++
	if f.active("mkdir") {
		return errInjected
	}
	return f.Fs.MkdirAll(p, m)
}
func (f *faultFs) Stat(p string) (os.FileInfo, error) {
	if f.active("stat") {
		return nil, errInjected
	}
	return f.Fs.Stat(p)
}
func (f *faultFs) OpenFile(p string, flag int, m os.FileMode) (afero.File, error) {
	if f.active("open") {
		return nil, errInjected
	}
	fl, err := f.Fs.OpenFile(p, flag, m)
	if err != nil {
		return nil, err
	}
	return &faultFile{File: fl, fs: f}, nil
}

type faultFile struct {
	afero.File
	fs *faultFs
}

func (f *faultFile) Write(p []byte) (int, error) {
	if f.fs.active("write") {
		return 0, errInjected
	}
	if f.fs.active("short") {
		n := len(p) / 2
		f.File.Write(p[:n])
		return n, nil
	}
	return f.File.Write(p)
}
func (f *faultFile) Close() error {
	err := f.File.Close()
	if f.fs.active("close") {
		return errInjected
	}
	return err
}

// pluginMain is the child process.
func pluginMain() {
	var in c14In
	if err := json.Unmarshal([]byte(os.Getenv("VERIF_PLAN")), &in); err != nil {
		fmt.Fprintln(os.Stderr, "bad plan:", err)
		os.Exit(97)
	}
	var fs afero.Fs = afero.NewMemMapFs()
	for _, d := range in.Dirs0 {
		fs.MkdirAll(d.String(), 0755)
	}
	for _, f := range in.FS0 {
		afero.WriteFile(fs, f.Path.String(), []byte(f.Content.String()), os.FileMode(f.Mode))
	}
	ffs := &faultFs{Fs: fs, idx: -1, failAt: -2}
	if in.FsIdx != nil {
		ffs.failAt, ffs.op = *in.FsIdx, in.FsOp
	}
	opts := []pgs.InitOption{pgs.FileSystem(ffs)}
	if in.Input == "readError" {
		opts = append(opts, pgs.ProtocInput(errReader{}))
	}
	switch in.Out {
	case "error":
		opts = append(opts, pgs.ProtocOutput(errWriter{}))
	case "errorfull":
		opts = append(opts, pgs.ProtocOutput(errFullWriter{}))
	case "short":
		opts = append(opts, pgs.ProtocOutput(shortWriter{}))
	}
	g := pgs.Init(opts...) // otherwise: os.Stdin / os.Stdout, as protoc would use it
	for _, p := range in.Procs {
		kp := kindProc{kinds: map[int]bool{}, suffix: p.Suffix.String(), fails: p.Fails, repl: p.Replace}
		for _, k := range p.Kinds {
			kp.kinds[k] = true
		}
		g.RegisterPostProcessor(kp)
	}
	mod := &artModule{name: "m"}
	for _, a := range in.Arts {
		mod.arts = append(mod.arts, a.toArtifact())
	}
	g.RegisterModule(mod)
	g.Render()
}

func classifyC14(stderr string) string {
	switch {
	case strings.Contains(stderr, "reading input"):
		return "readInput"
	case strings.Contains(stderr, "parsing input proto"):
		return "parseInput"
	case strings.Contains(stderr, "no files to generate"):
		return "noTargets"
	case strings.Contains(stderr, "unable to create directory"):
		return "fsMkdir"
	case strings.Contains(stderr, "unable to check file exists"):
		return "fsStat"
	case strings.Contains(stderr, "unable to write file"):
		return "fsWrite"
	case strings.Contains(stderr, "writing output proto"):
		return "writeOutput"
	case strings.Contains(stderr, "failed to write all output"):
		return "shortOutput"
	case strings.TrimSpace(stderr) == "":
		return ""
	}
	return classifyCause(stderr)
}

type c14Engine struct{}

func (c14Engine) Isolated() bool { return false } // every case is its own process already

func (c14Engine) Run(raw json.RawMessage) (interface{}, error) {
	var in c14In
	if err := json.Unmarshal(raw, &in); err != nil {
		return nil, err
	}
	self, _ := os.Executable()
	cmd := exec.Command(self, "plugin")
	cmd.Env = append(os.Environ(), "VERIF_PLAN="+string(raw))
	switch in.Input {
	case "garbage":
		cmd.Stdin = bytes.NewReader(bytes.Repeat([]byte{0xff}, 16))
	case "partial":
		// well-formed wire data whose only defect is a missing required field
		// (UninterpretedOption.NamePart.is_extension): still "unparsable input"
		req := &plugin_go.CodeGeneratorRequest{}
		_ = proto.Unmarshal(trivialRequest(""), req)
		req.ProtoFile[0].Options = &descriptor.FileOptions{UninterpretedOption: []*descriptor.UninterpretedOption{{
			Name: []*descriptor.UninterpretedOption_NamePart{{NamePart: proto.String("x")}}}}}
		b, _ := proto.MarshalOptions{AllowPartial: true}.Marshal(req)
		cmd.Stdin = bytes.NewReader(b)
	case "noTargets":
		req := &plugin_go.CodeGeneratorRequest{}
		_ = proto.Unmarshal(trivialRequest(""), req)
		req.FileToGenerate = nil
		b, _ := proto.Marshal(req)
		cmd.Stdin = bytes.NewReader(b)
	default:
		cmd.Stdin = bytes.NewReader(trivialRequest(""))
	}
	var so, se bytes.Buffer
	cmd.Stdout, cmd.Stderr = &so, &se
	err := cmd.Run()
	obs := c14Obs{Cause: classifyC14(se.String())}
	if ee, ok := err.(*exec.ExitError); ok {
		obs.Exit = ee.ExitCode()
	} else if err != nil {
		return nil, err
	}
	switch {
	case so.Len() == 0 && obs.Exit != 0:
		obs.Stdout = "none"
	case so.Len() == 0:
		// an empty response is a complete (empty) CodeGeneratorResponse
		obs.Stdout = "full"
	default:
		resp := &plugin_go.CodeGeneratorResponse{}
		if proto.Unmarshal(so.Bytes(), resp) == nil && obs.Exit == 0 {
			obs.Stdout = "full"
		} else {
			obs.Stdout = "partial"
		}
	}
	return obs, nil
}

var _ io.Reader = errReader{}

func (c14Engine) Gen(g *Gen) {
	mk := func(k, name, text string) artJ {
		a := mkArt(k, name, text)
		if k == "inj" {
			a.IP = toB("pt")
		}
		return a
	}
	// a pool of otherwise valid runs
	baseRuns := [][]artJ{
		{mk("file", "a", "A"), mk("app", "a", "+"), mk("custom", "out/x", "X"), mk("inj", "a", "I"), mk("custom", "out/y", "Y")},
		{mk("custom", "c1", "1"), mk("file", "f.go", "F"), mk("custom", "d/c2", "2"), mk("err", "", "soft")},
		{mk("file", "a", "A"), mk("file", "b", "B")},
		{mk("err", "", "soft"), mk("file", "a", "A"), mk("custom", "pre", "new")},
		{mk("custom", "only/custom", "C")}, // the response is empty (zero bytes): a failing write still fails
		{},
	}
	{
		ow := mk("custom", "pre", "over")
		ow.Ow = true
		baseRuns = append(baseRuns, []artJ{mk("custom", "pre", "skipme"), ow, mk("file", "z", "Z")})
	}
	pre := []fileEntJ{{toB("pre"), toB("old"), 0644}}
	emit := func(in c14In) {
		if in.Arts == nil {
			in.Arts = []artJ{}
		}
		if in.Out == "short" {
			// a short write of an empty response (no generator artifact at all) writes all zero
			// bytes of it: not a fault
			empty := true
			for _, a := range in.Arts {
				if a.K != "custom" {
					empty = false
				}
			}
			if empty {
				in.Out = "errorfull"
			}
		}
		if in.Procs == nil {
			in.Procs = []procJ{}
		}
		in.FS0 = pre
		in.Dirs0 = []B{toB(".")}
		fault := "none"
		switch {
		case in.Input != "":
			fault = "input:" + in.Input
		case in.FsIdx != nil:
			fault = "fs:" + in.FsOp
		case in.Out != "":
			fault = "output:" + in.Out
		}
		for _, a := range in.Arts {
			if strings.HasPrefix(a.K, "unknown") || a.Fails || strings.HasPrefix(a.Name.String(), "/") || strings.HasPrefix(a.Name.String(), "..") || a.Name.String() == "." {
				fault = "artifact"
			}
		}
		g.Count("fault", fault)
		g.Emit(in)
	}
	badArts := func() []artJ {
		bad := []artJ{mk("file", "/abs", "x"), mk("file", "../up", "x"), mk("app", "never", "x"), mk("inj", "", "x"), {K: "unknown", Name: B{}, IP: B{}, Text: B{}}}
		for _, uk := range unknownKinds[1:] {
			bad = append(bad, artJ{K: uk, Name: toB("u.go"), IP: B{}, Text: toB("u")})
		}
		t := mk("file", "t.go", "x")
		t.Tpl, t.Fails = true, true
		ct := mk("custom", "ct", "x")
		ct.Tpl, ct.Fails = true, true
		ta := mk("app", "a", "x")
		ta.Tpl, ta.Fails = true, true
		// a failing template for a custom file whose target already exists and is not to be overwritten:
		// skipped or not, the template error stops the run
		ctpre := mk("custom", "pre", "x")
		ctpre.Tpl, ctpre.Fails = true, true
		bad = append(bad, t, ct, ta, ctpre)
		// an illegal name on every generator kind, plain and template (whose template renders fine)
		for _, k := range []string{"file", "app", "inj"} {
			for _, tpl := range []bool{false, true} {
				for _, nm := range []string{"/abs", "../up", ".", "gen/../../outside.gen", "gen/..", "./", "./../x.gen", ""} {
					if k == "file" && !tpl && (nm == "/abs" || nm == "../up") {
						continue // already above
					}
					a := mk(k, nm, "x")
					a.Tpl = tpl
					bad = append(bad, a)
				}
			}
		}
		return bad
	}()
	for _, run := range baseRuns {
		emit(c14In{Arts: run}) // fault-free control
		for _, inp := range []string{"readError", "garbage", "partial", "noTargets"} {
			emit(c14In{Arts: run, Input: inp})
		}
		for _, out := range []string{"error", "errorfull", "short"} {
			emit(c14In{Arts: run, Out: out})
		}
		// every bad artifact at every index
		for i := 0; i <= len(run); i++ {
			for _, b := range badArts {
				seq := append(append(append([]artJ{}, run[:i]...), b), run[i:]...)
				emit(c14In{Arts: seq})
			}
			// a failing post-processor chain position
			for pos := 0; pos < 3; pos++ {
				procs := []procJ{{Kinds: []int{0, 2, 4, 6}, Suffix: toB("<1>")}, {Kinds: []int{0, 2, 4, 6}, Suffix: toB("<2>")}, {Kinds: []int{0, 2, 4, 6}, Suffix: toB("<3>")}}
				procs[pos].Fails = true
				if i < len(run) {
					emit(c14In{Arts: run[:i+1], Procs: procs})
				}
			}
		}
		// every file-system operation of every custom file
		nc := 0
		for _, a := range run {
			if a.K == "custom" {
				nc++
			}
		}
		for k := 0; k < nc; k++ {
			for _, op := range []string{"mkdir", "stat", "open", "write", "close", "short"} {
				kk := k
				emit(c14In{Arts: run, FsIdx: &kk, FsOp: op})
			}
		}
	}
	// an append whose target was never generated, next to chunks that only look like the target:
	// an injection into the same name (with a point, and with the empty point), an append to it
	for _, ip := range []string{"pt", ""} {
		inj := mk("inj", "x.go", "I")
		inj.IP = toB(ip)
		for _, tpl := range []bool{false, true} {
			app := mk("app", "x.go", "+")
			app.Tpl = tpl
			emit(c14In{Arts: []artJ{inj, app}})
			emit(c14In{Arts: []artJ{mk("file", "y.go", "Y"), inj, app, mk("custom", "after", "never")}})
			emit(c14In{Arts: []artJ{inj, mk("file", "x.go", "X"), app}}) // control: the target exists
		}
	}
	// random combinations (a soft error before the fault, several faults at once, ...)
	n := 150
	if g.Thorough() {
		n = 4000
	}
	for i := 0; i < n; i++ {
		run := append([]artJ{}, baseRuns[g.Rng.Intn(len(baseRuns))]...)
		in := c14In{}
		if g.Rng.Intn(3) == 0 {
			pos := g.Rng.Intn(len(run) + 1)
			run = append(append(append([]artJ{}, run[:pos]...), mk("err", "", "soft-before")), run[pos:]...)
		}
		if g.Rng.Intn(2) == 0 {
			pos := g.Rng.Intn(len(run) + 1)
			run = append(append(append([]artJ{}, run[:pos]...), badArts[g.Rng.Intn(len(badArts))]), run[pos:]...)
		}
		if g.Rng.Intn(3) == 0 {
			k := g.Rng.Intn(3)
			in.FsIdx, in.FsOp = &k, pick(g.Rng, []string{"mkdir", "stat", "open", "write", "close", "short"})
		}
		if g.Rng.Intn(4) == 0 {
			in.Out = pick(g.Rng, []string{"error", "errorfull", "short"})
		}
		if g.Rng.Intn(10) == 0 {
			in.Input = pick(g.Rng, []string{"readError", "garbage", "partial", "noTargets"})
		}
		if g.Rng.Intn(3) == 0 {
			in.Procs = []procJ{{Kinds: []int{0, 6}, Suffix: toB("<a>"), Fails: g.Rng.Intn(3) == 0}, {Kinds: []int{0, 6, 7}, Suffix: toB("<b>")}}
		}
		in.Arts = run
		emit(in)
	}
}

func init() { register("c14", c14Engine{}) }
