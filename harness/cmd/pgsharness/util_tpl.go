package main

import "io"

// bufTpl is a pgs.Template that renders a fixed text (or fails).
type bufTpl struct {
	text string
	err  error
}

func (t bufTpl) Execute(w io.Writer, _ interface{}) error {
	if t.err != nil {
		// a template fails while executing: part of its output is already written
		io.WriteString(w, t.text)
		return t.err
	}
	_, err := io.WriteString(w, t.text)
	return err
}
