package main

import (
	"bytes"
	"encoding/json"
	"fmt"
	"io"
	"io/ioutil"
	"sort"
	"strings"

	pgs "github.com/lyft/protoc-gen-star/v2"
	"google.golang.org/protobuf/encoding/protowire"
	"google.golang.org/protobuf/proto"
	descriptor "google.golang.org/protobuf/types/descriptorpb"
	plugin_go "google.golang.org/protobuf/types/pluginpb"
)

// ---- C13: Render = parse -> modules in order -> one response, exactly once ----

type modJ struct {
	Name B      `json:"name"`
	Arts []artJ `json:"arts"`
	// Same: this registration is the very instance registered at that earlier position (same name,
	// same artifacts). Harness-only: to the model it is one more module.
	Same *int `json:"same,omitempty"`
}
type c13In struct {
	Files    [][2]B   `json:"files"`
	Targets  []B      `json:"targets"`
	Param    B        `json:"param"`
	Mutators [][2]B   `json:"mutators"`
	Mods     []modJ   `json:"mods"`
	Procs    []procJ  `json:"procs"`
	Features *uint64  `json:"features"`
	Ops      []string `json:"ops"`
	BiDi     bool     `json:"bidi"`
	// Late: that many trailing modules are registered only after the first operation (which is then
	// an AST() call): registration is open until the first Render. Harness-only.
	Late int `json:"late,omitempty"`
}
type evJ struct {
	T        string  `json:"t"`
	I        int     `json:"i"`
	Name     B       `json:"name"`
	Params   B       `json:"params"`
	Out      B       `json:"out"`
	Targets  []B     `json:"targets"`
	Pkgs     []B     `json:"pkgs"`
	Files    []rfJ   `json:"files"`
	Error    *B      `json:"error"`
	Features *uint64 `json:"features"`
	Bidi     bool    `json:"bidi"` // exec: the AST handed to the module records dependents
}

func newEv(t string) evJ {
	return evJ{T: t, Name: B{}, Params: B{}, Out: B{}, Targets: []B{}, Pkgs: []B{}, Files: []rfJ{}}
}

type evLog struct{ evs []evJ }

type countingReader struct {
	data []byte
	pos  int
	log  *evLog
}

func (r *countingReader) Read(p []byte) (int, error) {
	if r.pos >= len(r.data) {
		r.log.evs = append(r.log.evs, newEv("read")) // the consumer reached EOF: one complete read
		return 0, io.EOF
	}
	n := copy(p, r.data[r.pos:])
	r.pos += n
	return n, nil
}

type recordingWriter struct{ log *evLog }

func (w *recordingWriter) Write(p []byte) (int, error) {
	resp := &plugin_go.CodeGeneratorResponse{}
	ev := newEv("write")
	if err := proto.Unmarshal(p, resp); err != nil {
		ev.T = "write-undecodable"
	} else {
		for _, f := range resp.File {
			r := rfJ{Content: toB(f.GetContent())}
			if f.Name != nil {
				b := toB(f.GetName())
				r.Name = &b
			}
			if f.InsertionPoint != nil {
				b := toB(f.GetInsertionPoint())
				r.IP = &b
			}
			ev.Files = append(ev.Files, r)
		}
		if resp.Error != nil {
			b := toB(resp.GetError())
			ev.Error = &b
		}
		ev.Features = resp.SupportedFeatures
	}
	w.log.evs = append(w.log.evs, ev)
	return len(p), nil
}

type recMod struct {
	idx    int
	pos    []int // registration positions of this instance; the k-th InitContext / Execute call reports pos[k]
	nInit  int
	nExec  int
	outAt  string // OutputPath() when the context was handed over
	ctx0   pgs.BuildContext
	name   string
	arts   []pgs.Artifact
	log    *evLog
	md     pgs.MockDebugger
	ctx    pgs.BuildContext
	pushes int
}

func (m *recMod) Name() string { return m.name }
func (m *recMod) InitContext(c pgs.BuildContext) {
	m.ctx = c
	ioutil.ReadAll(m.md.Output())
	c.Log("x")
	b, _ := ioutil.ReadAll(m.md.Output())
	line := strings.TrimSuffix(strings.TrimSuffix(string(b), "\n"), " x")
	if strings.HasPrefix(line, "[") && strings.HasSuffix(line, "]") {
		line = line[1 : len(line)-1]
	}
	ev := newEv("init")
	ev.I = m.idx
	if m.nInit < len(m.pos) {
		ev.I = m.pos[m.nInit]
	}
	m.nInit++
	m.outAt, m.ctx0 = c.OutputPath(), c
	ev.Name = toB(line)
	ev.Params = toB(c.Parameters().String())
	ev.Out = toB(c.OutputPath())
	m.log.evs = append(m.log.evs, ev)
}
func (m *recMod) Execute(targets map[string]pgs.File, pkgs map[string]pgs.Package) []pgs.Artifact {
	ev := newEv("exec")
	ev.I = m.idx
	if m.nExec < len(m.pos) {
		ev.I = m.pos[m.nExec]
	}
	m.nExec++
	var ts, ps []string
	// the context keeps the output path it was created with, whatever happens to the parameter of
	// that name afterwards (every module rewrites it once it has looked)
	if got := m.ctx0.OutputPath(); got != m.outAt {
		ts = append(ts, "\x00output path moved from "+m.outAt+" to "+got)
	}
	m.ctx0.Parameters().SetOutputPath(fmt.Sprintf("hijacked/by/%d", ev.I))
	for k, f := range targets {
		if f == nil || f.Name().String() != k {
			k = "\x00nil-or-misnamed:" + k
		}
		ts = append(ts, k)
	}
	for k := range pkgs {
		ps = append(ps, k)
	}
	sort.Strings(ts)
	sort.Strings(ps)
	// was the AST built bidirectionally? (every file declares N with a field of message type M)
	for _, p := range pkgs {
		for _, f := range p.Files() {
			// the descriptors are those of the request, unknown fields (options of extensions that are
			// not linked into the plugin) included
			if len(f.Descriptor().GetOptions().ProtoReflect().GetUnknown()) == 0 {
				ts = append(ts, "\x00unknown fields of "+f.Name().String()+" were dropped")
			}
			for _, msg := range f.AllMessages() {
				if len(msg.Dependents()) > 0 {
					ev.Bidi = true
				}
			}
		}
	}
	for _, t := range ts {
		ev.Targets = append(ev.Targets, toB(t))
	}
	for _, p := range ps {
		ev.Pkgs = append(ev.Pkgs, toB(p))
	}
	m.log.evs = append(m.log.evs, ev)
	// leave context pushes unbalanced
	for i := 0; i < m.pushes; i++ {
		if i%2 == 0 {
			m.ctx = m.ctx.Push("left")
		} else {
			m.ctx = m.ctx.PushDir("sub")
		}
	}
	if m.idx%2 == 1 {
		return viaModuleBase(m.arts)
	}
	return m.arts
}

// viaModuleBase hands the artifacts over the way module authors usually do: through the Add* /
// Overwrite* helpers of an embedded pgs.ModuleBase, returning its Artifacts().
func viaModuleBase(arts []pgs.Artifact) []pgs.Artifact {
	// the module sits in a context whose output path is not "." and inside a pushed directory:
	// generator artifact names are relative to protoc's output, whatever the context says
	b := &pgs.ModuleBase{}
	b.InitContext(pgs.Context(pgs.InitMockDebugger(), pgs.Parameters{}, "gen"))
	b.PushDir("sub")
	b.Push("helper")
	// some modules collect what they have so far, go on adding, and collect again: the first batch
	// (held, only read) must still be what it was when it is handed over together with the second
	split := -1
	if len(arts)%4 == 3 {
		split = len(arts) / 2
	}
	var first []pgs.Artifact
	for i, a := range arts {
		if i == split {
			first = b.Artifacts()
		}
		switch x := a.(type) {
		case pgs.GeneratorFile:
			if x.Overwrite {
				b.OverwriteGeneratorFile(x.Name, x.Contents)
			} else {
				b.AddGeneratorFile(x.Name, x.Contents)
			}
		case pgs.GeneratorTemplateFile:
			if x.Overwrite {
				b.OverwriteGeneratorTemplateFile(x.Name, x.Template, x.Data)
			} else {
				b.AddGeneratorTemplateFile(x.Name, x.Template, x.Data)
			}
		case pgs.GeneratorAppend:
			b.AddGeneratorAppend(x.FileName, x.Contents)
		case pgs.GeneratorTemplateAppend:
			b.AddGeneratorTemplateAppend(x.FileName, x.Template, x.Data)
		case pgs.GeneratorInjection:
			b.AddGeneratorInjection(x.FileName, x.InsertionPoint, x.Contents)
		case pgs.GeneratorTemplateInjection:
			b.AddGeneratorTemplateInjection(x.FileName, x.InsertionPoint, x.Template, x.Data)
		case pgs.CustomFile:
			if x.Overwrite {
				b.OverwriteCustomFile(x.Name, x.Contents, x.Perms)
			} else {
				b.AddCustomFile(x.Name, x.Contents, x.Perms)
			}
		case pgs.CustomTemplateFile:
			if x.Overwrite {
				b.OverwriteCustomTemplateFile(x.Name, x.Template, x.Data, x.Perms)
			} else {
				b.AddCustomTemplateFile(x.Name, x.Template, x.Data, x.Perms)
			}
		case pgs.GeneratorError:
			b.AddError(x.Message)
		default:
			b.AddArtifact(a)
		}
	}
	out := append(append([]pgs.Artifact{}, first...), b.Artifacts()...)
	if again := b.Artifacts(); len(again) != 0 { // "subsequent calls return nil until more artifacts are added"
		out = append(out, again...)
	}
	return out
}

type c13Engine struct{}

func (c13Engine) Isolated() bool { return true }
func (c13Engine) OnDeath(exit int, stderr string) interface{} {
	return []evJ{newEv("died")}
}

func (c13Engine) Run(raw json.RawMessage) (interface{}, error) {
	var in c13In
	if err := json.Unmarshal(raw, &in); err != nil {
		return nil, err
	}
	req := &plugin_go.CodeGeneratorRequest{Parameter: proto.String(in.Param.String())}
	for _, t := range in.Targets {
		req.FileToGenerate = append(req.FileToGenerate, t.String())
	}
	for _, f := range in.Files {
		scope := ""
		if len(f[1]) > 0 {
			scope = "." + f[1].String()
		}
		fd := &descriptor.FileDescriptorProto{Name: proto.String(f[0].String()), Syntax: proto.String("proto3"),
			MessageType: []*descriptor.DescriptorProto{{Name: proto.String("M")},
				{Name: proto.String("N"), Field: []*descriptor.FieldDescriptorProto{{Name: proto.String("m"), Number: proto.Int32(1),
					Label: descriptor.FieldDescriptorProto_LABEL_OPTIONAL.Enum(), Type: descriptor.FieldDescriptorProto_TYPE_MESSAGE.Enum(),
					TypeName: proto.String(scope + ".M")}}}}}
		if len(f[1]) > 0 {
			fd.Package = proto.String(f[1].String())
		}
		fd.Options = &descriptor.FileOptions{}
		fd.Options.ProtoReflect().SetUnknown(protowire.AppendVarint(protowire.AppendTag(nil, 50001, protowire.VarintType), 7))
		req.ProtoFile = append(req.ProtoFile, fd)
	}
	data, _ := proto.Marshal(req)
	log := &evLog{}
	opts := []pgs.InitOption{pgs.ProtocInput(&countingReader{data: data, log: log}), pgs.ProtocOutput(&recordingWriter{log})}
	if in.BiDi {
		// an InitOption is a value: the same one configures any number of generators. Another
		// generator in the process is given it first and rendered to completion; the generator under
		// observation must behave as if it were alone.
		bidi := pgs.BiDirectional()
		dreq, _ := proto.Marshal(&plugin_go.CodeGeneratorRequest{FileToGenerate: []string{"decoy.proto"},
			ProtoFile: []*descriptor.FileDescriptorProto{{Name: proto.String("decoy.proto"), Package: proto.String("decoy"),
				MessageType: []*descriptor.DescriptorProto{{Name: proto.String("D")}}}}})
		decoy := pgs.Init(pgs.ProtocInput(bytes.NewReader(dreq)), pgs.ProtocOutput(ioutil.Discard), bidi)
		decoy.Debugger = pgs.InitMockDebugger()
		decoy.RegisterModule(&recMod{idx: 0, name: "decoy", log: &evLog{}, md: pgs.InitMockDebugger()})
		decoy.Render()
		opts = append(opts, bidi)
	}
	// the option given last decides: an earlier, different value first - and when no features are
	// wanted, an earlier value taken back with nil
	if in.Features != nil {
		f, other := *in.Features, *in.Features+1
		opts = append(opts, pgs.SupportedFeatures(&other), pgs.SupportedFeatures(&f))
	} else {
		one := uint64(1)
		opts = append(opts, pgs.SupportedFeatures(&one), pgs.SupportedFeatures(nil))
	}
	for _, mu := range in.Mutators {
		k, v := mu[0].String(), mu[1].String()
		opts = append(opts, pgs.MutateParams(func(p pgs.Parameters) { p.SetStr(k, v) }))
	}
	g := pgs.Init(opts...)
	md := pgs.InitMockDebugger()
	g.Debugger = md // contexts handed to modules log through the recording debugger
	for _, p := range in.Procs {
		kp := kindProc{kinds: map[int]bool{}, suffix: p.Suffix.String(), fails: p.Fails, repl: p.Replace}
		for _, k := range p.Kinds {
			kp.kinds[k] = true
		}
		g.RegisterPostProcessor(kp)
	}
	var insts []*recMod
	late := in.Late
	if late > len(in.Mods) || len(in.Ops) == 0 || in.Ops[0] != "ast" {
		late = 0
	}
	register := func(i int, m modJ) {
		if m.Same != nil && *m.Same < len(insts) {
			rm := insts[*m.Same]
			rm.pos = append(rm.pos, i)
			insts = append(insts, rm)
			g.RegisterModule(rm)
			return
		}
		rm := &recMod{idx: i, pos: []int{i}, name: m.Name.String(), log: log, md: md, pushes: (i + len(m.Arts)) % 3}
		for _, a := range m.Arts {
			rm.arts = append(rm.arts, a.toArtifact())
		}
		insts = append(insts, rm)
		g.RegisterModule(rm)
	}
	if n := len(in.Mods); late == 0 && n >= 3 && (n+len(in.Ops))%2 == 0 {
		// a caller that keeps its modules in one list and registers parts of it, with another module
		// in between: the generator must not keep (and later write through) the slice it was handed
		var rms []*recMod
		for i, m := range in.Mods {
			if m.Same != nil && *m.Same < len(rms) {
				rm := rms[*m.Same]
				rm.pos = append(rm.pos, i)
				rms = append(rms, rm)
				continue
			}
			rm := &recMod{idx: i, pos: []int{i}, name: m.Name.String(), log: log, md: md, pushes: (i + len(m.Arts)) % 3}
			for _, a := range m.Arts {
				rm.arts = append(rm.arts, a.toArtifact())
			}
			rms = append(rms, rm)
		}
		insts = rms
		shared := []pgs.Module{rms[0]}
		for _, rm := range rms[2:] {
			shared = append(shared, rm)
		}
		g.RegisterModule(shared[:1]...)
		g.RegisterModule(rms[1])
		g.RegisterModule(shared[1:]...)
	} else {
		for i, m := range in.Mods[:len(in.Mods)-late] {
			register(i, m)
		}
	}
	var first pgs.AST
	for k, op := range in.Ops {
		if k == 1 {
			for i, m := range in.Mods[len(in.Mods)-late:] {
				register(len(in.Mods)-late+i, m)
			}
		}
		if op == "ast" {
			a := g.AST()
			ev := newEv("ast")
			if first == nil {
				first = a
			} else if a != first {
				ev.T = "ast-different-object"
			}
			if md.Failed() || md.Exited() {
				ev.T = "ast-failed"
			}
			log.evs = append(log.evs, ev)
		} else {
			g.Render()
		}
	}
	if log.evs == nil {
		return []evJ{}, nil
	}
	return log.evs, nil
}

func (c13Engine) Gen(g *Gen) {
	fileSets := []struct {
		files   [][2]string
		targets [][]string
	}{
		{[][2]string{{"t.proto", "t"}}, [][]string{{"t.proto"}}},
		{[][2]string{{"a.proto", "p"}, {"b.proto", "p.q"}, {"c.proto", ""}, {"d.proto", "p"}}, [][]string{{"a.proto"}, {"c.proto", "a.proto"}, {"a.proto", "b.proto", "c.proto", "d.proto"}}},
	}
	params := []string{"", "output_path=gen", "foo=bar,output_path=/abs/x/../y,flag", "paths=source_relative,output_path=", "a=1,a=2",
		"ldflags=-X=main.v=1,output_path=gen=dir", "x=,=y,output_path=a=", "Mfoo.proto=example.com/foo;foo,plugins=grpc"}
	mutatorSets := [][][2]string{{}, {{"output_path", "mut/./d"}}, {{"k", "v"}, {"k", "w"}, {"", "e"}}}
	legal := func(j int, have *[]string) artJ {
		r := g.Rng.Intn(10)
		name := pick(g.Rng, []string{"a", "b.go", "d/c", "./a"})
		text := fmt.Sprintf("c%d", j)
		switch {
		case r < 4:
			*have = append(*have, name)
			a := mkArt("file", name, text)
			a.Ow = g.Rng.Intn(3) == 0
			a.Tpl = g.Rng.Intn(4) == 0
			return a
		case r < 6 && len(*have) > 0:
			return mkArt("app", (*have)[g.Rng.Intn(len(*have))], text)
		case r < 8:
			a := mkArt("inj", name, text)
			a.IP = toB("pt")
			return a
		default:
			return mkArt("err", "", "e"+text)
		}
	}
	mkCase := func(ops []string) c13In {
		fsn := fileSets[g.Rng.Intn(len(fileSets))]
		in := c13In{Param: toB(pick(g.Rng, params)), Ops: ops, BiDi: g.Rng.Intn(2) == 0, Procs: []procJ{}, Mods: []modJ{}, Mutators: [][2]B{}}
		for _, f := range fsn.files {
			in.Files = append(in.Files, [2]B{toB(f[0]), toB(f[1])})
		}
		for _, t := range fsn.targets[g.Rng.Intn(len(fsn.targets))] {
			in.Targets = append(in.Targets, toB(t))
		}
		for _, mu := range mutatorSets[g.Rng.Intn(len(mutatorSets))] {
			in.Mutators = append(in.Mutators, [2]B{toB(mu[0]), toB(mu[1])})
		}
		var have []string
		nm := g.Rng.Intn(5)
		for i := 0; i < nm; i++ {
			m := modJ{Name: toB(fmt.Sprintf("m%d", i)), Arts: []artJ{}}
			if i > 0 && g.Rng.Intn(4) == 0 { // two distinct modules may answer the same Name()
				m.Name = in.Mods[g.Rng.Intn(i)].Name
			}
			na := g.Rng.Intn(4)
			if g.Rng.Intn(4) == 0 {
				na = 0
			}
			for j := 0; j < na; j++ {
				m.Arts = append(m.Arts, legal(i*10+j, &have))
			}
			in.Mods = append(in.Mods, m)
		}
		if nm > 0 && len(ops) > 1 && ops[0] == "ast" && g.Rng.Intn(2) == 0 { // some modules are registered after a first AST()
			in.Late = 1 + g.Rng.Intn(nm)
		}
		if nm > 0 && g.Rng.Intn(5) == 0 { // the same instance registered a second time
			j := g.Rng.Intn(nm)
			in.Mods = append(in.Mods, modJ{Name: in.Mods[j].Name, Arts: in.Mods[j].Arts, Same: &j})
		}
		if g.Rng.Intn(2) == 0 {
			f := uint64(g.Rng.Intn(3))
			in.Features = &f
		}
		if g.Rng.Intn(3) == 0 {
			in.Procs = append(in.Procs, procJ{Kinds: []int{0, 2, 4}, Suffix: toB("<p>")})
		}
		g.Count("modules", fmt.Sprint(len(in.Mods)))
		g.Count("ops", strings.Join(ops, ","))
		g.Count("bidi", fmt.Sprint(in.BiDi))
		g.Count("features", fmt.Sprint(in.Features != nil))
		return in
	}
	// all histories up to length 4 (5 thorough), several configurations each
	maxLen, reps := 4, 60
	if g.Thorough() {
		maxLen, reps = 6, 120
	}
	var rec func(ops []string, n int)
	rec = func(ops []string, n int) {
		if len(ops) > 0 {
			for r := 0; r < reps; r++ {
				g.Emit(mkCase(append([]string{}, ops...)))
			}
		}
		if n == 0 {
			return
		}
		for _, o := range []string{"ast", "render"} {
			rec(append(append([]string{}, ops...), o), n-1)
		}
	}
	rec(nil, maxLen)
	n := 8000
	if g.Thorough() {
		n = 30000
	}
	for i := 0; i < n; i++ {
		var ops []string
		for j := 1 + g.Rng.Intn(8); j > 0; j-- {
			ops = append(ops, []string{"ast", "render"}[g.Rng.Intn(2)])
		}
		g.Emit(mkCase(ops))
	}
}

func init() { register("c13", c13Engine{}) }
