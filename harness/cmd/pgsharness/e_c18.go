package main

import (
	"encoding/json"
	"fmt"
	"io/ioutil"
	"strings"

	pgs "github.com/lyft/protoc-gen-star/v2"
)

// ---- C18: build context stack (raw context and through ModuleBase) ----

type c18Op struct {
	K string `json:"k"`
	A B      `json:"a"`
}
type c18In struct {
	Output B       `json:"output"`
	Params int     `json:"params"`
	Ops    []c18Op `json:"ops"`
	Via    string  `json:"via"`
}
type c18Snap struct {
	Out    B   `json:"out"`
	Joined B   `json:"joined"`
	Log    B   `json:"log"`
	Logf   B   `json:"logf"`
	Params int `json:"params"`
}

type c18Engine struct{}

func (c18Engine) Isolated() bool { return false }

func (c18Engine) Gen(g *Gen) {
	alphabet := []c18Op{{"push", toB("p")}, {"push", toB("q")}, {"pushDir", toB("x")}, {"pushDir", toB("a/b")}, {"pushDir", toB("..")},
		{"pushDir", toB("/abs")}, {"pop", B{}}, {"popDir", B{}}}
	maxLen := 5
	if g.Thorough() {
		maxLen = 7
	}
	outputs := []string{".", "out", "/o/p", "a/../b/", ""}
	emit := func(out string, ops []c18Op, via string) {
		in := c18In{Output: toB(out), Params: 7, Ops: append([]c18Op{}, ops...), Via: via}
		g.Count("via", via)
		g.Count("len", fmt.Sprint(len(ops)))
		g.Emit(in)
	}
	// exhaustive sequences that never pop the root
	var rec func(ops []c18Op, depth int, n int)
	rec = func(ops []c18Op, depth int, n int) {
		if len(ops) > 0 {
			for _, via := range []string{"ctx", "module"} {
				emit(outputs[len(ops)%2], ops, via)
			}
		}
		if n == 0 {
			return
		}
		for _, op := range alphabet {
			d := depth
			switch op.K {
			case "push", "pushDir":
				d++
			case "pop":
				if depth == 0 {
					continue
				}
				d--
			case "popDir":
				d = -1 // unknown: recompute below
			}
			next := append(append([]c18Op{}, ops...), op)
			if d == -1 {
				d = c18Depth(next)
			}
			rec(next, d, n-1)
		}
	}
	rec(nil, 0, maxLen)
	// random longer histories with richer arguments
	dirs := []string{"x", "a/b", "..", "/abs", ".", "", "a/../..", "/a/../..", "../..", "d/./e//", "tmp/..", "é", "a b"}
	prefixes := []string{"p", "q", "mod", "", "a b", "x]y"}
	n := 3000
	if g.Thorough() {
		n = 60000
	}
	for i := 0; i < n; i++ {
		l := 1 + g.Rng.Intn(14)
		deep := i%10 == 0 // deep stacks: 15-40 frames, mostly pushes
		if deep {
			l = 15 + g.Rng.Intn(26)
		}
		var ops []c18Op
		for j := 0; j < l; j++ {
			k := g.Rng.Intn(6)
			if deep && k >= 4 && g.Rng.Intn(4) > 0 {
				k = g.Rng.Intn(3)
			}
			switch k {
			case 0, 1:
				ops = append(ops, c18Op{"push", toB(pick(g.Rng, prefixes))})
			case 2, 3:
				ops = append(ops, c18Op{"pushDir", toB(pick(g.Rng, dirs))})
			case 4:
				if c18Depth(ops) > 0 {
					ops = append(ops, c18Op{"pop", B{}})
				}
			default:
				ops = append(ops, c18Op{"popDir", B{}})
			}
		}
		if len(ops) == 0 {
			continue
		}
		emit(pick(g.Rng, outputs), ops, []string{"ctx", "module"}[g.Rng.Intn(2)])
	}
	// prefixes that would mean something to a formatter: a log line carries the prefix as it was pushed,
	// through Log and through Logf alike
	for _, pf := range []string{"a%20b.proto", "100%", "%s", "%d%%", "%!v(MISSING)"} {
		for _, kind := range []string{"ctx", "module"} {
			emit("out", []c18Op{{"push", toB(pf)}}, kind)
			emit("out", []c18Op{{"push", toB(pf)}, {"push", toB("q")}}, kind)
			emit("out", []c18Op{{"push", toB("p")}, {"pushDir", toB("x")}, {"push", toB(pf)}, {"pop", B{}}, {"popDir", B{}}}, kind)
		}
	}
}

// c18Depth computes the number of frames above the root after ops (mirrors only the stack
// discipline, to keep generated histories inside the property's domain).
func c18Depth(ops []c18Op) int {
	var st []bool // true = dir frame
	for _, op := range ops {
		switch op.K {
		case "push":
			st = append(st, false)
		case "pushDir":
			st = append(st, true)
		case "pop":
			if len(st) > 0 {
				st = st[:len(st)-1]
			}
		case "popDir":
			for len(st) > 0 && !st[len(st)-1] {
				st = st[:len(st)-1]
			}
			if len(st) > 0 {
				st = st[:len(st)-1]
			}
		}
	}
	return len(st)
}

type c18Mod struct{ *pgs.ModuleBase }

func (c18Engine) Run(raw json.RawMessage) (interface{}, error) {
	var in c18In
	if err := json.Unmarshal(raw, &in); err != nil {
		return nil, err
	}
	md := pgs.InitMockDebugger()
	// the output path of a context is the one it was created with, not the parameter of that name
	params := pgs.Parameters{"id": fmt.Sprint(in.Params), "output_path": "from/params"}
	var ctx pgs.BuildContext = pgs.Context(md, params, in.Output.String())
	var mod *pgs.ModuleBase
	if in.Via == "module" {
		mod = &pgs.ModuleBase{}
		// a module base follows the context it was given last (one reused after an earlier run)
		mod.InitContext(pgs.Context(md, pgs.Parameters{"id": "0"}, "earlier/run").Push("old").PushDir("olddir"))
		mod.InitContext(ctx)
		ctx = mod
	}
	drain := func() string {
		b, _ := ioutil.ReadAll(md.Output())
		return string(b)
	}
	snaps := []c18Snap{}
	var saved []pgs.BuildContext // every context value handed out, to be asked again at the end
	probe := 0
	observe := func(ctx pgs.BuildContext) c18Snap {
		drain()
		ctx.Log("m")
		l1 := strings.TrimSuffix(drain(), "\n")
		ctx.Logf("f")
		l2 := strings.TrimSuffix(drain(), "\n")
		id, _ := ctx.Parameters().Int("id")
		// "the parameters are the root's": the very map, so what is written through the context is
		// read in the root's map and the other way round
		probe++
		ctx.Parameters().SetInt("probe", probe)
		if got, _ := params.Int("probe"); got != probe {
			id = 900001
		}
		probe++
		params.SetInt("probe", probe)
		if got, _ := ctx.Parameters().Int("probe"); got != probe {
			id = 900002
		}
		joined := ctx.JoinPath("x", "../y")
		// joining no names at all is the output path itself, at every depth
		if none := ctx.JoinPath(); none != ctx.OutputPath() {
			joined = "\x00JoinPath() = " + none
		}
		return c18Snap{toB(ctx.OutputPath()), toB(joined), toB(l1), toB(l2), id}
	}
	for _, op := range in.Ops {
		var next pgs.BuildContext
		switch op.K {
		case "push":
			next = ctx.Push(op.A.String())
		case "pushDir":
			next = ctx.PushDir(op.A.String())
		case "pop":
			next = ctx.Pop()
		case "popDir":
			next = ctx.PopDir()
		}
		if md.Failed() || next == nil {
			break // fail-stop: a real debugger would have exited here
		}
		if mod != nil {
			// the module base must keep answering through itself
			// (otherwise the snapshot carries the sentinel 900003 in place of the parameters)
			if next != pgs.BuildContext(mod) {
				sn := observe(mod)
				sn.Params = 900003
				snaps = append(snaps, sn)
				saved = append(saved, mod)
				continue
			}
		}
		ctx = next
		snaps = append(snaps, observe(ctx))
		saved = append(saved, ctx)
	}
	// contexts are values: every context handed out during the history must still answer, after
	// everything that was derived from it or from its relatives, what it answered then. (Through a
	// module base there is one mutable holder, so the first pass is repeated as it is.)
	late := make([]c18Snap, 0, len(snaps))
	for i, c := range saved {
		if mod != nil {
			late = append(late, snaps[i])
		} else {
			late = append(late, observe(c))
		}
	}
	return append(snaps, late...), nil
}

func init() { register("c18", c18Engine{}) }
