package main

import (
	"fmt"
	"math/rand"
	"strings"
)

// curatedWorlds: hand-written worlds that always run first (shapes behind past defects and the
// corner cases named in the properties).
func curatedWorlds() []wWorld {
	i := func(v int) *int { return &v }
	f := func(name string, num, label, typ int, tn string) wField {
		return wField{Name: name, Number: num, Label: label, Type: typ, TypeName: tn}
	}
	mh := func(name string, fields ...wField) wMsgHead {
		if fields == nil {
			fields = []wField{}
		}
		return wMsgHead{Name: name, Fields: fields, Enums: []wEnum{}, Oneofs: []string{}, Exts: []wField{}}
	}
	file := func(name, pkg, syn string) wFile {
		return wFile{Name: name, Pkg: pkg, Syn: syn, Deps: []string{}, PublicDeps: []int{}, Enums: []wEnum{}, Msgs: []wMsg{}, Services: []wService{}, Exts: []wField{}, Locs: []wLoc{}}
	}
	var out []wWorld

	// 1. google.protobuf Struct / Value / ListValue shape: mutual recursion through a map and a oneof
	{
		fl := file("struct.proto", "google.protobuf", "proto3")
		st := wMsg{Head: mh("Struct", f("fields", 1, 3, 11, ".google.protobuf.Struct.FieldsEntry")), Nested: []wMsg{
			{Head: wMsgHead{Name: "FieldsEntry", MapEntry: true, Fields: []wField{f("key", 1, 1, 9, ""), f("value", 2, 1, 11, ".google.protobuf.Value")}, Enums: []wEnum{}, Oneofs: []string{}, Exts: []wField{}}, Nested: []wMsg{}}}}
		val := wMsg{Head: mh("Value"), Nested: []wMsg{}}
		val.Head.Oneofs = []string{"kind"}
		for k, spec := range []struct {
			n  string
			t  int
			tn string
		}{{"null_value", 14, ".google.protobuf.NullValue"}, {"number_value", 1, ""}, {"struct_value", 11, ".google.protobuf.Struct"}, {"list_value", 11, ".google.protobuf.ListValue"}} {
			fd := f(spec.n, k+1, 1, spec.t, spec.tn)
			fd.OneofIndex = i(0)
			val.Head.Fields = append(val.Head.Fields, fd)
		}
		lv := wMsg{Head: mh("ListValue", f("values", 1, 3, 11, ".google.protobuf.Value")), Nested: []wMsg{}}
		fl.Msgs = []wMsg{st, val, lv}
		fl.Enums = []wEnum{{Name: "NullValue", Values: []wEnumVal{{"NULL_VALUE", 0}}}}
		out = append(out, wWorld{Files: []wFile{fl}, Targets: []string{"struct.proto"}, Bidi: true})
	}
	// 2. packageless files (two of them), map entry between two nested messages, proto2 spelled out
	{
		a := file("a.proto", "", "proto2")
		inner1 := wMsg{Head: mh("Inner1"), Nested: []wMsg{}}
		entry := wMsg{Head: wMsgHead{Name: "TagsEntry", MapEntry: true, Fields: []wField{f("key", 1, 1, 9, ""), f("value", 2, 1, 5, "")}, Enums: []wEnum{}, Oneofs: []string{}, Exts: []wField{}}, Nested: []wMsg{}}
		inner2 := wMsg{Head: mh("Inner2", f("deep", 1, 1, 11, ".Outer.Inner1")), Nested: []wMsg{{Head: mh("Deeper"), Nested: []wMsg{{Head: mh("Deepest", f("up", 1, 2, 11, ".Outer")), Nested: []wMsg{}}}}}}
		outer := wMsg{Head: mh("Outer", f("tags", 1, 3, 11, ".Outer.TagsEntry"), f("req", 2, 2, 9, ""), f("i2", 3, 1, 11, ".Outer.Inner2")), Nested: []wMsg{inner1, entry, inner2}}
		outer.Head.ExtRange = true
		a.Msgs = []wMsg{outer}
		b := file("b.proto", "", "")
		b.Deps = []string{"a.proto"}
		x := f("ext_field", 1001, 1, 11, ".Outer.Inner2")
		x.Extendee = ".Outer"
		b.Exts = []wField{x}
		b.Msgs = []wMsg{{Head: mh("User", f("o", 1, 1, 11, ".Outer")), Nested: []wMsg{}}}
		mx := f("scoped_ext", 1002, 3, 9, "")
		mx.Extendee = ".Outer"
		b.Msgs[0].Head.Exts = []wField{mx}
		b.Services = []wService{{Name: "Svc", Methods: []wMethod{{Name: "Do", Input: ".Outer", Output: ".User", SS: true}}}}
		out = append(out, wWorld{Files: []wFile{a, b}, Targets: []string{"b.proto"}})
		out = append(out, wWorld{Files: []wFile{a, b}, Targets: []string{}, FDSet: true, Bidi: true})
	}
	// 3. extension-only import, public re-export chain, unused import
	{
		base := file("base.proto", "p", "proto2")
		bm := wMsg{Head: mh("Base"), Nested: []wMsg{}}
		bm.Head.ExtRange = true
		base.Msgs = []wMsg{bm}
		base.Enums = []wEnum{{Name: "Color", Values: []wEnumVal{{"RED", 0}, {"BLUE", 1}}}}
		mid := file("mid.proto", "p.q", "proto2")
		mid.Deps = []string{"base.proto"}
		mid.PublicDeps = []int{0}
		unused := file("unused.proto", "u", "proto3")
		unused.Msgs = []wMsg{{Head: mh("Nobody"), Nested: []wMsg{}}}
		top := file("top.proto", "p", "proto2")
		top.Deps = []string{"mid.proto", "unused.proto"}
		x := f("via_public", 1003, 1, 14, ".p.Color")
		x.Extendee = ".p.Base"
		top.Exts = []wField{x}
		out = append(out, wWorld{Files: []wFile{base, mid, unused, top}, Targets: []string{"top.proto", "base.proto"}, Bidi: true})
	}
	// 4. qualified-name length sweep: every length from 4 to ~330 bytes occurs for some message,
	//    field, enum or value (fixed-size buffers, truncation, hashing by length ...)
	for base := 1; base <= 321; base += 40 {
		fl := file("len.proto", "p", "proto3")
		for l := base; l < base+40; l++ {
			name := "M" + strings.Repeat("a", l-1)
			m := wMsg{Head: mh(name, f("f", 1, 1, 9, ""), f("self", 2, 1, 11, ".p."+name)), Nested: []wMsg{{Head: mh("N", f("g", 1, 1, 5, "")), Nested: []wMsg{}}}}
			m.Head.Enums = []wEnum{{Name: "E", Values: []wEnumVal{{"Z" + name, 0}}}}
			fl.Msgs = append(fl.Msgs, m)
		}
		out = append(out, wWorld{Files: []wFile{fl}, Targets: []string{"len.proto"}})
	}
	// more than 256 siblings, every one with its own location: an index must not be narrowed to a
	// byte anywhere on the path (round-2 seeded change C08-r2-m2)
	{
		fl := file("wide.proto", "wide", "proto2")
		big := wMsg{Head: mh("Wide"), Nested: []wMsg{}}
		en := wEnum{Name: "Big"}
		for k := 0; k < 300; k++ {
			big.Head.Fields = append(big.Head.Fields, f(fmt.Sprintf("f%d", k), k+1, 1, 5, ""))
			en.Values = append(en.Values, wEnumVal{fmt.Sprintf("BIG_%d", k), int32(k)})
		}
		fl.Msgs = []wMsg{big}
		fl.Enums = []wEnum{en}
		genLocs(rand.New(rand.NewSource(7)), &fl)
		out = append(out, wWorld{Files: []wFile{fl}, Targets: []string{"wide.proto"}})
	}
	// two-digit indices on two levels at once: the paths of distinct declarations read the same
	// once their components are written side by side ([4,1,2,20] and [4,12,2,0]; [5,1,2,10] and
	// [5,11,2,0]; [6,2,2,13] and [6,22,2,3]) - every one has its own location
	{
		fl := file("grid.proto", "grid", "proto3")
		for i := 0; i < 24; i++ {
			m := wMsg{Head: mh(fmt.Sprintf("G%d", i)), Nested: []wMsg{}}
			en := wEnum{Name: fmt.Sprintf("GE%d", i)}
			sv := wService{Name: fmt.Sprintf("GS%d", i)}
			for k := 0; k < 24; k++ {
				m.Head.Fields = append(m.Head.Fields, f(fmt.Sprintf("f%d", k), k+1, 1, 5, ""))
				en.Values = append(en.Values, wEnumVal{fmt.Sprintf("GE%d_V%d", i, k), int32(k)})
				sv.Methods = append(sv.Methods, wMethod{Name: fmt.Sprintf("Do%d", k), Input: ".grid.G0", Output: ".grid.G1"})
			}
			if i == 1 || i == 12 {
				for k := 0; k < 14; k++ {
					n := wMsg{Head: mh(fmt.Sprintf("N%d", k), f("v", 1, 1, 5, "")), Nested: []wMsg{}}
					n.Head.Enums = []wEnum{{Name: "E", Values: []wEnumVal{{fmt.Sprintf("G%d_N%d_ZERO", i, k), 0}}}}
					m.Nested = append(m.Nested, n)
				}
			}
			fl.Msgs = append(fl.Msgs, m)
			fl.Enums = append(fl.Enums, en)
			fl.Services = append(fl.Services, sv)
		}
		genLocs(rand.New(rand.NewSource(13)), &fl)
		out = append(out, wWorld{Files: []wFile{fl}, Targets: []string{"grid.proto"}})
	}
	// a nesting chain deeper than any plausible fixed bound, referenced from both ends
	{
		fl := file("deep.proto", "deep", "proto3")
		const depth = 40
		fqn := ".deep.D0"
		for k := 1; k < depth; k++ {
			fqn += fmt.Sprintf(".D%d", k)
		}
		cur := wMsg{Head: mh(fmt.Sprintf("D%d", depth-1), f("top", 1, 1, 11, ".deep.D0"), f("leaf", 2, 1, 5, "")), Nested: []wMsg{}}
		cur.Head.Enums = []wEnum{{Name: "Bottom", Values: []wEnumVal{{"BOTTOM_ZERO", 0}, {"BOTTOM_NEG", -4}, {"BOTTOM_TWO", 2}}}}
		for k := depth - 2; k >= 0; k-- {
			cur = wMsg{Head: mh(fmt.Sprintf("D%d", k), f("down", 1, 1, 11, fqn)), Nested: []wMsg{cur}}
		}
		fl.Msgs = []wMsg{cur, {Head: mh("User", f("deepest", 1, 3, 11, fqn), f("kind", 2, 1, 14, fqn+".Bottom")), Nested: []wMsg{}}}
		genLocs(rand.New(rand.NewSource(11)), &fl)
		out = append(out, wWorld{Files: []wFile{fl}, Targets: []string{"deep.proto"}, Bidi: true})
	}
	// more than 64 imports, public ones among the late ones; more than 64 nested types with map
	// entries among the late ones (a bit set indexed by position must not be a single word)
	{
		var fs []wFile
		um := file("umbrella.proto", "um", "proto3")
		for k := 0; k < 70; k++ {
			lf := file(fmt.Sprintf("um_leaf%d.proto", k), fmt.Sprintf("um.l%d", k), "proto3")
			lf.Msgs = []wMsg{{Head: mh("L"), Nested: []wMsg{}}}
			fs = append(fs, lf)
			um.Deps = append(um.Deps, lf.Name)
		}
		um.PublicDeps = []int{3, 64, 66, 69}
		um.Msgs = []wMsg{{Head: mh("U", f("a", 1, 1, 11, ".um.l0.L"), f("b", 2, 1, 11, ".um.l65.L"), f("c", 3, 1, 11, ".um.l69.L")), Nested: []wMsg{}}}
		user := file("um_user.proto", "um.user", "proto3")
		user.Deps = []string{"umbrella.proto"}
		user.Msgs = []wMsg{{Head: mh("V", f("via", 1, 1, 11, ".um.l66.L"), f("u", 2, 1, 11, ".um.U")), Nested: []wMsg{}}}
		fs = append(fs, um, user)
		out = append(out, wWorld{Files: fs, Targets: []string{"umbrella.proto", "um_user.proto"}, Bidi: true})

		for _, seed := range []int64{3, 4} {
			fl := file("many.proto", "many", "proto3")
			many := wMsg{Head: mh("Many"), Nested: []wMsg{}}
			num := 0
			for k := 0; k < 72; k++ {
				num++
				if k == 10 || k == 64 || k == 67 || k == 71 {
					fn := fmt.Sprintf("m%d", k)
					en := camelOfField(fn)
					many.Nested = append(many.Nested, wMsg{Head: wMsgHead{Name: en, MapEntry: true, Fields: []wField{f("key", 1, 1, 9, ""), f("value", 2, 1, 5, "")}, Enums: []wEnum{}, Oneofs: []string{}, Exts: []wField{}}, Nested: []wMsg{}})
					many.Head.Fields = append(many.Head.Fields, f(fn, num, 3, 11, ".many.Many."+en))
					continue
				}
				n := wMsg{Head: mh(fmt.Sprintf("N%d", k), f("v", 1, 1, 5, "")), Nested: []wMsg{}}
				n.Head.Enums = []wEnum{{Name: "E", Values: []wEnumVal{{fmt.Sprintf("N%d_ZERO", k), 0}}}}
				many.Nested = append(many.Nested, n)
				many.Head.Fields = append(many.Head.Fields, f(fmt.Sprintf("n%d", k), num, 1, 11, fmt.Sprintf(".many.Many.N%d", k)))
			}
			fl.Msgs = []wMsg{many}
			genLocs(rand.New(rand.NewSource(seed)), &fl)
			out = append(out, wWorld{Files: []wFile{fl}, Targets: []string{"many.proto"}})
		}
	}
	// a proto3 file may extend the (proto2) option messages of descriptor.proto: the extension's
	// syntax is that of the file declaring it, not of its extendee
	{
		desc := file("google/protobuf/descriptor.proto", "google.protobuf", "proto2")
		mo := wMsg{Head: mh("MessageOptions"), Nested: []wMsg{}}
		mo.Head.ExtRange = true
		fo := wMsg{Head: mh("FieldOptions"), Nested: []wMsg{}}
		fo.Head.ExtRange = true
		desc.Msgs = []wMsg{mo, fo}
		opt := file("acme/options.proto", "acme", "proto3")
		opt.Deps = []string{"google/protobuf/descriptor.proto"}
		x1 := f("audit", 50001, 1, 8, "")
		x1.Extendee = ".google.protobuf.MessageOptions"
		x2 := f("rule", 50002, 1, 11, ".acme.Rule")
		x2.Extendee = ".google.protobuf.FieldOptions"
		opt.Exts = []wField{x1, x2}
		opt.Msgs = []wMsg{{Head: mh("Rule", f("expr", 1, 1, 9, "")), Nested: []wMsg{}}}
		out = append(out, wWorld{Files: []wFile{desc, opt}, Targets: []string{"acme/options.proto"}, Bidi: true})
	}
	// a target whose name is the tail of a non-target's name, the non-target listed first
	{
		inner := file("shop/order.proto", "shop", "proto3")
		inner.Msgs = []wMsg{{Head: mh("Order", f("id", 1, 1, 9, "")), Nested: []wMsg{}}}
		inner.Enums = []wEnum{{Name: "Kind", Values: []wEnumVal{{"KIND_BOOK", 0}}}}
		outer := file("order.proto", "front", "proto3")
		outer.Deps = []string{"shop/order.proto"}
		outer.Msgs = []wMsg{{Head: mh("Page", f("o", 1, 1, 11, ".shop.Order")), Nested: []wMsg{}}}
		out = append(out, wWorld{Files: []wFile{inner, outer}, Targets: []string{"order.proto"}})
		other := file("x/shop/order.proto", "xshop", "proto3")
		out = append(out, wWorld{Files: []wFile{other, inner, outer}, Targets: []string{"shop/order.proto"}, Bidi: true})
	}
	return append(out, hubWorlds()...)
}

// hubWorlds: several files share their FIRST import (a hub with k transitive imports, k = 0..8)
// and differ in their later ones - the shape on which results that alias a shared slice or a
// memo of the hub's answer go wrong.
func hubWorlds() []wWorld {
	file := func(name, pkg string, deps ...string) wFile {
		f := wFile{Name: name, Pkg: pkg, Syn: "proto3", Deps: append([]string{}, deps...), PublicDeps: []int{}, Enums: []wEnum{}, Msgs: []wMsg{}, Services: []wService{}, Exts: []wField{}, Locs: []wLoc{}}
		f.Msgs = []wMsg{{Head: wMsgHead{Name: "M", Fields: []wField{}, Enums: []wEnum{}, Oneofs: []string{}, Exts: []wField{}}, Nested: []wMsg{}}}
		return f
	}
	var out []wWorld
	for k := 0; k <= 8; k++ {
		var fs []wFile
		var leaves []string
		for i := 0; i < k; i++ {
			n := fmt.Sprintf("hub_leaf%d.proto", i)
			// half of the leaves form a chain, so that the hub has deep and shallow imports
			if i > 0 && i%2 == 1 {
				fs = append(fs, file(n, fmt.Sprintf("l%d", i), leaves[i-1]))
			} else {
				fs = append(fs, file(n, fmt.Sprintf("l%d", i)))
			}
			leaves = append(leaves, n)
		}
		fs = append(fs, file("hub.proto", "hub", leaves...))
		fs = append(fs, file("hub_e1.proto", "e1"), file("hub_e2.proto", "e2"), file("hub_e3.proto", "e3"))
		fs = append(fs, file("hub_p1.proto", "p1", "hub.proto", "hub_e1.proto"), file("hub_p2.proto", "p2", "hub.proto", "hub_e2.proto"),
			file("hub_p3.proto", "p3", "hub.proto", "hub_e3.proto", "hub_e1.proto"), file("hub_p4.proto", "p4", "hub.proto"))
		fs = append(fs, file("hub_top.proto", "top", "hub_p1.proto", "hub_p2.proto"))
		// hub first in the file list for easy recognition
		out = append(out, wWorld{Files: fs, Targets: []string{"hub_top.proto"}, Bidi: true})
	}
	// the mirror image for Dependents(): two leaves y1, y2, each imported by one file (z1, z2) that
	// are both imported by the bottom of a chain of d single-importer files - so the dependents of
	// the two leaves share a long common tail (the shape on which a memo built by appending to
	// another file's answer is overwritten by a sibling). The file named hub.proto marks the world
	// for the systematic histories.
	for d := 1; d <= 10; d++ {
		fs := []wFile{file("hub_y1.proto", "y1"), file("hub_y2.proto", "y2"),
			file("hub_z1.proto", "z1", "hub_y1.proto"), file("hub_z2.proto", "z2", "hub_y2.proto"),
			file("hub.proto", "hub", "hub_z1.proto", "hub_z2.proto")}
		prev := "hub.proto"
		for i := 1; i <= d; i++ {
			n := fmt.Sprintf("hub_c%d.proto", i)
			fs = append(fs, file(n, fmt.Sprintf("c%d", i), prev))
			prev = n
		}
		out = append(out, wWorld{Files: fs, Targets: []string{prev}, Bidi: true})
		// ... and the same with three files importing the top of the chain (answers of length 3, 4, 5:
		// the lengths at which append leaves spare capacity)
		if d <= 4 {
			fs3 := append([]wFile{}, fs...)
			for i := 1; i <= 3; i++ {
				fs3 = append(fs3, file(fmt.Sprintf("hub_d%d.proto", i), fmt.Sprintf("d%d", i), prev))
			}
			out = append(out, wWorld{Files: fs3, Targets: []string{"hub_d1.proto"}, Bidi: true})
		}
	}
	return out
}
