package main

import (
	"encoding/json"
	"fmt"
	"go/ast"
	"go/parser"
	"go/token"
	"go/types"
	"io"
	"log"
	"sort"
	"strings"

	pgs "github.com/lyft/protoc-gen-star/v2"
	pgsgo "github.com/lyft/protoc-gen-star/v2/lang/go"
	"google.golang.org/protobuf/cmd/protoc-gen-go/internal_gengo"
	"google.golang.org/protobuf/compiler/protogen"
	"google.golang.org/protobuf/proto"
	"google.golang.org/protobuf/reflect/protoreflect"
)

// ---- C16 / C17: pgsgo's predictions against the pinned protoc-gen-go (protogen + internal_gengo v1.23.0) ----

type nameRec struct {
	Ref  ref    `json:"ref"`
	Kind string `json:"kind"`
	Pgs  string `json:"pgs"` // predicted by pgsgo
	Gen  string `json:"gen"` // what protoc-gen-go's protogen assigns
	Src  bool   `json:"src"` // the identifier is declared / used as such in the generated source
}
type c16Obs struct {
	Failed bool      `json:"failed"`
	Names  []nameRec `json:"names"`
}

func refOfDesc(fileIdx map[string]int, d protoreflect.Descriptor) ref {
	var path []int
	for {
		switch x := d.(type) {
		case protoreflect.FileDescriptor:
			// reverse
			for i, j := 0, len(path)-1; i < j; i, j = i+1, j-1 {
				path[i], path[j] = path[j], path[i]
			}
			if path == nil {
				path = []int{}
			}
			return ref{fileIdx[x.Path()], path}
		case protoreflect.MessageDescriptor:
			if _, ok := x.Parent().(protoreflect.FileDescriptor); ok {
				path = append(path, x.Index(), 4)
			} else {
				path = append(path, x.Index(), 3)
			}
		case protoreflect.EnumDescriptor:
			if _, ok := x.Parent().(protoreflect.FileDescriptor); ok {
				path = append(path, x.Index(), 5)
			} else {
				path = append(path, x.Index(), 4)
			}
		case protoreflect.EnumValueDescriptor:
			path = append(path, x.Index(), 2)
		case protoreflect.FieldDescriptor:
			if x.IsExtension() {
				if _, ok := x.Parent().(protoreflect.FileDescriptor); ok {
					path = append(path, x.Index(), 7)
				} else {
					path = append(path, x.Index(), 6)
				}
			} else {
				path = append(path, x.Index(), 2)
			}
		case protoreflect.OneofDescriptor:
			path = append(path, x.Index(), 8)
		case protoreflect.ServiceDescriptor:
			path = append(path, x.Index(), 6)
		case protoreflect.MethodDescriptor:
			path = append(path, x.Index(), 2)
		}
		d = d.Parent()
	}
}

type goRef struct {
	gen      *protogen.Plugin
	fileIdx  map[string]int
	names    map[string]string           // ref.key()+"|"+kind -> protogen name
	types    map[string]string           // field ref.key() -> reference struct field type (qualifier = GoPackageName of the defining file)
	srcIdent map[int]map[string]bool     // file -> identifiers declared at package level / struct fields / consts in the generated source
	srcField map[int]map[string]string   // file -> "Struct.Field" -> type expression in the generated source
	imports  map[int]map[string][]string // file -> import alias -> import paths (protoc-gen-go can emit one alias twice: `_`)
	declBy   map[string]map[string]bool  // import path -> Go type identifiers declared there
	pkgOf    map[string]string           // import path -> GoPackageName
	files    map[int]*protogen.File
	err      error
}

func runProtogen(w wWorld, b *built, param string) *goRef {
	req := b.request(w)
	if len(req.FileToGenerate) == 0 {
		for _, f := range w.Files {
			req.FileToGenerate = append(req.FileToGenerate, f.Name)
		}
	}
	req.Parameter = proto.String(param)
	gr := &goRef{fileIdx: map[string]int{}, names: map[string]string{}, types: map[string]string{}, srcIdent: map[int]map[string]bool{},
		srcField: map[int]map[string]string{}, imports: map[int]map[string][]string{}, declBy: map[string]map[string]bool{}, pkgOf: map[string]string{}, files: map[int]*protogen.File{}}
	for i, f := range w.Files {
		gr.fileIdx[f.Name] = i
	}
	defer func() {
		if r := recover(); r != nil {
			gr.err = fmt.Errorf("protogen panic: %v", r)
		}
	}()
	gen, err := protogen.Options{}.New(req)
	if err != nil {
		gr.err = err
		return gr
	}
	gr.gen = gen
	for _, f := range gen.Files {
		gr.pkgOf[string(f.GoImportPath)] = string(f.GoPackageName)
	}
	put := func(d protoreflect.Descriptor, kind, name string) {
		gr.names[refOfDesc(gr.fileIdx, d).key()+"|"+kind] = name
	}
	var msg func(m *protogen.Message)
	decl := func(id protogen.GoIdent) {
		p := string(id.GoImportPath)
		if gr.declBy[p] == nil {
			gr.declBy[p] = map[string]bool{}
		}
		gr.declBy[p][id.GoName] = true
	}
	enum := func(e *protogen.Enum) {
		decl(e.GoIdent)
		put(e.Desc, "enum", e.GoIdent.GoName)
		for _, v := range e.Values {
			put(v.Desc, "value", v.GoIdent.GoName)
		}
	}
	msg = func(m *protogen.Message) {
		decl(m.GoIdent)
		put(m.Desc, "msg", m.GoIdent.GoName)
		for _, f := range m.Fields {
			put(f.Desc, "field", f.GoName)
			if f.Oneof != nil && !f.Oneof.Desc.IsSynthetic() {
				put(f.Desc, "wrapper", f.GoIdent.GoName)
			}
		}
		for _, o := range m.Oneofs {
			put(o.Desc, "oneof", o.GoName)
		}
		for _, e := range m.Enums {
			enum(e)
		}
		for _, sm := range m.Messages {
			msg(sm)
		}
	}
	for _, f := range gen.Files {
		fi := gr.fileIdx[f.Desc.Path()]
		gr.files[fi] = f
		for _, e := range f.Enums {
			enum(e)
		}
		for _, m := range f.Messages {
			msg(m)
		}
		for _, s := range f.Services {
			put(s.Desc, "service", s.GoName)
			for _, m := range s.Methods {
				put(m.Desc, "method", m.GoName)
			}
		}
		if !f.Generate {
			continue
		}
		// what protoc-gen-go actually emits for this file
		g := internal_gengo.GenerateFile(gen, f)
		src, err := g.Content()
		if err != nil {
			gr.err = fmt.Errorf("generated source of %s: %v", f.Desc.Path(), err)
			return gr
		}
		gr.parseSource(fi, src)
	}
	return gr
}

func (gr *goRef) parseSource(fi int, src []byte) {
	fset := token.NewFileSet()
	af, err := parser.ParseFile(fset, "gen.pb.go", src, 0)
	if err != nil {
		gr.err = fmt.Errorf("generated source does not parse: %v", err)
		return
	}
	ids, flds, imps := map[string]bool{}, map[string]string{}, map[string][]string{}
	for _, im := range af.Imports {
		p := strings.Trim(im.Path.Value, `"`)
		alias := p[strings.LastIndex(p, "/")+1:]
		if im.Name != nil {
			alias = im.Name.Name
		}
		imps[alias] = append(imps[alias], p)
	}
	for _, d := range af.Decls {
		switch x := d.(type) {
		case *ast.GenDecl:
			for _, sp := range x.Specs {
				switch s := sp.(type) {
				case *ast.TypeSpec:
					ids[s.Name.Name] = true
					if st, ok := s.Type.(*ast.StructType); ok {
						for _, f := range st.Fields.List {
							for _, n := range f.Names {
								ids[s.Name.Name+"."+n.Name] = true
								if _, twice := flds[s.Name.Name+"."+n.Name]; twice {
									// protoc-gen-go itself declares the name twice (a oneof frees the getter
									// name an earlier field reserved): which declaration belongs to which
									// proto field cannot be read off the source - the type is not compared
									flds[s.Name.Name+"."+n.Name] = "\x00ambiguous"
									continue
								}
								flds[s.Name.Name+"."+n.Name] = types.ExprString(f.Type)
							}
						}
					}
				case *ast.ValueSpec:
					for _, n := range s.Names {
						ids[n.Name] = true
					}
				}
			}
		case *ast.FuncDecl:
			if x.Recv == nil {
				ids[x.Name.Name] = true
			}
		}
	}
	gr.srcIdent[fi], gr.srcField[fi], gr.imports[fi] = ids, flds, imps
}

func observeC16(r *astRun) c16Obs {
	o := c16Obs{Names: []nameRec{}}
	if r.failed {
		o.Failed = true
		return o
	}
	gr := runProtogen(r.w, r.b, "")
	if gr.err != nil {
		return c16Obs{Failed: true, Names: []nameRec{{Ref: noRef, Kind: "protogen-error", Pgs: gr.err.Error()}}}
	}
	ctx := pgsgo.InitContext(pgs.Parameters{})
	generated := func(fi int) bool { f := gr.files[fi]; return f != nil && f.Generate }
	for _, en := range allEntities(r) {
		if inMapEntry(r.w, en.ref) && en.kind != "msg" {
			continue // fields of map entries are not generated
		}
		add := func(kind, pgsName string, declared func(ids map[string]bool, gen string) bool) {
			rec := nameRec{Ref: en.ref, Kind: kind, Pgs: pgsName, Gen: gr.names[en.ref.key()+"|"+kind], Src: true}
			if generated(en.ref.File) && declared != nil {
				rec.Src = declared(gr.srcIdent[en.ref.File], rec.Gen)
			}
			o.Names = append(o.Names, rec)
		}
		topLevel := func(ids map[string]bool, gen string) bool { return ids[gen] }
		switch x := en.e.(type) {
		case pgs.Message:
			if x.IsMapEntry() {
				continue
			}
			add("msg", ctx.Name(x).String(), topLevel)
		case pgs.Enum:
			add("enum", ctx.Name(x).String(), topLevel)
		case pgs.EnumValue:
			add("value", ctx.Name(x).String(), topLevel)
		case pgs.Extension:
			// extension variables are named E_<...>: outside this property's list
		case pgs.Field:
			parent := gr.names[r.refOf(x.Message()).key()+"|msg"]
			if x.InRealOneOf() {
				add("field", ctx.Name(x).String(), func(ids map[string]bool, gen string) bool {
					w := gr.names[en.ref.key()+"|wrapper"]
					return ids[w+"."+gen]
				})
				add("wrapper", ctx.OneofOption(x).String(), topLevel)
			} else {
				add("field", ctx.Name(x).String(), func(ids map[string]bool, gen string) bool { return ids[parent+"."+gen] })
			}
		case pgs.OneOf:
			if x.IsSynthetic() {
				continue // synthetic oneofs have no Go representation
			}
			parent := gr.names[r.refOf(x.Message()).key()+"|msg"]
			add("oneof", ctx.Name(x).String(), func(ids map[string]bool, gen string) bool { return ids[parent+"."+gen] })
		case pgs.Service:
			rec := nameRec{Ref: en.ref, Kind: "service", Pgs: ctx.ServerName(x).String() + "|" + ctx.ClientName(x).String() + "|" + ctx.Name(x).String(), Src: true}
			g := gr.names[en.ref.key()+"|service"]
			rec.Gen = g + "Server|" + g + "Client|" + g + "Server"
			o.Names = append(o.Names, rec)
		case pgs.Method:
			add("method", ctx.Name(x).String(), nil)
		}
	}
	sort.SliceStable(o.Names, func(i, j int) bool {
		if o.Names[i].Ref.key() != o.Names[j].Ref.key() {
			return refLess(o.Names[i].Ref, o.Names[j].Ref)
		}
		return o.Names[i].Kind < o.Names[j].Kind
	})
	return o
}

type goEngine struct{ section string }

func (goEngine) Isolated() bool { return false }
func (e goEngine) Run(raw json.RawMessage) (interface{}, error) {
	if string(raw) == "null" {
		return nil, fmt.Errorf("null input")
	}
	var w wWorld
	if err := json.Unmarshal(raw, &w); err != nil {
		return nil, err
	}
	r := buildAST(w)
	if err := r.b.valid(); err != nil {
		return map[string]interface{}{"invalid_world": err.Error()}, nil
	}
	if e.section == "c16" {
		return observeC16(r), nil
	}
	return observeC17(r), nil
}

func (e goEngine) Gen(g *Gen) {
	n := 600
	if g.Thorough() {
		n = 8000
	}
	for _, w := range goCuratedWorlds() {
		g.Count("source", "curated")
		g.Emit(w)
	}
	for i := 0; i < n; i++ {
		w := genWorld(g.Rng, genOpts{maxFiles: 4, maxDepth: 3, goPkg: true, goNames: true})
		w.FDSet, w.Bidi = false, false
		if len(w.Targets) == 0 {
			w.Targets = []string{w.Files[0].Name}
		}
		if e.section == "c17" && g.Rng.Intn(2) == 0 {
			w.Param = "paths=source_relative"
		}
		if !g.Mine() {
			g.Emit(nil)
			continue
		}
		if err := buildWorld(w).valid(); err != nil {
			g.Count("protodesc", "rejected")
			continue
		}
		g.Count("protodesc", "accepted")
		countWorld(g, w)
		g.Emit(w)
	}
}

func init() {
	log.SetOutput(io.Discard) // protogen warns about go_package spellings on the standard logger
	register("c16", goEngine{"c16"})
	register("c17", goEngine{"c17"})
}
