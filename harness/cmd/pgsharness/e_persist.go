package main

import (
	"bytes"
	"encoding/json"
	"errors"
	"fmt"
	"os"
	"path/filepath"
	"sort"
	"strings"

	pgs "github.com/lyft/protoc-gen-star/v2"
	"github.com/spf13/afero"
	"google.golang.org/protobuf/proto"
	descriptor "google.golang.org/protobuf/types/descriptorpb"
	plugin_go "google.golang.org/protobuf/types/pluginpb"
)

// ---- C10 / C12: the persister, driven through the public Generator API ----

type artJ struct {
	K     string `json:"k"`
	Name  B      `json:"name"`
	IP    B      `json:"ip"`
	Text  B      `json:"text"`
	Fails bool   `json:"fails"`
	Ow    bool   `json:"ow"`
	Tpl   bool   `json:"tpl"`
	Perms int    `json:"perms"`
}
type procJ struct {
	Kinds  []int `json:"kinds"`
	Suffix B     `json:"suffix"`
	Fails  bool  `json:"fails"`
	// Replace: the processor hands on Suffix alone whatever came in (a filter, a formatter); with an
	// empty Suffix that is a nil slice and no error - an empty result, not a failure
	Replace bool `json:"replace"`
}
type fileEntJ struct {
	Path    B   `json:"path"`
	Content B   `json:"content"`
	Mode    int `json:"mode"`
}
type persistIn struct {
	Arts     []artJ     `json:"arts"`
	Procs    []procJ    `json:"procs"`
	Features *uint64    `json:"features"`
	FS0      []fileEntJ `json:"fs0"`
	Dirs0    []B        `json:"dirs0"`
	Probes   []B        `json:"probes"`
	FSKind   string     `json:"fskind,omitempty"` // "" = MemMapFs, "os" = OsFs under a temp dir (harness only)
}
type rfJ struct {
	Name    *B `json:"name"`
	IP      *B `json:"ip"`
	Content B  `json:"content"`
}
type probeJ struct {
	Kind    int `json:"kind"`
	Content B   `json:"content"`
	Mode    int `json:"mode"`
}
type persistObs struct {
	Died     bool     `json:"died"`
	Cause    string   `json:"cause"`
	Files    []rfJ    `json:"files"`
	Error    *B       `json:"error"`
	Features *uint64  `json:"features"`
	Probes   []probeJ `json:"probes"`
}

type weirdArtifact struct{ pgs.Artifact }

func kindOf(a pgs.Artifact) int {
	switch a.(type) {
	case pgs.GeneratorFile:
		return 0
	case pgs.GeneratorTemplateFile:
		return 1
	case pgs.GeneratorAppend:
		return 2
	case pgs.GeneratorTemplateAppend:
		return 3
	case pgs.GeneratorInjection:
		return 4
	case pgs.GeneratorTemplateInjection:
		return 5
	case pgs.CustomFile:
		return 6
	case pgs.CustomTemplateFile:
		return 7
	case pgs.GeneratorError:
		return 8
	}
	return 9
}

type kindProc struct {
	kinds  map[int]bool
	suffix string
	fails  bool
	repl   bool
}

func (p kindProc) Match(a pgs.Artifact) bool { return p.kinds[kindOf(a)] }
func (p kindProc) Process(in []byte) ([]byte, error) {
	if p.fails {
		return nil, errors.New("procfail")
	}
	if p.repl {
		var out []byte // stays nil when there is nothing to hand on
		for _, c := range []byte(p.suffix) {
			out = append(out, c)
		}
		return out, nil
	}
	return append(append([]byte{}, in...), p.suffix...), nil
}

func (a artJ) toArtifact() pgs.Artifact {
	var tpl bufTpl
	if a.Tpl {
		tpl = bufTpl{text: a.Text.String()}
		if a.Fails {
			tpl.err = errors.New("tplfail")
		}
	}
	ta := pgs.TemplateArtifact{Template: tpl, Data: nil}
	switch a.K {
	case "file":
		if a.Tpl {
			return pgs.GeneratorTemplateFile{Name: a.Name.String(), Overwrite: a.Ow, TemplateArtifact: ta}
		}
		return pgs.GeneratorFile{Name: a.Name.String(), Contents: a.Text.String(), Overwrite: a.Ow}
	case "app":
		if a.Tpl {
			return pgs.GeneratorTemplateAppend{FileName: a.Name.String(), TemplateArtifact: ta}
		}
		return pgs.GeneratorAppend{FileName: a.Name.String(), Contents: a.Text.String()}
	case "inj":
		if a.Tpl {
			return pgs.GeneratorTemplateInjection{FileName: a.Name.String(), InsertionPoint: a.IP.String(), TemplateArtifact: ta}
		}
		return pgs.GeneratorInjection{FileName: a.Name.String(), InsertionPoint: a.IP.String(), Contents: a.Text.String()}
	case "custom":
		if a.Tpl {
			return pgs.CustomTemplateFile{Name: a.Name.String(), Perms: os.FileMode(a.Perms), Overwrite: a.Ow, TemplateArtifact: ta}
		}
		return pgs.CustomFile{Name: a.Name.String(), Contents: a.Text.String(), Perms: os.FileMode(a.Perms), Overwrite: a.Ow}
	case "err":
		return pgs.GeneratorError{Message: a.Text.String()}
	}
	// artifacts the persister does not recognise although they look familiar: pointers to the known
	// kinds and foreign types embedding one (all of them have ProtoFile) - and the bare stranger
	switch a.K {
	case "unknown-ptrfile":
		return &pgs.GeneratorFile{Name: a.Name.String(), Contents: a.Text.String()}
	case "unknown-ptrapp":
		return &pgs.GeneratorAppend{FileName: a.Name.String(), Contents: a.Text.String()}
	case "unknown-ptrinj":
		return &pgs.GeneratorInjection{FileName: a.Name.String(), InsertionPoint: "pt", Contents: a.Text.String()}
	case "unknown-embed":
		return embedArtifact{pgs.GeneratorFile{Name: a.Name.String(), Contents: a.Text.String()}}
	case "unknown-ptrcustom":
		return &pgs.CustomFile{Name: a.Name.String(), Contents: a.Text.String(), Perms: 0644}
	}
	return weirdArtifact{}
}

type embedArtifact struct{ pgs.GeneratorFile }

// unknownKinds: the spellings of "an artifact of no known kind" (the model reads them all as unknown)
var unknownKinds = []string{"unknown", "unknown-ptrfile", "unknown-ptrapp", "unknown-ptrinj", "unknown-embed", "unknown-ptrcustom"}

type artModule struct {
	name string
	arts []pgs.Artifact
	ctx  pgs.BuildContext
}

func (m *artModule) Name() string                   { return m.name }
func (m *artModule) InitContext(c pgs.BuildContext) { m.ctx = c }
func (m *artModule) Execute(map[string]pgs.File, map[string]pgs.Package) []pgs.Artifact {
	if len(m.arts)%2 == 1 { // every other case: through the ModuleBase helpers, as module authors do
		return viaModuleBase(m.arts)
	}
	return m.arts
}

func trivialRequest(param string) []byte {
	req := &plugin_go.CodeGeneratorRequest{
		FileToGenerate: []string{"t.proto"},
		Parameter:      proto.String(param),
		ProtoFile: []*descriptor.FileDescriptorProto{{
			Name: proto.String("t.proto"), Package: proto.String("t"), Syntax: proto.String("proto3"),
			MessageType: []*descriptor.DescriptorProto{{Name: proto.String("M")}},
		}},
	}
	b, _ := proto.Marshal(req)
	return b
}

func classifyCause(stderr string) string {
	switch {
	case strings.Contains(stderr, "generator file names must"):
		return "badName"
	case strings.Contains(stderr, "tplfail"):
		return "render"
	case strings.Contains(stderr, "failed post-processing"):
		return "postProcess"
	case strings.Contains(stderr, "append target"):
		return "appendMissing"
	case strings.Contains(stderr, "unrecognized artifact type"):
		return "unknownArtifact"
	case strings.Contains(stderr, "unable to create directory"), strings.Contains(stderr, "unable to check file exists"), strings.Contains(stderr, "unable to write file"):
		return "fs"
	}
	return "unclassified:" + strings.TrimSpace(stderr)
}

type persistEngine struct{ flavour string }

func (persistEngine) Isolated() bool { return true }

// OnDeath converts the death of the worker into this engine's observation.
func (persistEngine) OnDeath(exit int, stderr string) interface{} {
	cause := classifyCause(stderr)
	if exit != 1 {
		cause = fmt.Sprintf("exit=%d:%s", exit, cause)
	}
	return persistObs{Died: true, Cause: cause, Files: []rfJ{}, Probes: []probeJ{}}
}

func ancestorsOf(p string) []string {
	var out []string
	for {
		d := filepath.Dir(p)
		if d == p {
			break
		}
		out = append(out, d)
		p = d
	}
	return out
}

func (e persistEngine) Run(raw json.RawMessage) (interface{}, error) {
	var in persistIn
	if err := json.Unmarshal(raw, &in); err != nil {
		return nil, err
	}
	// a module author may call ProtoFile() himself; a template that fails half way (output already
	// written) must leave nothing behind that a later rendering could pick up
	if _, err := (pgs.GeneratorTemplateFile{Name: "warmup.go", TemplateArtifact: pgs.TemplateArtifact{Template: bufTpl{text: "LEFTOVER", err: errors.New("tplfail")}}}).ProtoFile(); err == nil {
		return map[string]interface{}{"died": true, "cause": "a failing template was reported as rendered"}, nil
	}
	var fs afero.Fs = afero.NewMemMapFs()
	cleanup := func() {}
	if in.FSKind == "os" {
		tmp, err := os.MkdirTemp("", "pgsverif")
		if err != nil {
			return nil, err
		}
		cleanup = func() { os.RemoveAll(tmp) }
		fs = afero.NewBasePathFs(afero.NewOsFs(), tmp)
	}
	defer cleanup()
	for _, d := range in.Dirs0 {
		if err := fs.MkdirAll(d.String(), 0755); err != nil {
			return nil, err
		}
	}
	for _, f := range in.FS0 {
		if err := afero.WriteFile(fs, f.Path.String(), []byte(f.Content.String()), os.FileMode(f.Mode)); err != nil {
			return nil, err
		}
		_ = fs.Chmod(f.Path.String(), os.FileMode(f.Mode))
	}
	rec := &recFs{Fs: fs}
	fs = rec
	mod := &artModule{name: "m"}
	for _, a := range in.Arts {
		mod.arts = append(mod.arts, a.toArtifact())
	}
	out := &bytes.Buffer{}
	opts := []pgs.InitOption{pgs.ProtocInput(bytes.NewReader(trivialRequest(""))), pgs.ProtocOutput(out), pgs.FileSystem(fs)}
	// the option given last decides: an earlier, different value first - and when no features are
	// wanted, an earlier value taken back with nil
	if in.Features != nil {
		f, other := *in.Features, *in.Features+1
		opts = append(opts, pgs.SupportedFeatures(&other), pgs.SupportedFeatures(&f))
	} else {
		one := uint64(1)
		opts = append(opts, pgs.SupportedFeatures(&one), pgs.SupportedFeatures(nil))
	}
	g := pgs.Init(opts...)
	for _, p := range in.Procs {
		kp := kindProc{kinds: map[int]bool{}, suffix: p.Suffix.String(), fails: p.Fails, repl: p.Replace}
		for _, k := range p.Kinds {
			kp.kinds[k] = true
		}
		g.RegisterPostProcessor(kp)
	}
	g.RegisterModule(mod)
	g.Render() // may os.Exit(1): the worker's death is then the observation

	resp := &plugin_go.CodeGeneratorResponse{}
	if err := proto.Unmarshal(out.Bytes(), resp); err != nil {
		return map[string]interface{}{"undecodable_response": err.Error()}, nil
	}
	obs := persistObs{Files: []rfJ{}, Probes: []probeJ{}, Features: resp.SupportedFeatures}
	for _, f := range resp.File {
		r := rfJ{Content: toB(f.GetContent())}
		if f.Name != nil {
			b := toB(f.GetName())
			r.Name = &b
		}
		if f.InsertionPoint != nil {
			b := toB(f.GetInsertionPoint())
			r.IP = &b
		}
		obs.Files = append(obs.Files, r)
	}
	if resp.Error != nil {
		b := toB(resp.GetError())
		obs.Error = &b
	}
	probed := map[string]bool{}
	for _, p := range in.Probes {
		probed[filepath.Clean(p.String())] = true
	}
	for _, p := range in.Probes {
		if p.String() == straysProbe {
			// "a file at exactly the given path": anything else left on the file system (scratch
			// files, backups) shows up here as a file whose content lists the unexpected paths
			var strays []string
			seenStray := map[string]bool{}
			for _, path := range rec.touched {
				c := filepath.Clean(path)
				if probed[c] || seenStray[c] || c == "." || c == "/" {
					continue // the roots exist anyway
				}
				seenStray[c] = true
				if _, err := fs.Stat(c); err == nil {
					strays = append(strays, c)
				}
			}
			sort.Strings(strays)
			if len(strays) > 0 {
				obs.Probes = append(obs.Probes, probeJ{1, toB(strings.Join(strays, ",")), 0})
			} else {
				obs.Probes = append(obs.Probes, probeJ{0, B{}, 0})
			}
			continue
		}
		fi, err := fs.Stat(p.String())
		switch {
		case err != nil:
			obs.Probes = append(obs.Probes, probeJ{0, B{}, 0})
		case fi.IsDir():
			obs.Probes = append(obs.Probes, probeJ{2, B{}, 0})
		default:
			c, _ := afero.ReadFile(fs, p.String())
			obs.Probes = append(obs.Probes, probeJ{1, toB(string(c)), int(fi.Mode().Perm())})
		}
	}
	return obs, nil
}

// recFs remembers every path handed to a mutating call of the file system.
type recFs struct {
	afero.Fs
	touched []string
}

func (r *recFs) note(p ...string) { r.touched = append(r.touched, p...) }
func (r *recFs) Create(name string) (afero.File, error) {
	r.note(name)
	return r.Fs.Create(name)
}
func (r *recFs) Mkdir(name string, perm os.FileMode) error {
	r.note(name)
	return r.Fs.Mkdir(name, perm)
}
func (r *recFs) MkdirAll(path string, perm os.FileMode) error {
	r.note(path)
	return r.Fs.MkdirAll(path, perm)
}
func (r *recFs) OpenFile(name string, flag int, perm os.FileMode) (afero.File, error) {
	if flag&(os.O_CREATE|os.O_WRONLY|os.O_RDWR|os.O_TRUNC|os.O_APPEND) != 0 {
		r.note(name)
	}
	return r.Fs.OpenFile(name, flag, perm)
}
func (r *recFs) Rename(oldname, newname string) error {
	r.note(oldname, newname)
	return r.Fs.Rename(oldname, newname)
}

// straysProbe: a pseudo path (never a real file) under which the harness reports file-system
// entries that no probe covers; the model answers "absent" for it like for any unknown path.
const straysProbe = "\x00strays"

func mkArt(k, name, text string) artJ {
	return artJ{K: k, Name: toB(name), IP: B{}, Text: toB(text), Perms: 0644}
}

func finishPersistIn(in *persistIn) {
	if in.Arts == nil {
		in.Arts = []artJ{}
	}
	if in.Procs == nil {
		in.Procs = []procJ{}
	}
	if in.FS0 == nil {
		in.FS0 = []fileEntJ{}
	}
	// directories: all ancestors of pre-existing files
	seen := map[string]bool{}
	for _, d := range in.Dirs0 {
		seen[d.String()] = true
	}
	for _, f := range in.FS0 {
		for _, d := range ancestorsOf(filepath.Clean(f.Path.String())) {
			if !seen[d] {
				seen[d] = true
				in.Dirs0 = append(in.Dirs0, toB(d))
			}
		}
	}
	if in.Dirs0 == nil {
		in.Dirs0 = []B{}
	}
	// probes: every path of the run and its parents
	ps := map[string]bool{}
	add := func(p string) {
		p = filepath.Clean(p)
		ps[p] = true
		for _, d := range ancestorsOf(p) {
			ps[d] = true
		}
	}
	for _, f := range in.FS0 {
		add(f.Path.String())
	}
	for _, a := range in.Arts {
		if a.K == "custom" {
			add(a.Name.String())
		}
	}
	keys := []string{}
	for p := range ps {
		keys = append(keys, p)
	}
	sort.Strings(keys)
	in.Probes = []B{}
	defer func() { in.Probes = append(in.Probes, toB(straysProbe)) }()
	for _, p := range keys {
		in.Probes = append(in.Probes, toB(p))
	}
}

func (e persistEngine) Gen(g *Gen) {
	emit := func(in persistIn) {
		finishPersistIn(&in)
		g.Count("arts", fmt.Sprint(len(in.Arts)))
		g.Count("procs", fmt.Sprint(len(in.Procs)))
		for _, a := range in.Arts {
			k := a.K
			if a.Tpl {
				k += "-tpl"
			}
			if a.Ow {
				k += "-ow"
			}
			g.Count("kind", k)
		}
		g.Emit(in)
	}
	switch e.flavour {
	case "c10":
		e.genC10(g, emit)
	case "c11p":
		e.genC11p(g, emit)
	default:
		e.genC12(g, emit)
	}
}

// genC11p pushes every name of the C11 path corpus through the whole persister, for all six
// generator artifact kinds: what reaches the *response* must be the normalised name.
func (e persistEngine) genC11p(g *Gen, emit func(persistIn)) {
	i := 0
	pathCorpus(g, func(s string) {
		i++
		if !g.Thorough() && i%4 != 0 && len(s) > 4 {
			return // quick tier: every short name, a quarter of the longer ones
		}
		tplFile := i%2 == 0
		f := mkArt("file", s, "F")
		f.Tpl = tplFile
		a := mkArt("app", s, "+")
		a.Tpl = !tplFile
		in1 := mkArt("inj", s, "I")
		in1.IP = toB("pt")
		in2 := mkArt("inj", s, "J")
		in2.IP = toB("pt2")
		in2.Tpl = true
		emit(persistIn{Arts: []artJ{f, a, in1, in2}})
		// the other template assignment, with the injection first
		f.Tpl, a.Tpl = !f.Tpl, !a.Tpl
		emit(persistIn{Arts: []artJ{in2, f, a}})
		// the name only on an append, after an ordinary file that already carries an append
		emit(persistIn{Arts: []artJ{mkArt("file", "ok.go", "F"), mkArt("app", "ok.go", "+"), a}})
		// a soft error earlier in the run does not excuse a bad name later; and a processor that
		// matches must not change which name reaches the response
		if i%4 == 1 {
			emit(persistIn{Arts: []artJ{mkArt("err", "", "soft"), f}})
			emit(persistIn{Arts: []artJ{mkArt("err", "", "soft"), mkArt("file", "ok.go", "F"), a, in1}})
		}
		if i%4 == 2 {
			all := procJ{Kinds: []int{0, 1, 2, 3, 4, 5}, Suffix: toB("<p>")}
			emit(persistIn{Arts: []artJ{f, a, in1, in2}, Procs: []procJ{all}})
			if i%16 == 0 {
				// a processor whose result is empty (nil, no error) empties the chunk; the next one sees nothing
				drop := procJ{Kinds: []int{0, 1, 2, 3, 4, 5, 6, 7}, Suffix: B{}, Replace: true}
				konst := procJ{Kinds: []int{0, 2, 4, 6}, Suffix: toB("K"), Replace: true}
				emit(persistIn{Arts: []artJ{f, a, in1, in2}, Procs: []procJ{drop}})
				emit(persistIn{Arts: []artJ{f, a, in1, in2}, Procs: []procJ{all, drop, all}})
				emit(persistIn{Arts: []artJ{f, a, in1, in2, mkArt("custom", "c/"+s, "C")}, Procs: []procJ{all, konst, drop}})
			}
		}
		// an OVERWRITING file under this name after an append (a nameless chunk) and after a file: a
		// rejected name stays rejected whatever the response already holds
		if i%4 == 0 || len(s) <= 4 {
			fo := mkArt("file", s, "O")
			fo.Ow = true
			emit(persistIn{Arts: []artJ{mkArt("file", "ok.go", "F"), mkArt("app", "ok.go", "+"), fo}})
		}
		// the name on something that is not one of the six kinds (a pointer to one, a foreign type
		// embedding one): never emitted, whatever the name
		if i%8 == 0 {
			uk := unknownKinds[1+(i/8)%(len(unknownKinds)-1)]
			emit(persistIn{Arts: []artJ{mkArt("file", "ok.go", "F"), {K: uk, Name: toB(s), IP: B{}, Text: toB("U"), Perms: 0644}}})
		}
		// a sibling that differs in letter case only is a different file
		if lo := strings.ToLower(s); lo != s {
			fo := mkArt("file", s, "F")
			fo.Ow = true
			emit(persistIn{Arts: []artJ{mkArt("file", lo, "L"), fo, mkArt("app", s, "+"), mkArt("app", lo, "+l")}})
		}
	})
}

func (e persistEngine) genC10(g *Gen, emit func(persistIn)) {
	mk := func(k, name, text string, ow bool) artJ {
		a := mkArt(k, name, text)
		a.Ow = ow
		if k == "inj" {
			a.IP = toB("pt")
		}
		return a
	}
	alphabet := []artJ{mk("file", "a", "A", false), mk("file", "a", "A2", true), mk("file", "b", "B", false), mk("file", "./a", "A3", false),
		mk("app", "a", "+a", false), mk("app", "b", "+b", false), mk("app", "d/../a", "+a2", false), mk("inj", "a", "ia", false), mk("err", "", "e1", false),
		mk("file", "A", "UA", true), mk("app", "A", "+UA", false)} // names are compared byte for byte: "A" is not "a"
	maxLen := 4
	if g.Thorough() {
		maxLen = 5
	}
	// nothing to persist at all: the response is still made, and still carries the supported features
	for _, f := range []uint64{0, 1, 3} {
		ff := f
		emit(persistIn{Arts: []artJ{}, Features: &ff})
	}
	emit(persistIn{Arts: []artJ{}})
	var rec func(seq []artJ, n int)
	rec = func(seq []artJ, n int) {
		if len(seq) > 0 {
			in := persistIn{Arts: append([]artJ{}, seq...)}
			if len(seq)%2 == 0 {
				f := uint64(len(seq))
				in.Features = &f
			}
			emit(in)
		}
		if n == 0 {
			return
		}
		for i, a := range alphabet {
			a.Text = toB(a.Text.String() + fmt.Sprint(len(seq))) // distinct contents
			_ = i
			rec(append(append([]artJ{}, seq...), a), n-1)
		}
	}
	rec(nil, maxLen)
	// random sequences with templates, processors, illegal names, unknown artifacts
	names := []string{"a", "b", "c.go", "./a", "d/../a", "d/a", "a/", "x/./y", "A", "C.go", "D/a", "d/A", "../a", "/abs", "", ".", "a/..", "..a", "a\\b"}
	n := 4000
	if g.Thorough() {
		n = 80000
	}
	for i := 0; i < n; i++ {
		l := 1 + g.Rng.Intn(12)
		if g.Rng.Intn(10) == 0 {
			l = 12 + g.Rng.Intn(18)
		}
		var seq []artJ
		have := []string{}
		for j := 0; j < l; j++ {
			r := g.Rng.Intn(100)
			var name string
			// mostly legal names; appends mostly to existing files
			if g.Rng.Intn(25) == 0 {
				name = pick(g.Rng, names)
			} else {
				name = pick(g.Rng, names[:12])
			}
			text := fmt.Sprintf("t%d", j)
			if g.Rng.Intn(3) == 0 { // identical contents in different artifacts (a per-content cache must not mix them up)
				text = pick(g.Rng, []string{"same", "hdr", ""})
			}
			var a artJ
			switch {
			case r < 35:
				a = mk("file", name, text, g.Rng.Intn(3) == 0)
				have = append(have, name)
			case r < 60:
				if len(have) > 0 && g.Rng.Intn(12) > 0 {
					name = have[g.Rng.Intn(len(have))]
					if g.Rng.Intn(4) == 0 {
						name = "./" + name
					}
				}
				a = mk("app", name, text, false)
			case r < 80:
				a = mk("inj", name, text, false)
				a.IP = toB(pick(g.Rng, []string{"pt", "imports", ""}))
			case r < 90:
				a = mk("err", "", pick(g.Rng, []string{"e1", "boom", "", "a; b", "100% sure", "%s and %d", "50%% off", "%!v(MISSING)"}), false)
			case r < 98:
				a = mk("custom", pick(g.Rng, []string{"out/x", "y", "out/./x"}), text, g.Rng.Intn(2) == 0)
			default:
				a = artJ{K: pick(g.Rng, unknownKinds), Name: toB(pick(g.Rng, []string{"a", "b", "u.go"})), IP: B{}, Text: toB(text)}
			}
			if a.K != "err" && !strings.HasPrefix(a.K, "unknown") && g.Rng.Intn(3) == 0 {
				a.Tpl = true
				a.Fails = g.Rng.Intn(30) == 0
			}
			seq = append(seq, a)
		}
		in := persistIn{Arts: seq}
		for p := g.Rng.Intn(4); p > 0; p-- {
			pj := procJ{Kinds: []int{}, Suffix: toB(fmt.Sprintf("<p%d>", p)), Fails: g.Rng.Intn(25) == 0}
			if p == 1 && len(seq)%4 == 1 { // a processor that replaces what it is given - by nothing at all now and then
				pj.Replace = true
				if len(seq)%8 == 1 {
					pj.Suffix = B{}
				}
			}
			for k := 0; k < 9; k++ {
				if g.Rng.Intn(2) == 0 {
					pj.Kinds = append(pj.Kinds, k)
				}
			}
			in.Procs = append(in.Procs, pj)
		}
		if g.Rng.Intn(2) == 0 {
			f := uint64(g.Rng.Intn(4))
			in.Features = &f
		}
		emit(in)
	}
}

func (e persistEngine) genC12(g *Gen, emit func(persistIn)) {
	mkc := func(name, text string, ow bool, perms int) artJ {
		a := mkArt("custom", name, text)
		a.Ow, a.Perms = ow, perms
		return a
	}
	alphabet := []artJ{mkc("a", "1", false, 0644), mkc("a", "22", true, 0600), mkc("d/a", "3", false, 0644), mkc("d/./a", "44", false, 0755),
		mkc("d/e/../a", "5", true, 0640), mkc("/abs/a", "6", false, 0644), mkc("d/b", "7", true, 0644)}
	pre := []fileEntJ{{toB("a"), toB("old-a"), 0600}, {toB("d/a"), toB("old-da-longer"), 0444}, {toB("/abs/a"), toB("old-abs"), 0644}, {toB("z/keep"), toB("keep"), 0640}}
	maxLen := 4
	if g.Thorough() {
		maxLen = 5
	}
	var rec func(seq []artJ, n int)
	rec = func(seq []artJ, n int) {
		if len(seq) > 0 {
			for mask := 0; mask < 16; mask += 1 + (len(seq)+mask)%3 {
				in := persistIn{Arts: append([]artJ{}, seq...)}
				for b := 0; b < 4; b++ {
					if mask&(1<<uint(b)) != 0 {
						in.FS0 = append(in.FS0, pre[b])
					}
				}
				g.Count("preexisting", fmt.Sprint(len(in.FS0)))
				emit(in)
			}
		}
		if n == 0 {
			return
		}
		for _, a := range alphabet {
			a.Text = toB(a.Text.String() + strings.Repeat("x", len(seq)))
			rec(append(append([]artJ{}, seq...), a), n-1)
		}
	}
	rec(nil, maxLen)
	// on a real directory tree: a parent whose path is a string prefix of an earlier parent's
	for _, seq := range [][]string{{"out/gen2/b", "out/gen/a"}, {"api.v1beta/x/f", "api.v1/f"}, {"ab/c", "a/c"}, {"x/yz/f", "x/y/f", "x/f"}, {"d/a", "d/./a", "d//a"}} {
		in := persistIn{FSKind: "os"}
		for i, nm := range seq {
			in.Arts = append(in.Arts, mkc(nm, fmt.Sprint("t", i), false, 0644))
		}
		g.Count("fs", "os-tempdir")
		emit(in)
		in.FSKind = ""
		emit(in)
	}
	names := []string{"a", "d/a", "d/./a", "d/e/../a", "/abs/a", "d/b", "q/r/s/t", "./a", "d//a", "z/keep", "w", "a.tmp", "d/a.tmp", "a~", "w.tmp",
		"out/gen2/b", "out/gen/a", "api.v1beta/x/f", "api.v1/f"}
	// neighbours that scratch-file schemes would use
	pre = append(pre, fileEntJ{toB("a.tmp"), toB("old-tmp"), 0640}, fileEntJ{toB("d/a.tmp"), toB("old-da-tmp"), 0600}, fileEntJ{toB("w.tmp"), toB("w"), 0644})
	n := 3000
	if g.Thorough() {
		n = 60000
	}
	for i := 0; i < n; i++ {
		var in persistIn
		for b := range pre {
			if g.Rng.Intn(2) == 0 {
				in.FS0 = append(in.FS0, pre[b])
			}
		}
		for j := 1 + g.Rng.Intn(10); j > 0; j-- {
			r := g.Rng.Intn(10)
			switch {
			case r < 7:
				txt := strings.Repeat("c", g.Rng.Intn(6)) + fmt.Sprint(j)
				if g.Rng.Intn(3) == 0 { // identical contents in different artifacts
					txt = pick(g.Rng, []string{"same", "hdr", ""})
				} else if g.Rng.Intn(5) == 0 { // custom files are byte payloads: not necessarily UTF-8
					txt = pick(g.Rng, []string{"\xff\xfe\x00bin", "caf\xe9", "\xe2\x82", "ok\xc0\xafz", "\xef\xbf\xbd kept"})
				}
				a := mkc(pick(g.Rng, names), txt, g.Rng.Intn(2) == 0, []int{0644, 0600, 0755, 0444, 0640}[g.Rng.Intn(5)])
				if g.Rng.Intn(3) == 0 {
					a.Tpl = true
					a.Fails = g.Rng.Intn(40) == 0
				}
				in.Arts = append(in.Arts, a)
			case r < 9:
				in.Arts = append(in.Arts, mkArt("file", pick(g.Rng, []string{"a", "g.go"}), pick(g.Rng, []string{fmt.Sprint("g", j), "same", "hdr"})))
			default:
				in.Arts = append(in.Arts, mkArt("err", "", "e"))
			}
		}
		for p := g.Rng.Intn(3); p > 0; p-- {
			pj := procJ{Kinds: []int{}, Suffix: toB(fmt.Sprintf("<p%d>", p)), Fails: g.Rng.Intn(40) == 0}
			if p == 1 && len(in.Arts)%4 == 1 {
				pj.Replace = true
				if len(in.Arts)%8 == 1 {
					pj.Suffix = B{}
				}
			}
			for _, k := range []int{0, 6, 7} {
				if g.Rng.Intn(2) == 0 {
					pj.Kinds = append(pj.Kinds, k)
				}
			}
			in.Procs = append(in.Procs, pj)
		}
		if g.Rng.Intn(4) == 0 { // the same run on a real directory tree (parents must be made on the configured file system)
			in.FSKind = "os"
		}
		g.Count("fs", map[string]string{"": "memory", "os": "os-tempdir"}[in.FSKind])
		g.Count("preexisting", fmt.Sprint(len(in.FS0)))
		emit(in)
	}
	// long batches (a plugin that writes one file per message): many custom files over a few
	// directories in no particular order, several of them addressing the same path
	nl := 60
	if g.Thorough() {
		nl = 1500
	}
	dirs := []string{"z", "m/n", "a", "m", "k/../z", "b/c", ""}
	for i := 0; i < nl; i++ {
		var in persistIn
		if g.Rng.Intn(2) == 0 {
			in.FS0 = append(in.FS0, fileEntJ{toB("z/f0"), toB("old-z"), 0600})
		}
		for j, n := 0, 13+g.Rng.Intn(40); j < n; j++ {
			nm := fmt.Sprint("f", g.Rng.Intn(4))
			if d := pick(g.Rng, dirs); d != "" {
				nm = d + "/" + nm
			}
			in.Arts = append(in.Arts, mkc(nm, fmt.Sprint("L", j), g.Rng.Intn(2) == 0, []int{0644, 0600, 0755}[g.Rng.Intn(3)]))
		}
		g.Count("fs", "memory")
		g.Count("long-batch", "yes")
		emit(in)
	}
}

func init() {
	register("c10", persistEngine{"c10"})
	register("c12", persistEngine{"c12"})
	register("c11p", persistEngine{"c11p"})
}
