package main

import (
	"encoding/json"
	"fmt"
	"google.golang.org/protobuf/runtime/protoimpl"

	pgs "github.com/lyft/protoc-gen-star/v2"
	"google.golang.org/protobuf/proto"
)

// ---- C06: read accessors are pure ----

type opJ struct {
	R   ref
	Acc string
}

func (o opJ) MarshalJSON() ([]byte, error) { return json.Marshal([]interface{}{o.R, o.Acc}) }
func (o *opJ) UnmarshalJSON(b []byte) error {
	var raw []json.RawMessage
	if err := json.Unmarshal(b, &raw); err != nil || len(raw) != 2 {
		return fmt.Errorf("bad op")
	}
	if err := json.Unmarshal(raw[0], &o.R); err != nil {
		return err
	}
	return json.Unmarshal(raw[1], &o.Acc)
}

type opRes struct {
	Res  []ref `json:"res"`
	Same bool  `json:"same"`
}
type c06Obs struct {
	Failed bool    `json:"failed"`
	Ops    []opRes `json:"ops"`
}

func fileRefsOf(r *astRun, fs []pgs.File, sorted bool) []ref {
	out := []ref{}
	for _, f := range fs {
		out = append(out, r.refOf(f))
	}
	if sorted {
		// derived relations: as a set (duplicates stay visible as repeated entries)
		out = sortRefs(out)
	}
	return out
}

type descendAll struct {
	r     *astRun
	trace *[]ref
}

func (v descendAll) see(e interface{}) (pgs.Visitor, error) {
	*v.trace = append(*v.trace, v.r.refOf(e))
	return v, nil
}
func (v descendAll) VisitPackage(pgs.Package) (pgs.Visitor, error)       { return v, nil }
func (v descendAll) VisitFile(e pgs.File) (pgs.Visitor, error)           { return v.see(e) }
func (v descendAll) VisitMessage(e pgs.Message) (pgs.Visitor, error)     { return v.see(e) }
func (v descendAll) VisitEnum(e pgs.Enum) (pgs.Visitor, error)           { return v.see(e) }
func (v descendAll) VisitEnumValue(e pgs.EnumValue) (pgs.Visitor, error) { return v.see(e) }
func (v descendAll) VisitField(e pgs.Field) (pgs.Visitor, error)         { return v.see(e) }
func (v descendAll) VisitExtension(e pgs.Extension) (pgs.Visitor, error) { return v.see(e) }
func (v descendAll) VisitOneOf(e pgs.OneOf) (pgs.Visitor, error)         { return v.see(e) }
func (v descendAll) VisitService(e pgs.Service) (pgs.Visitor, error)     { return v.see(e) }
func (v descendAll) VisitMethod(e pgs.Method) (pgs.Visitor, error)       { return v.see(e) }

// failAt answers like descendAll until its k-th visit, which returns (itself, error).
type failAt struct {
	descendAll
	left int
}

func (v *failAt) see(e interface{}) (pgs.Visitor, error) {
	*v.trace = append(*v.trace, v.r.refOf(e))
	if v.left--; v.left == 0 {
		return v, fmt.Errorf("stop here")
	}
	return v, nil
}
func (v *failAt) VisitPackage(pgs.Package) (pgs.Visitor, error)       { return v, nil }
func (v *failAt) VisitFile(e pgs.File) (pgs.Visitor, error)           { return v.see(e) }
func (v *failAt) VisitMessage(e pgs.Message) (pgs.Visitor, error)     { return v.see(e) }
func (v *failAt) VisitEnum(e pgs.Enum) (pgs.Visitor, error)           { return v.see(e) }
func (v *failAt) VisitEnumValue(e pgs.EnumValue) (pgs.Visitor, error) { return v.see(e) }
func (v *failAt) VisitField(e pgs.Field) (pgs.Visitor, error)         { return v.see(e) }
func (v *failAt) VisitExtension(e pgs.Extension) (pgs.Visitor, error) { return v.see(e) }
func (v *failAt) VisitOneOf(e pgs.OneOf) (pgs.Visitor, error)         { return v.see(e) }
func (v *failAt) VisitService(e pgs.Service) (pgs.Visitor, error)     { return v.see(e) }
func (v *failAt) VisitMethod(e pgs.Method) (pgs.Visitor, error)       { return v.see(e) }

// accessorsOf lists the accessor names applicable to an entity kind.
func accessorsOf(kind string) []string {
	switch kind {
	case "file":
		return []string{"imports", "transitive", "dependents", "unused", "messages", "allMessages", "enums", "allEnums", "services", "exts", "walk", "walkfail", "syntax", "desc", "sci", "syntaxSci", "packageSci"}
	case "msg":
		return []string{"messages", "mapEntries", "fields", "oneofs", "enums", "exts", "allMessages", "allEnums", "nonOneof", "oneofFields", "synthFields", "realOneofs", "imports", "deps", "dpts", "walk", "walkfail", "desc"}
	case "enum":
		return []string{"values", "edpts", "desc"}
	case "service":
		return []string{"methods", "imports", "walk", "walkfail", "desc"}
	}
	return nil
}

// pristineOf: the declaration's descriptor in a copy of the request that pgs never saw.
func (r *astRun) pristineOf(rf ref) proto.Message {
	if r.pristine == nil {
		r.pristine = map[string]proto.Message{}
		for d, dr := range buildWorld(r.w).refOf {
			if m, ok := d.(proto.Message); ok {
				r.pristine[dr.key()] = m
			}
		}
	}
	return r.pristine[rf.key()]
}

func callAccessor(r *astRun, e pgs.Entity, acc string) []ref {
	switch acc {
	case "desc":
		// Descriptor() read by content: still what the request said ([1]) or not ([0])
		var d proto.Message
		switch x := e.(type) {
		case pgs.File:
			d = x.Descriptor()
		case pgs.Message:
			d = x.Descriptor()
		case pgs.Enum:
			d = x.Descriptor()
		case pgs.Service:
			d = x.Descriptor()
		}
		if want := r.pristineOf(r.refOf(e)); d != nil && want != nil && proto.Equal(d, want) {
			return []ref{{0, []int{1}}}
		}
		return []ref{{0, []int{0}}}
	case "sci", "syntaxSci", "packageSci":
		// the location the file reports for itself / its syntax statement / its package statement is
		// the one the request designates ([1]) or not ([0]) - whatever was asked before
		if f, ok := e.(pgs.File); ok {
			fi := r.refOf(f).File
			want := func(path int) int {
				t := -1
				for _, l := range r.w.Files[fi].Locs {
					if len(l.Path) == 1 && l.Path[0] == path {
						t = l.Tag
					}
				}
				return t
			}
			var got, exp int
			switch acc {
			case "sci":
				got, exp = tagOf(f.SourceCodeInfo()), want(12)
			case "syntaxSci":
				got, exp = tagOf(f.SyntaxSourceCodeInfo()), want(12)
			default:
				got, exp = tagOf(f.PackageSourceCodeInfo()), want(2)
			}
			if got == exp {
				return []ref{{0, []int{1}}}
			}
			return []ref{{0, []int{0}}}
		}
	case "optA", "optB":
		// Extension(): the custom option is reported exactly when the request carries it, with its value ([1]) or not ([0])
		bit, pre := 1, "a-of-"
		if acc == "optB" {
			bit, pre = 2, "b-of-"
		}
		pickI := func(a, b *protoimpl.ExtensionInfo) *protoimpl.ExtensionInfo {
			if bit == 1 {
				return a
			}
			return b
		}
		var got string
		var has, want bool
		var err error
		name := e.Name().String()
		switch x := e.(type) {
		case pgs.File:
			want = r.w.Opts && (r.refOf(x).File+1)%4&bit != 0
			has, err = x.Extension(pickI(extFOptA, extFOptB), &got)
		case pgs.Message:
			want = r.w.Opts && !x.IsMapEntry() && optMask(r.refOf(x))&bit != 0
			has, err = x.Extension(pickI(extOptA, extOptB), &got)
		case pgs.Enum:
			want = r.w.Opts && optMask(r.refOf(x))&bit != 0
			has, err = x.Extension(pickI(extEOptA, extEOptB), &got)
		case pgs.Service:
			want = r.w.Opts && optMask(r.refOf(x))&bit != 0
			has, err = x.Extension(pickI(extSOptA, extSOptB), &got)
		default:
			return []ref{{0, []int{0}}}
		}
		if err == nil && has == want && (!has || got == pre+name) {
			return []ref{{0, []int{1}}}
		}
		return []ref{{0, []int{0}}}
	case "syntax":
		if f, ok := e.(pgs.File); ok {
			switch f.Syntax() {
			case pgs.Proto3:
				return []ref{{0, []int{3}}}
			case pgs.Proto2:
				return []ref{{0, []int{2}}}
			}
			return []ref{{0, []int{0}}}
		}
	}
	switch x := e.(type) {
	case pgs.File:
		switch acc {
		case "imports":
			return fileRefsOf(r, x.Imports(), false)
		case "transitive":
			return fileRefsOf(r, x.TransitiveImports(), true)
		case "dependents":
			return fileRefsOf(r, x.Dependents(), true)
		case "unused":
			return fileRefsOf(r, x.UnusedImports(), true)
		case "messages":
			return refsOfMsgs(r, x.Messages())
		case "allMessages":
			return sortRefs(refsOfMsgs(r, x.AllMessages()))
		case "enums":
			return refsOfEnums(r, x.Enums())
		case "allEnums":
			return sortRefs(refsOfEnums(r, x.AllEnums()))
		case "services":
			out := []ref{}
			for _, s := range x.Services() {
				out = append(out, r.refOf(s))
			}
			return out
		case "exts":
			return refsOfExts(r, x.DefinedExtensions())
		}
	case pgs.Message:
		switch acc {
		case "messages":
			return refsOfMsgs(r, x.Messages())
		case "mapEntries":
			return refsOfMsgs(r, x.MapEntries())
		case "fields":
			return refsOfFields(r, x.Fields())
		case "oneofs":
			out := []ref{}
			for _, o := range x.OneOfs() {
				out = append(out, r.refOf(o))
			}
			return out
		case "enums":
			return refsOfEnums(r, x.Enums())
		case "exts":
			return refsOfExts(r, x.DefinedExtensions())
		case "allMessages":
			return sortRefs(refsOfMsgs(r, x.AllMessages()))
		case "allEnums":
			return sortRefs(refsOfEnums(r, x.AllEnums()))
		case "nonOneof":
			return refsOfFields(r, x.NonOneOfFields())
		case "oneofFields":
			return sortRefs(refsOfFields(r, x.OneOfFields()))
		case "synthFields":
			return sortRefs(refsOfFields(r, x.SyntheticOneOfFields()))
		case "realOneofs":
			out := []ref{}
			for _, o := range x.RealOneOfs() {
				out = append(out, r.refOf(o))
			}
			return out
		case "imports":
			return fileRefsOf(r, x.Imports(), true)
		case "deps":
			return sortRefs(refsOfMsgs(r, x.Dependencies()))
		case "dpts":
			return sortRefs(refsOfMsgs(r, x.Dependents()))
		}
	case pgs.Enum:
		switch acc {
		case "values":
			out := []ref{}
			for _, v := range x.Values() {
				out = append(out, r.refOf(v))
			}
			return out
		case "edpts":
			return sortRefs(refsOfMsgs(r, x.Dependents()))
		}
	case pgs.Service:
		switch acc {
		case "methods":
			out := []ref{}
			for _, m := range x.Methods() {
				out = append(out, r.refOf(m))
			}
			return out
		case "imports":
			return fileRefsOf(r, x.Imports(), true)
		}
	}
	if acc == "walk" {
		tr := []ref{}
		_ = pgs.Walk(descendAll{r, &tr}, e)
		return tr
	}
	if acc == "walkfail" {
		// a walk whose visitor returns an error half way (handing its visitor back as well): it sees
		// the first half of the full walk and leaves no trace in the AST
		full := []ref{}
		_ = pgs.Walk(descendAll{r, &full}, e)
		tr := []ref{}
		if err := pgs.Walk(&failAt{descendAll{r, &tr}, (len(full) + 1) / 2}, e); err == nil && len(full) > 0 {
			tr = append(tr, ref{0, []int{666666}}) // the error was swallowed
		}
		return tr
	}
	return []ref{{0, []int{555555}}}
}

func sameRefs(a, b []ref) bool {
	if len(a) != len(b) {
		return false
	}
	for i := range a {
		if a[i].key() != b[i].key() {
			return false
		}
	}
	return true
}

type c06Engine struct{}

func (c06Engine) Isolated() bool { return false }

func (c06Engine) Run(raw json.RawMessage) (interface{}, error) {
	if string(raw) == "null" {
		return nil, fmt.Errorf("null input")
	}
	var w wWorld
	if err := json.Unmarshal(raw, &w); err != nil {
		return nil, err
	}
	// A: a second AST built from the same request, observed once per (entity, accessor) in
	// canonical order (first-call oracle); B: driven by the operation history.
	a, b := buildAST(w), buildAST(w)
	if err := a.b.valid(); err != nil {
		return map[string]interface{}{"invalid_world": err.Error()}, nil
	}
	o := c06Obs{Ops: []opRes{}}
	if a.failed || b.failed {
		o.Failed = true
		return o, nil
	}
	canon := map[string][]ref{}
	for _, en := range allEntities(a) {
		for _, acc := range accessorsOf(en.kind) {
			if (acc == "walk" || acc == "walkfail") && inMapEntry(w, en.ref) {
				continue
			}
			canon[en.ref.key()+acc] = callAccessor(a, en.e, acc)
		}
		if en.kind == "msg" || en.kind == "file" || en.kind == "enum" || en.kind == "service" { // the custom options (asked at the end of the random histories only)
			for _, acc := range []string{"optA", "optB"} {
				canon[en.ref.key()+acc] = callAccessor(a, en.e, acc)
			}
		}
	}
	byRef := map[string]pgs.Entity{}
	for _, en := range allEntities(b) {
		byRef[en.ref.key()] = en.e
	}
	// listings handed out earlier are kept (read-only) and looked at again after every later call:
	// a result must not change under the reader's eyes because another accessor was called
	type heldT struct {
		raw  []pgs.Field
		refs []ref
	}
	var held []heldT
	for _, op := range w.Ops {
		e, ok := byRef[op.R.key()]
		if !ok {
			o.Ops = append(o.Ops, opRes{[]ref{{0, []int{444444}}}, false})
			continue
		}
		res := callAccessor(b, e, op.Acc)
		if m, ok := e.(pgs.Message); ok {
			var raw []pgs.Field
			switch op.Acc {
			case "oneofFields":
				raw = m.OneOfFields()
			case "synthFields":
				raw = m.SyntheticOneOfFields()
			case "nonOneof":
				raw = m.NonOneOfFields()
			}
			if raw != nil {
				if len(held) >= 12 {
					held = held[1:]
				}
				held = append(held, heldT{raw, refsOfFields(b, raw)})
			}
		}
		for _, h := range held {
			if !sameRefs(refsOfFields(b, h.raw), h.refs) {
				res = append(res, ref{0, []int{777777}}) // an earlier result changed while only being read
				break
			}
		}
		want, known := canon[op.R.key()+op.Acc]
		o.Ops = append(o.Ops, opRes{res, known && sameRefs(res, want)})
	}
	return o, nil
}

func inMapEntry(w wWorld, rf ref) bool {
	if rf.File >= len(w.Files) {
		return false
	}
	ms := w.Files[rf.File].Msgs
	p := rf.Path
	want := 4 // message_type in a file, then nested_type (3) in a message
	for len(p) >= 2 && p[0] == want && p[1] < len(ms) {
		if ms[p[1]].Head.MapEntry {
			return true
		}
		ms, p, want = ms[p[1]].Nested, p[2:], 3
	}
	return false
}

func (c06Engine) Gen(g *Gen) {
	n := 500
	if g.Thorough() {
		n = 8000
	}
	worlds := curatedWorlds()
	// systematic histories on the hub worlds (files sharing their first import): every file-level
	// derived relation asked of every importing file in order, again in order, then in reverse -
	// so that an answer that aliases or memoises another file's answer is asked for again after the
	// other file was asked (detection must not depend on the random history)
	for _, hw := range hubWorlds() {
		// two histories per world: leaves first (request order, again, reversed) and roots first
		// (reversed, request order, reversed) - a memo filled while another file's walk passes
		// through is only wrong if that other file is asked FIRST
		for variant := 0; variant < 2; variant++ {
			c := hw
			c.Ops = []opJ{}
			var fis []int
			for fi := range c.Files {
				fis = append(fis, fi) // every file: leaves matter for Dependents(), importers for the import relations
			}
			for _, acc := range []string{"transitive", "imports", "dependents", "unused"} {
				for pass := 0; pass < 3; pass++ {
					for k := range fis {
						fi := fis[k]
						if (pass == 2) != (variant == 1 && pass != 1) {
							fi = fis[len(fis)-1-k]
						}
						c.Ops = append(c.Ops, opJ{ref{fi, []int{}}, acc})
					}
				}
			}
			worlds = append(worlds, c)
		}
	}
	// systematic histories on message graphs (chains of 2..5 messages, a fork, a cycle with a tail):
	// both closures asked of every message top-down, again top-down, bottom-up, top-down - so that a
	// closure that adopts or aliases a neighbour's memo is asked for again after the neighbour was
	for _, mw := range msgChainWorlds() {
		c := mw
		c.Ops = []opJ{}
		nm := len(c.Files[0].Msgs)
		for _, acc := range []string{"dpts", "deps"} {
			for pass := 0; pass < 4; pass++ {
				for k := 0; k < nm; k++ {
					mi := k
					if pass == 2 {
						mi = nm - 1 - k
					}
					c.Ops = append(c.Ops, opJ{ref{0, []int{4, mi}}, acc})
				}
			}
		}
		worlds = append(worlds, c)
	}
	for i := 0; i < n; i++ {
		worlds = append(worlds, wWorld{}) // placeholder: generated below
	}
	for i := range worlds {
		var w wWorld
		if worlds[i].Files != nil {
			w = worlds[i]
		} else {
			w = genWorld(g.Rng, genOpts{maxFiles: []int{5, 9}[i%2], maxDepth: 2, locs: i%3 == 0})
			w.FDSet = false
			if len(w.Targets) == 0 {
				w.Targets = []string{w.Files[0].Name}
			}
		}
		w.Bidi = true
		w.Opts = true // ordinary messages carry custom options (harness only)
		if !g.Mine() {
			// the op history needs the entity list: draw a fixed amount of randomness instead
			g.Rng.Int63()
			g.Emit(nil)
			continue
		}
		seed := g.Rng.Int63()
		r := buildAST(w)
		if r.failed || r.b.valid() != nil {
			continue
		}
		type cand struct {
			rf  ref
			acc string
		}
		var cands []cand
		hub := false
		for _, f := range w.Files {
			if f.Name == "hub.proto" {
				hub = true // file-level derived relations only: long histories over few (entity, accessor) pairs
			}
		}
		for _, en := range allEntities(r) {
			if hub && en.kind != "file" {
				continue
			}
			for _, acc := range accessorsOf(en.kind) {
				if (acc == "walk" || acc == "walkfail") && inMapEntry(w, en.ref) {
					continue
				}
				cands = append(cands, cand{en.ref, acc})
			}
		}
		if len(cands) == 0 {
			continue
		}
		if worlds[i].Ops != nil { // a prepared (systematic) history
			w.Ops = worlds[i].Ops
			countWorld(g, w)
			g.Emit(w)
			continue
		}
		// a random history with repetitions, biased towards the stateful accessors
		lr := newLocalRand(seed)
		k := 20 + lr.Intn(60)
		w.Ops = []opJ{}
		for j := 0; j < k; j++ {
			c := cands[lr.Intn(len(cands))]
			if lr.Intn(3) == 0 {
				for try := 0; try < 8; try++ {
					c2 := cands[lr.Intn(len(cands))]
					switch c2.acc {
					case "dependents", "transitive", "unused", "deps", "dpts", "edpts", "nonOneof", "allMessages", "allEnums", "imports", "walkfail", "walk":
						c = c2
						try = 8
					}
				}
			}
			w.Ops = append(w.Ops, opJ{c.rf, c.acc})
			g.Count("accessor", c.acc)
			if lr.Intn(4) == 0 { // immediate repetition
				w.Ops = append(w.Ops, opJ{c.rf, c.acc})
			}
		}
		// every ordinary message is asked for its two custom options, in either order, twice: what one
		// lookup found (or did not find) must not colour the next
		for k, en := range allEntities(r) {
			if (en.kind != "msg" && en.kind != "file" && en.kind != "enum" && en.kind != "service") || inMapEntry(w, en.ref) {
				continue
			}
			first, second := "optA", "optB"
			if k%2 == 1 {
				first, second = second, first
			}
			w.Ops = append(w.Ops, opJ{en.ref, first}, opJ{en.ref, second}, opJ{en.ref, first}, opJ{en.ref, second})
		}
		// and at the end every file's descriptor read by content, after its syntax was asked for
		for fi := range w.Files {
			w.Ops = append(w.Ops, opJ{ref{fi, []int{}}, "syntax"}, opJ{ref{fi, []int{}}, "desc"},
				opJ{ref{fi, []int{}}, "syntaxSci"}, opJ{ref{fi, []int{}}, "sci"}, opJ{ref{fi, []int{}}, "syntaxSci"}, opJ{ref{fi, []int{}}, "packageSci"})
		}
		countWorld(g, w)
		g.Emit(w)
	}
}

// msgChainWorlds: one proto3 file `chain.proto`, package `ch`, messages M0..Mk-1 with message-typed
// fields along the given edges (i -> j: Mi has a field of type Mj).
func msgChainWorlds() []wWorld {
	mk := func(k int, edges [][2]int) wWorld {
		f := wFile{Name: "chain.proto", Pkg: "ch", Syn: "proto3", Deps: []string{}, PublicDeps: []int{}, Enums: []wEnum{}, Msgs: []wMsg{},
			Services: []wService{}, Exts: []wField{}, Locs: []wLoc{}}
		for i := 0; i < k; i++ {
			f.Msgs = append(f.Msgs, wMsg{Head: wMsgHead{Name: fmt.Sprintf("M%d", i), Fields: []wField{}, Enums: []wEnum{}, Oneofs: []string{}, Exts: []wField{}}, Nested: []wMsg{}})
		}
		for _, e := range edges {
			h := &f.Msgs[e[0]].Head
			h.Fields = append(h.Fields, wField{Name: fmt.Sprintf("f%d", e[1]), Number: len(h.Fields) + 1, Label: 1, Type: 11, TypeName: fmt.Sprintf(".ch.M%d", e[1])})
		}
		return wWorld{Files: []wFile{f}, Targets: []string{"chain.proto"}, Bidi: true}
	}
	var out []wWorld
	for k := 2; k <= 5; k++ {
		var edges [][2]int
		for i := 0; i+1 < k; i++ {
			edges = append(edges, [2]int{i, i + 1})
		}
		out = append(out, mk(k, edges))
	}
	out = append(out, mk(4, [][2]int{{0, 1}, {1, 2}, {0, 3}, {3, 2}}))         // diamond
	out = append(out, mk(4, [][2]int{{0, 1}, {1, 0}, {1, 2}, {3, 0}}))         // cycle with a tail and a user
	out = append(out, mk(5, [][2]int{{0, 1}, {0, 2}, {1, 3}, {2, 3}, {3, 4}})) // fork and join, then a tail
	return out
}

func init() { register("c06", c06Engine{}) }
