// codegen: the second half of the translator. Where main.go copies literal *tables* out of the
// source, this file translates *code*: functions of /repo whose bodies are decision logic in the
// "guarded return" subset of Go (if / else, if with init, switch on a tag, := and = to a local,
// return; expressions built from ==, !=, &&, ||, !, literals, calls) are turned into Lean
// definitions (PgsVerif/Generated/Code.lean), statement by statement. What a leaf expression
// (an accessor of the receiver, a library call) means in the model is given per function by a
// small dictionary; everything else - the control flow, the order of the tests, which branch
// returns what - is taken from the source as it is now. Props/TieCode*.lean proves the hand-written
// model equal to these generated definitions, so editing such a function breaks a proof obligation.
//
// A function that no longer fits the subset (or an expression the dictionary does not know) makes
// the translator fail; ./check then reports the dependent properties as no longer shown.
package main

import (
	"bytes"
	"fmt"
	"go/ast"
	"go/printer"
	"go/token"
	"os"
	"path/filepath"
	"regexp"
	"sort"
	"strconv"
	"strings"
)

type fnSpec struct {
	file, recv, name string
	lean             string            // name of the generated definition
	binders          string            // Lean binders
	ret              string            // Lean result type
	exprs            map[string]string // Go expression (canonical text) -> Lean term
	calls            map[string]string // Go callee (canonical text) -> Lean function; "list:f" = f applied to the list of arguments
	methods          map[string]string // method name -> Lean function taking the receiver first
	ignore           []string          // prefixes of expression statements that are skipped (logging)
	fuelled          bool              // a recursive traversal: emitted with a fuel argument (0 = stop)
	named            string            // name of the named result a bare `return` yields ("" = none)
	mapVar           string            // the map a fold-loop updates
	loopType         string            // the Lean type of that tuple, and of the elements the loop ranges over: the loop body becomes a definition of its own
	loopElem         string
	aux              []string          // auxiliary definitions (loop bodies) emitted before the function
	loopVars         []string          // the locals a general loop updates, in the order of the tuple that carries them
	namedZero        string            // the zero value the named result starts with (when it is read before it is assigned)
	skipStmts        int               // leading statements left to the environment (not translated)
	closure          string            // translate the function literal assigned to this local of the function, not the function itself
	state            string            // Go expression of the list a void function updates in place ("" = none); Lean name `files`
	ints             map[string]bool   // locals / parameters that are Go ints (Lean Int)
	rn               string            // the receiver's name in the dictionary ("" = receiver not mentioned)
	pn               []string          // the parameters' names in the dictionary, by position ("" / missing = keep)
	mode             string            // "" plain | "err": (T, error) -> Except Bytes T | "opt": nil -> none, x -> some x
	locals           map[string]bool
	doc              string
}

// canonical source text of an expression (gofmt's rendering, on one line)
func stmtText(st ast.Stmt) string {
	var b bytes.Buffer
	printer.Fprint(&b, token.NewFileSet(), st)
	return b.String()
}

func exprText(e ast.Expr) string {
	var b bytes.Buffer
	if err := printer.Fprint(&b, token.NewFileSet(), e); err != nil {
		return "?"
	}
	return strings.Join(strings.Fields(b.String()), " ")
}

type cg struct {
	s   *fnSpec
	err error
}

var leanKeywords = map[string]bool{"exists": true, "prefix": true, "syntax": true, "end": true, "open": true, "from": true, "at": true, "have": true,
	"show": true, "fun": true, "do": true, "then": true, "else": true, "if": true, "let": true, "in": true, "with": true, "match": true,
	"where": true, "by": true, "instance": true, "class": true, "structure": true, "def": true, "theorem": true, "namespace": true,
	"section": true, "variable": true, "universe": true, "import": true, "macro": true, "notation": true, "infix": true, "postfix": true}

func leanIdent(n string) string {
	if leanKeywords[n] {
		return n + "_"
	}
	return n
}

func (c *cg) fail(format string, a ...interface{}) string {
	if c.err == nil {
		c.err = fmt.Errorf("%s.%s (%s): "+format, append([]interface{}{c.s.recv, c.s.name, c.s.file}, a...)...)
	}
	return "sorry_untranslatable"
}

// isInt: the expression is a Go int (so `+` is addition, not concatenation, and it lives in Lean's Int)
func (c *cg) isInt(e ast.Expr) bool {
	if c.s.ints == nil {
		return false
	}
	switch x := e.(type) {
	case *ast.BasicLit:
		return x.Kind == token.INT
	case *ast.ParenExpr:
		return c.isInt(x.X)
	case *ast.UnaryExpr:
		return x.Op == token.SUB && c.isInt(x.X)
	case *ast.Ident:
		return c.s.ints[x.Name]
	case *ast.BinaryExpr:
		return (x.Op == token.ADD || x.Op == token.SUB) && c.isInt(x.X) && c.isInt(x.Y)
	case *ast.CallExpr:
		if exprText(x.Fun) == "len" {
			return true
		}
		return strings.HasPrefix(c.s.calls[exprText(x.Fun)], "int:")
	}
	return false
}

func (c *cg) expr(e ast.Expr) string {
	txt := exprText(e)
	if v, ok := c.s.exprs[txt]; ok {
		return v
	}
	// integer arithmetic and comparisons, len, slices, append
	switch x := e.(type) {
	case *ast.UnaryExpr:
		if x.Op == token.SUB && c.isInt(x.X) {
			return "(-" + c.expr(x.X) + ")"
		}
	case *ast.BinaryExpr:
		if c.isInt(x.X) && c.isInt(x.Y) {
			switch x.Op {
			case token.ADD:
				return "(" + c.expr(x.X) + " + " + c.expr(x.Y) + ")"
			case token.SUB:
				return "(" + c.expr(x.X) + " - " + c.expr(x.Y) + ")"
			case token.LSS, token.GTR, token.LEQ, token.GEQ:
				return "(decide (" + c.expr(x.X) + " " + x.Op.String() + " " + c.expr(x.Y) + "))"
			}
		}
	case *ast.SliceExpr:
		if x.Slice3 {
			return c.fail("3-index slice")
		}
		l := c.expr(x.X)
		if x.High != nil {
			l = "(List.take (Int.toNat " + c.expr(x.High) + ") " + l + ")"
		}
		if x.Low != nil {
			l = "(List.drop (Int.toNat " + c.expr(x.Low) + ") " + l + ")"
		}
		return l
	case *ast.CallExpr:
		switch exprText(x.Fun) {
		case "make":
			return "[]"
		case "len":
			if len(x.Args) == 1 {
				return "(Int.ofNat (List.length " + c.expr(x.Args[0]) + "))"
			}
		case "append":
			if len(x.Args) == 2 {
				if x.Ellipsis.IsValid() {
					return "(" + c.expr(x.Args[0]) + " ++ " + c.expr(x.Args[1]) + ")"
				}
				return "(" + c.expr(x.Args[0]) + " ++ [" + c.expr(x.Args[1]) + "])"
			}
		}
	case *ast.CompositeLit:
		if _, isArr := x.Type.(*ast.ArrayType); isArr { // []T{a, b}
			var els []string
			for _, el := range x.Elts {
				els = append(els, c.expr(el))
			}
			return "[" + strings.Join(els, ", ") + "]"
		}
	}
	switch x := e.(type) {
	case *ast.IndexExpr:
		// m[k] on a map the dictionary knows how to read ("get:m")
		if f, ok := c.s.calls["get:"+exprText(x.X)]; ok {
			return "(" + f + " " + c.expr(x.X) + " " + c.expr(x.Index) + ")"
		}
	case *ast.ParenExpr:
		return "(" + c.expr(x.X) + ")"
	case *ast.BinaryExpr:
		op := map[token.Token]string{token.EQL: "==", token.NEQ: "!=", token.LAND: "&&", token.LOR: "||", token.ADD: "++"}[x.Op]
		if op == "" {
			return c.fail("operator %s", x.Op)
		}
		return "(" + c.expr(x.X) + " " + op + " " + c.expr(x.Y) + ")"
	case *ast.UnaryExpr:
		if x.Op == token.AND {
			if _, ok := x.X.(*ast.CompositeLit); ok {
				return c.expr(x.X)
			}
		}
		if x.Op != token.NOT {
			return c.fail("operator %s", x.Op)
		}
		return "(!" + c.expr(x.X) + ")"
	case *ast.BasicLit:
		switch x.Kind {
		case token.STRING:
			s, err := strconv.Unquote(x.Value)
			if err != nil {
				return c.fail("literal %s", x.Value)
			}
			return "(" + bytesLit(s) + " : Pgs.Bytes)"
		case token.INT:
			if c.s.ints != nil {
				return "(" + x.Value + " : Int)"
			}
			return x.Value
		case token.CHAR:
			// a rune literal: its code point
			if r, _, _, err := strconv.UnquoteChar(strings.Trim(x.Value, "'"), '\''); err == nil {
				return fmt.Sprintf("(%d : Nat)", r)
			}
		}
		return c.fail("literal %s", x.Value)
	case *ast.Ident:
		if c.s.locals[x.Name] {
			return leanIdent(x.Name)
		}
		if x.Name == "true" || x.Name == "false" {
			return x.Name
		}
		return c.fail("identifier %s", x.Name)
	case *ast.CompositeLit:
		// T{k1: v1, k2: v2}: calls["lit:T"] = "constructor k1 k2" gives the Lean function and the order of its arguments
		if cfg, ok := c.s.calls["optlit:"+exprText(x.Type)]; ok {
			// a message literal whose fields are all optional: an absent field is `none`
			parts := strings.Fields(cfg)
			vals := map[string]string{}
			for _, el := range x.Elts {
				kv, ok := el.(*ast.KeyValueExpr)
				if !ok {
					return c.fail("positional composite literal of %s", exprText(x.Type))
				}
				vals[exprText(kv.Key)] = c.expr(kv.Value)
			}
			out := "(" + parts[0]
			seen := 0
			for _, k := range parts[1:] {
				if v, ok := vals[k]; ok {
					out += " (some " + v + ")"
					seen++
				} else {
					out += " none"
				}
			}
			if seen != len(vals) {
				return c.fail("composite literal of %s has unknown fields %v", exprText(x.Type), vals)
			}
			return out + ")"
		}
		cfg, ok := c.s.calls["lit:"+exprText(x.Type)]
		if !ok {
			return c.fail("composite literal of %s", exprText(x.Type))
		}
		parts := strings.Fields(cfg)
		vals := map[string]string{}
		for _, el := range x.Elts {
			kv, ok := el.(*ast.KeyValueExpr)
			if !ok {
				return c.fail("positional composite literal of %s", exprText(x.Type))
			}
			vals[exprText(kv.Key)] = c.expr(kv.Value)
		}
		if len(vals) != len(parts)-1 {
			return c.fail("composite literal of %s has fields %v", exprText(x.Type), vals)
		}
		out := "(" + parts[0]
		for _, k := range parts[1:] {
			v, ok := vals[k]
			if !ok {
				return c.fail("composite literal of %s lacks field %s", exprText(x.Type), k)
			}
			out += " " + v
		}
		return out + ")"
	case *ast.CallExpr:
		callee := exprText(x.Fun)
		f, ok := c.s.calls[callee]
		if !ok {
			// a method of the value another translated expression yields: x.M(args) with M in `methods`
			if sel, isSel := x.Fun.(*ast.SelectorExpr); isSel {
				if m, ok := c.s.methods[sel.Sel.Name]; ok {
					args := []string{c.expr(sel.X)}
					for _, a := range x.Args {
						args = append(args, c.expr(a))
					}
					return "(" + m + " " + strings.Join(args, " ") + ")"
				}
			}
			return c.fail("call of %s", callee)
		}
		var args []string
		for _, a := range x.Args {
			args = append(args, c.expr(a))
		}
		f = strings.TrimPrefix(f, "int:")
		if strings.HasPrefix(f, "list:") {
			f = f[5:]
			if x.Ellipsis.IsValid() {
				if len(args) != 1 {
					return c.fail("spread call of %s with %d arguments", callee, len(args))
				}
				return "(" + f + " " + args[0] + ")"
			}
			return "(" + f + " [" + strings.Join(args, ", ") + "])"
		}
		return "(" + f + " " + strings.Join(args, " ") + ")"
	}
	return c.fail("expression %s", txt)
}

func (c *cg) ret(r *ast.ReturnStmt) string {
	switch c.s.mode {
	case "err":
		if len(r.Results) == 1 {
			if _, ok := r.Results[0].(*ast.CallExpr); ok {
				return c.expr(r.Results[0]) // `return f(x)` with f yielding (T, error)
			}
		}
		if len(r.Results) != 2 {
			return c.fail("return with %d results", len(r.Results))
		}
		if id, ok := r.Results[1].(*ast.Ident); ok && id.Name == "nil" {
			return "(Except.ok " + c.expr(r.Results[0]) + ")"
		}
		return "(Except.error " + c.expr(r.Results[1]) + ")"
	case "cacheq":
		// an accessor that answers from the memo it may just have filled: (memo afterwards, answer)
		if len(r.Results) != 1 {
			return c.fail("return with %d results", len(r.Results))
		}
		return "(cache, " + c.expr(r.Results[0]) + ")"
	case "errv":
		// a function that returns a plain value but stops the run (CheckErr) on an error on the way
		if len(r.Results) != 1 {
			return c.fail("return with %d results", len(r.Results))
		}
		return "(Except.ok " + c.expr(r.Results[0]) + ")"
	case "mapret":
		// a closure that returns a value and has updated the map it captured: (value, map afterwards)
		if len(r.Results) != 1 {
			return c.fail("return with %d results", len(r.Results))
		}
		return "(" + c.expr(r.Results[0]) + ", " + leanIdent(c.s.mapVar) + ")"
	case "opt":
		if len(r.Results) != 1 {
			return c.fail("return with %d results", len(r.Results))
		}
		if id, ok := r.Results[0].(*ast.Ident); ok && id.Name == "nil" {
			return "none"
		}
		return "(some " + c.expr(r.Results[0]) + ")"
	}
	if n := len(strings.Split(c.s.named, ",")); n > 1 && len(r.Results) == n {
		var es []string
		for _, e := range r.Results {
			es = append(es, c.expr(e))
		}
		return "(" + strings.Join(es, ", ") + ")"
	}
	if len(r.Results) != 1 {
		return c.fail("return with %d results", len(r.Results))
	}
	return c.expr(r.Results[0])
}

// visitLoop: `for _, d := range L { if _, seen := set[key(d)]; !seen { set[key(d)] = d; d.visit(set) } }` -
// the depth-first traversal with a visited set. The set is keyed by the entity's fully-qualified
// name, which identifies it; in Lean it is the list of visited entities. The recursive call is looked
// up in the dictionary under "visit:<method>" (the function to continue with, given fuel).
func (c *cg) visitLoop(r *ast.RangeStmt) (string, bool) {
	d, _ := r.Value.(*ast.Ident)
	if d == nil || len(r.Body.List) != 1 {
		return "", false
	}
	ifs, ok := r.Body.List[0].(*ast.IfStmt)
	if !ok || ifs.Else != nil || len(ifs.Body.List) != 2 {
		return "", false
	}
	init, ok := ifs.Init.(*ast.AssignStmt)
	if !ok || len(init.Lhs) != 2 || len(init.Rhs) != 1 || exprText(init.Lhs[0]) != "_" {
		return "", false
	}
	seen := exprText(init.Lhs[1])
	look, ok := init.Rhs[0].(*ast.IndexExpr)
	if !ok || exprText(ifs.Cond) != "!"+seen {
		return "", false
	}
	set := exprText(look.X)
	key := exprText(look.Index)
	if key != d.Name+".FullyQualifiedName()" {
		return "", false
	}
	as, ok := ifs.Body.List[0].(*ast.AssignStmt)
	if !ok || len(as.Lhs) != 1 || exprText(as.Lhs[0]) != set+"["+key+"]" || exprText(as.Rhs[0]) != d.Name {
		return "", false
	}
	es, ok := ifs.Body.List[1].(*ast.ExprStmt)
	if !ok {
		return "", false
	}
	call, ok := es.X.(*ast.CallExpr)
	if !ok || len(call.Args) != 1 || exprText(call.Args[0]) != set {
		return "", false
	}
	sel, ok := call.Fun.(*ast.SelectorExpr)
	if !ok || exprText(sel.X) != d.Name {
		return "", false
	}
	cont, ok := c.s.calls["visit:"+sel.Sel.Name]
	if !ok {
		return "", false
	}
	c.s.locals[d.Name] = true
	sv := leanIdent(set)
	dv := leanIdent(d.Name)
	return "let " + sv + " := List.foldl (fun " + sv + " " + dv + " => if List.contains " + sv + " " + dv + " then " + sv + " else " + cont + " " + dv + " (" + dv + " :: " + sv + ")) " + sv + " " + c.expr(r.X), true
}

// filterAppendLoop: `for k, v := range M { if C { acc = append(acc, v) } }` over a set keyed by name
func (c *cg) filterAppendLoop(r *ast.RangeStmt) (string, bool) {
	if len(r.Body.List) != 1 {
		return "", false
	}
	k, _ := r.Key.(*ast.Ident)
	v, _ := r.Value.(*ast.Ident)
	ifs, ok := r.Body.List[0].(*ast.IfStmt)
	if k == nil || v == nil || !ok || ifs.Init != nil || ifs.Else != nil || len(ifs.Body.List) != 1 {
		return "", false
	}
	acc, e, ok := appendOf(ifs.Body.List[0])
	if !ok || exprText(e) != v.Name {
		return "", false
	}
	pred, ok := c.s.exprs["filter:"+exprText(ifs.Cond)]
	if !ok {
		return "", false
	}
	return "let " + leanIdent(acc) + " := " + leanIdent(acc) + " ++ List.filter (fun " + leanIdent(v.Name) + " => " + pred + ") " + c.expr(r.X), true
}

// appendOf: `acc = append(acc, E)` -> (acc, E)
func appendOf(st ast.Stmt) (string, ast.Expr, bool) {
	as, ok := st.(*ast.AssignStmt)
	if !ok || len(as.Lhs) != 1 || len(as.Rhs) != 1 || as.Tok != token.ASSIGN {
		return "", nil, false
	}
	call, ok := as.Rhs[0].(*ast.CallExpr)
	if !ok || exprText(call.Fun) != "append" || len(call.Args) != 2 || call.Ellipsis.IsValid() || exprText(call.Args[0]) != exprText(as.Lhs[0]) {
		return "", nil, false
	}
	return exprText(as.Lhs[0]), call.Args[1], true
}

// mapAppendLoop: `for k, v := range M { if C { acc = append(acc, E1) } else { acc = append(acc, E2) } }`
// (or a single unconditional append): acc grows by one item per entry
func (c *cg) mapAppendLoop(r *ast.RangeStmt) (string, bool) {
	if len(r.Body.List) != 1 {
		return "", false
	}
	k, _ := r.Key.(*ast.Ident)
	v, _ := r.Value.(*ast.Ident)
	if k == nil || v == nil {
		return "", false
	}
	bind := "fun (kv_ : Pgs.Bytes × Pgs.Bytes) => let " + leanIdent(k.Name) + " := kv_.1; let " + leanIdent(v.Name) + " := kv_.2; "
	if k.Name == "_" { // the values of a set kept as a map keyed by name: the list itself
		bind = "fun " + leanIdent(v.Name) + " => "
	}
	c.s.locals[k.Name], c.s.locals[v.Name] = true, true
	switch b := r.Body.List[0].(type) {
	case *ast.IfStmt:
		blk, ok := b.Else.(*ast.BlockStmt)
		if !ok || b.Init != nil || len(b.Body.List) != 1 || len(blk.List) != 1 {
			return "", false
		}
		a1, e1, ok1 := appendOf(b.Body.List[0])
		a2, e2, ok2 := appendOf(blk.List[0])
		if !ok1 || !ok2 || a1 != a2 {
			return "", false
		}
		return "let " + leanIdent(a1) + " := " + leanIdent(a1) + " ++ List.map (" + bind + "if " + c.expr(b.Cond) + " then " + c.expr(e1) + " else " + c.expr(e2) + ") " + c.expr(r.X), true
	default:
		a1, e1, ok1 := appendOf(b)
		if !ok1 {
			return "", false
		}
		return "let " + leanIdent(a1) + " := " + leanIdent(a1) + " ++ List.map (" + bind + c.expr(e1) + ") " + c.expr(r.X), true
	}
}

// foldAssignLoop: `for _, x := range L { ...if / else... m[K] = V ... }` where the body only assigns into
// the map `mapVar`: a left fold over L
func (c *cg) foldAssignLoop(r *ast.RangeStmt) (string, bool) {
	if c.s.mapVar == "" {
		return "", false
	}
	v, _ := r.Value.(*ast.Ident)
	if v == nil {
		return "", false
	}
	c.s.locals[v.Name] = true
	var body func(list []ast.Stmt) (string, bool)
	body = func(list []ast.Stmt) (string, bool) {
		if len(list) == 0 {
			return "m_", true
		}
		switch st := list[0].(type) {
		case *ast.RangeStmt:
			// a nested loop over what an element yields, storing into the same map
			v2, _ := st.Value.(*ast.Ident)
			if v2 == nil {
				return "", false
			}
			c.s.locals[v2.Name] = true
			inner, ok := body(st.Body.List)
			if !ok {
				return "", false
			}
			restT, ok := body(list[1:])
			if !ok {
				return "", false
			}
			return "(let m_ := List.foldl (fun m_ " + leanIdent(v2.Name) + " => " + inner + ") m_ " + c.expr(st.X) + "; " + restT + ")", true
		case *ast.AssignStmt:
			ix, ok := st.Lhs[0].(*ast.IndexExpr)
			if !ok || len(st.Lhs) != 1 || len(st.Rhs) != 1 || exprText(ix.X) != c.s.mapVar || st.Tok != token.ASSIGN {
				return "", false
			}
			restT, ok := body(list[1:])
			if !ok {
				return "", false
			}
			if av, ok := c.s.calls["assignv"]; ok {
				// a map keyed by the stored entity's own name: a set of entities
				val := exprText(st.Rhs[0])
				key := exprText(ix.Index)
				if key != val+".Name().String()" && key != val+".File().Name().String()" {
					return "", false
				}
				return "(let m_ := " + av + " m_ " + c.expr(st.Rhs[0]) + "; " + restT + ")", true
			}
			return "(let m_ := " + c.s.calls["assign"] + " m_ " + c.expr(ix.Index) + " " + c.expr(st.Rhs[0]) + "; " + restT + ")", true
		case *ast.IfStmt:
			pre := ""
			if st.Init != nil {
				a, ok := st.Init.(*ast.AssignStmt)
				if !ok || len(a.Lhs) != 1 || len(a.Rhs) != 1 {
					return "", false
				}
				id, ok := a.Lhs[0].(*ast.Ident)
				if !ok {
					return "", false
				}
				rhs := c.expr(a.Rhs[0])
				c.s.locals[id.Name] = true
				if c.isInt(a.Rhs[0]) {
					c.s.ints[id.Name] = true
				}
				pre = "let " + leanIdent(id.Name) + " := " + rhs + "; "
			}
			if len(list) != 1 {
				return "", false
			}
			thenT, ok1 := body(st.Body.List)
			elseT, ok2 := "m_", true
			if blk, ok := st.Else.(*ast.BlockStmt); ok {
				elseT, ok2 = body(blk.List)
			} else if st.Else != nil {
				return "", false
			}
			if !ok1 || !ok2 {
				return "", false
			}
			return "(" + pre + "if " + c.expr(st.Cond) + " then " + thenT + " else " + elseT + ")", true
		}
		return "", false
	}
	b, ok := body(r.Body.List)
	if !ok {
		return "", false
	}
	mv := leanIdent(c.s.mapVar)
	return "let " + mv + " := List.foldl (fun m_ " + leanIdent(v.Name) + " => " + b + ") " + mv + " " + c.expr(r.X), true
}

// namedResult: what a bare `return` yields - the named result, or the tuple of the named results
func (c *cg) namedResult() string {
	ns := strings.Split(c.s.named, ",")
	if len(ns) == 1 {
		return leanIdent(ns[0])
	}
	for i := range ns {
		ns[i] = leanIdent(ns[i])
	}
	return "(" + strings.Join(ns, ", ") + ")"
}

func (c *cg) stateResult() string {
	if c.s.mode == "err" {
		return "(Except.ok files)"
	}
	if c.s.mode == "cache" {
		return "cache"
	}
	return "files"
}

// runLoop recognises the run-scanning loop of tailOfFile
func (c *cg) runLoop(f *ast.ForStmt) (string, bool) {
	init, ok := f.Init.(*ast.AssignStmt)
	if !ok || len(init.Lhs) != 1 || len(init.Rhs) != 1 || init.Tok != token.DEFINE {
		return "", false
	}
	iv, ok := init.Lhs[0].(*ast.Ident)
	start, ok2 := init.Rhs[0].(*ast.BinaryExpr)
	if !ok || !ok2 || start.Op != token.ADD || exprText(start.Y) != "1" {
		return "", false
	}
	v, ok := start.X.(*ast.Ident) // the variable that trails the index
	if !ok {
		return "", false
	}
	cond, ok := f.Cond.(*ast.BinaryExpr)
	if !ok || cond.Op != token.LSS || exprText(cond.X) != iv.Name {
		return "", false
	}
	lenCall, ok := cond.Y.(*ast.CallExpr)
	if !ok || exprText(lenCall.Fun) != "len" || len(lenCall.Args) != 1 {
		return "", false
	}
	lst := lenCall.Args[0]
	if inc, ok := f.Post.(*ast.IncDecStmt); !ok || inc.Tok != token.INC || exprText(inc.X) != iv.Name {
		return "", false
	}
	if len(f.Body.List) != 2 {
		return "", false
	}
	brk, ok := f.Body.List[0].(*ast.IfStmt)
	if !ok || brk.Init != nil || brk.Else != nil || len(brk.Body.List) != 1 {
		return "", false
	}
	if b, ok := brk.Body.List[0].(*ast.BranchStmt); !ok || b.Tok != token.BREAK {
		return "", false
	}
	as, ok := f.Body.List[1].(*ast.AssignStmt)
	if !ok || len(as.Lhs) != 1 || exprText(as.Lhs[0]) != v.Name || exprText(as.Rhs[0]) != iv.Name || as.Tok != token.ASSIGN {
		return "", false
	}
	// the break condition speaks of L[i]: read it as a predicate of the element
	elem := exprText(lst) + "[" + iv.Name + "]"
	saved, had := c.s.exprs[elem]
	c.s.exprs[elem] = "x_"
	// method calls on the element, e.g. f[i].GetName(), are looked up with the element substituted
	pred := c.elemPred(brk.Cond, elem)
	if had {
		c.s.exprs[elem] = saved
	} else {
		delete(c.s.exprs, elem)
	}
	l := c.expr(lst)
	vn := leanIdent(v.Name)
	return "let " + vn + " := " + vn + " + Int.ofNat (List.length (List.takeWhile (fun x_ => !" + pred + ") (List.drop (Int.toNat (" + vn + " + 1)) " + l + ")))", true
}

// mapIdxLoop: `for i, p := range L { if C(i) { L[i] = E1(p) } else { L[i] = E2(p) } }` - every element of the
// local list L replaced by a function of its position and itself (the element read is the one not yet replaced)
func (c *cg) mapIdxLoop(r *ast.RangeStmt) (string, bool) {
	i, ok1 := r.Key.(*ast.Ident)
	p, ok2 := r.Value.(*ast.Ident)
	l, ok3 := r.X.(*ast.Ident)
	if !ok1 || !ok2 || !ok3 || !c.s.locals[l.Name] || len(r.Body.List) != 1 {
		return "", false
	}
	ifs, ok := r.Body.List[0].(*ast.IfStmt)
	if !ok || ifs.Init != nil {
		return "", false
	}
	els, ok := ifs.Else.(*ast.BlockStmt)
	if !ok {
		return "", false
	}
	store := func(b *ast.BlockStmt) ast.Expr {
		if len(b.List) != 1 {
			return nil
		}
		as, ok := b.List[0].(*ast.AssignStmt)
		if !ok || as.Tok != token.ASSIGN || len(as.Lhs) != 1 || len(as.Rhs) != 1 || exprText(as.Lhs[0]) != l.Name+"["+i.Name+"]" {
			return nil
		}
		return as.Rhs[0]
	}
	e1, e2 := store(ifs.Body), store(els)
	if e1 == nil || e2 == nil {
		return "", false
	}
	if c.s.ints == nil {
		c.s.ints = map[string]bool{}
	}
	c.s.locals[i.Name], c.s.locals[p.Name], c.s.ints[i.Name] = true, true, true
	ln, in, pn := leanIdent(l.Name), leanIdent(i.Name), leanIdent(p.Name)
	return "let " + ln + " := List.mapIdx (fun idx_ " + pn + " => let " + in + " : Int := Int.ofNat idx_; if " + c.expr(ifs.Cond) + " then " + c.expr(e1) + " else " + c.expr(e2) + ") " + ln, true
}

// stateLoop: `for _, x := range L { ...statements updating the locals listed in loopVars... }` - a left
// fold over L whose state is the tuple of those locals
func (c *cg) stateLoop(r *ast.RangeStmt) (string, bool) {
	if len(c.s.loopVars) == 0 {
		return "", false
	}
	x, ok := r.Value.(*ast.Ident)
	if !ok {
		// `for k := range M`: the keys of a map the dictionary lists (in the order it lists them: the body must not depend on it)
		k, isK := r.Key.(*ast.Ident)
		if r.Value != nil || !isK {
			return "", false
		}
		x = k
	} else if k, ok := r.Key.(*ast.Ident); r.Key != nil && (!ok || k.Name != "_") {
		return "", false
	}
	for _, v := range c.s.loopVars {
		if !c.s.locals[v] {
			return "", false
		}
	}
	l := c.expr(r.X)
	c.s.locals[x.Name] = true
	tup := c.tuple()
	body := c.block(r.Body.List, "    ")
	if c.s.loopType != "" {
		// the loop body as a definition of its own, over the function's parameters
		var names []string
		for _, m := range regexp.MustCompile(`\(([^:()]+):`).FindAllStringSubmatch(c.s.binders, -1) {
			names = append(names, strings.Fields(m[1])...)
		}
		name := fmt.Sprintf("%s_step%d", c.s.lean, len(c.s.aux)+1)
		elem := c.s.loopElem
		if es := strings.Split(c.s.loopElem, ","); len(es) > 1 && len(c.s.aux) < len(es) {
			elem = es[len(c.s.aux)] // one element type per loop, in source order
		}
		c.s.aux = append(c.s.aux, fmt.Sprintf("/-- %s: one round of the loop over `%s` in `%s` -/\ndef %s %s (st_ : %s) (%s : %s) : %s :=\n  match st_ with\n  | %s =>\n%s\n",
			c.s.file, exprText(r.X), c.s.name, name, c.s.binders, c.s.loopType, leanIdent(x.Name), elem, c.s.loopType, tup, body))
		return "let " + tup + " := List.foldl (" + name + " " + strings.Join(names, " ") + ") " + tup + " " + l, true
	}
	return "let " + tup + " := List.foldl (fun " + tup + " " + leanIdent(x.Name) + " =>\n" + body + ") " + tup + " " + l, true
}

func (c *cg) tuple() string {
	var vs []string
	for _, v := range c.s.loopVars {
		vs = append(vs, leanIdent(v))
	}
	return "(" + strings.Join(vs, ", ") + ")"
}

// block translates statements that only update the loop's state variables (and locals of their own)
// into a term yielding the tuple of the state variables afterwards
func (c *cg) block(list []ast.Stmt, ind string) string {
	if len(list) == 0 {
		return ind + c.tuple()
	}
	rest := func() string { return c.block(list[1:], ind) }
	switch s := list[0].(type) {
	case *ast.RangeStmt:
		// a loop inside the loop, over the same state
		if out, ok := c.stateLoop(s); ok {
			return ind + out + "\n" + rest()
		}
		return ind + c.fail("inner range loop of an unknown shape")
	case *ast.AssignStmt:
		if len(s.Lhs) == 2 && len(s.Rhs) == 2 && s.Tok == token.ASSIGN {
			a, ok1 := s.Lhs[0].(*ast.Ident)
			b, ok2 := s.Lhs[1].(*ast.Ident)
			if ok1 && ok2 {
				e1, e2 := c.expr(s.Rhs[0]), c.expr(s.Rhs[1])
				return ind + "let (" + leanIdent(a.Name) + ", " + leanIdent(b.Name) + ") := (" + e1 + ", " + e2 + ")\n" + rest()
			}
		}
		if len(s.Lhs) == 2 && len(s.Rhs) == 1 && exprText(s.Lhs[1]) == "_" {
			if x, ok := s.Lhs[0].(*ast.Ident); ok {
				rhs := c.expr(s.Rhs[0])
				c.s.locals[x.Name] = true
				return ind + "let " + leanIdent(x.Name) + " := " + rhs + ".1\n" + rest()
			}
		}
		if len(s.Lhs) != 1 || len(s.Rhs) != 1 || (s.Tok != token.ASSIGN && s.Tok != token.DEFINE) {
			return ind + c.fail("assignment in a loop body")
		}
		if ix, ok := s.Lhs[0].(*ast.IndexExpr); ok && s.Tok == token.ASSIGN {
			// `m[k] = E` on a map the dictionary knows how to update; E may be a call of a closure that
			// also updates a state variable ("st:<closure>" = the translated closure applied to that state, "stvar:<closure>" = the variable)
			if f, ok := c.s.calls["set:"+exprText(ix.X)]; ok {
				m := c.expr(ix.X)
				key := c.expr(ix.Index)
				if call, isCall := s.Rhs[0].(*ast.CallExpr); isCall {
					if g, ok := c.s.calls["st:"+exprText(call.Fun)]; ok {
						var args []string
						for _, a := range call.Args {
							args = append(args, c.expr(a))
						}
						sv := leanIdent(c.s.calls["stvar:"+exprText(call.Fun)])
						return ind + "let (v_, " + sv + ") := (" + g + " " + strings.Join(args, " ") + ")\n" + ind + "let " + m + " := (" + f + " " + m + " " + key + " v_)\n" + rest()
					}
				}
				return ind + "let " + m + " := (" + f + " " + m + " " + key + " " + c.expr(s.Rhs[0]) + ")\n" + rest()
			}
		}
		id, ok := s.Lhs[0].(*ast.Ident)
		if !ok {
			return ind + c.fail("assignment to %s in a loop body", exprText(s.Lhs[0]))
		}
		rhs := c.expr(s.Rhs[0])
		c.s.locals[id.Name] = true
		return ind + "let " + leanIdent(id.Name) + " := " + rhs + "\n" + rest()
	case *ast.ExprStmt:
		// v.M(args): a method that updates the state variable v ("meth:v.M" in the dictionary)
		if call, ok := s.X.(*ast.CallExpr); ok {
			if sel, ok := call.Fun.(*ast.SelectorExpr); ok {
				if f, ok := c.s.calls["meth:"+exprText(call.Fun)]; ok {
					v := c.expr(sel.X)
					args := []string{v}
					for _, a := range call.Args {
						args = append(args, c.expr(a))
					}
					return ind + "let " + v + " := (" + f + " " + strings.Join(args, " ") + ")\n" + rest()
				}
			}
		}
		return ind + c.fail("statement %s in a loop body", exprText(s.X))
	case *ast.IfStmt:
		pre := ""
		if s.Init != nil {
			a, ok := s.Init.(*ast.AssignStmt)
			if !ok || len(a.Lhs) != 1 || len(a.Rhs) != 1 {
				return ind + c.fail("if-init statement in a loop body")
			}
			id, ok := a.Lhs[0].(*ast.Ident)
			if !ok {
				return ind + c.fail("if-init statement in a loop body")
			}
			rhs := c.expr(a.Rhs[0])
			c.s.locals[id.Name] = true
			pre = "let " + leanIdent(id.Name) + " := " + rhs + "; "
		}
		cond := c.expr(s.Cond)
		thenT := c.block(s.Body.List, ind+"    ")
		var elseT string
		switch e := s.Else.(type) {
		case nil:
			elseT = ind + "    " + c.tuple()
		case *ast.BlockStmt:
			elseT = c.block(e.List, ind+"    ")
		case *ast.IfStmt:
			elseT = c.block([]ast.Stmt{e}, ind+"    ")
		default:
			return ind + c.fail("else branch")
		}
		return ind + "let " + c.tuple() + " := (" + pre + "if " + cond + " then\n" + thenT + "\n" + ind + "  else\n" + elseT + ")\n" + rest()
	}
	return ind + c.fail("statement of kind %T in a loop body", list[0])
}

// whileState: `for v := E; COND; { ...statements updating the locals listed in loopVars... }` - a loop that runs
// while COND holds, over the tuple of those locals; the rounds it may take come from the `fuel_` parameter
func (c *cg) whileState(f *ast.ForStmt) (string, bool) {
	if len(c.s.loopVars) == 0 || f.Post != nil || f.Cond == nil {
		return "", false
	}
	pre := ""
	if f.Init != nil {
		a, ok := f.Init.(*ast.AssignStmt)
		if !ok || len(a.Lhs) != 1 || len(a.Rhs) != 1 || a.Tok != token.DEFINE {
			return "", false
		}
		id, ok := a.Lhs[0].(*ast.Ident)
		if !ok {
			return "", false
		}
		rhs := c.expr(a.Rhs[0])
		c.s.locals[id.Name] = true
		pre = "let " + leanIdent(id.Name) + " := " + rhs + "; "
	}
	for _, v := range c.s.loopVars {
		if !c.s.locals[v] {
			return "", false
		}
	}
	tup := c.tuple()
	cond := c.expr(f.Cond)
	body := c.block(f.Body.List, "    ")
	if c.s.loopType == "" {
		return pre + "let " + tup + " := whileFuel (fun " + tup + " => " + cond + ") (fun " + tup + " =>\n" + body + ") fuel_ " + tup, true
	}
	var names []string
	for _, m := range regexp.MustCompile(`\(([^:()]+):`).FindAllStringSubmatch(c.s.binders, -1) {
		names = append(names, strings.Fields(m[1])...)
	}
	name := fmt.Sprintf("%s_step%d", c.s.lean, len(c.s.aux)+1)
	c.s.aux = append(c.s.aux, fmt.Sprintf("/-- %s: one round of the `for %s` loop of `%s` -/\ndef %s %s (st_ : %s) : %s :=\n  match st_ with\n  | %s =>\n%s\n",
		c.s.file, exprText(f.Cond), c.s.name, name, c.s.binders, c.s.loopType, c.s.loopType, tup, body))
	return pre + "let " + tup + " := whileFuel (fun " + tup + " => " + cond + ") (" + name + " " + strings.Join(names, " ") + ") fuel_ " + tup, true
}

// foldErrLoop: `for _, x := range L { if C(x) { v, err = F(x, v); p.CheckErr(err, ...) } }` - a fold over L
// that threads v through the elements satisfying C and stops the run at the first error
func (c *cg) foldErrLoop(r *ast.RangeStmt) (string, string, bool) {
	x, ok := r.Value.(*ast.Ident)
	if !ok || len(r.Body.List) != 1 || (c.s.mode != "errv" && c.s.mode != "err") {
		return "", "", false
	}
	ifs, ok := r.Body.List[0].(*ast.IfStmt)
	if !ok || ifs.Init != nil || ifs.Else != nil || len(ifs.Body.List) != 2 {
		return "", "", false
	}
	as, ok := ifs.Body.List[0].(*ast.AssignStmt)
	if !ok || as.Tok != token.ASSIGN || len(as.Lhs) != 2 || len(as.Rhs) != 1 || exprText(as.Lhs[1]) != "err" {
		return "", "", false
	}
	v, ok := as.Lhs[0].(*ast.Ident)
	if !ok || !c.s.locals[v.Name] {
		return "", "", false
	}
	chk, ok := ifs.Body.List[1].(*ast.ExprStmt)
	if !ok {
		return "", "", false
	}
	call, ok := chk.X.(*ast.CallExpr)
	if !ok || !strings.HasSuffix(exprText(call.Fun), ".CheckErr") || len(call.Args) < 1 || exprText(call.Args[0]) != "err" {
		return "", "", false
	}
	l := c.expr(r.X)
	c.s.locals[x.Name] = true
	vn, xn := leanIdent(v.Name), leanIdent(x.Name)
	cond := c.expr(ifs.Cond)
	step := c.expr(as.Rhs[0])
	return "match List.foldlM (fun " + vn + " " + xn + " => if " + cond + " then " + step + " else (Except.ok " + vn + ")) " + vn + " " + l + " with", vn, true
}

// whileLoop: `for COND { v += E }` / `for COND { v = E }` - a loop whose whole state is the one local
// it updates.  Go runs it until COND fails; the translation takes the number of rounds it may run from
// the function's `fuel_` parameter (the tie theorems supply enough).
func (c *cg) whileLoop(f *ast.ForStmt) (string, bool) {
	if f.Init != nil || f.Post != nil || f.Cond == nil || len(f.Body.List) != 1 {
		return "", false
	}
	as, ok := f.Body.List[0].(*ast.AssignStmt)
	if !ok || len(as.Lhs) != 1 || len(as.Rhs) != 1 {
		return "", false
	}
	v, ok := as.Lhs[0].(*ast.Ident)
	if !ok || !(c.s.locals[v.Name] || c.s.exprs[v.Name] == leanIdent(v.Name)) {
		return "", false
	}
	var next string
	switch as.Tok {
	case token.ASSIGN:
		next = c.expr(as.Rhs[0])
	case token.ADD_ASSIGN:
		next = c.expr(&ast.BinaryExpr{X: v, Op: token.ADD, Y: as.Rhs[0]})
	default:
		return "", false
	}
	vn := leanIdent(v.Name)
	return "let " + vn + " := whileFuel (fun " + vn + " => " + c.expr(f.Cond) + ") (fun " + vn + " => " + next + ") fuel_ " + vn, true
}

// elemPred translates a condition about the loop's current element `elem` (text, e.g. "f[i]"):
// calls `elem.M()` are looked up in the dictionary under "elem.M()" with elem written as `$x`
func (c *cg) elemPred(e ast.Expr, elem string) string {
	saved := map[string]string{}
	for k, v := range c.s.exprs {
		if strings.Contains(k, "$x") {
			nk := strings.ReplaceAll(k, "$x", elem)
			saved[nk] = v
		}
	}
	for k, v := range saved {
		c.s.exprs[k] = v
	}
	out := c.expr(e)
	for k := range saved {
		delete(c.s.exprs, k)
	}
	return out
}

func (c *cg) assign(a *ast.AssignStmt, rest string, ind string) string {
	if len(a.Lhs) != 1 || len(a.Rhs) != 1 {
		return c.fail("multi-assignment")
	}
	id, ok := a.Lhs[0].(*ast.Ident)
	if !ok || (a.Tok != token.DEFINE && a.Tok != token.ASSIGN) {
		return c.fail("assignment to %s", exprText(a.Lhs[0]))
	}
	rhs := c.expr(a.Rhs[0])
	c.s.locals[id.Name] = true
	return ind + "let " + id.Name + " := " + rhs + "\n" + rest
}

// stmts translates a statement list followed by the continuation `k` (what runs if the list falls
// off its end; nil = falling off is an error). The result is a Lean term, indented by `ind`.
func (c *cg) stmts(list []ast.Stmt, k func(ind string) string, ind string) string {
	if len(list) == 0 {
		if k == nil {
			if c.s.state != "" {
				return ind + c.stateResult()
			}
			return ind + c.fail("control reaches the end of the function without a return")
		}
		return k(ind)
	}
	rest := func(i string) string { return c.stmts(list[1:], k, i) }
	switch s := list[0].(type) {
	case *ast.ReturnStmt:
		if c.s.state != "" && len(s.Results) == 0 {
			return ind + c.stateResult()
		}
		if c.s.named != "" && len(s.Results) == 0 {
			return ind + c.namedResult()
		}
		return ind + c.ret(s)
	case *ast.RangeStmt:
		// `for i, x := range L { if C { return E } }`: the first element satisfying C, if any
		if len(s.Body.List) == 1 {
			if ifs, ok := s.Body.List[0].(*ast.IfStmt); ok && ifs.Init == nil && ifs.Else == nil && len(ifs.Body.List) == 1 {
				if ret, ok := ifs.Body.List[0].(*ast.ReturnStmt); ok {
					key, _ := s.Key.(*ast.Ident)
					val, _ := s.Value.(*ast.Ident)
					if key != nil && val != nil {
						l := c.expr(s.X)
						c.s.locals[val.Name] = true
						c.s.locals[key.Name] = true
						if c.s.ints == nil {
							c.s.ints = map[string]bool{}
						}
						c.s.ints[key.Name] = true
						cond := c.expr(ifs.Cond)
						hit := c.ret(ret)
						return ind + "match List.findIdx? (fun " + leanIdent(val.Name) + " => " + cond + ") " + l + " with\n" +
							ind + "| some idx_ =>\n" + ind + "  let " + leanIdent(key.Name) + " : Int := Int.ofNat idx_\n" + ind + "  " + hit + "\n" +
							ind + "| none =>\n" + rest(ind+"  ")
					}
				}
			}
		}
		if out, ok := c.visitLoop(s); ok {
			return ind + out + "\n" + rest(ind)
		}
		if out, ok := c.filterAppendLoop(s); ok {
			return ind + out + "\n" + rest(ind)
		}
		if out, ok := c.mapAppendLoop(s); ok {
			return ind + out + "\n" + rest(ind)
		}
		if out, ok := c.foldAssignLoop(s); ok {
			return ind + out + "\n" + rest(ind)
		}
		// `for _, x := range L { if v := E(x); C(v) { return R } }`: the first element whose E satisfies C, if any
		if len(s.Body.List) == 1 && s.Value != nil {
			if ifs, ok := s.Body.List[0].(*ast.IfStmt); ok && ifs.Init != nil && ifs.Else == nil && len(ifs.Body.List) == 1 {
				ret, isRet := ifs.Body.List[0].(*ast.ReturnStmt)
				a, isAs := ifs.Init.(*ast.AssignStmt)
				val, isId := s.Value.(*ast.Ident)
				if k, isK := s.Key.(*ast.Ident); isRet && isAs && isId && (s.Key == nil || (isK && k.Name == "_")) && len(a.Lhs) == 1 && len(a.Rhs) == 1 {
					if v, ok := a.Lhs[0].(*ast.Ident); ok {
						l := c.expr(s.X)
						c.s.locals[val.Name] = true
						e := c.expr(a.Rhs[0])
						c.s.locals[v.Name] = true
						cond := c.expr(ifs.Cond)
						hit := c.ret(ret)
						return ind + "match List.find? (fun " + leanIdent(val.Name) + " => let " + leanIdent(v.Name) + " := " + e + "; " + cond + ") " + l + " with\n" +
							ind + "| some " + leanIdent(val.Name) + " =>\n" + ind + "  let " + leanIdent(v.Name) + " := " + e + "\n" + ind + "  " + hit + "\n" +
							ind + "| none =>\n" + rest(ind+"  ")
					}
				}
			}
		}
		if out, ok := c.mapIdxLoop(s); ok {
			return ind + out + "\n" + rest(ind)
		}
		if out, ok := c.stateLoop(s); ok {
			return ind + out + "\n" + rest(ind)
		}
		if head, v, ok := c.foldErrLoop(s); ok {
			return ind + head + "\n" + ind + "| .error err => (Except.error err)\n" + ind + "| .ok " + v + " =>\n" + rest(ind+"  ")
		}
		return ind + c.fail("range loop of an unknown shape")
	case *ast.ForStmt:
		// `for i := E + 1; i < len(L); i++ { if C(L[i]) { break }; V = i }`: V advances over the run of
		// elements after position E for which C is false (V = E before the loop)
		if out, ok := c.runLoop(s); ok {
			return ind + out + "\n" + rest(ind)
		}
		if out, ok := c.whileLoop(s); ok {
			return ind + out + "\n" + rest(ind)
		}
		if out, ok := c.whileState(s); ok {
			return ind + out + "\n" + rest(ind)
		}
		return ind + c.fail("for loop of an unknown shape")
	case *ast.AssignStmt:
		// `x, err := q(state, args...)` with q a query of the state (no faults in the model)
		if c.s.state != "" && len(s.Lhs) == 2 && len(s.Rhs) == 1 && exprText(s.Lhs[1]) == "err" {
			if inner, ok := s.Rhs[0].(*ast.CallExpr); ok {
				if f, ok := c.s.calls["qry:"+exprText(inner.Fun)]; ok {
					if x, ok := s.Lhs[0].(*ast.Ident); ok {
						var args []string
						for _, a := range inner.Args {
							if exprText(a) == c.s.state {
								continue
							}
							args = append(args, c.expr(a))
						}
						c.s.locals[x.Name] = true
						return ind + "let " + leanIdent(x.Name) + " := " + f + " files " + strings.Join(args, " ") + "\n" + rest(ind)
					}
				}
			}
		}
		// `x, err := call; return f(x), err`: the call's result with f applied to the value
		if len(s.Lhs) == 2 && len(s.Rhs) == 1 && exprText(s.Lhs[1]) == "err" && len(list) == 2 && c.s.mode == "err" {
			if ret, ok := list[1].(*ast.ReturnStmt); ok && len(ret.Results) == 2 && exprText(ret.Results[1]) == "err" {
				if x, ok := s.Lhs[0].(*ast.Ident); ok {
					call := c.expr(s.Rhs[0])
					c.s.locals[x.Name] = true
					return ind + "match " + call + " with\n" + ind + "| .error err => (Except.error err)\n" + ind + "| .ok " + leanIdent(x.Name) + " => (Except.ok " + c.expr(ret.Results[0]) + ")"
				}
			}
		}
		// `x, err := call` followed by `if err != nil { ... }`: a match on the call's result
		if len(s.Lhs) == 2 && len(s.Rhs) == 1 && exprText(s.Lhs[1]) == "err" && len(list) > 1 {
			if ifs, ok := list[1].(*ast.IfStmt); ok && ifs.Init == nil && ifs.Else == nil && exprText(ifs.Cond) == "err != nil" {
				x, ok := s.Lhs[0].(*ast.Ident)
				if !ok {
					return ind + c.fail("assignment to %s", exprText(s.Lhs[0]))
				}
				call := c.expr(s.Rhs[0])
				c.s.locals["err"] = true
				errT := c.stmts(ifs.Body.List, nil, ind+"  ")
				c.s.locals[x.Name] = true
				okT := c.stmts(list[2:], k, ind+"  ")
				return ind + "match " + call + " with\n" + ind + "| .error err =>\n" + errT + "\n" + ind + "| .ok " + leanIdent(x.Name) + " =>\n" + okT
			}
		}
		// the list a void function updates in place
		if c.s.state != "" && len(s.Lhs) == 1 && len(s.Rhs) == 1 && s.Tok == token.ASSIGN {
			if exprText(s.Lhs[0]) == c.s.state {
				if c.s.mode == "cache" { // the memo is a pointer-like field: assigning a value fills it
					return ind + "let cache := some " + c.expr(s.Rhs[0]) + "\n" + rest(ind)
				}
				return ind + "let files := " + c.expr(s.Rhs[0]) + "\n" + rest(ind)
			}
			if ix, ok := s.Lhs[0].(*ast.IndexExpr); ok && exprText(ix.X) == c.s.state {
				return ind + "let files := List.set files (Int.toNat " + c.expr(ix.Index) + ") " + c.expr(s.Rhs[0]) + "\n" + rest(ind)
			}
		}
		// `m[k] = v` on a map the dictionary knows how to update ("set:m")
		if len(s.Lhs) == 1 && len(s.Rhs) == 1 && s.Tok == token.ASSIGN {
			if ix, ok := s.Lhs[0].(*ast.IndexExpr); ok {
				if f, ok := c.s.calls["set:"+exprText(ix.X)]; ok {
					m := c.expr(ix.X)
					return ind + "let " + m + " := (" + f + " " + m + " " + c.expr(ix.Index) + " " + c.expr(s.Rhs[0]) + ")\n" + rest(ind)
				}
			}
		}
		// `f := func(...) {...}`: a closure translated on its own ("st:f" in the dictionary)
		if len(s.Lhs) == 1 && len(s.Rhs) == 1 {
			if _, isLit := s.Rhs[0].(*ast.FuncLit); isLit {
				if _, ok := c.s.calls["st:"+exprText(s.Lhs[0])]; ok {
					return rest(ind)
				}
			}
		}
		// `a, b = e1, e2`: both right-hand sides are read before either variable changes
		if len(s.Lhs) == 2 && len(s.Rhs) == 2 {
			a, ok1 := s.Lhs[0].(*ast.Ident)
			b, ok2 := s.Lhs[1].(*ast.Ident)
			if ok1 && ok2 {
				e1, e2 := c.expr(s.Rhs[0]), c.expr(s.Rhs[1])
				c.s.locals[a.Name], c.s.locals[b.Name] = true, true
				return ind + "let (" + leanIdent(a.Name) + ", " + leanIdent(b.Name) + ") := (" + e1 + ", " + e2 + ")\n" + rest(ind)
			}
		}
		// `_, x := call`: the second component of the pair the call yields
		if len(s.Lhs) == 2 && len(s.Rhs) == 1 && exprText(s.Lhs[0]) == "_" {
			if x, ok := s.Lhs[1].(*ast.Ident); ok {
				rhs := c.expr(s.Rhs[0])
				c.s.locals[x.Name] = true
				return ind + "let " + leanIdent(x.Name) + " := " + rhs + ".2\n" + rest(ind)
			}
		}
		// `x, _ := call`: the first component of the pair the call yields
		if len(s.Lhs) == 2 && len(s.Rhs) == 1 && exprText(s.Lhs[1]) == "_" {
			if x, ok := s.Lhs[0].(*ast.Ident); ok {
				rhs := c.expr(s.Rhs[0])
				c.s.locals[x.Name] = true
				return ind + "let " + leanIdent(x.Name) + " := " + rhs + ".1\n" + rest(ind)
			}
		}
		// the let scopes over the continuation, so translate the rhs first, then the rest
		if len(s.Lhs) != 1 || len(s.Rhs) != 1 {
			return ind + c.fail("multi-assignment")
		}
		id, ok := s.Lhs[0].(*ast.Ident)
		if !ok {
			return ind + c.fail("assignment to %s", exprText(s.Lhs[0]))
		}
		rhs := c.expr(s.Rhs[0])
		c.s.locals[id.Name] = true
		if c.isInt(s.Rhs[0]) {
			c.s.ints[id.Name] = true
		}
		return ind + "let " + leanIdent(id.Name) + " := " + rhs + "\n" + rest(ind)
	case *ast.DeclStmt:
		// `var x T`: the zero value is never read in the functions translated; the name becomes a local
		if gd, ok := s.Decl.(*ast.GenDecl); ok && gd.Tok == token.VAR {
			pre := ""
			for _, sp := range gd.Specs {
				vs := sp.(*ast.ValueSpec)
				if len(vs.Values) != 0 {
					return ind + c.fail("var with initialiser")
				}
				if exprText(vs.Type) == "bool" { // `var a, b bool`: false until assigned
					for _, n := range vs.Names {
						c.s.locals[n.Name] = true
						pre += ind + "let " + leanIdent(n.Name) + " := false\n"
					}
				}
			}
			return pre + rest(ind)
		}
		return ind + c.fail("declaration")
	case *ast.ExprStmt:
		// m.populateCache(): a call that updates the memo (the state)
		if call, ok := s.X.(*ast.CallExpr); ok && len(call.Args) == 0 {
			if f, ok := c.s.calls["updstate:"+exprText(call.Fun)]; ok {
				return ind + "let cache := " + f + " cache\n" + rest(ind)
			}
		}
		// x.walk(set): a call that fills the local set it is handed
		if call, ok := s.X.(*ast.CallExpr); ok && len(call.Args) == 1 {
			if f, ok := c.s.calls["upd:"+exprText(call.Fun)]; ok {
				if id, ok := call.Args[0].(*ast.Ident); ok && c.s.locals[id.Name] {
					return ind + "let " + leanIdent(id.Name) + " := " + f + " " + leanIdent(id.Name) + "\n" + rest(ind)
				}
			}
		}
		// sort.Strings(x): x sorted in place
		if call, ok := s.X.(*ast.CallExpr); ok && exprText(call.Fun) == "sort.Strings" && len(call.Args) == 1 {
			if id, ok := call.Args[0].(*ast.Ident); ok && c.s.locals[id.Name] {
				return ind + "let " + leanIdent(id.Name) + " := " + c.s.calls["sort.Strings"] + " " + leanIdent(id.Name) + "\n" + rest(ind)
			}
		}
		// p.CheckErr(f(state, args...), msg...) where f updates the state (no faults in the model: the error is nil);
		// p.CheckErr(err, msg...) on an error variable: nothing
		if call, ok := s.X.(*ast.CallExpr); ok && c.s.state != "" && strings.HasSuffix(exprText(call.Fun), ".CheckErr") && len(call.Args) >= 1 {
			if id, ok := call.Args[0].(*ast.Ident); ok && id.Name == "err" {
				return rest(ind)
			}
			if inner, ok := call.Args[0].(*ast.CallExpr); ok {
				if f, ok := c.s.calls["upd:"+exprText(inner.Fun)]; ok {
					var args []string
					for _, a := range inner.Args {
						if exprText(a) == c.s.state {
							continue // the state itself, passed explicitly (afero.WriteFile(p.fs, ...))
						}
						args = append(args, c.expr(a))
					}
					return ind + "let files := " + f + " files " + strings.Join(args, " ") + "\n" + rest(ind)
				}
			}
		}
		// p.Assert(cond, msg...): fail-stop unless cond
		if call, ok := s.X.(*ast.CallExpr); ok && c.s.mode == "err" && strings.HasSuffix(exprText(call.Fun), ".Assert") && len(call.Args) >= 1 {
			return ind + "if " + c.expr(call.Args[0]) + " then\n" + rest(ind+"  ") + "\n" + ind + "else\n" + ind + "  (Except.error ([97, 115, 115, 101, 114, 116] : Pgs.Bytes))"
		}
		txt := exprText(s.X)
		for _, p := range c.s.ignore {
			if strings.HasPrefix(txt, p) {
				return rest(ind)
			}
		}
		return ind + c.fail("statement %s", txt)
	case *ast.IfStmt:
		if a, ok := s.Init.(*ast.AssignStmt); ok && len(a.Lhs) == 2 && len(a.Rhs) == 1 && exprText(a.Lhs[1]) == "err" &&
			exprText(s.Cond) == "err != nil" && s.Else == nil {
			x, ok := a.Lhs[0].(*ast.Ident)
			if !ok {
				return ind + c.fail("if-init statement")
			}
			call := c.expr(a.Rhs[0])
			c.s.locals["err"] = true
			errT := c.stmts(s.Body.List, nil, ind+"  ")
			name := "_"
			if x.Name != "_" {
				name = leanIdent(x.Name) // scoped to the if statement in Go; not used after it
			}
			return ind + "match " + call + " with\n" + ind + "| .error err =>\n" + errT + "\n" + ind + "| .ok " + name + " =>\n" + rest(ind+"  ")
		}
		// `if v, ok := m[k]; ok { ... }`: a match on the lookup
		if a, ok := s.Init.(*ast.AssignStmt); ok && len(a.Lhs) == 2 && len(a.Rhs) == 1 && s.Else == nil {
			if ix, isIx := a.Rhs[0].(*ast.IndexExpr); isIx {
				// `if v, ok := m[k]; ok && C { ... }`: the lookup, then C
				if be, isB := s.Cond.(*ast.BinaryExpr); isB && be.Op == token.LAND && exprText(be.X) == exprText(a.Lhs[1]) {
					v, ok := a.Lhs[0].(*ast.Ident)
					look, ok2 := c.s.calls["index"]
					if !ok || !ok2 {
						return ind + c.fail("map lookup")
					}
					call := "(" + look + " " + c.expr(ix.X) + " " + c.expr(ix.Index) + ")"
					c.s.locals[v.Name] = true
					cond := c.expr(be.Y)
					thenT := c.stmts(s.Body.List, rest, ind+"    ")
					return ind + "match " + call + " with\n" + ind + "| some " + leanIdent(v.Name) + " =>\n" + ind + "  if " + cond + " then\n" + thenT + "\n" + ind + "  else\n" + rest(ind+"    ") + "\n" + ind + "| none =>\n" + rest(ind+"  ")
				}
			}
			if ix, isIx := a.Rhs[0].(*ast.IndexExpr); isIx && exprText(s.Cond) == exprText(a.Lhs[1]) {
				v, ok := a.Lhs[0].(*ast.Ident)
				look, ok2 := c.s.calls["index"]
				if !ok || !ok2 {
					return ind + c.fail("map lookup")
				}
				call := "(" + look + " " + c.expr(ix.X) + " " + c.expr(ix.Index) + ")"
				c.s.locals[v.Name] = true
				thenT := c.stmts(s.Body.List, rest, ind+"  ")
				return ind + "match " + call + " with\n" + ind + "| some " + leanIdent(v.Name) + " =>\n" + thenT + "\n" + ind + "| none =>\n" + rest(ind+"  ")
			}
		}
		pre := ""
		if a, ok := s.Init.(*ast.AssignStmt); ok && len(a.Lhs) == 2 && len(a.Rhs) == 1 && exprText(a.Lhs[1]) == "_" {
			// `if x, _ := call; cond`: the first component of the pair
			id, ok := a.Lhs[0].(*ast.Ident)
			if !ok {
				return ind + c.fail("if-init statement")
			}
			rhs := c.expr(a.Rhs[0])
			c.s.locals[id.Name] = true
			pre = ind + "let " + leanIdent(id.Name) + " := " + rhs + ".1\n"
		} else if s.Init != nil {
			a, ok := s.Init.(*ast.AssignStmt)
			if !ok || len(a.Lhs) != 1 || len(a.Rhs) != 1 {
				return ind + c.fail("if-init statement")
			}
			id, ok := a.Lhs[0].(*ast.Ident)
			if !ok {
				return ind + c.fail("if-init statement")
			}
			rhs := c.expr(a.Rhs[0])
			c.s.locals[id.Name] = true
			if c.isInt(a.Rhs[0]) {
				c.s.ints[id.Name] = true
			}
			pre = ind + "let " + leanIdent(id.Name) + " := " + rhs + "\n"
		}
		cond := c.expr(s.Cond)
		thenT := c.stmts(s.Body.List, rest, ind+"  ")
		var elseT string
		switch e := s.Else.(type) {
		case nil:
			elseT = rest(ind + "  ")
		case *ast.BlockStmt:
			elseT = c.stmts(e.List, rest, ind+"  ")
		case *ast.IfStmt:
			elseT = c.stmts([]ast.Stmt{e}, rest, ind+"  ")
		default:
			return ind + c.fail("else branch")
		}
		return pre + ind + "if " + cond + " then\n" + thenT + "\n" + ind + "else\n" + elseT
	case *ast.SwitchStmt:
		if s.Init != nil {
			return ind + c.fail("switch with init")
		}
		tag := ""
		if s.Tag != nil {
			tag = c.expr(s.Tag)
		}
		var dflt []ast.Stmt
		hasDefault := false
		type arm struct {
			cond string
			body []ast.Stmt
		}
		var arms []arm
		for _, cl := range s.Body.List {
			cc := cl.(*ast.CaseClause)
			if cc.List == nil {
				dflt, hasDefault = cc.Body, true
				continue
			}
			var alts []string
			for _, v := range cc.List {
				if s.Tag == nil {
					alts = append(alts, c.expr(v))
				} else {
					alts = append(alts, "("+tag+" == "+c.expr(v)+")")
				}
			}
			arms = append(arms, arm{strings.Join(alts, " || "), cc.Body})
		}
		var build func(i int, ind string) string
		build = func(i int, ind string) string {
			if i == len(arms) {
				if hasDefault {
					return c.stmts(dflt, rest, ind)
				}
				return rest(ind)
			}
			return ind + "if " + arms[i].cond + " then\n" + c.stmts(arms[i].body, rest, ind+"  ") + "\n" + ind + "else\n" + build(i+1, ind+"  ")
		}
		return build(0, ind)
	}
	return ind + c.fail("statement of kind %T", list[0])
}

// renameIdents renames the identifiers that stand for the receiver / parameters (not field names
// after a dot, not keys of struct literals)
func renameIdents(n ast.Node, ren map[string]string) {
	skip := map[*ast.Ident]bool{}
	ast.Inspect(n, func(x ast.Node) bool {
		switch y := x.(type) {
		case *ast.SelectorExpr:
			skip[y.Sel] = true
		case *ast.KeyValueExpr:
			if id, ok := y.Key.(*ast.Ident); ok {
				skip[id] = true
			}
		case *ast.Ident:
			if !skip[y] {
				if to, ok := ren[y.Name]; ok {
					y.Name = to
				}
			}
		}
		return true
	})
}

func findFunc(f *ast.File, recv, name string) *ast.FuncDecl {
	for _, d := range f.Decls {
		fd, ok := d.(*ast.FuncDecl)
		if !ok || fd.Name.Name != name || fd.Body == nil {
			continue
		}
		r := ""
		if fd.Recv != nil && len(fd.Recv.List) == 1 {
			t := fd.Recv.List[0].Type
			if st, ok := t.(*ast.StarExpr); ok {
				t = st.X
			}
			r = exprText(t)
		}
		if r == recv {
			return fd
		}
	}
	return nil
}

func translate(repo string, s *fnSpec) (string, error) {
	fd := findFunc(parse(filepath.Join(repo, s.file)), s.recv, s.name)
	if fd == nil {
		return "", fmt.Errorf("%s: function %s.%s not found", s.file, s.recv, s.name)
	}
	if s.closure != "" {
		var lit *ast.FuncLit
		for _, st := range fd.Body.List {
			if as, ok := st.(*ast.AssignStmt); ok && as.Tok == token.DEFINE && len(as.Lhs) == 1 && len(as.Rhs) == 1 && exprText(as.Lhs[0]) == s.closure {
				lit, _ = as.Rhs[0].(*ast.FuncLit)
			}
		}
		if lit == nil {
			return "", fmt.Errorf("%s: %s has no function literal %s", s.file, s.name, s.closure)
		}
		fd = &ast.FuncDecl{Name: ast.NewIdent(s.closure), Type: lit.Type, Body: lit.Body}
	}
	s.locals = map[string]bool{}
	c := &cg{s: s}
	// the dictionary speaks of the receiver and the parameters under fixed names: a function whose
	// receiver or parameters were merely renamed translates to the same definition
	ren := map[string]string{}
	if s.rn != "" && fd.Recv != nil && len(fd.Recv.List) == 1 && len(fd.Recv.List[0].Names) == 1 {
		if a := fd.Recv.List[0].Names[0].Name; a != s.rn {
			ren[a] = s.rn
		}
	}
	if fd.Type.Params != nil {
		i := 0
		for _, fl := range fd.Type.Params.List {
			for _, n := range fl.Names {
				if i < len(s.pn) && s.pn[i] != "" && n.Name != s.pn[i] {
					ren[n.Name] = s.pn[i]
				}
				i++
			}
		}
	}
	if len(ren) > 0 {
		renameIdents(fd.Body, ren)
	}
	var body string
	if s.mode == "void" {
		// a method that only updates its receiver map: `m[k] = v`, or a call of another such method
		if len(fd.Body.List) != 1 {
			return "", fmt.Errorf("%s.%s (%s): body is not a single statement", s.recv, s.name, s.file)
		}
		switch st := fd.Body.List[0].(type) {
		case *ast.AssignStmt:
			ix, ok := st.Lhs[0].(*ast.IndexExpr)
			if !ok || len(st.Lhs) != 1 || len(st.Rhs) != 1 || st.Tok != token.ASSIGN {
				return "", fmt.Errorf("%s.%s (%s): not a map assignment", s.recv, s.name, s.file)
			}
			body = "  (" + s.calls["assign"] + " " + c.expr(ix.X) + " " + c.expr(ix.Index) + " " + c.expr(st.Rhs[0]) + ")"
		case *ast.ExprStmt:
			body = "  " + c.expr(st.X)
		default:
			return "", fmt.Errorf("%s.%s (%s): statement of kind %T", s.recv, s.name, s.file, st)
		}
	} else if s.mode == "setret" {
		// a void function that fills the set it was handed: the set after its statements
		body = c.stmts(fd.Body.List, func(ind string) string { return ind + "set" }, "  ")
	} else {
		if s.named != "" && s.namedZero != "" {
			for _, n := range strings.Split(s.named, ",") {
				s.locals[n] = true
			}
		}
		body = c.stmts(fd.Body.List[s.skipStmts:], nil, "  ")
		if s.named != "" && s.namedZero != "" {
			zs := strings.Split(s.namedZero, ",")
			for i, n := range strings.Split(s.named, ",") {
				body = "  let " + leanIdent(n) + " := " + zs[i] + "\n" + body
			}
		}
	}
	if c.err != nil {
		return "", c.err
	}
	who := s.name
	if s.recv != "" {
		who = "(" + s.recv + ") " + s.name
	}
	if s.fuelled {
		// def f (params) : Nat -> args -> ret   with the body under `fuel + 1` and the identity at 0
		return fmt.Sprintf("/-- %s: `%s`%s (recursion bounded by fuel: one unit per level of the traversal) -/\ndef %s %s : %s\n  | 0, _, set => set\n  | fuel + 1, self, set =>\n  %s\n",
			s.file, who, s.doc, s.lean, s.binders, s.ret, strings.ReplaceAll(body, "\n", "\n  ")), nil
	}
	return strings.Join(s.aux, "\n") + fmt.Sprintf("/-- %s: `%s`%s -/\ndef %s %s : %s :=\n%s\n", s.file, who, s.doc, s.lean, s.binders, s.ret, body), nil
}

// ------------------------------------------------------------------------------------------------
// the functions translated, with their dictionaries

var fieldExprs = map[string]string{
	"f.InOneOf()":              "f.inOneOf",
	"f.Type().IsEmbed()":       "f.isEmbed",
	"f.Type().IsRepeated()":    "f.isRepeated",
	"f.Type().IsMap()":         "f.isMap",
	"f.Syntax()":               "f.syn",
	"f.desc.GetProto3Optional()": "f.proto3Optional",
	"f.desc.GetLabel()":        "f.label",
	"Proto2":                   "Pgs.Generated.syntaxProto2",
	"Proto3":                   "Pgs.Generated.syntaxProto3",
	"descriptor.FieldDescriptorProto_LABEL_OPTIONAL": "1",
	"descriptor.FieldDescriptorProto_LABEL_REQUIRED": "2",
	"descriptor.FieldDescriptorProto_LABEL_REPEATED": "3",
	"f.HasOptionalKeyword()":                         "(field_HasOptionalKeyword f)",
	"f.Syntax().SupportsRequiredPrefix()":            "(syntax_SupportsRequiredPrefix f.syn)",
}

func ctxSpec(recv, name, lean, binders, ret, mode string, exprs map[string]string) *fnSpec {
	pn := map[string][]string{"PushDir": {"dir"}, "Push": {"prefix"}, "JoinPath": {"name"}, "initPrefixContext": {"c", "d", "prefix"}, "initDirContext": {"c", "d", "dir"}}[name]
	return &fnSpec{file: "build_context.go", recv: recv, name: name, lean: lean, binders: binders, ret: ret, mode: mode, rn: "c", pn: pn,
		exprs:  exprs,
		calls: map[string]string{"filepath.Join": "list:Pgs.FilePath.join", "filepath.Clean": "Pgs.FilePath.clean",
			"lit:prefixContext": "mkPrefixContext parent d", "lit:dirContext": "mkDirContext prefixContext p",
			"d.Push": "debuggerPush d", "initDirContext": "initDirContext", "initPrefixContext": "initPrefixContext"},
		ignore: []string{"c.Debug(", "c.Fail("}}
}

func pfSpec(recv, lean, binders string, exprs map[string]string) *fnSpec {
	return &fnSpec{file: "artifact.go", recv: recv, name: "ProtoFile", lean: lean, binders: binders, ret: "Except Pgs.Bytes RespFile", mode: "err", exprs: exprs, rn: "f",
		calls: map[string]string{"cleanGeneratorFileName": "cleanGeneratorFileName", "proto.String": "id",
			"optlit:plugin_go.CodeGeneratorResponse_File": "RespFile.mk Name InsertionPoint Content"}}
}

func parSpec(name, lean, binders, ret, mode string) *fnSpec {
	pn := map[string][]string{"StrDefault": {"name", "def"}, "Str": {"name"}, "SetStr": {"name", "s"}, "SetOutputPath": {"path"},
		"IntDefault": {"name", "def"}, "Int": {"name"}, "SetInt": {"name", "i"}, "UintDefault": {"name", "def"}, "Uint": {"name"}, "SetUint": {"name", "ui"},
		"BoolDefault": {"name", "def"}, "Bool": {"name"}, "SetBool": {"name", "b"}}[name]
	return &fnSpec{file: "parameters.go", recv: "Parameters", name: name, lean: lean, binders: binders, ret: ret, mode: mode, rn: "p", pn: pn,
		exprs: map[string]string{"p": "p", "name": "name", "def": "def_", "s": "s", "i": "i", "ui": "ui", "b": "b", "path": "path",
			"outputPathKey": "Pgs.Generated.outputPathKey", "strconv.IntSize": "64", "0": "0"},
		calls: map[string]string{"index": "Pgs.C19.get", "assign": "Pgs.C19.set",
			"p.StrDefault": "parameters_StrDefault p", "p.SetStr": "parameters_SetStr p", "p.IntDefault": "parameters_IntDefault p",
			"p.UintDefault": "parameters_UintDefault p", "p.BoolDefault": "parameters_BoolDefault p",
			"strconv.Atoi": "atoi", "strconv.Itoa": "Pgs.C19.formatInt", "strconv.ParseUint": "parseUintE", "strconv.FormatUint": "formatUintB",
			"strconv.ParseBool": "parseBoolE", "strconv.FormatBool": "Pgs.C19.formatBool", "strings.TrimSpace": "trimSpaceB",
			"uint": "id", "uint64": "id"}}
}

func fpSpec(name, lean, binders string, pn []string) *fnSpec {
	return &fnSpec{file: "name.go", recv: "FilePath", name: name, lean: lean, binders: binders, ret: "Pgs.Bytes", rn: "n", pn: pn,
		exprs: map[string]string{"n.String()": "n", "n.Base()": "(filePath_Base n)", "n.Ext()": "(filePath_Ext n)", "n.BaseName()": "(filePath_BaseName n)",
			"n.Dir()": "(filePath_Dir n)", "ext": "ext", "base": "base", "elem": "elem"},
		calls: map[string]string{"FilePath": "id", "filepath.Dir": "Pgs.FilePath.dir", "filepath.Base": "Pgs.FilePath.base", "filepath.Ext": "Pgs.FilePath.ext",
			"strings.TrimSuffix": "Pgs.trimSuffixB", "JoinPaths": "list:Pgs.FilePath.join", "n.SetBase": "filePath_SetBase n"},
		methods: map[string]string{"Push": "filePath_Push"}}
}

func gnSpec(name, recv, lean, binders string, pn []string) *fnSpec {
	return &fnSpec{file: "lang/go/name.go", recv: recv, name: name, lean: lean, binders: binders, ret: "Pgs.Bytes", rn: "c", pn: pn,
		exprs: map[string]string{"a": "a", "b": "b", "n": "n", "b.String()": "b", "s.Name()": "serviceName", "m.Service().Name()": "serviceName", "m.Name()": "methodName",
			"protectedNames": "Pgs.Generated.protectedNames"},
		calls: map[string]string{"pgs.Name": "id", "fmt.Sprintf": "list:sprintf", "PGGUpperCamelCase": "Pgs.GoNames.PgsGo.camelCase",
			"utf8.DecodeRuneInString": "decodeRuneAscii", "unicode.IsLetter": "isLetterAscii", "unicode.IsLower": "Pgs.GoNames.isLower",
			"joinNames": "go_joinNames", "index": "lookupTbl"}}
}

func dbgSpec(recv, name, lean, binders string, pn []string) *fnSpec {
	ret := "Pgs.Bytes"
	if name == "prepend" {
		ret = "List Pgs.Bytes"
	}
	ex := map[string]string{"prefix": "pfx", "d": "()", "d.prefix": "storedPrefix", "format": "format",
		"append([]interface{}{d.prefix}, v...)": "(storedPrefix :: v)"}
	if name != "Push" {
		delete(ex, "prefix") // only Push has a parameter of that name; elsewhere it is a local
	}
	return &fnSpec{file: "debug.go", recv: recv, name: name, lean: lean, binders: binders, ret: ret, rn: "d", pn: pn,
		exprs: ex,
		calls: map[string]string{"fmt.Sprintf": "list:sprintf", "strings.HasPrefix": "hasPrefix", "strings.ReplaceAll": "replaceAllB", "lit:prefixedDebugger": "mkPrefixedDebugger parent prefix"}}
}

func perSpec(name, lean, binders, ret, mode string, pn []string) *fnSpec {
	sp := &fnSpec{file: "persister.go", recv: "stdPersister", name: name, lean: lean, binders: binders, ret: ret, mode: mode, rn: "p", pn: pn,
		ints: map[string]bool{},
		exprs: map[string]string{"resp.GetFile()": "files", "resp.File": "files", "resp": "files", "name": "name", "f": "f", "overwrite": "overwrite",
			"f.GetName()": "(getName f)", "f.InsertionPoint == nil": "(f.insertionPoint == none)", "$x.GetName()": "(getName x_)"},
		calls: map[string]string{"p.indexOfFile": "int:persister_indexOfFile", "p.tailOfFile": "int:persister_tailOfFile"}}
	if name == "insertFile" || name == "insertAppend" {
		sp.state = "resp.File"
	}
	return sp
}

// clSpec: `populate…Cache`: fills the memo unless it is filled (the memo is the state; nil = none)
func clSpec(file, recv, rn, name, lean, cache, walker string) *fnSpec {
	return &fnSpec{file: file, recv: recv, name: name, lean: lean, rn: rn, mode: "cache", state: cache,
		binders: "(walk : Pgs.AST.Ref → List Pgs.AST.Ref → List Pgs.AST.Ref) (self : Pgs.AST.Ref) (cache : Option (List Pgs.AST.Ref))", ret: "Option (List Pgs.AST.Ref)",
		exprs: map[string]string{cache + " != nil": "cache.isSome", "map[string]Message{}": "([] : List Pgs.AST.Ref)", "set": "set"},
		calls: map[string]string{"upd:" + walker: "walk self"}}
}

// accSpec: `Dependents()` / `Dependencies()`: fill the memo if need be, answer from it
func accSpec(file, recv, rn, name, lean, populate, populateLean, cache, nameExpr, nameLean string) *fnSpec {
	return &fnSpec{file: file, recv: recv, name: name, lean: lean, rn: rn, mode: "cacheq", state: cache,
		binders: "(walk : Pgs.AST.Ref → List Pgs.AST.Ref → List Pgs.AST.Ref) (self : Pgs.AST.Ref) (cache : Option (List Pgs.AST.Ref))", ret: "Option (List Pgs.AST.Ref) × List Pgs.AST.Ref",
		exprs: map[string]string{cache: "(cache.getD [])", nameExpr: nameLean},
		calls: map[string]string{"updstate:" + populate: populateLean + " walk self", "messageSetToSlice": "messageSetToSlice"}}
}

func codeSpecs() []*fnSpec {
	return []*fnSpec{
		// C11
		{file: "artifact.go", recv: "", name: "cleanGeneratorFileName", pn: []string{"name"}, lean: "cleanGeneratorFileName", binders: "(name : Pgs.Bytes)",
			ret: "Except Pgs.Bytes Pgs.Bytes", mode: "err", locals: nil,
			exprs: map[string]string{"name": "name"},
			calls: map[string]string{"filepath.IsAbs": "Pgs.FilePath.isAbs", "filepath.Clean": "Pgs.FilePath.clean", "filepath.ToSlash": "toSlashUnix",
				"strings.HasPrefix": "hasPrefix", "errors.New": "id"},
			doc: " (GOOS=linux: `ToSlash` is the identity)"},
		// C10 / C11 / C14: the six generator artifacts' ProtoFile
		pfSpec("GeneratorFile", "generatorFile_ProtoFile", "(name contents : Pgs.Bytes)", map[string]string{"f.Name": "name", "f.Contents": "contents"}),
		pfSpec("GeneratorTemplateFile", "generatorTemplateFile_ProtoFile", "(name : Pgs.Bytes) (render : Except Pgs.Bytes Pgs.Bytes)", map[string]string{"f.Name": "name", "f.render()": "render"}),
		pfSpec("GeneratorAppend", "generatorAppend_ProtoFile", "(fileName contents : Pgs.Bytes)", map[string]string{"f.FileName": "fileName", "f.Contents": "contents"}),
		pfSpec("GeneratorTemplateAppend", "generatorTemplateAppend_ProtoFile", "(fileName : Pgs.Bytes) (render : Except Pgs.Bytes Pgs.Bytes)", map[string]string{"f.FileName": "fileName", "f.render()": "render"}),
		pfSpec("GeneratorInjection", "generatorInjection_ProtoFile", "(fileName insertionPoint contents : Pgs.Bytes)", map[string]string{"f.FileName": "fileName", "f.InsertionPoint": "insertionPoint", "f.Contents": "contents"}),
		pfSpec("GeneratorTemplateInjection", "generatorTemplateInjection_ProtoFile", "(fileName insertionPoint : Pgs.Bytes) (render : Except Pgs.Bytes Pgs.Bytes)", map[string]string{"f.FileName": "fileName", "f.InsertionPoint": "insertionPoint", "f.render()": "render"}),
		// C19: the accessors of Parameters
		func() *fnSpec {
			sp := parSpec("String", "parameters_String", "(p : Pgs.C19.Map)", "Pgs.Bytes", "")
			sp.calls["fmt.Sprintf"] = "list:sprintf"
			sp.calls["sort.Strings"] = "sortStrings"
			sp.calls["strings.Join"] = "joinStr"
			sp.exprs["k"], sp.exprs["v"] = "k", "v"
			return sp
		}(),
		func() *fnSpec {
			sp := parSpec("ParseParameters", "parseParameters", "(p : Pgs.Bytes)", "Pgs.C19.Map", "")
			sp.recv, sp.rn, sp.pn = "", "", []string{"p"}
			sp.named, sp.mapVar = "params", "params"
			sp.ints = map[string]bool{}
			sp.calls["strings.Split"] = "splitStr"
			sp.calls["strings.Index"] = "int:indexStr"
			sp.exprs["params"] = "params"
			delete(sp.exprs, "i")
			return sp
		}(),
		parSpec("StrDefault", "parameters_StrDefault", "(p : Pgs.C19.Map) (name def_ : Pgs.Bytes)", "Pgs.Bytes", ""),
		parSpec("Str", "parameters_Str", "(p : Pgs.C19.Map) (name : Pgs.Bytes)", "Pgs.Bytes", ""),
		parSpec("SetStr", "parameters_SetStr", "(p : Pgs.C19.Map) (name s : Pgs.Bytes)", "Pgs.C19.Map", "void"),
		parSpec("OutputPath", "parameters_OutputPath", "(p : Pgs.C19.Map)", "Pgs.Bytes", ""),
		parSpec("SetOutputPath", "parameters_SetOutputPath", "(p : Pgs.C19.Map) (path : Pgs.Bytes)", "Pgs.C19.Map", "void"),
		parSpec("IntDefault", "parameters_IntDefault", "(p : Pgs.C19.Map) (name : Pgs.Bytes) (def_ : Int)", "Except Pgs.Bytes Int", "err"),
		parSpec("Int", "parameters_Int", "(p : Pgs.C19.Map) (name : Pgs.Bytes)", "Except Pgs.Bytes Int", "err"),
		parSpec("SetInt", "parameters_SetInt", "(p : Pgs.C19.Map) (name : Pgs.Bytes) (i : Int)", "Pgs.C19.Map", "void"),
		parSpec("UintDefault", "parameters_UintDefault", "(p : Pgs.C19.Map) (name : Pgs.Bytes) (def_ : Nat)", "Except Pgs.Bytes Nat", "err"),
		parSpec("Uint", "parameters_Uint", "(p : Pgs.C19.Map) (name : Pgs.Bytes)", "Except Pgs.Bytes Nat", "err"),
		parSpec("SetUint", "parameters_SetUint", "(p : Pgs.C19.Map) (name : Pgs.Bytes) (ui : Nat)", "Pgs.C19.Map", "void"),
		parSpec("BoolDefault", "parameters_BoolDefault", "(p : Pgs.C19.Map) (name : Pgs.Bytes) (def_ : Bool)", "Except Pgs.Bytes Bool", "err"),
		parSpec("Bool", "parameters_Bool", "(p : Pgs.C19.Map) (name : Pgs.Bytes)", "Except Pgs.Bytes Bool", "err"),
		parSpec("SetBool", "parameters_SetBool", "(p : Pgs.C19.Map) (name : Pgs.Bytes) (b : Bool)", "Pgs.C19.Map", "void"),
		// floats and durations: the codecs (strconv.ParseFloat / FormatFloat 'g' -1 64, time.ParseDuration / Duration.String) are parameters
		func() *fnSpec {
			sp := parSpec("FloatDefault", "parameters_FloatDefault", "{α : Type} (parseF : Pgs.Bytes → Except Pgs.Bytes α) (p : Pgs.C19.Map) (name : Pgs.Bytes) (def_ : α)", "Except Pgs.Bytes α", "err")
			sp.pn, sp.ints = []string{"name", "def"}, map[string]bool{}
			sp.calls["strconv.ParseFloat"] = "parseFloatE parseF"
			return sp
		}(),
		func() *fnSpec {
			sp := parSpec("Float", "parameters_Float", "{α : Type} (parseF : Pgs.Bytes → Except Pgs.Bytes α) (zero : α) (p : Pgs.C19.Map) (name : Pgs.Bytes)", "Except Pgs.Bytes α", "err")
			sp.pn = []string{"name"}
			sp.calls["p.FloatDefault"] = "parameters_FloatDefault parseF p"
			sp.exprs["0"] = "zero"
			return sp
		}(),
		func() *fnSpec {
			sp := parSpec("SetFloat", "parameters_SetFloat", "{α : Type} (formatF : α → Pgs.Bytes) (p : Pgs.C19.Map) (name : Pgs.Bytes) (f : α)", "Pgs.C19.Map", "void")
			sp.pn, sp.ints = []string{"name", "f"}, map[string]bool{}
			sp.exprs["f"] = "f"
			delete(sp.exprs, "0")
			sp.calls["strconv.FormatFloat"] = "formatFloatB formatF"
			return sp
		}(),
		func() *fnSpec {
			sp := parSpec("DurationDefault", "parameters_DurationDefault", "{α : Type} (parseD : Pgs.Bytes → Except Pgs.Bytes α) (p : Pgs.C19.Map) (name : Pgs.Bytes) (def_ : α)", "Except Pgs.Bytes α", "err")
			sp.pn = []string{"name", "def"}
			sp.calls["time.ParseDuration"] = "parseD"
			return sp
		}(),
		func() *fnSpec {
			sp := parSpec("Duration", "parameters_Duration", "{α : Type} (parseD : Pgs.Bytes → Except Pgs.Bytes α) (zero : α) (p : Pgs.C19.Map) (name : Pgs.Bytes)", "Except Pgs.Bytes α", "err")
			sp.pn = []string{"name"}
			sp.calls["p.DurationDefault"] = "parameters_DurationDefault parseD p"
			sp.exprs["0"] = "zero"
			return sp
		}(),
		func() *fnSpec {
			sp := parSpec("SetDuration", "parameters_SetDuration", "{α : Type} (formatD : α → Pgs.Bytes) (p : Pgs.C19.Map) (name : Pgs.Bytes) (d : α)", "Pgs.C19.Map", "void")
			sp.pn = []string{"name", "d"}
			sp.exprs["d.String()"] = "(formatD d)"
			return sp
		}(),
		// C10: the list surgery of the persister
		perSpec("indexOfFile", "persister_indexOfFile", "(files : List RespFile) (name : Pgs.Bytes)", "Int", "", []string{"resp", "name"}),
		perSpec("tailOfFile", "persister_tailOfFile", "(files : List RespFile) (name : Pgs.Bytes)", "Int", "", []string{"resp", "name"}),
		perSpec("insertFile", "persister_insertFile", "(files : List RespFile) (f : RespFile) (overwrite : Bool)", "List RespFile", "", []string{"resp", "f", "overwrite"}),
		perSpec("insertAppend", "persister_insertAppend", "(files : List RespFile) (name : Pgs.Bytes) (f : RespFile)", "Except Pgs.Bytes (List RespFile)", "err", []string{"resp", "name", "f"}),
		// C12: writeFile
		// postProcess: the matching processors in registration order, each fed what the one before produced; the first error stops the run
		{file: "persister.go", recv: "stdPersister", name: "postProcess", lean: "persister_postProcess", rn: "p", pn: []string{"a", "in"}, mode: "errv",
			binders: "(procs : List Pgs.Persist.Proc) (kind : Nat) (in_ : Pgs.Bytes)", ret: "Except Pgs.Persist.Cause Pgs.Bytes",
			exprs: map[string]string{"p.procs": "procs", "in": "in_", "pp.Match(a)": "(pp.kinds.contains kind)",
				"pp.Process(b)": "(if pp.fails then (Except.error Pgs.Persist.Cause.postProcess) else (Except.ok (pp.apply b)))"},
			calls: map[string]string{"[]byte": "id", "string": "id"}},
		{file: "persister.go", recv: "stdPersister", name: "writeFile", lean: "persister_writeFile", rn: "p", pn: []string{"name", "content", "overwrite", "perms"},
			binders: "(files : Pgs.Persist.FS) (name content : Pgs.Bytes) (overwrite : Bool) (perms : Nat)", ret: "Pgs.Persist.FS", state: "p.fs",
			exprs: map[string]string{"name": "name", "content": "content", "overwrite": "overwrite", "perms": "perms", "0755": "493"},
			calls: map[string]string{"filepath.Dir": "Pgs.FilePath.dir", "upd:p.fs.MkdirAll": "mkdirAllMode", "qry:afero.Exists": "Pgs.Persist.FS.exists", "upd:afero.WriteFile": "Pgs.Persist.FS.write"},
			ignore: []string{"p.Debug("}},
		// C05 / C06: the dependency closures of message.go / enum.go
		{file: "message.go", recv: "msg", name: "getDependents", lean: "msg_getDependents", rn: "m", pn: []string{"set"}, fuelled: true, mode: "setret",
			binders: "(dependents : Pgs.AST.Ref → List Pgs.AST.Ref)", ret: "Nat → Pgs.AST.Ref → List Pgs.AST.Ref → List Pgs.AST.Ref",
			exprs: map[string]string{"m.dependents": "(dependents self)", "set": "set"},
			calls: map[string]string{"visit:getDependents": "msg_getDependents dependents fuel"}},
		{file: "message.go", recv: "msg", name: "getDependencies", lean: "msg_getDependencies", rn: "m", pn: []string{"set"}, fuelled: true, mode: "setret",
			binders: "(dependencies : Pgs.AST.Ref → List Pgs.AST.Ref)", ret: "Nat → Pgs.AST.Ref → List Pgs.AST.Ref → List Pgs.AST.Ref",
			exprs: map[string]string{"m.dependencies": "(dependencies self)", "set": "set"},
			calls: map[string]string{"visit:getDependencies": "msg_getDependencies dependencies fuel"}},
		{file: "message.go", recv: "", name: "messageSetToSlice", lean: "messageSetToSlice", pn: []string{"name", "set"},
			binders: "(name : Pgs.AST.Ref) (set : List Pgs.AST.Ref)", ret: "List Pgs.AST.Ref",
			exprs: map[string]string{"set": "set", "name": "name", "filter:fqn != name": "(d != name)"}},
		clSpec("message.go", "msg", "m", "populateDependentsCache", "msg_populateDependentsCache", "m.dependentsCache", "m.getDependents"),
		clSpec("message.go", "msg", "m", "populateDependenciesCache", "msg_populateDependenciesCache", "m.dependenciesCache", "m.getDependencies"),
		{file: "enum.go", recv: "enum", name: "populateDependentsCache", lean: "enum_populateDependentsCache", rn: "e", mode: "cache", state: "e.dependentsCache",
			binders: "(dependents : Pgs.AST.Ref → List Pgs.AST.Ref) (getDependents : Pgs.AST.Ref → List Pgs.AST.Ref → List Pgs.AST.Ref) (self : Pgs.AST.Ref) (cache : Option (List Pgs.AST.Ref))", ret: "Option (List Pgs.AST.Ref)",
			exprs: map[string]string{"e.dependentsCache != nil": "cache.isSome", "map[string]Message{}": "([] : List Pgs.AST.Ref)", "set": "set", "e.dependents": "(dependents self)"},
			calls: map[string]string{"visit:getDependents": "getDependents"}},
		{file: "enum.go", recv: "enum", name: "Dependents", lean: "enum_Dependents", rn: "e", mode: "cacheq", state: "e.dependentsCache",
			binders: "(dependents : Pgs.AST.Ref → List Pgs.AST.Ref) (getDependents : Pgs.AST.Ref → List Pgs.AST.Ref → List Pgs.AST.Ref) (self : Pgs.AST.Ref) (cache : Option (List Pgs.AST.Ref))",
			ret: "Option (List Pgs.AST.Ref) × List Pgs.AST.Ref",
			exprs: map[string]string{"e.dependentsCache": "(cache.getD [])", "\"\"": "Pgs.AST.noRef"},
			calls: map[string]string{"updstate:e.populateDependentsCache": "enum_populateDependentsCache dependents getDependents self", "messageSetToSlice": "messageSetToSlice"}},
		accSpec("message.go", "msg", "m", "Dependents", "msg_Dependents", "m.populateDependentsCache", "msg_populateDependentsCache", "m.dependentsCache", "m.FullyQualifiedName()", "self"),
		accSpec("message.go", "msg", "m", "Dependencies", "msg_Dependencies", "m.populateDependenciesCache", "msg_populateDependenciesCache", "m.dependenciesCache", "m.FullyQualifiedName()", "self"),
		// C04: file.go
		{file: "file.go", recv: "file", name: "TransitiveImports", lean: "file_TransitiveImports", rn: "f", mapVar: "importMap",
			binders: "(fileDependencies : List Nat) (transitiveImports : Nat → List Nat)", ret: "List Nat",
			exprs: map[string]string{"f.fileDependencies": "fileDependencies", "fl.TransitiveImports()": "(transitiveImports fl)", "importMap": "importMap", "fl": "fl", "imp": "imp"},
			calls: map[string]string{"assignv": "setPut"}},
		// C09
		{file: "proto.go", rn: "s", recv: "Syntax", name: "SupportsRequiredPrefix", lean: "syntax_SupportsRequiredPrefix", binders: "(s : Pgs.Bytes)", ret: "Bool",
			exprs: map[string]string{"s": "s", "Proto2": "Pgs.Generated.syntaxProto2"}},
		{file: "file.go", rn: "f", recv: "file", name: "Syntax", lean: "file_Syntax", binders: "(descSyntax : Pgs.Bytes)", ret: "Pgs.Bytes",
			exprs: map[string]string{"f.desc.GetSyntax()": "descSyntax", "Proto2": "Pgs.Generated.syntaxProto2"},
			calls: map[string]string{"Syntax": "id"}},
		{file: "field.go", rn: "f", recv: "field", name: "InRealOneOf", lean: "field_InRealOneOf", binders: "(f : FieldEnv)", ret: "Bool", exprs: fieldExprs},
		{file: "field.go", rn: "f", recv: "field", name: "HasOptionalKeyword", lean: "field_HasOptionalKeyword", binders: "(f : FieldEnv)", ret: "Bool", exprs: fieldExprs},
		{file: "field.go", rn: "f", recv: "field", name: "HasPresence", lean: "field_HasPresence", binders: "(f : FieldEnv)", ret: "Bool", exprs: fieldExprs},
		{file: "field.go", rn: "f", recv: "field", name: "Required", lean: "field_Required", binders: "(f : FieldEnv)", ret: "Bool", exprs: fieldExprs},
		{file: "oneof.go", rn: "o", recv: "oneof", name: "IsSynthetic", lean: "oneof_IsSynthetic", binders: "(o : OneofEnv)", ret: "Bool",
			exprs: map[string]string{"o.Syntax()": "o.syn", "len(o.flds)": "o.nflds", "o.flds[0].InRealOneOf()": "o.firstInRealOneOf",
				"Proto3": "Pgs.Generated.syntaxProto3"}},
		{file: "field.go", rn: "f", recv: "field", name: "Syntax", lean: "field_Syntax", binders: "(containerSyntax : Pgs.Bytes)", ret: "Pgs.Bytes", exprs: map[string]string{"f.msg.Syntax()": "containerSyntax"}},
		{file: "oneof.go", rn: "o", recv: "oneof", name: "Syntax", lean: "oneof_Syntax", binders: "(containerSyntax : Pgs.Bytes)", ret: "Pgs.Bytes", exprs: map[string]string{"o.msg.Syntax()": "containerSyntax"}},
		{file: "message.go", rn: "m", recv: "msg", name: "Syntax", lean: "msg_Syntax", binders: "(containerSyntax : Pgs.Bytes)", ret: "Pgs.Bytes", exprs: map[string]string{"m.parent.Syntax()": "containerSyntax"}},
		{file: "enum.go", rn: "e", recv: "enum", name: "Syntax", lean: "enum_Syntax", binders: "(containerSyntax : Pgs.Bytes)", ret: "Pgs.Bytes", exprs: map[string]string{"e.parent.Syntax()": "containerSyntax"}},
		{file: "enum_value.go", rn: "ev", recv: "enumVal", name: "Syntax", lean: "enumVal_Syntax", binders: "(containerSyntax : Pgs.Bytes)", ret: "Pgs.Bytes", exprs: map[string]string{"ev.enum.Syntax()": "containerSyntax"}},
		{file: "extension.go", rn: "e", recv: "ext", name: "Syntax", lean: "ext_Syntax", binders: "(containerSyntax : Pgs.Bytes)", ret: "Pgs.Bytes", exprs: map[string]string{"e.parent.Syntax()": "containerSyntax"}},
		{file: "method.go", rn: "m", recv: "method", name: "Syntax", lean: "method_Syntax", binders: "(containerSyntax : Pgs.Bytes)", ret: "Pgs.Bytes", exprs: map[string]string{"m.service.Syntax()": "containerSyntax"}},
		{file: "service.go", rn: "s", recv: "service", name: "Syntax", lean: "service_Syntax", binders: "(containerSyntax : Pgs.Bytes)", ret: "Pgs.Bytes", exprs: map[string]string{"s.file.Syntax()": "containerSyntax"}},
		{file: "field.go", rn: "f", recv: "field", name: "InOneOf", lean: "field_InOneOf", binders: "(oneofIsNil : Bool)", ret: "Bool", exprs: map[string]string{"f.oneof != nil": "(!oneofIsNil)"}},
		// C17: lang/go/type_name.go
		{file: "lang/go/type_name.go", rn: "n", recv: "TypeName", name: "IsPointer", lean: "typeName_IsPointer", binders: "(n : Pgs.Bytes)", ret: "Bool",
			exprs: map[string]string{"string(n)": "n"},
			calls: map[string]string{"strings.HasPrefix": "hasPrefix"}},
		{file: "lang/go/type_name.go", rn: "n", recv: "TypeName", name: "Pointer", lean: "typeName_Pointer", binders: "(n : Pgs.Bytes)", ret: "Pgs.Bytes",
			exprs: map[string]string{"string(n)": "n", "n": "n", "n.IsPointer()": "(typeName_IsPointer n)"},
			calls: map[string]string{"TypeName": "id"}},
		{file: "lang/go/type_name.go", rn: "c", pn: []string{"f"}, recv: "context", name: "Type", lean: "context_Type", binders: "(e : TypeEnv)", ret: "Pgs.Bytes",
			exprs: map[string]string{"f.Type()": "e", "ft.IsMap()": "e.isMap", "ft.IsRepeated()": "e.isRepeated", "ft.IsEmbed()": "e.isEmbed", "ft.IsEnum()": "e.isEnum",
				"scalarType(ft.Key().ProtoType())": "e.keyScalar", "c.elType(ft)": "e.elType", "c.importableTypeName(f, ft.Embed())": "e.embedName",
				"c.importableTypeName(f, ft.Enum())": "e.enumName", "scalarType(ft.ProtoType())": "e.scalar", "f.HasPresence()": "e.hasPresence"},
			calls:   map[string]string{"TypeName": "id", "fmt.Sprintf": "list:sprintf"},
			methods: map[string]string{"Pointer": "typeName_Pointer"}},
		{file: "lang/go/type_name.go", rn: "c", pn: []string{"ft"}, recv: "context", name: "elType", lean: "context_elType", binders: "(e : ElemEnv)", ret: "Pgs.Bytes",
			exprs: map[string]string{"ft.Element()": "e", "el.IsEnum()": "e.isEnum", "el.IsEmbed()": "e.isEmbed",
				"c.importableTypeName(ft.Field(), el.Enum())": "e.enumName", "c.importableTypeName(ft.Field(), el.Embed())": "e.embedName",
				"scalarType(el.ProtoType())": "e.scalar"},
			methods: map[string]string{"Pointer": "typeName_Pointer"}},
		{file: "lang/go/type_name.go", rn: "c", pn: []string{"f", "e"}, recv: "context", name: "importableTypeName", lean: "context_importableTypeName",
			binders: "(name importPathE importPathF packageNameE : Pgs.Bytes)", ret: "Pgs.Bytes",
			exprs: map[string]string{"c.Name(e)": "name", "c.ImportPath(e)": "importPathE", "c.ImportPath(f)": "importPathF", "c.PackageName(e)": "packageNameE"},
			calls: map[string]string{"TypeName": "id", "fmt.Sprintf": "list:sprintf"}},
		// C16: lang/go/name.go
		gnSpec("joinNames", "", "go_joinNames", "(a b : Pgs.Bytes)", []string{"a", "b"}),
		gnSpec("joinChild", "", "go_joinChild", "(a b : Pgs.Bytes)", []string{"a", "b"}),
		gnSpec("replaceProtected", "", "go_replaceProtected", "(n : Pgs.Bytes)", []string{"n"}),
		// C15: Name.Split, whole: the dot and underscore branches and the camel-case scanner with its five state variables.
		// A name is the list of its runes (what `range ns` yields); bytes.Buffer is the list of the runes written to it.
		{file: "name.go", recv: "Name", name: "Split", lean: "name_Split", rn: "n", named: "parts", namedZero: "([] : List Pgs.Bytes)", ints: map[string]bool{},
			loopVars: []string{"parts", "buf", "capt", "lodash", "num"}, loopType: "(List Pgs.Bytes × Pgs.Bytes × Bool × Bool × Bool)", loopElem: "Nat",
			binders: "(up dgt : Nat → Bool) (n : Pgs.Bytes)", ret: "List Pgs.Bytes",
			exprs: map[string]string{"n": "n", "&bytes.Buffer{}": "([] : Pgs.Bytes)",
				"unicode.IsUpper(r) || unicode.IsTitle(r)": "(up r)", "unicode.IsDigit(r)": "(dgt r)",
				"buf.Len()": "(Int.ofNat (List.length buf))", "buf.String()": "buf",
				"utf8.RuneCount(buf.Bytes())": "(Int.ofNat (List.length buf))", "utf8.RuneCountInString(ss)": "(Int.ofNat (List.length ss))",
				// ss[0] is a byte; it is '_' exactly when the first rune is (0x5F occurs in UTF-8 only as itself)
				"ss[0] != '_'": "(List.head? ss != some 95)",
				// pr is the last rune of ss: taking it off the end is dropping the last rune
				"strings.TrimSuffix(ss, string(pr))": "(List.dropLast ss)"},
			calls: map[string]string{"string": "id", "strings.LastIndex": "int:lastIndexR", "strings.Split": "splitStr",
				"buf.Len": "int:", "utf8.RuneCount": "int:", "utf8.RuneCountInString": "int:",
				"utf8.DecodeLastRuneInString": "decodeLastRuneR", "get:parts": "listGetB", "set:parts": "listSetB",
				"meth:buf.Reset": "bufReset", "meth:buf.WriteRune": "bufWriteRune"}},
		// C15: Transform: the parts of Split, the first through `first`, the others through `mod`, joined by `sep`
		{file: "name.go", recv: "Name", name: "Transform", lean: "name_Transform", rn: "n", pn: []string{"mod", "first", "sep"}, ints: map[string]bool{},
			binders: "(up dgt : Nat → Bool) (mod first : Pgs.Bytes → Pgs.Bytes) (sep : Pgs.Bytes) (n : Pgs.Bytes)", ret: "Pgs.Bytes",
			exprs: map[string]string{"n": "n", "sep": "sep", "n.Split()": "(name_Split up dgt n)"},
			calls: map[string]string{"first": "first", "mod": "mod", "Name": "id", "strings.Join": "joinStr"}},
		// the closure `unique` of uniqueNames: underscores until the name (and, for a field, its getter) is free; then both are taken
		{file: "lang/go/name.go", recv: "", name: "uniqueNames", closure: "unique", lean: "go_unique", pn: []string{"n", "getter"}, mode: "mapret", mapVar: "used",
			binders: "(used : Pgs.GoNames.Used) (fuel_ : Nat) (n : Pgs.Bytes) (getter : Bool)", ret: "Pgs.Bytes × Pgs.GoNames.Used",
			exprs: map[string]string{"n": "n", "getter": "getter", "used": "used"},
			calls: map[string]string{"get:used": "Pgs.GoNames.Used.get", "set:used": "Pgs.GoNames.Used.set"},
			doc:   " - the function literal `unique`"},
		// uniqueNames itself: the protected names taken first; then the fields in declaration order, a oneof named when its first member is met
		{file: "lang/go/name.go", recv: "", name: "uniqueNames", lean: "go_uniqueNames", pn: []string{"m"},
			named: "fields,oneofs", namedZero: "([] : List (Pgs.Bytes × Pgs.Bytes)),([] : List (Pgs.Bytes × Pgs.Bytes))",
			loopVars: []string{"used", "fields", "oneofs"}, loopElem: "Pgs.Bytes,FieldN",
			loopType: "(Pgs.GoNames.Used × List (Pgs.Bytes × Pgs.Bytes) × List (Pgs.Bytes × Pgs.Bytes))",
			binders: "(protectedKeys : List Pgs.Bytes) (flds : List FieldN)", ret: "List (Pgs.Bytes × Pgs.Bytes) × List (Pgs.Bytes × Pgs.Bytes)",
			doc: " (the underscore loop of `unique` is given |used| + 2 rounds: every round but the last finds another name that is taken)",
			exprs: map[string]string{"make(map[pgs.Name]bool, len(protectedNames))": "([] : Pgs.GoNames.Used)", "protectedNames": "protectedKeys", "m.Fields()": "flds",
				"map[string]pgs.Name{}": "([] : List (Pgs.Bytes × Pgs.Bytes))", "f.FullyQualifiedName()": "f.fqn", "f.Name()": "f.name", "f.OneOf()": "f",
				"o != nil && o.Fields()[0] == f": "o.firstOfOneof", "o.FullyQualifiedName()": "o.oneofFqn", "o.Name()": "o.oneofName"},
			calls: map[string]string{"set:used": "Pgs.GoNames.Used.set", "set:fields": "assocPut", "set:oneofs": "assocPut", "st:unique": "go_unique used (List.length used + 2)", "stvar:unique": "used",
				"PGGUpperCamelCase": "Pgs.GoNames.PgsGo.camelCase"}},
		// OneofOption: the wrapper type of a oneof member - `<Message>_<Field>`, underscores appended while it collides with a nested type
		{file: "lang/go/name.go", recv: "context", name: "OneofOption", lean: "context_OneofOption", rn: "c", pn: []string{"field"},
			loopVars: []string{"n", "conflict"}, loopType: "(Pgs.Bytes × Bool)", loopElem: "Pgs.Bytes",
			binders: "(fuel_ : Nat) (msgName fieldName : Pgs.Bytes) (msgNames mapEntryNames enumNames : List Pgs.Bytes)", ret: "Pgs.Bytes",
			exprs: map[string]string{"c.Name(field.Message())": "msgName", "c.Name(field)": "fieldName", "c.Name(msg)": "msg", "c.Name(en)": "en",
				"field.Message().Messages()": "msgNames", "field.Message().MapEntries()": "mapEntryNames", "field.Message().Enums()": "enumNames"},
			calls: map[string]string{"joinNames": "go_joinNames"}},
		gnSpec("ServerName", "context", "context_ServerName", "(serviceName : Pgs.Bytes)", []string{"s"}),
		gnSpec("ClientName", "context", "context_ClientName", "(serviceName : Pgs.Bytes)", []string{"s"}),
		gnSpec("ServerStream", "context", "context_ServerStream", "(serviceName methodName : Pgs.Bytes)", []string{"m"}),
		// C17: pgs.FilePath (name.go) and the output / import path of lang/go/package.go
		fpSpec("Dir", "filePath_Dir", "(n : Pgs.Bytes)", nil),
		fpSpec("Base", "filePath_Base", "(n : Pgs.Bytes)", nil),
		fpSpec("Ext", "filePath_Ext", "(n : Pgs.Bytes)", nil),
		fpSpec("BaseName", "filePath_BaseName", "(n : Pgs.Bytes)", nil),
		fpSpec("Push", "filePath_Push", "(n elem : Pgs.Bytes)", []string{"elem"}),
		fpSpec("Pop", "filePath_Pop", "(n : Pgs.Bytes)", nil),
		fpSpec("SetBase", "filePath_SetBase", "(n base : Pgs.Bytes)", []string{"base"}),
		fpSpec("SetExt", "filePath_SetExt", "(n ext : Pgs.Bytes)", []string{"ext"}),
		{file: "lang/go/package.go", rn: "c", pn: []string{"e"}, recv: "context", name: "OutputPath", lean: "context_OutputPath",
			binders: "(input : Pgs.Bytes) (sourceRelative : Bool) (optionPackage : Pgs.Bytes × Pgs.Bytes)", ret: "Pgs.Bytes",
			exprs: map[string]string{"e.File().InputPath()": "input", "Paths(c.p) == SourceRelative": "sourceRelative", "c.optionPackage(e)": "optionPackage"},
			calls: map[string]string{"pgs.FilePath": "id"},
			methods: map[string]string{"SetExt": "filePath_SetExt", "Push": "filePath_Push", "Base": "filePath_Base"}},
		{file: "lang/go/package.go", rn: "c", pn: []string{"e"}, recv: "context", name: "ImportPath", lean: "context_ImportPath",
			binders: "(importPrefix : Pgs.Bytes) (optionPackage : Pgs.Bytes × Pgs.Bytes)", ret: "Pgs.Bytes",
			exprs: map[string]string{"c.p.Str(\"import_prefix\")": "importPrefix", "c.optionPackage(e)": "optionPackage"},
			calls: map[string]string{"pgs.FilePath": "id"}},
		// C17: which Go package a file belongs to - resolveGoPackageOption, optionPackage, PackageName (lang/go/package.go)
		{file: "lang/go/package.go", rn: "c", pn: []string{"e"}, recv: "context", name: "resolveGoPackageOption", lean: "context_resolveGoPackageOption",
			binders: "(env : PkgEnv)", ret: "Pgs.Bytes",
			exprs: map[string]string{"e.File().Descriptor().GetOptions().GetGoPackage()": "env.goPackage", "e.Package().Files()": "env.pkgGoPackages",
				"f.Descriptor().GetOptions().GetGoPackage()": "f"}},
		{file: "lang/go/package.go", rn: "c", pn: []string{"e"}, recv: "context", name: "optionPackage", lean: "context_optionPackage",
			named: "path,pkg", namedZero: "([] : Pgs.Bytes),([] : Pgs.Bytes)", ints: map[string]bool{},
			binders: "(snake : Pgs.Bytes → Pgs.Bytes) (env : PkgEnv)", ret: "Pgs.Bytes × Pgs.Bytes",
			exprs: map[string]string{"e.File().InputPath().String()": "env.input", "e.BuildTarget()": "env.buildTarget", "c.p": "env.params",
				"c.resolveGoPackageOption(e)": "(context_resolveGoPackageOption env)", "e.File().InputPath().Dir().String()": "(filePath_Dir env.input)",
				"e.Package().ProtoName()": "env.protoName", "n.SnakeCase().String()": "(snake n)", "e.File().InputPath().BaseName()": "(filePath_BaseName env.input)"},
			calls: map[string]string{"index": "Pgs.C19.get", "strings.LastIndex": "int:lastIndexB", "nonAlphaNumPattern.ReplaceAllString": "replaceNonAlnum"}},
		{file: "lang/go/package.go", rn: "c", pn: []string{"node"}, recv: "context", name: "PackageName", lean: "context_PackageName", skipStmts: 2,
			binders: "(snake : Pgs.Bytes → Pgs.Bytes) (env : PkgEnv)", ret: "Pgs.Bytes",
			doc: " (after the node has been resolved to an entity: a package stands for its first file)",
			exprs: map[string]string{"c.optionPackage(e)": "(context_optionPackage snake env)", "e.File().Descriptor().GetOptions().GetGoPackage()": "env.goPackage",
				"token.Lookup(pkg).IsKeyword()": "(Pgs.GoTypes.goKeywordsB.contains pkg)"},
			calls: map[string]string{"c.p.Str": "parameters_Str env.params", "utf8.DecodeRuneInString": "decodeRuneAscii", "unicode.IsDigit": "Pgs.GoNames.isDigitB", "pgs.Name": "id"}},
		// C18: the prefixed debugger (debug.go)
		dbgSpec("rootDebugger", "Push", "rootDebugger_Push", "(pfx : Pgs.Bytes)", []string{"prefix"}),
		dbgSpec("prefixedDebugger", "Push", "prefixedDebugger_Push", "(pfx : Pgs.Bytes)", []string{"prefix"}),
		dbgSpec("prefixedDebugger", "prepend", "prefixedDebugger_prepend", "(storedPrefix : Pgs.Bytes) (v : List Pgs.Bytes)", []string{"v"}),
		dbgSpec("prefixedDebugger", "prependFormat", "prefixedDebugger_prependFormat", "(storedPrefix format : Pgs.Bytes)", []string{"format"}),
		// C18: the three kinds of context, method by method
		ctxSpec("rootContext", "OutputPath", "root_OutputPath", "(p : Pgs.Bytes)", "Pgs.Bytes", "", map[string]string{"c.p": "p"}),
		ctxSpec("dirContext", "OutputPath", "dir_OutputPath", "(parentOutputPath p : Pgs.Bytes)", "Pgs.Bytes", "",
			map[string]string{"c.p": "p", "c.parent.OutputPath()": "parentOutputPath"}),
		ctxSpec("prefixContext", "OutputPath", "prefix_OutputPath", "(parentOutputPath : Pgs.Bytes)", "Pgs.Bytes", "",
			map[string]string{"c.parent.OutputPath()": "parentOutputPath"}),
		ctxSpec("rootContext", "JoinPath", "root_JoinPath", "(outputPath : Pgs.Bytes) (name : List Pgs.Bytes)", "Pgs.Bytes", "",
			map[string]string{"append([]string{c.OutputPath()}, name...)": "(outputPath :: name)"}),
		ctxSpec("dirContext", "JoinPath", "dir_JoinPath", "(outputPath : Pgs.Bytes) (name : List Pgs.Bytes)", "Pgs.Bytes", "",
			map[string]string{"append([]string{c.OutputPath()}, name...)": "(outputPath :: name)"}),
		ctxSpec("prefixContext", "JoinPath", "prefix_JoinPath", "(parentJoinPath : List Pgs.Bytes → Pgs.Bytes) (name : List Pgs.Bytes)", "Pgs.Bytes", "",
			map[string]string{"c.parent.JoinPath(name...)": "(parentJoinPath name)"}),
		ctxSpec("rootContext", "Pop", "root_Pop", "{α : Type} (parent : α)", "Option α", "opt", map[string]string{"c.parent": "parent"}),
		ctxSpec("dirContext", "Pop", "dir_Pop", "{α : Type} (parent : α)", "Option α", "opt", map[string]string{"c.parent": "parent"}),
		ctxSpec("prefixContext", "Pop", "prefix_Pop", "{α : Type} (parent : α)", "Option α", "opt", map[string]string{"c.parent": "parent"}),
		ctxSpec("rootContext", "PopDir", "root_PopDir", "{α : Type} (self : α)", "α", "", map[string]string{"c": "self"}),
		ctxSpec("dirContext", "PopDir", "dir_PopDir", "{α : Type} (selfPop : α)", "α", "", map[string]string{"c.Pop()": "selfPop"}),
		ctxSpec("prefixContext", "PopDir", "prefix_PopDir", "{α : Type} (parentPopDir : α)", "α", "", map[string]string{"c.parent.PopDir()": "parentPopDir"}),
		// the constructor: a root context holds the cleaned output path and the parameters it was given; no parent, the debugger as it is
		{file: "build_context.go", recv: "", name: "Context", lean: "context_Context", pn: []string{"d", "params", "output"},
			binders: "(params : Nat) (output : Pgs.Bytes)", ret: "Pgs.C18.Ctx",
			exprs: map[string]string{"nil": "()", "d": "()", "params": "params", "output": "output"},
			calls: map[string]string{"filepath.Clean": "Pgs.FilePath.clean", "lit:rootContext": "mkRootContext dirContext params",
				"lit:dirContext": "rootDirPart prefixContext p", "lit:prefixContext": "rootPrefixPart parent d"}},
		ctxSpec("", "initPrefixContext", "initPrefixContext", "(c : Pgs.C18.Ctx) (d : List Pgs.Bytes) (pfx : Pgs.Bytes)", "Pgs.C18.Ctx", "",
			map[string]string{"c": "c", "d": "d", "prefix": "pfx"}),
		ctxSpec("", "initDirContext", "initDirContext", "(c : Pgs.C18.Ctx) (d : List Pgs.Bytes) (dir : Pgs.Bytes)", "Pgs.C18.Ctx", "",
			map[string]string{"c": "c", "d": "d", "dir": "dir"}),
		ctxSpec("rootContext", "PushDir", "root_PushDir", "(self : Pgs.C18.Ctx) (dir : Pgs.Bytes)", "Pgs.C18.Ctx", "",
			map[string]string{"c": "self", "c.d": "self.prefixes", "dir": "dir"}),
		ctxSpec("dirContext", "PushDir", "dir_PushDir", "(self : Pgs.C18.Ctx) (dir : Pgs.Bytes)", "Pgs.C18.Ctx", "",
			map[string]string{"c": "self", "c.d": "self.prefixes", "dir": "dir"}),
		ctxSpec("prefixContext", "PushDir", "prefix_PushDir", "(self : Pgs.C18.Ctx) (dir : Pgs.Bytes)", "Pgs.C18.Ctx", "",
			map[string]string{"c": "self", "c.d": "self.prefixes", "dir": "dir"}),
		ctxSpec("rootContext", "Push", "root_Push", "(self : Pgs.C18.Ctx) (pfx : Pgs.Bytes)", "Pgs.C18.Ctx", "",
			map[string]string{"c": "self", "c.d": "self.prefixes", "prefix": "pfx"}),
		ctxSpec("dirContext", "Push", "dir_Push", "(self : Pgs.C18.Ctx) (pfx : Pgs.Bytes)", "Pgs.C18.Ctx", "",
			map[string]string{"c": "self", "c.d": "self.prefixes", "prefix": "pfx"}),
		ctxSpec("prefixContext", "Push", "prefix_Push", "(self : Pgs.C18.Ctx) (pfx : Pgs.Bytes)", "Pgs.C18.Ctx", "",
			map[string]string{"c": "self", "c.d": "self.prefixes", "prefix": "pfx"}),
		ctxSpec("rootContext", "Parameters", "root_Parameters", "{α : Type} (params : α)", "α", "", map[string]string{"c.params": "params"}),
		ctxSpec("prefixContext", "Parameters", "prefix_Parameters", "{α : Type} (parentParameters : α)", "α", "", map[string]string{"c.parent.Parameters()": "parentParameters"}),
	}
}

// the eight case helpers of name.go: which transformers and separator each hands to Transform
func nameHelpers(repo string) (string, error) {
	f := parse(filepath.Join(repo, "name.go"))
	code := map[string]int{"ID": 0, "strings.Title": 1, "strings.ToUpper": 2, "strings.ToLower": 3}
	type row struct {
		pos  token.Pos
		text string
	}
	var rows []row
	for _, d := range f.Decls {
		fd, ok := d.(*ast.FuncDecl)
		if !ok || fd.Recv == nil || fd.Body == nil || len(fd.Body.List) != 1 {
			continue
		}
		ret, ok := fd.Body.List[0].(*ast.ReturnStmt)
		if !ok || len(ret.Results) != 1 {
			continue
		}
		call, ok := ret.Results[0].(*ast.CallExpr)
		if !ok || exprText(call.Fun) != "n.Transform" {
			continue
		}
		if len(call.Args) != 3 {
			return "", fmt.Errorf("name.go %s: Transform with %d arguments", fd.Name.Name, len(call.Args))
		}
		mod, ok1 := code[exprText(call.Args[0])]
		first, ok2 := code[exprText(call.Args[1])]
		sep, ok3 := strLit(call.Args[2])
		if !ok1 || !ok2 || !ok3 {
			return "", fmt.Errorf("name.go %s: unknown transformer or separator", fd.Name.Name)
		}
		rows = append(rows, row{fd.Pos(), fmt.Sprintf("(%q, %d, %d, %s)", fd.Name.Name, first, mod, bytesLit(sep))})
	}
	if len(rows) == 0 {
		return "", fmt.Errorf("name.go: no case helper found")
	}
	sort.Slice(rows, func(i, j int) bool { return rows[i].pos < rows[j].pos })
	var items []string
	for _, r := range rows {
		items = append(items, r.text)
	}
	// Transform's own parameter order
	tf := findFunc(f, "Name", "Transform")
	if tf == nil || tf.Type.Params == nil {
		return "", fmt.Errorf("name.go: Transform not found")
	}
	var pnames []string
	for _, p := range tf.Type.Params.List {
		for _, n := range p.Names {
			pnames = append(pnames, strconv.Quote(n.Name))
		}
	}
	return "/-- name.go: the case helpers in source order: (name, transformer of the first part, of the other parts, separator);\n" +
		"    transformers: 0 = ID, 1 = strings.Title, 2 = strings.ToUpper, 3 = strings.ToLower -/\n" +
		"def nameHelpers : List (String × Nat × Nat × List Nat) :=\n  [" + strings.Join(items, ",\n   ") + "]\n" +
		"/-- name.go: the parameters of `Transform`, in order -/\n" +
		"def transformParams : List String := [" + strings.Join(pnames, ", ") + "]\n", nil
}

// the accept methods: for each container, the children walked (field ranged over, visitor variable
// used for them, method called), in source order
func acceptOrders(repo string) (string, error) {
	targets := []struct{ file, recv string }{{"package.go", "pkg"}, {"file.go", "file"}, {"message.go", "msg"}, {"enum.go", "enum"}, {"service.go", "service"}}
	var out []string
	for _, t := range targets {
		fd := findFunc(parse(filepath.Join(repo, t.file)), t.recv, "accept")
		if fd == nil {
			return "", fmt.Errorf("%s: accept of %s not found", t.file, t.recv)
		}
		recvName := fd.Recv.List[0].Names[0].Name
		var steps []string
		for _, st := range fd.Body.List {
			switch s := st.(type) {
			case *ast.RangeStmt:
				over := strings.TrimPrefix(exprText(s.X), recvName+".")
				val := ""
				if id, ok := s.Value.(*ast.Ident); ok {
					val = id.Name
				}
				// the body must be: if err = <val>.accept(<visitor>); err != nil { return }
				if len(s.Body.List) != 1 {
					return "", fmt.Errorf("%s accept: loop over %s has %d statements", t.recv, over, len(s.Body.List))
				}
				ifs, ok := s.Body.List[0].(*ast.IfStmt)
				if !ok || ifs.Init == nil || ifs.Else != nil || exprText(ifs.Cond) != "err != nil" {
					return "", fmt.Errorf("%s accept: loop over %s is not `if err = x.accept(v); err != nil`", t.recv, over)
				}
				as, ok := ifs.Init.(*ast.AssignStmt)
				if !ok || len(as.Rhs) != 1 || exprText(as.Lhs[0]) != "err" {
					return "", fmt.Errorf("%s accept: loop over %s: unexpected init", t.recv, over)
				}
				call, ok := as.Rhs[0].(*ast.CallExpr)
				if !ok || len(call.Args) != 1 || exprText(call.Fun) != val+".accept" {
					return "", fmt.Errorf("%s accept: loop over %s does not call accept on the loop variable", t.recv, over)
				}
				if len(ifs.Body.List) != 1 {
					return "", fmt.Errorf("%s accept: loop over %s: error branch", t.recv, over)
				}
				if _, ok := ifs.Body.List[0].(*ast.ReturnStmt); !ok {
					return "", fmt.Errorf("%s accept: loop over %s does not return on error", t.recv, over)
				}
				steps = append(steps, fmt.Sprintf("(%q, %q)", over, exprText(call.Args[0])))
			case *ast.IfStmt:
				// the visit itself and the nil-visitor / error guards: recorded by their condition
				init := ""
				if s.Init != nil {
					if as, ok := s.Init.(*ast.AssignStmt); ok && len(as.Rhs) == 1 {
						var lhs []string
						for _, l := range as.Lhs {
							lhs = append(lhs, exprText(l))
						}
						init = strings.Join(lhs, ",") + " = " + exprText(as.Rhs[0]) + "; "
					}
				}
				steps = append(steps, fmt.Sprintf("(%q, %q)", "if", init+exprText(s.Cond)))
			case *ast.ReturnStmt:
				steps = append(steps, `("return", "")`)
			default:
				return "", fmt.Errorf("%s accept: statement of kind %T", t.recv, st)
			}
		}
		out = append(out, fmt.Sprintf("(%q, [%s])", t.recv, strings.Join(steps, ", ")))
	}
	return "/-- the accept methods, statement by statement: (\"if\", guard) for the visit and the guards around it,\n" +
		"    (children ranged over, visitor handed to them) for every loop `if err = child.accept(v); err != nil { return }` -/\n" +
		"def acceptOrders : List (String × List (String × String)) :=\n  [" + strings.Join(out, ",\n   ") + "]\n", nil
}

// field_type.go / field_type_elem.go: the structs implementing FieldType(Elem), what each embeds, and the
// predicates each declares itself as a constant (`func (x *T) IsMap() bool { return true }`)
func typePredicates(repo string) (string, error) {
	var embeds, preds []string
	for _, file := range []string{"field_type.go", "field_type_elem.go"} {
		f := parse(filepath.Join(repo, file))
		for _, d := range f.Decls {
			switch x := d.(type) {
			case *ast.GenDecl:
				if x.Tok != token.TYPE {
					continue
				}
				for _, sp := range x.Specs {
					ts := sp.(*ast.TypeSpec)
					st, ok := ts.Type.(*ast.StructType)
					if !ok {
						continue
					}
					for _, fl := range st.Fields.List {
						if len(fl.Names) == 0 { // embedded
							embeds = append(embeds, fmt.Sprintf("(%q, %q)", ts.Name.Name, strings.TrimPrefix(exprText(fl.Type), "*")))
						}
					}
				}
			case *ast.FuncDecl:
				if x.Recv == nil || x.Body == nil || !strings.HasPrefix(x.Name.Name, "Is") || len(x.Body.List) != 1 {
					continue
				}
				ret, ok := x.Body.List[0].(*ast.ReturnStmt)
				if !ok || len(ret.Results) != 1 {
					continue
				}
				id, ok := ret.Results[0].(*ast.Ident)
				if !ok || (id.Name != "true" && id.Name != "false") {
					continue
				}
				recv := strings.TrimPrefix(exprText(x.Recv.List[0].Type), "*")
				preds = append(preds, fmt.Sprintf("(%q, %q, %s)", recv, x.Name.Name, id.Name))
			}
		}
	}
	if len(preds) == 0 {
		return "", fmt.Errorf("field_type.go: no constant predicate found")
	}
	sort.Strings(embeds)
	sort.Strings(preds)
	return "/-- field_type.go, field_type_elem.go: (struct, struct it embeds) -/\n" +
		"def typeEmbeds : List (String × String) :=\n  [" + strings.Join(embeds, ", ") + "]\n" +
		"/-- … and the predicates a struct declares itself, with the constant each returns -/\n" +
		"def typePreds : List (String × String × Bool) :=\n  [" + strings.Join(preds, ",\n   ") + "]\n", nil
}

// the childAtPath methods (file, message, enum, service): the guards on the path's length and, per
// path constant, the child list indexed - in source order
func childAtPaths(repo string) (string, error) {
	targets := []struct{ file, recv string }{{"file.go", "file"}, {"message.go", "msg"}, {"enum.go", "enum"}, {"service.go", "service"}}
	var out, disp []string
	for _, t := range targets {
		fd := findFunc(parse(filepath.Join(repo, t.file)), t.recv, "childAtPath")
		if fd == nil {
			return "", fmt.Errorf("%s: childAtPath of %s not found", t.file, t.recv)
		}
		recvName := fd.Recv.List[0].Names[0].Name
		var steps, cases []string
		var walk func(list []ast.Stmt) error
		sel := func(e ast.Expr) (string, bool) { // <recv>.<list>[path[1]]  (optionally followed by .childAtPath(path[2:]))
			if call, ok := e.(*ast.CallExpr); ok {
				if s, ok := call.Fun.(*ast.SelectorExpr); ok && s.Sel.Name == "childAtPath" && len(call.Args) == 1 && exprText(call.Args[0]) == "path[2:]" {
					e = s.X
				}
			}
			ix, ok := e.(*ast.IndexExpr)
			if !ok || exprText(ix.Index) != "path[1]" {
				return "", false
			}
			return strings.TrimPrefix(exprText(ix.X), recvName+"."), true
		}
		walk = func(list []ast.Stmt) error {
			for _, st := range list {
				switch x := st.(type) {
				case *ast.SwitchStmt:
					tag := ""
					if x.Tag != nil {
						tag = exprText(x.Tag)
					}
					for _, cl := range x.Body.List {
						cc := cl.(*ast.CaseClause)
						var conds []string
						for _, e := range cc.List {
							conds = append(conds, exprText(e))
						}
						cond := strings.Join(conds, ",")
						if cc.List == nil {
							cond = "default"
						}
						what := "?"
						if len(cc.Body) == 1 {
							switch b := cc.Body[0].(type) {
							case *ast.ReturnStmt:
								if len(b.Results) == 1 {
									if l, ok := sel(b.Results[0]); ok {
										what = "descend:" + l
									} else {
										what = "return " + exprText(b.Results[0])
									}
								}
							case *ast.AssignStmt:
								if len(b.Rhs) == 1 {
									if l, ok := sel(b.Rhs[0]); ok {
										what = "child:" + l
									}
								}
							}
						}
						if what == "?" {
							return fmt.Errorf("%s childAtPath: case %s has an unknown body", t.recv, cond)
						}
						if strings.HasPrefix(what, "child:") || strings.HasPrefix(what, "descend:") {
							// which path constant selects which list
							k := strings.TrimSpace(strings.TrimPrefix(cond, "path[0] =="))
							if (tag != "path[0]" && k == cond) || strings.ContainsAny(k, " ,=") {
								return fmt.Errorf("%s childAtPath: case %q is not a comparison of path[0] with one constant", t.recv, cond)
							}
							cases = append(cases, fmt.Sprintf("(%q, %q)", k, what[strings.Index(what, ":")+1:]))
							what = what[:strings.Index(what, ":")]
							cond = "path[0] == <constant>"
						} else if tag != "" {
							cond = tag + " == " + cond
						}
						steps = append(steps, fmt.Sprintf("(%q, %q)", cond, what))
					}
				case *ast.ReturnStmt:
					steps = append(steps, fmt.Sprintf("(%q, %q)", "return", exprText(x.Results[0])))
				case *ast.DeclStmt:
				default:
					return fmt.Errorf("%s childAtPath: statement of kind %T", t.recv, st)
				}
			}
			return nil
		}
		if err := walk(fd.Body.List); err != nil {
			return "", err
		}
		out = append(out, fmt.Sprintf("(%q, [%s])", t.recv, strings.Join(steps, ", ")))
		disp = append(disp, fmt.Sprintf("(%q, [%s])", t.recv, strings.Join(cases, ", ")))
	}
	return "/-- the childAtPath methods: (condition, what happens) in source order; `child` / `descend`: element `path[1]` of the\n" +
		"    list the constant selects is the child that the rest of the path (`path[2:]`) is handed to -/\n" +
		"def childAtShape : List (String × List (String × String)) :=\n  [" + strings.Join(out, ",\n   ") + "]\n" +
		"/-- … and which path constant selects which list -/\n" +
		"def childAtDispatch : List (String × List (String × String)) :=\n  [" + strings.Join(disp, ",\n   ") + "]\n", nil
}

// the workflow (workflow.go, generator.go): per function, the sequence of effectful steps in source
// order. A step is a call with its arguments; message strings and calls of Debug are left out (wording
// is not behaviour); `range X { … }` and `Once.Do(func() { … })` bracket the steps inside them.
type stepTarget struct{ file, recv, name string }

func workflowSteps(repo string) (string, error) {
	return stepTable(repo, "workflowSteps", "workflow.go, generator.go", []stepTarget{
		{"workflow.go", "standardWorkflow", "Init"}, {"workflow.go", "standardWorkflow", "Run"}, {"workflow.go", "standardWorkflow", "Persist"},
		{"workflow.go", "onceWorkflow", "Init"}, {"workflow.go", "onceWorkflow", "Run"}, {"workflow.go", "onceWorkflow", "Persist"},
		{"generator.go", "Generator", "AST"}, {"generator.go", "Generator", "Render"}})
}

// ast.go: the entry points and the registry of the graph
func astEntrySteps(repo string) (string, error) {
	return stepTable(repo, "astEntrySteps", "ast.go", []stepTarget{
		{"ast.go", "", "ProcessDescriptors"}, {"ast.go", "", "ProcessCodeGeneratorRequest"}, {"ast.go", "", "ProcessCodeGeneratorRequestBidirectional"},
		{"ast.go", "", "ProcessFileDescriptorSet"}, {"ast.go", "", "ProcessFileDescriptorSetBidirectional"},
		{"ast.go", "graph", "hydratePackage"}, {"ast.go", "graph", "mustSeen"}, {"ast.go", "graph", "add"}, {"ast.go", "graph", "resolveFQN"},
		{"ast.go", "graph", "Lookup"}, {"ast.go", "graph", "Targets"}, {"ast.go", "graph", "Packages"}, {"ast.go", "", "assignDependent"}})
}

// generator.go / module.go / persister.go: registration of modules and post-processors, and ModuleBase's bookkeeping of artifacts
func moduleSteps(repo string) (string, error) {
	ts := []stepTarget{{"generator.go", "Generator", "RegisterModule"}, {"generator.go", "Generator", "RegisterPostProcessor"},
		{"persister.go", "stdPersister", "AddPostProcessor"}, {"persister.go", "stdPersister", "SetFS"}, {"persister.go", "stdPersister", "SetSupportedFeatures"}}
	for _, n := range []string{"InitContext", "Name", "Execute", "Push", "PushDir", "Pop", "PopDir", "Artifacts", "AddArtifact", "AddGeneratorFile", "OverwriteGeneratorFile",
		"AddGeneratorTemplateFile", "OverwriteGeneratorTemplateFile", "AddGeneratorAppend", "AddGeneratorTemplateAppend", "AddGeneratorInjection",
		"AddGeneratorTemplateInjection", "AddCustomFile", "OverwriteCustomFile", "AddCustomTemplateFile", "OverwriteCustomTemplateFile", "AddError"} {
		ts = append(ts, stepTarget{"module.go", "ModuleBase", n})
	}
	return stepTable(repo, "moduleSteps", "generator.go, persister.go, module.go", ts)
}

// the import listings (C04): Imports of every entity kind and field type, UnusedImports and Dependents of a file
func importSteps(repo string) (string, error) {
	return stepTable(repo, "importSteps", "file.go, message.go, field.go, oneof.go, method.go, service.go, enum.go, enum_value.go, field_type.go, field_type_elem.go", []stepTarget{
		{"file.go", "file", "Imports"}, {"file.go", "file", "UnusedImports"}, {"file.go", "file", "Dependents"},
		{"message.go", "msg", "Imports"}, {"field.go", "field", "Imports"}, {"oneof.go", "oneof", "Imports"},
		{"method.go", "method", "Imports"}, {"service.go", "service", "Imports"}, {"enum.go", "enum", "Imports"}, {"enum_value.go", "enumVal", "Imports"},
		{"field_type.go", "scalarT", "Imports"}, {"field_type.go", "enumT", "Imports"}, {"field_type.go", "embedT", "Imports"},
		{"field_type.go", "repT", "Imports"},
		{"field_type_elem.go", "scalarE", "Imports"}, {"field_type_elem.go", "enumE", "Imports"}, {"field_type_elem.go", "embedE", "Imports"}})
}

// lang/go/name.go: which rule names which kind of node (the type switch of Name), the wrapper's conflict loop, the walk of uniqueNames
func goNameSteps(repo string) (string, error) {
	return stepTable(repo, "goNameSteps", "lang/go/name.go", []stepTarget{
		{"lang/go/name.go", "context", "Name"}, {"lang/go/name.go", "context", "OneofOption"}, {"lang/go/name.go", "", "uniqueNames"}})
}

// source locations (C08): the loop that attaches them, and where each kind of entity keeps and returns its own
func sciSteps(repo string) (string, error) {
	ts := []stepTarget{{"ast.go", "graph", "hydrateSourceCodeInfo"}, {"file.go", "file", "addSourceCodeInfo"}, {"file.go", "file", "addPackageSourceCodeInfo"},
		{"file.go", "file", "SourceCodeInfo"}, {"file.go", "file", "SyntaxSourceCodeInfo"}, {"file.go", "file", "PackageSourceCodeInfo"}}
	for _, k := range [][2]string{{"message.go", "msg"}, {"enum.go", "enum"}, {"enum_value.go", "enumVal"}, {"field.go", "field"}, {"oneof.go", "oneof"}, {"service.go", "service"}, {"method.go", "method"}} {
		ts = append(ts, stepTarget{k[0], k[1], "addSourceCodeInfo"}, stepTarget{k[0], k[1], "SourceCodeInfo"})
	}
	return stepTable(repo, "sciSteps", "ast.go and the entity files", ts)
}

// node.go: Walk, the two stock visitors, and the leaf accept methods (C07)
func walkSteps(repo string) (string, error) {
	ts := []stepTarget{{"node.go", "", "Walk"}, {"node.go", "", "NilVisitor"}, {"node.go", "", "PassThroughVisitor"}}
	for _, k := range []string{"Package", "File", "Message", "Enum", "EnumValue", "Field", "Extension", "OneOf", "Service", "Method"} {
		ts = append(ts, stepTarget{"node.go", "nilVisitor", "Visit" + k}, stepTarget{"node.go", "passVisitor", "Visit" + k})
	}
	ts = append(ts, stepTarget{"package.go", "pkg", "accept"}, stepTarget{"enum_value.go", "enumVal", "accept"}, stepTarget{"field.go", "field", "accept"},
		stepTarget{"extension.go", "ext", "accept"}, stepTarget{"oneof.go", "oneof", "accept"}, stepTarget{"method.go", "method", "accept"})
	return stepTable(repo, "walkSteps", "node.go and the leaf accept methods", ts)
}

// lang/go/parameters.go: the helpers over the plugin parameters and the keys they use
func goParamSteps(repo string) (string, error) {
	var ts []stepTarget
	for _, n := range []string{"Plugins", "HasPlugin", "AddPlugin", "EnableAllPlugins", "ImportPath", "SetImportPath", "Paths", "SetPaths", "MappedImport", "AddImportMapping"} {
		ts = append(ts, stepTarget{"lang/go/parameters.go", "", n})
	}
	t, err := stepTable(repo, "goParamSteps", "lang/go/parameters.go", ts)
	if err != nil {
		return "", err
	}
	consts := constExprs(parse(filepath.Join(repo, "lang/go/parameters.go")))
	var rows []string
	for _, n := range []string{"importPathKey", "importMapKeyPrefix", "pathTypeKey", "pluginsKey", "pluginsSep", "ImportPathRelative", "SourceRelative"} {
		v, ok := strLit(consts[n])
		if !ok {
			return "", fmt.Errorf("lang/go/parameters.go: constant %s is not a string literal", n)
		}
		rows = append(rows, fmt.Sprintf("(%q, %q)", n, v))
	}
	return t + "/-- lang/go/parameters.go: the parameter keys and values -/\ndef goParamConsts : List (String × String) :=\n  [" + strings.Join(rows, ", ") + "]\n", nil
}

// generator.go / init_option.go: how a Generator is put together
func initSteps(repo string) (string, error) {
	ts := []stepTarget{{"generator.go", "", "Init"}}
	for _, n := range []string{"ProtocInput", "ProtocOutput", "DebugMode", "DebugEnv", "MutateParams", "FileSystem", "BiDirectional", "SupportedFeatures"} {
		ts = append(ts, stepTarget{"init_option.go", "", n})
	}
	ts = append(ts, stepTarget{"persister.go", "", "newPersister"}, stepTarget{"persister.go", "stdPersister", "SetDebugger"})
	return stepTable(repo, "initSteps", "generator.go, init_option.go, persister.go", ts)
}

// lang/go/camel.go: the camel-casing of identifiers (protoc-gen-go's GoCamelCase, ported)
func camelSteps(repo string) (string, error) {
	return stepTable(repo, "camelSteps", "lang/go/camel.go", []stepTarget{
		{"lang/go/camel.go", "", "PGGUpperCamelCase"}, {"lang/go/camel.go", "", "camelCase"}, {"lang/go/camel.go", "", "isASCIILower"}, {"lang/go/camel.go", "", "isASCIIDigit"}})
}

// lang/go/package.go: the pattern whose matches are replaced by "_" in package names
func packagePattern(repo string) (string, error) {
	f := parse(filepath.Join(repo, "lang/go/package.go"))
	for _, d := range f.Decls {
		gd, ok := d.(*ast.GenDecl)
		if !ok || gd.Tok != token.VAR {
			continue
		}
		for _, sp := range gd.Specs {
			vs := sp.(*ast.ValueSpec)
			for i, n := range vs.Names {
				if n.Name != "nonAlphaNumPattern" || i >= len(vs.Values) {
					continue
				}
				call, ok := vs.Values[i].(*ast.CallExpr)
				if !ok || exprText(call.Fun) != "regexp.MustCompile" || len(call.Args) != 1 {
					return "", fmt.Errorf("lang/go/package.go: nonAlphaNumPattern is not regexp.MustCompile(<literal>)")
				}
				lit, ok := strLit(call.Args[0])
				if !ok {
					return "", fmt.Errorf("lang/go/package.go: nonAlphaNumPattern is not compiled from a string literal")
				}
				return "/-- lang/go/package.go: the regular expression `nonAlphaNumPattern` is compiled from -/\ndef nonAlphaNumPattern : String := " + strconv.Quote(lit) + "\n", nil
			}
		}
	}
	return "", fmt.Errorf("lang/go/package.go: nonAlphaNumPattern not found")
}

// persister.go: the steps of Persist - the loop over the artifacts and, per artifact type, what is done with it
func persistSteps(repo string) (string, error) {
	t, err := stepTable(repo, "persistSteps", "persister.go", []stepTarget{{"persister.go", "stdPersister", "Persist"}})
	if err != nil {
		return "", err
	}
	// the clauses of the type switch, each with its own steps (brackets inside a clause kept)
	var arms []string
	var cur []string
	head, depth := "", 0
	for _, st := range lastSteps["stdPersister.Persist"] {
		switch {
		case head == "":
			if strings.HasPrefix(st, "case ") || st == "default {" {
				head, cur, depth = st, nil, 0
			}
		case st == "}" && depth == 0:
			var q []string
			for _, x := range cur {
				q = append(q, strconv.Quote(x))
			}
			arms = append(arms, fmt.Sprintf("(%q, [%s])", strings.TrimSuffix(strings.TrimPrefix(head, "case "), " {"), strings.Join(q, ",\n     ")))
			head = ""
		default:
			if st == "}" {
				depth--
			} else if strings.HasSuffix(st, "{") {
				depth++
			}
			cur = append(cur, st)
		}
	}
	return t + "/-- persister.go: the clauses of Persist's type switch, by the type they handle -/\n" +
		"def persistArms : List (String × List String) :=\n  [" + strings.Join(arms, ",\n   ") + "]\n", nil
}

// comment.go: the steps of C, C80 and commentScanner, and the constants they are written with
func commentSteps(repo string) (string, error) {
	t, err := stepTable(repo, "commentSteps", "comment.go", []stepTarget{{"comment.go", "", "C"}, {"comment.go", "", "C80"}, {"comment.go", "", "commentScanner"}})
	if err != nil {
		return "", err
	}
	f := parse(filepath.Join(repo, "comment.go"))
	prefix, ok := strLit(constExprs(f)["commentPrefix"])
	if !ok {
		return "", fmt.Errorf("comment.go: commentPrefix is not a string literal")
	}
	// the width handed to the split function: `splitComment(wrap - K)`
	off := ""
	ast.Inspect(f, func(n ast.Node) bool {
		if c, ok := n.(*ast.CallExpr); ok && exprText(c.Fun) == "splitComment" && len(c.Args) == 1 {
			if b, ok := c.Args[0].(*ast.BinaryExpr); ok && b.Op == token.SUB && exprText(b.X) == "wrap" {
				if bl, ok := b.Y.(*ast.BasicLit); ok && bl.Kind == token.INT {
					off = bl.Value
				}
			}
		}
		return true
	})
	if off == "" {
		return "", fmt.Errorf("comment.go: the split width is not `wrap - <constant>`")
	}
	return t + "/-- comment.go: the marker, and what is taken off the requested width for it -/\n" +
		"def commentPrefix : List Nat := " + bytesLit(prefix) + "   -- " + strconv.Quote(prefix) + "\n" +
		"def commentWidthOffset : Nat := " + off + "\n", nil
}

// the raw step lists of the functions stepTable has read (for tables derived from them)
var lastSteps = map[string][]string{}

func stepTable(repo, defName, what string, targets []stepTarget) (string, error) {
	callText := func(c *ast.CallExpr) string {
		var args []string
		fn := exprText(c.Fun)
		if i := strings.LastIndex(fn, "."); i >= 0 {
			fn = fn[i+1:]
		}
		reports := map[string]bool{"Debug": true, "Debugf": true, "Log": true, "Logf": true, "Fail": true, "Failf": true, "CheckErr": true, "Assert": true, "panic": true, "Errorf": true}[fn]
		for _, a := range c.Args {
			if bl, ok := a.(*ast.BasicLit); ok && bl.Kind == token.STRING && reports {
				continue // the wording of a message is not behaviour
			}
			t := exprText(a)
			if c.Ellipsis.IsValid() && a == c.Args[len(c.Args)-1] {
				t += "..."
			}
			args = append(args, t)
		}
		return exprText(c.Fun) + "(" + strings.Join(args, ", ") + ")"
	}
	var out []string
	for _, t := range targets {
		fd := findFunc(parse(filepath.Join(repo, t.file)), t.recv, t.name)
		if fd == nil {
			return "", fmt.Errorf("%s: %s.%s not found", t.file, t.recv, t.name)
		}
		var steps []string
		var walk func(list []ast.Stmt) error
		stepOf := func(e ast.Expr, lhs string) error {
			c, ok := e.(*ast.CallExpr)
			if !ok {
				if _, isLit := e.(*ast.FuncLit); isLit {
					steps = append(steps, lhs+"<function literal>") // translated on its own where it matters
					return nil
				}
				if lhs != "" {
					steps = append(steps, lhs+exprText(e))
				}
				return nil
			}
			if strings.HasSuffix(exprText(c.Fun), ".Debug") || strings.HasSuffix(exprText(c.Fun), ".Debugf") {
				return nil
			}
			// x.Do(func() { ... }): the steps inside, bracketed
			if sel, ok := c.Fun.(*ast.SelectorExpr); ok && sel.Sel.Name == "Do" && len(c.Args) == 1 {
				if fl, ok := c.Args[0].(*ast.FuncLit); ok {
					steps = append(steps, "once "+exprText(sel.X)+" {")
					if err := walk(fl.Body.List); err != nil {
						return err
					}
					steps = append(steps, "}")
					return nil
				}
			}
			steps = append(steps, lhs+callText(c))
			return nil
		}
		walk = func(list []ast.Stmt) error {
			for _, st := range list {
				switch x := st.(type) {
				case *ast.ExprStmt:
					if err := stepOf(x.X, ""); err != nil {
						return err
					}
				case *ast.AssignStmt:
					var lhs []string
					for _, l := range x.Lhs {
						lhs = append(lhs, exprText(l))
					}
					asg := " = "
					if x.Tok != token.ASSIGN && x.Tok != token.DEFINE {
						asg = " " + x.Tok.String() + " " // `c ^= ' '`, `n += "_"`: the operator is part of the step
					}
					if len(x.Rhs) != 1 {
						// `a, b = e1, e2`: by its text
						var rhs []string
						for _, r := range x.Rhs {
							rhs = append(rhs, exprText(r))
						}
						steps = append(steps, strings.Join(lhs, ", ")+asg+strings.Join(rhs, ", "))
						continue
					}
					if err := stepOf(x.Rhs[0], strings.Join(lhs, ", ")+asg); err != nil {
						return err
					}
				case *ast.RangeStmt:
					steps = append(steps, "range "+exprText(x.X)+" {")
					if err := walk(x.Body.List); err != nil {
						return err
					}
					steps = append(steps, "}")
				case *ast.ForStmt:
					if x.Cond == nil {
						return fmt.Errorf("%s.%s: for statement without a condition", t.recv, t.name)
					}
					head := "for "
					if x.Init != nil {
						head += strings.Join(strings.Fields(stmtText(x.Init)), " ")
					}
					if x.Init != nil || x.Post != nil {
						head += "; "
					}
					head += exprText(x.Cond)
					if x.Post != nil {
						head += "; " + strings.Join(strings.Fields(stmtText(x.Post)), " ")
					}
					steps = append(steps, head+" {")
					if err := walk(x.Body.List); err != nil {
						return err
					}
					steps = append(steps, "}")
				case *ast.IfStmt:
					head := "if "
					if x.Init != nil {
						a, ok := x.Init.(*ast.AssignStmt)
						if !ok || len(a.Rhs) != 1 {
							return fmt.Errorf("%s.%s: if with an init that is not an assignment", t.recv, t.name)
						}
						var lhs []string
						for _, l := range a.Lhs {
							lhs = append(lhs, exprText(l))
						}
						head += strings.Join(lhs, ", ") + " = " + exprText(a.Rhs[0]) + "; "
					}
					steps = append(steps, head+exprText(x.Cond)+" {")
					if err := walk(x.Body.List); err != nil {
						return err
					}
					for el := x.Else; el != nil; {
						switch e := el.(type) {
						case *ast.BlockStmt:
							steps = append(steps, "} else {")
							if err := walk(e.List); err != nil {
								return err
							}
							el = nil
						case *ast.IfStmt:
							if e.Init != nil {
								return fmt.Errorf("%s.%s: else-if with init", t.recv, t.name)
							}
							steps = append(steps, "} else if "+exprText(e.Cond)+" {")
							if err := walk(e.Body.List); err != nil {
								return err
							}
							el = e.Else
						default:
							return fmt.Errorf("%s.%s: else branch", t.recv, t.name)
						}
					}
					steps = append(steps, "}")
				case *ast.TypeSwitchStmt:
					// `switch a := a.(type)`: one bracket per clause, named by the types it lists
					for _, cl := range x.Body.List {
						cc := cl.(*ast.CaseClause)
						var ts []string
						for _, t := range cc.List {
							ts = append(ts, exprText(t))
						}
						if cc.List == nil {
							steps = append(steps, "default {")
						} else {
							steps = append(steps, "case "+strings.Join(ts, ", ")+" {")
						}
						if err := walk(cc.Body); err != nil {
							return err
						}
						steps = append(steps, "}")
					}
				case *ast.SwitchStmt:
					if x.Init != nil {
						return fmt.Errorf("%s.%s: switch with init", t.recv, t.name)
					}
					tag := ""
					if x.Tag != nil {
						tag = exprText(x.Tag) + " "
					}
					steps = append(steps, "switch "+tag+"{")
					for _, cl := range x.Body.List {
						cc := cl.(*ast.CaseClause)
						var vs []string
						for _, v := range cc.List {
							vs = append(vs, exprText(v))
						}
						if cc.List == nil {
							steps = append(steps, "default {")
						} else {
							steps = append(steps, "case "+strings.Join(vs, ", ")+" {")
						}
						if err := walk(cc.Body); err != nil {
							return err
						}
						steps = append(steps, "}")
					}
					steps = append(steps, "}")
				case *ast.DeclStmt:
					// a local type or variable declaration: by its text
					steps = append(steps, "decl "+strings.Join(strings.Fields(stmtText(x)), " "))
				case *ast.IncDecStmt:
					steps = append(steps, exprText(x.X)+x.Tok.String())
				case *ast.BranchStmt:
					steps = append(steps, x.Tok.String())
				case *ast.ReturnStmt:
					if len(x.Results) == 0 {
						steps = append(steps, "return")
					} else if fl, isLit := x.Results[0].(*ast.FuncLit); isLit && len(x.Results) == 1 {
						// `return func(...) { ... }`: the steps of the function returned, bracketed
						steps = append(steps, "return func {")
						if err := walk(fl.Body.List); err != nil {
							return err
						}
						steps = append(steps, "}")
					} else if len(x.Results) == 1 {
						if c, ok := x.Results[0].(*ast.CallExpr); ok {
							steps = append(steps, "return "+callText(c))
						} else {
							steps = append(steps, "return "+exprText(x.Results[0]))
						}
					} else {
						var rs []string
						for _, r := range x.Results {
							rs = append(rs, exprText(r))
						}
						steps = append(steps, "return "+strings.Join(rs, ", "))
					}
				default:
					return fmt.Errorf("%s.%s: statement of kind %T", t.recv, t.name, st)
				}
			}
			return nil
		}
		if err := walk(fd.Body.List); err != nil {
			return "", err
		}
		var q []string
		for _, st := range steps {
			q = append(q, strconv.Quote(st))
		}
		out = append(out, fmt.Sprintf("(%q, [%s])", t.recv+"."+t.name, strings.Join(q, ",\n     ")))
		lastSteps[t.recv+"."+t.name] = steps
	}
	return "/-- " + what + ": the effectful steps of each function, in source order (messages and Debug calls left out) -/\n" +
		"def " + defName + " : List (String × List String) :=\n  [" + strings.Join(out, ",\n   ") + "]\n", nil
}

// the hydrate functions of ast.go: in source order, the registration of the entity itself (`g.add`),
// every loop over a descriptor list with the hydrate function it feeds, and the other graph calls
func hydratePhases(repo string) (string, error) {
	f := parse(filepath.Join(repo, "ast.go"))
	var out []string
	for _, name := range []string{"hydrateFile", "hydrateMessage", "hydrateEnum", "hydrateService", "hydrateMethod", "hydrateEnumValue", "hydrateField", "hydrateOneOf", "hydrateExtension"} {
		fd := findFunc(f, "graph", name)
		if fd == nil {
			return "", fmt.Errorf("ast.go: %s not found", name)
		}
		// locals initialised from a descriptor getter: `enums := f.GetEnumType()`
		getterOf := map[string]string{}
		var steps []string
		callee := func(n ast.Node, prefix string) string {
			found := ""
			ast.Inspect(n, func(x ast.Node) bool {
				if c, ok := x.(*ast.CallExpr); ok && found == "" {
					if t := exprText(c.Fun); strings.HasPrefix(t, prefix) {
						found = strings.TrimPrefix(t, "g.")
					}
				}
				return found == ""
			})
			return found
		}
		getter := func(e ast.Expr) string {
			if id, ok := e.(*ast.Ident); ok {
				return getterOf[id.Name]
			}
			if c, ok := e.(*ast.CallExpr); ok {
				if sel, ok := c.Fun.(*ast.SelectorExpr); ok {
					return sel.Sel.Name
				}
			}
			return exprText(e)
		}
		for _, st := range fd.Body.List {
			switch x := st.(type) {
			case *ast.AssignStmt:
				if len(x.Lhs) == 1 && len(x.Rhs) == 1 {
					if id, ok := x.Lhs[0].(*ast.Ident); ok {
						if c, ok := x.Rhs[0].(*ast.CallExpr); ok {
							if sel, ok := c.Fun.(*ast.SelectorExpr); ok && strings.HasPrefix(sel.Sel.Name, "Get") {
								getterOf[id.Name] = sel.Sel.Name
							}
						}
					}
					if t := exprText(x.Lhs[0]); strings.HasSuffix(t, ".fqn") {
						steps = append(steps, fmt.Sprintf("(%q, %q)", "fqn", callee(x.Rhs[0], "fullyQualifiedName")))
					}
				}
				if c := callee(x, "g.mustSeen"); c != "" {
					steps = append(steps, fmt.Sprintf("(%q, %q)", "resolve", exprText(x.Rhs[0])))
				}
			case *ast.ExprStmt:
				t := exprText(x.X)
				if strings.HasPrefix(t, "g.add(") {
					steps = append(steps, `("add", "")`)
				} else if strings.HasPrefix(t, "g.hydrate") {
					steps = append(steps, fmt.Sprintf("(%q, %q)", "call", callee(x, "g.hydrate")))
				}
			case *ast.RangeStmt:
				h := callee(x.Body, "g.hydrate")
				if h == "" {
					h = callee(x.Body, "g.mustSeen")
				}
				steps = append(steps, fmt.Sprintf("(%q, %q)", getter(x.X), h))
			}
		}
		out = append(out, fmt.Sprintf("(%q, [%s])", name, strings.Join(steps, ", ")))
	}
	return "/-- ast.go: the hydrate functions, in source order: (\"fqn\", how the name is built), (\"add\", \"\") the registration of the entity,\n" +
		"    (descriptor list ranged over, function each element is handed to), (\"resolve\", …) look-ups made on the spot, (\"call\", …) -/\n" +
		"def hydratePhases : List (String × List (String × String)) :=\n  [" + strings.Join(out, ",\n   ") + "]\n", nil
}

func genCode(repo string) (map[string]string, error) {
	files := map[string]string{}
	var b strings.Builder
	b.WriteString("import PgsVerif.Model.FilePath\nimport PgsVerif.Model.GoTypes\nimport PgsVerif.Model.Context\nimport PgsVerif.Model.Params\nimport PgsVerif.Model.GoNames\nimport PgsVerif.Model.Persist\nimport PgsVerif.Model.Closure\nimport PgsVerif.Generated.Tables\n")
	b.WriteString("/- GENERATED by harness/cmd/factgen (codegen.go) from the current source of protoc-gen-star. Do not edit:\n")
	b.WriteString("   regenerated (and overwritten) on every run of ./check and of setup.sh. -/\n")
	b.WriteString("set_option linter.unusedVariables false\nnamespace Pgs.GenCode\n\n")
	b.WriteString("/-- what the presence / label logic of field.go reads from a field -/\n")
	b.WriteString("structure FieldEnv where\n  inOneOf : Bool\n  isEmbed : Bool\n  isRepeated : Bool\n  isMap : Bool\n  syn : Pgs.Bytes\n  proto3Optional : Bool\n  label : Nat\n\n")
	b.WriteString("/-- what oneof.go's IsSynthetic reads from a oneof -/\n")
	b.WriteString("structure OneofEnv where\n  syn : Pgs.Bytes\n  nflds : Nat\n  firstInRealOneOf : Bool\n\n")
	b.WriteString("def hasPrefix (s p : Pgs.Bytes) : Bool := Pgs.isPrefixOfB p s\n")
	b.WriteString("/-- `fmt.Sprintf(format, strings...)` for formats whose only verb is `%s` -/\n")
	b.WriteString("def sprintfAux : Pgs.Bytes → List Pgs.Bytes → Pgs.Bytes\n  | 37 :: 115 :: rest, a :: as => a ++ sprintfAux rest as\n  | c :: rest, as => c :: sprintfAux rest as\n  | [], _ => []\n")
	b.WriteString("def sprintf : List Pgs.Bytes → Pgs.Bytes\n  | [] => []\n  | fmt :: args => sprintfAux fmt args\n")
	b.WriteString("/-- what lang/go/type_name.go's `Type` reads from a field and its type -/\n")
	b.WriteString("structure TypeEnv where\n  isMap : Bool\n  isRepeated : Bool\n  isEmbed : Bool\n  isEnum : Bool\n  keyScalar : Pgs.Bytes\n  elType : Pgs.Bytes\n  embedName : Pgs.Bytes\n  enumName : Pgs.Bytes\n  scalar : Pgs.Bytes\n  hasPresence : Bool\n")
	b.WriteString("structure ElemEnv where\n  isEnum : Bool\n  isEmbed : Bool\n  enumName : Pgs.Bytes\n  embedName : Pgs.Bytes\n  scalar : Pgs.Bytes\n\n")
	b.WriteString("def toSlashUnix (p : Pgs.Bytes) : Pgs.Bytes := p\n")
	b.WriteString("/-- strconv / strings, in terms of the model's codecs (errors carry no information the properties use) -/\n")
	b.WriteString("def optE {α : Type} (o : Option α) : Except Pgs.Bytes α := match o with | some v => .ok v | none => .error [101]\n")
	b.WriteString("def atoi (s : Pgs.Bytes) : Except Pgs.Bytes Int := optE (Pgs.C19.parseInt s)\n")
	b.WriteString("def parseUintE (s : Pgs.Bytes) (base bits : Nat) : Except Pgs.Bytes Nat := if base == 10 && bits == 64 then optE (Pgs.C19.parseUint s) else .error [98]\n")
	b.WriteString("def formatUintB (n base : Nat) : Pgs.Bytes := if base == 10 then Pgs.C19.formatNat n else []\n")
	b.WriteString("def parseBoolE (s : Pgs.Bytes) : Except Pgs.Bytes Bool := optE (Pgs.C19.parseBool s)\n")
	b.WriteString("def sortStrings (l : List Pgs.Bytes) : List Pgs.Bytes := l.mergeSort Pgs.C19.leB\n")
	b.WriteString("def joinStr (l : List Pgs.Bytes) (sep : Pgs.Bytes) : Pgs.Bytes := Pgs.joinWith sep l\n")
	b.WriteString("def splitStr (s sep : Pgs.Bytes) : List Pgs.Bytes := match sep with | [c] => Pgs.splitOn c s | _ => [s]\n")
	b.WriteString("/-- `strings.Index` for a one-byte separator: position of its first occurrence, -1 if none -/\n")
	b.WriteString("def indexStr (s sep : Pgs.Bytes) : Int := match sep with | [c] => (if s.contains c then Int.ofNat (s.takeWhile (· != c)).length else -1) | _ => -1\n")
	b.WriteString("def trimSpaceB (s : Pgs.Bytes) : Pgs.Bytes := ((s.dropWhile Pgs.C19.isSpaceB).reverse.dropWhile Pgs.C19.isSpaceB).reverse\n")
	b.WriteString("/-- names are ASCII identifiers: the first rune is the first byte -/\n")
	b.WriteString("def decodeRuneAscii (s : Pgs.Bytes) : Nat × Nat := (s.head?.getD 0, 1)\n")
	b.WriteString("def isLetterAscii (c : Nat) : Bool := Pgs.GoNames.isLower c || (65 ≤ c && c ≤ 90)\n")
	b.WriteString("/-- `for cond(s) { s = body(s) }`, for at most the given number of rounds -/\n")
	b.WriteString("def whileFuel {σ : Type} (cond : σ → Bool) (body : σ → σ) : Nat → σ → σ\n  | 0, s => s\n  | f + 1, s => if cond s then whileFuel cond body f (body s) else s\n")
	b.WriteString("/-- `strings.LastIndex(s, sep)` for a one-rune separator, as a rune position: -1 if absent (its sign and its being 0 are those of the byte position) -/\n")
	b.WriteString("def lastIdxAux (c : Nat) : List Nat → Nat → Int → Int\n  | [], _, acc => acc\n  | x :: xs, i, acc => lastIdxAux c xs (i + 1) (if x == c then Int.ofNat i else acc)\n")
	b.WriteString("def lastIndexR (s sep : Pgs.Bytes) : Int := match sep with | [c] => lastIdxAux c s 0 (-1) | _ => -1\n")
	b.WriteString("def listGetB (l : List Pgs.Bytes) (i : Int) : Pgs.Bytes := l.getD i.toNat []\n")
	b.WriteString("def listSetB (l : List Pgs.Bytes) (i : Int) (v : Pgs.Bytes) : List Pgs.Bytes := l.set i.toNat v\n")
	b.WriteString("/-- bytes.Buffer as the runes written to it -/\n")
	b.WriteString("def bufReset (b : Pgs.Bytes) : Pgs.Bytes := []\ndef bufWriteRune (b : Pgs.Bytes) (r : Nat) : Pgs.Bytes := b ++ [r]\n")
	b.WriteString("/-- `utf8.DecodeLastRuneInString`: the last rune (RuneError when there is none) and its width, which nothing reads -/\n")
	b.WriteString("def decodeLastRuneR (s : Pgs.Bytes) : Nat × Nat := (s.getLast?.getD 65533, 1)\n")
	b.WriteString("/-- what lang/go/package.go reads of an entity, its file, its proto package and the parameters -/\n")
	b.WriteString("structure PkgEnv where\n  input : Pgs.Bytes\n  goPackage : Pgs.Bytes\n  pkgGoPackages : List Pgs.Bytes\n  protoName : Pgs.Bytes\n  buildTarget : Bool\n  params : Pgs.C19.Map\n")
	b.WriteString("/-- `strings.LastIndex(s, sep)` for a one-byte separator, as the model's last-position function: -1 if absent -/\n")
	b.WriteString("def lastIndexB (s sep : Pgs.Bytes) : Int := match sep with | [c] => (match Pgs.GoTypes.lastIndexOf c s with | some i => Int.ofNat i | none => -1) | _ => -1\n")
	b.WriteString("/-- `nonAlphaNumPattern.ReplaceAllString(s, \"_\")`: every match of the pattern (Pgs.GenCode.nonAlphaNumPattern) replaced -/\n")
	b.WriteString("def replaceNonAlnum (s repl : Pgs.Bytes) : Pgs.Bytes := if repl == [95] then Pgs.GoTypes.PgsGo.sanitize s else s\n")
	b.WriteString("/-- `strconv.ParseFloat(s, 64)` / `strconv.FormatFloat(f, 'g', -1, 64)` with the float codec a parameter: other bit sizes / formats are not what the source asks for -/\n")
	b.WriteString("def parseFloatE {α : Type} (pf : Pgs.Bytes → Except Pgs.Bytes α) (s : Pgs.Bytes) (bits : Int) : Except Pgs.Bytes α := if bits == 64 then pf s else .error [98]\n")
	b.WriteString("def formatFloatB {α : Type} (ff : α → Pgs.Bytes) (f : α) (fmt : Nat) (prec bits : Int) : Pgs.Bytes := if fmt == 103 && prec == -1 && bits == 64 then ff f else []\n")
	b.WriteString("/-- what uniqueNames reads of a field: its names, and of its oneof (if it is the first member of one) the names -/\n")
	b.WriteString("structure FieldN where\n  fqn : Pgs.Bytes\n  name : Pgs.Bytes\n  firstOfOneof : Bool\n  oneofFqn : Pgs.Bytes\n  oneofName : Pgs.Bytes\n")
	b.WriteString("/-- a Go map keyed by fully-qualified names, which are distinct: the record of what was stored, in order -/\n")
	b.WriteString("def assocPut (m : List (Pgs.Bytes × Pgs.Bytes)) (k v : Pgs.Bytes) : List (Pgs.Bytes × Pgs.Bytes) := m ++ [(k, v)]\n")
	b.WriteString("/-- `strings.ReplaceAll(s, old, new)` for a one-byte `old` -/\n")
	b.WriteString("def replaceAllB (s old new : Pgs.Bytes) : Pgs.Bytes := match old with | [c] => (s.map fun x => if x == c then new else [x]).flatten | _ => s\n")
	b.WriteString("def lookupTbl (t : List (Pgs.Bytes × Pgs.Bytes)) (k : Pgs.Bytes) : Option Pgs.Bytes := (t.find? (·.1 == k)).map (·.2)\n")
	b.WriteString("/-- a prefixedDebugger, as far as its output goes, is the prefix string it stores -/\n")
	b.WriteString("def mkPrefixedDebugger (parent : Unit) (prefix_ : Pgs.Bytes) : Pgs.Bytes := prefix_\n")
	b.WriteString("/-- `fs.MkdirAll(dir, mode)`: directories carry no mode in the model -/\n")
	b.WriteString("def mkdirAllMode (fs : Pgs.Persist.FS) (d : Pgs.Bytes) (mode : Nat) : Pgs.Persist.FS := fs.mkdirAll d\n")
	b.WriteString("/-- a Go map used as a set of entities keyed by their own name: storing an entity already present changes nothing -/\n")
	b.WriteString("def setPut {α : Type} [BEq α] (m : List α) (x : α) : List α := if m.contains x then m else m ++ [x]\n")
	b.WriteString("/-- plugin_go.CodeGeneratorResponse_File -/\n")
	b.WriteString("structure RespFile where\n  name : Option Pgs.Bytes\n  insertionPoint : Option Pgs.Bytes\n  content : Option Pgs.Bytes\nderiving DecidableEq\n")
	b.WriteString("/-- `GetName()`: the empty string when the field is unset -/\n")
	b.WriteString("def getName (f : RespFile) : Pgs.Bytes := f.name.getD []\n")
	b.WriteString("/-- the struct literals of build_context.go: a prefixContext is (parent, debugger); the debugger is the list of its prefixes -/\n")
	b.WriteString("def mkPrefixContext (parent : Pgs.C18.Ctx) (d : List Pgs.Bytes) : Pgs.C18.Ctx := .pre parent d\n")
	b.WriteString("def mkDirContext (pc : Pgs.C18.Ctx) (p : Pgs.Bytes) : Pgs.C18.Ctx := match pc with | .pre parent d => .dir parent p d | c => c\n")
	b.WriteString("/-- the struct literals of `Context`: the root has no parent and holds the debugger unprefixed; what it adds is the path and the parameters -/\n")
	b.WriteString("def rootPrefixPart (parent : Unit) (d : Unit) : Unit := ()\ndef rootDirPart (pc : Unit) (p : Pgs.Bytes) : Pgs.Bytes := p\n")
	b.WriteString("def mkRootContext (p : Pgs.Bytes) (params : Nat) : Pgs.C18.Ctx := .root p params\n")
	b.WriteString("def debuggerPush (d : List Pgs.Bytes) (pfx : Pgs.Bytes) : List Pgs.Bytes := d ++ [pfx]\n\n")
	b.WriteString("end Pgs.GenCode\n")
	files["CodePrelude.lean"] = b.String()
	// one file per translated function: a function that no longer fits the subset - or whose translation
	// no longer type-checks - takes down only the tie theorems that import it, and with them only the
	// properties that rest on it
	header := func(deps []string) string {
		h := "import PgsVerif.Generated.CodePrelude\n"
		for _, d := range deps {
			h += "import PgsVerif.Generated.Code_" + d + "\n"
		}
		return h + "/- GENERATED by harness/cmd/factgen (codegen.go) from the current source of protoc-gen-star. Do not edit. -/\n" +
			"set_option linter.unusedVariables false\nnamespace Pgs.GenCode\n\n"
	}
	specs := codeSpecs()
	var notes []string
	for _, s := range specs {
		t, err := translate(repo, s)
		if err != nil {
			notes = append(notes, err.Error())
			continue
		}
		var deps []string
		for _, o := range specs {
			if o.lean != s.lean && regexp.MustCompile(`\b`+regexp.QuoteMeta(o.lean)+`\b`).MatchString(t[strings.Index(t, ":=")+2:]) {
				deps = append(deps, o.lean)
			}
		}
		sort.Strings(deps)
		files["Code_"+s.lean+".lean"] = header(deps) + t + "\nend Pgs.GenCode\n"
	}
	tables := []struct {
		name string
		gen  func(string) (string, error)
	}{{"nameHelpers", nameHelpers}, {"acceptOrders", acceptOrders}, {"typePredicates", typePredicates}, {"hydratePhases", hydratePhases}, {"childAtPaths", childAtPaths}, {"workflowSteps", workflowSteps}, {"commentSteps", commentSteps}, {"persistSteps", persistSteps}, {"astEntrySteps", astEntrySteps}, {"packagePattern", packagePattern}, {"moduleSteps", moduleSteps}, {"importSteps", importSteps}, {"goNameSteps", goNameSteps}, {"sciSteps", sciSteps}, {"walkSteps", walkSteps}, {"goParamSteps", goParamSteps}, {"initSteps", initSteps}, {"camelSteps", camelSteps}}
	for _, g := range tables {
		t, err := g.gen(repo)
		if err != nil {
			notes = append(notes, err.Error())
			continue
		}
		files["Code_"+g.name+".lean"] = header(nil) + t + "\nend Pgs.GenCode\n"
	}
	for _, n := range notes {
		fmt.Fprintln(os.Stderr, "factgen: untranslatable:", n)
	}
	return files, nil
}
