module verifharness

go 1.21

require (
	github.com/lyft/protoc-gen-star/v2 v2.0.0
	github.com/spf13/afero v1.3.3
	google.golang.org/protobuf v1.23.0
)

require (
	golang.org/x/mod v0.6.0-dev.0.20220419223038-86c51ed26bb4 // indirect
	golang.org/x/sys v0.0.0-20220722155257-8c9f86f7a55f // indirect
	golang.org/x/text v0.3.7 // indirect
	golang.org/x/tools v0.1.12 // indirect
)

replace github.com/lyft/protoc-gen-star/v2 => /repo
