module verifharness

go 1.21

require (
	github.com/lyft/protoc-gen-star/v2 v2.0.0
	github.com/spf13/afero v1.3.3
	google.golang.org/protobuf v1.23.0
)

require golang.org/x/text v0.3.7 // indirect

replace github.com/lyft/protoc-gen-star/v2 => /repo
