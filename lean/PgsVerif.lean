-- This module serves as the root of the `PgsVerif` library.
-- Import modules here that should be built as part of the library.
import PgsVerif.Basic
