import PgsVerif.Model.Bytes
/-
  C15 — `Name.Split` / `Name.Transform` (name.go).

  A name is the sequence of runes Go's `for _, r := range ns` yields (code points; invalid bytes
  appear as U+FFFD, exactly as `buf.WriteRune` re-encodes them).  `unicode.IsUpper || IsTitle`
  and `unicode.IsDigit` are parameters `up dg : Nat → Bool`: the theorems hold for every
  classification, the correspondence run supplies Go's tables for the runes of each input.
-/
namespace Pgs.C15
open Pgs

abbrev Runes := List Nat

/-- scanner state of the camel-case branch -/
structure St where
  parts : List Runes   -- completed parts, in order
  buf : Runes          -- bytes.Buffer, as runes
  capt : Bool
  lodash : Bool
  num : Bool
deriving Repr

def St.init : St := { parts := [], buf := [], capt := false, lodash := false, num := false }

/-- one iteration of `for _, r := range ns` in the default branch of `Split` -/
def step (up dg : Nat → Bool) (s : St) (r : Nat) : St :=
  let uc := up r
  let d := dg r
  let lodash := if r = underscore ∧ s.buf = [] ∧ s.parts = [] then true else s.lodash
  let pb : List Runes × Runes :=
    if uc && !s.capt && !s.buf.isEmpty && !lodash then (s.parts ++ [s.buf], [])          -- new upper letter
    else if d && !s.num && !s.buf.isEmpty && !lodash then (s.parts ++ [s.buf], [])       -- new digit
    else if !uc && s.capt && decide (s.buf.length > 1) then                              -- upper to lower
      if s.buf.length ≠ 2 ∨ s.buf.head? ≠ some underscore then
        match s.buf.getLast? with
        | some pr => (s.parts ++ [s.buf.dropLast], [pr])
        | none => (s.parts, s.buf)        -- unreachable: buf has > 1 runes
      else (s.parts, s.buf)
    else if !d && s.num && decide (s.buf.length ≥ 1) then (s.parts ++ [s.buf], [])
    else (s.parts, s.buf)
  { parts := pb.1, buf := pb.2 ++ [r], capt := uc, lodash := lodash && decide (r = underscore), num := d }

def camel (up dg : Nat → Bool) (rs : Runes) : List Runes :=
  let s := rs.foldl (step up dg) St.init
  s.parts ++ [s.buf]

/-- `Name.Split` -/
def split (up dg : Nat → Bool) (rs : Runes) : List Runes :=
  if rs = [] then [[]]
  else if rs.contains dot then splitOn dot rs                       -- LastIndex(ns, ".") >= 0
  else if (rs.drop 1).contains underscore then                      -- LastIndex(ns, "_") > 0
    match splitOn underscore rs with
    | [] :: p1 :: ps => (underscore :: p1) :: ps                    -- parts[1] = "_" + parts[1]; parts[1:]
    | ps => ps
  else camel up dg rs

/-- the separator "it was split on" -/
def sepOf (rs : Runes) : Runes :=
  if rs.contains dot then [dot] else if (rs.drop 1).contains underscore then [underscore] else []

/-- `Name.Transform(mod, first, sep)` given the parts -/
def transformParts (first mod : Runes → Runes) (sep : Runes) : List Runes → Runes
  | [] => []
  | p :: ps => joinWith sep (first p :: ps.map mod)

def transform (up dg : Nat → Bool) (first mod : Runes → Runes) (sep : Runes) (rs : Runes) : Runes :=
  transformParts first mod sep (split up dg rs)

/-! ### Declarative side: where camel-case words begin -/

/-- a word begins at position `i` (1 ≤ i < n) of a name without dots whose only possible
    underscore is the leading one -/
def boundary (up dg : Nat → Bool) (rs : Runes) (i : Nat) : Bool :=
  let lead := rs.head? == some underscore
  let u (k : Nat) : Bool := match rs[k]? with | some r => up r | none => false
  let d (k : Nat) : Bool := match rs[k]? with | some r => dg r | none => false
  let shielded := lead && i == 1                      -- directly after the leading underscore
  (u i && !u (i-1) && !shielded)                      -- upper after non-upper
  || (d i && !d (i-1) && !shielded)                   -- digit after non-digit
  || (!d i && d (i-1))                                -- non-digit after digit
  || (u i && decide (i + 1 < rs.length) && !u (i+1) && !d (i+1) && !shielded)   -- last capital of an acronym

def cutAux (b : Nat → Bool) : Nat → Runes → Runes → List Runes
  | _, [], cur => [cur]
  | i, r :: rs, cur =>
    if i ≠ 0 ∧ b i = true then cur :: cutAux b (i+1) rs [r] else cutAux b (i+1) rs (cur ++ [r])

def specCamel (up dg : Nat → Bool) (rs : Runes) : List Runes := cutAux (boundary up dg rs) 0 rs []

/-- the documented segmentation -/
def specSplit (up dg : Nat → Bool) (rs : Runes) : List Runes :=
  if rs = [] then [[]]
  else if rs.contains dot then splitOn dot rs
  else if (rs.drop 1).contains underscore then
    match splitOn underscore rs with
    | [] :: p1 :: ps => (underscore :: p1) :: ps
    | ps => ps
  else specCamel up dg rs

/-- no rune is both upper/title and digit (true of Unicode; hypothesis of the segmentation theorem) -/
def classOK (up dg : Nat → Bool) (rs : Runes) : Bool := rs.all fun r => !(up r && dg r)

/-- observation: the parts and the eight conversions -/
structure Obs where
  parts : List Runes
  conv : List Runes      -- UpperCamel, LowerCamel, ScreamingSnake, LowerSnake, UpperSnake, Snake, LowerDot, UpperDot
deriving BEq, Repr

/-- (first, mod, sep) of the eight helpers, in the order of `Obs.conv`; 0 = ID, 1 = Title, 2 = ToUpper, 3 = ToLower -/
def helpers : List (Nat × Nat × Runes) :=
  [ (1, 1, []), (3, 1, []), (2, 2, [underscore]), (3, 3, [underscore]), (1, 1, [underscore]),
    (0, 0, [underscore]), (3, 3, [dot]), (1, 1, [dot]) ]

def model (up dg : Nat → Bool) (img : Nat → Runes → Runes) (rs : Runes) : Obs :=
  { parts := split up dg rs,
    conv := helpers.map fun (f, m, sep) => transform up dg (img f) (img m) sep rs }

/-- Φ_C15 on an observation -/
def judge (up dg : Nat → Bool) (img : Nat → Runes → Runes) (rs : Runes) (o : Obs) : Option String :=
  if joinWith (sepOf rs) o.parts != rs then some "lossless: joining the parts with the separator does not give the name"
  else if classOK up dg rs && o.parts != specSplit up dg rs then some "segments: parts are not the documented dot / underscore / camel-case words"
  else if !rs.isEmpty && !rs.contains dot && !(rs.drop 1).contains underscore && o.parts.any (·.isEmpty) then
    some "segments: empty camel-case part"
  else if o.conv.length != helpers.length then some "conversions: wrong number of results"
  else
    match (helpers.zip o.conv).find? (fun ((f, m, sep), c) => c != transformParts (img f) (img m) sep o.parts) with
    | some _ => some "conversions: a case helper is not the part-wise conversion joined by its separator"
    | none => none

end Pgs.C15
