import PgsVerif.Model.Hydrate
/-
  C01 — the containment image of the request: what navigating the AST top-down from its roots
  must show.  One `Rec` per (entity, list accessor), in a fixed navigation order shared with the
  harness (file: its lists, then its enums, messages, services; message: its lists, then its
  enums, ordinary nested messages, map entries, oneofs).
-/
namespace Pgs.AST
open Lean

structure Rec where
  of : Ref
  acc : String
  items : List Ref
deriving Repr, DecidableEq, FromJson, ToJson

def refLe (a b : Ref) : Bool :=
  if a.file < b.file then true else if b.file < a.file then false else
    let rec le : List Nat → List Nat → Bool
      | [], _ => true
      | _ :: _, [] => false
      | x :: xs, y :: ys => if x < y then true else if y < x then false else le xs ys
    le a.path b.path

def sortRefs (l : List Ref) : List Ref := l.mergeSort refLe

def childRefs (fi : Nat) (p : List Nat) (tag : Nat) (n : Nat) : List Ref :=
  (List.range n).map fun i => ⟨fi, p ++ [tag, i]⟩

/-- indices of the ordinary (`mapE = false`) or map-entry (`mapE = true`) messages of a sibling list -/
def Msgs.indices (mapE : Bool) : Msgs → Nat → List Nat
  | .nil, _ => []
  | .cons h _ r, i => if h.mapEntry = mapE then i :: r.indices mapE (i+1) else r.indices mapE (i+1)

/-- `AllMessages`: the ordinary nested messages, transitively (map entries are not descended into,
    exactly like `msg.AllMessages`, which recurses through `m.msgs`) -/
def allMsgRefs (fi : Nat) (p : List Nat) (tag : Nat) : Nat → Msgs → List Ref
  | _, .nil => []
  | i, .cons h nested rest =>
    (if h.mapEntry then [] else ⟨fi, p ++ [tag, i]⟩ :: allMsgRefs fi (p ++ [tag, i]) 3 0 nested)
      ++ allMsgRefs fi p tag (i+1) rest

def allEnumRefs (fi : Nat) (p : List Nat) (tag : Nat) : Nat → Msgs → List Ref
  | _, .nil => []
  | i, .cons h nested rest =>
    (if h.mapEntry then [] else childRefs fi (p ++ [tag, i]) 4 h.enums.length ++ allEnumRefs fi (p ++ [tag, i]) 3 0 nested)
      ++ allEnumRefs fi p tag (i+1) rest

def enumRecs (fi : Nat) (p : List Nat) (tag : Nat) (es : List EnumD) : List Rec :=
  (idx es).map fun (i, e) => ⟨⟨fi, p ++ [tag, i]⟩, "values", childRefs fi (p ++ [tag, i]) 2 e.values.length⟩

/-- fields of oneof `o` of a message: those whose `oneof_index` is `o`, in field order -/
def oneofMembers (fi : Nat) (here : List Nat) (fields : List FieldD) (o : Nat) : List Ref :=
  (idx fields).filterMap fun (i, f) => if f.oneofIndex = some o then some ⟨fi, here ++ [2, i]⟩ else none

mutual
/-- records of one message (selected by `sel`: ordinary or map entries) and everything below -/
def msgRecs (fi : Nat) (p : List Nat) (tag : Nat) (sel : Bool) : Nat → Msgs → List Rec
  | _, .nil => []
  | i, .cons h nested rest =>
    let here := p ++ [tag, i]
    (if h.mapEntry = sel then
      [ ⟨⟨fi, here⟩, "enums", childRefs fi here 4 h.enums.length⟩,
        ⟨⟨fi, here⟩, "messages", (nested.indices false 0).map fun j => ⟨fi, here ++ [3, j]⟩⟩,
        ⟨⟨fi, here⟩, "mapEntries", (nested.indices true 0).map fun j => ⟨fi, here ++ [3, j]⟩⟩,
        ⟨⟨fi, here⟩, "fields", childRefs fi here 2 h.fields.length⟩,
        ⟨⟨fi, here⟩, "oneofs", childRefs fi here 8 h.oneofs.length⟩,
        ⟨⟨fi, here⟩, "exts", childRefs fi here 6 h.exts.length⟩,
        ⟨⟨fi, here⟩, "allMessages", sortRefs (allMsgRefs fi here 3 0 nested)⟩,
        ⟨⟨fi, here⟩, "allEnums", sortRefs (childRefs fi here 4 h.enums.length ++ allEnumRefs fi here 3 0 nested)⟩ ]
      ++ enumRecs fi here 4 h.enums
      ++ msgRecs fi here 3 false 0 nested
      ++ msgRecs fi here 3 true 0 nested
      ++ ((List.range h.oneofs.length).map fun o => ⟨⟨fi, here ++ [8, o]⟩, "oneofFields", oneofMembers fi here h.fields o⟩)
     else [])
    ++ msgRecs fi p tag sel (i+1) rest
end

def fileRecs (fi : Nat) (f : FileD) : List Rec :=
  [ ⟨⟨fi, []⟩, "enums", childRefs fi [] 5 f.enums.length⟩,
    ⟨⟨fi, []⟩, "messages", (f.msgs.indices false 0).map fun j => ⟨fi, [4, j]⟩⟩,
    ⟨⟨fi, []⟩, "mapEntries", []⟩,
    ⟨⟨fi, []⟩, "services", childRefs fi [] 6 f.services.length⟩,
    ⟨⟨fi, []⟩, "exts", childRefs fi [] 7 f.exts.length⟩,
    ⟨⟨fi, []⟩, "allMessages", sortRefs (allMsgRefs fi [] 4 0 f.msgs)⟩,
    ⟨⟨fi, []⟩, "allEnums", sortRefs (childRefs fi [] 5 f.enums.length ++ allEnumRefs fi [] 4 0 f.msgs)⟩ ]
  ++ enumRecs fi [] 5 f.enums
  ++ msgRecs fi [] 4 false 0 f.msgs
  ++ ((idx f.services).map fun (i, s) => ⟨⟨fi, [6, i]⟩, "methods", childRefs fi [6, i] 2 s.methods.length⟩)

def strLe (a b : String) : Bool := a ≤ b

/-- packages: one per distinct package name, with the files declaring it in request order -/
def packagesOf (fs : List FileD) : List (String × List Ref) :=
  let names := (fs.map (·.pkg)).eraseDups.mergeSort strLe
  names.map fun n => (n, (idx fs).filterMap fun (i, f) => if f.pkg = n then some ⟨i, []⟩ else none)

def targetsOf (w : World) : List (String × Ref) :=
  (w.targets.eraseDups.mergeSort strLe).filterMap fun t =>
    match (idx w.files).find? (fun (_, f) => f.name == t) with
    | some (i, _) => some (t, ⟨i, []⟩)
    | none => none

structure NavObs where
  failed : Bool
  targets : List (String × Ref)
  packages : List (String × List Ref)
  recs : List Rec
deriving Repr, DecidableEq, FromJson, ToJson

/-- what the real AST must show when navigated (files are reached package by package) -/
def navModel (w : World) : NavObs :=
  match hydrate w with
  | .error _ => ⟨true, [], [], []⟩
  | .ok _ =>
    let pk := packagesOf w.files
    ⟨false, targetsOf w, pk,
     (pk.map fun (_, frs) => (frs.map fun r => match w.files[r.file]? with | some f => fileRecs r.file f | none => []).flatten).flatten⟩

/-- containment accessors (as opposed to the derived `all…` listings) -/
def isContainment (acc : String) : Bool :=
  acc != "allMessages" && acc != "allEnums" && acc != "oneofFields"

/-- Φ_C01 -/
def judgeNav (w : World) (o : NavObs) : Option String :=
  let m := navModel w
  if o.failed then some "building the AST failed (or panicked) on a valid request"
  else if o.targets != m.targets then some "targets are not exactly the files named in file_to_generate"
  else if o.packages != m.packages then some "packages do not group exactly the files that declare them, in request order"
  else
    let reached := (o.recs.filter (fun r => isContainment r.acc)).map (·.items) |>.flatten
    let files := (o.packages.map (·.2)).flatten
    let want := (declared w).map (·.ref)
    if sortRefs (files ++ reached) != sortRefs want then
      some "not every declared entity is reached exactly once by top-down navigation"
    else match (o.recs.zip m.recs).find? (fun (a, b) => a != b) with
      | some (a, _) => some s!"listing '{a.acc}' does not show the declared children in declaration order"
      | none => if o.recs.length != m.recs.length then some "navigation visited a different number of entities" else none

end Pgs.AST
