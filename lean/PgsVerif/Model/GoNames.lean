import PgsVerif.Model.AstSem2
import PgsVerif.Model.Bytes
/-
  C16 — Go identifiers.  Two transcriptions:
  * `PgsGo`   : lang/go/camel.go, lang/go/name.go (pgsgo's predictions)
  * `Protogen`: protobuf-go v1.23.0 `internal/strs.GoCamelCase` and the naming rules of
                `compiler/protogen` (what protoc-gen-go declares)
  Names are ASCII byte strings.
-/
namespace Pgs.GoNames
open Pgs Pgs.AST

def isLower (c : Nat) : Bool := 97 ≤ c && c ≤ 122
def isDigitB (c : Nat) : Bool := 48 ≤ c && c ≤ 57
def upperOf (c : Nat) : Nat := if isLower c then c - 32 else c
def nextLower (rest : Bytes) : Bool := match rest with | c :: _ => isLower c | [] => false

namespace PgsGo

/-- the loop of `camelCase`; `copy`: inside the run of lower-case letters following a letter -/
def camelAux : Bool → Bytes → Bytes
  | _, [] => []
  | copy, c :: rest =>
    if copy && isLower c then c :: camelAux true rest
    else if c == underscore && nextLower rest then camelAux false rest        -- skip the underscore
    else if isDigitB c then c :: camelAux false rest
    else upperOf c :: camelAux true rest

/-- `camelCase` (copied by pgsgo from the old protoc-gen-go) -/
def camelCase (s : Bytes) : Bytes :=
  match s with
  | [] => []
  | c :: rest => if c == underscore then 88 :: camelAux false rest else camelAux false s

/-- `joinChild` -/
def joinChild (a b : Bytes) : Bytes :=
  if nextLower b then a ++ camelCase b else a ++ underscore :: camelCase b

/-- Name of a message / enum given the names on its nesting path, outermost first -/
def nestedName : List Bytes → Bytes
  | [] => []
  | n :: rest => rest.foldl joinChild (camelCase n)

end PgsGo

namespace Protogen

/-- `strs.GoCamelCase`; `st`: at the start of the string or right after a '.' -/
def goCamelAux : Bool → Bool → Bytes → Bytes
  | _, _, [] => []
  | st, copy, c :: rest =>
    if copy && isLower c then c :: goCamelAux false true rest
    else if c == dot && nextLower rest then goCamelAux true false rest
    else if c == dot then underscore :: goCamelAux true false rest
    else if c == underscore && st then 88 :: goCamelAux false false rest
    else if c == underscore && nextLower rest then goCamelAux false false rest
    else if isDigitB c then c :: goCamelAux false false rest
    else upperOf c :: goCamelAux false true rest

def goCamelCase (s : Bytes) : Bytes := goCamelAux true false s

/-- GoIdent of a message / enum: GoCamelCase of the dotted nested name -/
def nestedName (path : List Bytes) : Bytes := goCamelCase (joinWith [dot] path)

end Protogen

/-! ### per-message field / oneof naming (`makeNameUnique`): the same algorithm on both sides,
    transcribed twice would be identical text; it is shared and applied to each side's camel-case -/

abbrev Used := List (Bytes × Bool)       -- map[string]bool with overwrite

def Used.get (u : Used) (n : Bytes) : Bool := match u.find? (·.1 == n) with | some (_, b) => b | none => false
def Used.set (u : Used) (n : Bytes) (b : Bool) : Used := (n, b) :: u

def getPrefix : Bytes := [71, 101, 116]    -- "Get"

def protectedNames : List Bytes :=
  ["Reset", "String", "ProtoMessage", "Marshal", "Unmarshal", "ExtensionRangeArray", "ExtensionMap", "Descriptor"].map bytesOfString

/-- `for usedNames[name] || (hasGetter && usedNames["Get"+name]) { name += "_" }` -/
def bump (u : Used) (getter : Bool) : Nat → Bytes → Bytes
  | 0, n => n
  | f+1, n => if u.get n || (getter && u.get (getPrefix ++ n)) then bump u getter f (n ++ [underscore]) else n

def makeUnique (u : Used) (n : Bytes) (getter : Bool) : Bytes × Used :=
  let n' := bump u getter (u.length + 2) n
  (n', (u.set n' true).set (getPrefix ++ n') getter)

/-- fields in order; the oneof is named when its first member is reached.
    result: per field index its name, per oneof index its name -/
def uniqueNames (camel : Bytes → Bytes) (fields : List FieldD) (oneofs : List String) : List Bytes × List (Nat × Bytes) :=
  let init : Used := protectedNames.map fun n => (n, true)
  let firstMember (o : Nat) : Option Nat := (idx fields).findSome? fun (i, f) => if f.oneofIndex == some o then some i else none
  let step := fun (acc : Used × List Bytes × List (Nat × Bytes)) (p : Nat × FieldD) =>
    let (u, fs, os) := acc
    let (i, f) := p
    let (fname, u1) := makeUnique u (camel (bytesOfString f.name)) true
    match f.oneofIndex with
    | some o =>
      if firstMember o == some i then
        let (oname, u2) := makeUnique u1 (camel (bytesOfString (oneofs.getD o ""))) false
        (u2, fs ++ [fname], os ++ [(o, oname)])
      else (u1, fs ++ [fname], os)
    | none => (u1, fs ++ [fname], os)
  let (_, fs, os) := (idx fields).foldl step (init, [], [])
  (fs, os)

/-- the oneof wrapper: message name, '_', field name, plus '_' while it collides with a nested type -/
def wrapperName (msgName fieldName : Bytes) (nestedTypeNames : List Bytes) : Bytes :=
  let rec go : Nat → Bytes → Bytes
    | 0, n => n
    | f+1, n => if nestedTypeNames.contains n then go f (n ++ [underscore]) else n
  go (nestedTypeNames.length + 1) (msgName ++ underscore :: fieldName)

/-! ### names of every entity of a world, both sides -/
structure NameRec where
  ref : Ref
  kind : String
  pgs : String
  gen : String
  src : Bool
deriving Repr, DecidableEq, Lean.FromJson, Lean.ToJson

/-- bytes back to a string for the observation: UTF-8 when well formed, else one char per byte -/
def str (b : Bytes) : String :=
  match String.fromUTF8? (ByteArray.mk (b.map UInt8.ofNat).toArray) with
  | some s => s
  | none => String.ofList (b.map Char.ofNat)

structure Side where
  camel : Bytes → Bytes
  nested : List Bytes → Bytes

def pgsSide : Side := ⟨PgsGo.camelCase, PgsGo.nestedName⟩
def genSide : Side := ⟨Protogen.goCamelCase, Protogen.nestedName⟩

/-- (ref, kind, name) for everything below a sibling list of messages; `scope`: names on the
    nesting path so far -/
def msgNames (s : Side) (fi : Nat) (p : List Nat) (tag : Nat) (scope : List Bytes) : Nat → Msgs → List (Ref × String × Bytes)
  | _, .nil => []
  | i, .cons h nested rest =>
    let here := p ++ [tag, i]
    let path := scope ++ [bytesOfString h.name]
    let mname := s.nested path
    (if h.mapEntry then [] else
      let (fnames, onames) := uniqueNames s.camel h.fields h.oneofs
      let nestedTypes := (nested.heads.map fun (nh, _) => s.nested (path ++ [bytesOfString nh.name]))
                          ++ h.enums.map fun e => s.nested (path ++ [bytesOfString e.name])
      let synthetic (o : Nat) : Bool := match oneofFieldDs h o with | [m] => m.proto3Optional | _ => false
      [(⟨fi, here⟩, "msg", mname)]
      ++ ((idx h.fields).zip fnames).map (fun ((k, _), n) => (⟨fi, here ++ [2, k]⟩, "field", n))
      ++ (((idx h.fields).zip fnames).filterMap fun ((k, f), n) =>
            match f.oneofIndex with
            | some o => if synthetic o then none else some (⟨fi, here ++ [2, k]⟩, "wrapper", wrapperName mname n nestedTypes)
            | none => none)
      ++ (onames.filterMap fun (o, n) => if synthetic o then none else some (⟨fi, here ++ [8, o]⟩, "oneof", n))
      ++ ((idx h.enums).map fun (k, e) =>
            (⟨fi, here ++ [4, k]⟩, "enum", s.nested (path ++ [bytesOfString e.name]))
            :: (idx e.values).map fun (v, ev) => (⟨fi, here ++ [4, k, 2, v]⟩, "value", mname ++ underscore :: bytesOfString ev.name)).flatten
      ++ msgNames s fi here 3 path 0 nested)
    ++ msgNames s fi p tag scope (i+1) rest

def fileNames (s : Side) (fi : Nat) (f : FileD) : List (Ref × String × Bytes) :=
  ((idx f.enums).map fun (k, e) =>
      let en := s.nested [bytesOfString e.name]
      (⟨fi, [5, k]⟩, "enum", en) :: (idx e.values).map fun (v, ev) => (⟨fi, [5, k, 2, v]⟩, "value", en ++ underscore :: bytesOfString ev.name)).flatten
  ++ msgNames s fi [] 4 [] 0 f.msgs
  ++ ((idx f.services).map fun (k, sv) =>
      let sn := s.camel (bytesOfString sv.name)
      (⟨fi, [6, k]⟩, "service", sn ++ bytesOfString "Server|" ++ sn ++ bytesOfString "Client|" ++ sn ++ bytesOfString "Server")
      :: (idx sv.methods).map fun (m, md) => (⟨fi, [6, k, 2, m]⟩, "method", s.camel (bytesOfString md.name))).flatten

def recLe (a b : NameRec) : Bool :=
  if a.ref == b.ref then a.kind ≤ b.kind else refLe a.ref b.ref

structure C16Obs where
  failed : Bool
  names : List NameRec
deriving Repr, DecidableEq, Lean.FromJson, Lean.ToJson

def c16Model (w : World) : C16Obs :=
  match hydrate w with
  | .error _ => ⟨true, []⟩
  | .ok _ =>
    let recs := ((idx w.files).map fun (fi, f) =>
      ((fileNames pgsSide fi f).zip (fileNames genSide fi f)).map fun ((r, k, a), (_, _, b)) => (⟨r, k, str a, str b, true⟩ : NameRec)).flatten
    ⟨false, recs.mergeSort recLe⟩

def judgeC16 (w : World) (o : C16Obs) : Option String :=
  if o.failed then some "building failed (or protoc-gen-go rejected the request)" else
  let m := c16Model w
  if o.names.map (fun n => (n.ref, n.kind)) != m.names.map (fun n => (n.ref, n.kind)) then some "names: not one per message, enum, value, field, oneof, wrapper, service and method" else
  match o.names.find? (fun n => n.pgs != n.gen) with
  | some n => some s!"{n.kind} {repr n.ref.path}: predicted Go identifier {n.pgs} but protoc-gen-go declares {n.gen}"
  | none =>
    match o.names.find? (fun n => !n.src) with
    | some n => some s!"{n.kind} {repr n.ref.path}: {n.gen} is not declared in the generated source"
    | none => none

end Pgs.GoNames
