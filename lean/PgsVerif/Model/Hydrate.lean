import PgsVerif.Model.World
/-
  The AST builder (ast.go): `ProcessCodeGeneratorRequest` as a fold over the files with the
  state the Go code has — the `entities` index (`seen`: insertions newest first, lookup = first
  match, i.e. Go's map-overwrite semantics), resolved file dependencies, field types, method
  input/output, extension extendees — filled in the same order as the Go code, every `mustSeen`
  looked up against the index *as it is at that moment*.  `Except Fail` = the debugger's
  fail-stop (or a panic on a failed type assertion).
-/
namespace Pgs.AST

structure Decl where
  key : String
  ref : Ref
  kind : Kind
deriving Repr, DecidableEq

inductive Fail where
  | missing (k : String)        -- "expected entity %q has not been hydrated"
  | wrongKind (k : String)      -- type assertion on the looked-up entity panics
  | group (field : Ref)         -- "group types are deprecated and unsupported"
  | badMapEntry (field : Ref)   -- map entry without two typed fields (nil dereference)
deriving Repr, DecidableEq

/-! ### declaration order (= insertion order into the index) -/

def fileScope (f : FileD) : String := if f.pkg = "" then "" else "." ++ f.pkg

def idx {α} (l : List α) : List (Nat × α) := (List.range l.length).zip l

def declEnum (fi : Nat) (scope : String) (p : List Nat) (e : EnumD) : List Decl :=
  let fqn := scope ++ "." ++ e.name
  ⟨fqn, ⟨fi, p⟩, .enum⟩ :: (idx e.values).map fun (i, v) => ⟨fqn ++ "." ++ v.name, ⟨fi, p ++ [2, i]⟩, .value⟩

def declEnums (fi : Nat) (scope : String) (p : List Nat) (tag : Nat) (es : List EnumD) : List Decl :=
  ((idx es).map fun (i, e) => declEnum fi scope (p ++ [tag, i]) e).flatten

def declFields (fi : Nat) (scope : String) (p : List Nat) (tag : Nat) (k : Kind) (fs : List FieldD) : List Decl :=
  (idx fs).map fun (i, f) => ⟨scope ++ "." ++ f.name, ⟨fi, p ++ [tag, i]⟩, k⟩

def declOneofs (fi : Nat) (scope : String) (p : List Nat) (os : List String) : List Decl :=
  (idx os).map fun (i, o) => ⟨scope ++ "." ++ o, ⟨fi, p ++ [8, i]⟩, .oneof⟩

/-- `hydrateMessage` for the `i`-th and later messages of a sibling list declared under path `p`
    with field number `tag` (4 in a file, 3 in a message) -/
def declMsgs (fi : Nat) (scope : String) (p : List Nat) (tag : Nat) : Nat → Msgs → List Decl
  | _, .nil => []
  | i, .cons h nested rest =>
    let here := p ++ [tag, i]
    let fqn := scope ++ "." ++ h.name
    (⟨fqn, ⟨fi, here⟩, .msg⟩ :: declEnums fi fqn here 4 h.enums
      ++ declMsgs fi fqn here 3 0 nested
      ++ declOneofs fi fqn here h.oneofs
      ++ declFields fi fqn here 2 .field h.fields
      ++ declFields fi fqn here 6 .ext h.exts)
    ++ declMsgs fi scope p tag (i+1) rest

def declService (fi : Nat) (scope : String) (i : Nat) (s : ServiceD) : List Decl :=
  let fqn := scope ++ "." ++ s.name
  ⟨fqn, ⟨fi, [6, i]⟩, .service⟩ :: (idx s.methods).map fun (j, m) => ⟨fqn ++ "." ++ m.name, ⟨fi, [6, i, 2, j]⟩, .method⟩

/-- everything `hydrateFile` registers before the services, in order -/
def declFileHead (fi : Nat) (f : FileD) : List Decl :=
  let sc := fileScope f
  ⟨f.name, ⟨fi, []⟩, .file⟩ :: declEnums fi sc [] 5 f.enums
    ++ declFields fi sc [] 7 .ext f.exts
    ++ declMsgs fi sc [] 4 0 f.msgs

def declServices (fi : Nat) (f : FileD) : List Decl :=
  ((idx f.services).map fun (i, s) => declService fi (fileScope f) i s).flatten

def declFile (fi : Nat) (f : FileD) : List Decl := declFileHead fi f ++ declServices fi f

def declFrom : Nat → List FileD → List Decl
  | _, [] => []
  | fi, f :: fs => declFile fi f ++ declFrom (fi+1) fs

/-- every declaration of the request, in hydration order -/
def declared (w : World) : List Decl := declFrom 0 w.files

/-! ### the index -/
abbrev Seen := List Decl     -- newest first

def lookup (s : Seen) (k : String) : Option Decl := s.find? (·.key == k)

def mustSeen (s : Seen) (k : String) (kind : Kind) : Except Fail Ref :=
  match lookup s k with
  | none => .error (.missing k)
  | some d => if d.kind = kind then .ok d.ref else .error (.wrongKind k)

/-! ### navigation in the world by reference -/
def Msgs.at? : Msgs → List Nat → Option (MsgHead × Msgs)
  | _, [] => none
  | ms, [i] => ms.get? i
  | ms, i :: 3 :: rest => match ms.get? i with
    | some (_, nested) => nested.at? rest
    | none => none
  | _, _ => none

/-- the message declared at a reference ([4,i,3,j,…]) -/
def World.msgAt (w : World) (r : Ref) : Option (MsgHead × Msgs) :=
  match w.files[r.file]?, r.path with
  | some f, 4 :: rest => f.msgs.at? rest
  | _, _ => none

/-! ### field types -/
inductive Elem where
  | scalar (t : Nat)
  | enum (t : Nat) (e : Ref)
  | embed (t : Nat) (m : Ref)
deriving Repr, DecidableEq

inductive FType where
  | scalar (t : Nat)
  | enum (e : Ref)
  | embed (m : Ref)
  | repeated (el : Elem)
  | map (key : Elem) (el : Elem)
deriving Repr, DecidableEq

/-- `toElem` of the type of a map entry's key / value field -/
def entryElem (s : Seen) (owner : Ref) (f : FieldD) : Except Fail Elem :=
  if f.type = 10 then .error (.group owner)
  else if f.label = 3 then .error (.badMapEntry owner)       -- repT.toElem panics
  else if f.type = 14 then (mustSeen s f.typeName .enum).map (Elem.enum 14)
  else if f.type = 11 then (mustSeen s f.typeName .msg).map (Elem.embed 11)
  else .ok (.scalar f.type)

/-- `hydrateFieldType` -/
def fieldType (w : World) (s : Seen) (owner : Ref) (f : FieldD) : Except Fail FType :=
  if f.type = 10 then .error (.group owner)
  else if f.label = 3 then
    if f.type = 14 then (mustSeen s f.typeName .enum).map (fun e => .repeated (.enum 14 e))
    else if f.type = 11 then
      match mustSeen s f.typeName .msg with
      | .error e => .error e
      | .ok m =>
        match w.msgAt m with
        | some (h, _) =>
          if h.mapEntry then
            match h.fields with
            | k :: v :: _ =>
              match entryElem s owner k, entryElem s owner v with
              | .ok ke, .ok ve => .ok (.map ke ve)
              | .error e, _ => .error e
              | _, .error e => .error e
            | _ => .error (.badMapEntry owner)
          else .ok (.repeated (.embed 11 m))
        | none => .error (.wrongKind f.typeName)
    else .ok (.repeated (.scalar f.type))
  else if f.type = 14 then (mustSeen s f.typeName .enum).map FType.enum
  else if f.type = 11 then (mustSeen s f.typeName .msg).map FType.embed
  else .ok (.scalar f.type)

def fieldTypes (w : World) (s : Seen) (fi : Nat) (p : List Nat) (tag : Nat) : Nat → List FieldD → Except Fail (List (Ref × FType))
  | _, [] => .ok []
  | i, f :: fs =>
    match fieldType w s ⟨fi, p ++ [tag, i]⟩ f, fieldTypes w s fi p tag (i+1) fs with
    | .ok t, .ok ts => .ok ((⟨fi, p ++ [tag, i]⟩, t) :: ts)
    | .error e, _ => .error e
    | _, .error e => .error e

/-- field types of all messages of a sibling list (map entries are reached through their parent,
    as `hydrateFile` does; the order of resolution only matters for which failure comes first) -/
def msgFieldTypes (w : World) (s : Seen) (fi : Nat) (p : List Nat) (tag : Nat) : Nat → Msgs → Except Fail (List (Ref × FType))
  | _, .nil => .ok []
  | i, .cons h nested rest =>
    let here := p ++ [tag, i]
    match fieldTypes w s fi here 2 0 h.fields, msgFieldTypes w s fi here 3 0 nested, msgFieldTypes w s fi p tag (i+1) rest with
    | .ok a, .ok b, .ok c => .ok (a ++ b ++ c)
    | .error e, _, _ => .error e
    | _, .error e, _ => .error e
    | _, _, .error e => .error e

/-! ### the graph and its construction -/
structure Graph where
  seen : Seen
  fileDeps : List (Nat × List Ref)           -- file index ↦ resolved dependencies, in order
  ftypes : List (Ref × FType)                -- field / extension ↦ type
  mio : List (Ref × Ref × Ref)               -- method ↦ (input, output)
  extendees : List (Ref × Ref)               -- extension ↦ extendee
deriving Repr

def Graph.empty : Graph := ⟨[], [], [], [], []⟩

def resolveFiles (s : Seen) : List String → Except Fail (List Ref)
  | [] => .ok []
  | d :: ds =>
    match mustSeen s d .file, resolveFiles s ds with
    | .ok r, .ok rs => .ok (r :: rs)
    | .error e, _ => .error e
    | _, .error e => .error e

/-- methods of one service: each registered, then its input / output resolved at that moment -/
def hydrateMethods (fi si : Nat) (fqn : String) : Seen → Nat → List MethodD → Except Fail (Seen × List (Ref × Ref × Ref))
  | s, _, [] => .ok (s, [])
  | s, j, m :: ms =>
    let r : Ref := ⟨fi, [6, si, 2, j]⟩
    let s1 := ⟨fqn ++ "." ++ m.name, r, .method⟩ :: s
    match mustSeen s1 m.input .msg, mustSeen s1 m.output .msg with
    | .ok a, .ok b =>
      match hydrateMethods fi si fqn s1 (j+1) ms with
      | .ok (s2, rest) => .ok (s2, (r, a, b) :: rest)
      | .error e => .error e
    | .error e, _ => .error e
    | _, .error e => .error e

def hydrateServices (fi : Nat) (scope : String) : Seen → Nat → List ServiceD → Except Fail (Seen × List (Ref × Ref × Ref))
  | s, _, [] => .ok (s, [])
  | s, i, sv :: svs =>
    let fqn := scope ++ "." ++ sv.name
    let s1 := ⟨fqn, ⟨fi, [6, i]⟩, .service⟩ :: s
    match hydrateMethods fi i fqn s1 0 sv.methods with
    | .error e => .error e
    | .ok (s2, m1) =>
      match hydrateServices fi scope s2 (i+1) svs with
      | .error e => .error e
      | .ok (s3, m2) => .ok (s3, m1 ++ m2)

/-- `hydrateFile` -/
def hydrateFile (w : World) (g : Graph) (fi : Nat) (f : FileD) : Except Fail Graph :=
  let s1 := ⟨f.name, ⟨fi, []⟩, .file⟩ :: g.seen
  match resolveFiles s1 f.deps with
  | .error e => .error e
  | .ok deps =>
    let s2 := (declFileHead fi f).reverse ++ g.seen
    match hydrateServices fi (fileScope f) s2 0 f.services with
    | .error e => .error e
    | .ok (s3, mio) =>
      match msgFieldTypes w s3 fi [] 4 0 f.msgs with
      | .error e => .error e
      | .ok fts => .ok { g with seen := s3, fileDeps := g.fileDeps ++ [(fi, deps)], ftypes := g.ftypes ++ fts, mio := g.mio ++ mio }

def hydrateFiles (w : World) : Graph → Nat → List FileD → Except Fail Graph
  | g, _, [] => .ok g
  | g, fi, f :: fs =>
    match hydrateFile w g fi f with
    | .error e => .error e
    | .ok g' => hydrateFiles w g' (fi+1) fs

/-- all extensions of the request in registration order: per file, the file's then each
    message's (in hydration order) -/
def extsOfMsgs (fi : Nat) (p : List Nat) (tag : Nat) : Nat → Msgs → List (Ref × FieldD)
  | _, .nil => []
  | i, .cons h nested rest =>
    let here := p ++ [tag, i]
    extsOfMsgs fi here 3 0 nested ++ ((idx h.exts).map fun (k, x) => (⟨fi, here ++ [6, k]⟩, x))
      ++ extsOfMsgs fi p tag (i+1) rest

def extsOfFile (fi : Nat) (f : FileD) : List (Ref × FieldD) :=
  ((idx f.exts).map fun (k, x) => (⟨fi, [7, k]⟩, x)) ++ extsOfMsgs fi [] 4 0 f.msgs

def allExts : Nat → List FileD → List (Ref × FieldD)
  | _, [] => []
  | fi, f :: fs => extsOfFile fi f ++ allExts (fi+1) fs

def hydrateExts (w : World) (s : Seen) : List (Ref × FieldD) → Except Fail (List (Ref × FType) × List (Ref × Ref))
  | [] => .ok ([], [])
  | (r, x) :: xs =>
    match fieldType w s r x, mustSeen s x.extendee .msg, hydrateExts w s xs with
    | .ok t, .ok m, .ok (ts, ms) => .ok ((r, t) :: ts, (r, m) :: ms)
    | .error e, _, _ => .error e
    | _, .error e, _ => .error e
    | _, _, .error e => .error e

/-- `ProcessCodeGeneratorRequest` -/
def hydrate (w : World) : Except Fail Graph :=
  match hydrateFiles w Graph.empty 0 w.files with
  | .error e => .error e
  | .ok g =>
    match hydrateExts w g.seen (allExts 0 w.files) with
    | .error e => .error e
    | .ok (ts, ms) => .ok { g with ftypes := g.ftypes ++ ts, extendees := ms }

end Pgs.AST
