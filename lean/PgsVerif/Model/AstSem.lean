import PgsVerif.Model.AstNav
/-
  C02 / C03 / C04 / C08 / C09 — what the accessors of the built graph answer, per entity, and the
  declarative reading of each property (the Φ checkers).
-/
namespace Pgs.AST
open Lean

def noRef : Ref := ⟨0, [999999]⟩     -- "no entity" in observations (the harness sends the same)

def Ref.parent (r : Ref) : Ref := ⟨r.file, r.path.take (r.path.length - 2)⟩

def World.file? (w : World) (r : Ref) : Option FileD := w.files[r.file]?

/-- pgs.Syntax of a file: proto2 is the empty string, however the descriptor spells it -/
def pgsSyntax (f : FileD) : String := if f.syn = "proto2" then "" else f.syn

def isProto3 (f : FileD) : Bool := f.syn = "proto3"

/-- name of a declared entity: last component of its key (files: the whole key) -/
def fqnOf (w : World) (d : Decl) : String :=
  match d.kind with
  | .file => match w.file? d.ref with | some f => fileScope f | none => ""
  | _ => d.key

/-! ## C02 -/
structure EntRec where
  ref : Ref
  kind : String
  fqn : String
  lookup : Ref        -- what Lookup(key) returns (noRef: not found)
  parent : Ref        -- Parent() / Enum() / Message() / Service() / DefinedIn() / File()
  file : Ref
  pkg : String
  syn : String
  bt : Bool
deriving Repr, DecidableEq, FromJson, ToJson

structure C02Obs where
  failed : Bool
  ents : List EntRec                      -- sorted by reference
  probes : List (String × Ref)            -- Lookup of perturbed names
deriving Repr, DecidableEq, FromJson, ToJson

def entLe (a b : EntRec) : Bool := refLe a.ref b.ref

def entRec (w : World) (s : Seen) (d : Decl) : EntRec :=
  let f := w.file? d.ref
  { ref := d.ref, kind := d.kind.tag, fqn := fqnOf w d,
    lookup := match lookup s d.key with | some x => x.ref | none => noRef,
    parent := if d.kind = .file then noRef else d.ref.parent,
    file := ⟨d.ref.file, []⟩,
    pkg := match f with | some f => f.pkg | none => "",
    syn := match f with | some f => pgsSyntax f | none => "",
    bt := match f with | some f => w.targets.contains f.name | none => false }

def c02Model (w : World) (probeNames : List String) : C02Obs :=
  match hydrate w with
  | .error _ => ⟨true, [], []⟩
  | .ok g => ⟨false, ((declared w).map (entRec w g.seen)).mergeSort entLe,
              probeNames.map fun n => (n, match lookup g.seen n with | some x => x.ref | none => noRef)⟩

/-- own name of a declaration (for the FQN law) -/
def ownName (w : World) (d : Decl) : String :=
  -- the key is container-fqn ++ "." ++ name; names contain no dot
  ((d.key.splitOn ".").getLast?).getD ""

def judgeC02 (w : World) (probeNames : List String) (o : C02Obs) : Option String :=
  if o.failed then some "building failed" else
  let ds := declared w
  let byRef (r : Ref) : Option EntRec := o.ents.find? (·.ref == r)
  if o.ents.map (·.ref) != (ds.map (·.ref)).mergeSort refLe then some "entities: not exactly the declared ones" else
  let bad := ds.find? fun d =>
    match byRef d.ref with
    | none => true
    | some e =>
      let f := w.file? d.ref
      let wantFqn :=
        if d.kind = .file then (match f with | some f => fileScope f | none => "")
        else (match byRef d.ref.parent with | some p => p.fqn ++ "." ++ ownName w d | none => "?")
      e.fqn != wantFqn || e.lookup != d.ref
        || e.parent != (if d.kind = .file then noRef else d.ref.parent)
        || e.file != ⟨d.ref.file, []⟩
        || (match f with | some f => e.pkg != f.pkg || e.syn != pgsSyntax f || e.bt != w.targets.contains f.name | none => true)
  match bad with
  | some d => some s!"entity {d.key}: qualified name / lookup / container / file / package / syntax / build-target link does not match containment"
  | none =>
    let keys := ds.map (·.key)
    match o.probes.find? (fun (n, r) => !keys.contains n && r != noRef) with
    | some (n, _) => some s!"Lookup({n}) found an entity although no descriptor declares that name"
    | none =>
      match o.probes.find? (fun (n, r) => keys.contains n && (ds.find? (·.key == n)).map (·.ref) != some r) with
      | some (n, _) => some s!"Lookup({n}) did not return the declared entity"
      | none => if o.probes.map (·.1) != probeNames then some "harness: probes differ" else none

/-! ## C03 -/
structure TypeRec where
  ref : Ref
  shape : String      -- scalar / enum / embed / repeated / map
  ptype : Nat
  label : Nat
  en : Ref            -- Enum()
  em : Ref            -- Embed()
  elKind : String     -- "", scalar, enum, embed
  elT : Nat
  elRef : Ref
  keyKind : String
  keyT : Nat
  back : Bool         -- Type().Field() is the owner; Element()/Key().ParentType() is the type
  total : Bool        -- every accessor of the type answered without panicking
  pr : Bool           -- protobuf's own reflection agrees on the classification and the target
deriving Repr, DecidableEq, FromJson, ToJson

structure C03Obs where
  failed : Bool
  types : List TypeRec                 -- fields and extensions, sorted by reference
  methods : List (Ref × Ref × Ref)     -- method, input, output; sorted
  exts : List (Ref × Ref × Bool)       -- extension, extendee, extendee lists it back
  applied : List (Ref × List Ref)      -- message ↦ Extensions(), for messages that have any; sorted
deriving Repr, DecidableEq, FromJson, ToJson

def Elem.kind : Elem → String
  | .scalar _ => "scalar" | .enum .. => "enum" | .embed .. => "embed"
def Elem.t : Elem → Nat
  | .scalar t => t | .enum t _ => t | .embed t _ => t
def Elem.ref : Elem → Ref
  | .scalar _ => noRef | .enum _ e => e | .embed _ m => m

def typeRec (r : Ref) (f : FieldD) (t : FType) : TypeRec :=
  let base : TypeRec := ⟨r, "", f.type, f.label, noRef, noRef, "", 0, noRef, "", 0, true, true, true⟩
  match t with
  | .scalar _ => { base with shape := "scalar" }
  | .enum e => { base with shape := "enum", en := e }
  | .embed m => { base with shape := "embed", em := m }
  | .repeated el => { base with shape := "repeated", elKind := el.kind, elT := el.t, elRef := el.ref }
  | .map k el => { base with shape := "map", elKind := el.kind, elT := el.t, elRef := el.ref, keyKind := k.kind, keyT := k.t }

/-- all fields (of ordinary messages and map entries) and extensions with their descriptors -/
def fieldsOfMsgs (fi : Nat) (p : List Nat) (tag : Nat) : Nat → Msgs → List (Ref × FieldD)
  | _, .nil => []
  | i, .cons h nested rest =>
    let here := p ++ [tag, i]
    ((idx h.fields).map fun (k, f) => (⟨fi, here ++ [2, k]⟩, f)) ++ fieldsOfMsgs fi here 3 0 nested
      ++ fieldsOfMsgs fi p tag (i+1) rest

def allFields (w : World) : List (Ref × FieldD) :=
  ((idx w.files).map fun (fi, f) => fieldsOfMsgs fi [] 4 0 f.msgs).flatten

def pairLe (a b : Ref × α) : Bool := refLe a.1 b.1

def c03Model (w : World) : C03Obs :=
  match hydrate w with
  | .error _ => ⟨true, [], [], [], []⟩
  | .ok g =>
    let owners := allFields w ++ allExts 0 w.files
    let types := owners.filterMap fun (r, f) => (g.ftypes.find? (·.1 == r)).map fun (_, t) => typeRec r f t
    let applied := (g.extendees.map (·.2)).eraseDups.map fun m => (m, sortRefs ((g.extendees.filter (·.2 == m)).map (·.1)))   -- as a set: the order of Extensions() is not specified
    ⟨false, types.mergeSort (fun a b => refLe a.ref b.ref), g.mio.mergeSort pairLe,
     (g.extendees.map fun (x, m) => (x, m, true)).mergeSort pairLe, applied.mergeSort pairLe⟩

/-- the declared entity bearing an FQN, of the given kind (declarative lookup over all declarations) -/
def declaredAs (w : World) (k : String) (kind : Kind) : Ref :=
  match (declared w).find? (fun d => d.key == k && d.kind == kind) with
  | some d => d.ref
  | none => noRef

def isMapEntryFqn (w : World) (k : String) : Bool :=
  match w.msgAt (declaredAs w k .msg) with
  | some (h, _) => h.mapEntry
  | none => false

/-- the classification table of the property -/
def specShape (w : World) (f : FieldD) : String :=
  if f.label = 3 then (if f.type = 11 && isMapEntryFqn w f.typeName then "map" else "repeated")
  else if f.type = 14 then "enum" else if f.type = 11 then "embed" else "scalar"

/-- every method with the declared messages its input / output name (declarative) -/
def specMio (w : World) : List (Ref × Ref × Ref) :=
  ((idx w.files).map fun (p : Nat × FileD) => ((idx p.2.services).map fun (q : Nat × ServiceD) =>
    (idx q.2.methods).map fun (m : Nat × MethodD) =>
      ((⟨p.1, [6, q.1, 2, m.1]⟩ : Ref), declaredAs w m.2.input .msg, declaredAs w m.2.output .msg)).flatten).flatten

/-- declarative element: the declared entity of that name and kind -/
def specElem (w : World) (f : FieldD) : Elem :=
  if f.type = 14 then .enum 14 (declaredAs w f.typeName .enum)
  else if f.type = 11 then .embed 11 (declaredAs w f.typeName .msg)
  else .scalar f.type

/-- the declarative type of a field or extension: classification by `specShape`'s table, every
    referenced enum / message THE declaration bearing that name (no index, no timeline) -/
def specType (w : World) (f : FieldD) : FType :=
  if f.label = 3 then
    if f.type = 14 then .repeated (.enum 14 (declaredAs w f.typeName .enum))
    else if f.type = 11 then
      if isMapEntryFqn w f.typeName then
        match w.msgAt (declaredAs w f.typeName .msg) with
        | some (h, _) =>
          (match h.fields with
           | k :: v :: _ => .map (specElem w k) (specElem w v)
           | _ => .map (.scalar 0) (.scalar 0))
        | none => .map (.scalar 0) (.scalar 0)
      else .repeated (.embed 11 (declaredAs w f.typeName .msg))
    else .repeated (.scalar f.type)
  else if f.type = 14 then .enum (declaredAs w f.typeName .enum)
  else if f.type = 11 then .embed (declaredAs w f.typeName .msg)
  else .scalar f.type

def judgeC03 (w : World) (o : C03Obs) : Option String :=
  if o.failed then some "building failed" else
  let owners := allFields w ++ allExts 0 w.files
  if o.types.map (·.ref) != (owners.map (·.1)).mergeSort refLe then some "types: not one type per field and extension" else
  let bad := owners.find? fun (r, f) =>
    match o.types.find? (·.ref == r) with
    | none => true
    | some t =>
      let shape := specShape w f
      t.shape != shape || !t.total || !t.back || !t.pr || t.ptype != f.type || t.label != f.label
      || (shape == "enum" && t.en != declaredAs w f.typeName .enum)
      || (shape == "embed" && t.em != declaredAs w f.typeName .msg)
      || (shape == "repeated" && f.type = 14 && (t.elKind != "enum" || t.elRef != declaredAs w f.typeName .enum))
      || (shape == "repeated" && f.type = 11 && (t.elKind != "embed" || t.elRef != declaredAs w f.typeName .msg))
      || (shape == "repeated" && f.type != 11 && f.type != 14 && (t.elKind != "scalar" || t.elT != f.type))
      || (shape == "map" && (match w.msgAt (declaredAs w f.typeName .msg) with
            | some (h, _) => (match h.fields with
              | k :: v :: _ => t.keyKind != "scalar" || t.keyT != k.type || t.elT != v.type
                  || (v.type = 14 && (t.elKind != "enum" || t.elRef != declaredAs w v.typeName .enum))
                  || (v.type = 11 && (t.elKind != "embed" || t.elRef != declaredAs w v.typeName .msg))
                  || (v.type != 11 && v.type != 14 && t.elKind != "scalar")
              | _ => true)
            | none => true))
  match bad with
  | some (r, f) => some s!"field {f.name} {repr r.path}: type not classified / resolved / owned as the descriptor says"
  | none =>
    let methods := specMio w
    if o.methods != methods.mergeSort pairLe then some "methods: input / output do not resolve to the declared messages" else
    let exts := (allExts 0 w.files).map fun (r, x) => (r, declaredAs w x.extendee .msg, true)
    if o.exts != exts.mergeSort pairLe then some "extensions: extendee not the declared message, or it does not list the extension back" else
    let bad2 := o.applied.find? fun (m, xs) => sortRefs xs != sortRefs ((exts.filter (·.2.1 == m)).map (·.1))
    match bad2 with
    | some _ => some "extensions: a message's applied extensions are not exactly those naming it"
    | none => none

end Pgs.AST
