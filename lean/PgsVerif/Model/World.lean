import Lean.Data.Json
/-
  The descriptor world: exactly the descriptor fields protoc-gen-star reads, as plain data.
  Message nesting is encoded first-child / next-sibling (`Msgs`) so that plain structural
  induction works.  An entity reference `Ref` is (file index, declaration path in
  SourceCodeInfo numbering); the harness computes the same reference for a Go entity from the
  pointer identity of the descriptor it exposes.
-/
namespace Pgs.AST
open Lean

structure EnumValD where
  name : String
  number : Int
deriving Repr, FromJson, ToJson, DecidableEq

structure EnumD where
  name : String
  values : List EnumValD
deriving Repr, FromJson, ToJson, DecidableEq

/-- FieldDescriptorProto (also used for extensions) -/
structure FieldD where
  name : String
  number : Nat
  label : Nat            -- 1 optional, 2 required, 3 repeated
  type : Nat             -- FieldDescriptorProto.Type (1..18); 11 message, 14 enum, 10 group
  typeName : String      -- FQN of the enum / message ("" for scalars)
  oneofIndex : Option Nat
  proto3Optional : Bool
  extendee : String      -- extensions only
deriving Repr, FromJson, ToJson, DecidableEq

structure MethodD where
  name : String
  input : String
  output : String
  cs : Bool
  ss : Bool
deriving Repr, FromJson, ToJson, DecidableEq

structure ServiceD where
  name : String
  methods : List MethodD
deriving Repr, FromJson, ToJson, DecidableEq

structure MsgHead where
  name : String
  mapEntry : Bool
  fields : List FieldD
  enums : List EnumD
  oneofs : List String
  exts : List FieldD
deriving Repr, FromJson, ToJson, DecidableEq

/-- a list of sibling messages: `cons head nested rest` = message `head` with nested types
    `nested`, followed by its later siblings `rest` -/
inductive Msgs where
  | nil
  | cons (head : MsgHead) (nested : Msgs) (rest : Msgs)
deriving Repr, DecidableEq

structure Loc where
  path : List Nat
  tag : Nat              -- identifies the location (its comment)
deriving Repr, FromJson, ToJson, DecidableEq

structure FileD where
  name : String
  pkg : String
  syn : String           -- "", "proto2" or "proto3", as in the descriptor
  deps : List String
  publicDeps : List Nat
  enums : List EnumD
  msgs : Msgs
  services : List ServiceD
  exts : List FieldD
  locs : List Loc
  goPackage : String
deriving Repr

structure World where
  files : List FileD
  targets : List String
  bidi : Bool
deriving Repr

structure Ref where
  file : Nat
  path : List Nat
deriving Repr, DecidableEq, FromJson, ToJson, Hashable

inductive Kind where
  | file | msg | field | enum | value | oneof | service | method | ext
deriving Repr, DecidableEq

def Kind.tag : Kind → String
  | .file => "file" | .msg => "msg" | .field => "field" | .enum => "enum" | .value => "value"
  | .oneof => "oneof" | .service => "service" | .method => "method" | .ext => "ext"

/-! ### basic measures and lookups over `Msgs` -/
def Msgs.length : Msgs → Nat
  | .nil => 0
  | .cons _ _ r => r.length + 1

def Msgs.get? : Msgs → Nat → Option (MsgHead × Msgs)
  | .nil, _ => none
  | .cons h n _, 0 => some (h, n)
  | .cons _ _ r, i+1 => r.get? i

def Msgs.heads : Msgs → List (MsgHead × Msgs)
  | .nil => []
  | .cons h n r => (h, n) :: r.heads

/-! ### JSON decoding (glue) -/
partial def msgsOfJson (j : Json) : Except String Msgs := do
  let arr ← j.getArr?
  arr.foldrM (fun mj acc => do
    let head : MsgHead ← fromJson? (← mj.getObjVal? "head")
    let nested ← msgsOfJson (← mj.getObjVal? "nested")
    pure (Msgs.cons head nested acc)) Msgs.nil

structure FileJ where
  name : String
  pkg : String
  syn : String
  deps : List String
  publicDeps : List Nat
  enums : List EnumD
  msgs : Json
  services : List ServiceD
  exts : List FieldD
  locs : List Loc
  goPackage : String
deriving FromJson

def FileJ.toFile (f : FileJ) : Except String FileD := do
  let m ← msgsOfJson f.msgs
  pure ⟨f.name, f.pkg, f.syn, f.deps, f.publicDeps, f.enums, m, f.services, f.exts, f.locs, f.goPackage⟩

structure WorldJ where
  files : List FileJ
  targets : List String
  bidi : Bool
deriving FromJson

def WorldJ.toWorld (w : WorldJ) : Except String World := do
  let fs ← w.files.mapM FileJ.toFile
  pure ⟨fs, w.targets, w.bidi⟩

instance : FromJson World where
  fromJson? j := do let wj : WorldJ ← fromJson? j; wj.toWorld

end Pgs.AST
