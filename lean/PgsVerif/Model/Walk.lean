import PgsVerif.Model.AstSem
/-
  C07 — `Walk` / the ten `accept` methods (node.go, package.go, file.go, message.go, enum.go,
  service.go and the leaves).  A visitor is identified by a number; what a visit answers is a
  policy (parameter of the model): continue with the same visitor, with a replacement, prune, or
  fail (with or without handing back a visitor).
-/
namespace Pgs.AST
open Lean

inductive Act where
  | same
  | replace (vid : Nat)
  | prune
  | failNil          -- (nil, err)
  | failKeep         -- (v, err)
deriving Repr, DecidableEq

abbrev Policy := List (Ref × Act)

def Policy.act (p : Policy) (r : Ref) : Act :=
  match p.find? (·.1 == r) with
  | some (_, a) => a
  | none => .same

structure WS where
  trace : List (Ref × Nat)     -- newest first
  err : Option Ref             -- the error a visit returned (identified by the failing node)
deriving Repr

/-- one `v.VisitX(node)` call: records the visit, answers per policy -/
def visit (pol : Policy) (vid : Nat) (r : Ref) (ws : WS) : WS × Option Nat :=
  let ws1 := { ws with trace := (r, vid) :: ws.trace }
  match pol.act r with
  | .same => (ws1, some vid)
  | .replace k => (ws1, some k)
  | .prune => (ws1, none)
  | .failNil => ({ ws1 with err := some r }, none)
  | .failKeep => ({ ws1 with err := some r }, some vid)

/-- leaves: `_, err = v.VisitX(n)` -/
def acceptLeaves (pol : Policy) (v : Nat) : List Ref → WS → WS
  | [], ws => ws
  | r :: rs, ws => if ws.err.isSome then ws else acceptLeaves pol v rs (visit pol v r ws).1

def acceptEnum (pol : Policy) (v : Nat) (r : Ref) (nvals : Nat) (ws : WS) : WS :=
  if ws.err.isSome then ws else
  match visit pol v r ws with
  | (ws1, some v1) => if ws1.err.isSome then ws1 else acceptLeaves pol v1 (childRefs r.file r.path 2 nvals) ws1
  | (ws1, none) => ws1

def acceptEnums (pol : Policy) (v : Nat) (fi : Nat) (p : List Nat) (tag : Nat) : Nat → List EnumD → WS → WS
  | _, [], ws => ws
  | i, e :: es, ws => acceptEnums pol v fi p tag (i+1) es (acceptEnum pol v ⟨fi, p ++ [tag, i]⟩ e.values.length ws)

/-- the ordinary messages of a sibling list, each with everything below it -/
def acceptMsgs (pol : Policy) (fi : Nat) (p : List Nat) (tag : Nat) (v : Nat) : Nat → Msgs → WS → WS
  | _, .nil, ws => ws
  | i, .cons h nested rest, ws =>
    let here := p ++ [tag, i]
    let ws' :=
      if h.mapEntry || ws.err.isSome then ws        -- map entries are not among `msgs`
      else
        match visit pol v ⟨fi, here⟩ ws with
        | (ws1, none) => ws1
        | (ws1, some v1) =>
          if ws1.err.isSome then ws1 else
          let ws2 := acceptEnums pol v1 fi here 4 0 h.enums ws1
          let ws3 := acceptMsgs pol fi here 3 v1 0 nested ws2
          let ws4 := acceptLeaves pol v1 (childRefs fi here 2 h.fields.length) ws3
          let ws5 := acceptLeaves pol v1 (childRefs fi here 8 h.oneofs.length) ws4
          acceptLeaves pol v1 (childRefs fi here 6 h.exts.length) ws5
    acceptMsgs pol fi p tag v (i+1) rest ws'

def acceptService (pol : Policy) (v : Nat) (r : Ref) (nm : Nat) (ws : WS) : WS :=
  if ws.err.isSome then ws else
  match visit pol v r ws with
  | (ws1, some v1) => if ws1.err.isSome then ws1 else acceptLeaves pol v1 (childRefs r.file r.path 2 nm) ws1
  | (ws1, none) => ws1

def acceptServices (pol : Policy) (v : Nat) (fi : Nat) : Nat → List ServiceD → WS → WS
  | _, [], ws => ws
  | i, s :: ss, ws => acceptServices pol v fi (i+1) ss (acceptService pol v ⟨fi, [6, i]⟩ s.methods.length ws)

def acceptFile (pol : Policy) (v : Nat) (fi : Nat) (f : FileD) (ws : WS) : WS :=
  if ws.err.isSome then ws else
  match visit pol v ⟨fi, []⟩ ws with
  | (ws1, none) => ws1
  | (ws1, some v1) =>
    if ws1.err.isSome then ws1 else
    let ws2 := acceptEnums pol v1 fi [] 5 0 f.enums ws1
    let ws3 := acceptMsgs pol fi [] 4 v1 0 f.msgs ws2
    let ws4 := acceptServices pol v1 fi 0 f.services ws3
    acceptLeaves pol v1 (childRefs fi [] 7 f.exts.length) ws4

def pkgRef (i : Nat) : Ref := ⟨900000 + i, []⟩

def acceptFiles (pol : Policy) (v : Nat) (w : World) : List Ref → WS → WS
  | [], ws => ws
  | r :: rs, ws =>
    match w.files[r.file]? with
    | some f => acceptFiles pol v w rs (acceptFile pol v r.file f ws)
    | none => acceptFiles pol v w rs ws

def acceptPackage (pol : Policy) (v : Nat) (w : World) (i : Nat) (ws : WS) : WS :=
  match (packagesOf w.files)[i]? with
  | none => ws
  | some (_, files) =>
    match visit pol v (pkgRef i) ws with
    | (ws1, none) => ws1
    | (ws1, some v1) => if ws1.err.isSome then ws1 else acceptFiles pol v1 w files ws1

/-- `Walk(v, node)` for a start node given by reference; `pass`: through `PassThroughVisitor(v)` -/
def walkFrom (pol : Policy) (w : World) (start : Ref) (pass : Bool) : WS :=
  let ws0 : WS := ⟨[], none⟩
  -- with the pass-through visitor the start node itself is answered by the wrapper: (v, nil)
  let pol' : Policy := pol
  let enter (r : Ref) (k : Nat → WS → WS) : WS :=
    if pass then k 0 ws0 else
    match visit pol' 0 r ws0 with
    | (ws1, some v1) => if ws1.err.isSome then ws1 else k v1 ws1
    | (ws1, none) => ws1
  if start.file ≥ 900000 then
    match (packagesOf w.files)[start.file - 900000]? with
    | some (_, files) => enter start (fun v ws => acceptFiles pol v w files ws)
    | none => ws0
  else
  match w.files[start.file]? with
  | none => ws0
  | some f =>
    let fi := start.file
    match start.path with
    | [] => enter start fun v ws =>
        let ws2 := acceptEnums pol v fi [] 5 0 f.enums ws
        let ws3 := acceptMsgs pol fi [] 4 v 0 f.msgs ws2
        let ws4 := acceptServices pol v fi 0 f.services ws3
        acceptLeaves pol v (childRefs fi [] 7 f.exts.length) ws4
    | [5, i] => (match f.enums[i]? with
        | some e => enter start fun v ws => acceptLeaves pol v (childRefs fi [5, i] 2 e.values.length) ws
        | none => ws0)
    | [6, i] => (match f.services[i]? with
        | some s => enter start fun v ws => acceptLeaves pol v (childRefs fi [6, i] 2 s.methods.length) ws
        | none => ws0)
    | _ =>
      match w.msgAt start with
      | some (h, nested) => enter start fun v ws =>
          let here := start.path
          let ws2 := acceptEnums pol v fi here 4 0 h.enums ws
          let ws3 := acceptMsgs pol fi here 3 v 0 nested ws2
          let ws4 := acceptLeaves pol v (childRefs fi here 2 h.fields.length) ws3
          let ws5 := acceptLeaves pol v (childRefs fi here 8 h.oneofs.length) ws4
          acceptLeaves pol v (childRefs fi here 6 h.exts.length) ws5
      | none =>
        -- a leaf (field, oneof, value, method, extension) or a nested enum
        match start.path.reverse with
        | i :: 4 :: rp =>
          (match w.msgAt ⟨fi, rp.reverse⟩ with
           | some (h, _) => (match h.enums[i]? with
             | some e => enter start fun v ws => acceptLeaves pol v (childRefs fi start.path 2 e.values.length) ws
             | none => enter start fun _ ws => ws)
           | none => enter start fun _ ws => ws)
        | _ => enter start fun _ ws => ws

structure WalkObs where
  trace : List (Ref × Nat)
  err : Ref
deriving Repr, DecidableEq, FromJson, ToJson

def walkModel (pol : Policy) (w : World) (start : Ref) (pass : Bool) : WalkObs :=
  let ws := walkFrom pol w start pass
  ⟨ws.trace.reverse, ws.err.getD noRef⟩

/-! ### declarative side: the containment pre-order and the pruned walk over it -/

def enumOrder (r : Ref) (nvals : Nat) : List Ref := r :: childRefs r.file r.path 2 nvals

def msgsOrder (fi : Nat) (p : List Nat) (tag : Nat) : Nat → Msgs → List Ref
  | _, .nil => []
  | i, .cons h nested rest =>
    let here := p ++ [tag, i]
    (if h.mapEntry then [] else
      ⟨fi, here⟩ :: ((idx h.enums).map fun (k, e) => enumOrder ⟨fi, here ++ [4, k]⟩ e.values.length).flatten
        ++ msgsOrder fi here 3 0 nested
        ++ childRefs fi here 2 h.fields.length ++ childRefs fi here 8 h.oneofs.length ++ childRefs fi here 6 h.exts.length)
    ++ msgsOrder fi p tag (i+1) rest

def fileOrder (fi : Nat) (f : FileD) : List Ref :=
  ⟨fi, []⟩ :: ((idx f.enums).map fun (k, e) => enumOrder ⟨fi, [5, k]⟩ e.values.length).flatten
    ++ msgsOrder fi [] 4 0 f.msgs
    ++ ((idx f.services).map fun (k, s) => ⟨fi, [6, k]⟩ :: childRefs fi [6, k] 2 s.methods.length).flatten
    ++ childRefs fi [] 7 f.exts.length

/-- `a` contains `b` (strictly) -/
def contains (w : World) (a b : Ref) : Bool :=
  if a.file ≥ 900000 then
    (match (packagesOf w.files)[a.file - 900000]? with
     | some (_, files) => b.file < 900000 && files.any (·.file == b.file)
     | none => false)
  else a.file == b.file && a.path.length < b.path.length && b.path.take a.path.length == a.path

/-- everything the start node contains, in walk order, the start first -/
def preorder (w : World) (start : Ref) : List Ref :=
  if start.file ≥ 900000 then
    match (packagesOf w.files)[start.file - 900000]? with
    | some (_, files) => start :: (files.map fun r => match w.files[r.file]? with | some f => fileOrder r.file f | none => []).flatten
    | none => []
  else match w.files[start.file]? with
    | some f => (fileOrder start.file f).filter fun r => r == start || contains w start r
    | none => []

structure SpecSt where
  trace : List (Ref × Nat)          -- newest first
  vstack : List (Ref × Nat)         -- visited ancestors with the visitor each handed to its contents
  pruned : Option Ref
  err : Option Ref

def specStep (w : World) (pol : Policy) (pass : Bool) (start : Ref) (st : SpecSt) (n : Ref) : SpecSt :=
  if st.err.isSome then st
  else if (match st.pruned with | some r => contains w r n | none => false) then st
  else if pass && n == start then { st with vstack := [(n, 0)] }      -- answered by the pass-through wrapper
  else
    let vstack := st.vstack.dropWhile fun (a, _) => !contains w a n
    let v := match vstack with | (_, v) :: _ => v | [] => 0
    let st1 := { st with trace := (n, v) :: st.trace, vstack := vstack, pruned := none }
    match pol.act n with
    | .same => { st1 with vstack := (n, v) :: vstack }
    | .replace k => { st1 with vstack := (n, k) :: vstack }
    | .prune => { st1 with pruned := some n }
    | .failNil => { st1 with err := some n }
    | .failKeep => { st1 with err := some n }

def specWalk (pol : Policy) (w : World) (start : Ref) (pass : Bool) : WalkObs :=
  let st := (preorder w start).foldl (specStep w pol pass start) ⟨[], [], none, none⟩
  ⟨st.trace.reverse, st.err.getD noRef⟩

def judgeWalk (pol : Policy) (w : World) (start : Ref) (pass : Bool) (o : WalkObs) : Option String :=
  let want := specWalk pol w start pass
  if o == want then none
  else if (o.trace.map (·.1)).eraseDups.length != o.trace.length then some "an entity was visited more than once"
  else if o.trace.map (·.1) != want.trace.map (·.1) then
    some "visited entities are not the contained ones in depth-first declaration order honouring prune / error (or a map entry was visited)"
  else if o.trace != want.trace then some "a node's contents were not visited with the visitor that node returned"
  else some "Walk did not return exactly the error that stopped it"

end Pgs.AST
