import PgsVerif.Model.Bytes
/-
  C20 — `C(wrap, text)` (comment.go): `bufio.Scanner` driven by `splitComment(wrap-3)`.

  The text is the sequence of runes `utf8.DecodeRune` yields, each with its bytes and whether
  `unicode.IsSpace` holds (parameters supplied by the harness; the theorems hold for every such
  decoration).  Since the scanner's buffer is sized to the whole text (len+1), the reader delivers
  the text in one read and reports EOF on the next; `scanLoop` is that schedule: split calls with
  `atEOF = false` until one asks for more data, then with `atEOF = true` until one yields nothing.
-/
namespace Pgs.C20
open Pgs

structure R where
  b : Bytes     -- the bytes of the rune in the text (width = b.length ≥ 1)
  sp : Bool     -- unicode.IsSpace
deriving DecidableEq, Repr

def width (rs : List R) : Nat := (rs.map (·.b.length)).sum

/-- what one call of the split function returns: an optional token and the data left in the
    buffer after `advance` -/
structure SplitRes where
  token : Option (List R)
  rest : List R
deriving Repr

/-- remember the most recent blank below the width: the token that would end there and the
    data from that blank on (`lastSpace`) -/
abbrev LastSpace := Option (List R × List R)   -- (token runes, most recent first; data from the blank on)

/-- the second loop of `splitComment`: `i` is the byte offset of `r` in `data`, `cur` the runes
    of `data[start:i]` in reverse order (most recent first) -/
def scanFrom (w : Int) (atEOF : Bool) : List R → Nat → List R → LastSpace → SplitRes
  | [], i, cur, ls =>
    -- fell off the end of the data
    if atEOF && decide (cur ≠ []) then
      match ls with
      | some (tok, rest) => if (i : Int) ≥ w then ⟨some tok.reverse, rest⟩ else ⟨some (cur.dropWhile (·.sp)).reverse, []⟩
      | none => ⟨some (cur.dropWhile (·.sp)).reverse, []⟩          -- bytes.TrimSpace(data[start:])
    else ⟨none, cur.reverse⟩     -- `return start, nil, nil`
  | r :: rest, i, cur, ls =>
    if r.sp then
      if (i : Int) ≥ w then
        match ls with
        | none => ⟨some cur.reverse, rest⟩                    -- token cannot be broken further
        | some (tok, rest') => ⟨some tok.reverse, rest'⟩
      else scanFrom w atEOF rest (i + r.b.length) (r :: cur) (some (cur, r :: rest))
    else scanFrom w atEOF rest (i + r.b.length) (r :: cur) ls

/-- `splitComment(w)` on the buffered data -/
def splitComment (w : Int) (data : List R) (atEOF : Bool) : SplitRes :=
  let lead := data.takeWhile (·.sp)
  let body := data.dropWhile (·.sp)
  scanFrom w atEOF body (width lead) [] none

/-- the `bufio.Scanner` loop for a reader that delivers everything at once -/
def scanLoop (w : Int) : Nat → List R → Bool → List (List R) → List (List R)
  | 0, _, _, acc => acc
  | fuel+1, data, eof, acc =>
    if data = [] ∧ eof = false then scanLoop w fuel data true acc
    else
      let r := splitComment w data eof
      match r.token with
      | some t => scanLoop w fuel r.rest eof (acc ++ [t])
      | none => if eof then acc else scanLoop w fuel r.rest true acc

def tokens (wrap : Int) (text : List R) : List (List R) := scanLoop (wrap - 3) (text.length + 3) text false []

/-- `strings.Fields`: maximal runs of non-blank runes, as byte strings (`cur`: the runes of the
    current word, most recent first) -/
def fieldsAux : List R → List R → List Bytes
  | [], cur => if cur = [] then [] else [(cur.reverse.map (·.b)).flatten]
  | r :: rs, cur =>
    if r.sp then (if cur = [] then fieldsAux rs [] else (cur.reverse.map (·.b)).flatten :: fieldsAux rs [])
    else fieldsAux rs (r :: cur)

def fields (rs : List R) : List Bytes := fieldsAux rs []

/-- the lines of `C(wrap, text)`: each the words of one token -/
def lines (wrap : Int) (text : List R) : List (List Bytes) := (tokens wrap text).map fields

/-- observation of one output line: did it begin with the marker `// `, and its words -/
structure Line where
  marker : Bool
  words : List Bytes
deriving BEq, Repr

def model (wrap : Int) (text : List R) : List Line := (lines wrap text).map fun ws => ⟨true, ws⟩

def lineLen (ws : List Bytes) : Nat := 3 + (ws.map (·.length)).sum + (ws.length - 1)

/-- Φ_C20 -/
def judge (wrap : Int) (text : List R) (o : List Line) : Option String :=
  if (o.map (·.words)).flatten != fields text then some "words: the output words are not the input words in order"
  else if o.any (fun l => !l.marker) then some "marker: an output line does not begin with the comment marker"
  else if o.any (fun l => l.words.isEmpty) then some "marker: an output line carries no word"
  else if o.any (fun l => decide (l.words.length > 1) && decide ((lineLen l.words : Int) > wrap)) then
    some "width: a line holding more than one word exceeds the requested width"
  else none

end Pgs.C20
