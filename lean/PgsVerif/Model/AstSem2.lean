import PgsVerif.Model.AstSem
/-
  C04 (imports), C08 (source locations), C09 (presence / oneof / syntax semantics).
-/
namespace Pgs.AST
open Lean

/-! ## C04 -/

def Graph.depsOf (g : Graph) (fi : Nat) : List Nat :=
  match g.fileDeps.find? (·.1 == fi) with
  | some (_, ds) => ds.map (·.file)
  | none => []

/-- `TransitiveImports`: the recursive union, by fuel (dependencies are earlier files in a valid
    request; the fuel `number of files` is never exhausted then) -/
def transImports (g : Graph) : Nat → Nat → List Nat
  | 0, _ => []
  | fuel+1, fi =>
    ((g.depsOf fi).map fun d => d :: transImports g fuel d).flatten.eraseDups

/-- `Dependents`: files that (transitively) import `fi` -/
def dependentsOf (g : Graph) (n : Nat) : Nat → Nat → List Nat
  | 0, _ => []
  | fuel+1, fi =>
    let direct := (List.range n).filter fun j => (g.depsOf j).contains fi
    (direct.map fun d => d :: dependentsOf g n fuel d).flatten.eraseDups

def Graph.ftype? (g : Graph) (r : Ref) : Option FType := (g.ftypes.find? (·.1 == r)).map (·.2)

/-- `FieldType.Imports()` -/
def typeImports (own : Nat) : FType → List Nat
  | .scalar _ => []
  | .enum e => if e.file != own then [e.file] else []
  | .embed m => if m.file != own then [m.file] else []
  | .repeated el => if el.ref != noRef && el.ref.file != own then [el.ref.file] else []
  | .map _ el => if el.ref != noRef && el.ref.file != own then [el.ref.file] else []

def fieldImports (g : Graph) (r : Ref) : List Nat :=
  match g.ftype? r with
  | some t => typeImports r.file t
  | none => []

structure ImpRec where
  ref : Ref
  kind : String
  imports : List Nat      -- file indices, sorted
  dup : Bool              -- the accessor listed a file twice
deriving Repr, DecidableEq, FromJson, ToJson

structure FileImp where
  file : Nat
  imports : List Nat      -- in declaration order
  transitive : List Nat   -- sorted
  dependents : List Nat   -- sorted
  unused : List Nat       -- sorted
  dup : Bool
deriving Repr, DecidableEq, FromJson, ToJson

structure C04Obs where
  failed : Bool
  files : List FileImp
  ents : List ImpRec      -- messages, fields, oneofs, services, methods, extensions; sorted by reference
deriving Repr, DecidableEq, FromJson, ToJson

def natLe (a b : Nat) : Bool := a ≤ b
def sortNat (l : List Nat) : List Nat := l.eraseDups.mergeSort natLe

/-- fields of one message (by reference) -/
def msgFieldRefs (r : Ref) (h : MsgHead) : List Ref := childRefs r.file r.path 2 h.fields.length

def methodImports (g : Graph) (r : Ref) : List Nat :=
  match g.mio.find? (·.1 == r) with
  | some (_, i, o) =>
    (if i.file != r.file then [i.file] else []) ++ (if o.file != r.file && o.file != i.file then [o.file] else [])
  | none => []

/-- every ordinary message and map entry with its reference -/
def msgsWithRefs (fi : Nat) (p : List Nat) (tag : Nat) : Nat → Msgs → List (Ref × MsgHead)
  | _, .nil => []
  | i, .cons h nested rest =>
    (⟨fi, p ++ [tag, i]⟩, h) :: msgsWithRefs fi (p ++ [tag, i]) 3 0 nested ++ msgsWithRefs fi p tag (i+1) rest

def allMsgs (w : World) : List (Ref × MsgHead) :=
  ((idx w.files).map fun (fi, f) => msgsWithRefs fi [] 4 0 f.msgs).flatten

def extImports (g : Graph) (r : Ref) : List Nat :=
  fieldImports g r

/-- `UnusedImports` (with extensions accounted for) -/
def unusedImports (w : World) (g : Graph) (fi : Nat) (f : FileD) : List Nat :=
  let direct := (idx (g.depsOf fi)).filterMap fun (i, d) => if f.publicDeps.contains i then none else some d
  let ordinary := (msgsWithRefs fi [] 4 0 f.msgs).filter (fun (r, _) => (allMsgRefs fi [] 4 0 f.msgs).contains r)
  let usedByMsgs := (ordinary.map fun (r, h) => ((msgFieldRefs r h).map (fieldImports g)).flatten).flatten
  let usedBySvcs := ((idx f.services).map fun (si, s) =>
      ((List.range s.methods.length).map fun mi => methodImports g ⟨fi, [6, si, 2, mi]⟩).flatten).flatten
  let exts := (childRefs fi [] 7 f.exts.length) ++ (ordinary.map fun (r, h) => childRefs fi r.path 6 h.exts.length).flatten
  let usedByExts := (exts.map fun x => extImports g x ++ (match g.extendees.find? (·.1 == x) with | some (_, m) => [m.file] | none => [])).flatten
  let _ := w
  direct.filter fun d => !(usedByMsgs ++ usedBySvcs ++ usedByExts).contains d

def c04Model (w : World) : C04Obs :=
  match hydrate w with
  | .error _ => ⟨true, [], []⟩
  | .ok g =>
    let n := w.files.length
    let files := (idx w.files).map fun (fi, f) =>
      (⟨fi, g.depsOf fi, sortNat (transImports g n fi), sortNat (dependentsOf g n n fi), sortNat (unusedImports w g fi f), false⟩ : FileImp)
    let msgs := allMsgs w
    let ents : List ImpRec :=
      (msgs.map fun (r, h) => (⟨r, "msg", sortNat ((msgFieldRefs r h).map (fieldImports g)).flatten, false⟩ : ImpRec))
      ++ (msgs.map fun (r, h) => (msgFieldRefs r h).map fun fr => (⟨fr, "field", sortNat (fieldImports g fr), false⟩ : ImpRec)).flatten
      ++ (msgs.map fun (r, h) => (List.range h.oneofs.length).map fun o =>
            (⟨⟨r.file, r.path ++ [8, o]⟩, "oneof", sortNat ((oneofMembers r.file r.path h.fields o).map (fieldImports g)).flatten, false⟩ : ImpRec)).flatten
      ++ ((idx w.files).map fun (fi, f) => ((idx f.services).map fun (si, s) =>
            (⟨⟨fi, [6, si]⟩, "service", sortNat ((List.range s.methods.length).map fun mi => methodImports g ⟨fi, [6, si, 2, mi]⟩).flatten, false⟩ : ImpRec)
            :: (List.range s.methods.length).map fun mi => (⟨⟨fi, [6, si, 2, mi]⟩, "method", sortNat (methodImports g ⟨fi, [6, si, 2, mi]⟩), false⟩ : ImpRec)).flatten).flatten
      ++ ((allExts 0 w.files).map fun (r, _) => (⟨r, "ext", sortNat (extImports g r), false⟩ : ImpRec))
    ⟨false, files, ents.mergeSort (fun a b => refLe a.ref b.ref)⟩

/-! declarative side -/
def fileIdxOf (w : World) (name : String) : Option Nat :=
  ((idx w.files).find? (fun (_, f) => f.name == name)).map (·.1)

def directDeps (w : World) (fi : Nat) : List Nat :=
  match w.files[fi]? with
  | some f => f.deps.filterMap (fileIdxOf w)
  | none => []

/-- files reachable through one or more imports (closure by iteration to a fixpoint within fuel) -/
def reachFrom (w : World) : Nat → List Nat → List Nat
  | 0, acc => acc
  | fuel+1, acc =>
    let acc := acc.eraseDups
    let next := (acc ++ (acc.map (directDeps w)).flatten).eraseDups
    if next.length = acc.length then acc else reachFrom w fuel next

def specTransitive (w : World) (fi : Nat) : List Nat := sortNat (reachFrom w w.files.length (directDeps w fi))

/-- file defining the type named by a field/extension, if another file -/
def definingFile (w : World) (f : FieldD) : Option Nat :=
  if f.type = 14 then (let r := declaredAs w f.typeName .enum; if r == noRef then none else some r.file)
  else if f.type = 11 then (let r := declaredAs w f.typeName .msg; if r == noRef then none else some r.file)
  else none

/-- the files a field references: its type; for a map field, the value type of its entry -/
def specFieldFiles (w : World) (own : Nat) (f : FieldD) : List Nat :=
  let target : Option Nat :=
    if f.label = 3 && f.type = 11 && isMapEntryFqn w f.typeName then
      match w.msgAt (declaredAs w f.typeName .msg) with
      | some (h, _) => (match h.fields with | _ :: v :: _ => definingFile w v | _ => none)
      | none => none
    else definingFile w f
  match target with
  | some d => if d != own then [d] else []
  | none => []

def judgeC04 (w : World) (o : C04Obs) : Option String :=
  if o.failed then some "building failed" else
  if o.files.any (·.dup) || o.ents.any (·.dup) then some "an import relation lists a file more than once" else
  let n := w.files.length
  if o.files.length != n then some "files: wrong number" else
  let badFile := (idx w.files).find? fun (fi, f) =>
    match o.files[fi]? with
    | none => true
    | some r =>
      let usedFiles :=
        ((fieldsOfMsgs fi [] 4 0 f.msgs).map fun (_, fd) => specFieldFiles w fi fd).flatten
        ++ (f.services.map fun s => (s.methods.map fun m =>
              [declaredAs w m.input .msg, declaredAs w m.output .msg].filterMap fun r => if r == noRef then none else some r.file).flatten).flatten
        ++ ((extsOfFile fi f).map fun (_, x) => specFieldFiles w fi x
              ++ (let r := declaredAs w x.extendee .msg; if r == noRef then [] else [r.file])).flatten
      let direct := directDeps w fi
      let wantUnused := sortNat ((idx direct).filterMap fun (i, d) => if f.publicDeps.contains i || usedFiles.contains d then none else some d)
      r.file != fi || r.imports != direct || r.transitive != specTransitive w fi
        || r.dependents != sortNat ((List.range n).filter fun j => (specTransitive w j).contains fi)
        || r.unused != wantUnused
  match badFile with
  | some (fi, _) => some s!"file {fi}: imports / transitive imports / dependents / unused imports are not exact"
  | none =>
    let m := c04Model w
    -- entity-level imports: compare with the declarative per-field rule
    let fields := allFields w ++ allExts 0 w.files
    let badField := fields.find? fun (r, fd) =>
      match o.ents.find? (·.ref == r) with
      | some e => e.imports != sortNat (specFieldFiles w r.file fd)
      | none => true
    match badField with
    | some (r, fd) => some s!"field {fd.name} {repr r.path}: imports are not exactly the other files defining the types it references"
    | none =>
      -- containers: unions of their members (messages, oneofs, services), methods: input/output
      if o.ents.map (·.ref) != m.ents.map (·.ref) then some "entities: not exactly the declared ones" else
      let bad := (allMsgs w).find? fun (r, h) =>
        match o.ents.find? (fun e => e.ref == r && e.kind == "msg") with
        | some e => e.imports != sortNat ((idx h.fields).map fun (_, fd) => specFieldFiles w r.file fd).flatten
        | none => true
      match bad with
      | some (r, _) => some s!"message {repr r.path}: imports are not the union of its fields' imports"
      | none =>
        if (o.ents.filter fun e => e.kind == "oneof" || e.kind == "service" || e.kind == "method")
            != (m.ents.filter fun e => e.kind == "oneof" || e.kind == "service" || e.kind == "method") then
          some "oneof / service / method imports are not exact"
        else none

/-! ## C08 -/

def listGet? (l : List α) (i : Nat) : Option α := l[i]?

/-- `childAtPath` starting at a file: the entity a path designates (transcription, including the
    `preservedMsgs` indexing and the odd-length rule) -/
def msgChildAt (fi : Nat) (here : List Nat) (h : MsgHead) (nested : Msgs) : List Nat → Option Ref
  | [] => some ⟨fi, here⟩
  | [_] => none
  | tag :: i :: rest =>
    if (rest.length % 2 != 0) then none
    else if tag = 2 then (if i < h.fields.length then (if rest = [] then some ⟨fi, here ++ [2, i]⟩ else none) else none)
    else if tag = 3 then
      match nested.get? i with
      | some (h', n') => msgChildAt fi (here ++ [3, i]) h' n' rest
      | none => none
    else if tag = 4 then
      match h.enums[i]? with
      | some e => (match rest with
        | [] => some ⟨fi, here ++ [4, i]⟩
        | [2, v] => if v < e.values.length then some ⟨fi, here ++ [4, i, 2, v]⟩ else none
        | _ => none)
      | none => none
    else if tag = 8 then (if i < h.oneofs.length ∧ rest = [] then some ⟨fi, here ++ [8, i]⟩ else none)
    else if tag = 6 then (if i < h.exts.length ∧ rest = [] then some ⟨fi, here ++ [6, i]⟩ else none)
    else none
termination_by p => p.length
decreasing_by all_goals simp_wf; omega

def fileChildAt (fi : Nat) (f : FileD) (path : List Nat) : Option Ref :=
  match path with
  | [] => some ⟨fi, []⟩
  | [_] => none
  | tag :: i :: rest =>
    if rest.length % 2 != 0 then none
    else if tag = 4 then
      match f.msgs.get? i with
      | some (h, n) => msgChildAt fi [4, i] h n rest
      | none => none
    else if tag = 5 then
      match f.enums[i]? with
      | some e => (match rest with
        | [] => some ⟨fi, [5, i]⟩
        | [2, v] => if v < e.values.length then some ⟨fi, [5, i, 2, v]⟩ else none
        | _ => none)
      | none => none
    else if tag = 6 then
      match f.services[i]? with
      | some s => (match rest with
        | [] => some ⟨fi, [6, i]⟩
        | [2, m] => if m < s.methods.length then some ⟨fi, [6, i, 2, m]⟩ else none
        | _ => none)
      | none => none
    else if tag = 7 then (if i < f.exts.length ∧ rest = [] then some ⟨fi, [7, i]⟩ else none)
    else none

structure InfoState where
  syntaxInfo : Option Nat
  packageInfo : Option Nat
  infos : List (Ref × Nat)      -- entity ↦ tag of the attached location (later entries override)

/-- `hydrateSourceCodeInfo`: route one location -/
def routeLoc (fi : Nat) (f : FileD) (st : InfoState) (l : Loc) : InfoState :=
  if l.path = [] then st else      -- the whole-file location designates no declaration (fix F12)
  let st1 :=
    if l.path.length = 1 then
      (if l.path = [12] then { st with syntaxInfo := some l.tag }
       else if l.path = [2] then { st with packageInfo := some l.tag } else st)
    else st
  if l.path.length = 1 ∧ l.path ≠ [12] ∧ l.path ≠ [2] then st1   -- `continue`
  else
    match fileChildAt fi f l.path with
    | some r => if r.path = [] then { st1 with syntaxInfo := some l.tag }     -- file.addSourceCodeInfo sets the syntax info
                else { st1 with infos := (r, l.tag) :: st1.infos }
    | none => st1

structure C08Obs where
  failed : Bool
  files : List (Nat × Int × Int)         -- file, syntax-info tag, package-info tag (-1: none)
  infos : List (Ref × Int)               -- every entity except files, sorted: tag of its location or -1
deriving Repr, DecidableEq, FromJson, ToJson

def optTag : Option Nat → Int
  | some t => t
  | none => -1

def c08Model (w : World) : C08Obs :=
  match hydrate w with
  | .error _ => ⟨true, [], []⟩
  | .ok _ =>
    let sts := (idx w.files).map fun (fi, f) => (fi, f.locs.foldl (routeLoc fi f) ⟨none, none, []⟩)
    let ents := ((declared w).filter (·.kind != .file)).map (·.ref)
    ⟨false, sts.map fun (fi, st) => (fi, optTag st.syntaxInfo, optTag st.packageInfo),
     (ents.map fun r =>
        let st := (sts.find? (·.1 == r.file)).map (·.2)
        (r, match st with
            | some st => optTag ((st.infos.find? (·.1 == r)).map (·.2))
            | none => -1)).mergeSort pairLe⟩

/-- domain: location paths pairwise distinct per file (generated worlds satisfy it by construction) -/
def domC08 (w : World) : Bool :=
  w.files.all fun f =>
    let ps := f.locs.map (·.path)
    ps.eraseDups.length == ps.length

def judgeC08 (w : World) (o : C08Obs) : Option String :=
  if o.failed then some "building failed" else
  let ents := (declared w).filter (·.kind != .file)
  if o.infos.map (·.1) != (ents.map (·.ref)).mergeSort refLe then some "entities: not exactly the declared ones" else
  let bad := ents.find? fun d =>
    match w.file? d.ref with
    | none => true
    | some f =>
      let want : Int := optTag ((f.locs.find? (·.path == d.ref.path)).map (·.tag))
      (o.infos.find? (·.1 == d.ref)).map (·.2) != some want
  match bad with
  | some d => some s!"{d.key}: the attached location is not the one whose path designates this declaration"
  | none =>
    let badF := (idx w.files).find? fun (fi, f) =>
      let wantS : Int := optTag ((f.locs.find? (·.path == [12])).map (·.tag))
      let wantP : Int := optTag ((f.locs.find? (·.path == [2])).map (·.tag))
      (o.files.find? (·.1 == fi)).map (·.2) != some (wantS, wantP)
    match badF with
    | some (fi, _) => if domC08 w then some s!"file {fi}: syntax / package statement location wrong" else none
    | none => none

end Pgs.AST

namespace Pgs.AST
open Lean

/-! ## C09 -/
structure PresRec where
  ref : Ref
  presence : Bool
  required : Bool
  inOneOf : Bool
  inReal : Bool
  optKw : Bool
  prPresence : Bool       -- protoreflect's answers on the same descriptors
  prRequired : Bool
  prInReal : Bool
deriving Repr, DecidableEq, FromJson, ToJson

structure OneofRec where
  ref : Ref
  synthetic : Bool
  prSynthetic : Bool
deriving Repr, DecidableEq, FromJson, ToJson

structure MsgPres where
  ref : Ref
  mapEntry : Bool
  prMapEntry : Bool
  oneofFields : List Ref
  nonOneof : List Ref
  synthFields : List Ref
  realOneofs : List Ref
  fieldsAfter : List Ref      -- Fields() read again after the listings were asked
deriving Repr, DecidableEq, FromJson, ToJson

structure C09Obs where
  failed : Bool
  syntaxes : List String           -- per file, pgs Syntax
  fields : List PresRec            -- message fields (incl. those of map entries), sorted
  oneofs : List OneofRec
  msgs : List MsgPres
deriving Repr, DecidableEq, FromJson, ToJson

/-- members of oneof `o` -/
def oneofFieldDs (h : MsgHead) (o : Nat) : List FieldD := h.fields.filter (·.oneofIndex == some o)

/-- pgs `OneOf.IsSynthetic` -/
def pgsSynthetic (f : FileD) (h : MsgHead) (o : Nat) : Bool :=
  pgsSyntax f == "proto3" &&
  (match oneofFieldDs h o with
   | [m] => !(m.oneofIndex.isSome && !m.proto3Optional)      -- !flds[0].InRealOneOf()
   | _ => false)

/-- pgs `Field.HasOptionalKeyword` -/
def pgsOptKw (f : FileD) (fd : FieldD) : Bool :=
  if pgsSyntax f == "proto3" then fd.proto3Optional else fd.label == 1

/-- pgs `Field.HasPresence` (the field's type shape decides IsEmbed / IsRepeated / IsMap) -/
def pgsPresence (f : FileD) (fd : FieldD) : Bool :=
  if fd.oneofIndex.isSome then true
  else if fd.label != 3 && fd.type == 11 then true        -- Type().IsEmbed()
  else if fd.label != 3 then (if pgsSyntax f == "" then true else pgsOptKw f fd)
  else false

def pgsRequired (f : FileD) (fd : FieldD) : Bool := pgsSyntax f == "" && fd.label == 2

/-! protobuf-go v1.23.0 (internal/filedesc) reference semantics -/
def prProto2 (f : FileD) : Bool := f.syn != "proto3"
def prOptKw (f : FileD) (fd : FieldD) : Bool :=
  (prProto2 f && fd.label == 1 && fd.oneofIndex.isNone) || fd.proto3Optional
def prPresence (f : FileD) (fd : FieldD) : Bool :=
  fd.label != 3 && (prProto2 f || fd.type == 11 || fd.type == 10 || fd.oneofIndex.isSome)
def prSynthetic (f : FileD) (h : MsgHead) (o : Nat) : Bool :=
  match oneofFieldDs h o with
  | [m] => prOptKw f m
  | _ => false

def c09Model (w : World) : C09Obs :=
  match hydrate w with
  | .error _ => ⟨true, [], [], [], []⟩
  | .ok _ =>
    let msgs := allMsgs w
    let fileOf (r : Ref) : FileD := (w.file? r).getD ⟨"", "", "", [], [], [], .nil, [], [], [], ""⟩
    let fields := (msgs.map fun (r, h) => (idx h.fields).map fun (i, fd) =>
      let f := fileOf r
      let inReal := fd.oneofIndex.isSome && !fd.proto3Optional
      let prReal := match fd.oneofIndex with | some o => !prSynthetic f h o | none => false
      (⟨⟨r.file, r.path ++ [2, i]⟩, pgsPresence f fd, pgsRequired f fd, fd.oneofIndex.isSome, inReal, pgsOptKw f fd,
        prPresence f fd, fd.label == 2, prReal⟩ : PresRec)).flatten
    let oneofs := (msgs.map fun (r, h) => (List.range h.oneofs.length).map fun o =>
      (⟨⟨r.file, r.path ++ [8, o]⟩, pgsSynthetic (fileOf r) h o, prSynthetic (fileOf r) h o⟩ : OneofRec)).flatten
    let mrecs := msgs.map fun (r, h) =>
      let f := fileOf r
      let members (o : Nat) := oneofMembers r.file r.path h.fields o
      (⟨r, h.mapEntry, h.mapEntry,
        sortRefs ((List.range h.oneofs.length).map members).flatten,       -- derived listings are compared as sets
        (idx h.fields).filterMap (fun (i, fd) => if fd.oneofIndex.isNone then some ⟨r.file, r.path ++ [2, i]⟩ else none),
        sortRefs (((List.range h.oneofs.length).filter (pgsSynthetic f h)).map members |>.flatten),
        ((List.range h.oneofs.length).filter (fun o => !pgsSynthetic f h o)).map (fun o => ⟨r.file, r.path ++ [8, o]⟩),
        childRefs r.file r.path 2 h.fields.length⟩ : MsgPres)
    ⟨false, w.files.map pgsSyntax, fields.mergeSort (fun a b => refLe a.ref b.ref),
     oneofs.mergeSort (fun a b => refLe a.ref b.ref), mrecs.mergeSort (fun a b => refLe a.ref b.ref)⟩

def judgeC09 (w : World) (o : C09Obs) : Option String :=
  if o.failed then some "building failed" else
  let msgs := allMsgs w
  let fileOf (r : Ref) : FileD := (w.file? r).getD ⟨"", "", "", [], [], [], .nil, [], [], [], ""⟩
  if o.syntaxes != w.files.map (fun f => if f.syn == "proto3" then "proto3" else "") then
    some "syntax: a proto2 file must be treated as proto2 whether its syntax is omitted or spelled out"
  else
  let badField := (msgs.map fun (r, h) => (idx h.fields).map fun (i, fd) => (r, h, i, fd)).flatten.find? fun (r, h, i, fd) =>
    match o.fields.find? (·.ref == ⟨r.file, r.path ++ [2, i]⟩) with
    | none => true
    | some p =>
      let f := fileOf r
      let proto2 := f.syn != "proto3"
      let want := fd.oneofIndex.isSome || (fd.label != 3 && fd.type == 11) || (fd.label != 3 && proto2) || fd.proto3Optional
      let synthetic := match fd.oneofIndex with
        | some ox => !proto2 && (oneofFieldDs h ox).length == 1 && fd.proto3Optional
        | none => false
      p.presence != want || p.prPresence != want
        || p.required != (proto2 && fd.label == 2) || p.prRequired != p.required
        || p.inOneOf != fd.oneofIndex.isSome
        || p.inReal != (fd.oneofIndex.isSome && !synthetic) || p.prInReal != p.inReal
  match badField with
  | some (r, _, i, fd) => some s!"field {fd.name} {repr (r.path ++ [2, i])}: presence / required / real-oneof membership disagrees with protobuf's semantics"
  | none =>
    let badOneof := (msgs.map fun (r, h) => (List.range h.oneofs.length).map fun ox => (r, h, ox)).flatten.find? fun (r, h, ox) =>
      match o.oneofs.find? (·.ref == ⟨r.file, r.path ++ [8, ox]⟩) with
      | none => true
      | some p =>
        let want := match oneofFieldDs h ox with | [m] => m.proto3Optional | _ => false
        p.synthetic != want || p.prSynthetic != want
    match badOneof with
    | some (r, _, ox) => some s!"oneof {repr (r.path ++ [8, ox])}: synthetic iff it only carries one proto3-optional field"
    | none =>
      let badMsg := msgs.find? fun (r, h) =>
        match o.msgs.find? (·.ref == r) with
        | none => true
        | some p =>
          let allF := childRefs r.file r.path 2 h.fields.length
          let synth (ox : Nat) : Bool := match oneofFieldDs h ox with | [m] => m.proto3Optional | _ => false
          p.mapEntry != h.mapEntry || p.prMapEntry != h.mapEntry || p.fieldsAfter != allF
          || sortRefs (p.oneofFields ++ p.nonOneof) != sortRefs allF
          || p.nonOneof != (idx h.fields).filterMap (fun (i, fd) => if fd.oneofIndex.isNone then some ⟨r.file, r.path ++ [2, i]⟩ else none)
          || sortRefs p.synthFields != sortRefs (((List.range h.oneofs.length).filter synth).map (oneofMembers r.file r.path h.fields) |>.flatten)
          || p.realOneofs != ((List.range h.oneofs.length).filter (fun ox => !synth ox)).map fun ox => ⟨r.file, r.path ++ [8, ox]⟩
      match badMsg with
      | some (r, _) => some s!"message {repr r.path}: map-entry flag or the oneof / non-oneof / synthetic / real-oneof listings do not partition its fields"
      | none => none

/-- the side conditions of the C09 theorems (what descriptor validation guarantees), as a checker -/
def fieldOKb (f : FileD) (fd : FieldD) : Bool :=
  (f.syn == "" || f.syn == "proto2" || f.syn == "proto3") &&
  (!fd.oneofIndex.isSome || fd.label == 1) &&
  (!fd.proto3Optional || (fd.oneofIndex.isSome && f.syn == "proto3")) &&
  fd.type != 10 &&
  (fd.label != 2 || f.syn != "proto3")

def domC09 (w : World) : Bool :=
  (allMsgs w).all fun (r, h) => match w.file? r with
    | some f => h.fields.all (fieldOKb f)
    | none => false

end Pgs.AST
