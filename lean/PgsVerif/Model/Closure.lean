import PgsVerif.Model.AstSem2
/-
  C05 — bidirectional dependency sets (ast.go `assignDependent`, message.go, enum.go).
  Direct edges are recorded when the AST is built bidirectionally; `Dependents()` /
  `Dependencies()` compute the closure by a depth-first traversal with a visited set and memoise
  the complete result per message / enum.  The caches are the model's only mutable state.
-/
namespace Pgs.AST
open Lean

/-- the traversal of `getDependents` / `getDependencies`: for each direct neighbour, if unseen,
    mark it and recurse (fuel bounds the recursion depth; `number of messages + 1` suffices) -/
def dfs {α} [DecidableEq α] (adj : α → List α) : Nat → α → List α → List α
  | 0, _, seen => seen
  | f+1, m, seen => (adj m).foldl (fun seen d => if d ∈ seen then seen else dfs adj f d (d :: seen)) seen

/-- message targets of one field type: singular, repeated and map-value message types -/
def embedTarget : FType → Option Ref
  | .embed m => some m
  | .repeated (.embed _ m) => some m
  | .map _ (.embed _ m) => some m
  | _ => none

def enumTarget : FType → Option Ref
  | .enum e => some e
  | .repeated (.enum _ e) => some e
  | .map _ (.enum _ e) => some e
  | _ => none

/-- ordinary messages (those `AllMessages` lists) with their heads -/
def ordinaryMsgs (w : World) : List (Ref × MsgHead) :=
  (allMsgs w).filter fun (r, _) =>
    match w.files[r.file]? with
    | some f => (allMsgRefs r.file [] 4 0 f.msgs).contains r
    | none => false

/-- direct edges `m uses x`, as `assignDependent` records them -/
def usesList (w : World) (g : Graph) : List (Ref × Ref) :=
  ((ordinaryMsgs w).map fun (r, h) =>
    (msgFieldRefs r h).filterMap fun fr => (g.ftype? fr).bind embedTarget |>.map fun x => (r, x)).flatten

def enumUses (w : World) (g : Graph) : List (Ref × Ref) :=
  ((ordinaryMsgs w).map fun (r, h) =>
    (msgFieldRefs r h).filterMap fun fr => (g.ftype? fr).bind enumTarget |>.map fun e => (r, e)).flatten

def succs (edges : List (Ref × Ref)) (m : Ref) : List Ref := (edges.filter (·.1 == m)).map (·.2)
def preds (edges : List (Ref × Ref)) (m : Ref) : List Ref := (edges.filter (·.2 == m)).map (·.1)

inductive QKind where
  | dependencies | dependents | enumDependents
deriving Repr, DecidableEq

structure Caches where
  deps : List (Ref × List Ref)
  dpts : List (Ref × List Ref)
  edpts : List (Ref × List Ref)
deriving Repr

def Caches.empty : Caches := ⟨[], [], []⟩

/-- one accessor call: fill the cache if empty, answer from it (message queries drop the message
    itself: `messageSetToSlice`) -/
def query (edges eedges : List (Ref × Ref)) (n : Nat) (c : Caches) (r : Ref) : QKind → Caches × List Ref
  | .dependencies =>
    match c.deps.find? (·.1 == r) with
    | some (_, s) => (c, s.filter (· != r))
    | none => let s := dfs (succs edges) (n+1) r []
              ({ c with deps := (r, s) :: c.deps }, s.filter (· != r))
  | .dependents =>
    match c.dpts.find? (·.1 == r) with
    | some (_, s) => (c, s.filter (· != r))
    | none => let s := dfs (preds edges) (n+1) r []
              ({ c with dpts := (r, s) :: c.dpts }, s.filter (· != r))
  | .enumDependents =>
    match c.edpts.find? (·.1 == r) with
    | some (_, s) => (c, s)
    | none =>
      -- the users of the enum, each followed by its dependents
      let s := (preds eedges r).foldl (fun seen d => if d ∈ seen then seen else dfs (preds edges) (n+1) d (d :: seen)) []
      ({ c with edpts := (r, s) :: c.edpts }, s)

def runQueries (edges eedges : List (Ref × Ref)) (n : Nat) : Caches → List (Ref × QKind) → List (List Ref)
  | _, [] => []
  | c, (r, k) :: qs => let (c', a) := query edges eedges n c r k; sortRefs a :: runQueries edges eedges n c' qs

structure C05Obs where
  failed : Bool
  answers : List (List Ref)      -- per query, sorted
  dup : Bool                     -- some answer listed a message twice
deriving Repr, DecidableEq, FromJson, ToJson

def c05Model (w : World) (qs : List (Ref × QKind)) : C05Obs :=
  match hydrate w with
  | .error _ => ⟨true, [], false⟩
  | .ok g => ⟨false, runQueries (usesList w g) (enumUses w g) (allMsgs w).length Caches.empty qs, false⟩

/-! declarative side: reachability by saturation -/
def saturate (edges : List (Ref × Ref)) (fwd : Bool) : Nat → List Ref → List Ref
  | 0, acc => acc
  | f+1, acc =>
    let acc := acc.eraseDups
    let next := (acc ++ (acc.map fun m => if fwd then succs edges m else preds edges m).flatten).eraseDups
    if next.length = acc.length then acc else saturate edges fwd f next

/-- direct edges read off the descriptors: a field of `m` (singular, repeated or map value) has
    message type `x` -/
def specUses (w : World) : List (Ref × Ref) :=
  ((ordinaryMsgs w).map fun (r, h) => h.fields.filterMap fun fd =>
    let t : Option FieldD :=
      if fd.label = 3 && fd.type = 11 && isMapEntryFqn w fd.typeName then
        (match w.msgAt (declaredAs w fd.typeName .msg) with
         | some (eh, _) => (match eh.fields with | _ :: v :: _ => some v | _ => none)
         | none => none)
      else some fd
    match t with
    | some t => if t.type = 11 then (let x := declaredAs w t.typeName .msg; if x == noRef then none else some (r, x)) else none
    | none => none).flatten

def specEnumUses (w : World) : List (Ref × Ref) :=
  ((ordinaryMsgs w).map fun (r, h) => h.fields.filterMap fun fd =>
    let t : Option FieldD :=
      if fd.label = 3 && fd.type = 11 && isMapEntryFqn w fd.typeName then
        (match w.msgAt (declaredAs w fd.typeName .msg) with
         | some (eh, _) => (match eh.fields with | _ :: v :: _ => some v | _ => none)
         | none => none)
      else some fd
    match t with
    | some t => if t.type = 14 then (let x := declaredAs w t.typeName .enum; if x == noRef then none else some (r, x)) else none
    | none => none).flatten

def judgeC05 (w : World) (qs : List (Ref × QKind)) (o : C05Obs) : Option String :=
  if o.failed then some "building failed" else
  if o.dup then some "an answer lists a message twice" else
  if o.answers.length != qs.length then some "harness: wrong number of answers" else
  let edges := specUses w
  let ee := specEnumUses w
  let n := (allMsgs w).length + 1
  let bad := (qs.zip o.answers).find? fun ((r, k), a) =>
    let want := match k with
      | .dependencies => (saturate edges true n (succs edges r)).filter (· != r)
      | .dependents => (saturate edges false n (preds edges r)).filter (· != r)
      | .enumDependents => saturate edges false n (preds ee r)
    a != sortRefs want
  match bad with
  | some ((r, k), _) =>
    some s!"{repr k} of {repr r.path}: not exactly the transitive closure (independent of which entity was asked first)"
  | none => none

end Pgs.AST
