import PgsVerif.Model.AstSem2
/-
  C05 — bidirectional dependency sets (ast.go `assignDependent`, message.go, enum.go).
  Direct edges are recorded when the AST is built bidirectionally; `Dependents()` /
  `Dependencies()` compute the closure by a depth-first traversal with a visited set and memoise
  the complete result per message / enum.  The caches are the model's only mutable state.
-/
namespace Pgs.AST
open Lean

/-- the traversal of `getDependents` / `getDependencies`: for each direct neighbour, if unseen,
    mark it and recurse (fuel bounds the recursion depth; `number of messages + 1` suffices) -/
def dfs {α} [DecidableEq α] (adj : α → List α) : Nat → α → List α → List α
  | 0, _, seen => seen
  | f+1, m, seen => (adj m).foldl (fun seen d => if d ∈ seen then seen else dfs adj f d (d :: seen)) seen

/-- message targets of one field type: singular, repeated and map-value message types -/
def embedTarget : FType → Option Ref
  | .embed m => some m
  | .repeated (.embed _ m) => some m
  | .map _ (.embed _ m) => some m
  | _ => none

def enumTarget : FType → Option Ref
  | .enum e => some e
  | .repeated (.enum _ e) => some e
  | .map _ (.enum _ e) => some e
  | _ => none

/-- ordinary messages (those `AllMessages` lists) with their heads -/
def ordinaryMsgs (w : World) : List (Ref × MsgHead) :=
  (allMsgs w).filter fun (r, _) =>
    match w.files[r.file]? with
    | some f => (allMsgRefs r.file [] 4 0 f.msgs).contains r
    | none => false

/-- direct edges `m uses x`, as `assignDependent` records them -/
def usesList (w : World) (g : Graph) : List (Ref × Ref) :=
  ((ordinaryMsgs w).map fun (r, h) =>
    (msgFieldRefs r h).filterMap fun fr => (g.ftype? fr).bind embedTarget |>.map fun x => (r, x)).flatten

def enumUses (w : World) (g : Graph) : List (Ref × Ref) :=
  ((ordinaryMsgs w).map fun (r, h) =>
    (msgFieldRefs r h).filterMap fun fr => (g.ftype? fr).bind enumTarget |>.map fun e => (r, e)).flatten

def succs (edges : List (Ref × Ref)) (m : Ref) : List Ref := (edges.filter (·.1 == m)).map (·.2)
def preds (edges : List (Ref × Ref)) (m : Ref) : List Ref := (edges.filter (·.2 == m)).map (·.1)

inductive QKind where
  | dependencies | dependents | enumDependents
deriving Repr, DecidableEq

structure Caches where
  deps : List (Ref × List Ref)
  dpts : List (Ref × List Ref)
  edpts : List (Ref × List Ref)
deriving Repr

def Caches.empty : Caches := ⟨[], [], []⟩

/-- adjacency for an enum's dependents: from the enum to its users, then from message to the
    messages using it -/
def enumAdj (edges eedges : List (Ref × Ref)) (e : Ref) (x : Ref) : List Ref :=
  if x = e then preds eedges e else preds edges x

/-- recursion fuel: one more than the number of edges bounds every visited set -/
def fuelFor (edges eedges : List (Ref × Ref)) : Nat := edges.length + eedges.length + 2

/-- the closure an accessor computes when its cache is empty -/
def closure (edges eedges : List (Ref × Ref)) (r : Ref) : QKind → List Ref
  | .dependencies => dfs (succs edges) (fuelFor edges eedges) r []
  | .dependents => dfs (preds edges) (fuelFor edges eedges) r []
  | .enumDependents => dfs (enumAdj edges eedges r) (fuelFor edges eedges) r []

/-- what the accessor returns from the (complete) set: message queries drop the message itself
    (`messageSetToSlice`) -/
def present (r : Ref) (k : QKind) (s : List Ref) : List Ref :=
  match k with
  | .enumDependents => s
  | _ => s.filter (· != r)

def Caches.get (c : Caches) (r : Ref) : QKind → Option (List Ref)
  | .dependencies => (c.deps.find? (·.1 == r)).map (·.2)
  | .dependents => (c.dpts.find? (·.1 == r)).map (·.2)
  | .enumDependents => (c.edpts.find? (·.1 == r)).map (·.2)

def Caches.put (c : Caches) (r : Ref) (k : QKind) (s : List Ref) : Caches :=
  match k with
  | .dependencies => { c with deps := (r, s) :: c.deps }
  | .dependents => { c with dpts := (r, s) :: c.dpts }
  | .enumDependents => { c with edpts := (r, s) :: c.edpts }

/-- one accessor call: fill the cache if empty, answer from it -/
def query (edges eedges : List (Ref × Ref)) (c : Caches) (r : Ref) (k : QKind) : Caches × List Ref :=
  match c.get r k with
  | some s => (c, present r k s)
  | none => let s := closure edges eedges r k; (c.put r k s, present r k s)

def runQueries (edges eedges : List (Ref × Ref)) : Caches → List (Ref × QKind) → List (List Ref)
  | _, [] => []
  | c, (r, k) :: qs => let (c', a) := query edges eedges c r k; sortRefs a :: runQueries edges eedges c' qs

structure C05Obs where
  failed : Bool
  answers : List (List Ref)      -- per query, sorted
  dup : Bool                     -- some answer listed a message twice
deriving Repr, DecidableEq, FromJson, ToJson

def c05Model (w : World) (qs : List (Ref × QKind)) : C05Obs :=
  match hydrate w with
  | .error _ => ⟨true, [], false⟩
  | .ok g => ⟨false, runQueries (usesList w g) (enumUses w g) Caches.empty qs, false⟩

/-! declarative side: reachability by saturation -/
def saturate (edges : List (Ref × Ref)) (fwd : Bool) : Nat → List Ref → List Ref
  | 0, acc => acc
  | f+1, acc =>
    let acc := acc.eraseDups
    let next := (acc ++ (acc.map fun m => if fwd then succs edges m else preds edges m).flatten).eraseDups
    if next.length = acc.length then acc else saturate edges fwd f next

/-- direct edges read off the descriptors: a field of `m` (singular, repeated or map value) has
    message type `x` -/
def specUses (w : World) : List (Ref × Ref) :=
  ((ordinaryMsgs w).map fun (r, h) => h.fields.filterMap fun fd =>
    let t : Option FieldD :=
      if fd.label = 3 && fd.type = 11 && isMapEntryFqn w fd.typeName then
        (match w.msgAt (declaredAs w fd.typeName .msg) with
         | some (eh, _) => (match eh.fields with | _ :: v :: _ => some v | _ => none)
         | none => none)
      else some fd
    match t with
    | some t => if t.type = 11 then (let x := declaredAs w t.typeName .msg; if x == noRef then none else some (r, x)) else none
    | none => none).flatten

def specEnumUses (w : World) : List (Ref × Ref) :=
  ((ordinaryMsgs w).map fun (r, h) => h.fields.filterMap fun fd =>
    let t : Option FieldD :=
      if fd.label = 3 && fd.type = 11 && isMapEntryFqn w fd.typeName then
        (match w.msgAt (declaredAs w fd.typeName .msg) with
         | some (eh, _) => (match eh.fields with | _ :: v :: _ => some v | _ => none)
         | none => none)
      else some fd
    match t with
    | some t => if t.type = 14 then (let x := declaredAs w t.typeName .enum; if x == noRef then none else some (r, x)) else none
    | none => none).flatten

def judgeC05 (w : World) (qs : List (Ref × QKind)) (o : C05Obs) : Option String :=
  if o.failed then some "building failed" else
  if o.dup then some "an answer lists a message twice" else
  if o.answers.length != qs.length then some "harness: wrong number of answers" else
  let edges := specUses w
  let ee := specEnumUses w
  let n := (allMsgs w).length + 1
  let bad := (qs.zip o.answers).find? fun ((r, k), a) =>
    let want := match k with
      | .dependencies => (saturate edges true n (succs edges r)).filter (· != r)
      | .dependents => (saturate edges false n (preds edges r)).filter (· != r)
      | .enumDependents => saturate edges false n (preds ee r)
    a != sortRefs want
  match bad with
  | some ((r, k), _) =>
    some s!"{repr k} of {repr r.path}: not exactly the transitive closure (independent of which entity was asked first)"
  | none => none

end Pgs.AST
