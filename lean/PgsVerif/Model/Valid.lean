import PgsVerif.Model.Hydrate
/-!
# Decidable form of the validity hypothesis of C01/C02

`validB w` is evaluated by the driver on every generated request (reported as `dom`); Props/C01
proves `validB w = true → Valid w`, so each request the correspondence check runs with `dom = true`
is one the theorems C01/C02 speak about.
-/
namespace Pgs.AST

def resolvesB (ds : List Decl) (k : String) (kind : Kind) : Bool :=
  ds.any fun d => d.key == k && d.kind == kind

def entryResB (ds : List Decl) (e : FieldD) : Bool :=
  e.type != 10 && e.label != 3 &&
  (e.type != 14 || resolvesB ds e.typeName .enum) &&
  (e.type != 11 || resolvesB ds e.typeName .msg)

def mapOKB (w : World) (ds : List Decl) (d : Decl) : Bool :=
  match w.msgAt d.ref with
  | none => false
  | some (h, _) =>
    !h.mapEntry ||
    (match h.fields with
     | k :: v :: _ => entryResB ds k && entryResB ds v
     | _ => false)

def fieldResB (w : World) (ds : List Decl) (fd : FieldD) : Bool :=
  fd.type != 10 &&
  (fd.type != 14 || resolvesB ds fd.typeName .enum) &&
  (fd.type != 11 || ds.any fun d => d.key == fd.typeName && d.kind == .msg && (fd.label != 3 || mapOKB w ds d))

def allFieldsB (p : FieldD → Bool) : Msgs → Bool
  | .nil => true
  | .cons h nested rest => h.fields.all p && allFieldsB p nested && allFieldsB p rest

def fileOKB (w : World) (pre : List FileD) (f : FileD) : Bool :=
  f.deps.all (fun d => resolvesB (declFrom 0 pre) d .file) &&
  f.services.all (fun sv => sv.methods.all fun m =>
    resolvesB (declFrom 0 pre ++ declFileHead pre.length f) m.input .msg &&
    resolvesB (declFrom 0 pre ++ declFileHead pre.length f) m.output .msg) &&
  allFieldsB (fieldResB w (declFrom 0 (pre ++ [f]))) f.msgs

def filesOKB (w : World) : List FileD → List FileD → Bool
  | _, [] => true
  | pre, f :: post => fileOKB w pre f && filesOKB w (pre ++ [f]) post

def nodupB : List String → Bool
  | [] => true
  | k :: ks => !ks.contains k && nodupB ks

def validB (w : World) : Bool :=
  nodupB ((declared w).map (·.key)) &&
  filesOKB w [] w.files &&
  (allExts 0 w.files).all fun x => fieldResB w (declared w) x.2 && resolvesB (declared w) x.2.extendee .msg

end Pgs.AST
