import PgsVerif.Model.CleanName
/-
  C10 / C12 (and the artifact part of C11, C13, C14) — the persister (persister.go, artifact.go,
  post_process.go).

  * the response is the flat `List RF` of `CodeGeneratorResponse.File` chunks, manipulated with
    the index arithmetic of `indexOfFile` / `tailOfFile` / `insertFile` / `insertAppend`;
  * template artifacts carry what their template renders (text or failure);
  * post-processors are (kinds matched, transformation);
  * the file system is a finite map from normalised paths to (content, mode) plus directories
    (afero's MemMapFs/OsFs contract as far as `writeFile` uses it);
  * every `CheckErr`/`Assert`/`Failf` is fail-stop: `Except Cause`.
-/
namespace Pgs.Persist
open Pgs Pgs.FilePath

structure RF where
  name : Option Bytes
  ip : Option Bytes
  content : Bytes
deriving DecidableEq, Repr

/-- what the artifact's content is: plain text, or what its template renders / that it fails -/
structure Body where
  text : Bytes
  fails : Bool
deriving DecidableEq, Repr

inductive Art where
  | file (name : Bytes) (body : Body) (ow tpl : Bool)
  | app (name : Bytes) (body : Body) (tpl : Bool)
  | inj (name ip : Bytes) (body : Body) (tpl : Bool)
  | custom (name : Bytes) (body : Body) (perms : Nat) (ow tpl : Bool)
  | err (msg : Bytes)
  | unknown
deriving DecidableEq, Repr

/-- artifact kind as post-processors see it:
    0 GeneratorFile, 1 GeneratorTemplateFile, 2 GeneratorAppend, 3 GeneratorTemplateAppend,
    4 GeneratorInjection, 5 GeneratorTemplateInjection, 6 CustomFile, 7 CustomTemplateFile,
    8 GeneratorError, 9 anything else -/
def Art.kind : Art → Nat
  | .file _ _ _ tpl => if tpl then 1 else 0
  | .app _ _ tpl => if tpl then 3 else 2
  | .inj _ _ _ tpl => if tpl then 5 else 4
  | .custom _ _ _ _ tpl => if tpl then 7 else 6
  | .err _ => 8
  | .unknown => 9

structure Proc where
  kinds : List Nat     -- Match(a) = a.kind ∈ kinds
  suffix : Bytes       -- Process(in) = in ++ suffix …
  fails : Bool         -- … or an error
  replace : Bool       -- … or (a filter, a formatter) suffix alone, whatever came in - possibly nothing at all
deriving DecidableEq, Repr

/-- what a processor that does not fail hands on -/
def Proc.apply (p : Proc) (b : Bytes) : Bytes := if p.replace then p.suffix else b ++ p.suffix

inductive Cause where
  | badName        -- "unable to convert … to proto" (illegal name)
  | render         -- template error
  | postProcess    -- "failed post-processing"
  | appendMissing  -- "append target … missing"
  | unknownArtifact
  | fs             -- a file-system operation failed
deriving DecidableEq, Repr

/-- `postProcess`: matching processors in registration order -/
def postProcess : List Proc → Nat → Bytes → Except Cause Bytes
  | [], _, b => .ok b
  | p :: ps, kind, b =>
    if p.kinds.contains kind then
      if p.fails then .error .postProcess else postProcess ps kind (p.apply b)
    else postProcess ps kind b

def isFileNamed (n : Bytes) (f : RF) : Bool := f.name == some n && f.ip == none

/-- `indexOfFile` -/
def indexOfFile (fs : List RF) (n : Bytes) : Option Nat :=
  let i := fs.findIdx (isFileNamed n)
  if i < fs.length then some i else none

/-- `GetName() != ""`: chunk carries a name -/
def named (f : RF) : Bool := match f.name with | some n => n != [] | none => false

/-- `tailOfFile` -/
def tailOfFile (fs : List RF) (n : Bytes) : Option Nat :=
  match indexOfFile fs n with
  | none => none
  | some i => some (i + ((fs.drop (i+1)).takeWhile (fun f => !named f)).length)

/-- `insertFile` -/
def insertFile (fs : List RF) (f : RF) (ow : Bool) : List RF :=
  if ow then
    match indexOfFile fs (f.name.getD []) with
    | some i => fs.set i f
    | none => fs ++ [f]
  else fs ++ [f]

/-- `insertAppend` -/
def insertAppend (fs : List RF) (n : Bytes) (f : RF) : Except Cause (List RF) :=
  match tailOfFile fs n with
  | none => .error .appendMissing
  | some i => .ok (fs.take (i+1) ++ f :: fs.drop (i+1))

/-! ### file system -/
structure FileEnt where
  path : Bytes
  content : Bytes
  mode : Nat
deriving DecidableEq, Repr

structure FS where
  files : List FileEnt
  dirs : List Bytes
deriving Repr

/-- afero `normalizePath` -/
def norm (p : Bytes) : Bytes :=
  let c := clean p
  if c = dotSeg ∨ c = dotdot then [slash] else c

def FS.file? (fs : FS) (p : Bytes) : Option FileEnt := fs.files.find? (·.path == norm p)
def FS.isDir (fs : FS) (p : Bytes) : Bool := fs.dirs.contains (norm p)
def FS.exists (fs : FS) (p : Bytes) : Bool := (fs.file? p).isSome || fs.isDir p

/-- all ancestors of a normalised path, nearest first (fuel bounds the depth) -/
def ancestors : Nat → Bytes → List Bytes
  | 0, _ => []
  | f+1, p =>
    let d := norm (dir p)
    if d = p then [] else d :: ancestors f d

def FS.mkdirAll (fs : FS) (d : Bytes) : FS :=
  let n := norm d
  let ds := (n :: ancestors (n.length + 1) n).filter (fun x => !fs.dirs.contains x)
  { fs with dirs := fs.dirs ++ ds.eraseDups }

/-- create-or-truncate; permissions only on create -/
def FS.write (fs : FS) (p content : Bytes) (perms : Nat) : FS :=
  let n := norm p
  if (fs.files.find? (·.path == n)).isSome then
    { fs with files := fs.files.map (fun e => if e.path == n then { e with content := content } else e) }
  else { fs with files := fs.files ++ [⟨n, content, perms⟩] }

/-- `writeFile` of the persister (no I/O faults: those belong to C14) -/
def writeFile (fs : FS) (name content : Bytes) (ow : Bool) (perms : Nat) : FS :=
  let fs := fs.mkdirAll (dir name)
  if fs.exists name then (if ow then fs.write name content perms else fs)
  else fs.write name content perms

/-! ### Persist -/
structure Resp where
  files : List RF
  error : Option Bytes
deriving Repr

structure State where
  resp : Resp
  fs : FS
deriving Repr

def cleanOK (n : Bytes) : Except Cause Bytes :=
  match C11.cleanName n with
  | .rejected => .error .badName
  | .accepted c => .ok c

def render (b : Body) (tpl : Bool) : Except Cause Bytes := if tpl && b.fails then .error .render else .ok b.text

/-- one iteration of the `for _, a := range arts` loop -/
def step (procs : List Proc) (st : State) (a : Art) : Except Cause State :=
  match a with
  | .file name body ow tpl => do
    let n ← cleanOK name
    let text ← render body tpl
    let c ← postProcess procs a.kind text
    pure { st with resp := { st.resp with files := insertFile st.resp.files ⟨some n, none, c⟩ ow } }
  | .app name body tpl => do
    let n ← cleanOK name
    let text ← render body tpl
    let c ← postProcess procs a.kind text
    let fs ← insertAppend st.resp.files n ⟨none, none, c⟩
    pure { st with resp := { st.resp with files := fs } }
  | .inj name ip body tpl => do
    let n ← cleanOK name
    let text ← render body tpl
    let c ← postProcess procs a.kind text
    pure { st with resp := { st.resp with files := insertFile st.resp.files ⟨some n, some ip, c⟩ false } }
  | .custom name body perms ow tpl => do
    let text ← render body tpl
    let c ← postProcess procs a.kind text
    pure { st with fs := writeFile st.fs name c ow perms }
  | .err msg =>
    pure { st with resp := { st.resp with error := match st.resp.error with
                                                   | none => some msg
                                                   | some e => some (e ++ [59, 32] ++ msg) } }
  | .unknown => .error .unknownArtifact

def persistFrom (procs : List Proc) : State → List Art → Except Cause State
  | st, [] => .ok st
  | st, a :: as => match step procs st a with
    | .error c => .error c
    | .ok st' => persistFrom procs st' as

def persist (procs : List Proc) (fs0 : FS) (arts : List Art) : Except Cause State :=
  persistFrom procs ⟨⟨[], none⟩, fs0⟩ arts

/-! ### what the response means to protoc, and what the artifacts said -/

/-- a generated file with its appended chunks, or an injection -/
inductive Entry where
  | file (name content : Bytes) (apps : List Bytes)
  | inj (name ip content : Bytes)
deriving DecidableEq, Repr

/-- what an entry means to protoc: a generated file is its content followed by its appends -/
def Entry.flat : Entry → Entry
  | .file n c apps => .file n (c ++ apps.flatten) []
  | e => e

/-- protoc's reading: a nameless chunk continues the preceding entry (`acc` newest first) -/
def interp : List RF → List Entry → Option (List Entry)
  | [], acc => some acc.reverse
  | f :: fs, acc =>
    if named f then
      match f.ip with
      | none => interp fs (.file (f.name.getD []) f.content [] :: acc)
      | some ip => interp fs (.inj (f.name.getD []) ip f.content :: acc)
    else
      match acc with
      | .file n c apps :: acc' => interp fs (.file n c (apps ++ [f.content]) :: acc')
      | _ => none        -- a continuation of nothing, or an injection absorbing an append

def isFileEntry (n : Bytes) : Entry → Bool
  | .file m _ _ => m == n
  | .inj .. => false

def setContent (c : Bytes) : Entry → Entry
  | .file n _ apps => .file n c apps
  | e => e
def addApp (c : Bytes) : Entry → Entry
  | .file n c0 apps => .file n c0 (apps ++ [c])
  | e => e

structure Meaning where
  entries : List Entry
  error : Option Bytes
deriving DecidableEq, Repr

/-- the abstract semantics of one artifact on the list of entries -/
def meanStep (procs : List Proc) (m : Meaning) (a : Art) : Except Cause Meaning :=
  match a with
  | .file name body ow tpl => do
    let n ← cleanOK name
    let text ← render body tpl
    let c ← postProcess procs a.kind text
    let i := m.entries.findIdx (isFileEntry n)
    if ow && i < m.entries.length then pure { m with entries := m.entries.modify i (setContent c) }
    else pure { m with entries := m.entries ++ [.file n c []] }
  | .app name body tpl => do
    let n ← cleanOK name
    let text ← render body tpl
    let c ← postProcess procs a.kind text
    let i := m.entries.findIdx (isFileEntry n)
    if i < m.entries.length then pure { m with entries := m.entries.modify i (addApp c) }
    else .error .appendMissing
  | .inj name ip body tpl => do
    let n ← cleanOK name
    let text ← render body tpl
    let c ← postProcess procs a.kind text
    pure { m with entries := m.entries ++ [.inj n ip c] }
  | .custom _ body _ _ tpl => do
    let text ← render body tpl
    let _ ← postProcess procs a.kind text
    pure m
  | .err msg => pure { m with error := match m.error with | none => some msg | some e => some (e ++ [59, 32] ++ msg) }
  | .unknown => .error .unknownArtifact

def meaningFrom (procs : List Proc) : Meaning → List Art → Except Cause Meaning
  | m, [] => .ok m
  | m, a :: as => match meanStep procs m a with
    | .error c => .error c
    | .ok m' => meaningFrom procs m' as

def meaning (procs : List Proc) (arts : List Art) : Except Cause Meaning := meaningFrom procs ⟨[], none⟩ arts

/-! ### custom files, declaratively -/

/-- what a path holds at the end: decided by the artifacts addressing it, in order -/
def specFile (procs : List Proc) : Option FileEnt → Bytes → List Art → Option FileEnt
  | cur, _, [] => cur
  | cur, p, a :: as =>
    match a with
    | .custom name body perms ow tpl =>
      if norm name = p then
        match render body tpl, cur with
        | .ok text, none => match postProcess procs a.kind text with
          | .ok c => specFile procs (some ⟨p, c, perms⟩) p as
          | .error _ => cur
        | .ok text, some e =>
          if ow then match postProcess procs a.kind text with
            | .ok c => specFile procs (some { e with content := c }) p as
            | .error _ => cur
          else specFile procs cur p as
        | .error _, _ => cur
      else specFile procs cur p as
    | _ => specFile procs cur p as

end Pgs.Persist

namespace Pgs.Persist
open Pgs Pgs.FilePath

/-! ### observation, model, Φ -/
structure Probe where
  kind : Nat        -- 0 nothing, 1 file, 2 directory
  content : Bytes
  mode : Nat
deriving DecidableEq, Repr

structure Obs where
  died : Bool
  cause : String
  files : List RF
  error : Option Bytes
  features : Option Nat
  probes : List Probe
deriving DecidableEq, Repr

structure In where
  arts : List Art
  procs : List Proc
  features : Option Nat
  fs0 : List FileEnt
  dirs0 : List Bytes
  probes : List Bytes

def Cause.tag : Cause → String
  | .badName => "badName" | .render => "render" | .postProcess => "postProcess"
  | .appendMissing => "appendMissing" | .unknownArtifact => "unknownArtifact" | .fs => "fs"

def In.fs (i : In) : FS := ⟨i.fs0.map (fun e => { e with path := norm e.path }), i.dirs0.map norm⟩

def probe (fs : FS) (p : Bytes) : Probe :=
  match fs.file? p with
  | some e => ⟨1, e.content, e.mode⟩
  | none => if fs.isDir p then ⟨2, [], 0⟩ else ⟨0, [], 0⟩

def model (i : In) : Obs :=
  match persist i.procs i.fs i.arts with
  | .error c => ⟨true, c.tag, [], none, none, []⟩
  | .ok st => ⟨false, "", st.resp.files, st.resp.error, i.features, i.probes.map (probe st.fs)⟩

/-- Φ_C10 -/
def judgeC10 (i : In) (o : Obs) : Option String :=
  match meaning i.procs i.arts with
  | .error c =>
    if !o.died then some "failure: an artifact sequence that must fail produced a response"
    else if o.cause != c.tag then some "failure: wrong cause reported"
    else none
  | .ok m =>
    if o.died then some "failure: a legal artifact sequence made the persister fail"
    else match interp o.files [] with
      | none => some "response: a nameless chunk continues nothing or an injection (an injection absorbed an append)"
      | some es =>
        if es.map Entry.flat != m.entries.map Entry.flat then some "response: read under protoc's rules it does not mean what the artifacts said"
        else if o.error != m.error then some "response: error artifacts not joined in order with '; '"
        else if o.features != i.features then some "response: supported-features value did not pass through"
        else none

/-- what C10 / C11 speak about: failure and its cause, or the response as protoc reads it -/
def projC10 (o : Obs) : Bool × String × Option (List Entry) × Option Bytes × Option Nat :=
  (o.died, o.cause, (interp o.files []).map (·.map Entry.flat), o.error, o.features)

/-- C12 adds the final state of the probed paths -/
def projC12 (o : Obs) : (Bool × String × Option (List Entry) × Option Bytes × Option Nat) × List Probe :=
  (projC10 o, o.probes)

def pathsOf (i : In) : List Bytes :=
  i.fs0.map (fun e => norm e.path) ++ i.arts.filterMap (fun a => match a with | .custom n .. => some (norm n) | _ => none)

def isAncestor (a b : Bytes) : Bool := a != b && (ancestors (b.length + 1) b).contains a

/-- stated domain of C12: no path of the run is a proper directory prefix of another, no file
    path is a pre-existing directory, pre-existing parents exist -/
def domC12 (i : In) : Bool :=
  let ps := pathsOf i
  ps.all (fun a => ps.all (fun b => !isAncestor a b)) &&
  ps.all (fun a => !(i.dirs0.map norm).contains a) &&
  i.fs0.all (fun e => (i.dirs0.map norm).contains (norm (dir (norm e.path))))

/-- Φ_C12 -/
def judgeC12 (i : In) (o : Obs) : Option String :=
  match meaning i.procs i.arts with
  | .error _ => if o.died then none else some "failure: a run that must fail left a response"
  | .ok m =>
    if o.died then some "failure: a legal run failed"
    else if (interp o.files []).map (·.map Entry.flat) != some (m.entries.map Entry.flat) then some "response: custom artifacts must not change the response"
    else if o.probes.length != i.probes.length then some "harness: wrong number of probes"
    else
      let bad := (i.probes.zip o.probes).find? fun (p, pr) =>
        let init := i.fs.file? p
        match specFile i.procs init (norm p) i.arts with
        | some e => !(pr.kind == 1 && pr.content == e.content && pr.mode == e.mode)
        | none => pr.kind == 1
      match bad with
      | some _ => some "file system: a path does not hold what the custom artifacts (first writer wins unless overwrite) say"
      | none =>
        -- parents of every file that exists at the end are directories
        let missing := (i.probes.zip o.probes).find? fun (p, pr) =>
          pr.kind == 1 && !((i.probes.zip o.probes).any fun (q, qr) => norm q == norm (dir (norm p)) && qr.kind == 2)
            && (i.probes.any fun q => norm q == norm (dir (norm p)))
        match missing with
        | some _ => some "file system: parent directory of a written file is missing"
        | none => none

end Pgs.Persist
