/-
  Byte strings.  Go strings are byte sequences that need not be valid UTF-8, so every model that
  looks at string *content* works over `List Nat` (one `Nat` per byte; the models never rely on
  `< 256`).  Splitting / joining on a separator is defined here once, structurally, with the
  round-trip lemmas the property theorems use.
-/
namespace Pgs

abbrev Bytes := List Nat

def slash : Nat := 47   -- '/'
def dot : Nat := 46     -- '.'
def underscore : Nat := 95
def comma : Nat := 44
def equals : Nat := 61

/-- `strings.Split(s, sep)` for a one-byte separator: never empty, `[[]]` for the empty string. -/
def splitOn (sep : Nat) : Bytes → List Bytes
  | [] => [[]]
  | c :: cs =>
    if c = sep then [] :: splitOn sep cs
    else match splitOn sep cs with
      | [] => [[c]]            -- unreachable (splitOn is never empty); kept total
      | s :: ss => (c :: s) :: ss

/-- `strings.Join(parts, sep)` for a separator given as bytes. -/
def joinWith (sep : Bytes) : List Bytes → Bytes
  | [] => []
  | [p] => p
  | p :: q :: ps => p ++ sep ++ joinWith sep (q :: ps)

def isPrefixOfB : Bytes → Bytes → Bool
  | [], _ => true
  | _ :: _, [] => false
  | a :: as, b :: bs => a == b && isPrefixOfB as bs

/-- `strings.TrimSuffix` -/
def trimSuffixB (s suf : Bytes) : Bytes := if suf.isSuffixOf s then s.take (s.length - suf.length) else s

def bytesOfString (s : String) : Bytes := s.toUTF8.toList.map (·.toNat)

end Pgs
