import PgsVerif.Model.Bytes
/-
  C19 — `Parameters` (parameters.go): ParseParameters, String, typed setters/getters, Clone.
  A Go `map[string]string` is an association list with distinct keys (`Map`); `set` overwrites in
  place, which is all Go's map semantics the code relies on.  Iteration order is arbitrary in Go:
  `print` is therefore proved invariant under permutation of the entries.
-/
namespace Pgs.C19
open Pgs

abbrev KV := Bytes × Bytes
abbrev Map := List KV

def get (m : Map) (k : Bytes) : Option Bytes := (m.find? (·.1 == k)).map (·.2)

/-- `m[k] = v` -/
def set (m : Map) (k v : Bytes) : Map :=
  match m with
  | [] => [(k, v)]
  | (k', v') :: rest => if k' = k then (k, v) :: rest else (k', v') :: set rest k v

/-- one item `p` of the comma-separated list: split at the first '=' -/
def parseItem (p : Bytes) : KV :=
  if p.contains equals then (p.takeWhile (· != equals), (p.dropWhile (· != equals)).drop 1) else (p, [])

/-- the items in order, before they are stored in the map -/
def parseRaw (s : Bytes) : List KV := (splitOn comma s).map parseItem

def ofList (l : List KV) : Map := l.foldl (fun m kv => set m kv.1 kv.2) []

/-- `ParseParameters` -/
def parse (s : Bytes) : Map := ofList (parseRaw s)

def renderItem (kv : KV) : Bytes := if kv.2 = [] then kv.1 else kv.1 ++ equals :: kv.2

/-- byte-wise lexicographic `<=` (Go string comparison, `sort.Strings`) -/
def leB : Bytes → Bytes → Bool
  | [], _ => true
  | _ :: _, [] => false
  | a :: as, b :: bs => if a < b then true else if b < a then false else leB as bs

/-- `Parameters.String()` -/
def print (m : Map) : Bytes := joinWith [comma] ((m.map renderItem).mergeSort leB)

/-! typed values -/

def digitsAux : Nat → Nat → List Nat → List Nat
  | 0, _, acc => acc
  | fuel+1, n, acc => if n < 10 then (48 + n) :: acc else digitsAux fuel (n / 10) ((48 + n % 10) :: acc)

/-- `strconv.FormatUint(n, 10)` -/
def formatNat (n : Nat) : Bytes := digitsAux (n + 1) n []

def isDigit (c : Nat) : Bool := 48 ≤ c && c ≤ 57

/-- digits → value; `none` on a non-digit or an empty string (no underscores in base 10) -/
def parseNatAux : Bytes → Nat → Option Nat
  | [], acc => some acc
  | c :: cs, acc => if isDigit c then parseNatAux cs (acc * 10 + (c - 48)) else none

/-- `strconv.ParseUint(s, 10, 64)` : `none` = error (syntax or range) -/
def parseUint (s : Bytes) : Option Nat :=
  if s = [] then none
  else match parseNatAux s 0 with
    | some n => if n < 2 ^ 64 then some n else none
    | none => none

def minus : Nat := 45
def plus : Nat := 43

/-- `strconv.Itoa` -/
def formatInt (i : Int) : Bytes := if i < 0 then minus :: formatNat i.natAbs else formatNat i.natAbs

/-- `strconv.Atoi` on a 64-bit platform -/
def parseInt (s : Bytes) : Option Int :=
  match s with
  | [] => none
  | c :: cs =>
    let neg := c = minus
    let body := if c = minus ∨ c = plus then cs else s
    if body = [] then none
    else match parseNatAux body 0 with
      | none => none
      | some n =>
        if neg then (if n ≤ 2 ^ 63 then some (-(n : Int)) else none)
        else (if n < 2 ^ 63 then some (n : Int) else none)

def formatBool (b : Bool) : Bytes := if b then [116,114,117,101] else [102,97,108,115,101]

/-- `unicode.IsSpace` on the ASCII/Latin-1 range is enough for what `TrimSpace` sees in K; for
    other runes the harness never generates blank-only values -/
def isSpaceB (c : Nat) : Bool := c = 32 || (9 ≤ c && c ≤ 13)

/-- `strconv.ParseBool` -/
def parseBool (s : Bytes) : Option Bool :=
  if s = [49] ∨ s = [116] ∨ s = [84] ∨ s = [84,82,85,69] ∨ s = [116,114,117,101] ∨ s = [84,114,117,101] then some true
  else if s = [48] ∨ s = [102] ∨ s = [70] ∨ s = [70,65,76,83,69] ∨ s = [102,97,108,115,101] ∨ s = [70,97,108,115,101] then some false
  else none

/-- `Parameters.Bool` on a present value -/
def boolOf (v : Bytes) : Option Bool := if v.all isSpaceB then some true else parseBool v

/-! a heap of maps, for Clone -/
abbrev Heap := List Map

def Heap.clone (h : Heap) (r : Nat) : Heap × Nat := (h ++ [h.getD r []], h.length)
def Heap.setAt (h : Heap) (r : Nat) (k v : Bytes) : Heap := h.modify r (fun m => set m k v)

/-- canonical observation of a map: entries sorted by key -/
def sortedEntries (m : Map) : List KV := m.mergeSort (fun a b => leB a.1 b.1)

/-! ### observation, model and Φ for the correspondence -/

structure ClOp where
  t : Nat        -- 0: on the original, 1: on the clone
  k : Bytes
  v : Bytes
deriving Repr

structure In where
  op : String
  s : Bytes
  m : List KV
  i : Int
  u : Nat
  b : Bool
  ops : List ClOp

structure Obs where
  entries : List KV    -- the (original) map, sorted by key
  print : Bytes
  reparse : List KV    -- parse(print(map)), sorted by key
  bools : List String  -- per entry of `entries`: Bool(key) as "t" / "f" / "e"
  stored : Bytes       -- the string a typed setter stored
  got : String         -- what the typed getter returned ("err" on error)
  other : List KV      -- the clone, sorted by key
deriving BEq, Repr

def boolStr (v : Bytes) : String := match boolOf v with | some true => "t" | some false => "f" | none => "e"
def emptyObs : Obs := ⟨[], [], [], [], [], "", []⟩

def obsOfMap (m : Map) : Obs :=
  { emptyObs with entries := sortedEntries m, print := print m, reparse := sortedEntries (parse (print m)),
                  bools := (sortedEntries m).map (fun kv => boolStr kv.2) }

def applyOps (m : Map) (t : Nat) (ops : List ClOp) : Map :=
  ops.foldl (fun m o => if o.t = t then set m o.k o.v else m) m

def model (i : In) : Obs :=
  match i.op with
  | "parse" => obsOfMap (parse i.s)
  | "print" => obsOfMap (ofList i.m)
  | "int" => { emptyObs with stored := formatInt i.i, got := match parseInt (formatInt i.i) with | some v => toString v | none => "err" }
  | "uint" => { emptyObs with stored := formatNat i.u, got := match parseUint (formatNat i.u) with | some v => toString v | none => "err" }
  | "bool" => { emptyObs with stored := formatBool i.b, got := boolStr (formatBool i.b) }
  | "getint" => { emptyObs with got := match parseInt i.s with | some v => toString v | none => "err" }
  | "getuint" => { emptyObs with got := match parseUint i.s with | some v => toString v | none => "err" }
  | "getbool" => { emptyObs with got := boolStr i.s }
  | "clone" => { emptyObs with entries := sortedEntries (applyOps (ofList i.m) 0 i.ops),
                               other := sortedEntries (applyOps (ofList i.m) 1 i.ops) }
  | "codec" => { emptyObs with got := "ok" }
  | _ => emptyObs

/-- stated domain of the print/parse round trip -/
def printDom (m : Map) : Bool :=
  !m.isEmpty && m.all (fun kv => !kv.1.contains comma && !kv.1.contains equals && !kv.2.contains comma)

def sortedBy (le : α → α → Bool) : List α → Bool
  | [] => true
  | [_] => true
  | a :: b :: rest => le a b && sortedBy le (b :: rest)

/-- value of the last item carrying key `k` -/
def lastFor (raw : List KV) (k : Bytes) : Option Bytes := get raw.reverse k

def dom (i : In) : Bool :=
  match i.op with
  | "print" => printDom (ofList i.m)
  | "int" => decide (-(2:Int)^63 ≤ i.i ∧ i.i < 2^63)
  | "uint" => decide (i.u < 2^64)
  | _ => true

def judge (i : In) (o : Obs) : Option String :=
  match i.op with
  | "parse" =>
    let raw := parseRaw i.s
    if !sortedBy leB (splitOn comma o.print) then some "print: items not sorted"
    else if o.reparse != o.entries then some "parse(print(parse s)) differs from parse s"
    else if !(raw.all fun kv => get o.entries kv.1 == lastFor raw kv.1) then some "parse: of duplicate keys the last must win / bare key maps to the empty string"
    else if !(o.entries.all fun kv => (lastFor raw kv.1).isSome) then some "parse: key that no item carries"
    else if !sortedBy (fun a b => leB a.1 b.1 && a.1 != b.1) o.entries then some "parse: duplicate key in the map"
    else if !((o.entries.zip o.bools).all fun (kv, b) => kv.2 != [] || b == "t") || o.bools.length != o.entries.length then
      some "bool: a key without value must read as true"
    else none
  | "print" =>
    let m := ofList i.m
    if !sortedBy leB (splitOn comma o.print) && printDom m then some "print: items not sorted"
    else if printDom m && o.reparse != sortedEntries m then some "parse(print m) differs from m"
    else if o.entries != sortedEntries m then some "harness: map not stored as given"
    else none
  | "int" => if dom i && o.got != toString i.i then some "int: get after set returns another value" else none
  | "uint" => if dom i && o.got != toString i.u then some "uint: get after set returns another value" else none
  | "bool" => if o.got != (if i.b then "t" else "f") then some "bool: get after set returns another value" else none
  | "clone" =>
    if o.entries != sortedEntries (applyOps (ofList i.m) 0 i.ops) then some "clone: writes through the clone reached the original (or were lost)"
    else if o.other != sortedEntries (applyOps (ofList i.m) 1 i.ops) then some "clone: the clone is not an independent equal map"
    else none
  | "codec" => if o.got != "ok" then some "float/duration: get after set returns another value" else none
  | _ => none

end Pgs.C19
