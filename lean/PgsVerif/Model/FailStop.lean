import PgsVerif.Model.Persist
/-
  C14 — fail-stop.  The render pipeline (input → artifacts → output write) where every fallible
  step may take a fault from a plan.  `Debugger.Fail/CheckErr/Assert` log the cause and call
  `os.Exit(1)`: the run ends there.
-/
namespace Pgs.C14
open Pgs Pgs.Persist

inductive InFault where
  | none | readError | garbage | noTargets
deriving DecidableEq, Repr

/-- file-system operations of `writeFile`, in the order they happen -/
inductive FsOp where
  | mkdir | stat | open_ | write | close | short
deriving DecidableEq, Repr

inductive OutFault where
  | none | error | short
deriving DecidableEq, Repr

structure Plan where
  input : InFault
  arts : List Art
  procs : List Proc
  fs0 : FS
  fsFault : Option (Nat × FsOp)     -- fault at this operation of the k-th custom file reaching `writeFile`
  out : OutFault
deriving Repr

/-- the step of the pipeline at which a run failed; each has a cause text on the log -/
inductive Failure where
  | readInput | parseInput | noTargets
  | artifact (c : Cause)
  | fsMkdir | fsStat | fsWrite
  | writeOutput | shortOutput
deriving DecidableEq, Repr

def Failure.tag : Failure → String
  | .readInput => "readInput" | .parseInput => "parseInput" | .noTargets => "noTargets"
  | .artifact c => c.tag
  | .fsMkdir => "fsMkdir" | .fsStat => "fsStat" | .fsWrite => "fsWrite"
  | .writeOutput => "writeOutput" | .shortOutput => "shortOutput"

/-- `writeFile` with a possible fault at one of its operations -/
def writeFileF (fs : FS) (name content : Bytes) (ow : Bool) (perms : Nat) (fault : Option FsOp) : Except Failure FS :=
  if fault = some .mkdir then .error .fsMkdir
  else
    let fs1 := fs.mkdirAll (FilePath.dir name)
    if fault = some .stat then .error .fsStat
    else if fs1.exists name && !ow then .ok fs1                       -- exists, not overwriting: skipped
    else if fault.isSome then .error .fsWrite                         -- open / write / close / short write
    else .ok (fs1.write name content perms)

/-- artifacts in order; `k` counts the custom files that reached `writeFile` -/
def persistF (procs : List Proc) (fault : Option (Nat × FsOp)) : State → Nat → List Art → Except Failure State
  | st, _, [] => .ok st
  | st, k, a :: as =>
    match a with
    | .custom name body perms ow tpl =>
      match render body tpl with
      | .error c => .error (.artifact c)
      | .ok text =>
        match postProcess procs a.kind text with
        | .error c => .error (.artifact c)
        | .ok c =>
          let f := match fault with | some (i, op) => if i = k then some op else none | none => none
          match writeFileF st.fs name c ow perms f with
          | .error e => .error e
          | .ok fs' => persistF procs fault { st with fs := fs' } (k+1) as
    | _ =>
      match step procs st a with
      | .error c => .error (.artifact c)
      | .ok st' => persistF procs fault st' k as

/-- what the outside world sees of one run -/
structure Outcome where
  exit : Nat           -- process exit status
  stdout : String      -- "none": no byte written; "full": one complete response; "partial": a truncated response
  cause : String       -- which cause the log names ("" when the run succeeded)
deriving DecidableEq, Repr

def failed (f : Failure) (stdout : String := "none") : Outcome := ⟨1, stdout, f.tag⟩

def run (p : Plan) : Outcome :=
  match p.input with
  | .readError => failed .readInput
  | .garbage => failed .parseInput
  | .noTargets => failed .noTargets
  | .none =>
    match persistF p.procs p.fsFault ⟨⟨[], none⟩, p.fs0⟩ 0 p.arts with
    | .error f => failed f
    | .ok _ =>
      match p.out with
      | .none => ⟨0, "full", ""⟩
      | .error => failed .writeOutput
      | .short => failed .shortOutput "partial"

/-- Φ_C14: the property on one observed run.  `faultExpected`: the plan contains a fault that
    takes effect (decided by the model, which is compared with the implementation separately). -/
def judge (p : Plan) (o : Outcome) : Option String :=
  let m := run p
  if m.exit = 0 then
    (if o.exit != 0 then some "a fault-free run failed"
     else if o.stdout != "full" then some "a fault-free run did not write one complete response" else none)
  else if o.exit = 0 then some "fail-stop: a run with a fault exited with status 0"
  else if o.cause = "" ∨ o.cause != m.cause then some "fail-stop: the log does not name the cause"
  else if m.cause != "shortOutput" && o.stdout != "none" then some "fail-stop: response bytes reached the output stream before the failure"
  else none

end Pgs.C14
