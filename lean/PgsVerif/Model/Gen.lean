import PgsVerif.Model.Persist
import PgsVerif.Model.Params
/-
  C13 — `Generator` / `standardWorkflow` / `onceWorkflow` (generator.go, workflow.go).

  The generator is a state machine over the operations `AST()` and `Render()`; what it does to
  the outside world is a trace of effects: reading the input, initialising module contexts,
  executing modules, writing the response.  Modules are parameters (name, artifacts returned).
-/
namespace Pgs.C13
open Pgs Pgs.FilePath

structure ModSpec where
  name : Bytes
  arts : List Persist.Art
deriving Repr

structure Cfg where
  files : List (Bytes × Bytes)      -- (name, package) of the request's proto files, request order
  targets : List Bytes              -- file_to_generate
  param : Bytes                     -- the request's parameter string
  mutators : List (Bytes × Bytes)   -- registered ParamMutators: p.SetStr(k, v), in order
  mods : List ModSpec
  procs : List Persist.Proc
  features : Option Nat
  bidi : Bool                       -- the BiDirectional() init option
deriving Repr

inductive Op where
  | ast
  | render
deriving DecidableEq, Repr

inductive Ev where
  | read                                                   -- the input was read to EOF
  | init (i : Nat) (name params out : Bytes)               -- InitContext of module i: context name, parameters, output path
  | exec (i : Nat) (targets pkgs : List Bytes) (bidi : Bool)   -- Execute of module i: sorted target names / package names; the AST it is given records dependents (bidirectional) or not
  | write (files : List Persist.RF) (error : Option Bytes) (features : Option Nat)
  | astRet                                                 -- AST() returned the (one) AST
  | died                                                   -- fail-stop (outside the property's domain)
deriving DecidableEq, Repr

/-- parameters after all mutators -/
def params (c : Cfg) : C19.Map := c.mutators.foldl (fun m kv => C19.set m kv.1 kv.2) (C19.parse c.param)

def outputPathKey : Bytes := [111,117,116,112,117,116,95,112,97,116,104]   -- "output_path"

/-- `Parameters.OutputPath()` then `Context(…)`: cleaned, "." by default -/
def outputPath (c : Cfg) : Bytes := clean ((C19.get (params c) outputPathKey).getD dotSeg)

def sortDedup (l : List Bytes) : List Bytes := (l.eraseDups).mergeSort C19.leB

def initEvents (c : Cfg) : List Ev :=
  (List.range c.mods.length).zip c.mods |>.map fun (i, m) => .init i m.name (C19.print (params c)) (outputPath c)

def execEvents (c : Cfg) : List Ev :=
  (List.range c.mods.length).zip c.mods |>.map fun (i, _) =>
    .exec i (sortDedup c.targets) (sortDedup (c.files.map (·.2))) c.bidi

def allArts (c : Cfg) : List Persist.Art := (c.mods.map (·.arts)).flatten

def writeEvent (c : Cfg) : Ev :=
  match Persist.persist c.procs ⟨[], []⟩ (allArts c) with
  | .ok st => .write st.resp.files st.resp.error c.features
  | .error _ => .died

/-- the three `sync.Once` flags of `onceWorkflow` -/
structure St where
  initDone : Bool
  runDone : Bool
  persistDone : Bool
deriving DecidableEq, Repr

def St.start : St := ⟨false, false, false⟩

/-- `workflow.Init` guarded by `initOnce` -/
def doInit (s : St) : St × List Ev := if s.initDone then (s, []) else ({ s with initDone := true }, [.read])
def doRun (c : Cfg) (s : St) : St × List Ev :=
  if s.runDone then (s, []) else ({ s with runDone := true }, initEvents c ++ execEvents c)
def doPersist (c : Cfg) (s : St) : St × List Ev :=
  if s.persistDone then (s, []) else ({ s with persistDone := true }, [writeEvent c])

def stepOp (c : Cfg) (s : St) : Op → St × List Ev
  | .ast => let (s1, e1) := doInit s; (s1, e1 ++ [.astRet])
  | .render =>
    let (s1, e1) := doInit s
    let (s2, e2) := doRun c s1
    let (s3, e3) := doPersist c s2
    (s3, e1 ++ e2 ++ e3)

def trace (c : Cfg) : St → List Op → List Ev
  | _, [] => []
  | s, op :: ops => let (s', es) := stepOp c s op; es ++ trace c s' ops

/-- the declarative reading of the property: what must have happened after a history -/
def specTrace (c : Cfg) : Bool → Bool → List Op → List Ev
  -- `started`: some operation ran before; `rendered`: a Render ran before
  | _, _, [] => []
  | started, rendered, .ast :: ops =>
    (if started then [] else [.read]) ++ [.astRet] ++ specTrace c true rendered ops
  | started, rendered, .render :: ops =>
    (if started then [] else [.read]) ++
    (if rendered then [] else initEvents c ++ execEvents c ++ [writeEvent c]) ++ specTrace c true true ops

/-- domain of C13: at least one target, every target one of the request's files (what protoc
    sends), the artifacts persist without failure -/
def dom (c : Cfg) : Bool :=
  !c.targets.isEmpty && c.targets.all (fun t => c.files.any (·.1 == t)) && writeEvent c != .died

def judge (c : Cfg) (ops : List Op) (o : List Ev) : Option String :=
  let want := specTrace c false false ops
  if o == want then none
  else if o.filter (· == .read) != want.filter (· == .read) then some "input: not read exactly once, before anything else"
  else if o.filter (fun e => match e with | .init .. => true | .exec .. => true | _ => false)
        != want.filter (fun e => match e with | .init .. => true | .exec .. => true | _ => false) then
    some "modules: not (all InitContext in order, then all Execute in order) exactly once with the parsed parameters / output path / targets"
  else if o.filter (fun e => match e with | .write .. => true | _ => false)
        != want.filter (fun e => match e with | .write .. => true | _ => false) then
    some "output: not exactly one response equal to persisting the concatenated artifacts"
  else some "history: effects out of order / AST not stable"

end Pgs.C13
