import PgsVerif.Model.GoNames
import PgsVerif.Model.FilePath
/-
  C17 — Go types, package names, import paths and output paths.  Again two transcriptions:
  pgsgo (lang/go/type_name.go, package.go, parameters.go) and protoc-gen-go v1.23.0
  (`fieldGoType` of internal_gengo, `goPackageOption` / `cleanPackageName` / filename prefix of protogen).
-/
namespace Pgs.GoTypes
open Pgs Pgs.AST Pgs.GoNames

def goKeywords : List String :=
  ["break", "case", "chan", "const", "continue", "default", "defer", "else", "fallthrough", "for", "func", "go", "goto",
   "if", "import", "interface", "map", "package", "range", "return", "select", "struct", "switch", "type", "var"]

/-- the same keywords as byte strings (what the models test) -/
def goKeywordsB : List Bytes :=
  [[98,114,101,97,107], [99,97,115,101], [99,104,97,110], [99,111,110,115,116], [99,111,110,116,105,110,117,101], [100,101,102,97,117,108,116], [100,101,102,101,114], [101,108,115,101], [102,97,108,108,116,104,114,111,117,103,104], [102,111,114], [102,117,110,99], [103,111], [103,111,116,111], [105,102], [105,109,112,111,114,116], [105,110,116,101,114,102,97,99,101], [109,97,112], [112,97,99,107,97,103,101], [114,97,110,103,101], [114,101,116,117,114,110], [115,101,108,101,99,116], [115,116,114,117,99,116], [115,119,105,116,99,104], [116,121,112,101], [118,97,114]]

def isAlnum (c : Nat) : Bool := (48 ≤ c && c ≤ 57) || (65 ≤ c && c ≤ 90) || (97 ≤ c && c ≤ 122)
def isLetterB (c : Nat) : Bool := (65 ≤ c && c ≤ 90) || (97 ≤ c && c ≤ 122)

def lastIndexOf (c : Nat) (s : Bytes) : Option Nat :=
  let r := s.reverse
  match r.findIdx? (· == c) with
  | some i => some (s.length - 1 - i)
  | none => none

def firstIndexOf (c : Nat) (s : Bytes) : Option Nat := s.findIdx? (· == c)

def semicolon : Nat := 59

/-- One `_` per rune that is not an ASCII letter or digit.  On well-formed UTF-8 a non-ASCII rune is
    a lead byte (≥ 192) followed by continuation bytes (128..191): the lead byte becomes `_`, the
    continuation bytes vanish.  (Both generators decode runes; they differ only on non-ASCII
    *letters and digits*, which `domC17` leaves to the harness to avoid.) -/
def sanitizeRunes (s : Bytes) : Bytes :=
  s.filterMap fun c => if isAlnum c then some c else if 128 ≤ c && c < 192 then none else some underscore

/-! ### pgsgo -/
namespace PgsGo

/-- `nonAlphaNumPattern.ReplaceAllString(s, "_")` -/
def sanitize (s : Bytes) : Bytes := sanitizeRunes s

/-- `optionPackage` for a file that declares go_package `opt` (no M mapping) -/
def optionPackage (input opt : Bytes) : Bytes × Bytes :=   -- (path, pkg)
  match lastIndexOf semicolon opt with
  | some i => (opt.take i, sanitize (opt.drop (i+1)))
  | none =>
    match lastIndexOf slash opt with
    | some i => (opt, sanitize (opt.drop (i+1)))
    | none => (FilePath.dir input, sanitize opt)

def packageName (input opt : Bytes) : Bytes :=
  let pkg := (optionPackage input opt).2
  let pkg := if goKeywordsB.contains pkg then underscore :: pkg else pkg
  match pkg with
  | c :: _ => if isDigitB c then underscore :: pkg else pkg
  | [] => pkg

def importPath (input opt : Bytes) : Bytes := (optionPackage input opt).1

def pbgo : Bytes := [46, 112, 98, 46, 103, 111]   -- ".pb.go"

/-- `InputPath().SetExt(".pb.go")` -/
def setExt (input : Bytes) : Bytes :=
  let base := FilePath.base input
  let ext := FilePath.ext input
  let baseName := trimSuffixB base ext      -- TrimSuffix(Base, Ext)
  FilePath.join [FilePath.dir input, baseName ++ pbgo]

def outputPath (srcRel : Bool) (input opt : Bytes) : Bytes :=
  let out := setExt input
  if srcRel then out else FilePath.join [importPath input opt, FilePath.base out]

/-- Go type names as byte strings (so that the kernel can compute with them) -/
def scalarType (t : Nat) : Bytes :=
  match t with
  | 1 => [102, 108, 111, 97, 116, 54, 52] | 2 => [102, 108, 111, 97, 116, 51, 50]
  | 3 => [105, 110, 116, 54, 52] | 16 => [105, 110, 116, 54, 52] | 18 => [105, 110, 116, 54, 52]
  | 4 => [117, 105, 110, 116, 54, 52] | 6 => [117, 105, 110, 116, 54, 52]
  | 5 => [105, 110, 116, 51, 50] | 15 => [105, 110, 116, 51, 50] | 17 => [105, 110, 116, 51, 50]
  | 13 => [117, 105, 110, 116, 51, 50] | 7 => [117, 105, 110, 116, 51, 50]
  | 8 => [98, 111, 111, 108] | 9 => [115, 116, 114, 105, 110, 103] | 12 => [91, 93, 98, 121, 116, 101]
  | _ => [60, 105, 110, 118, 97, 108, 105, 100, 32, 115, 99, 97, 108, 97, 114, 62]                      -- "<invalid scalar>"

/-- `strings.HasPrefix(n, "*")`, `"["`, `"map["` -/
def isPointer (n : Bytes) : Bool :=
  match n with
  | 42 :: _ => true
  | 91 :: _ => true
  | 109 :: 97 :: 112 :: 91 :: _ => true
  | _ => false
def pointer (n : Bytes) : Bytes := if isPointer n then n else 42 :: n

end PgsGo

/-! ### protoc-gen-go -/
namespace Protogen

/-- `strs.GoSanitized` on input whose non-ASCII runes are neither letters nor digits -/
def goSanitized (s : Bytes) : Bytes :=
  let s := sanitizeRunes s
  let firstIsLetter := match s with | c :: _ => isLetterB c | [] => false
  if goKeywordsB.contains s || !firstIsLetter then underscore :: s else s

/-- `goPackageOption`: (package name, import path; empty = none) -/
def goPackageOption (opt : Bytes) : Bytes × Bytes :=
  match firstIndexOf semicolon opt with
  | some i => (goSanitized (opt.drop (i+1)), opt.take i)
  | none =>
    match lastIndexOf slash opt with
    | some i => (goSanitized (opt.drop (i+1)), opt)
    | none => (goSanitized opt, [])

def importPath (input opt : Bytes) : Bytes :=
  let ip := (goPackageOption opt).2
  if ip = [] then FilePath.dir input else ip         -- path.Dir(filename)

def packageName (opt : Bytes) : Bytes := (goPackageOption opt).1

def protoExt : Bytes := bytesOfString ".proto"

def filenamePrefix (input : Bytes) : Bytes :=
  if FilePath.ext input = protoExt then input.take (input.length - protoExt.length) else input

/-- GeneratedFilenamePrefix + ".pb.go" for the legacy (default) and source_relative path types -/
def outputPath (srcRel : Bool) (input opt : Bytes) : Bytes :=
  let prefix_ := filenamePrefix input
  let ip := (goPackageOption opt).2
  (if srcRel || ip = [] then prefix_ else FilePath.join [ip, FilePath.base prefix_]) ++ PgsGo.pbgo

def scalarGo (t : Nat) : Bytes :=
  match t with
  | 8 => [98, 111, 111, 108]
  | 5 => [105, 110, 116, 51, 50] | 17 => [105, 110, 116, 51, 50] | 15 => [105, 110, 116, 51, 50]
  | 13 => [117, 105, 110, 116, 51, 50] | 7 => [117, 105, 110, 116, 51, 50]
  | 3 => [105, 110, 116, 54, 52] | 18 => [105, 110, 116, 54, 52] | 16 => [105, 110, 116, 54, 52]
  | 4 => [117, 105, 110, 116, 54, 52] | 6 => [117, 105, 110, 116, 54, 52]
  | 2 => [102, 108, 111, 97, 116, 51, 50] | 1 => [102, 108, 111, 97, 116, 54, 52] | 9 => [115, 116, 114, 105, 110, 103] | 12 => [91, 93, 98, 121, 116, 101]
  | _ => [60, 107, 105, 110, 100, 62]                                  -- "<kind>"

end Protogen

/-! ### per world -/

/-- Go name of the message / enum at a reference, by side -/
def typeNameAt (s : Side) (w : World) (r : Ref) : Bytes :=
  match (fileNames s r.file ((w.files[r.file]?).getD ⟨"", "", "", [], [], [], .nil, [], [], [], ""⟩)).find? (fun (x, k, _) => x == r && (k == "msg" || k == "enum")) with
  | some (_, _, n) => n
  | none =>
    -- map entries and other unnamed things do not occur as field types of generated fields
    []

def fileD (w : World) (fi : Nat) : FileD := (w.files[fi]?).getD ⟨"", "", "", [], [], [], .nil, [], [], [], ""⟩

def pgsQualified (w : World) (own : Nat) (target : Ref) : Bytes :=
  let t := typeNameAt pgsSide w target
  let fo := fileD w own
  let ft := fileD w target.file
  if PgsGo.importPath (bytesOfString ft.name) (bytesOfString ft.goPackage) == PgsGo.importPath (bytesOfString fo.name) (bytesOfString fo.goPackage) then t
  else PgsGo.packageName (bytesOfString ft.name) (bytesOfString ft.goPackage) ++ dot :: t

def genQualified (w : World) (own : Nat) (target : Ref) : Bytes :=
  let t := typeNameAt genSide w target
  let fo := fileD w own
  let ft := fileD w target.file
  if Protogen.importPath (bytesOfString ft.name) (bytesOfString ft.goPackage) == Protogen.importPath (bytesOfString fo.name) (bytesOfString fo.goPackage) then t
  else Protogen.packageName (bytesOfString ft.goPackage) ++ dot :: t

def mapOpen : Bytes := [109, 97, 112, 91]      -- "map["
def sliceOf : Bytes := [91, 93]                -- "[]"
def star : Nat := 42
def closeBr : Nat := 93

/-- pgsgo `Type(f)` -/
def pgsTypeB (w : World) (g : Graph) (r : Ref) (fd : FieldD) : Bytes :=
  let f := fileD w r.file
  match g.ftype? r with
  | none => [60, 117, 110, 116, 121, 112, 101, 100, 62]      -- "<untyped>"
  | some t =>
    let el (e : Elem) : Bytes :=
      match e with
      | .enum _ x => pgsQualified w r.file x
      | .embed _ m => PgsGo.pointer (pgsQualified w r.file m)
      | .scalar k => PgsGo.scalarType k
    match t with
    | .map k e => mapOpen ++ PgsGo.scalarType k.t ++ closeBr :: el e
    | .repeated e => sliceOf ++ el e
    | .embed m => PgsGo.pointer (pgsQualified w r.file m)
    | .enum x => let t := pgsQualified w r.file x; if pgsPresence f fd then PgsGo.pointer t else t
    | .scalar k => let t := PgsGo.scalarType k; if pgsPresence f fd then PgsGo.pointer t else t

def pgsType (w : World) (g : Graph) (r : Ref) (fd : FieldD) : String := str (pgsTypeB w g r fd)

/-- protoc-gen-go `fieldGoType` (+ the pointer prefix of the struct field) -/
def genTypeB (w : World) (r : Ref) (fd : FieldD) : Bytes :=
  let f := fileD w r.file
  let base (fd : FieldD) : Bytes × Bool :=
    let pointer := prPresence f fd
    if fd.type = 14 then (genQualified w r.file (declaredAs w fd.typeName .enum), pointer)
    else if fd.type = 11 || fd.type = 10 then (star :: genQualified w r.file (declaredAs w fd.typeName .msg), false)
    else if fd.type = 12 then ([91, 93, 98, 121, 116, 101], false)      -- "[]byte"
    else (Protogen.scalarGo fd.type, pointer)
  let isMap := fd.label = 3 && fd.type = 11 && isMapEntryFqn w fd.typeName
  if isMap then
    match w.msgAt (declaredAs w fd.typeName .msg) with
    | some (h, _) => (match h.fields with
      | k :: v :: _ => mapOpen ++ (base k).1 ++ closeBr :: (base v).1
      | _ => [60, 98, 97, 100, 32, 109, 97, 112, 62])        -- "<bad map>"
    | none => [60, 98, 97, 100, 32, 109, 97, 112, 62]
  else if fd.label = 3 then sliceOf ++ (base fd).1
  else let (t, p) := base fd; if p then star :: t else t

def genType (w : World) (r : Ref) (fd : FieldD) : String := str (genTypeB w r fd)

structure TypeCmp where
  ref : Ref
  pgs : String
  gen : String
  src : String
deriving Repr, DecidableEq, Lean.FromJson, Lean.ToJson

structure FileCmp where
  file : Nat
  pgsPkg : String
  genPkg : String
  pgsImp : String
  genImp : String
  pgsOut : String
  genOut : String
deriving Repr, DecidableEq, Lean.FromJson, Lean.ToJson

structure C17Obs where
  failed : Bool
  types : List TypeCmp
  files : List FileCmp
deriving Repr, DecidableEq, Lean.FromJson, Lean.ToJson

def c17Model (w : World) (srcRel : Bool) : C17Obs :=
  match hydrate w with
  | .error _ => ⟨true, [], []⟩
  | .ok g =>
    let types := ((allMsgs w).filter (fun (_, h) => !h.mapEntry)).map (fun (r, h) =>
      (idx h.fields).filterMap fun (i, fd) =>
        let real := fd.oneofIndex.isSome && !fd.proto3Optional
        if real then none else
        let fr : Ref := ⟨r.file, r.path ++ [2, i]⟩
        let gen := genType w fr fd
        some (⟨fr, pgsType w g fr fd, gen, if w.targets.contains (fileD w r.file).name then gen else ""⟩ : TypeCmp)) |>.flatten
    let files := (idx w.files).map fun (fi, f) =>
      let inp := bytesOfString f.name
      let opt := bytesOfString f.goPackage
      (⟨fi, str (PgsGo.packageName inp opt), str (Protogen.packageName opt), str (PgsGo.importPath inp opt), str (Protogen.importPath inp opt),
        str (PgsGo.outputPath srcRel inp opt), str (Protogen.outputPath srcRel inp opt)⟩ : FileCmp)
    ⟨false, types.mergeSort (fun a b => refLe a.ref b.ref), files⟩

/-- stated domain: every file declares a go_package whose last element is usable -/
def domC17 (w : World) : Bool :=
  w.files.all fun f =>
    let opt := bytesOfString f.goPackage
    let last := match firstIndexOf semicolon opt with
      | some i => opt.drop (i+1)
      | none => match lastIndexOf slash opt with | some i => opt.drop (i+1) | none => opt
    opt != [] && (opt.filter (· == semicolon)).length ≤ 1 &&
    (match last with | c :: _ => isAlnum c | [] => false) &&
    last.all (fun c => isAlnum c || c == dot || c == 45 || c == underscore || 128 ≤ c)

def judgeC17 (w : World) (srcRel : Bool) (o : C17Obs) : Option String :=
  if o.failed then some "building failed (or protoc-gen-go rejected the request)" else
  let m := c17Model w srcRel
  if o.types.map (·.ref) != m.types.map (·.ref) then some "types: not one per field outside a real oneof" else
  match o.types.find? (fun t => t.pgs != t.gen) with
  | some t => some s!"field {repr t.ref.path}: predicted Go type {t.pgs} but protoc-gen-go gives {t.gen}"
  | none =>
    match o.types.find? (fun t => t.src != "" && t.src != t.gen) with
    | some t => some s!"field {repr t.ref.path}: generated source declares {t.src}, reference rule says {t.gen}"
    | none =>
      match o.files.find? (fun f => f.pgsPkg != f.genPkg || f.pgsImp != f.genImp || f.pgsOut != f.genOut) with
      | some f => if domC17 w then some s!"file {f.file}: package name / import path / output path differ from protoc-gen-go's" else none
      | none => none

end Pgs.GoTypes
