import PgsVerif.Model.FilePath
/-
  C18 — build contexts (build_context.go), the prefixed debugger (debug.go) and the `ModuleBase`
  wrappers (module.go).  A context is a linked chain of frames exactly as in the Go code
  (`rootContext` / `dirContext` / `prefixContext`), each carrying the debugger prefixes in effect.
-/
namespace Pgs.C18
open Pgs Pgs.FilePath

inductive Ctx where
  | root (p : Bytes) (params : Nat)                       -- p = Clean(output); params: identity of the root's Parameters
  | dir (parent : Ctx) (p : Bytes) (pref : List Bytes)    -- p = Clean(dir); pref = prefixes of the debugger it holds
  | pre (parent : Ctx) (pref : List Bytes)                -- prefixContext
deriving Repr

def mkRoot (output : Bytes) (params : Nat) : Ctx := .root (clean output) params

def Ctx.prefixes : Ctx → List Bytes
  | .root _ _ => []
  | .dir _ _ pf => pf
  | .pre _ pf => pf

def Ctx.push (c : Ctx) (p : Bytes) : Ctx := .pre c (c.prefixes ++ [p])
def Ctx.pushDir (c : Ctx) (d : Bytes) : Ctx := .dir c (clean d) c.prefixes

/-- `Pop`; `none` = "attempted to pop the root build context" (fail-stop) -/
def Ctx.pop : Ctx → Option Ctx
  | .root _ _ => none
  | .dir parent _ _ => some parent
  | .pre parent _ => some parent

def Ctx.popDir : Ctx → Ctx
  | .root p q => .root p q
  | .dir parent _ _ => parent
  | .pre parent _ => parent.popDir

def Ctx.outputPath : Ctx → Bytes
  | .root p _ => p
  | .dir parent p _ => join [parent.outputPath, p]
  | .pre parent _ => parent.outputPath

def Ctx.joinPath : Ctx → List Bytes → Bytes
  | .root p _, names => join (p :: names)
  | .dir parent p pf, names => join ((Ctx.dir parent p pf).outputPath :: names)
  | .pre parent _, names => parent.joinPath names

def Ctx.params : Ctx → Nat
  | .root _ q => q
  | .dir parent _ _ => parent.params
  | .pre parent _ => parent.params

def bracket (p : Bytes) : Bytes := 91 :: p ++ [93]

/-- `ctx.Log(msg)`: `Println(prefix₁, …, prefixₙ, msg)` -/
def logLine (c : Ctx) (msg : Bytes) : Bytes := joinWith [32] (c.prefixes.map bracket ++ [msg])

/-- `ctx.Logf(format)` with a format free of verbs -/
def logfLine (c : Ctx) (fmt : Bytes) : Bytes :=
  match c.prefixes with
  | [] => fmt
  | ps => (ps.map bracket).flatten ++ (if fmt.head? = some 91 then fmt else 32 :: fmt)

/-! ### operations and observation -/
inductive Op where
  | push (p : Bytes)
  | pushDir (d : Bytes)
  | pop
  | popDir
deriving Repr

def applyOp (c : Ctx) : Op → Option Ctx
  | .push p => some (c.push p)
  | .pushDir d => some (c.pushDir d)
  | .pop => c.pop
  | .popDir => some c.popDir

structure Snap where
  out : Bytes
  joined : Bytes        -- JoinPath("x", "../y")
  log : Bytes           -- Log("m")
  logf : Bytes          -- Logf("f")
  params : Nat
deriving DecidableEq, Repr

def probeNames : List Bytes := [[120], [46,46,47,121]]

def snap (c : Ctx) : Snap :=
  ⟨c.outputPath, c.joinPath probeNames, logLine c [109], logfLine c [102], c.params⟩

/-- run the operations; stop (fail-stop) at a pop of the root -/
def run : Ctx → List Op → List Snap
  | _, [] => []
  | c, op :: ops =>
    match applyOp c op with
    | none => []
    | some c' => snap c' :: run c' ops

/-! ### the abstract stack the property talks about -/
inductive Frame where
  | dir (d : Bytes)      -- the directory pushed, cleaned
  | pre (p : Bytes)
deriving Repr

structure Stack where
  rootPath : Bytes
  params : Nat
  frames : List Frame      -- innermost first
deriving Repr

def Stack.outputPath (s : Stack) : Bytes :=
  s.frames.foldr (fun f acc => match f with | .dir d => join [acc, d] | .pre _ => acc) s.rootPath

def Stack.prefixes (s : Stack) : List Bytes :=
  s.frames.reverse.filterMap (fun f => match f with | .pre p => some p | .dir _ => none)

/-- frames left after popping up to and including the most recent directory frame -/
def dropToDir : List Frame → List Frame
  | [] => []
  | .dir _ :: fs => fs
  | .pre _ :: fs => dropToDir fs

def Stack.apply (s : Stack) : Op → Option Stack
  | .push p => some { s with frames := .pre p :: s.frames }
  | .pushDir d => some { s with frames := .dir (clean d) :: s.frames }
  | .pop => match s.frames with | [] => none | _ :: fs => some { s with frames := fs }
  | .popDir => some { s with frames := dropToDir s.frames }

def Stack.snap (s : Stack) : Snap :=
  let ps := s.prefixes
  ⟨s.outputPath, join (s.outputPath :: probeNames), joinWith [32] (ps.map bracket ++ [[109]]),
   (match ps with | [] => [102] | ps => (ps.map bracket).flatten ++ [32, 102]), s.params⟩

def Stack.run : Stack → List Op → List Snap
  | _, [] => []
  | s, op :: ops =>
    match s.apply op with
    | none => []
    | some s' => s'.snap :: Stack.run s' ops

/-- Φ_C18: the observed snapshots are those of the abstract stack -/
def judge (output : Bytes) (params : Nat) (ops : List Op) (o : List Snap) : Option String :=
  let want := Stack.run ⟨clean output, params, []⟩ ops
  if o.length != want.length then some "history: wrong number of observations (a legal operation failed or an illegal one succeeded)"
  else match (o.zip want).find? (fun (a, b) => a != b) with
    | none => none
    | some (a, b) =>
      if a.out != b.out then some "output path is not the stack's path"
      else if a.joined != b.joined then some "JoinPath is not the output path joined with the names"
      else if a.params != b.params then some "parameters are not the root's"
      else some "log lines do not carry exactly the pushed prefixes, outermost first"

end Pgs.C18
