import PgsVerif.Model.FilePath
/-
  C11 — `cleanGeneratorFileName` (artifact.go) and the declarative reading of the property.
-/
namespace Pgs.C11
open Pgs Pgs.FilePath

inductive Res where
  | rejected
  | accepted (name : Bytes)
deriving DecidableEq, Repr

/-- transcription of `cleanGeneratorFileName` (GOOS=linux: `ToSlash` is the identity) -/
def cleanName (n : Bytes) : Res :=
  if isAbs n then .rejected
  else
    let c := clean n
    if c = dotSeg ∨ isPrefixOfB dotdot c = true then .rejected else .accepted c

/-! ### Declarative side: what a relative name denotes -/

/-- a proper file-name segment: non-empty, not `.`/`..`, no separator inside -/
def properSeg (s : Seg) : Bool := s ≠ [] && s ≠ dotSeg && s ≠ dotdot && !s.contains slash

/-- Walk the segments from an (unknown) starting directory, keeping only the names pushed on top
    of it (top first); `none` as soon as a `..` would leave the starting directory. -/
def walkStep (st : Option (List Seg)) (s : Seg) : Option (List Seg) :=
  match st with
  | none => none
  | some st =>
    if s = [] ∨ s = dotSeg then some st
    else if s = dotdot then
      match st with
      | [] => none
      | _ :: r => some r
    else some (s :: st)

def walk (segs : List Seg) : Option (List Seg) := segs.foldl walkStep (some [])

/-- Denotation in a symlink-free tree: `base` is the directory (top first) the name is resolved
    against; `..` at the file-system root stays at the root. -/
def denoteStep (st : List Seg) (s : Seg) : List Seg :=
  if s = [] ∨ s = dotSeg then st
  else if s = dotdot then st.tail
  else s :: st

def denote (base : List Seg) (segs : List Seg) : List Seg := segs.foldl denoteStep base

/-- the name climbs above the directory it is resolved against -/
def climbs (n : Bytes) : Bool := (walk (splitOn slash n)).isNone

/-- the name normalises to `.` (denotes the output directory itself) -/
def isDot (n : Bytes) : Bool := walk (splitOn slash n) == some []

/-- already normalised, relative, not beginning with two dots -/
def normalised (n : Bytes) : Bool :=
  n ≠ [] && (splitOn slash n).all properSeg && !isPrefixOfB dotdot n

/-- Φ_C11: the property as a checker of one observation. Returns the first failed clause. -/
def judge (n : Bytes) (r : Res) : Option String :=
  match r with
  | .rejected =>
    if normalised n then some "c: normalised relative name not beginning with '..' was rejected" else none
  | .accepted c =>
    if isAbs n then some "a: absolute name accepted"
    else if n = [] then some "a: empty name accepted"
    else if climbs n then some "a: climbing name accepted"
    else if isDot n then some "a: name normalising to '.' accepted"
    else if isAbs c then some "b: result is absolute"
    else if !(splitOn slash c).all properSeg then some "b: result has an empty, '.' or '..' segment"
    else if walk (splitOn slash n) != some (splitOn slash c).reverse then some "b: result denotes a different file"
    else if normalised n && c != n then some "c: normalised name was changed"
    else none

end Pgs.C11
