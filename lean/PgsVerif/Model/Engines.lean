import PgsVerif.Model.Proto
import PgsVerif.Model.CleanName
import PgsVerif.Model.NameSplit
import PgsVerif.Model.Params
import PgsVerif.Model.Comment
import PgsVerif.Model.Context
/-
  JSON glue: one `Engine` per correspondence.  Only decoding/encoding lives here; every function
  called is the very definition the theorems in `PgsVerif/Props` are about.
-/
namespace Pgs
open Lean

/-! ### C11 / filepath -/
namespace C11
structure In where
  name : Bytes
deriving FromJson, ToJson

/-- observation: accepted?, resulting name (empty when rejected) -/
structure Obs where
  ok : Bool
  name : Bytes
deriving FromJson, ToJson, BEq

def Obs.toRes (o : Obs) : Res := if o.ok then .accepted o.name else .rejected
def Obs.ofRes : Res → Obs
  | .rejected => ⟨false, []⟩
  | .accepted n => ⟨true, n⟩

def engine : Engine :=
  mkEngine (I := In) (O := Obs) (fun i => Obs.ofRes (cleanName i.name)) (fun _ => true)
    (fun i o => judge i.name o.toRes)
end C11

/-! ### raw filepath functions (validates `Model/FilePath` against Go's path/filepath) -/
namespace FP
structure In where
  fn : String
  args : List Bytes
deriving FromJson, ToJson

def run (i : In) : Bytes :=
  match i.fn, i.args with
  | "clean", [p] => FilePath.clean p
  | "join", xs => FilePath.join xs
  | "dir", [p] => FilePath.dir p
  | "base", [p] => FilePath.base p
  | "ext", [p] => FilePath.ext p
  | "isabs", [p] => if FilePath.isAbs p then [1] else [0]
  | _, _ => [0xBAD]

def engine : Engine :=
  mkEngine (I := In) (O := Bytes) run (fun _ => true) (fun _ _ => none)
end FP

/-! ### C15 name splitting -/
namespace C15
structure ImgEntry where
  p : Runes
  t : Runes
  u : Runes
  l : Runes
deriving FromJson, ToJson

structure In where
  s : Bytes            -- the Go string (bytes); used by the harness only
  name : Runes         -- the runes Go's range loop yields
  up : List Nat        -- runes of the name that are IsUpper || IsTitle
  dg : List Nat        -- runes of the name that are IsDigit
  img : List ImgEntry  -- strings.Title / ToUpper / ToLower of candidate parts
deriving FromJson, ToJson

structure ObsJ where
  parts : List Runes
  conv : List Runes
deriving FromJson, ToJson, BEq

def missing : Runes := [0xFFFFFF]

def In.img' (i : In) (f : Nat) (p : Runes) : Runes :=
  if f = 0 then p
  else match i.img.find? (·.p == p) with
    | none => missing
    | some e => if f = 1 then e.t else if f = 2 then e.u else e.l

def engine : Engine :=
  mkEngine (I := In) (O := ObsJ)
    (fun i => let o := model (i.up.contains ·) (i.dg.contains ·) i.img' i.name; ⟨o.parts, o.conv⟩)
    (fun i => classOK (i.up.contains ·) (i.dg.contains ·) i.name)
    (fun i o => judge (i.up.contains ·) (i.dg.contains ·) i.img' i.name ⟨o.parts, o.conv⟩)
end C15

/-! ### C19 parameters -/
namespace C19
deriving instance FromJson, ToJson for ClOp
deriving instance FromJson, ToJson for In
deriving instance FromJson, ToJson for Obs
def engine : Engine := mkEngine (I := In) (O := Obs) model dom judge
end C19

/-! ### C20 comment wrapping -/
namespace C20
deriving instance FromJson, ToJson for R
deriving instance FromJson, ToJson for Line
structure In where
  wrap : Int
  runes : List R
deriving FromJson, ToJson
def engine : Engine :=
  mkEngine (I := In) (O := List Line) (fun i => model i.wrap i.runes) (fun _ => true) (fun i o => judge i.wrap i.runes o)
end C20

/-! ### C18 build context -/
namespace C18
structure OpJ where
  k : String
  a : Bytes
deriving FromJson, ToJson
structure In where
  output : Bytes
  params : Nat
  ops : List OpJ
  via : String      -- "ctx" or "module" (harness only: the same model serves both)
deriving FromJson, ToJson
deriving instance FromJson, ToJson for Snap
def OpJ.toOp (o : OpJ) : Op :=
  match o.k with
  | "push" => .push o.a
  | "pushDir" => .pushDir o.a
  | "pop" => .pop
  | _ => .popDir
def engine : Engine :=
  mkEngine (I := In) (O := List Snap)
    (fun i => run (mkRoot i.output i.params) (i.ops.map OpJ.toOp))
    (fun i => (run (mkRoot i.output i.params) (i.ops.map OpJ.toOp)).length == i.ops.length)   -- never pops the root
    (fun i o => judge i.output i.params (i.ops.map OpJ.toOp) o)
end C18

def engines : List (String × Engine) :=
  [ ("c11", C11.engine), ("fp", FP.engine), ("c15", C15.engine), ("c19", C19.engine), ("c20", C20.engine), ("c18", C18.engine) ]

end Pgs
