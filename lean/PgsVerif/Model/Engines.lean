import PgsVerif.Model.Proto
import PgsVerif.Model.CleanName
/-
  JSON glue: one `Engine` per correspondence.  Only decoding/encoding lives here; every function
  called is the very definition the theorems in `PgsVerif/Props` are about.
-/
namespace Pgs
open Lean

/-! ### C11 / filepath -/
namespace C11
structure In where
  name : Bytes
deriving FromJson, ToJson

/-- observation: accepted?, resulting name (empty when rejected) -/
structure Obs where
  ok : Bool
  name : Bytes
deriving FromJson, ToJson, BEq

def Obs.toRes (o : Obs) : Res := if o.ok then .accepted o.name else .rejected
def Obs.ofRes : Res → Obs
  | .rejected => ⟨false, []⟩
  | .accepted n => ⟨true, n⟩

def engine : Engine :=
  mkEngine (I := In) (O := Obs) (fun i => Obs.ofRes (cleanName i.name)) (fun _ => true)
    (fun i o => judge i.name o.toRes)
end C11

/-! ### raw filepath functions (validates `Model/FilePath` against Go's path/filepath) -/
namespace FP
structure In where
  fn : String
  args : List Bytes
deriving FromJson, ToJson

def run (i : In) : Bytes :=
  match i.fn, i.args with
  | "clean", [p] => FilePath.clean p
  | "join", xs => FilePath.join xs
  | "dir", [p] => FilePath.dir p
  | "base", [p] => FilePath.base p
  | "ext", [p] => FilePath.ext p
  | "isabs", [p] => if FilePath.isAbs p then [1] else [0]
  | _, _ => [0xBAD]

def engine : Engine :=
  mkEngine (I := In) (O := Bytes) run (fun _ => true) (fun _ _ => none)
end FP

def engines : List (String × Engine) :=
  [ ("c11", C11.engine), ("fp", FP.engine) ]

end Pgs
