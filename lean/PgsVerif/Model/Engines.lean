import PgsVerif.Model.Proto
import PgsVerif.Model.CleanName
import PgsVerif.Model.NameSplit
import PgsVerif.Model.Params
import PgsVerif.Model.Comment
import PgsVerif.Model.Context
import PgsVerif.Model.Persist
import PgsVerif.Model.Gen
import PgsVerif.Model.FailStop
import PgsVerif.Model.AstNav
import PgsVerif.Model.Valid
import PgsVerif.Model.AstSem
import PgsVerif.Model.AstSem2
import PgsVerif.Model.Walk
import PgsVerif.Model.Closure
import PgsVerif.Model.Purity
import PgsVerif.Model.GoNames
import PgsVerif.Model.GoTypes
/-
  JSON glue: one `Engine` per correspondence.  Only decoding/encoding lives here; every function
  called is the very definition the theorems in `PgsVerif/Props` are about.
-/
namespace Pgs
open Lean

/-! ### C11 / filepath -/
namespace C11
structure In where
  name : Bytes
deriving FromJson, ToJson

/-- observation: accepted?, resulting name (empty when rejected) -/
structure Obs where
  ok : Bool
  name : Bytes
deriving FromJson, ToJson, BEq

def Obs.toRes (o : Obs) : Res := if o.ok then .accepted o.name else .rejected
def Obs.ofRes : Res → Obs
  | .rejected => ⟨false, []⟩
  | .accepted n => ⟨true, n⟩

def engine : Engine :=
  mkEngine (I := In) (O := Obs) (fun i => Obs.ofRes (cleanName i.name)) (fun _ => true)
    (fun i o => judge i.name o.toRes)
end C11

/-! ### raw filepath functions (validates `Model/FilePath` against Go's path/filepath) -/
namespace FP
structure In where
  fn : String
  args : List Bytes
deriving FromJson, ToJson

def run (i : In) : Bytes :=
  match i.fn, i.args with
  | "clean", [p] => FilePath.clean p
  | "join", xs => FilePath.join xs
  | "dir", [p] => FilePath.dir p
  | "base", [p] => FilePath.base p
  | "ext", [p] => FilePath.ext p
  | "isabs", [p] => if FilePath.isAbs p then [1] else [0]
  | _, _ => [0xBAD]

def engine : Engine :=
  mkEngine (I := In) (O := Bytes) run (fun _ => true) (fun _ _ => none)
end FP

/-! ### C15 name splitting -/
namespace C15
structure ImgEntry where
  p : Runes
  t : Runes
  u : Runes
  l : Runes
deriving FromJson, ToJson

structure In where
  s : Bytes            -- the Go string (bytes); used by the harness only
  name : Runes         -- the runes Go's range loop yields
  up : List Nat        -- runes of the name that are IsUpper || IsTitle
  dg : List Nat        -- runes of the name that are IsDigit
  img : List ImgEntry  -- strings.Title / ToUpper / ToLower of candidate parts
deriving FromJson, ToJson

structure ObsJ where
  parts : List Runes
  conv : List Runes
deriving FromJson, ToJson, BEq

def missing : Runes := [0xFFFFFF]

def In.img' (i : In) (f : Nat) (p : Runes) : Runes :=
  if f = 0 then p
  else match i.img.find? (·.p == p) with
    | none => missing
    | some e => if f = 1 then e.t else if f = 2 then e.u else e.l

def engine : Engine :=
  mkEngine (I := In) (O := ObsJ)
    (fun i => let o := model (i.up.contains ·) (i.dg.contains ·) i.img' i.name; ⟨o.parts, o.conv⟩)
    (fun i => classOK (i.up.contains ·) (i.dg.contains ·) i.name)
    (fun i o => judge (i.up.contains ·) (i.dg.contains ·) i.img' i.name ⟨o.parts, o.conv⟩)
end C15

/-! ### C19 parameters -/
namespace C19
deriving instance FromJson, ToJson for ClOp
deriving instance FromJson, ToJson for In
deriving instance FromJson, ToJson for Obs
def engine : Engine := mkEngine (I := In) (O := Obs) model dom judge
end C19

/-! ### C20 comment wrapping -/
namespace C20
deriving instance FromJson, ToJson for R
deriving instance FromJson, ToJson for Line
structure In where
  wrap : Int
  runes : List R
deriving FromJson, ToJson
def engine : Engine :=
  mkEngine (I := In) (O := List Line) (fun i => model i.wrap i.runes) (fun _ => true) (fun i o => judge i.wrap i.runes o)
end C20

/-! ### C18 build context -/
namespace C18
structure OpJ where
  k : String
  a : Bytes
deriving FromJson, ToJson
structure In where
  output : Bytes
  params : Nat
  ops : List OpJ
  via : String      -- "ctx" or "module" (harness only: the same model serves both)
deriving FromJson, ToJson
deriving instance FromJson, ToJson for Snap
def OpJ.toOp (o : OpJ) : Op :=
  match o.k with
  | "push" => .push o.a
  | "pushDir" => .pushDir o.a
  | "pop" => .pop
  | _ => .popDir
/-- The observation is taken twice: after each operation, and again from every context value at the
    end of the history (contexts are immutable values: what one answers must not change by what was
    derived from it or from its relatives later).  Model and Φ apply to each pass. -/
def engine : Engine :=
  mkEngine (I := In) (O := List Snap)
    (fun i => let s := run (mkRoot i.output i.params) (i.ops.map OpJ.toOp); s ++ s)
    (fun i => (run (mkRoot i.output i.params) (i.ops.map OpJ.toOp)).length == i.ops.length)   -- never pops the root
    (fun i o =>
      let n := o.length / 2
      if o.length % 2 != 0 then some "harness: the two passes differ in length" else
      match judge i.output i.params (i.ops.map OpJ.toOp) (o.take n) with
      | some c => some c
      | none =>
        match judge i.output i.params (i.ops.map OpJ.toOp) (o.drop n) with
        | some c => some ("asked again at the end of the history: " ++ c)
        | none => none)
end C18

/-! ### C10 / C12 persister -/
namespace Persist
structure ArtJ where
  k : String
  name : Bytes
  ip : Bytes
  text : Bytes
  fails : Bool
  ow : Bool
  tpl : Bool
  perms : Nat
deriving FromJson, ToJson
def ArtJ.toArt (a : ArtJ) : Art :=
  match a.k with
  | "file" => .file a.name ⟨a.text, a.fails⟩ a.ow a.tpl
  | "app" => .app a.name ⟨a.text, a.fails⟩ a.tpl
  | "inj" => .inj a.name a.ip ⟨a.text, a.fails⟩ a.tpl
  | "custom" => .custom a.name ⟨a.text, a.fails⟩ a.perms a.ow a.tpl
  | "err" => .err a.text
  | _ => .unknown
deriving instance FromJson, ToJson for Proc
deriving instance FromJson, ToJson for FileEnt
deriving instance FromJson, ToJson for RF
deriving instance FromJson, ToJson for Probe
deriving instance FromJson, ToJson for Obs
structure InJ where
  arts : List ArtJ
  procs : List Proc
  features : Option Nat
  fs0 : List FileEnt
  dirs0 : List Bytes
  probes : List Bytes
deriving FromJson, ToJson
def InJ.toIn (i : InJ) : In := ⟨i.arts.map ArtJ.toArt, i.procs, i.features, i.fs0, i.dirs0, i.probes⟩
def engineC10 : Engine :=
  mkEngineP (I := InJ) (O := Obs) (fun i => model i.toIn) (fun _ o => projC10 o) (fun _ => true) (fun i o => judgeC10 i.toIn o)
def engineC12 : Engine :=
  mkEngineP (I := InJ) (O := Obs) (fun i => model i.toIn) (fun _ o => projC12 o) (fun i => domC12 i.toIn) (fun i o => judgeC12 i.toIn o)
end Persist

/-! ### C13 generator workflow -/
namespace C13
structure ModJ where
  name : Bytes
  arts : List Persist.ArtJ
deriving FromJson, ToJson
structure In where
  files : List (Bytes × Bytes)
  targets : List Bytes
  param : Bytes
  mutators : List (Bytes × Bytes)
  mods : List ModJ
  procs : List Persist.Proc
  features : Option Nat
  ops : List String
  bidi : Bool
deriving FromJson, ToJson
structure EvJ where
  t : String
  i : Nat
  name : Bytes
  params : Bytes
  out : Bytes
  targets : List Bytes
  pkgs : List Bytes
  files : List Persist.RF
  error : Option Bytes
  features : Option Nat
  bidi : Bool
deriving FromJson, ToJson, BEq
def EvJ.ofEv : Ev → EvJ
  | .read => ⟨"read", 0, [], [], [], [], [], [], none, none, false⟩
  | .init i n p o => ⟨"init", i, n, p, o, [], [], [], none, none, false⟩
  | .exec i t p b => ⟨"exec", i, [], [], [], t, p, [], none, none, b⟩
  | .write f e ft => ⟨"write", 0, [], [], [], [], [], f, e, ft, false⟩
  | .astRet => ⟨"ast", 0, [], [], [], [], [], [], none, none, false⟩
  | .died => ⟨"died", 0, [], [], [], [], [], [], none, none, false⟩
def EvJ.toEv (e : EvJ) : Ev :=
  match e.t with
  | "read" => .read
  | "init" => .init e.i e.name e.params e.out
  | "exec" => .exec e.i e.targets e.pkgs e.bidi
  | "write" => .write e.files e.error e.features
  | "ast" => .astRet
  | _ => .died
def In.cfg (i : In) : Cfg :=
  ⟨i.files, i.targets, i.param, i.mutators, i.mods.map (fun m => ⟨m.name, m.arts.map Persist.ArtJ.toArt⟩), i.procs, i.features, i.bidi⟩
def In.opsL (i : In) : List Op := i.ops.map fun s => if s == "ast" then .ast else .render
def engine : Engine :=
  mkEngine (I := In) (O := List EvJ)
    (fun i => (trace i.cfg St.start i.opsL).map EvJ.ofEv)
    (fun i => dom i.cfg)
    (fun i o => judge i.cfg i.opsL (o.map EvJ.toEv))
end C13

/-! ### C14 fail-stop -/
namespace C14
structure In where
  input : String
  arts : List Persist.ArtJ
  procs : List Persist.Proc
  fs0 : List Persist.FileEnt
  dirs0 : List Bytes
  fsIdx : Option Nat
  fsOp : String
  out : String
deriving FromJson, ToJson
deriving instance FromJson, ToJson for Outcome
def In.plan (i : In) : Plan :=
  { input := match i.input with | "readError" => .readError | "garbage" => .garbage | "partial" => .garbage | "noTargets" => .noTargets | _ => .none,
    arts := i.arts.map Persist.ArtJ.toArt, procs := i.procs,
    fs0 := ⟨i.fs0.map (fun e => { e with path := Persist.norm e.path }), i.dirs0.map Persist.norm⟩,
    fsFault := i.fsIdx.map fun k => (k, match i.fsOp with
      | "mkdir" => FsOp.mkdir | "stat" => .stat | "open" => .open_ | "write" => .write | "close" => .close | _ => .short),
    out := match i.out with | "error" => .error | "errorfull" => .error | "short" => .short | _ => .none }
def engine : Engine :=
  mkEngine (I := In) (O := Outcome) (fun i => run i.plan) (fun _ => true) (fun i o => judge i.plan o)
end C14

/-! ### AST engines -/
namespace AST
def engineC01 : Engine :=
  mkEngine (I := World) (O := NavObs) navModel validB judgeNav
structure WorldP where
  w : World
  probes : List String
instance : FromJson WorldP where
  fromJson? j := do
    let w : World ← fromJson? j
    let ps : List String := ((j.getObjValAs? (List String) "probes").toOption).getD []
    pure ⟨w, ps⟩
def engineC02 : Engine :=
  mkEngine (I := WorldP) (O := C02Obs) (fun i => c02Model i.w i.probes) (fun i => validB i.w) (fun i o => judgeC02 i.w i.probes o)
def engineC03 : Engine :=
  mkEngine (I := World) (O := C03Obs) c03Model validB judgeC03
def engineC04 : Engine :=
  mkEngine (I := World) (O := C04Obs) c04Model validB judgeC04
def engineC08 : Engine :=
  mkEngine (I := World) (O := C08Obs) c08Model domC08 judgeC08
def engineC09 : Engine :=
  mkEngine (I := World) (O := C09Obs) c09Model domC09 judgeC09
structure WorldQ where
  w : World
  qs : List (Ref × QKind)
instance : FromJson WorldQ where
  fromJson? j := do
    let w : World ← fromJson? j
    let qs : List (Ref × Nat) ← j.getObjValAs? (List (Ref × Nat)) "queries"
    pure ⟨w, qs.map fun (r, k) => (r, match k with | 0 => QKind.dependencies | 1 => .dependents | _ => .enumDependents)⟩
def engineC05 : Engine :=
  mkEngine (I := WorldQ) (O := C05Obs) (fun i => c05Model i.w i.qs) (fun i => i.w.bidi && validB i.w) (fun i o => judgeC05 i.w i.qs o)
structure WorldO where
  w : World
  ops : List (Ref × String)
instance : FromJson WorldO where
  fromJson? j := do
    let w : World ← fromJson? j
    let ops : List (Ref × String) ← j.getObjValAs? (List (Ref × String)) "ops"
    pure ⟨w, ops⟩
def engineC06 : Engine :=
  mkEngine (I := WorldO) (O := C06Obs) (fun i => c06Model i.w i.ops) (fun i => i.w.bidi) (fun i o => judgeC06 i.w i.ops o)
def engineC16 : Engine :=
  mkEngine (I := World) (O := GoNames.C16Obs) GoNames.c16Model (fun _ => true) GoNames.judgeC16
structure WorldG where
  w : World
  srcRel : Bool
instance : FromJson WorldG where
  fromJson? j := do
    let w : World ← fromJson? j
    let p : String := ((j.getObjValAs? String "param").toOption).getD ""
    pure ⟨w, p == "paths=source_relative"⟩
def engineC17 : Engine :=
  mkEngine (I := WorldG) (O := GoTypes.C17Obs) (fun i => GoTypes.c17Model i.w i.srcRel) (fun i => GoTypes.domC17 i.w)
    (fun i o => GoTypes.judgeC17 i.w i.srcRel o)
structure WalkJ where
  start : Ref
  mode : String                       -- "rec", "pass" (PassThroughVisitor) or "nil" (NilVisitor)
  policy : List (Ref × Nat × Nat)     -- node, action (0 same, 1 replace, 2 prune, 3 (nil, err), 4 (v, err)), replacement visitor
deriving FromJson, ToJson
def WalkJ.pol (x : WalkJ) : Policy :=
  x.policy.map fun (r, a, k) => (r, match a with | 1 => Act.replace k | 2 => .prune | 3 => .failNil | 4 => .failKeep | _ => .same)
structure WorldW where
  w : World
  walks : List WalkJ
instance : FromJson WorldW where
  fromJson? j := do
    let w : World ← fromJson? j
    let ws : List WalkJ ← j.getObjValAs? (List WalkJ) "walks"
    pure ⟨w, ws⟩
def walkOne (w : World) (x : WalkJ) : WalkObs :=
  if x.mode == "nil" then ⟨[], noRef⟩ else walkModel x.pol w x.start (x.mode == "pass")
def engineC07 : Engine :=
  mkEngine (I := WorldW) (O := List WalkObs) (fun i => i.walks.map (walkOne i.w)) (fun _ => true)
    (fun i o =>
      if o.length != i.walks.length then some "harness: wrong number of walks" else
      (i.walks.zip o).findSome? fun (x, ob) =>
        if x.mode == "nil" then (if ob == ⟨[], noRef⟩ then none else some "NilVisitor walk returned an error")
        else judgeWalk x.pol i.w x.start (x.mode == "pass") ob)
end AST

def engines : List (String × Engine) :=
  [ ("c11", C11.engine), ("fp", FP.engine), ("c15", C15.engine), ("c19", C19.engine), ("c20", C20.engine), ("c18", C18.engine), ("c10", Persist.engineC10), ("c12", Persist.engineC12), ("c11p", Persist.engineC10), ("c13", C13.engine), ("c14", C14.engine), ("c01", AST.engineC01), ("c02", AST.engineC02), ("c03", AST.engineC03), ("c04", AST.engineC04), ("c08", AST.engineC08), ("c09", AST.engineC09), ("c07", AST.engineC07), ("c05", AST.engineC05), ("c06", AST.engineC06), ("c16", AST.engineC16), ("c17", AST.engineC17) ]

end Pgs
