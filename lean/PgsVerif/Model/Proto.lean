import Lean.Data.Json
/-
  Line protocol shared by all engines.  One request per line:
    {"e": "<engine>", "in": <input>, "obs": <implementation observation>}
  One reply per line:
    {"agree": b, "dom": b, "ok": b, "clause": s, "model": <model observation>}   (model only when !agree)
  `agree`  – model observation = implementation observation (whole projected observation)
  `dom`    – the input satisfies the hypotheses of the property theorems
  `ok`     – Φ_P (the property as a checker) holds of the *implementation's* observation
-/
namespace Pgs
open Lean

structure Verdict where
  agree : Bool
  dom : Bool
  ok : Bool
  clause : String := ""
  model : Json := Json.null

def Verdict.toJson (v : Verdict) : Json :=
  if v.agree then
    Json.mkObj [("agree", true), ("dom", v.dom), ("ok", v.ok), ("clause", v.clause)]
  else
    Json.mkObj [("agree", false), ("dom", v.dom), ("ok", v.ok), ("clause", v.clause), ("model", v.model)]

/-- An engine: decode input and observation, run the model, judge the observation. -/
abbrev Engine := Json → Json → Except String Verdict

def mkEngine {I O : Type} [FromJson I] [FromJson O] [ToJson O] [BEq O]
    (model : I → O) (dom : I → Bool) (judge : I → O → Option String) : Engine :=
  fun ji jo => do
    let i ← fromJson? ji
    let o ← fromJson? jo
    let m := model i
    let j := judge i o
    pure { agree := m == o, dom := dom i, ok := j.isNone, clause := j.getD "", model := toJson m }

/-- as `mkEngine`, but model and implementation are compared on a projection of the observation:
    exactly what the property speaks about (the Φ checker still sees the whole observation) -/
def mkEngineP {I O P : Type} [FromJson I] [FromJson O] [ToJson O] [BEq P]
    (model : I → O) (proj : I → O → P) (dom : I → Bool) (judge : I → O → Option String) : Engine :=
  fun ji jo => do
    let i ← fromJson? ji
    let o ← fromJson? jo
    let m := model i
    let j := judge i o
    pure { agree := proj i m == proj i o, dom := dom i, ok := j.isNone, clause := j.getD "", model := toJson m }

end Pgs
