import PgsVerif.Model.Closure
import PgsVerif.Model.Walk
/-
  C06 — read accessors are pure.  Operations: any read accessor of any entity, or a walk; the
  model's only state are the lazily filled caches (file dependents, message / enum closures), so
  every operation's result is a function of the request alone.
-/
namespace Pgs.AST
open Lean

def fileRefs (l : List Nat) : List Ref := l.map fun i => ⟨i, []⟩

/-- `Descriptor()` read by content is (still) the request's declaration: the harness answers
    `[⟨0,[1]⟩]` when `proto.Equal` to a pristine copy holds, `[⟨0,[0]⟩]` otherwise -/
def descIntact : List Ref := [⟨0, [1]⟩]

/-- a walk whose visitor returns an error at its `⌈n/2⌉`-th visit (`n` = length of the full walk):
    it has seen exactly the first half of the full walk -/
def halfWalk (w : World) (r : Ref) : List Ref :=
  let full := (walkModel [] w r false).trace.map (·.1)
  full.take ((full.length + 1) / 2)

/-- the result of accessor `acc` on entity `r` of a freshly built (bidirectional) AST:
    declaration-ordered listings as sequences, derived relations sorted -/
def freshResultQ (q : Ref → QKind → List Ref) (fdpt : Nat → List Nat)
    (w : World) (g : Graph) (r : Ref) (acc : String) : List Ref :=
  let n := w.files.length
  match r.path, w.files[r.file]? with
  | [], some f =>
    (match acc with
     | "imports" => fileRefs (g.depsOf r.file)
     | "transitive" => fileRefs (sortNat (transImports g n r.file))
     | "dependents" => fileRefs (fdpt r.file)
     | "unused" => fileRefs (sortNat (unusedImports w g r.file f))
     | "messages" => (f.msgs.indices false 0).map fun j => ⟨r.file, [4, j]⟩
     | "allMessages" => sortRefs (allMsgRefs r.file [] 4 0 f.msgs)
     | "enums" => childRefs r.file [] 5 f.enums.length
     | "allEnums" => sortRefs (childRefs r.file [] 5 f.enums.length ++ allEnumRefs r.file [] 4 0 f.msgs)
     | "services" => childRefs r.file [] 6 f.services.length
     | "exts" => childRefs r.file [] 7 f.exts.length
     | "walk" => (walkModel [] w r false).trace.map (·.1)
     | "walkfail" => halfWalk w r
     | "syntax" => [⟨0, [if f.syn == "proto3" then 3 else if f.syn == "" || f.syn == "proto2" then 2 else 0]⟩]
     | "desc" => descIntact
     | "sci" => descIntact
     | "syntaxSci" => descIntact
     | "packageSci" => descIntact
     | "optA" => descIntact
     | "optB" => descIntact
     | _ => [])
  | [5, i], some f =>
    (match f.enums[i]?, acc with
     | some e, "values" => childRefs r.file r.path 2 e.values.length
     | some _, "desc" => descIntact
     | some _, "optA" => descIntact
     | some _, "optB" => descIntact
     | some _, "edpts" => sortRefs (q r .enumDependents)
     | some _, "walk" => (walkModel [] w r false).trace.map (·.1)
     | _, _ => [])
  | [6, i], some f =>
    (match f.services[i]?, acc with
     | some s, "methods" => childRefs r.file r.path 2 s.methods.length
     | some s, "imports" => fileRefs (sortNat ((List.range s.methods.length).map fun mi => methodImports g ⟨r.file, [6, i, 2, mi]⟩).flatten)
     | some _, "walk" => (walkModel [] w r false).trace.map (·.1)
     | some _, "walkfail" => halfWalk w r
     | some _, "desc" => descIntact
     | some _, "optA" => descIntact
     | some _, "optB" => descIntact
     | _, _ => [])
  | _, some f =>
    match w.msgAt r with
    | some (h, nested) =>
      let members (o : Nat) := oneofMembers r.file r.path h.fields o
      (match acc with
       | "messages" => (nested.indices false 0).map fun j => ⟨r.file, r.path ++ [3, j]⟩
       | "mapEntries" => (nested.indices true 0).map fun j => ⟨r.file, r.path ++ [3, j]⟩
       | "fields" => childRefs r.file r.path 2 h.fields.length
       | "oneofs" => childRefs r.file r.path 8 h.oneofs.length
       | "enums" => childRefs r.file r.path 4 h.enums.length
       | "exts" => childRefs r.file r.path 6 h.exts.length
       | "allMessages" => sortRefs (allMsgRefs r.file r.path 3 0 nested)
       | "allEnums" => sortRefs (childRefs r.file r.path 4 h.enums.length ++ allEnumRefs r.file r.path 3 0 nested)
       | "nonOneof" => (idx h.fields).filterMap fun (i, fd) => if fd.oneofIndex.isNone then some ⟨r.file, r.path ++ [2, i]⟩ else none
       | "oneofFields" => sortRefs ((List.range h.oneofs.length).map members).flatten      -- derived relations: as sets
       | "synthFields" => sortRefs (((List.range h.oneofs.length).filter (pgsSynthetic f h)).map members).flatten
       | "realOneofs" => ((List.range h.oneofs.length).filter (fun o => !pgsSynthetic f h o)).map fun o => ⟨r.file, r.path ++ [8, o]⟩
       | "imports" => fileRefs (sortNat ((msgFieldRefs r h).map (fieldImports g)).flatten)
       | "deps" => sortRefs (q r .dependencies)
       | "dpts" => sortRefs (q r .dependents)
       | "walk" => if h.mapEntry then [] else (walkModel [] w r false).trace.map (·.1)
       | "walkfail" => if h.mapEntry then [] else halfWalk w r
       | "desc" => descIntact
       | "optA" => descIntact      -- Extension(): a custom option is reported exactly when the request carries it
       | "optB" => descIntact
       | _ => [])
    | none =>
      -- nested enum
      match r.path.reverse with
      | i :: 4 :: rp =>
        (match w.msgAt ⟨r.file, rp.reverse⟩ with
         | some (h, _) => (match h.enums[i]?, acc with
           | some e, "values" => childRefs r.file r.path 2 e.values.length
           | some _, "edpts" => sortRefs (q r .enumDependents)
           | some _, "desc" => descIntact
           | some _, "optA" => descIntact
           | some _, "optB" => descIntact
           | _, _ => [])
         | none => [])
      | _ => []
  | _, none => []

/-- the two memoised relations, answered by an AST whose caches are still empty -/
def freshQ (w : World) (g : Graph) (r : Ref) (k : QKind) : List Ref :=
  (query (usesList w g) (enumUses w g) Caches.empty r k).2
def freshFileDependents (w : World) (g : Graph) (fi : Nat) : List Nat :=
  sortNat (dependentsOf g w.files.length w.files.length fi)

/-- the result of accessor `acc` on entity `r` of a freshly built AST (first call) -/
def freshResult (w : World) (g : Graph) (r : Ref) (acc : String) : List Ref :=
  freshResultQ (freshQ w g) (freshFileDependents w g) w g r acc

/-! ### histories: the same accessors on an AST whose lazily filled caches are in any state that
    earlier calls can have left -/
structure HState where
  mc : Caches                          -- message / enum closures (message.go, enum.go)
  fc : List (Nat × List Nat)           -- file.dependentsCache, per file
deriving Repr

def HState.fresh : HState := ⟨Caches.empty, []⟩

def kindOf : String → Option QKind
  | "deps" => some .dependencies
  | "dpts" => some .dependents
  | "edpts" => some .enumDependents
  | _ => none

def HState.fileDependents (w : World) (g : Graph) (st : HState) (fi : Nat) : List Nat :=
  match st.fc.find? (·.1 == fi) with
  | some (_, l) => l
  | none => freshFileDependents w g fi

/-- one accessor call in state `st`: cached answers are read, missing ones computed and stored -/
def stepH (w : World) (g : Graph) (st : HState) (op : Ref × String) : HState × List Ref :=
  let edges := usesList w g
  let ee := enumUses w g
  let res := freshResultQ (fun r k => (query edges ee st.mc r k).2) (st.fileDependents w g) w g op.1 op.2
  let mc' := match kindOf op.2 with
    | some k => (query edges ee st.mc op.1 k).1
    | none => st.mc
  let fc' := if op.2 == "dependents" && (st.fc.find? (·.1 == op.1.file)).isNone
    then (op.1.file, freshFileDependents w g op.1.file) :: st.fc else st.fc
  (⟨mc', fc'⟩, res)

def runHistory (w : World) (g : Graph) : HState → List (Ref × String) → List (List Ref)
  | _, [] => []
  | st, op :: ops => let (st', r) := stepH w g st op; r :: runHistory w g st' ops

structure OpRes where
  res : List Ref
  same : Bool       -- equal to the first-call observation of a second AST built from the same bytes
deriving Repr, DecidableEq, FromJson, ToJson

structure C06Obs where
  failed : Bool
  ops : List OpRes
deriving Repr, DecidableEq, FromJson, ToJson

def c06Model (w : World) (ops : List (Ref × String)) : C06Obs :=
  match hydrate w with
  | .error _ => ⟨true, []⟩
  | .ok g => ⟨false, (runHistory w g HState.fresh ops).map fun res => ⟨res, true⟩⟩   -- the stateful model, call by call

def judgeC06 (w : World) (ops : List (Ref × String)) (o : C06Obs) : Option String :=
  if o.failed then some "building failed" else
  if o.ops.length != ops.length then some "harness: wrong number of results" else
  match (ops.zip o.ops).find? (fun (_, r) => !r.same) with
  | some ((r, acc), _) => some s!"{acc} of {repr r.path}: result differs from the first call on a freshly built AST of the same request"
  | none =>
    let m := c06Model w ops
    match ((ops.zip o.ops).zip m.ops).find? (fun ((_, a), b) => a.res != b.res) with
    | some (((r, acc), _), _) => some s!"{acc} of {repr r.path}: result is not what the request declares"
    | none => none

end Pgs.AST
