import PgsVerif.Model.Bytes
/-
  Unix `path/filepath` at segment level (Go 1.x, GOOS=linux): IsAbs, Clean, Join, Dir, Base, Ext.
  Validated against the real functions by the C11 correspondence run (see harness engine `fp`).
-/
namespace Pgs.FilePath
open Pgs

abbrev Seg := Bytes
def dotSeg : Seg := [dot]
def dotdot : Seg := [dot, dot]

def isAbs (p : Bytes) : Bool := p.head? == some slash

/-- One step of Clean's element loop.  `st` is the output stack, top first.  `..` is only ever
    pushed onto a stack consisting of `..` entries (relative paths), so "top is `..`" means
    "nothing to backtrack over". -/
def cleanStep (rooted : Bool) (st : List Seg) (s : Seg) : List Seg :=
  if s = [] ∨ s = dotSeg then st
  else if s = dotdot then
    match st with
    | [] => if rooted then [] else [dotdot]
    | t :: rest => if t = dotdot then dotdot :: t :: rest else rest
  else s :: st

def cleanSegs (rooted : Bool) (segs : List Seg) : List Seg :=
  (segs.foldl (cleanStep rooted) []).reverse

/-- `filepath.Clean` -/
def clean (p : Bytes) : Bytes :=
  if p = [] then dotSeg
  else
    let rooted := isAbs p
    let out := cleanSegs rooted (splitOn slash p)
    if rooted then slash :: joinWith [slash] out
    else if out = [] then dotSeg else joinWith [slash] out

/-- `filepath.Join`: empty elements are ignored, the rest joined by '/' and cleaned; "" if none. -/
def join (elems : List Bytes) : Bytes :=
  let ne := elems.filter (· ≠ [])
  if ne = [] then [] else clean (joinWith [slash] ne)

def dropTrailingSlashes (p : Bytes) : Bytes := (p.reverse.dropWhile (· == slash)).reverse

/-- `filepath.Base` -/
def base (p : Bytes) : Bytes :=
  if p = [] then dotSeg
  else
    let q := dropTrailingSlashes p
    if q = [] then [slash]
    else (splitOn slash q).getLast?.getD []

/-- `filepath.Dir` -/
def dir (p : Bytes) : Bytes :=
  -- everything up to and including the last slash, cleaned
  let r := p.reverse.dropWhile (· != slash)
  clean r.reverse

/-- `filepath.Ext`: suffix beginning at the final dot of the last slash-separated element. -/
def ext (p : Bytes) : Bytes :=
  let last := (splitOn slash p).getLast?.getD []
  let r := last.reverse
  if r.contains dot then dot :: (r.takeWhile (· != dot)).reverse else []

end Pgs.FilePath
