def hello := "world"
