import PgsVerif.Model.GoTypes
import PgsVerif.Generated.Code_context_ImportPath
import PgsVerif.Generated.Code_context_OutputPath
import PgsVerif.Generated.Code_context_Type
import PgsVerif.Generated.Code_context_elType
import PgsVerif.Generated.Code_context_importableTypeName
import PgsVerif.Generated.Code_filePath_SetExt
import PgsVerif.Generated.Code_typeName_IsPointer
import PgsVerif.Generated.Code_typeName_Pointer
/-!
# Tie (translated code): lang/go `Type`, `elType`, `importableTypeName`, `TypeName.Pointer / IsPointer`

The decision which Go type expression a field gets (map / slice / pointer / value, qualified or not)
is translated from the current source of lang/go/type_name.go.  The model `pgsTypeB` the C17 theorems
are about is that translation read on the field's resolved type.
-/
namespace Pgs.GoTypes
open Pgs Pgs.AST Pgs.GoNames Pgs.GenCode

theorem tie_IsPointer (n : Bytes) : PgsGo.isPointer n = typeName_IsPointer n := by
  unfold typeName_IsPointer hasPrefix
  match n with
  | [] => rfl
  | [a] =>
    by_cases h1 : a = 42
    · subst h1; rfl
    · by_cases h2 : a = 91
      · subst h2; rfl
      · by_cases h3 : a = 109
        · subst h3; rfl
        · (simp [PgsGo.isPointer, isPrefixOfB, h1, h2, h3] <;> omega)
  | a :: b :: rest =>
    by_cases h1 : a = 42
    · subst h1; simp [PgsGo.isPointer, isPrefixOfB]
    · by_cases h2 : a = 91
      · subst h2; simp [PgsGo.isPointer, isPrefixOfB]
      · by_cases h3 : a = 109
        · subst h3
          match b, rest with
          | b, [] =>
            by_cases hb : b = 97 <;> (simp [PgsGo.isPointer, isPrefixOfB, hb] <;> omega)
          | b, [c] =>
            by_cases hb : b = 97 <;> by_cases hc : c = 112 <;> (simp [PgsGo.isPointer, isPrefixOfB, hb, hc] <;> omega)
          | b, c :: d :: rest' =>
            by_cases hb : b = 97 <;> by_cases hc : c = 112 <;> by_cases hd : d = 91 <;>
              (simp [PgsGo.isPointer, isPrefixOfB, hb, hc, hd] <;> omega)
        · (simp [PgsGo.isPointer, isPrefixOfB, h1, h2, h3] <;> omega)

theorem tie_Pointer (n : Bytes) : PgsGo.pointer n = typeName_Pointer n := by
  unfold PgsGo.pointer typeName_Pointer
  rw [tie_IsPointer]
  rfl

/-- qualification of a message / enum name: by equality of *import paths*, with the package name of
    the file that defines it -/
theorem tie_importableTypeName (w : World) (own : Nat) (target : Ref) :
    pgsQualified w own target =
      context_importableTypeName (typeNameAt pgsSide w target)
        (PgsGo.importPath (bytesOfString (fileD w target.file).name) (bytesOfString (fileD w target.file).goPackage))
        (PgsGo.importPath (bytesOfString (fileD w own).name) (bytesOfString (fileD w own).goPackage))
        (PgsGo.packageName (bytesOfString (fileD w target.file).name) (bytesOfString (fileD w target.file).goPackage)) := by
  unfold pgsQualified context_importableTypeName
  simp only [id, sprintf, sprintfAux]
  split <;> simp [dot]

/-- what `elType` reads from a map value / list element -/
def elemEnv (w : World) (own : Nat) : Elem → ElemEnv
  | .enum _ x => ⟨true, false, pgsQualified w own x, [], []⟩
  | .embed _ m => ⟨false, true, [], pgsQualified w own m, []⟩
  | .scalar k => ⟨false, false, [], [], PgsGo.scalarType k⟩

/-- what `Type` reads from a field's resolved type -/
def typeEnv (w : World) (own : Nat) (presence : Bool) : FType → TypeEnv
  | .map k e => ⟨true, false, false, false, PgsGo.scalarType k.t, context_elType (elemEnv w own e), [], [], [], presence⟩
  | .repeated e => ⟨false, true, false, false, [], context_elType (elemEnv w own e), [], [], [], presence⟩
  | .embed m => ⟨false, false, true, false, [], [], pgsQualified w own m, [], [], presence⟩
  | .enum x => ⟨false, false, false, true, [], [], [], pgsQualified w own x, [], presence⟩
  | .scalar k => ⟨false, false, false, false, [], [], [], [], PgsGo.scalarType k, presence⟩

/-- **`Type(f)`**: the model is the translated decision, read on the field's resolved type -/
theorem tie_Type (w : World) (g : Graph) (r : Ref) (fd : FieldD) (t : FType) (ht : g.ftype? r = some t) :
    pgsTypeB w g r fd = context_Type (typeEnv w r.file (pgsPresence (fileD w r.file) fd) t) := by
  unfold pgsTypeB context_Type
  simp only [ht, tie_Pointer]
  cases t with
  | map k e => cases e <;> simp [typeEnv, elemEnv, context_elType, sprintf, sprintfAux, mapOpen, closeBr, tie_Pointer]
  | repeated e => cases e <;> simp [typeEnv, elemEnv, context_elType, sprintf, sprintfAux, sliceOf, tie_Pointer]
  | embed m => simp [typeEnv]
  | enum x => simp only [typeEnv]; by_cases hp : pgsPresence (fileD w r.file) fd = true <;> simp [hp]
  | scalar k => simp only [typeEnv]; by_cases hp : pgsPresence (fileD w r.file) fd = true <;> simp [hp]

/-! ### output path and import path (lang/go/package.go over pgs.FilePath of name.go) -/

theorem tie_setExt (input : Bytes) : PgsGo.setExt input = filePath_SetExt input PgsGo.pbgo := rfl

/-- **`OutputPath`**: the input path with the extension replaced by `.pb.go`; in the default mode its
    base name pushed onto the import path of the file's `go_package` -/
theorem tie_OutputPath (srcRel : Bool) (input opt : Bytes) :
    PgsGo.outputPath srcRel input opt = context_OutputPath input srcRel (PgsGo.optionPackage input opt) := by
  cases srcRel <;> rfl

/-- **`ImportPath`** (no `import_prefix` parameter) -/
theorem tie_ImportPath (input opt : Bytes) :
    PgsGo.importPath input opt = context_ImportPath [] (PgsGo.optionPackage input opt) := rfl

end Pgs.GoTypes
