import PgsVerif.Model.Persist
import PgsVerif.Props.TieCodeC11
import PgsVerif.Generated.Code_generatorFile_ProtoFile
import PgsVerif.Generated.Code_generatorTemplateFile_ProtoFile
import PgsVerif.Generated.Code_generatorAppend_ProtoFile
import PgsVerif.Generated.Code_generatorTemplateAppend_ProtoFile
import PgsVerif.Generated.Code_generatorInjection_ProtoFile
import PgsVerif.Generated.Code_generatorTemplateInjection_ProtoFile
/-!
# Tie (translated code): `ProtoFile` of the six generator artifacts

artifact.go's `GeneratorFile / GeneratorTemplateFile / GeneratorAppend / GeneratorTemplateAppend /
GeneratorInjection / GeneratorTemplateInjection . ProtoFile` are translated from the current source
(`Generated/Code.lean`): each checks the name with `cleanGeneratorFileName` *first and returns its
error*, then (template kinds) renders and returns the render error, then builds the response chunk -
named for files and injections, nameless for appends.  `step_protoFile` shows that one iteration of
the model's persist loop is: the translated `ProtoFile`, read in the model's terms; then the
post-processors on its content; then the insertion.  So "all six kinds go through the name check and
persisting fails on its error" (C11 d, C14) and "what a chunk carries" (C10) are the source's.
-/
namespace Pgs.Persist
open Pgs Pgs.GenCode

/-- the error value a failing template hands back (any value other than the two name-check messages) -/
def renderErr : Bytes := [0]

def renderOf (b : Body) (tpl : Bool) : Except Bytes Bytes := if tpl && b.fails then .error renderErr else .ok b.text

def causeOf (e : Bytes) : Cause := if e = renderErr then .render else .badName

/-- a translated `ProtoFile` result in the model's terms -/
def toModel : Except Bytes RespFile → Except Cause RF
  | .error e => .error (causeOf e)
  | .ok f => .ok ⟨f.name, f.insertionPoint, f.content.getD []⟩

/-- the translated `ProtoFile` of the artifact's Go type -/
def protoFileGen : Art → Except Bytes RespFile
  | .file name body _ false => generatorFile_ProtoFile name body.text
  | .file name body _ true => generatorTemplateFile_ProtoFile name (renderOf body true)
  | .app name body false => generatorAppend_ProtoFile name body.text
  | .app name body true => generatorTemplateAppend_ProtoFile name (renderOf body true)
  | .inj name ip body false => generatorInjection_ProtoFile name ip body.text
  | .inj name ip body true => generatorTemplateInjection_ProtoFile name ip (renderOf body true)
  | _ => .error []

theorem cleanErr_ne_renderErr (n e : Bytes) (h : cleanGeneratorFileName n = .error e) : causeOf e = .badName := by
  unfold cleanGeneratorFileName at h
  unfold causeOf renderErr
  split at h
  · injection h with h; subst h; decide
  · simp only at h
    split at h
    · injection h with h; subst h; decide
    · cases h

/-- the model's name check is the translated one -/
theorem cleanOK_gen (n : Bytes) :
    cleanOK n = match cleanGeneratorFileName n with
      | .ok c => .ok c
      | .error _ => .error .badName := by
  unfold cleanOK
  rw [C11.tie_cleanGeneratorFileName]
  cases cleanGeneratorFileName n <;> rfl

/-- what one iteration does with a generator artifact, given the chunk `ProtoFile` built -/
def afterProtoFile (procs : List Proc) (st : State) (a : Art) (rf : RF) : Except Cause State :=
  match postProcess procs a.kind rf.content with
  | .error c => .error c
  | .ok c =>
    match a with
    | .file _ _ ow _ => .ok { st with resp := { st.resp with files := insertFile st.resp.files { rf with content := c } ow } }
    | .inj _ _ _ _ => .ok { st with resp := { st.resp with files := insertFile st.resp.files { rf with content := c } false } }
    | .app name _ _ =>
      -- Persist looks the target up under the cleaned name again (`n, _ := cleanGeneratorFileName(a.FileName)`)
      match cleanOK name with
      | .error e => .error e
      | .ok n => match insertAppend st.resp.files n { rf with content := c } with
        | .error e => .error e
        | .ok fs => .ok { st with resp := { st.resp with files := fs } }
    | _ => .error .unknownArtifact

def isGenerator : Art → Bool
  | .file .. => true | .app .. => true | .inj .. => true | _ => false

/-- **one iteration of the persist loop = translated `ProtoFile`, then post-processing, then insertion** -/
theorem step_protoFile (procs : List Proc) (st : State) (a : Art) (h : isGenerator a = true) :
    step procs st a = match toModel (protoFileGen a) with
      | .error c => .error c
      | .ok rf => afterProtoFile procs st a rf := by
  cases a with
  | file name body ow tpl =>
    cases tpl <;>
      simp only [step, protoFileGen, generatorFile_ProtoFile, generatorTemplateFile_ProtoFile, cleanOK_gen, render, renderOf,
        bind, Except.bind, pure, Except.pure, id] <;>
      cases hc : cleanGeneratorFileName name with
      | error e => simp [toModel, cleanErr_ne_renderErr name e hc]
      | ok n =>
        first
        | (cases hf : body.fails <;> simp [toModel, afterProtoFile, Art.kind, causeOf, hf] <;>
            (cases postProcess procs _ _ <;> rfl))
        | (simp [toModel, afterProtoFile, Art.kind]; cases postProcess procs _ _ <;> rfl)
  | app name body tpl =>
    cases tpl <;>
      simp only [step, protoFileGen, generatorAppend_ProtoFile, generatorTemplateAppend_ProtoFile, cleanOK_gen, render, renderOf,
        bind, Except.bind, pure, Except.pure, id] <;>
      cases hc : cleanGeneratorFileName name with
      | error e => simp [toModel, cleanErr_ne_renderErr name e hc]
      | ok n =>
        first
        | (cases hf : body.fails <;> simp [toModel, afterProtoFile, Art.kind, causeOf, hf, cleanOK_gen, hc] <;>
            (cases postProcess procs _ _ <;> simp <;> (cases insertAppend _ _ _ <;> rfl)))
        | (simp [toModel, afterProtoFile, Art.kind, cleanOK_gen, hc]; cases postProcess procs _ _ <;> simp <;> (cases insertAppend _ _ _ <;> rfl))
  | inj name ip body tpl =>
    cases tpl <;>
      simp only [step, protoFileGen, generatorInjection_ProtoFile, generatorTemplateInjection_ProtoFile, cleanOK_gen, render, renderOf,
        bind, Except.bind, pure, Except.pure, id] <;>
      cases hc : cleanGeneratorFileName name with
      | error e => simp [toModel, cleanErr_ne_renderErr name e hc]
      | ok n =>
        first
        | (cases hf : body.fails <;> simp [toModel, afterProtoFile, Art.kind, causeOf, hf] <;>
            (cases postProcess procs _ _ <;> rfl))
        | (simp [toModel, afterProtoFile, Art.kind]; cases postProcess procs _ _ <;> rfl)
  | custom => simp [isGenerator] at h
  | err => simp [isGenerator] at h
  | unknown => simp [isGenerator] at h

end Pgs.Persist

