import PgsVerif.Model.Persist
import PgsVerif.Props.TieCodeC11
/-!
# Tie (translated code): `ProtoFile` of the six generator artifacts

artifact.go's `GeneratorFile / GeneratorTemplateFile / GeneratorAppend / GeneratorTemplateAppend /
GeneratorInjection / GeneratorTemplateInjection . ProtoFile` are translated from the current source
(`Generated/Code.lean`): each checks the name with `cleanGeneratorFileName` *first and returns its
error*, then (template kinds) renders and returns the render error, then builds the response chunk -
named for files and injections, nameless for appends.  `step_protoFile` shows that one iteration of
the model's persist loop is: the translated `ProtoFile`, read in the model's terms; then the
post-processors on its content; then the insertion.  So "all six kinds go through the name check and
persisting fails on its error" (C11 d, C14) and "what a chunk carries" (C10) are the source's.
-/
namespace Pgs.Persist
open Pgs Pgs.GenCode

/-- the error value a failing template hands back (any value other than the two name-check messages) -/
def renderErr : Bytes := [0]

def renderOf (b : Body) (tpl : Bool) : Except Bytes Bytes := if tpl && b.fails then .error renderErr else .ok b.text

def causeOf (e : Bytes) : Cause := if e = renderErr then .render else .badName

/-- a translated `ProtoFile` result in the model's terms -/
def toModel : Except Bytes RespFile → Except Cause RF
  | .error e => .error (causeOf e)
  | .ok f => .ok ⟨f.name, f.insertionPoint, f.content.getD []⟩

/-- the translated `ProtoFile` of the artifact's Go type -/
def protoFileGen : Art → Except Bytes RespFile
  | .file name body _ false => generatorFile_ProtoFile name body.text
  | .file name body _ true => generatorTemplateFile_ProtoFile name (renderOf body true)
  | .app name body false => generatorAppend_ProtoFile name body.text
  | .app name body true => generatorTemplateAppend_ProtoFile name (renderOf body true)
  | .inj name ip body false => generatorInjection_ProtoFile name ip body.text
  | .inj name ip body true => generatorTemplateInjection_ProtoFile name ip (renderOf body true)
  | _ => .error []

theorem cleanErr_ne_renderErr (n e : Bytes) (h : cleanGeneratorFileName n = .error e) : causeOf e = .badName := by
  unfold cleanGeneratorFileName at h
  unfold causeOf renderErr
  split at h
  · injection h with h; subst h; decide
  · simp only at h
    split at h
    · injection h with h; subst h; decide
    · cases h

/-- the model's name check is the translated one -/
theorem cleanOK_gen (n : Bytes) :
    cleanOK n = match cleanGeneratorFileName n with
      | .ok c => .ok c
      | .error _ => .error .badName := by
  unfold cleanOK
  rw [C11.tie_cleanGeneratorFileName]
  cases cleanGeneratorFileName n <;> rfl

/-- what one iteration does with a generator artifact, given the chunk `ProtoFile` built -/
def afterProtoFile (procs : List Proc) (st : State) (a : Art) (rf : RF) : Except Cause State :=
  match postProcess procs a.kind rf.content with
  | .error c => .error c
  | .ok c =>
    match a with
    | .file _ _ ow _ => .ok { st with resp := { st.resp with files := insertFile st.resp.files { rf with content := c } ow } }
    | .inj _ _ _ _ => .ok { st with resp := { st.resp with files := insertFile st.resp.files { rf with content := c } false } }
    | .app name _ _ =>
      -- Persist looks the target up under the cleaned name again (`n, _ := cleanGeneratorFileName(a.FileName)`)
      match cleanOK name with
      | .error e => .error e
      | .ok n => match insertAppend st.resp.files n { rf with content := c } with
        | .error e => .error e
        | .ok fs => .ok { st with resp := { st.resp with files := fs } }
    | _ => .error .unknownArtifact

def isGenerator : Art → Bool
  | .file .. => true | .app .. => true | .inj .. => true | _ => false

/-- **one iteration of the persist loop = translated `ProtoFile`, then post-processing, then insertion** -/
theorem step_protoFile (procs : List Proc) (st : State) (a : Art) (h : isGenerator a = true) :
    step procs st a = match toModel (protoFileGen a) with
      | .error c => .error c
      | .ok rf => afterProtoFile procs st a rf := by
  cases a with
  | file name body ow tpl =>
    cases tpl <;>
      simp only [step, protoFileGen, generatorFile_ProtoFile, generatorTemplateFile_ProtoFile, cleanOK_gen, render, renderOf,
        bind, Except.bind, pure, Except.pure, id] <;>
      cases hc : cleanGeneratorFileName name with
      | error e => simp [toModel, cleanErr_ne_renderErr name e hc]
      | ok n =>
        first
        | (cases hf : body.fails <;> simp [toModel, afterProtoFile, Art.kind, causeOf, hf] <;>
            (cases postProcess procs _ _ <;> rfl))
        | (simp [toModel, afterProtoFile, Art.kind]; cases postProcess procs _ _ <;> rfl)
  | app name body tpl =>
    cases tpl <;>
      simp only [step, protoFileGen, generatorAppend_ProtoFile, generatorTemplateAppend_ProtoFile, cleanOK_gen, render, renderOf,
        bind, Except.bind, pure, Except.pure, id] <;>
      cases hc : cleanGeneratorFileName name with
      | error e => simp [toModel, cleanErr_ne_renderErr name e hc]
      | ok n =>
        first
        | (cases hf : body.fails <;> simp [toModel, afterProtoFile, Art.kind, causeOf, hf, cleanOK_gen, hc] <;>
            (cases postProcess procs _ _ <;> simp <;> (cases insertAppend _ _ _ <;> rfl)))
        | (simp [toModel, afterProtoFile, Art.kind, cleanOK_gen, hc]; cases postProcess procs _ _ <;> simp <;> (cases insertAppend _ _ _ <;> rfl))
  | inj name ip body tpl =>
    cases tpl <;>
      simp only [step, protoFileGen, generatorInjection_ProtoFile, generatorTemplateInjection_ProtoFile, cleanOK_gen, render, renderOf,
        bind, Except.bind, pure, Except.pure, id] <;>
      cases hc : cleanGeneratorFileName name with
      | error e => simp [toModel, cleanErr_ne_renderErr name e hc]
      | ok n =>
        first
        | (cases hf : body.fails <;> simp [toModel, afterProtoFile, Art.kind, causeOf, hf] <;>
            (cases postProcess procs _ _ <;> rfl))
        | (simp [toModel, afterProtoFile, Art.kind]; cases postProcess procs _ _ <;> rfl)
  | custom => simp [isGenerator] at h
  | err => simp [isGenerator] at h
  | unknown => simp [isGenerator] at h

end Pgs.Persist

/-! ### the list surgery of the persister: `indexOfFile`, `tailOfFile`, `insertFile`, `insertAppend` -/
namespace Pgs.Persist
open Pgs Pgs.GenCode

/-- a chunk of the model's flat response as the message the Go code handles -/
def toResp (f : RF) : RespFile := ⟨f.name, f.ip, some f.content⟩

theorem pred_eq (n : Bytes) (hn : n ≠ []) (f : RF) :
    ((getName (toResp f) == n) && ((toResp f).insertionPoint == none)) = isFileNamed n f := by
  unfold getName toResp isFileNamed
  cases hname : f.name with
  | none =>
    have : ¬ (([] : Bytes) = n) := fun e => hn e.symm
    simp [this, hn]
  | some m => simp

/-- **`indexOfFile`** (for a non-empty name - the only names the persister looks up) -/
theorem tie_indexOfFile (fs : List RF) (n : Bytes) (hn : n ≠ []) :
    persister_indexOfFile (fs.map toResp) n = match indexOfFile fs n with
      | some i => Int.ofNat i
      | none => -1 := by
  unfold persister_indexOfFile indexOfFile
  rw [List.findIdx?_map]
  have hp : ((fun f => ((getName f == n) && (f.insertionPoint == none))) ∘ toResp) = isFileNamed n := by
    funext f; exact pred_eq n hn f
  rw [hp, List.findIdx?_eq_guard_findIdx_lt]
  by_cases h : List.findIdx (isFileNamed n) fs < fs.length
  · simp [Option.guard, h]
  · simp [Option.guard, h]

theorem named_eq (f : RF) : (!(getName (toResp f) != ([] : Bytes))) = !named f := by
  unfold getName toResp named
  cases f.name <;> simp

/-- **`tailOfFile`** -/
theorem tie_tailOfFile (fs : List RF) (n : Bytes) (hn : n ≠ []) :
    persister_tailOfFile (fs.map toResp) n = match tailOfFile fs n with
      | some i => Int.ofNat i
      | none => -1 := by
  unfold persister_tailOfFile tailOfFile
  rw [tie_indexOfFile fs n hn]
  cases hi : indexOfFile fs n with
  | none => simp
  | some i =>
    simp only [Int.ofNat_eq_natCast]
    have h1 : ¬ ((i : Int) = (-1 : Int)) := by omega
    have h2 : Int.toNat ((i : Int) + 1) = i + 1 := by omega
    simp only [beq_iff_eq, h1, if_false, h2, ← List.map_drop, List.takeWhile_map, List.length_map]
    have hq : ((fun x_ => !(getName x_ != ([] : Bytes))) ∘ toResp) = fun f => !named f := by
      funext f; exact named_eq f
    rw [hq]
    rfl

/-- **`insertFile`** -/
theorem tie_insertFile (fs : List RF) (f : RF) (ow : Bool) (hn : f.name.getD [] ≠ []) :
    persister_insertFile (fs.map toResp) (toResp f) ow = (insertFile fs f ow).map toResp := by
  unfold persister_insertFile insertFile
  cases ow with
  | false => simp
  | true =>
    have hg : getName (toResp f) = f.name.getD [] := rfl
    simp only [if_true, hg, tie_indexOfFile fs _ hn]
    cases hi : indexOfFile fs (f.name.getD []) with
    | none => simp
    | some i =>
      simp only [Int.ofNat_eq_natCast]
      have h1 : (i : Int) ≥ 0 := by omega
      have h2 : Int.toNat (i : Int) = i := by omega
      simp [h1, h2, List.map_set]

/-- **`insertAppend`** -/
theorem tie_insertAppend (fs : List RF) (n : Bytes) (f : RF) (hn : n ≠ []) :
    (match persister_insertAppend (fs.map toResp) n (toResp f) with
      | .ok l => some l
      | .error _ => none) = match insertAppend fs n f with
      | .ok l => some (l.map toResp)
      | .error _ => none := by
  unfold persister_insertAppend insertAppend
  rw [tie_tailOfFile fs n hn]
  cases ht : tailOfFile fs n with
  | none => simp
  | some i =>
    simp only [Int.ofNat_eq_natCast]
    have h1 : (i : Int) > (-1 : Int) := by omega
    have h1' : (-1 : Int) < (i : Int) := h1
    have h2 : Int.toNat ((i : Int) + 1) = i + 1 := by omega
    simp [h1', h2, List.map_take, List.map_drop]

end Pgs.Persist
