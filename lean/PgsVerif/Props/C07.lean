import PgsVerif.Model.Walk
namespace Pgs.AST
theorem placeholder_C07 : True := trivial
end Pgs.AST
