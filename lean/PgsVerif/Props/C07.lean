import PgsVerif.Proofs.WalkTree
import PgsVerif.Proofs.PathsNodup
/-!
# C07 — Walk visits every contained entity once, depth-first, honouring prune and error

`Proofs/WalkTree` proves that the transcription of the accept methods IS the generic visitor walk
`walkForest` over the containment forest of the request (map entries left out).  The clauses of the
property are theorems about that walk, for every forest, every visitor policy and every state:

* `C07_visits_in_order`   — what is visited is a subsequence of the containment pre-order (container
                            before contents, subtrees contiguous, siblings in declaration order, no map
                            entry, nothing twice as far as the pre-order has no repetition);
* `C07_visits_everything` — with a visitor that always continues, the trace IS the pre-order, every
                            entity visited with that visitor;
* `C07_prune`, `C07_replace`, `C07_same` — a nil visitor skips exactly the node's contents; the
                            visitor returned is the one the contents are visited with;
* `C07_error_stops`, `C07_error_returned` — after an error nothing more is visited, and the error
                            returned is the one of the last visit.
* `C07_pre_is_fileOrder`  — the pre-order of a file's forest is the declarative order `fileOrder`
                            the Φ checker folds over.
-/
namespace Pgs.AST

theorem act_nil (r : Ref) : Policy.act [] r = .same := rfl

def Failing (pol : Policy) (r : Ref) : Prop := pol.act r = .failNil ∨ pol.act r = .failKeep

theorem visit_trace (pol : Policy) (v : Nat) (r : Ref) (ws : WS) : (visit pol v r ws).1.trace = (r, v) :: ws.trace := by
  unfold visit; cases pol.act r <;> rfl

theorem visit_err (pol : Policy) (v : Nat) (r : Ref) (ws : WS) :
    (Failing pol r ∧ (visit pol v r ws).1.err = some r) ∨ (¬ Failing pol r ∧ (visit pol v r ws).1.err = ws.err) := by
  unfold visit Failing; cases h : pol.act r <;> simp

/-- **C07 (visited ⊆ contained, in pre-order)** -/
theorem C07_visits_in_order (pol : Policy) : ∀ (t : Forest) (v : Nat) (ws : WS),
    ∃ vs : List (Ref × Nat), (walkForest pol v t ws).trace = vs.reverse ++ ws.trace ∧ (vs.map (·.1)).Sublist t.pre := by
  intro t
  induction t with
  | nil => intro v ws; exact ⟨[], rfl, List.Sublist.refl _⟩
  | node r k n ihk ihn =>
    intro v ws
    simp only [walkForest, Forest.pre]
    by_cases he : ws.err.isSome = true
    · simp only [he, if_true]; exact ⟨[], rfl, List.nil_sublist _⟩
    · simp only [he, Bool.false_eq_true, if_false]
      have ht := visit_trace pol v r ws
      cases hv : visit pol v r ws with
      | mk ws1 o =>
        rw [hv] at ht; simp only at ht
        have skip : ∃ vs : List (Ref × Nat), (walkForest pol v n ws1).trace = vs.reverse ++ ws.trace ∧
            (vs.map (·.1)).Sublist (r :: k.pre ++ n.pre) := by
          obtain ⟨vn, h1, h2⟩ := ihn v ws1
          refine ⟨(r, v) :: vn, by rw [h1, ht]; simp, ?_⟩
          simp only [List.map_cons]
          exact List.Sublist.cons₂ _ (List.sublist_append_of_sublist_right h2)
        cases o with
        | none => exact skip
        | some v1 =>
          simp only
          by_cases he1 : ws1.err.isSome = true
          · simp only [he1, if_true]; exact skip
          · simp only [he1, Bool.false_eq_true, if_false]
            obtain ⟨vk, k1, k2⟩ := ihk v1 ws1
            obtain ⟨vn, h1, h2⟩ := ihn v (walkForest pol v1 k ws1)
            refine ⟨(r, v) :: (vk ++ vn), by rw [h1, k1, ht]; simp, ?_⟩
            simp only [List.map_cons, List.map_append, List.cons_append]
            exact List.Sublist.cons₂ _ (List.Sublist.append k2 h2)

/-- **C07 (everything, once, in order)**: a visitor that always continues with itself sees exactly
    the containment pre-order. -/
theorem C07_visits_everything : ∀ (t : Forest) (v : Nat) (tr : List (Ref × Nat)),
    walkForest [] v t ⟨tr, none⟩ = ⟨(t.pre.map (·, v)).reverse ++ tr, none⟩ := by
  intro t
  induction t with
  | nil => intro v tr; rfl
  | node r k n ihk ihn =>
    intro v tr
    simp only [walkForest, visit, act_nil, Forest.pre]
    simp [ihk, ihn]

theorem walk_step (pol : Policy) (v : Nat) (r : Ref) (k n : Forest) (tr : List (Ref × Nat)) :
    walkForest pol v (.node r k n) ⟨tr, none⟩ =
      match pol.act r with
      | .same => walkForest pol v n (walkForest pol v k ⟨(r, v) :: tr, none⟩)
      | .replace u => walkForest pol v n (walkForest pol u k ⟨(r, v) :: tr, none⟩)
      | .prune => walkForest pol v n ⟨(r, v) :: tr, none⟩
      | .failNil => ⟨(r, v) :: tr, some r⟩
      | .failKeep => ⟨(r, v) :: tr, some r⟩ := by
  simp only [walkForest, visit]
  cases pol.act r <;> simp [walkForest_err]

/-- **C07 (prune)**: a nil visitor skips exactly that node's contents — the walk goes on with the
    next sibling, whatever the contents are. -/
theorem C07_prune (pol : Policy) (v : Nat) (r : Ref) (k n : Forest) (tr : List (Ref × Nat)) (h : pol.act r = .prune) :
    walkForest pol v (.node r k n) ⟨tr, none⟩ = walkForest pol v n ⟨(r, v) :: tr, none⟩ := by
  rw [walk_step, h]

/-- **C07 (replacement)**: the visitor returned is the one consulted for the contents, and only there. -/
theorem C07_replace (pol : Policy) (v u : Nat) (r : Ref) (k n : Forest) (tr : List (Ref × Nat)) (h : pol.act r = .replace u) :
    walkForest pol v (.node r k n) ⟨tr, none⟩ = walkForest pol v n (walkForest pol u k ⟨(r, v) :: tr, none⟩) := by
  rw [walk_step, h]

theorem C07_same (pol : Policy) (v : Nat) (r : Ref) (k n : Forest) (tr : List (Ref × Nat)) (h : pol.act r = .same) :
    walkForest pol v (.node r k n) ⟨tr, none⟩ = walkForest pol v n (walkForest pol v k ⟨(r, v) :: tr, none⟩) := by
  rw [walk_step, h]

/-- **C07 (an error stops the walk at once)** -/
theorem C07_error_stops (pol : Policy) (v : Nat) (t : Forest) (ws : WS) (h : ws.err.isSome = true) :
    walkForest pol v t ws = ws := walkForest_err pol v t ws h

theorem C07_fail (pol : Policy) (v : Nat) (r : Ref) (k n : Forest) (tr : List (Ref × Nat)) (h : Failing pol r) :
    walkForest pol v (.node r k n) ⟨tr, none⟩ = ⟨(r, v) :: tr, some r⟩ := by
  rw [walk_step]; rcases h with h | h <;> rw [h]

/-- **C07 (the error returned)**: if a walk started without error ends with one, it is the error of
    the last visit made, and that visit failed. -/
theorem C07_error_returned (pol : Policy) : ∀ (t : Forest) (v : Nat) (ws : WS), ws.err = none →
    ∀ e, (walkForest pol v t ws).err = some e →
      Failing pol e ∧ ∃ v', (walkForest pol v t ws).trace.head? = some (e, v') := by
  intro t
  induction t with
  | nil => intro v ws h0 e he; simp [walkForest, h0] at he
  | node r k n ihk ihn =>
    intro v ws h0 e he
    obtain ⟨tr, er⟩ := ws
    simp only at h0; subst h0
    rw [walk_step] at he ⊢
    cases ha : pol.act r with
    | same =>
      simp only [ha] at he ⊢
      cases hk : (walkForest pol v k ⟨(r, v) :: tr, none⟩).err with
      | none => exact ihn v _ hk e he
      | some e' =>
        have hs : (walkForest pol v k ⟨(r, v) :: tr, none⟩).err.isSome = true := by simp [hk]
        rw [walkForest_err _ _ _ _ hs] at he ⊢
        exact ihk v _ rfl e he
    | replace u =>
      simp only [ha] at he ⊢
      cases hk : (walkForest pol u k ⟨(r, v) :: tr, none⟩).err with
      | none => exact ihn v _ hk e he
      | some e' =>
        have hs : (walkForest pol u k ⟨(r, v) :: tr, none⟩).err.isSome = true := by simp [hk]
        rw [walkForest_err _ _ _ _ hs] at he ⊢
        exact ihk u _ rfl e he
    | prune => simp only [ha] at he ⊢; exact ihn v _ rfl e he
    | failNil => simp only [ha] at he ⊢; cases he; exact ⟨.inl ha, v, rfl⟩
    | failKeep => simp only [ha] at he ⊢; cases he; exact ⟨.inr ha, v, rfl⟩

/-! ### the forest's pre-order is the declarative order of the Φ checker -/
theorem enumsF_pre (fi : Nat) (p : List Nat) (tag : Nat) : ∀ (es : List EnumD) (i : Nat),
    (enumsF fi p tag i es).pre = ((idx es).map fun (q : Nat × EnumD) => enumOrder ⟨fi, p ++ [tag, i + q.1]⟩ q.2.values.length).flatten := by
  intro es
  induction es with
  | nil => intro i; rfl
  | cons e es ih =>
    intro i
    rw [idx_cons]
    simp only [enumsF, Forest.pre, leavesF_pre, ih, List.map_cons, List.flatten_cons, List.map_map, Nat.add_zero, enumOrder,
      List.cons_append]
    congr 3
    apply List.map_congr_left
    intro q _
    simp only [Function.comp]
    have : i + 1 + q.1 = i + (q.1 + 1) := by omega
    rw [this]

theorem servicesF_pre (fi : Nat) : ∀ (ss : List ServiceD) (i : Nat),
    (servicesF fi i ss).pre = ((idx ss).map fun (q : Nat × ServiceD) =>
      (⟨fi, [6, i + q.1]⟩ : Ref) :: childRefs fi [6, i + q.1] 2 q.2.methods.length).flatten := by
  intro ss
  induction ss with
  | nil => intro i; rfl
  | cons s ss ih =>
    intro i
    rw [idx_cons]
    simp only [servicesF, Forest.pre, leavesF_pre, ih, List.map_cons, List.flatten_cons, List.map_map, Nat.add_zero,
      List.cons_append]
    congr 3
    apply List.map_congr_left
    intro q _
    simp only [Function.comp]
    have : i + 1 + q.1 = i + (q.1 + 1) := by omega
    rw [this]

theorem msgsF_pre (fi : Nat) : ∀ (ms : Msgs) (p : List Nat) (tag i : Nat),
    (msgsF fi p tag i ms).pre = msgsOrder fi p tag i ms := by
  intro ms
  induction ms with
  | nil => intro p tag i; rfl
  | cons h nested rest ih1 ih2 =>
    intro p tag i
    simp only [msgsF, msgsOrder]
    by_cases hm : h.mapEntry = true
    · simp [hm, ih2]
    · have hm' : h.mapEntry = false := by simpa using hm
      simp only [hm', Bool.false_eq_true, if_false, Forest.pre, Forest.pre_append, leavesF_pre, ih1, ih2, enumsF_pre,
        Nat.zero_add, List.cons_append, List.append_assoc]

/-- **C07 (the pre-order is the declared containment order)** -/
theorem C07_pre_is_fileOrder (fi : Nat) (f : FileD) : (fileF fi f).pre = fileOrder fi f := by
  simp only [fileF, fileKidsF, Forest.pre, Forest.pre_append, leavesF_pre, enumsF_pre, msgsF_pre, servicesF_pre,
    fileOrder, Nat.zero_add, List.nil_append, List.append_nil, List.cons_append, List.append_assoc]

/-- `Walk(v, file)`: the model of the real entry point is the generic walk over the file's forest;
    through `PassThroughVisitor` the file itself is answered by the wrapper and its contents walked. -/
theorem C07_walk_file (pol : Policy) (w : World) (fi : Nat) (f : FileD) (hf : w.files[fi]? = some f) (hfi : fi < 900000) :
    walkFrom pol w ⟨fi, []⟩ false = walkForest pol 0 (fileF fi f) ⟨[], none⟩ ∧
    walkFrom pol w ⟨fi, []⟩ true = walkForest pol 0 (fileKidsF fi f) ⟨[], none⟩ := by
  have hge : ¬ (fi ≥ 900000) := by omega
  constructor
  · simp only [walkFrom, hge, if_false, hf, Bool.false_eq_true]
    simp only [fileF, walkForest]
    cases hv : visit pol 0 ⟨fi, []⟩ ⟨[], none⟩ with
    | mk ws1 o =>
      cases o with
      | none => simp
      | some v1 => simp [fileKidsF, walkForest_append, acceptEnums_eq, acceptMsgs_eq, acceptServices_eq, acceptLeaves_eq]
  · simp only [walkFrom, hge, if_false, hf, if_true]
    simp [fileKidsF, walkForest_append, acceptEnums_eq, acceptMsgs_eq, acceptServices_eq, acceptLeaves_eq]

/-- **C07 (no entity twice in the containment order)** -/
theorem C07_pre_nodup (fi : Nat) (f : FileD) : (fileF fi f).pre.Nodup := fileF_nodup fi f

/-- **C07 (exactly once)**: whatever the visitor policy, a walk of a file visits no entity twice;
    and an always-continuing visitor visits every contained entity, so each exactly once. -/
theorem C07_exactly_once (pol : Policy) (fi : Nat) (f : FileD) :
    ((walkForest pol 0 (fileF fi f) ⟨[], none⟩).trace.map (·.1)).Nodup := by
  obtain ⟨vs, h1, h2⟩ := C07_visits_in_order pol (fileF fi f) 0 ⟨[], none⟩
  rw [h1]
  simp only [List.append_nil, List.map_reverse]
  have := h2.nodup (fileF_nodup fi f)
  unfold List.Nodup at *
  rw [List.pairwise_reverse]
  exact this.imp (fun h => Ne.symm h)

theorem C07_all_exactly_once (fi : Nat) (f : FileD) :
    (walkForest [] 0 (fileF fi f) ⟨[], none⟩).trace.reverse.map (·.1) = fileOrder fi f ∧ (fileOrder fi f).Nodup := by
  rw [C07_visits_everything, ← C07_pre_is_fileOrder]
  refine ⟨by simp [List.map_reverse, Function.comp_def], fileF_nodup fi f⟩

end Pgs.AST

/-! ### other entry points: a message, an enum, a service -/
namespace Pgs.AST

/-- the contents of a message as a forest (what `msgsF` hangs below the message's node) -/
def msgKidsF (fi : Nat) (here : List Nat) (h : MsgHead) (nested : Msgs) : Forest :=
  (enumsF fi here 4 0 h.enums).append ((msgsF fi here 3 0 nested).append
    ((leavesF (childRefs fi here 2 h.fields.length)).append
      ((leavesF (childRefs fi here 8 h.oneofs.length)).append (leavesF (childRefs fi here 6 h.exts.length)))))

theorem msgAt_path (w : World) (r : Ref) (x : MsgHead × Msgs) (h : w.msgAt r = some x) : ∃ rest, r.path = 4 :: rest := by
  unfold World.msgAt at h
  split at h
  · rename_i f rest _ hp; exact ⟨rest, hp⟩
  · simp at h

/-- `Walk(v, message)`: the generic walk over the message's node and contents (through
    `PassThroughVisitor`: over its contents). -/
theorem C07_walk_msg (pol : Policy) (w : World) (start : Ref) (f : FileD) (h : MsgHead) (nested : Msgs)
    (hf : w.files[start.file]? = some f) (hfi : start.file < 900000) (hm : w.msgAt start = some (h, nested)) :
    walkFrom pol w start false = walkForest pol 0 (.node start (msgKidsF start.file start.path h nested) .nil) ⟨[], none⟩ ∧
    walkFrom pol w start true = walkForest pol 0 (msgKidsF start.file start.path h nested) ⟨[], none⟩ := by
  obtain ⟨rest, hrest⟩ := msgAt_path w start _ hm
  have hge : ¬ (start.file ≥ 900000) := by omega
  constructor
  · unfold walkFrom
    simp only [hge, if_false, hf]
    split
    · rename_i hp; rw [hrest] at hp; simp at hp
    · rename_i hp; rw [hrest] at hp; simp at hp
    · rename_i hp; rw [hrest] at hp; simp at hp
    · simp only [hm, Bool.false_eq_true, if_false, walkForest]
      cases hv : visit pol 0 start ⟨[], none⟩ with
      | mk ws1 o =>
        cases o with
        | none => simp
        | some v1 => simp [msgKidsF, walkForest_append, acceptEnums_eq, acceptMsgs_eq, acceptLeaves_eq]
  · unfold walkFrom
    simp only [hge, if_false, hf]
    split
    · rename_i hp; rw [hrest] at hp; simp at hp
    · rename_i hp; rw [hrest] at hp; simp at hp
    · rename_i hp; rw [hrest] at hp; simp at hp
    · simp [hm, msgKidsF, walkForest_append, acceptEnums_eq, acceptMsgs_eq, acceptLeaves_eq]

/-- `Walk(v, file-level enum)` and `Walk(v, service)`: a node with its leaves -/
theorem C07_walk_enum (pol : Policy) (w : World) (fi i : Nat) (f : FileD) (e : EnumD)
    (hf : w.files[fi]? = some f) (hfi : fi < 900000) (he : f.enums[i]? = some e) :
    walkFrom pol w ⟨fi, [5, i]⟩ false =
      walkForest pol 0 (.node ⟨fi, [5, i]⟩ (leavesF (childRefs fi [5, i] 2 e.values.length)) .nil) ⟨[], none⟩ := by
  have hge : ¬ (fi ≥ 900000) := by omega
  simp only [walkFrom, hge, if_false, hf, he, Bool.false_eq_true, walkForest]
  cases hv : visit pol 0 ⟨fi, [5, i]⟩ ⟨[], none⟩ with
  | mk ws1 o =>
    cases o with
    | none => simp
    | some v1 => simp [acceptLeaves_eq]

theorem C07_walk_service (pol : Policy) (w : World) (fi i : Nat) (f : FileD) (s : ServiceD)
    (hf : w.files[fi]? = some f) (hfi : fi < 900000) (hs : f.services[i]? = some s) :
    walkFrom pol w ⟨fi, [6, i]⟩ false =
      walkForest pol 0 (.node ⟨fi, [6, i]⟩ (leavesF (childRefs fi [6, i] 2 s.methods.length)) .nil) ⟨[], none⟩ := by
  have hge : ¬ (fi ≥ 900000) := by omega
  simp only [walkFrom, hge, if_false, hf, hs, Bool.false_eq_true, walkForest]
  cases hv : visit pol 0 ⟨fi, [6, i]⟩ ⟨[], none⟩ with
  | mk ws1 o =>
    cases o with
    | none => simp
    | some v1 => simp [acceptLeaves_eq]

end Pgs.AST

/-! ### entry point: a package -/
namespace Pgs.AST

/-- the files of a package, one after the other -/
def filesF (w : World) : List Ref → Forest
  | [] => .nil
  | r :: rs =>
    match w.files[r.file]? with
    | some f => (fileF r.file f).append (filesF w rs)
    | none => filesF w rs

theorem acceptFiles_eq (pol : Policy) (v : Nat) (w : World) : ∀ (rs : List Ref) (ws : WS),
    acceptFiles pol v w rs ws = walkForest pol v (filesF w rs) ws := by
  intro rs
  induction rs with
  | nil => intro ws; rfl
  | cons r rs ih =>
    intro ws
    simp only [acceptFiles, filesF]
    cases hf : w.files[r.file]? with
    | none => simp only [ih]
    | some f => simp only [ih, walkForest_append, acceptFile_eq]

/-- `Walk(v, package)`: the package node, then its files in request order, each with everything it
    contains. -/
theorem C07_walk_package (pol : Policy) (w : World) (i : Nat) (n : String) (files : List Ref)
    (hp : (packagesOf w.files)[i]? = some (n, files)) :
    walkFrom pol w (pkgRef i) false = walkForest pol 0 (.node (pkgRef i) (filesF w files) .nil) ⟨[], none⟩ := by
  have hge : (pkgRef i).file ≥ 900000 := by simp [pkgRef]
  have hidx : (pkgRef i).file - 900000 = i := by simp [pkgRef]
  simp only [walkFrom, hge, if_true, hidx, hp, Bool.false_eq_true, if_false, walkForest]
  cases hv : visit pol 0 (pkgRef i) ⟨[], none⟩ with
  | mk ws1 o =>
    cases o with
    | none => simp
    | some v1 => simp [acceptFiles_eq]

end Pgs.AST

/-! ### the path-based Φ specification agrees with the walk (complete traversal of a file) -/
namespace Pgs.AST

/-- with the always-continuing visitor the fold of `specStep` records every node with visitor 0 -/
theorem specFold_all (w : World) (start : Ref) : ∀ (l : List Ref) (st : SpecSt),
    st.err = none → st.pruned = none → (∀ e ∈ st.vstack, e.2 = 0) →
    (l.foldl (specStep w [] false start) st).trace = (l.map (·, 0)).reverse ++ st.trace ∧
    (l.foldl (specStep w [] false start) st).err = none := by
  intro l
  induction l with
  | nil => intro st h1 _ _; exact ⟨by simp, h1⟩
  | cons n l ih =>
    intro st h1 h2 h3
    simp only [List.foldl_cons]
    obtain ⟨d, hd⟩ : ∃ d, d = st.vstack.dropWhile (fun (x : Ref × Nat) => !contains w x.1 n) := ⟨_, rfl⟩
    have hv : ∀ e ∈ d, e.2 = 0 := fun e he => h3 e ((List.dropWhile_sublist _).subset (hd ▸ he))
    have hstep : specStep w [] false start st n =
        { trace := (n, 0) :: st.trace, vstack := (n, 0) :: d, pruned := none, err := none } := by
      simp only [specStep, h1, h2, act_nil, Option.isSome_none, Bool.false_eq_true, if_false, Bool.false_and, ← hd]
      cases hdd : d with
      | nil => rfl
      | cons a t =>
        obtain ⟨r, v⟩ := a
        have : v = 0 := hv (r, v) (by rw [hdd]; exact List.mem_cons_self ..)
        subst this
        rfl
    rw [hstep]
    obtain ⟨a, b⟩ := ih ⟨(n, 0) :: st.trace, (n, 0) :: d, none, none⟩ rfl rfl (by
      intro e he
      rcases List.mem_cons.mp he with rfl | he
      · rfl
      · exact hv e he)
    refine ⟨?_, b⟩
    rw [a]; simp

theorem childRefs_file (fi : Nat) (p : List Nat) (tag n : Nat) : ∀ r ∈ childRefs fi p tag n, r.file = fi := by
  intro r hr
  simp only [childRefs, List.mem_map, List.mem_range] at hr
  obtain ⟨j, _, rfl⟩ := hr
  rfl

theorem msgsOrder_file (fi : Nat) : ∀ (ms : Msgs) (p : List Nat) (tag i : Nat), ∀ r ∈ msgsOrder fi p tag i ms, r.file = fi := by
  intro ms
  induction ms with
  | nil => intro p tag i r hr; simp [msgsOrder] at hr
  | cons h nested rest ih1 ih2 =>
    intro p tag i r hr
    simp only [msgsOrder, List.mem_append] at hr
    rcases hr with hr | hr
    · by_cases hm : h.mapEntry = true
      · simp [hm] at hr
      · have hm' : h.mapEntry = false := by simpa using hm
        simp only [hm', Bool.false_eq_true, if_false, List.mem_cons, List.mem_append, List.mem_flatten, List.mem_map] at hr
        rcases hr with ((((rfl | ⟨l, ⟨q, _, rfl⟩, hr⟩) | hr) | hr) | hr) | hr
        · rfl
        · simp only [enumOrder, List.mem_cons] at hr
          rcases hr with rfl | hr
          · rfl
          · exact childRefs_file _ _ _ _ r hr
        · exact ih1 _ _ _ r hr
        · exact childRefs_file _ _ _ _ r hr
        · exact childRefs_file _ _ _ _ r hr
        · exact childRefs_file _ _ _ _ r hr
    · exact ih2 _ _ _ r hr

/-- every entity in a file's declared order is the file or is contained in it -/
theorem fileOrder_contained (w : World) (fi : Nat) (f : FileD) (hfi : fi < 900000) :
    ∀ r ∈ fileOrder fi f, (r == (⟨fi, []⟩ : Ref) || contains w ⟨fi, []⟩ r) = true := by
  intro r hr
  rw [← C07_pre_is_fileOrder] at hr
  simp only [fileF, Forest.pre, List.append_nil, List.mem_cons] at hr
  rcases hr with rfl | hr
  · simp
  · -- below the file: same file index, non-empty path
    have hfile : r.file = fi ∧ r.path ≠ [] := by
      simp only [fileKidsF, Forest.pre_append, leavesF_pre, List.mem_append] at hr
      have hpath : ∀ {a i : Nat} {L : List Ref}, Under [] a i L → r ∈ L → r.path ≠ [] := by
        intro a i L hu hm hnil
        obtain ⟨j, t, _, p⟩ := hu r hm
        rw [hnil] at p; simp at p
      rcases hr with hr | hr | hr | hr
      · refine ⟨?_, hpath (enumsF_under fi [] 5 f.enums 0) hr⟩
        rw [enumsF_pre] at hr
        simp only [List.mem_flatten, List.mem_map] at hr
        obtain ⟨l, ⟨q, _, rfl⟩, hr⟩ := hr
        simp only [enumOrder, List.mem_cons] at hr
        rcases hr with rfl | hr
        · rfl
        · exact childRefs_file _ _ _ _ r hr
      · refine ⟨?_, hpath (msgsF_under fi f.msgs [] 4 0) hr⟩
        rw [msgsF_pre] at hr
        exact msgsOrder_file fi f.msgs [] 4 0 r hr
      · refine ⟨?_, hpath (servicesF_under fi f.services 0) hr⟩
        rw [servicesF_pre] at hr
        simp only [List.mem_flatten, List.mem_map] at hr
        obtain ⟨l, ⟨q, _, rfl⟩, hr⟩ := hr
        rcases List.mem_cons.mp hr with rfl | hr
        · rfl
        · exact childRefs_file _ _ _ _ r hr
      · exact ⟨childRefs_file _ _ _ _ r hr, hpath (childRefs_under fi [] 7 f.exts.length) hr⟩
    have hge : ¬ (fi ≥ 900000) := by omega
    have hlen : 0 < r.path.length := by
      cases hp : r.path with
      | nil => exact absurd hp hfile.2
      | cons a t => simp
    simp [contains, hge, hfile.1, hlen]

/-- **C07 (Φ's specification = the walk, complete traversal)**: for every world and every file, the
    path-based specification the Φ checker folds over (`specWalk`) and the model of the real walk
    give the same observation for the always-continuing visitor. -/
theorem C07_spec_agrees_complete (w : World) (fi : Nat) (f : FileD) (hf : w.files[fi]? = some f) (hfi : fi < 900000) :
    specWalk [] w ⟨fi, []⟩ false = walkModel [] w ⟨fi, []⟩ false := by
  have hge : ¬ (fi ≥ 900000) := by omega
  have hpre : preorder w ⟨fi, []⟩ = fileOrder fi f := by
    simp only [preorder, hge, if_false, hf]
    apply List.filter_eq_self.mpr
    exact fileOrder_contained w fi f hfi
  obtain ⟨a, b⟩ := specFold_all w ⟨fi, []⟩ (fileOrder fi f) ⟨[], [], none, none⟩ rfl rfl (by intro e he; simp at he)
  have hw := (C07_walk_file [] w fi f hf hfi).1
  unfold specWalk walkModel
  rw [hpre, hw, C07_visits_everything]
  simp only [a, b, List.append_nil, List.reverse_reverse, C07_pre_is_fileOrder, Option.getD_none]

end Pgs.AST
