import PgsVerif.Model.Gen
/-!
# C13 — Render is parse → modules in order → one response, exactly once

`trace` runs the once-guarded workflow over any history of `AST()` / `Render()` calls;
`specTrace` is the declarative reading of the property.
-/
namespace Pgs.C13
open Pgs

/-- the states the workflow can be in: stages complete in order -/
def Reach (s : St) (started rendered : Bool) : Prop :=
  s.initDone = started ∧ s.runDone = rendered ∧ s.persistDone = rendered ∧ (rendered = true → started = true)

theorem trace_eq_spec (c : Cfg) (ops : List Op) :
    ∀ (s : St) (started rendered : Bool), Reach s started rendered →
      trace c s ops = specTrace c started rendered ops := by
  induction ops with
  | nil => intros; rfl
  | cons op ops ih =>
    intro s started rendered h
    obtain ⟨i, r, p⟩ := s
    obtain ⟨h1, h2, h3, h4⟩ := h
    simp only at h1 h2 h3
    subst h1 h2 h3
    have e1 := ih ⟨true, false, false⟩ true false ⟨rfl, rfl, rfl, by simp⟩
    have e2 := ih ⟨true, true, true⟩ true true ⟨rfl, rfl, rfl, by simp⟩
    cases op <;> cases i <;> cases p
    all_goals first
      | (simp at h4; done)
      | (simp [trace, stepOp, doInit, doRun, doPersist, specTrace, e1, e2]; done)

/-- **C13**: for every configuration and every finite history, the effects are exactly the
    declarative trace. -/
theorem C13_trace (c : Cfg) (ops : List Op) : trace c St.start ops = specTrace c false false ops :=
  trace_eq_spec c ops St.start false false ⟨rfl, rfl, rfl, by simp⟩

/-- Φ_C13 holds of the model on every history. -/
theorem C13_judge (c : Cfg) (ops : List Op) : judge c ops (trace c St.start ops) = none := by
  unfold judge; rw [C13_trace]; simp

/-- Rendering once: read, every InitContext in registration order, then every Execute in that
    order, then exactly one write of persisting the concatenated artifacts. -/
theorem C13_first_render (c : Cfg) :
    trace c St.start [.render] = [.read] ++ initEvents c ++ execEvents c ++ [writeEvent c] := by
  rw [C13_trace]; simp [specTrace]

/-- Rendering again, or asking for the AST afterwards, re-reads nothing, re-runs nothing and
    writes nothing more: after a Render, any further history adds only `astRet` events. -/
theorem C13_after_render (c : Cfg) (ops : List Op) :
    specTrace c true true ops = (ops.filter (· == .ast)).map (fun _ => Ev.astRet) := by
  induction ops with
  | nil => rfl
  | cons op ops ih => cases op <;> simp [specTrace, ih]

/-- Asking for the AST before rendering reads the input once and runs no module. -/
theorem C13_ast_only (c : Cfg) (n : Nat) :
    trace c St.start (List.replicate (n+1) .ast) = .read :: List.replicate (n+1) .astRet := by
  rw [C13_trace]
  have : ∀ k, specTrace c true false (List.replicate k .ast) = List.replicate k .astRet := by
    intro k; induction k with
    | zero => rfl
    | succ k ih => simp [List.replicate_succ, specTrace, ih]
  simp [List.replicate_succ, specTrace, this]

/-- every InitContext carries the module's name, the parsed parameters after all mutators and
    the configured output path, in registration order -/
theorem C13_init_events (c : Cfg) (i : Nat) (h : i < c.mods.length) :
    (initEvents c)[i]? = some (.init i (c.mods[i]).name (C19.print (params c)) (outputPath c)) := by
  simp [initEvents, List.getElem?_map, List.getElem?_zip_eq_some, h]

/-! ### non-vacuity -/
private def demo : Cfg :=
  ⟨[([116], [116])], [[116]], [], [], [⟨[109], [.file [97] ⟨[65], false⟩ false false]⟩], [], none, true⟩
example : dom demo = true := by decide
example : (trace demo St.start [.ast, .render, .render, .ast]).length = 6 := by decide

end Pgs.C13

namespace Pgs.C13
/-- every Execute is handed the targets and packages of the request and an AST built in the mode the
    `BiDirectional()` option selects -/
theorem C13_exec_events (c : Cfg) (i : Nat) (h : i < c.mods.length) :
    (execEvents c)[i]? = some (.exec i (sortDedup c.targets) (sortDedup (c.files.map (·.2))) c.bidi) := by
  simp [execEvents, List.getElem?_map, List.getElem?_zip_eq_some, h]
end Pgs.C13
