import PgsVerif.Proofs.Hydrate
import PgsVerif.Model.AstSem2
/-!
# C09 — presence, oneof and syntax semantics agree with protobuf's own

`pgs…` are transcriptions of field.go / oneof.go / proto.go / file.go; `pr…` transcribe
protobuf-go v1.23.0 (`internal/filedesc`: `HasPresence`, `HasOptionalKeyword`, `IsSynthetic`).
The theorems hold for every file / message / field satisfying the side conditions protobuf's
descriptor validation guarantees (`FieldOK`).
-/
namespace Pgs.AST

/-- what descriptor validation guarantees about one field of a message of file `f` -/
structure FieldOK (f : FileD) (fd : FieldD) : Prop where
  syn : f.syn = "" ∨ f.syn = "proto2" ∨ f.syn = "proto3"
  oneofOptional : fd.oneofIndex.isSome = true → fd.label = 1        -- oneof members are `optional`
  p3optInOneof : fd.proto3Optional = true → fd.oneofIndex.isSome = true ∧ f.syn = "proto3"
  noGroup : fd.type ≠ 10
  requiredProto2 : fd.label = 2 → f.syn ≠ "proto3"

/-- the checker evaluated by the driver on every generated world implies the hypothesis -/
theorem fieldOK_of_check (f : FileD) (fd : FieldD) (h : fieldOKb f fd = true) : FieldOK f fd := by
  simp only [fieldOKb, Bool.and_eq_true, Bool.or_eq_true, beq_iff_eq, Bool.not_eq_true', bne_iff_ne, ne_eq] at h
  obtain ⟨⟨⟨⟨h1, h2⟩, h3⟩, h4⟩, h5⟩ := h
  refine ⟨?_, ?_, ?_, h4, ?_⟩
  · rcases h1 with (h | h) | h
    · exact Or.inl h
    · exact Or.inr (Or.inl h)
    · exact Or.inr (Or.inr h)
  · intro ho; rcases h2 with h | h
    · rw [ho] at h; cases h
    · exact h
  · intro hp; rcases h3 with h | h
    · rw [hp] at h; cases h
    · exact h
  · intro hl; rcases h5 with h | h
    · exact absurd hl h
    · exact h

theorem syn_facts (f : FileD) (h : f.syn = "" ∨ f.syn = "proto2" ∨ f.syn = "proto3") :
    (pgsSyntax f == "") = !(f.syn == "proto3") ∧ (pgsSyntax f == "proto3") = (f.syn == "proto3") ∧
    prProto2 f = !(f.syn == "proto3") := by
  rcases h with h | h | h <;> simp [pgsSyntax, prProto2, h]

/-- the formula of the property -/
def specPresence (f : FileD) (fd : FieldD) : Bool :=
  fd.oneofIndex.isSome || (fd.label != 3 && fd.type == 11) || (fd.label != 3 && !(f.syn == "proto3")) || fd.proto3Optional

/-- **Presence**: pgs = protobuf = "in a oneof, or a singular message, or a singular proto2 field,
    or proto3-optional". -/
theorem C09_presence (f : FileD) (fd : FieldD) (ok : FieldOK f fd) :
    pgsPresence f fd = specPresence f fd ∧ prPresence f fd = specPresence f fd := by
  obtain ⟨h1, h2, h3⟩ := syn_facts f ok.syn
  have hg : (fd.type == 10) = false := by simpa using ok.noGroup
  unfold pgsPresence prPresence specPresence pgsOptKw
  rw [h1, h2, h3, hg]
  cases ho : fd.oneofIndex.isSome with
  | true =>
    have hl : fd.label = 1 := ok.oneofOptional ho
    simp [hl]
  | false =>
    have hp : fd.proto3Optional = false := by
      cases hpo : fd.proto3Optional with
      | false => rfl
      | true => have := (ok.p3optInOneof hpo).1; rw [ho] at this; cases this
    cases hl3 : (fd.label != 3) <;> cases ht : (fd.type == 11) <;> cases hs : (f.syn == "proto3") <;> simp [hp]

/-- **Required**: exactly the `required` fields of proto2 files, for pgs and for protobuf. -/
theorem C09_required (f : FileD) (fd : FieldD) (ok : FieldOK f fd) :
    pgsRequired f fd = (fd.label == 2) := by
  obtain ⟨h1, _, _⟩ := syn_facts f ok.syn
  unfold pgsRequired
  rw [h1]
  by_cases hl : fd.label = 2
  · have := ok.requiredProto2 hl
    simp [hl, this]
  · simp [hl]

/-- members of a oneof carry its index -/
theorem oneofFieldDs_index (h : MsgHead) (o : Nat) (m : FieldD) (hm : m ∈ oneofFieldDs h o) : m.oneofIndex = some o := by
  simp only [oneofFieldDs, List.mem_filter, beq_iff_eq] at hm
  exact hm.2

/-- **Synthetic oneofs**: pgs = protobuf = "exists only to carry one proto3-optional field". -/
theorem C09_synthetic (f : FileD) (h : MsgHead) (o : Nat)
    (ok : ∀ m ∈ oneofFieldDs h o, FieldOK f m)
    (hsyn : f.syn = "" ∨ f.syn = "proto2" ∨ f.syn = "proto3") :
    let spec := match oneofFieldDs h o with | [m] => m.proto3Optional | _ => false
    pgsSynthetic f h o = spec ∧ prSynthetic f h o = spec := by
  obtain ⟨_, h2, h3⟩ := syn_facts f hsyn
  unfold pgsSynthetic prSynthetic prOptKw
  rw [h2, h3]
  cases hm : oneofFieldDs h o with
  | nil => simp
  | cons m rest =>
    cases rest with
    | cons m2 r2 => simp
    | nil =>
      have hmem : m ∈ oneofFieldDs h o := by rw [hm]; exact List.mem_cons_self ..
      have hidx := oneofFieldDs_index h o m hmem
      have hok := ok m hmem
      simp only [hidx, Option.isSome_some, Option.isNone_some, Bool.true_and, Bool.and_false, Bool.false_or]
      cases hp : m.proto3Optional with
      | false => simp
      | true =>
        have := (hok.p3optInOneof hp).2
        simp [this]

/-- **Real-oneof membership** agrees: a member is in a real oneof iff it is not proto3-optional. -/
theorem C09_in_real_oneof (f : FileD) (h : MsgHead) (o : Nat) (fd : FieldD)
    (hsingle : oneofFieldDs h o = [fd]) (ok : FieldOK f fd) :
    (fd.oneofIndex.isSome && !fd.proto3Optional) = !prSynthetic f h o := by
  have hidx := oneofFieldDs_index h o fd (by rw [hsingle]; exact List.mem_cons_self ..)
  obtain ⟨_, _, h3⟩ := syn_facts f ok.syn
  unfold prSynthetic prOptKw
  rw [hsingle, h3]
  simp [hidx]

/-- **Syntax**: a file declared proto2 is treated as proto2 whether its descriptor omits the
    syntax or spells it out. -/
theorem C09_proto2_spelling (f g : FileD) (hf : f.syn = "") (hg : g.syn = "proto2") :
    pgsSyntax f = pgsSyntax g ∧ pgsSyntax f = "" := by
  simp [pgsSyntax, hf, hg]

/-! ### non-vacuity -/
private def demoFile : FileD := ⟨"a.proto", "p", "proto3", [], [], [], .nil, [], [], [], ""⟩
private def demoField : FieldD := ⟨"x", 1, 1, 9, "", some 0, true, ""⟩
example : FieldOK demoFile demoField := ⟨by decide, by decide, by decide, by decide, by decide⟩
example : pgsPresence demoFile demoField = true := by decide

end Pgs.AST

/-! ### the listings partition the fields -/
namespace Pgs.AST

theorem mem_oneofMembers (fi : Nat) (here : List Nat) (fields : List FieldD) (o : Nat) (r : Ref) :
    r ∈ oneofMembers fi here fields o ↔ ∃ q ∈ idx fields, q.2.oneofIndex = some o ∧ r = ⟨fi, here ++ [2, q.1]⟩ := by
  simp only [oneofMembers, List.mem_filterMap]
  constructor
  · rintro ⟨⟨i, f⟩, hq, h⟩
    by_cases hc : f.oneofIndex = some o
    · simp only [hc, if_true, Option.some.injEq] at h
      exact ⟨(i, f), hq, hc, h.symm⟩
    · simp [hc] at h
  · rintro ⟨⟨i, f⟩, hq, hc, rfl⟩
    simp only at hc
    exact ⟨(i, f), hq, by simp [hc]⟩

/-- **C09 (partition)**: with every `oneof_index` in range, each field of a message is listed either
    among the oneof fields (iff it has a `oneof_index`) or among the non-oneof fields (iff it has
    none) — never both, never neither; and a oneof field is listed among the synthetic-oneof fields
    iff its oneof is synthetic, while the real oneofs are exactly the non-synthetic ones. -/
theorem C09_partition (f : FileD) (r : Ref) (h : MsgHead)
    (hwf : ∀ fd ∈ h.fields, ∀ o, fd.oneofIndex = some o → o < h.oneofs.length) :
    ∀ q ∈ idx h.fields,
      let fr : Ref := ⟨r.file, r.path ++ [2, q.1]⟩
      let oneofFields := ((List.range h.oneofs.length).map (oneofMembers r.file r.path h.fields)).flatten
      let nonOneof := (idx h.fields).filterMap (fun (x : Nat × FieldD) => if x.2.oneofIndex.isNone then some (⟨r.file, r.path ++ [2, x.1]⟩ : Ref) else none)
      let synth := (((List.range h.oneofs.length).filter (pgsSynthetic f h)).map (oneofMembers r.file r.path h.fields)).flatten
      (fr ∈ oneofFields ↔ q.2.oneofIndex.isSome = true) ∧
      (fr ∈ nonOneof ↔ q.2.oneofIndex.isNone = true) ∧
      (fr ∈ synth ↔ ∃ o, q.2.oneofIndex = some o ∧ pgsSynthetic f h o = true) := by
  intro q hq
  obtain ⟨i, fd⟩ := q
  have hfd : fd ∈ h.fields := by
    have := idx_mem h.fields i fd hq
    exact List.mem_of_getElem? this
  -- a reference determines the index
  have inj : ∀ (q' : Nat × FieldD), q' ∈ idx h.fields →
      (⟨r.file, r.path ++ [2, i]⟩ : Ref) = ⟨r.file, r.path ++ [2, q'.1]⟩ → q' = (i, fd) := by
    intro q' hq' e
    have : i = q'.1 := by
      have := congrArg Ref.path e
      simpa using this
    obtain ⟨i', fd'⟩ := q'
    simp only at this; subst this
    have a := idx_mem h.fields i fd hq
    have b := idx_mem h.fields i fd' hq'
    rw [a] at b; cases b; rfl
  refine ⟨?_, ?_, ?_⟩
  · simp only [List.mem_flatten, List.mem_map, List.mem_range]
    constructor
    · rintro ⟨l, ⟨o, _, rfl⟩, hm⟩
      obtain ⟨q', hq', hc, e⟩ := (mem_oneofMembers ..).mp hm
      have := inj q' hq' e
      subst this
      simp only at hc
      show fd.oneofIndex.isSome = true
      rw [hc]; rfl
    · intro hs
      obtain ⟨o, ho⟩ := Option.isSome_iff_exists.mp hs
      exact ⟨_, ⟨o, hwf fd hfd o ho, rfl⟩, (mem_oneofMembers ..).mpr ⟨(i, fd), hq, ho, rfl⟩⟩
  · simp only [List.mem_filterMap]
    constructor
    · rintro ⟨q', hq', hc⟩
      by_cases hn : q'.2.oneofIndex.isNone = true
      · simp only [hn, if_true, Option.some.injEq] at hc
        have := inj q' hq' hc.symm
        subst this
        exact hn
      · simp [hn] at hc
    · intro hn
      exact ⟨(i, fd), hq, by simp [hn]⟩
  · simp only [List.mem_flatten, List.mem_map, List.mem_filter, List.mem_range]
    constructor
    · rintro ⟨l, ⟨o, ⟨_, hs⟩, rfl⟩, hm⟩
      obtain ⟨q', hq', hc, e⟩ := (mem_oneofMembers ..).mp hm
      have := inj q' hq' e
      subst this
      exact ⟨o, hc, hs⟩
    · rintro ⟨o, ho, hs⟩
      exact ⟨_, ⟨o, ⟨hwf fd hfd o ho, hs⟩, rfl⟩, (mem_oneofMembers ..).mpr ⟨(i, fd), hq, ho, rfl⟩⟩

end Pgs.AST
