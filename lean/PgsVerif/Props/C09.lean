import PgsVerif.Model.AstSem2
/-!
# C09 — presence, oneof and syntax semantics agree with protobuf's own

`pgs…` are transcriptions of field.go / oneof.go / proto.go / file.go; `pr…` transcribe
protobuf-go v1.23.0 (`internal/filedesc`: `HasPresence`, `HasOptionalKeyword`, `IsSynthetic`).
The theorems hold for every file / message / field satisfying the side conditions protobuf's
descriptor validation guarantees (`FieldOK`).
-/
namespace Pgs.AST

/-- what descriptor validation guarantees about one field of a message of file `f` -/
structure FieldOK (f : FileD) (fd : FieldD) : Prop where
  syn : f.syn = "" ∨ f.syn = "proto2" ∨ f.syn = "proto3"
  oneofOptional : fd.oneofIndex.isSome = true → fd.label = 1        -- oneof members are `optional`
  p3optInOneof : fd.proto3Optional = true → fd.oneofIndex.isSome = true ∧ f.syn = "proto3"
  noGroup : fd.type ≠ 10
  requiredProto2 : fd.label = 2 → f.syn ≠ "proto3"

/-- the checker evaluated by the driver on every generated world implies the hypothesis -/
theorem fieldOK_of_check (f : FileD) (fd : FieldD) (h : fieldOKb f fd = true) : FieldOK f fd := by
  simp only [fieldOKb, Bool.and_eq_true, Bool.or_eq_true, beq_iff_eq, Bool.not_eq_true', bne_iff_ne, ne_eq] at h
  obtain ⟨⟨⟨⟨h1, h2⟩, h3⟩, h4⟩, h5⟩ := h
  refine ⟨?_, ?_, ?_, h4, ?_⟩
  · rcases h1 with (h | h) | h
    · exact Or.inl h
    · exact Or.inr (Or.inl h)
    · exact Or.inr (Or.inr h)
  · intro ho; rcases h2 with h | h
    · rw [ho] at h; cases h
    · exact h
  · intro hp; rcases h3 with h | h
    · rw [hp] at h; cases h
    · exact h
  · intro hl; rcases h5 with h | h
    · exact absurd hl h
    · exact h

theorem syn_facts (f : FileD) (h : f.syn = "" ∨ f.syn = "proto2" ∨ f.syn = "proto3") :
    (pgsSyntax f == "") = !(f.syn == "proto3") ∧ (pgsSyntax f == "proto3") = (f.syn == "proto3") ∧
    prProto2 f = !(f.syn == "proto3") := by
  rcases h with h | h | h <;> simp [pgsSyntax, prProto2, h]

/-- the formula of the property -/
def specPresence (f : FileD) (fd : FieldD) : Bool :=
  fd.oneofIndex.isSome || (fd.label != 3 && fd.type == 11) || (fd.label != 3 && !(f.syn == "proto3")) || fd.proto3Optional

/-- **Presence**: pgs = protobuf = "in a oneof, or a singular message, or a singular proto2 field,
    or proto3-optional". -/
theorem C09_presence (f : FileD) (fd : FieldD) (ok : FieldOK f fd) :
    pgsPresence f fd = specPresence f fd ∧ prPresence f fd = specPresence f fd := by
  obtain ⟨h1, h2, h3⟩ := syn_facts f ok.syn
  have hg : (fd.type == 10) = false := by simpa using ok.noGroup
  unfold pgsPresence prPresence specPresence pgsOptKw
  rw [h1, h2, h3, hg]
  cases ho : fd.oneofIndex.isSome with
  | true =>
    have hl : fd.label = 1 := ok.oneofOptional ho
    simp [hl]
  | false =>
    have hp : fd.proto3Optional = false := by
      cases hpo : fd.proto3Optional with
      | false => rfl
      | true => have := (ok.p3optInOneof hpo).1; rw [ho] at this; cases this
    cases hl3 : (fd.label != 3) <;> cases ht : (fd.type == 11) <;> cases hs : (f.syn == "proto3") <;> simp [hp]

/-- **Required**: exactly the `required` fields of proto2 files, for pgs and for protobuf. -/
theorem C09_required (f : FileD) (fd : FieldD) (ok : FieldOK f fd) :
    pgsRequired f fd = (fd.label == 2) := by
  obtain ⟨h1, _, _⟩ := syn_facts f ok.syn
  unfold pgsRequired
  rw [h1]
  by_cases hl : fd.label = 2
  · have := ok.requiredProto2 hl
    simp [hl, this]
  · simp [hl]

/-- members of a oneof carry its index -/
theorem oneofFieldDs_index (h : MsgHead) (o : Nat) (m : FieldD) (hm : m ∈ oneofFieldDs h o) : m.oneofIndex = some o := by
  simp only [oneofFieldDs, List.mem_filter, beq_iff_eq] at hm
  exact hm.2

/-- **Synthetic oneofs**: pgs = protobuf = "exists only to carry one proto3-optional field". -/
theorem C09_synthetic (f : FileD) (h : MsgHead) (o : Nat)
    (ok : ∀ m ∈ oneofFieldDs h o, FieldOK f m)
    (hsyn : f.syn = "" ∨ f.syn = "proto2" ∨ f.syn = "proto3") :
    let spec := match oneofFieldDs h o with | [m] => m.proto3Optional | _ => false
    pgsSynthetic f h o = spec ∧ prSynthetic f h o = spec := by
  obtain ⟨_, h2, h3⟩ := syn_facts f hsyn
  unfold pgsSynthetic prSynthetic prOptKw
  rw [h2, h3]
  cases hm : oneofFieldDs h o with
  | nil => simp
  | cons m rest =>
    cases rest with
    | cons m2 r2 => simp
    | nil =>
      have hmem : m ∈ oneofFieldDs h o := by rw [hm]; exact List.mem_cons_self ..
      have hidx := oneofFieldDs_index h o m hmem
      have hok := ok m hmem
      simp only [hidx, Option.isSome_some, Option.isNone_some, Bool.true_and, Bool.and_false, Bool.false_or]
      cases hp : m.proto3Optional with
      | false => simp
      | true =>
        have := (hok.p3optInOneof hp).2
        simp [this]

/-- **Real-oneof membership** agrees: a member is in a real oneof iff it is not proto3-optional. -/
theorem C09_in_real_oneof (f : FileD) (h : MsgHead) (o : Nat) (fd : FieldD)
    (hsingle : oneofFieldDs h o = [fd]) (ok : FieldOK f fd) :
    (fd.oneofIndex.isSome && !fd.proto3Optional) = !prSynthetic f h o := by
  have hidx := oneofFieldDs_index h o fd (by rw [hsingle]; exact List.mem_cons_self ..)
  obtain ⟨_, _, h3⟩ := syn_facts f ok.syn
  unfold prSynthetic prOptKw
  rw [hsingle, h3]
  simp [hidx]

/-- **Syntax**: a file declared proto2 is treated as proto2 whether its descriptor omits the
    syntax or spells it out. -/
theorem C09_proto2_spelling (f g : FileD) (hf : f.syn = "") (hg : g.syn = "proto2") :
    pgsSyntax f = pgsSyntax g ∧ pgsSyntax f = "" := by
  simp [pgsSyntax, hf, hg]

/-! ### non-vacuity -/
private def demoFile : FileD := ⟨"a.proto", "p", "proto3", [], [], [], .nil, [], [], [], ""⟩
private def demoField : FieldD := ⟨"x", 1, 1, 9, "", some 0, true, ""⟩
example : FieldOK demoFile demoField := ⟨by decide, by decide, by decide, by decide, by decide⟩
example : pgsPresence demoFile demoField = true := by decide

end Pgs.AST
