import PgsVerif.Props.TieCodeC16
import PgsVerif.Generated.Code_context_OneofOption
/-!
# Tie (translated code): `OneofOption` of lang/go/name.go - the oneof wrapper's name

`OneofOption` is translated whole: the base name `<Message>_<Field>` (`joinNames`), then the loop
`for conflict := true; conflict; { conflict = false; … }` whose body makes three passes - over the nested
messages, the map entries and the nested enums - each appending `_` and setting the flag whenever an
element is called like the current name (`context_OneofOption_step1 … step4`).

The model's `wrapperName` is written differently (it asks "is the name among the nested type names?" and
appends one underscore at a time).  `tie_OneofOption` proves the two equal for every message, field and
lists of nested names, and `OneofOption_spec` says what both compute: **the base name with the least
number of underscores that is no nested type's name** (`FirstFree`).  The only thing the translation adds
to the source is a bound on the rounds of the outer loop; `exists_firstFree` (a pigeonhole argument over
`n, n_, n__, …`) shows that `|names| + 1` rounds always suffice, so the bound never bites - the same
argument shows the model's own fuel suffices (`go_firstFree`).
-/
namespace Pgs.GoNames
open Pgs Pgs.GenCode

/-- `n` with `i` underscores appended -/
def us (n : Bytes) (i : Nat) : Bytes := n ++ List.replicate i 95

/-- `k` underscores give the first name that is not taken -/
def FirstFree (names : List Bytes) (n : Bytes) (k : Nat) : Prop := us n k ∉ names ∧ ∀ i < k, us n i ∈ names

theorem us_zero (n : Bytes) : us n 0 = n := by simp [us]
theorem us_succ (n : Bytes) (i : Nat) : us (n ++ [95]) i = us n (i + 1) := by
  simp [us, List.replicate_succ]
theorem us_add (n : Bytes) (i j : Nat) : us (us n i) j = us n (i + j) := by
  simp only [us, List.append_assoc]
  congr 1
  exact (List.replicate_append_replicate (n := i) (m := j) (a := 95))

/-- pigeonhole: among `n, n_, n__, …` with up to `|names|` underscores one is not in `names` -/
theorem exists_free (names : List Bytes) (n : Bytes) : ∃ i, i ≤ names.length ∧ us n i ∉ names := by
  apply Classical.byContradiction
  intro h
  have hall : ∀ i, i ≤ names.length → us n i ∈ names := by
    intro i hi
    apply Classical.byContradiction
    intro hn
    exact h ⟨i, hi, hn⟩
  have hnd : ((List.range (names.length + 1)).map (us n)).Nodup := by
    rw [List.Nodup, List.pairwise_map]
    refine List.Pairwise.imp ?_ (List.nodup_range (n := names.length + 1))
    intro a b hab h
    apply hab
    have := congrArg List.length h
    simp [us] at this
    exact this
  have hsub : (List.range (names.length + 1)).map (us n) ⊆ names := by
    intro x hx
    obtain ⟨i, hi, rfl⟩ := List.mem_map.mp hx
    exact hall i (by have := List.mem_range.mp hi; omega)
  have := List.Nodup.length_le_of_subset hnd hsub
  simp at this
  omega

theorem firstFree_of_free (names : List Bytes) (n : Bytes) : ∀ b, (∃ i, i ≤ b ∧ us n i ∉ names) → ∃ k, k ≤ b ∧ FirstFree names n k := by
  intro b
  induction b with
  | zero =>
    rintro ⟨i, hi, hf⟩
    have : i = 0 := by omega
    subst this
    exact ⟨0, Nat.le_refl 0, hf, fun i hi => absurd hi (Nat.not_lt_zero i)⟩
  | succ b ih =>
    rintro ⟨i, hi, hf⟩
    by_cases hex : ∃ j, j ≤ b ∧ us n j ∉ names
    · obtain ⟨k, hk, hff⟩ := ih hex
      exact ⟨k, Nat.le_succ_of_le hk, hff⟩
    · have hi' : i = b + 1 := by
        apply Classical.byContradiction
        intro hne
        exact hex ⟨i, by omega, hf⟩
      subst hi'
      refine ⟨b + 1, Nat.le_refl _, hf, ?_⟩
      intro j hj
      apply Classical.byContradiction
      intro hn
      exact hex ⟨j, by omega, hn⟩

theorem exists_firstFree (names : List Bytes) (n : Bytes) : ∃ k, k ≤ names.length ∧ FirstFree names n k :=
  firstFree_of_free names n names.length (exists_free names n)

theorem firstFree_step (names : List Bytes) (n : Bytes) (k j : Nat) (h : FirstFree names n k) (hj : j ≤ k) :
    FirstFree names (us n j) (k - j) := by
  constructor
  · rw [us_add]; have : j + (k - j) = k := by omega
    rw [this]; exact h.1
  · intro i hi; rw [us_add]; exact h.2 _ (by omega)

/-- the model's loop returns the first free name, given one more round than underscores needed -/
theorem go_firstFree (names : List Bytes) : ∀ (k F : Nat) (n : Bytes), FirstFree names n k → k < F →
    wrapperName.go names F n = us n k := by
  intro k
  induction k with
  | zero =>
    intro F n h hF
    cases F with
    | zero => omega
    | succ F =>
      have hnot : ¬ (n ∈ names) := by
        have := h.1; rw [us_zero] at this; exact this
      simp [wrapperName.go, hnot, us_zero]
  | succ k ih =>
    intro F n h hF
    cases F with
    | zero => omega
    | succ F =>
      have hin : names.contains n = true := by
        have := h.2 0 (Nat.succ_pos k); rw [us_zero] at this; simpa using this
      have h' : FirstFree names (n ++ [95]) k := by
        have := firstFree_step names n (k + 1) 1 h (by omega)
        simpa [us, underscore] using this
      simp only [wrapperName.go, hin, if_true, underscore]
      rw [ih F _ h' (by omega), us_succ]

/-- one comparison of the translated passes: a nested type called `n` makes it `n_` and sets the flag -/
def bumpIf (st : Bytes × Bool) (x : Bytes) : Bytes × Bool := if x == st.1 then (st.1 ++ [95], true) else st

theorem step1_eq (F : Nat) (a b : Bytes) (A B C : List Bytes) : context_OneofOption_step1 F a b A B C = bumpIf := by
  funext st x; obtain ⟨n, c⟩ := st; simp only [context_OneofOption_step1, bumpIf]
theorem step2_eq (F : Nat) (a b : Bytes) (A B C : List Bytes) : context_OneofOption_step2 F a b A B C = bumpIf := by
  funext st x; obtain ⟨n, c⟩ := st; simp only [context_OneofOption_step2, bumpIf]
theorem step3_eq (F : Nat) (a b : Bytes) (A B C : List Bytes) : context_OneofOption_step3 F a b A B C = bumpIf := by
  funext st x; obtain ⟨n, c⟩ := st; simp only [context_OneofOption_step3, bumpIf]

/-- one round of the conflict loop is one pass over all nested type names, the flag cleared first -/
theorem step4_eq (F : Nat) (a b : Bytes) (A B C : List Bytes) (st : Bytes × Bool) :
    context_OneofOption_step4 F a b A B C st = (A ++ B ++ C).foldl bumpIf (st.1, false) := by
  obtain ⟨n, c⟩ := st
  simp only [context_OneofOption_step4, step1_eq, step2_eq, step3_eq, List.foldl_append]

/-- what a pass does: it appends `j` underscores, every intermediate name was in the list, the flag says whether `j > 0`,
    and if nothing was appended the name is not in the list -/
theorem pass_spec : ∀ (L : List Bytes) (n : Bytes) (c : Bool),
    ∃ j, L.foldl bumpIf (n, c) = (us n j, c || decide (0 < j)) ∧ (∀ i, i < j → us n i ∈ L) ∧ (j = 0 → n ∉ L) := by
  intro L
  induction L with
  | nil => intro n c; exact ⟨0, by simp [us_zero], fun i hi => absurd hi (Nat.not_lt_zero i), fun _ => by simp⟩
  | cons x xs ih =>
    intro n c
    by_cases hx : x = n
    · subst hx
      obtain ⟨j, h1, h2, _⟩ := ih (x ++ [95]) true
      refine ⟨j + 1, ?_, ?_, ?_⟩
      · simp only [List.foldl_cons, bumpIf, beq_self_eq_true, if_true, h1, us_succ]
        simp
      · intro i hi
        cases i with
        | zero => simp [us_zero]
        | succ i => rw [← us_succ]; exact List.mem_cons_of_mem _ (h2 i (by omega))
      · intro h; omega
    · obtain ⟨j, h1, h2, h3⟩ := ih n c
      have hne : (x == n) = false := by simpa using hx
      refine ⟨j, ?_, ?_, ?_⟩
      · simp only [List.foldl_cons, bumpIf, hne, Bool.false_eq_true, if_false]; exact h1
      · intro i hi; exact List.mem_cons_of_mem _ (h2 i hi)
      · intro h0 hmem
        rcases List.mem_cons.mp hmem with h | h
        · exact hx h.symm
        · exact h3 h0 h

/-- the translated conflict loop returns the first free name, given one more round than underscores needed -/
theorem while_firstFree (names : List Bytes) (step : Bytes × Bool → Bytes × Bool)
    (hstep : ∀ st, step st = names.foldl bumpIf (st.1, false)) :
    ∀ (k F : Nat) (n : Bytes), FirstFree names n k → k < F →
      (whileFuel (fun (st : Bytes × Bool) => st.2) step F (n, true)).1 = us n k := by
  intro k
  induction k using Nat.strongRecOn with
  | _ k ih =>
    intro F n h hF
    cases F with
    | zero => omega
    | succ F =>
      obtain ⟨j, h1, h2, h3⟩ := pass_spec names n false
      have hjk : j ≤ k := by
        apply Classical.byContradiction
        intro hlt
        exact h.1 (h2 k (by omega))
      simp only [whileFuel, if_true, hstep, h1, Bool.false_or]
      by_cases hj : j = 0
      · subst hj
        have hk : k = 0 := by
          apply Classical.byContradiction
          intro hne
          have := h.2 0 (by omega)
          rw [us_zero] at this
          exact h3 rfl this
        subst hk
        cases F <;> simp [whileFuel, us_zero]
      · have hpos : decide (0 < j) = true := by simp; omega
        rw [hpos]
        rw [ih (k - j) (by omega) F (us n j) (firstFree_step names n k j h hjk) (by omega), us_add]
        congr 1; omega

/-- **`OneofOption`**: the model's `wrapperName` is the translated function - and both are the wrapper's base name with
    the least number of underscores that avoids every nested message, map entry and enum - whenever the translated loop is
    given at least `|names| + 1` rounds (it needs at most that many: `exists_firstFree`) -/
theorem tie_OneofOption (F : Nat) (msgName fieldName : Bytes) (A B C : List Bytes) (hF : (A ++ B ++ C).length + 1 ≤ F) :
    context_OneofOption F msgName fieldName A B C = wrapperName msgName fieldName (A ++ B ++ C) := by
  obtain ⟨k, hk, hff⟩ := exists_firstFree (A ++ B ++ C) (msgName ++ underscore :: fieldName)
  have hm : wrapperName msgName fieldName (A ++ B ++ C) = us (msgName ++ underscore :: fieldName) k := by
    unfold wrapperName
    exact go_firstFree _ k _ _ hff (by omega)
  rw [hm]
  unfold context_OneofOption
  simp only [tie_joinNames]
  exact while_firstFree (A ++ B ++ C) _ (fun st => step4_eq F msgName fieldName A B C st) k F _ hff (by omega)

/-- … and what that name is: the base name with the least number of underscores that is not a nested type's name -/
theorem OneofOption_spec (F : Nat) (msgName fieldName : Bytes) (A B C : List Bytes) (hF : (A ++ B ++ C).length + 1 ≤ F) :
    ∃ k, FirstFree (A ++ B ++ C) (msgName ++ underscore :: fieldName) k ∧
      context_OneofOption F msgName fieldName A B C = us (msgName ++ underscore :: fieldName) k := by
  obtain ⟨k, hk, hff⟩ := exists_firstFree (A ++ B ++ C) (msgName ++ underscore :: fieldName)
  refine ⟨k, hff, ?_⟩
  unfold context_OneofOption
  simp only [tie_joinNames]
  exact while_firstFree (A ++ B ++ C) _ (fun st => step4_eq F msgName fieldName A B C st) k F _ hff (by omega)

/-- non-vacuity: `M_foo` with nested `M_foo_` declared before `M_foo` needs a second round -/
example : context_OneofOption 3 [77] [102] [[77, 95, 102, 95], [77, 95, 102]] [] [] = [77, 95, 102, 95, 95] := by decide

end Pgs.GoNames
