import PgsVerif.Model.NameSplit
import PgsVerif.Generated.Code_nameHelpers
/-!
# Tie (translated code): the eight case helpers of name.go

Each helper is `n.Transform(mod, first, sep)` with two of `ID`, `strings.Title`, `strings.ToUpper`,
`strings.ToLower` and a separator; the translator reads which, from the current source.  The table
the model's conversions are computed from is that list.
-/
namespace Pgs.C15

theorem tie_nameHelpers :
    helpers = GenCode.nameHelpers.map (fun x => (x.2.1, x.2.2.1, x.2.2.2)) := by decide

theorem tie_nameHelper_names :
    GenCode.nameHelpers.map (·.1) =
      ["UpperCamelCase", "LowerCamelCase", "ScreamingSnakeCase", "LowerSnakeCase", "UpperSnakeCase", "SnakeCase",
       "LowerDotNotation", "UpperDotNotation"] := by decide

/-- `Transform(mod, first, sep)`: the translator's reading of the argument order is the source's -/
theorem tie_transformParams : GenCode.transformParams = ["mod", "first", "sep"] := by decide

end Pgs.C15
