import PgsVerif.Model.Context
/-!
# C18 — the build context is a stack of directories and prefixes

`Ctx` transcribes the linked context objects of build_context.go; `Stack` is the abstract stack
of frames the property speaks about.  `C18_refines`: every history of operations (up to the first
pop of the root, which the real code answers by failing) shows the same observations on both.
-/
namespace Pgs.C18
open Pgs Pgs.FilePath

/-- the context object `c` represents the abstract stack `s` -/
inductive Rel : Ctx → Stack → Prop where
  | root (p : Bytes) (q : Nat) : Rel (.root p q) ⟨p, q, []⟩
  | dir {c : Ctx} {s : Stack} (d : Bytes) : Rel c s → Rel (.dir c d s.prefixes) { s with frames := .dir d :: s.frames }
  | pre {c : Ctx} {s : Stack} (p : Bytes) : Rel c s → Rel (.pre c (s.prefixes ++ [p])) { s with frames := .pre p :: s.frames }

theorem prefixes_pre (s : Stack) (p : Bytes) :
    ({ s with frames := .pre p :: s.frames } : Stack).prefixes = s.prefixes ++ [p] := by
  simp [Stack.prefixes]

theorem prefixes_dir (s : Stack) (d : Bytes) :
    ({ s with frames := .dir d :: s.frames } : Stack).prefixes = s.prefixes := by
  simp [Stack.prefixes]

theorem rel_prefixes {c : Ctx} {s : Stack} (h : Rel c s) : c.prefixes = s.prefixes := by
  cases h with
  | root p q => simp [Ctx.prefixes, Stack.prefixes]
  | dir d h => simp [Ctx.prefixes, prefixes_dir]
  | pre p h => simp [Ctx.prefixes, prefixes_pre]

theorem rel_outputPath {c : Ctx} {s : Stack} (h : Rel c s) : c.outputPath = s.outputPath := by
  induction h with
  | root p q => simp [Ctx.outputPath, Stack.outputPath]
  | dir d h ih => simp [Ctx.outputPath, Stack.outputPath, ih]
  | pre p h ih => simp [Ctx.outputPath, Stack.outputPath, ih]

theorem rel_joinPath {c : Ctx} {s : Stack} (h : Rel c s) (names : List Bytes) :
    c.joinPath names = join (s.outputPath :: names) := by
  induction h with
  | root p q => simp [Ctx.joinPath, Stack.outputPath]
  | dir d h ih => simp only [Ctx.joinPath]; rw [rel_outputPath (Rel.dir d h)]
  | pre p h ih => simp only [Ctx.joinPath, ih]; simp [Stack.outputPath]

theorem rel_params {c : Ctx} {s : Stack} (h : Rel c s) : c.params = s.params := by
  induction h with
  | root p q => rfl
  | dir d h ih => simpa [Ctx.params] using ih
  | pre p h ih => simpa [Ctx.params] using ih

theorem rel_snap {c : Ctx} {s : Stack} (h : Rel c s) : snap c = s.snap := by
  unfold snap Stack.snap
  rw [rel_outputPath h, rel_joinPath h, rel_params h]
  simp only [logLine, logfLine, rel_prefixes h]
  cases s.prefixes <;> simp

theorem rel_popDir {c : Ctx} {s : Stack} (h : Rel c s) : Rel c.popDir { s with frames := dropToDir s.frames } := by
  induction h with
  | root p q => simpa [Ctx.popDir, dropToDir] using Rel.root p q
  | dir d h ih => simpa [Ctx.popDir, dropToDir] using h
  | pre p h ih => simpa [Ctx.popDir, dropToDir] using ih

/-- one operation keeps the representation (and fails on exactly the same histories) -/
theorem rel_step {c : Ctx} {s : Stack} (h : Rel c s) (op : Op) :
    (applyOp c op = none ∧ s.apply op = none) ∨
    ∃ c' s', applyOp c op = some c' ∧ s.apply op = some s' ∧ Rel c' s' := by
  cases op with
  | push p =>
    right
    refine ⟨_, _, rfl, rfl, ?_⟩
    simp only [Ctx.push, rel_prefixes h]
    exact Rel.pre p h
  | pushDir d =>
    right
    refine ⟨_, _, rfl, rfl, ?_⟩
    simp only [Ctx.pushDir, rel_prefixes h]
    exact Rel.dir (clean d) h
  | pop =>
    cases h with
    | root p q => left; simp [applyOp, Ctx.pop, Stack.apply]
    | dir d h => right; exact ⟨_, _, rfl, rfl, by simpa using h⟩
    | pre p h => right; exact ⟨_, _, rfl, rfl, by simpa using h⟩
  | popDir => right; exact ⟨_, _, rfl, rfl, rel_popDir h⟩

/-- **Refinement**: every history observed on the context objects is the history of the stack. -/
theorem C18_refines_from {c : Ctx} {s : Stack} (h : Rel c s) (ops : List Op) : run c ops = Stack.run s ops := by
  induction ops generalizing c s with
  | nil => rfl
  | cons op ops ih =>
    rcases rel_step h op with ⟨h1, h2⟩ | ⟨c', s', h1, h2, hr⟩
    · simp [run, Stack.run, h1, h2]
    · simp [run, Stack.run, h1, h2, rel_snap hr, ih hr]

theorem C18_refines (output : Bytes) (params : Nat) (ops : List Op) :
    run (mkRoot output params) ops = Stack.run ⟨clean output, params, []⟩ ops :=
  C18_refines_from (Rel.root _ _) ops

/-- Φ_C18 holds of the model for every history. -/
theorem C18_judge (output : Bytes) (params : Nat) (ops : List Op) :
    judge output params ops (run (mkRoot output params) ops) = none := by
  unfold judge
  rw [C18_refines]
  simp only [bne_self_eq_false, Bool.false_eq_true, if_false]
  have : ∀ l : List Snap, (l.zip l).find? (fun (ab : Snap × Snap) => ab.1 != ab.2) = none := by
    intro l
    rw [List.find?_eq_none]
    intro x hx
    have := List.of_mem_zip hx
    -- elements of `zip l l` are pairs of equal snapshots
    have hx' : x.1 = x.2 := by
      clear this
      induction l with
      | nil => simp at hx
      | cons a l ih =>
        simp only [List.zip_cons_cons, List.mem_cons] at hx
        rcases hx with rfl | hx
        · rfl
        · exact ih hx
    simp [hx']
  rw [this]

/-! ### the clauses of the property, read off the stack -/

/-- pushing a directory: previous path joined with the (cleaned) directory -/
theorem C18_pushDir_path (c : Ctx) (d : Bytes) : (c.pushDir d).outputPath = join [c.outputPath, clean d] := rfl
/-- pushing a prefix leaves the path unchanged -/
theorem C18_push_path (c : Ctx) (p : Bytes) : (c.push p).outputPath = c.outputPath := rfl
/-- popping undoes the most recent push of either kind -/
theorem C18_pop_push (c : Ctx) (p : Bytes) : (c.push p).pop = some c := rfl
theorem C18_pop_pushDir (c : Ctx) (d : Bytes) : (c.pushDir d).pop = some c := rfl
/-- popping a directory returns to the state before the most recent directory push, discarding
    prefixes pushed since … -/
theorem C18_popDir_pushDir (c : Ctx) (d : Bytes) (ps : List Bytes) :
    (ps.foldl Ctx.push (c.pushDir d)).popDir = c := by
  induction ps generalizing c d with
  | nil => rfl
  | cons p ps ih =>
    -- pushes on top of the directory frame are skipped one by one
    have key : ∀ (ps : List Bytes) (x : Ctx), (ps.foldl Ctx.push x).popDir = x.popDir ∨ ps = [] := by
      intro ps
      induction ps with
      | nil => intro x; right; rfl
      | cons q qs ihq =>
        intro x
        left
        simp only [List.foldl_cons]
        rcases ihq (x.push q) with h | h
        · rw [h]; rfl
        · subst h; rfl
    simp only [List.foldl_cons]
    rcases key ps ((c.pushDir d).push p) with h | h
    · rw [h]; rfl
    · subst h; rfl
/-- … and at the root stays at the root. -/
theorem C18_popDir_root (output : Bytes) (q : Nat) (ps : List Bytes) :
    (ps.foldl Ctx.push (mkRoot output q)).popDir = mkRoot output q := by
  have key : ∀ (ps : List Bytes) (x : Ctx), (ps.foldl Ctx.push x).popDir = x.popDir := by
    intro ps
    induction ps with
    | nil => intro x; rfl
    | cons q qs ihq => intro x; simp only [List.foldl_cons]; rw [ihq]; rfl
  rw [key]; rfl
/-- log lines carry all pushed prefixes, outermost first -/
theorem C18_log_prefixes (c : Ctx) (p : Bytes) : (c.push p).prefixes = c.prefixes ++ [p] ∧ ∀ d, (c.pushDir d).prefixes = c.prefixes :=
  ⟨rfl, fun _ => rfl⟩

/-! ### non-vacuity: a history that uses every operation and never pops the root -/
example : (run (mkRoot [111] 7) [.push [112], .pushDir [120], .push [113], .popDir, .pop]).length = 5 := by decide

end Pgs.C18
