import PgsVerif.Model.Context
import PgsVerif.Generated.Code
/-!
# Tie (translated code): the methods of the three kinds of build context

build_context.go's `rootContext`, `dirContext`, `prefixContext` methods are translated one by one
into `Generated/Code.lean` on every run.  The model's recursive functions over `Ctx` are, case by
case, exactly those translations applied to the results for the parent.
-/
namespace Pgs.C18
open Pgs Pgs.FilePath Pgs.GenCode

theorem tie_outputPath_root (p : Bytes) (q : Nat) : (Ctx.root p q).outputPath = root_OutputPath p := rfl
theorem tie_outputPath_dir (parent : Ctx) (p : Bytes) (pf : List Bytes) :
    (Ctx.dir parent p pf).outputPath = dir_OutputPath parent.outputPath p := rfl
theorem tie_outputPath_pre (parent : Ctx) (pf : List Bytes) :
    (Ctx.pre parent pf).outputPath = prefix_OutputPath parent.outputPath := rfl

theorem tie_joinPath_root (p : Bytes) (q : Nat) (names : List Bytes) :
    (Ctx.root p q).joinPath names = root_JoinPath (root_OutputPath p) names := rfl
theorem tie_joinPath_dir (parent : Ctx) (p : Bytes) (pf : List Bytes) (names : List Bytes) :
    (Ctx.dir parent p pf).joinPath names = dir_JoinPath (dir_OutputPath parent.outputPath p) names := rfl
theorem tie_joinPath_pre (parent : Ctx) (pf : List Bytes) (names : List Bytes) :
    (Ctx.pre parent pf).joinPath names = prefix_JoinPath parent.joinPath names := rfl

theorem tie_pop_root (p : Bytes) (q : Nat) : (Ctx.root p q).pop = root_Pop (Ctx.root p q) := rfl
theorem tie_pop_dir (parent : Ctx) (p : Bytes) (pf : List Bytes) : (Ctx.dir parent p pf).pop = dir_Pop parent := rfl
theorem tie_pop_pre (parent : Ctx) (pf : List Bytes) : (Ctx.pre parent pf).pop = prefix_Pop parent := rfl

theorem tie_popDir_root (p : Bytes) (q : Nat) : (Ctx.root p q).popDir = root_PopDir (Ctx.root p q) := rfl
theorem tie_popDir_dir (parent : Ctx) (p : Bytes) (pf : List Bytes) :
    some (Ctx.dir parent p pf).popDir = dir_PopDir (dir_Pop parent) := rfl
theorem tie_popDir_pre (parent : Ctx) (pf : List Bytes) : (Ctx.pre parent pf).popDir = prefix_PopDir parent.popDir := rfl

theorem tie_params_root (p : Bytes) (q : Nat) : (Ctx.root p q).params = root_Parameters q := rfl
theorem tie_params_pre (parent : Ctx) (pf : List Bytes) : (Ctx.pre parent pf).params = prefix_Parameters parent.params := rfl

/-- `PushDir` / `Push` of every kind of context go through `initDirContext` / `initPrefixContext`:
    the new frame holds the *cleaned* directory, resp. the debugger with the prefix pushed -/
theorem tie_pushDir (c : Ctx) (d : Bytes) :
    c.pushDir d = root_PushDir c d ∧ c.pushDir d = dir_PushDir c d ∧ c.pushDir d = prefix_PushDir c d := ⟨rfl, rfl, rfl⟩
theorem tie_push (c : Ctx) (p : Bytes) :
    c.push p = root_Push c p ∧ c.push p = dir_Push c p ∧ c.push p = prefix_Push c p := ⟨rfl, rfl, rfl⟩

end Pgs.C18
