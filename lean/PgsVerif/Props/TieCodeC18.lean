import PgsVerif.Model.Context
import PgsVerif.Generated.Code_context_Context
import PgsVerif.Generated.Code_dir_JoinPath
import PgsVerif.Generated.Code_dir_OutputPath
import PgsVerif.Generated.Code_dir_Pop
import PgsVerif.Generated.Code_dir_PopDir
import PgsVerif.Generated.Code_dir_Push
import PgsVerif.Generated.Code_dir_PushDir
import PgsVerif.Generated.Code_initDirContext
import PgsVerif.Generated.Code_initPrefixContext
import PgsVerif.Generated.Code_prefix_JoinPath
import PgsVerif.Generated.Code_prefix_OutputPath
import PgsVerif.Generated.Code_prefix_Parameters
import PgsVerif.Generated.Code_prefix_Pop
import PgsVerif.Generated.Code_prefix_PopDir
import PgsVerif.Generated.Code_prefix_Push
import PgsVerif.Generated.Code_prefix_PushDir
import PgsVerif.Generated.Code_prefixedDebugger_Push
import PgsVerif.Generated.Code_prefixedDebugger_prepend
import PgsVerif.Generated.Code_prefixedDebugger_prependFormat
import PgsVerif.Generated.Code_rootDebugger_Push
import PgsVerif.Generated.Code_root_JoinPath
import PgsVerif.Generated.Code_root_OutputPath
import PgsVerif.Generated.Code_root_Parameters
import PgsVerif.Generated.Code_root_Pop
import PgsVerif.Generated.Code_root_PopDir
import PgsVerif.Generated.Code_root_Push
import PgsVerif.Generated.Code_root_PushDir
/-!
# Tie (translated code): the methods of the three kinds of build context

build_context.go's `rootContext`, `dirContext`, `prefixContext` methods are translated one by one
into `Generated/Code.lean` on every run.  The model's recursive functions over `Ctx` are, case by
case, exactly those translations applied to the results for the parent.
-/
namespace Pgs.C18
open Pgs Pgs.FilePath Pgs.GenCode

theorem tie_outputPath_root (p : Bytes) (q : Nat) : (Ctx.root p q).outputPath = root_OutputPath p := rfl
theorem tie_outputPath_dir (parent : Ctx) (p : Bytes) (pf : List Bytes) :
    (Ctx.dir parent p pf).outputPath = dir_OutputPath parent.outputPath p := rfl
theorem tie_outputPath_pre (parent : Ctx) (pf : List Bytes) :
    (Ctx.pre parent pf).outputPath = prefix_OutputPath parent.outputPath := rfl

theorem tie_joinPath_root (p : Bytes) (q : Nat) (names : List Bytes) :
    (Ctx.root p q).joinPath names = root_JoinPath (root_OutputPath p) names := rfl
theorem tie_joinPath_dir (parent : Ctx) (p : Bytes) (pf : List Bytes) (names : List Bytes) :
    (Ctx.dir parent p pf).joinPath names = dir_JoinPath (dir_OutputPath parent.outputPath p) names := rfl
theorem tie_joinPath_pre (parent : Ctx) (pf : List Bytes) (names : List Bytes) :
    (Ctx.pre parent pf).joinPath names = prefix_JoinPath parent.joinPath names := rfl

theorem tie_pop_root (p : Bytes) (q : Nat) : (Ctx.root p q).pop = root_Pop (Ctx.root p q) := rfl
theorem tie_pop_dir (parent : Ctx) (p : Bytes) (pf : List Bytes) : (Ctx.dir parent p pf).pop = dir_Pop parent := rfl
theorem tie_pop_pre (parent : Ctx) (pf : List Bytes) : (Ctx.pre parent pf).pop = prefix_Pop parent := rfl

theorem tie_popDir_root (p : Bytes) (q : Nat) : (Ctx.root p q).popDir = root_PopDir (Ctx.root p q) := rfl
theorem tie_popDir_dir (parent : Ctx) (p : Bytes) (pf : List Bytes) :
    some (Ctx.dir parent p pf).popDir = dir_PopDir (dir_Pop parent) := rfl
theorem tie_popDir_pre (parent : Ctx) (pf : List Bytes) : (Ctx.pre parent pf).popDir = prefix_PopDir parent.popDir := rfl

theorem tie_params_root (p : Bytes) (q : Nat) : (Ctx.root p q).params = root_Parameters q := rfl
theorem tie_params_pre (parent : Ctx) (pf : List Bytes) : (Ctx.pre parent pf).params = prefix_Parameters parent.params := rfl

/-- `PushDir` / `Push` of every kind of context go through `initDirContext` / `initPrefixContext`:
    the new frame holds the *cleaned* directory, resp. the debugger with the prefix pushed -/
theorem tie_pushDir (c : Ctx) (d : Bytes) :
    c.pushDir d = root_PushDir c d ∧ c.pushDir d = dir_PushDir c d ∧ c.pushDir d = prefix_PushDir c d := ⟨rfl, rfl, rfl⟩
/-- **the constructor**: a root context holds the CLEANED output path it was given, and the parameters -/
theorem tie_Context (output : Bytes) (params : Nat) : mkRoot output params = context_Context params output := rfl

/-- … so the root's output path is clean whatever was passed (`out/`, `./gen/../out`, the empty string) -/
theorem tie_Context_outputPath (output : Bytes) (params : Nat) : (context_Context params output).outputPath = FilePath.clean output := by
  rw [← tie_Context]; rfl

theorem tie_push (c : Ctx) (p : Bytes) :
    c.push p = root_Push c p ∧ c.push p = dir_Push c p ∧ c.push p = prefix_Push c p := ⟨rfl, rfl, rfl⟩

/-! ### the prefixed debugger (debug.go): what a log line carries -/

/-- pushing a prefix stores it in brackets - on the root debugger and on a prefixed one alike -/
theorem tie_debugger_Push (p : Bytes) : rootDebugger_Push p = bracket p ∧ prefixedDebugger_Push p = bracket p := by
  constructor <;> simp [rootDebugger_Push, prefixedDebugger_Push, mkPrefixedDebugger, sprintf, sprintfAux, bracket]

/-- `Log` through a chain of prefixed debuggers (stored prefixes, outermost first): each level
    prepends its prefix to the operands and hands them to its parent -/
def logThrough (stored : List Bytes) (v : List Bytes) : List Bytes := stored.foldr prefixedDebugger_prepend v

/-- `Logf`: each level rewrites the format -/
def logfThrough (stored : List Bytes) (fmt : Bytes) : Bytes := stored.foldr prefixedDebugger_prependFormat fmt

theorem logThrough_eq (stored v : List Bytes) : logThrough stored v = stored ++ v := by
  induction stored with
  | nil => rfl
  | cons p ps ih => simp [logThrough, prefixedDebugger_prepend, List.foldr] at *; exact ih

theorem push_map (ps : List Bytes) : ps.map prefixedDebugger_Push = ps.map bracket := by
  apply List.map_congr_left; intro p _; exact (tie_debugger_Push p).2

/-- **the operands of a log line are the bracketed prefixes, outermost first, then the message** -/
theorem tie_logLine (c : Ctx) (msg : Bytes) :
    logLine c msg = joinWith [32] (logThrough (c.prefixes.map prefixedDebugger_Push) [msg]) := by
  rw [push_map, logThrough_eq]; rfl

theorem logfThrough_cons (p : Bytes) (ps : List Bytes) (fmt : Bytes) :
    logfThrough (p :: ps) fmt = prefixedDebugger_prependFormat p (logfThrough ps fmt) := rfl

/-- what `Printf` makes of a format whose only verbs are `%%`: every `%%` becomes `%`; `escPct`: a prefix with every `%`
    doubled, as `prependFormat` splices it into the format -/
def renderFmt : Bytes → Bytes
  | 37 :: 37 :: r => 37 :: renderFmt r
  | c :: r => c :: renderFmt r
  | [] => []

theorem renderFmt_cons_ne (c : Nat) (r : Bytes) (h : c ≠ 37) : renderFmt (c :: r) = c :: renderFmt r := by
  cases r with
  | nil => simp [renderFmt]
  | cons d t =>
    rw [renderFmt.eq_def]
    split
    · rename_i heq; simp at heq; exact absurd heq.1 h
    · rename_i heq; simp at heq; obtain ⟨h1, h2⟩ := heq; subst h1; subst h2; rfl
    · rename_i heq; simp at heq

theorem renderFmt_pct (r : Bytes) : renderFmt (37 :: 37 :: r) = 37 :: renderFmt r := by
  rw [renderFmt]

def escPct (p : Bytes) : Bytes := replaceAllB p [37] [37, 37]

theorem escPct_nil : escPct [] = [] := rfl
theorem escPct_cons (c : Nat) (p : Bytes) : escPct (c :: p) = (if c = 37 then [37, 37] else [c]) ++ escPct p := by
  simp only [escPct, replaceAllB, List.map_cons, List.flatten_cons]
  by_cases h : c = 37 <;> simp [h]

theorem renderFmt_escPct (p r : Bytes) : renderFmt (escPct p ++ r) = p ++ renderFmt r := by
  induction p with
  | nil => simp [escPct_nil]
  | cons c p ih =>
    rw [escPct_cons]
    by_cases h : c = 37
    · subst h
      simp only [if_true, List.cons_append, List.nil_append]
      rw [renderFmt_pct, ih]
    · simp only [h, if_false, List.cons_append, List.nil_append]
      rw [renderFmt_cons_ne c _ h, ih]

theorem renderFmt_id (f : Bytes) (h : 37 ∉ f) : renderFmt f = f := by
  induction f with
  | nil => rfl
  | cons c r ih =>
    have hc : c ≠ 37 := fun e => h (e ▸ List.mem_cons_self ..)
    have hr : 37 ∉ r := fun m => h (List.mem_cons_of_mem _ m)
    rw [renderFmt_cons_ne c r hc, ih hr]

theorem escPct_bracket_head (p r : Bytes) : (escPct (bracket p) ++ r).head? = some 91 := by
  simp [bracket, escPct_cons]

theorem prependFormat_eq (p f : Bytes) :
    prefixedDebugger_prependFormat p f = escPct p ++ (if f.head? = some 91 then f else 32 :: f) := by
  have hp : hasPrefix f [91] = decide (f.head? = some 91) := by
    cases f with
    | nil => simp [hasPrefix, isPrefixOfB]
    | cons a t =>
      by_cases h : a = 91
      · subst h; simp [hasPrefix, isPrefixOfB]
      · have : (91 == a) = false := by simp; omega
        simp [hasPrefix, isPrefixOfB, this, h]
  unfold prefixedDebugger_prependFormat
  simp only [hp, escPct]
  by_cases h : f.head? = some 91 <;> simp [h]

/-- a format rewritten by at least one level starts with `[` (the bracket of the outermost of them) -/
theorem logfThrough_bracket (ps : List Bytes) (hne : ps ≠ []) (fmt : Bytes) :
    (logfThrough (ps.map bracket) fmt).head? = some 91 := by
  cases ps with
  | nil => exact absurd rfl hne
  | cons p rest =>
    simp only [List.map_cons, logfThrough_cons, prependFormat_eq]
    exact escPct_bracket_head p _

/-- **`Logf`: what is printed is the prefixes AS THEY WERE PUSHED, run together in front of the format, a blank before it unless
    it starts with `[`** - a `%` in a prefix is doubled on the way into the format and comes out single (the format itself is
    free of verbs here, as in the observation) -/
theorem tie_logfLine (c : Ctx) (fmt : Bytes) (hfmt : 37 ∉ fmt) :
    logfLine c fmt = renderFmt (logfThrough (c.prefixes.map prefixedDebugger_Push) fmt) := by
  rw [push_map]
  unfold logfLine
  generalize c.prefixes = ps
  induction ps with
  | nil => simp [logfThrough, renderFmt_id fmt hfmt]
  | cons p rest ih =>
    simp only [List.map_cons, logfThrough_cons, List.flatten_cons, prependFormat_eq]
    rw [renderFmt_escPct]
    cases rest with
    | nil =>
      simp only [List.map_nil, List.flatten_nil, List.append_nil, logfThrough, List.foldr]
      have h32 : 37 ∉ (32 :: fmt) := by
        intro hm; rcases List.mem_cons.mp hm with h | h
        · omega
        · exact hfmt h
      by_cases h : fmt.head? = some 91
      · simp only [h, if_true]; rw [renderFmt_id fmt hfmt]
      · simp only [h, if_false]; rw [renderFmt_id _ h32]
    | cons q rest' =>
      have hb := logfThrough_bracket (q :: rest') (by simp) fmt
      simp only [hb, if_true]
      simp only at ih
      rw [← ih]
      simp [List.append_assoc]

/-- non-vacuity: a prefix `a%b` pushed, `Logf("f")`: the format handed on has the `%` doubled, the line has it single -/
example : logfThrough [prefixedDebugger_Push [97, 37, 98]] [102] = [91, 97, 37, 37, 98, 93, 32, 102] ∧
    renderFmt (logfThrough [prefixedDebugger_Push [97, 37, 98]] [102]) = [91, 97, 37, 98, 93, 32, 102] := by decide

end Pgs.C18
