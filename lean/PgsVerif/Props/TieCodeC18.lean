import PgsVerif.Model.Context
import PgsVerif.Generated.Code_context_Context
import PgsVerif.Generated.Code_dir_JoinPath
import PgsVerif.Generated.Code_dir_OutputPath
import PgsVerif.Generated.Code_dir_Pop
import PgsVerif.Generated.Code_dir_PopDir
import PgsVerif.Generated.Code_dir_Push
import PgsVerif.Generated.Code_dir_PushDir
import PgsVerif.Generated.Code_initDirContext
import PgsVerif.Generated.Code_initPrefixContext
import PgsVerif.Generated.Code_prefix_JoinPath
import PgsVerif.Generated.Code_prefix_OutputPath
import PgsVerif.Generated.Code_prefix_Parameters
import PgsVerif.Generated.Code_prefix_Pop
import PgsVerif.Generated.Code_prefix_PopDir
import PgsVerif.Generated.Code_prefix_Push
import PgsVerif.Generated.Code_prefix_PushDir
import PgsVerif.Generated.Code_prefixedDebugger_Push
import PgsVerif.Generated.Code_prefixedDebugger_prepend
import PgsVerif.Generated.Code_prefixedDebugger_prependFormat
import PgsVerif.Generated.Code_rootDebugger_Push
import PgsVerif.Generated.Code_root_JoinPath
import PgsVerif.Generated.Code_root_OutputPath
import PgsVerif.Generated.Code_root_Parameters
import PgsVerif.Generated.Code_root_Pop
import PgsVerif.Generated.Code_root_PopDir
import PgsVerif.Generated.Code_root_Push
import PgsVerif.Generated.Code_root_PushDir
/-!
# Tie (translated code): the methods of the three kinds of build context

build_context.go's `rootContext`, `dirContext`, `prefixContext` methods are translated one by one
into `Generated/Code.lean` on every run.  The model's recursive functions over `Ctx` are, case by
case, exactly those translations applied to the results for the parent.
-/
namespace Pgs.C18
open Pgs Pgs.FilePath Pgs.GenCode

theorem tie_outputPath_root (p : Bytes) (q : Nat) : (Ctx.root p q).outputPath = root_OutputPath p := rfl
theorem tie_outputPath_dir (parent : Ctx) (p : Bytes) (pf : List Bytes) :
    (Ctx.dir parent p pf).outputPath = dir_OutputPath parent.outputPath p := rfl
theorem tie_outputPath_pre (parent : Ctx) (pf : List Bytes) :
    (Ctx.pre parent pf).outputPath = prefix_OutputPath parent.outputPath := rfl

theorem tie_joinPath_root (p : Bytes) (q : Nat) (names : List Bytes) :
    (Ctx.root p q).joinPath names = root_JoinPath (root_OutputPath p) names := rfl
theorem tie_joinPath_dir (parent : Ctx) (p : Bytes) (pf : List Bytes) (names : List Bytes) :
    (Ctx.dir parent p pf).joinPath names = dir_JoinPath (dir_OutputPath parent.outputPath p) names := rfl
theorem tie_joinPath_pre (parent : Ctx) (pf : List Bytes) (names : List Bytes) :
    (Ctx.pre parent pf).joinPath names = prefix_JoinPath parent.joinPath names := rfl

theorem tie_pop_root (p : Bytes) (q : Nat) : (Ctx.root p q).pop = root_Pop (Ctx.root p q) := rfl
theorem tie_pop_dir (parent : Ctx) (p : Bytes) (pf : List Bytes) : (Ctx.dir parent p pf).pop = dir_Pop parent := rfl
theorem tie_pop_pre (parent : Ctx) (pf : List Bytes) : (Ctx.pre parent pf).pop = prefix_Pop parent := rfl

theorem tie_popDir_root (p : Bytes) (q : Nat) : (Ctx.root p q).popDir = root_PopDir (Ctx.root p q) := rfl
theorem tie_popDir_dir (parent : Ctx) (p : Bytes) (pf : List Bytes) :
    some (Ctx.dir parent p pf).popDir = dir_PopDir (dir_Pop parent) := rfl
theorem tie_popDir_pre (parent : Ctx) (pf : List Bytes) : (Ctx.pre parent pf).popDir = prefix_PopDir parent.popDir := rfl

theorem tie_params_root (p : Bytes) (q : Nat) : (Ctx.root p q).params = root_Parameters q := rfl
theorem tie_params_pre (parent : Ctx) (pf : List Bytes) : (Ctx.pre parent pf).params = prefix_Parameters parent.params := rfl

/-- `PushDir` / `Push` of every kind of context go through `initDirContext` / `initPrefixContext`:
    the new frame holds the *cleaned* directory, resp. the debugger with the prefix pushed -/
theorem tie_pushDir (c : Ctx) (d : Bytes) :
    c.pushDir d = root_PushDir c d ∧ c.pushDir d = dir_PushDir c d ∧ c.pushDir d = prefix_PushDir c d := ⟨rfl, rfl, rfl⟩
/-- **the constructor**: a root context holds the CLEANED output path it was given, and the parameters -/
theorem tie_Context (output : Bytes) (params : Nat) : mkRoot output params = context_Context params output := rfl

/-- … so the root's output path is clean whatever was passed (`out/`, `./gen/../out`, the empty string) -/
theorem tie_Context_outputPath (output : Bytes) (params : Nat) : (context_Context params output).outputPath = FilePath.clean output := by
  rw [← tie_Context]; rfl

theorem tie_push (c : Ctx) (p : Bytes) :
    c.push p = root_Push c p ∧ c.push p = dir_Push c p ∧ c.push p = prefix_Push c p := ⟨rfl, rfl, rfl⟩

/-! ### the prefixed debugger (debug.go): what a log line carries -/

/-- pushing a prefix stores it in brackets - on the root debugger and on a prefixed one alike -/
theorem tie_debugger_Push (p : Bytes) : rootDebugger_Push p = bracket p ∧ prefixedDebugger_Push p = bracket p := by
  constructor <;> simp [rootDebugger_Push, prefixedDebugger_Push, mkPrefixedDebugger, sprintf, sprintfAux, bracket]

/-- `Log` through a chain of prefixed debuggers (stored prefixes, outermost first): each level
    prepends its prefix to the operands and hands them to its parent -/
def logThrough (stored : List Bytes) (v : List Bytes) : List Bytes := stored.foldr prefixedDebugger_prepend v

/-- `Logf`: each level rewrites the format -/
def logfThrough (stored : List Bytes) (fmt : Bytes) : Bytes := stored.foldr prefixedDebugger_prependFormat fmt

theorem logThrough_eq (stored v : List Bytes) : logThrough stored v = stored ++ v := by
  induction stored with
  | nil => rfl
  | cons p ps ih => simp [logThrough, prefixedDebugger_prepend, List.foldr] at *; exact ih

theorem push_map (ps : List Bytes) : ps.map prefixedDebugger_Push = ps.map bracket := by
  apply List.map_congr_left; intro p _; exact (tie_debugger_Push p).2

/-- **the operands of a log line are the bracketed prefixes, outermost first, then the message** -/
theorem tie_logLine (c : Ctx) (msg : Bytes) :
    logLine c msg = joinWith [32] (logThrough (c.prefixes.map prefixedDebugger_Push) [msg]) := by
  rw [push_map, logThrough_eq]; rfl

theorem logfThrough_cons (p : Bytes) (ps : List Bytes) (fmt : Bytes) :
    logfThrough (p :: ps) fmt = prefixedDebugger_prependFormat p (logfThrough ps fmt) := rfl

/-- a format rewritten by at least one level starts with `[` (the bracket of the outermost of them) -/
theorem logfThrough_bracket (ps : List Bytes) (hne : ps ≠ []) (fmt : Bytes) :
    (logfThrough (ps.map bracket) fmt).head? = some 91 := by
  cases ps with
  | nil => exact absurd rfl hne
  | cons p rest =>
    simp only [List.map_cons, logfThrough_cons, prefixedDebugger_prependFormat, bracket]
    split <;> simp

/-- **`Logf`: the prefixes run together in front of the format, a blank before it unless it starts with `[`** -/
theorem tie_logfLine (c : Ctx) (fmt : Bytes) :
    logfLine c fmt = logfThrough (c.prefixes.map prefixedDebugger_Push) fmt := by
  rw [push_map]
  unfold logfLine
  generalize c.prefixes = ps
  induction ps with
  | nil => rfl
  | cons p rest ih =>
    simp only [List.map_cons, logfThrough_cons, List.flatten_cons]
    cases rest with
    | nil =>
      simp only [List.map_nil, List.flatten_nil, List.append_nil, logfThrough, List.foldr, prefixedDebugger_prependFormat, hasPrefix]
      cases fmt with
      | nil => simp [isPrefixOfB]
      | cons a t =>
        by_cases h : a = 91
        · subst h; simp [isPrefixOfB]
        · have : (91 == a) = false := by simp; omega
          simp [isPrefixOfB, this, h]
    | cons q rest' =>
      have hb := logfThrough_bracket (q :: rest') (by simp) fmt
      simp only at ih
      rw [← ih]
      simp only [prefixedDebugger_prependFormat, hasPrefix]
      have hp : isPrefixOfB [91] ((List.map bracket (q :: rest')).flatten ++ if fmt.head? = some 91 then fmt else 32 :: fmt) = true := by
        rw [ih]
        cases hl : logfThrough (List.map bracket (q :: rest')) fmt with
        | nil => rw [hl] at hb; simp at hb
        | cons a t => rw [hl] at hb; simp at hb; subst hb; simp [isPrefixOfB]
      simp [bracket, isPrefixOfB]

end Pgs.C18
