import PgsVerif.Model.AstSem
import PgsVerif.Generated.Code_astEntrySteps
/-!
# Tie (translated code): the entry points and the registry of ast.go

The translator lists the steps of the five entry points, of `hydratePackage`, of the registry
(`add` / `resolveFQN` / `mustSeen` / `Lookup` / `Targets` / `Packages`) and of `assignDependent` in
source order.  They are what the AST model transcribes:

* `ProcessCodeGeneratorRequest`: every name of `file_to_generate` becomes a key of `Targets` (its file
  is filled in when that file is hydrated); **every** file of `proto_file`, in request order, is hydrated
  into the package its `package` statement names (one package per name: `hydratePackage` returns the one
  already made); only then are the extensions, collected on the way, given their type and their
  extendee - which must have been seen (`mustSeen` ends the run otherwise);
* the `Bidirectional` variants are the same graph, then one `assignDependent` per field of every message
  of every file of every package; the `FileDescriptorSet` variants wrap the set in a request without targets;
* the registry: an entity is stored under its fully-qualified name - a file under its own name - and
  `Lookup` is a read of that map, nothing else;
* `assignDependent`: which edges one field contributes (C05's `dependents` / `dependencies` relations).
-/
namespace Pgs.AST
open Pgs.GenCode

def entrySteps (fn : String) : List String := (astEntrySteps.lookup fn).getD ["<no such function>"]

/-- targets first, then every file in request order, then the extensions (the step before these is the allocation of the empty graph) -/
theorem tie_entry_request :
    (entrySteps ".ProcessCodeGeneratorRequest").drop 1 =
      ["range req.GetFileToGenerate() {", "g.targets[f] = nil", "}", "range req.GetProtoFile() {", "pkg = g.hydratePackage(f)", "pkg.addFile(g.hydrateFile(pkg, f))", "}", "range g.extensions {", "e.addType(g.hydrateFieldType(e))", "extendee = g.mustSeen(e.Descriptor().GetExtendee()).(Message)", "e.setExtendee(extendee)", "if extendee != nil {", "extendee.addExtension(e)", "}", "}", "return g"] := by decide

/-- the same graph, then the dependency edges of every field -/
theorem tie_entry_bidi :
    entrySteps ".ProcessCodeGeneratorRequestBidirectional" =
      ["g = ProcessCodeGeneratorRequest(debug, req)", "range g.Packages() {", "range pkg.Files() {", "range f.AllMessages() {", "range m.Fields() {", "assignDependent(field.Type(), m)", "}", "}", "}", "}", "return g"] := by decide

/-- a descriptor set is a request without targets -/
theorem tie_entry_fdset :
    entrySteps ".ProcessFileDescriptorSet" =
      ["req = plugin_go.CodeGeneratorRequest{ProtoFile: fdset.File}", "return ProcessCodeGeneratorRequest(debug, &req)"] := by decide

/-- … bidirectionally -/
theorem tie_entry_fdset_bidi :
    entrySteps ".ProcessFileDescriptorSetBidirectional" =
      ["req = plugin_go.CodeGeneratorRequest{ProtoFile: fdset.File}", "return ProcessCodeGeneratorRequestBidirectional(debug, &req)"] := by decide

/-- the deprecated alias -/
theorem tie_entry_deprecated :
    entrySteps ".ProcessDescriptors" =
      ["return ProcessCodeGeneratorRequest(debug, req)"] := by decide

/-- one package per package name: the first file naming it makes it -/
theorem tie_hydratePackage :
    entrySteps "graph.hydratePackage" =
      ["lookup = f.GetPackage()", "if pkg, exists = g.packages[lookup]; exists {", "return pkg", "}", "p = &pkg{fd: f}", "g.packages[lookup] = p", "return p"] := by decide

/-- a missing extendee ends the run -/
theorem tie_mustSeen :
    entrySteps "graph.mustSeen" =
      ["if existing, seen = g.entities[fqn]; seen {", "return existing", "}", "g.d.Failf(fqn)", "return nil"] := by decide

/-- registration under the resolved name -/
theorem tie_add :
    entrySteps "graph.add" =
      ["g.entities[g.resolveFQN(e)] = e"] := by decide

/-- a file is registered under its own name, everything else under its fully-qualified name -/
theorem tie_resolveFQN :
    entrySteps "graph.resolveFQN" =
      ["if f, ok = e.(File); ok {", "return f.Name().String()", "}", "return e.FullyQualifiedName()"] := by decide

/-- lookup is a read of the registry -/
theorem tie_Lookup :
    entrySteps "graph.Lookup" =
      ["e, ok = g.entities[name]", "return e, ok"] := by decide

/-- the targets as recorded -/
theorem tie_Targets :
    entrySteps "graph.Targets" =
      ["return g.targets"] := by decide

/-- the packages as recorded -/
theorem tie_Packages :
    entrySteps "graph.Packages" =
      ["return g.packages"] := by decide

/-- the edges one field contributes -/
theorem tie_assignDependent :
    entrySteps ".assignDependent" =
      ["if ft.IsEnum() {", "ft.Enum().addDependent(parent)", "} else if ft.IsEmbed() {", "ft.Embed().addDependent(parent)", "parent.addDependency(ft.Embed())", "} else if ft.IsRepeated() || ft.IsMap() {", "if ft.Element().IsEnum() {", "ft.Element().Enum().addDependent(parent)", "} else if ft.Element().IsEmbed() {", "ft.Element().Embed().addDependent(parent)", "parent.addDependency(ft.Embed())", "}", "if ft.IsMap() {", "if ft.Key().IsEnum() {", "ft.Key().Enum().addDependent(parent)", "}", "if ft.Key().IsEmbed() {", "ft.Key().Embed().addDependent(parent)", "parent.addDependency(ft.Embed())", "}", "if ft.Element().IsEmbed() {", "ft.Element().Embed().addDependent(parent)", "parent.addDependency(ft.Element().Embed())", "}", "}", "if ft.IsRepeated() {", "if ft.Element().IsEmbed() {", "parent.addDependency(ft.Element().Embed())", "}", "}", "}"] := by decide

end Pgs.AST
