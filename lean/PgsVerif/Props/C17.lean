import PgsVerif.Model.GoTypes
import PgsVerif.Props.C09
/-!
# C17 — predicted Go types, packages and paths equal what protoc-gen-go emits

Facts relating the two transcriptions (pgsgo vs protoc-gen-go v1.23.0): the scalar type table,
the pointer rule (via C09's presence theorem), package name and import path on the stated domain
of `go_package` options.
-/
namespace Pgs.GoTypes
open Pgs Pgs.AST

/-- the 14 scalar kinds that are neither enum, message nor group -/
def scalarKinds : List Nat := [1, 2, 3, 4, 5, 6, 7, 8, 9, 12, 13, 15, 16, 17, 18]

/-- **Scalar table**: both sides map every scalar kind to the same Go type. -/
theorem C17_scalar_table : ∀ t ∈ scalarKinds, PgsGo.scalarType t = Protogen.scalarGo t := by decide

/-- **Pointer rule** for singular scalar fields: pgsgo adds the pointer exactly when
    protoc-gen-go does (both follow field presence, C09). -/
theorem C17_scalar_pointer (f : FileD) (fd : FieldD) (ok : FieldOK f fd) :
    pgsPresence f fd = prPresence f fd := by
  obtain ⟨h1, h2⟩ := C09_presence f fd ok
  rw [h1, h2]

/-! ### package names -/

/-- a go_package last element of the stated domain: starts with a letter or digit -/
def usable (last : Bytes) : Prop := ∃ c rest, last = c :: rest ∧ isAlnum c = true

theorem sanitize_head (c : Nat) (rest : Bytes) (hc : isAlnum c = true) :
    PgsGo.sanitize (c :: rest) = c :: PgsGo.sanitize rest := by
  simp [PgsGo.sanitize, sanitizeRunes, hc]

/-- on a usable last element pgsgo's sanitising + keyword/digit prefix is `GoSanitized` -/
theorem sanitized_agree (last : Bytes) (h : usable last) :
    (let pkg := PgsGo.sanitize last
     let pkg := if goKeywordsB.contains pkg then underscore :: pkg else pkg
     match pkg with
     | c :: _ => if GoNames.isDigitB c then underscore :: pkg else pkg
     | [] => pkg) = Protogen.goSanitized last := by
  obtain ⟨c, rest, rfl, hc⟩ := h
  have hs := sanitize_head c rest hc
  unfold Protogen.goSanitized
  have hmap : sanitizeRunes (c :: rest) = PgsGo.sanitize (c :: rest) := rfl
  simp only [hmap, hs]
  by_cases hk : goKeywordsB.contains (c :: PgsGo.sanitize rest) = true
  · -- a keyword starts with a letter
    have hnd : GoNames.isDigitB underscore = false := by decide
    simp only [hk, if_true, Bool.true_or, hnd, Bool.false_eq_true, if_false]
  · have hk' : goKeywordsB.contains (c :: PgsGo.sanitize rest) = false := by simpa using hk
    simp only [hk', Bool.false_eq_true, if_false, Bool.false_or]
    by_cases hl : isLetterB c = true
    · have hd : GoNames.isDigitB c = false := by
        simp only [isLetterB, GoNames.isDigitB, Bool.or_eq_true, Bool.and_eq_true, decide_eq_true_eq] at hl ⊢
        rcases hl with ⟨h1, h2⟩ | ⟨h1, h2⟩ <;> simp <;> omega
      simp only [hl, hd, Bool.not_true, Bool.false_eq_true, if_false]
    · have hl' : isLetterB c = false := by simpa using hl
      have hd : GoNames.isDigitB c = true := by
        simp only [isAlnum, isLetterB, GoNames.isDigitB, Bool.or_eq_true, Bool.and_eq_true, decide_eq_true_eq,
          Bool.or_eq_false_iff, Bool.and_eq_false_iff, decide_eq_false_iff_not] at hc hl' ⊢
        omega
      simp only [hl', hd, Bool.not_false, if_true]

/-- **Package name** agrees for the three go_package forms (`path;name` with one semicolon,
    `path/last`, bare name) whenever the last element is usable. -/
theorem C17_package_name (input opt : Bytes)
    (hsemi : ∀ i, lastIndexOf semicolon opt = some i → firstIndexOf semicolon opt = some i)
    (hlast : usable (match firstIndexOf semicolon opt with
                      | some i => opt.drop (i+1)
                      | none => match lastIndexOf slash opt with | some i => opt.drop (i+1) | none => opt)) :
    PgsGo.packageName input opt = Protogen.packageName opt := by
  unfold PgsGo.packageName PgsGo.optionPackage Protogen.packageName Protogen.goPackageOption
  cases hl : lastIndexOf semicolon opt with
  | some i =>
    have hf := hsemi i hl
    simp only [hf] at hlast ⊢
    exact sanitized_agree _ hlast
  | none =>
    have hf : firstIndexOf semicolon opt = none := by
      unfold lastIndexOf at hl
      unfold firstIndexOf
      cases hr : opt.reverse.findIdx? (· == semicolon) with
      | some j => simp [hr] at hl
      | none =>
        rw [List.findIdx?_eq_none_iff] at hr ⊢
        intro x hx
        exact hr x (List.mem_reverse.mpr hx)
    simp only [hf] at hlast ⊢
    cases hs : lastIndexOf slash opt with
    | some j => simp only [hs] at hlast ⊢; exact sanitized_agree _ hlast
    | none => simp only [hs] at hlast ⊢; exact sanitized_agree _ hlast

/-- **Import path** agrees for the three forms when a semicolon, if any, is unique and preceded by
    a non-empty path. -/
theorem C17_import_path (input opt : Bytes)
    (hsemi : ∀ i, lastIndexOf semicolon opt = some i → firstIndexOf semicolon opt = some i ∧ opt.take i ≠ [])
    (hnone : lastIndexOf semicolon opt = none → firstIndexOf semicolon opt = none)
    (hne : opt ≠ []) :
    PgsGo.importPath input opt = Protogen.importPath input opt := by
  unfold PgsGo.importPath PgsGo.optionPackage Protogen.importPath Protogen.goPackageOption
  cases hl : lastIndexOf semicolon opt with
  | some i =>
    obtain ⟨hf, hnz⟩ := hsemi i hl
    simp [hf, hnz]
  | none =>
    simp only [hnone hl]
    cases hs : lastIndexOf slash opt with
    | some j => simp [hne]
    | none => simp

/-! ### non-vacuity: "example.com/x/9lives" and "a/b;type" -/
example : PgsGo.packageName [102] [97,47,57,108] = Protogen.packageName [97,47,57,108] := by decide
example : Protogen.packageName [97,47,98,59,116,121,112,101] = [95,116,121,112,101] := by decide

end Pgs.GoTypes
