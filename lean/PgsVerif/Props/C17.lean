import PgsVerif.Model.GoTypes
namespace Pgs.GoTypes
theorem placeholder_C17 : True := trivial
end Pgs.GoTypes
