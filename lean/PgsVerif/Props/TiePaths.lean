import PgsVerif.Generated.Tables
/-!
# Tie by translation: SourceCodeInfo path constants

`Generated/Tables.lean` is rewritten from /repo's current `source_code_info.go` on every run
(harness/cmd/factgen).  The model of hydration, of the walk and of location routing
(`Model/Hydrate`, `Model/Walk`, `Model/AstSem2`) writes declaration paths with the literals below:
`[4,i]` a top-level message, `[5,i]` a top-level enum, `[6,i]` a service, `[7,i]` a file-level
extension, and inside a message `2` fields, `3` nested types, `4` enums, `6` extensions, `8`
oneofs; `2` the values of an enum and the methods of a service; `[2]` the package statement and
`[12]` the syntax statement.  If the source changes one of these constants this theorem no longer
checks, and C01 / C07 / C08 are reported as no longer shown.
-/
namespace Pgs.Tie

def expectedPathConsts : List (String × Nat) :=
  [("enumTypePath", 5), ("enumTypeValuePath", 2), ("extensionPath", 7), ("messageTypeEnumTypePath", 4),
   ("messageTypeExtensionPath", 6), ("messageTypeFieldPath", 2), ("messageTypeNestedTypePath", 3),
   ("messageTypeOneofDeclPath", 8), ("messageTypePath", 4), ("packagePath", 2), ("servicePath", 6),
   ("serviceTypeMethodPath", 2), ("syntaxPath", 12)]

theorem tie_pathConsts : Generated.pathConsts = expectedPathConsts := rfl

end Pgs.Tie
