import PgsVerif.Generated.Tables
import PgsVerif.Props.C17
/-!
# Tie by translation: scalar type table, package-name pattern, Go keywords (lang/go)
-/
namespace Pgs.Tie
open Pgs.GoTypes

/-- every row of the source's `scalarType` switch is what the model answers … -/
theorem tie_scalarType : ∀ p ∈ Generated.scalarType, PgsGo.scalarType p.1 = p.2 := by decide
/-- … and the switch covers exactly the scalar kinds of `C17_scalar_table` -/
theorem tie_scalar_domain : Generated.scalarType.map (·.1) = scalarKinds := by decide
/-- the character class `sanitize` complements (`isAlnum`) is the one the source compiles -/
theorem tie_nonAlphaNum : Generated.nonAlphaNumPattern = [91, 94, 97, 45, 122, 65, 45, 90, 48, 45, 57, 93] := rfl
/-- the keyword list of the model is that of the toolchain's go/token -/
theorem tie_goKeywords : Generated.goKeywords = goKeywordsB := by decide

end Pgs.Tie
