import PgsVerif.Model.Comment
namespace Pgs.C20
theorem placeholder_C20 : True := trivial
end Pgs.C20
