import PgsVerif.Proofs.Comment2
/-!
# C20 — comment wrapping keeps every word, marks every line, respects the width

Model: `C20.lines wrap text` — `bufio.Scanner` driven by `splitComment(wrap - 3)` over the text
as decorated runes, each token printed as `// ` + its words joined by single blanks.
Theorems for **all** texts, **all** rune decorations (bytes, blank or not) and **all** widths
(also ≤ 3 and negative); the only hypothesis: a blank rune occupies at least one byte.
-/
namespace Pgs.C20
open Pgs

/-- one call of the split function on the buffered data -/
theorem splitComment_spec (w : Int) (data : List R) (eof : Bool) :
    let res := splitComment w data eof
    (res.token = none → fields res.rest = fields data ∧ res.rest.length ≤ data.length ∧
        (eof = true → fields data = [])) ∧
    (∀ t, res.token = some t →
        fields data = fields t ++ fields res.rest ∧ fields t ≠ [] ∧ res.rest.length < data.length ∧
        ((∃ r ∈ t, r.sp = true) → (width t : Int) < w)) := by
  intro res
  have hsplit : data = data.takeWhile (·.sp) ++ data.dropWhile (·.sp) := (List.takeWhile_append_dropWhile).symm
  have hlead : ∀ r ∈ data.takeWhile (·.sp), r.sp = true := by
    intro r hr
    exact List.all_eq_true.mp (List.all_takeWhile (p := (·.sp)) (l := data)) r hr
  have hhead : ∀ x, (data.dropWhile (·.sp)).head? = some x → x.sp = false := by
    intro x hx
    have := List.head?_dropWhile_not (·.sp) data
    rw [hx] at this
    simpa using this
  have hf : fields data = fields (data.dropWhile (·.sp)) := by
    conv => lhs; rw [hsplit]
    exact fields_leading_spaces _ _ hlead
  have hlen : (data.dropWhile (·.sp)).length ≤ data.length := (List.dropWhile_sublist _).length_le
  have spec := scanFrom_spec w eof (width (data.takeWhile (·.sp))) (data.dropWhile (·.sp)) hhead
    (data.dropWhile (·.sp)) (width (data.takeWhile (·.sp))) [] none (by simp) (by simp [width_nil])
    (by intro r hr; simp at hr)
  refine ⟨?_, ?_⟩
  · intro hn
    obtain ⟨h1, h2⟩ := spec.none_case hn
    have hres : res.rest = data.dropWhile (·.sp) := h1
    refine ⟨by rw [hres, hf], by rw [hres]; exact hlen, ?_⟩
    intro he
    rw [hf, h2 he]; rfl
  · intro t ht
    obtain ⟨h1, h2, h3, h4⟩ := spec.some_case t ht
    have h3' : res.rest.length < (data.dropWhile (·.sp)).length := h3
    refine ⟨by rw [hf]; exact h1, h2, by omega, ?_⟩
    intro hsp
    have := h4 hsp
    omega

/-- what the property says about one output line -/
def GoodLine (wrap : Int) (ws : List Bytes) : Prop :=
  ws ≠ [] ∧ (ws.length > 1 → (lineLen ws : Int) ≤ wrap)

theorem good_of_token (wrap : Int) (t : List R) (hb : ∀ r ∈ t, r.sp = true → 1 ≤ r.b.length)
    (hne : fields t ≠ []) (hw : (∃ r ∈ t, r.sp = true) → (width t : Int) < wrap - 3) : GoodLine wrap (fields t) := by
  refine ⟨hne, ?_⟩
  intro hlen
  have hsp : ∃ r ∈ t, r.sp = true := by
    apply Classical.byContradiction
    intro hno
    have : ∀ r ∈ t, r.sp = false := by
      intro r hr
      cases h : r.sp with
      | false => rfl
      | true => exact absurd ⟨r, hr, h⟩ hno
    have := fields_no_space t this
    omega
  have hbud := fields_budget t hb
  have := hw hsp
  unfold lineLen
  omega

/-- the scanner loop: every token emitted is a good line and the words are preserved -/
theorem scanLoop_spec (wrap : Int) (text : List R) (hb : ∀ r ∈ text, r.sp = true → 1 ≤ r.b.length) :
    ∀ (fuel : Nat) (data : List R) (eof : Bool) (acc : List (List R)),
      (∀ r ∈ data, r ∈ text) →
      data.length + (if eof then 1 else 2) ≤ fuel →
      (acc.map fields).flatten ++ fields data = fields text →
      (∀ t ∈ acc, GoodLine wrap (fields t)) →
      let out := scanLoop (wrap - 3) fuel data eof acc
      (out.map fields).flatten = fields text ∧ ∀ t ∈ out, GoodLine wrap (fields t) := by
  intro fuel
  induction fuel with
  | zero => intro data eof acc _ hf; cases eof <;> simp at hf
  | succ fuel ih =>
    intro data eof acc hsub hfuel hwords hgood
    unfold scanLoop
    by_cases h0 : data = [] ∧ eof = false
    · obtain ⟨rfl, rfl⟩ := h0
      simp only [and_self, if_true]
      exact ih [] true acc hsub (by simp at hfuel ⊢; omega) hwords hgood
    · simp only [h0, if_false]
      obtain ⟨hnone, hsome⟩ := splitComment_spec (wrap - 3) data eof
      cases htok : (splitComment (wrap - 3) data eof).token with
      | some t =>
        obtain ⟨h1, h2, h3, h4⟩ := hsome t htok
        simp only
        -- runes of the token and of the rest come from the data
        have hmem : ∀ r, r ∈ t ∨ r ∈ (splitComment (wrap - 3) data eof).rest → True := fun _ _ => trivial
        -- sub-list facts are not needed for `rest` beyond membership in text: derive them from the
        -- model: both are built from runes of `data`
        have hsub_rest : ∀ r ∈ (splitComment (wrap - 3) data eof).rest, r ∈ text := by
          intro r hr
          exact hsub r (rest_subset (wrap - 3) data eof r hr)
        have hsub_tok : ∀ r ∈ t, r ∈ text := by
          intro r hr
          exact hsub r (token_subset (wrap - 3) data eof t htok r hr)
        apply ih _ eof (acc ++ [t]) hsub_rest
        · cases eof <;> simp at hfuel ⊢ <;> omega
        · simp only [List.map_append, List.map_cons, List.map_nil, List.flatten_append, List.flatten_cons,
            List.flatten_nil, List.append_nil, List.append_assoc]
          rw [← h1]; exact hwords
        · intro x hx
          rcases List.mem_append.mp hx with hx | hx
          · exact hgood x hx
          · simp at hx; subst hx
            exact good_of_token wrap x (fun r hr => hb r (hsub_tok r hr)) h2 h4
      | none =>
        obtain ⟨h1, h2, h3⟩ := hnone htok
        simp only
        cases eof with
        | true =>
          simp only [if_true]
          refine ⟨?_, hgood⟩
          rw [h3 rfl] at hwords
          simpa using hwords
        | false =>
          simp only [Bool.false_eq_true, if_false]
          have hsub_rest : ∀ r ∈ (splitComment (wrap - 3) data false).rest, r ∈ text := by
            intro r hr
            exact hsub r (rest_subset (wrap - 3) data false r hr)
          apply ih _ true acc hsub_rest
          · simp at hfuel ⊢; omega
          · rw [h1]; exact hwords
          · exact hgood

/-- **C20**: wrapping preserves all words in order; every output line carries at least one word
    (the marker is printed in front of every token by construction of `model`); every line
    holding more than one word fits within the requested width. -/
theorem C20_wrap (wrap : Int) (text : List R) (hb : ∀ r ∈ text, r.sp = true → 1 ≤ r.b.length) :
    (lines wrap text).flatten = fields text ∧
    (∀ l ∈ lines wrap text, l ≠ []) ∧
    (∀ l ∈ lines wrap text, l.length > 1 → (lineLen l : Int) ≤ wrap) := by
  have := scanLoop_spec wrap text hb (text.length + 3) text false [] (fun r hr => hr) (by simp) (by simp)
    (by intro t ht; simp at ht)
  obtain ⟨h1, h2⟩ := this
  unfold lines tokens
  refine ⟨h1, ?_, ?_⟩
  · intro l hl
    obtain ⟨t, ht, rfl⟩ := List.mem_map.mp hl
    exact (h2 t ht).1
  · intro l hl hlen
    obtain ⟨t, ht, rfl⟩ := List.mem_map.mp hl
    exact (h2 t ht).2 hlen

/-- every line of the model output carries the marker -/
theorem C20_marker (wrap : Int) (text : List R) : ∀ l ∈ model wrap text, l.marker = true := by
  intro l hl
  obtain ⟨ws, _, rfl⟩ := List.mem_map.mp hl
  rfl

/-- Φ_C20 holds of the model for every text and width. -/
theorem C20_judge (wrap : Int) (text : List R) (hb : ∀ r ∈ text, r.sp = true → 1 ≤ r.b.length) :
    judge wrap text (model wrap text) = none := by
  obtain ⟨h1, h2, h3⟩ := C20_wrap wrap text hb
  unfold judge
  have e1 : ((model wrap text).map (·.words)).flatten = fields text := by
    simp only [model, List.map_map, Function.comp_def]; simpa using h1
  have e2 : (model wrap text).any (fun l => !l.marker) = false := by
    simp [model]
  have e3 : (model wrap text).any (fun l => l.words.isEmpty) = false := by
    simp only [model, List.any_map, List.any_eq_false]
    intro l hl
    simpa using h2 l hl
  have e4 : (model wrap text).any (fun l => decide (l.words.length > 1) && decide ((lineLen l.words : Int) > wrap)) = false := by
    simp only [model, List.any_map, List.any_eq_false]
    intro l hl
    by_cases hlen : l.length > 1
    · have := h3 l hl hlen
      simp [hlen]; omega
    · simp [hlen]
  simp [e1, e2, e3, e4]

/-! ### non-vacuity: "aaaa bbbb" at width 9 gives two lines; a three-word text at width 20 gives multi-word lines -/
private def asc (s : List Nat) : List R := s.map fun c => ⟨[c], c == 32 || c == 10⟩
example : lines 9 (asc [97,97,97,97,32,98,98,98,98]) = [[[97,97,97,97]], [[98,98,98,98]]] := by decide
example : lines 20 (asc [97,98,32,99,100,10,101]) = [[[97,98],[99,100],[101]]] := by decide

end Pgs.C20
