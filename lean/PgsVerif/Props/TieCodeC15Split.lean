import PgsVerif.Model.NameSplit
import PgsVerif.Proofs.Bytes
import PgsVerif.Props.C15
import PgsVerif.Generated.Code_name_Split
import PgsVerif.Generated.Code_name_Transform
/-!
# Tie (translated code): `Name.Split` of name.go, whole

The translator turns the current source of `Split` into `name_Split`: the empty name, the dot branch
(`strings.LastIndex(ns, ".") >= 0`), the underscore branch (`> 0`, with its in-place repair of a
leading underscore: `parts[1] = "_" + parts[1]; return parts[1:]`) and the camel-case scanner - the
`for _, r := range ns` loop with its five state variables, whose body becomes `name_Split_step1`
(every `if` / `else if` of the source, in order, each assigning what the source assigns).

`Transform` is translated too (`name_Transform`: the parts of `Split`, each replaced in place, joined).

`tie_step` proves one round of the translated loop equal to the model's `step` on every state and
rune; `tie_Split` proves the model's `split` - the function every C15 theorem is about - equal to
the translation on every name.  The property theorems are then restated on the translated function.

Reading conventions (the dictionary of the translator, trusted): a name is the list of runes
`range` yields; `bytes.Buffer` is the list of runes written to it (`Len() > 0`, `RuneCount > 1`
read its length, `Reset` empties it); `unicode.IsUpper(r) || unicode.IsTitle(r)` and
`unicode.IsDigit(r)` are the parameters `up` / `dg` (the theorems hold for every classification);
`ss[0] != '_'` reads the first rune (0x5F occurs in UTF-8 only as itself); `strings.TrimSuffix(ss,
string(pr))` with `pr` the last rune of `ss` drops the last rune; `strings.LastIndex` is a rune
position, whose sign and being zero are those of the byte position.
-/
namespace Pgs.C15
open Pgs Pgs.GenCode

theorem lastIdxAux_ge (c : Nat) : ∀ (s : List Nat) (i : Nat) (acc : Int),
    (lastIdxAux c s i acc ≥ 0 ↔ (acc ≥ 0 ∨ c ∈ s)) := by
  intro s
  induction s with
  | nil => intro i acc; simp [lastIdxAux]
  | cons x xs ih =>
    intro i acc
    simp only [lastIdxAux]
    by_cases hx : x = c
    · subst hx
      simp only [beq_self_eq_true, if_true, ih, List.mem_cons, true_or, or_true, iff_true]
      left; exact Int.natCast_nonneg i
    · have : (x == c) = false := by simpa using hx
      simp only [this, Bool.false_eq_true, if_false, ih, List.mem_cons]
      have : ¬ c = x := fun h => hx h.symm
      simp [this]

theorem lastIdxAux_gt (c : Nat) : ∀ (s : List Nat) (i : Nat) (acc : Int), (1 ≤ i) →
    (lastIdxAux c s i acc > 0 ↔ (acc > 0 ∨ c ∈ s)) := by
  intro s
  induction s with
  | nil => intro i acc _; simp [lastIdxAux]
  | cons x xs ih =>
    intro i acc h
    simp only [lastIdxAux]
    by_cases hx : x = c
    · subst hx
      simp only [beq_self_eq_true, if_true, ih _ _ (Nat.le_succ_of_le h), List.mem_cons, true_or, or_true, iff_true]
      left; show (0 : Int) < Int.ofNat i; simp; omega
    · have : (x == c) = false := by simpa using hx
      simp only [this, Bool.false_eq_true, if_false, ih _ _ (Nat.le_succ_of_le h), List.mem_cons]
      have : ¬ c = x := fun h => hx h.symm
      simp [this]

theorem lastIndex_ge (s : Runes) (c : Nat) : decide (lastIndexR s [c] ≥ 0) = s.contains c := by
  have h : lastIndexR s [c] ≥ 0 ↔ c ∈ s := by
    unfold lastIndexR
    rw [lastIdxAux_ge]
    constructor
    · rintro (h | h)
      · omega
      · exact h
    · exact Or.inr
  rw [Bool.eq_iff_iff]
  simp only [decide_eq_true_eq, List.contains_iff_mem]
  exact h

theorem lastIndex_gt (s : Runes) (c : Nat) : decide (lastIndexR s [c] > 0) = (s.drop 1).contains c := by
  have h : lastIndexR s [c] > 0 ↔ c ∈ s.drop 1 := by
    cases s with
    | nil => simp [lastIndexR, lastIdxAux]
    | cons x xs =>
      simp only [lastIndexR, lastIdxAux, List.drop_succ_cons, List.drop_zero]
      rw [lastIdxAux_gt c xs 1 _ (Nat.le_refl 1)]
      constructor
      · rintro (h | h)
        · exfalso; split at h <;> simp at h
        · exact h
      · exact Or.inr
  rw [Bool.eq_iff_iff]
  simp only [decide_eq_true_eq, List.contains_iff_mem]
  exact h

theorem splitOn_two (c : Nat) : ∀ rs : Runes, c ∈ rs → ∃ a b t, splitOn c rs = a :: b :: t := by
  intro rs
  induction rs with
  | nil => intro h; simp at h
  | cons x xs ih =>
    intro h
    by_cases hx : x = c
    · subst hx
      rw [splitOn_cons_sep]
      cases hs : splitOn x xs with
      | nil => exact absurd hs (splitOn_ne_nil _ _)
      | cons b t => exact ⟨[], b, t, rfl⟩
    · have hc : c ∈ xs := by
        rcases List.mem_cons.mp h with h | h
        · exact absurd h.symm hx
        · exact h
      obtain ⟨a, b, t, he⟩ := ih hc
      refine ⟨x :: a, b, t, ?_⟩
      simp [splitOn, hx, he]

def toTup (s : St) : List Runes × Runes × Bool × Bool × Bool := (s.parts, s.buf, s.capt, s.lodash, s.num)

theorem foldl_tup {f : (List Runes × Runes × Bool × Bool × Bool) → Nat → (List Runes × Runes × Bool × Bool × Bool)} {g : St → Nat → St}
    (h : ∀ s r, f (toTup s) r = toTup (g s r)) : ∀ (l : List Nat) (s0 : St), List.foldl f (toTup s0) l = toTup (List.foldl g s0 l) := by
  intro l
  induction l with
  | nil => intro s0; rfl
  | cons r rs ih => intro s0; simp only [List.foldl_cons, h, ih]

theorem len_eq0 {α} (l : List α) : (Int.ofNat l.length == (0 : Int)) = l.isEmpty := by
  cases l <;> simp <;> omega
theorem len_gt0 {α} (l : List α) : decide (Int.ofNat l.length > (0 : Int)) = !l.isEmpty := by
  cases l <;> simp <;> omega
theorem len_gt1 {α} (l : List α) : decide (Int.ofNat l.length > (1 : Int)) = decide (l.length > 1) := by
  simp; omega
theorem len_ge1 {α} (l : List α) : decide (Int.ofNat l.length ≥ (1 : Int)) = decide (l.length ≥ 1) := by
  simp; omega
theorem len_ne2 {α} (l : List α) : (Int.ofNat l.length != (2 : Int)) = (l.length != 2) := by
  rw [Bool.eq_iff_iff]; simp; omega

set_option maxHeartbeats 1000000 in
theorem tie_step_nil (up dg : Nat → Bool) (n : Bytes) (parts : List Runes) (capt lodash num : Bool) (r : Nat) :
    name_Split_step1 up dg n (toTup ⟨parts, [], capt, lodash, num⟩) r = toTup (step up dg ⟨parts, [], capt, lodash, num⟩ r) := by
  simp only [toTup, name_Split_step1, step, bufReset, bufWriteRune, decodeLastRuneR, underscore, len_eq0, len_gt0, len_gt1, len_ge1, len_ne2]
  by_cases hr : r = 95 <;> rcases parts with _ | ⟨p, ps⟩ <;>
    cases hu : up r <;> cases hd : dg r <;> cases capt <;> cases num <;> cases lodash <;> simp [hr]

set_option maxHeartbeats 1000000 in
theorem tie_step_cons (up dg : Nat → Bool) (n : Bytes) (parts : List Runes) (a : Nat) (buf : Runes) (capt lodash num : Bool) (r : Nat) :
    name_Split_step1 up dg n (toTup ⟨parts, a :: buf, capt, lodash, num⟩) r = toTup (step up dg ⟨parts, a :: buf, capt, lodash, num⟩ r) := by
  simp only [toTup, name_Split_step1, step, bufReset, bufWriteRune, decodeLastRuneR, underscore, len_eq0, len_gt0, len_gt1, len_ge1, len_ne2]
  rcases buf with _ | ⟨b, _ | ⟨c, rest⟩⟩ <;>
    cases hu : up r <;> cases hd : dg r <;> cases capt <;> cases num <;> cases lodash <;> simp
  all_goals (try (rw [Bool.eq_iff_iff]))
  all_goals (try (have hl : ∃ pr, (c :: rest).getLast? = some pr := by
                    cases h : (c :: rest).getLast? with
                    | none => simp at h
                    | some v => exact ⟨v, rfl⟩
                  obtain ⟨pr, hpr⟩ := hl
                  simp only [hpr, Option.getD_some]))
  all_goals (try (by_cases ha : a = 95 <;> simp [ha]))
  all_goals (try exact ⟨fun h => decide_eq_true h, fun h => of_decide_eq_true h⟩)
  all_goals (try simp)

theorem tie_step (up dg : Nat → Bool) (n : Bytes) (s : St) (r : Nat) :
    name_Split_step1 up dg n (toTup s) r = toTup (step up dg s r) := by
  obtain ⟨parts, buf, capt, lodash, num⟩ := s
  cases buf with
  | nil => exact tie_step_nil ..
  | cons a buf => exact tie_step_cons ..

theorem tie_Split (up dg : Nat → Bool) (rs : Runes) : split up dg rs = name_Split up dg rs := by
  unfold name_Split split
  simp only [id, lastIndex_ge, lastIndex_gt]
  by_cases h0 : rs = []
  · subst h0; simp
  · have h0' : (rs == ([] : Bytes)) = false := by simpa using h0
    simp only [h0, h0', if_false, Bool.false_eq_true]
    by_cases hd : rs.contains dot = true
    · have h46 : rs.contains 46 = true := hd
      simp only [h46, if_true, splitStr, dot]
    · have h46 : rs.contains 46 = false := by simpa [dot] using hd
      simp only [hd, h46, if_false, Bool.false_eq_true]
      by_cases hu : (rs.drop 1).contains underscore = true
      · have h95 : (rs.drop 1).contains 95 = true := hu
        simp only [hu, h95, if_true, splitStr]
        have hmem : underscore ∈ rs := List.mem_of_mem_tail (by simpa using hu)
        obtain ⟨a, b, t, he⟩ := splitOn_two underscore rs hmem
        have he' : splitOn 95 rs = a :: b :: t := he
        simp only [he, he']
        cases a with
        | nil => simp [listGetB, listSetB, underscore]
        | cons x xs => simp [listGetB]
      · have h95 : (rs.drop 1).contains 95 = false := by simpa [underscore] using hu
        simp only [hu, h95, if_false, Bool.false_eq_true, camel]
        have := foldl_tup (f := name_Split_step1 up dg rs) (g := step up dg) (tie_step up dg rs) rs St.init
        simp only [toTup, St.init] at this
        rw [this]
        rfl

/-! ### `Transform`: the loop that replaces every part in place, then `strings.Join` -/

theorem mapIdx_const {α β} (f : α → β) : ∀ l : List α, List.mapIdx (fun _ p => f p) l = l.map f := by
  intro l
  induction l with
  | nil => rfl
  | cons a l ih => simp [List.mapIdx_cons, ih]

theorem transformParts_mapIdx (first mod : Runes → Runes) (sep : Runes) (l : List Runes) :
    transformParts first mod sep l =
      joinWith sep (List.mapIdx (fun idx_ p => let i : Int := Int.ofNat idx_; if (i == (0 : Int)) then (first p) else (mod p)) l) := by
  cases l with
  | nil => rfl
  | cons p ps =>
    have h : ∀ (i : Nat), ((Int.ofNat (i + 1)) == (0 : Int)) = false := by
      intro i; simp; omega
    simp only [transformParts, List.mapIdx_cons, h]
    simp [mapIdx_const]

/-- **`Transform`** -/
theorem tie_Transform (up dg : Nat → Bool) (first mod : Runes → Runes) (sep rs : Runes) :
    transform up dg first mod sep rs = name_Transform up dg mod first sep rs := by
  simp only [transform, name_Transform, id, joinStr, ← tie_Split, transformParts_mapIdx]

/-! ### the C15 theorems, on the translated functions -/

/-- **losslessness**: joining what the translated `Split` returns, with the separator the name was split on, gives the name back -/
theorem C15_lossless_translated (up dg : Nat → Bool) (rs : Runes) :
    joinWith (sepOf rs) (name_Split up dg rs) = rs := by
  rw [← tie_Split]; exact C15_lossless up dg rs

/-- **segmentation**: the translated `Split` returns the documented dot / underscore / camel-case words -/
theorem C15_segments_translated (up dg : Nat → Bool) (rs : Runes) (hcls : classOK up dg rs = true) :
    name_Split up dg rs = specSplit up dg rs := by
  rw [← tie_Split]; exact C15_segments up dg rs hcls

/-- it never returns no parts -/
theorem C15_split_ne_nil_translated (up dg : Nat → Bool) (rs : Runes) : name_Split up dg rs ≠ [] := by
  rw [← tie_Split]; exact split_ne_nil up dg rs

/-- **conversions**: every case conversion (the translated `Transform`) is the parts of the translated `Split`, the first through
    `first`, the others through `mod`, joined by the separator -/
theorem C15_transform_translated (up dg : Nat → Bool) (first mod : Runes → Runes) (sep : Runes) (rs : Runes) :
    ∃ p ps, name_Split up dg rs = p :: ps ∧
      name_Transform up dg mod first sep rs = joinWith sep (first p :: ps.map mod) := by
  rw [← tie_Split, ← tie_Transform]; exact C15_transform up dg first mod sep rs

/-- … so all conversions of one name agree up to letter case and separators -/
theorem C15_conversions_agree_translated (up dg : Nat → Bool) (first mod cf : Runes → Runes) (sep : Runes) (rs : Runes)
    (hcf : ∀ a b, cf (a ++ b) = cf a ++ cf b) (hsep : cf sep = [])
    (hf : ∀ p, cf (first p) = cf p) (hm : ∀ p, cf (mod p) = cf p) :
    cf (name_Transform up dg mod first sep rs) = ((name_Split up dg rs).map cf).flatten := by
  rw [← tie_Split, ← tie_Transform]; exact C15_conversions_agree up dg first mod cf sep rs hcf hsep hf hm

/-- non-vacuity, with ASCII classes: "fooBarID9" and "_fooBar" -/
example : name_Split (fun r => decide (65 ≤ r ∧ r ≤ 90)) (fun r => decide (48 ≤ r ∧ r ≤ 57)) [102, 111, 111, 66, 97, 114, 73, 68, 57]
    = [[102, 111, 111], [66, 97, 114], [73, 68], [57]] := by decide
example : name_Split (fun r => decide (65 ≤ r ∧ r ≤ 90)) (fun r => decide (48 ≤ r ∧ r ≤ 57)) [95, 102, 111, 111, 66, 97, 114]
    = [[95, 102, 111, 111], [66, 97, 114]] := by decide
example : name_Split (fun _ => false) (fun _ => false) [95, 97, 95, 98] = [[95, 97], [98]] := by decide

end Pgs.C15
