import PgsVerif.Model.GoNames
import PgsVerif.Generated.Code_goNameSteps
/-!
# Tie (translated code): the naming rules of lang/go/name.go, by kind of node

Read from the current source in order: the type switch of `context.Name` (one bracket per clause),
the conflict loop of `OneofOption` and the walk of `uniqueNames` (whose closure `unique` is translated
on its own, `TieCodeC16.tie_unique`).  These are the rules `Model/GoNames.lean` transcribes for the
pgsgo side (`msgNames`, `uniqueNames`, `wrapperName`) and `C16_file_names` compares with
protoc-gen-go's.
-/
namespace Pgs.GoNames
open Pgs.GenCode

def goNameStepsOf (fn : String) : List String := (goNameSteps.lookup fn).getD ["<no such function>"]

set_option maxRecDepth 4000 in
/-- which rule names which kind of node: packages and files by their Go package name; messages and enums by `joinChild` along the nesting; fields and oneofs by `uniqueNames` of their message (an extension: camel case with the protected names replaced); enum values prefixed by the enum's parent's name (or the enum's own, at file level); services by their server name -/
theorem tie_steps_context_Name :
    goNameStepsOf "context.Name" =
      ["decl type ChildEntity interface { Name() pgs.Name Parent() pgs.ParentEntity }",
       "case pgs.Package {",
       "return c.PackageName(en)",
       "}",
       "case pgs.File {",
       "return c.PackageName(en)",
       "}",
       "case ChildEntity {",
       "if p, ok = en.Parent().(pgs.Message); ok {",
       "return joinChild(c.Name(p), en.Name())",
       "}",
       "return PGGUpperCamelCase(en.Name())",
       "}",
       "case pgs.Field {",
       "if m = en.Message(); m != nil {",
       "fields, _ = uniqueNames(m)",
       "return fields[en.FullyQualifiedName()]",
       "}",
       "return replaceProtected(PGGUpperCamelCase(en.Name()))",
       "}",
       "case pgs.OneOf {",
       "_, oneofs = uniqueNames(en.Message())",
       "return oneofs[en.FullyQualifiedName()]",
       "}",
       "case pgs.EnumValue {",
       "if _, ok = en.Enum().Parent().(pgs.File); ok {",
       "return joinNames(c.Name(en.Enum()), en.Name())",
       "}",
       "return joinNames(c.Name(en.Enum().Parent()), en.Name())",
       "}",
       "case pgs.Service {",
       "return c.ServerName(en)",
       "}",
       "case pgs.Entity {",
       "return PGGUpperCamelCase(en.Name())",
       "}",
       "default {",
       "panic()",
       "}"] := by decide

set_option maxRecDepth 4000 in
/-- the wrapper type of a oneof member: `<Message>_<Field>`, with `_` appended while it collides with a nested message, map entry or enum - the loop starts over after every rename -/
theorem tie_steps_context_OneofOption :
    goNameStepsOf "context.OneofOption" =
      ["n = joinNames(c.Name(field.Message()), c.Name(field))",
       "for conflict := true; conflict {",
       "conflict = false",
       "range field.Message().Messages() {",
       "if c.Name(msg) == n {",
       "n, conflict = n + \"_\", true",
       "}",
       "}",
       "range field.Message().MapEntries() {",
       "if c.Name(msg) == n {",
       "n, conflict = n + \"_\", true",
       "}",
       "}",
       "range field.Message().Enums() {",
       "if c.Name(en) == n {",
       "n, conflict = n + \"_\", true",
       "}",
       "}",
       "}",
       "return n"] := by decide

set_option maxRecDepth 4000 in
/-- fields in declaration order, each named by `unique` (getter reserved); a oneof is named - without a getter - when its first member is met -/
theorem tie_steps_uniqueNames :
    goNameStepsOf ".uniqueNames" =
      ["used = make(map[pgs.Name]bool, len(protectedNames))",
       "range protectedNames {",
       "used[n] = true",
       "}",
       "unique = <function literal>",
       "fields, oneofs = map[string]pgs.Name{}, map[string]pgs.Name{}",
       "range m.Fields() {",
       "fields[f.FullyQualifiedName()] = unique(PGGUpperCamelCase(f.Name()), true)",
       "if o = f.OneOf(); o != nil && o.Fields()[0] == f {",
       "oneofs[o.FullyQualifiedName()] = unique(PGGUpperCamelCase(o.Name()), false)",
       "}",
       "}",
       "return fields, oneofs"] := by decide

end Pgs.GoNames
