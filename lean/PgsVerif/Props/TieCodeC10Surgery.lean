import PgsVerif.Model.Persist
import PgsVerif.Generated.Code_persister_indexOfFile
import PgsVerif.Generated.Code_persister_insertAppend
import PgsVerif.Generated.Code_persister_insertFile
import PgsVerif.Generated.Code_persister_tailOfFile
/-!
# Tie (translated code): the list surgery of the persister

`indexOfFile`, `tailOfFile`, `insertFile`, `insertAppend` of persister.go are translated from the current
source - loops and in-place updates included - as functions over the list of response chunks with Go's
int indices and the -1 sentinel.  The model's index arithmetic (the definitions `C10_refines` is about)
is proved equal to the translations on every response and every non-empty name.
-/

/-! ### the list surgery of the persister: `indexOfFile`, `tailOfFile`, `insertFile`, `insertAppend` -/
namespace Pgs.Persist
open Pgs Pgs.GenCode

/-- a chunk of the model's flat response as the message the Go code handles -/
def toResp (f : RF) : RespFile := ⟨f.name, f.ip, some f.content⟩

theorem pred_eq (n : Bytes) (hn : n ≠ []) (f : RF) :
    ((getName (toResp f) == n) && ((toResp f).insertionPoint == none)) = isFileNamed n f := by
  unfold getName toResp isFileNamed
  cases hname : f.name with
  | none =>
    have : ¬ (([] : Bytes) = n) := fun e => hn e.symm
    simp [this, hn]
  | some m => simp

/-- **`indexOfFile`** (for a non-empty name - the only names the persister looks up) -/
theorem tie_indexOfFile (fs : List RF) (n : Bytes) (hn : n ≠ []) :
    persister_indexOfFile (fs.map toResp) n = match indexOfFile fs n with
      | some i => Int.ofNat i
      | none => -1 := by
  unfold persister_indexOfFile indexOfFile
  rw [List.findIdx?_map]
  have hp : ((fun f => ((getName f == n) && (f.insertionPoint == none))) ∘ toResp) = isFileNamed n := by
    funext f; exact pred_eq n hn f
  rw [hp, List.findIdx?_eq_guard_findIdx_lt]
  by_cases h : List.findIdx (isFileNamed n) fs < fs.length
  · simp [Option.guard, h]
  · simp [Option.guard, h]

theorem named_eq (f : RF) : (!(getName (toResp f) != ([] : Bytes))) = !named f := by
  unfold getName toResp named
  cases f.name <;> simp

/-- **`tailOfFile`** -/
theorem tie_tailOfFile (fs : List RF) (n : Bytes) (hn : n ≠ []) :
    persister_tailOfFile (fs.map toResp) n = match tailOfFile fs n with
      | some i => Int.ofNat i
      | none => -1 := by
  unfold persister_tailOfFile tailOfFile
  rw [tie_indexOfFile fs n hn]
  cases hi : indexOfFile fs n with
  | none => simp
  | some i =>
    simp only [Int.ofNat_eq_natCast]
    have h1 : ¬ ((i : Int) = (-1 : Int)) := by omega
    have h2 : Int.toNat ((i : Int) + 1) = i + 1 := by omega
    simp only [beq_iff_eq, h1, if_false, h2, ← List.map_drop, List.takeWhile_map, List.length_map]
    have hq : ((fun x_ => !(getName x_ != ([] : Bytes))) ∘ toResp) = fun f => !named f := by
      funext f; exact named_eq f
    rw [hq]
    rfl

/-- **`insertFile`** -/
theorem tie_insertFile (fs : List RF) (f : RF) (ow : Bool) (hn : f.name.getD [] ≠ []) :
    persister_insertFile (fs.map toResp) (toResp f) ow = (insertFile fs f ow).map toResp := by
  unfold persister_insertFile insertFile
  cases ow with
  | false => simp
  | true =>
    have hg : getName (toResp f) = f.name.getD [] := rfl
    simp only [if_true, hg, tie_indexOfFile fs _ hn]
    cases hi : indexOfFile fs (f.name.getD []) with
    | none => simp
    | some i =>
      simp only [Int.ofNat_eq_natCast]
      have h1 : (i : Int) ≥ 0 := by omega
      have h2 : Int.toNat (i : Int) = i := by omega
      simp [h1, h2, List.map_set]

/-- **`insertAppend`** -/
theorem tie_insertAppend (fs : List RF) (n : Bytes) (f : RF) (hn : n ≠ []) :
    (match persister_insertAppend (fs.map toResp) n (toResp f) with
      | .ok l => some l
      | .error _ => none) = match insertAppend fs n f with
      | .ok l => some (l.map toResp)
      | .error _ => none := by
  unfold persister_insertAppend insertAppend
  rw [tie_tailOfFile fs n hn]
  cases ht : tailOfFile fs n with
  | none => simp
  | some i =>
    simp only [Int.ofNat_eq_natCast]
    have h1 : (i : Int) > (-1 : Int) := by omega
    have h1' : (-1 : Int) < (i : Int) := h1
    have h2 : Int.toNat ((i : Int) + 1) = i + 1 := by omega
    simp [h1', h2, List.map_take, List.map_drop]

end Pgs.Persist
