import PgsVerif.Proofs.CleanName
/-!
# C11 — generator artifacts cannot address paths outside protoc's output directory

Model: `C11.cleanName` (transcription of `cleanGeneratorFileName`) over `FilePath.clean`
(segment-level model of Unix `filepath.Clean`).  All statements are for **every** byte string.
-/
namespace Pgs.C11
open Pgs Pgs.FilePath

/-- shape of `cleanName` on a non-empty relative name -/
theorem cleanName_rel (n : Bytes) (habs : isAbs n = false) (hne : n ≠ []) :
    cleanName n =
      (let out := cleanSegs false (splitOn slash n)
       let c := if out = [] then dotSeg else joinWith [slash] out
       if c = dotSeg ∨ isPrefixOfB dotdot c = true then .rejected else .accepted c) := by
  simp [cleanName, clean, habs, hne]

/-- (a) absolute, empty, normalising to `.`, or climbing names are rejected -/
theorem C11_rejects (n : Bytes)
    (h : isAbs n = true ∨ n = [] ∨ isDot n = true ∨ climbs n = true) : cleanName n = .rejected := by
  by_cases habs : isAbs n = true
  · simp [cleanName, habs]
  · have habs' : isAbs n = false := by simpa using habs
    by_cases hne : n = []
    · subst hne; simp [cleanName, clean, isAbs]
    · rw [cleanName_rel n habs' hne]
      have hinv := inv_final (splitOn slash n)
      rcases h with h | h | h | h
      · exact absurd h habs
      · exact absurd h hne
      · -- walk = some []  ⇒ stack empty ⇒ Clean = "."
        have hw : walk (splitOn slash n) = some [] := by simpa [isDot] using h
        rcases hinv with ⟨hs, _⟩ | ⟨hs, _⟩
        · rw [hw] at hs
          have : List.foldl (cleanStep false) [] (splitOn slash n) = [] := (Option.some.inj hs).symm
          simp [cleanSegs, this]
        · rw [hw] at hs; cases hs
      · -- walk = none ⇒ `..` at the bottom of the stack ⇒ Clean starts with ".."
        have hw : walk (splitOn slash n) = none := by simpa [climbs] using h
        rcases hinv with ⟨hs, _⟩ | ⟨_, hl⟩
        · rw [hw] at hs; cases hs
        · have hr : ∃ rest, cleanSegs false (splitOn slash n) = dotdot :: rest := by
            unfold cleanSegs
            generalize List.foldl (cleanStep false) [] (splitOn slash n) = st at hl
            have : st.reverse.head? = some dotdot := by simpa [List.head?_reverse] using hl
            cases hrev : st.reverse with
            | nil => simp [hrev] at this
            | cons a t => simp [hrev] at this; exact ⟨t, by rw [this]⟩
          obtain ⟨rest, hr⟩ := hr
          simp [hr, prefix_of_head_dotdot]

/-- everything `cleanName` accepts: the facts the other clauses are derived from -/
theorem accepted_facts (n c : Bytes) (h : cleanName n = .accepted c) :
    isAbs n = false ∧ n ≠ [] ∧ ∃ st, walk (splitOn slash n) = some st ∧ st ≠ [] ∧
      (∀ s ∈ st, nameSeg s ∧ slash ∉ s) ∧ c = joinWith [slash] st.reverse ∧
      isPrefixOfB dotdot c = false := by
  have habs : isAbs n = false := by
    cases hb : isAbs n with
    | false => rfl
    | true => simp [cleanName, hb] at h
  have hne : n ≠ [] := by
    intro e; subst e; simp [cleanName, clean, isAbs] at h
  refine ⟨habs, hne, ?_⟩
  rw [cleanName_rel n habs hne] at h
  have hinv := inv_final (splitOn slash n)
  have hmem := foldl_cleanStep_mem false (splitOn slash n) []
  generalize hst : List.foldl (cleanStep false) [] (splitOn slash n) = st at hinv hmem
  have hcs : cleanSegs false (splitOn slash n) = st.reverse := by simp [cleanSegs, hst]
  simp only [hcs] at h
  by_cases hnil : st = []
  · subst hnil; simp at h
  · have hrn : st.reverse ≠ [] := by simpa using hnil
    simp only [hrn, if_false] at h
    split at h
    · cases h
    · rename_i hcond
      cases h
      have hp : isPrefixOfB dotdot (joinWith [slash] st.reverse) = false := by
        cases hb : isPrefixOfB dotdot (joinWith [slash] st.reverse) with
        | false => rfl
        | true => exact absurd (Or.inr hb) hcond
      rcases hinv with ⟨hw, hn⟩ | ⟨_, hl⟩
      · refine ⟨st, hw, hnil, ?_, rfl, hp⟩
        intro s hs
        refine ⟨hn s hs, ?_⟩
        rcases hmem s hs with h0 | h1 | h2
        · simp at h0
        · exact splitOn_no_sep slash n s h1
        · exact absurd h2 (hn s hs).2.2
      · -- bottom of the stack is `..`: impossible, the result would start with ".."
        exfalso
        have : st.reverse.head? = some dotdot := by simpa [List.head?_reverse] using hl
        cases hrev : st.reverse with
        | nil => exact hrn hrev
        | cons a t =>
          simp [hrev] at this; subst this
          rw [hrev, prefix_of_head_dotdot] at hp; cases hp

/-- (b) every accepted name reaches the response normalised — relative, slash-separated, with no
    empty, `.` or `..` segment — and denotes the same file as the name given, strictly inside the
    directory it is resolved against (confinement), for every such directory. -/
theorem C11_accepted_normal (n c : Bytes) (h : cleanName n = .accepted c) :
    isAbs c = false ∧ (splitOn slash c).all properSeg = true ∧
    ∀ base : List Seg,
      denote base (splitOn slash c) = denote base (splitOn slash n) ∧
      ∃ names, names ≠ [] ∧ denote base (splitOn slash n) = names ++ base := by
  obtain ⟨_, _, st, hw, hne, hall, hc, _⟩ := accepted_facts n c h
  have hrn : st.reverse ≠ [] := by simpa using hne
  have hsplit : splitOn slash c = st.reverse := by
    rw [hc]; exact splitOn_joinWith slash st.reverse hrn (fun x hx => (hall x (by simpa using hx)).2)
  have hproper : ∀ s ∈ st.reverse, properSeg s = true := by
    intro s hs; exact (properSeg_iff s).mpr (hall s (by simpa using hs))
  refine ⟨?_, ?_, ?_⟩
  · -- relative: the first segment is non-empty
    cases hr : st.reverse with
    | nil => exact absurd hr hrn
    | cons a t =>
      have ha : a ≠ [] := (hall a (by have : a ∈ st.reverse := by rw [hr]; exact List.mem_cons_self ..
                                      simpa using this)).1.1
      have hsl : slash ∉ a := (hall a (by have : a ∈ st.reverse := by rw [hr]; exact List.mem_cons_self ..
                                          simpa using this)).2
      rw [hc, hr]
      cases a with
      | nil => exact absurd rfl ha
      | cons x xs =>
        have hx : x ≠ slash := fun e => hsl (e ▸ List.mem_cons_self ..)
        cases t with
        | nil => simp [joinWith, isAbs, hx]
        | cons q qs => rw [joinWith_cons_cons]; simp [isAbs, hx]
  · rw [hsplit]; exact List.all_eq_true.mpr hproper
  · intro base
    have h1 : denote base (splitOn slash n) = st ++ base := by
      have := denote_of_walk (splitOn slash n) [] base st (by simpa [walk] using hw)
      simpa [denote] using this
    have h2 : denote base (splitOn slash c) = st ++ base := by
      rw [hsplit]
      have hw' := walk_names st.reverse [] (fun s hs => (hall s (by simpa using hs)).1)
      have := denote_of_walk st.reverse [] base (st.reverse.reverse ++ []) hw'
      simpa [denote] using this
    exact ⟨by rw [h1, h2], st, hne, h1⟩

/-- (c) every normalised relative name not beginning with two dots is accepted unchanged -/
theorem C11_accepts_normalised (n : Bytes) (h : normalised n = true) : cleanName n = .accepted n := by
  have ⟨⟨hne, hall⟩, hpre⟩ : (n ≠ [] ∧ (splitOn slash n).all properSeg = true) ∧ isPrefixOfB dotdot n = false := by
    simpa [normalised] using h
  have hnames : ∀ s ∈ splitOn slash n, nameSeg s := fun s hs =>
    ((properSeg_iff s).mp (List.all_eq_true.mp hall s hs)).1
  have hsne := splitOn_ne_nil slash n
  have habs : isAbs n = false := by
    cases n with
    | nil => exact absurd rfl hne
    | cons x xs =>
      cases hb : isAbs (x :: xs) with
      | false => rfl
      | true =>
        have hx : x = slash := by simpa [isAbs] using hb
        subst hx
        have := hnames [] (by rw [splitOn_cons_sep]; exact List.mem_cons_self ..)
        exact absurd rfl this.1
  rw [cleanName_rel n habs hne]
  have hfold := foldl_names false (splitOn slash n) [] hnames
  have hcs : cleanSegs false (splitOn slash n) = splitOn slash n := by simp [cleanSegs, hfold]
  simp only [hcs, hsne, if_false, joinWith_splitOn]
  have hnd : n ≠ dotSeg := by
    intro e; subst e
    have := hnames dotSeg (by decide)
    exact this.2.1 rfl
  simp [hnd, hpre]

/-- Φ_C11 holds of the model on every input: the checker used on implementation observations
    never fires on what `cleanName` computes. -/
theorem C11_judge (n : Bytes) : judge n (cleanName n) = none := by
  cases hr : cleanName n with
  | rejected =>
    simp only [judge]
    cases hn : normalised n with
    | false => simp
    | true => rw [C11_accepts_normalised n hn] at hr; cases hr
  | accepted c =>
    obtain ⟨habs, hne, st, hw, hstne, hall, hc, _⟩ := accepted_facts n c hr
    obtain ⟨hcabs, hprop, _⟩ := C11_accepted_normal n c hr
    have hrn : st.reverse ≠ [] := by simpa using hstne
    have hsplit : splitOn slash c = st.reverse := by
      rw [hc]; exact splitOn_joinWith slash st.reverse hrn (fun x hx => (hall x (by simpa using hx)).2)
    have hclimb : climbs n = false := by simp [climbs, hw]
    have hdot : isDot n = false := by simp [isDot, hw, hstne]
    have hwalk : (walk (splitOn slash n) != some (splitOn slash c).reverse) = false := by
      rw [hsplit, hw]; simp
    have hnorm : (normalised n && c != n) = false := by
      cases hn : normalised n with
      | false => simp
      | true =>
        rw [C11_accepts_normalised n hn] at hr
        cases hr; simp
    simp [judge, habs, hne, hclimb, hdot, hcabs, hprop, hwalk, hnorm]

/-! ### non-vacuity (byte literals: "a/./b/../c" ↦ "a/c"; "a/../../b" climbs; "a/.." is ".") -/
example : cleanName [97,47,46,47,98,47,46,46,47,99] = .accepted [97,47,99] := by decide
example : normalised [97,47,99] = true := by decide
example : climbs [97,47,46,46,47,46,46,47,98] = true ∧ cleanName [97,47,46,46,47,46,46,47,98] = .rejected := by decide
example : isDot [97,47,46,46] = true := by decide

end Pgs.C11
