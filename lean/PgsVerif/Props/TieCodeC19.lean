import PgsVerif.Props.C19
import PgsVerif.Generated.Code
/-!
# Tie (translated code): the typed accessors of `Parameters`

`StrDefault / Str / SetStr / OutputPath / SetOutputPath / IntDefault / Int / SetInt / UintDefault /
Uint / SetUint / BoolDefault / Bool / SetBool` are translated statement by statement from the current
parameters.go (`Generated/Code.lean`): a map lookup with presence test becomes a `match` on the model's
`get`, `p[name] = v` the model's `set`, the strconv calls the model's codecs (with the base and bit
size the source passes).  The clauses of C19 about typed values are stated here **on the translated
accessors themselves**: what a setter stores, the getter of the same type reads back; a key that is
present with an empty value is present (not the default); a bare key reads as `true`.
-/
namespace Pgs.C19
open Pgs Pgs.GenCode

theorem get_set_same (m : Map) (k v : Bytes) : get (set m k v) k = some v := by
  rw [get_set]; simp

/-- a string comes back as it was stored - also the empty string (present, not "unset") -/
theorem tie_Str_SetStr (p : Map) (k v d : Bytes) : parameters_StrDefault (parameters_SetStr p k v) k d = v := by
  simp [parameters_StrDefault, parameters_SetStr, get_set_same]

theorem tie_StrDefault_absent (p : Map) (k d : Bytes) (h : get p k = none) : parameters_StrDefault p k d = d := by
  simp [parameters_StrDefault, h]

theorem tie_StrDefault_present (p : Map) (k d v : Bytes) (h : get p k = some v) : parameters_StrDefault p k d = v := by
  simp [parameters_StrDefault, h]

theorem tie_Str (p : Map) (k : Bytes) : parameters_Str p k = (get p k).getD [] := by
  unfold parameters_Str parameters_StrDefault; cases get p k <;> rfl

/-- `OutputPath` is the `output_path` parameter, "." when absent; `SetOutputPath` stores it there -/
theorem tie_OutputPath (p : Map) :
    parameters_OutputPath p = (get p Generated.outputPathKey).getD [46] := by
  unfold parameters_OutputPath parameters_StrDefault; cases get p Generated.outputPathKey <;> rfl

theorem tie_SetOutputPath (p : Map) (path : Bytes) :
    parameters_OutputPath (parameters_SetOutputPath p path) = path := by
  simp [parameters_OutputPath, parameters_SetOutputPath, tie_Str_SetStr]

/-- **int round trip through the real accessors** -/
theorem tie_Int_SetInt (p : Map) (k : Bytes) (i d : Int) (hlo : -(2:Int)^63 ≤ i) (hhi : i < 2^63) :
    parameters_IntDefault (parameters_SetInt p k i) k d = .ok i := by
  simp [parameters_IntDefault, parameters_SetInt, get_set_same, atoi, optE, C19_int_roundtrip i hlo hhi]

theorem tie_Int_absent (p : Map) (k : Bytes) (d : Int) (h : get p k = none) : parameters_IntDefault p k d = .ok d := by
  simp [parameters_IntDefault, h]

theorem tie_Int (p : Map) (k : Bytes) : parameters_Int p k = parameters_IntDefault p k 0 := rfl

/-- **uint round trip** -/
theorem tie_Uint_SetUint (p : Map) (k : Bytes) (n d : Nat) (h : n < 2 ^ 64) :
    parameters_UintDefault (parameters_SetUint p k n) k d = .ok n := by
  simp [parameters_UintDefault, parameters_SetUint, get_set_same, parseUintE, formatUintB, optE, C19_uint_roundtrip n h]

theorem tie_Uint_absent (p : Map) (k : Bytes) (d : Nat) (h : get p k = none) : parameters_UintDefault p k d = .ok d := by
  simp [parameters_UintDefault, h]

/-- **bool round trip** -/
theorem tie_Bool_SetBool (p : Map) (k : Bytes) (b d : Bool) :
    parameters_BoolDefault (parameters_SetBool p k b) k d = .ok b := by
  cases b <;> simp [parameters_BoolDefault, parameters_SetBool, get_set_same, formatBool, trimSpaceB, isSpaceB, parseBoolE, parseBool, optE] <;> decide

/-- a key without value (stored as the empty string) reads as `true` -/
theorem tie_Bool_bare (p : Map) (k : Bytes) (d : Bool) (h : get p k = some []) : parameters_BoolDefault p k d = .ok true := by
  simp [parameters_BoolDefault, h, trimSpaceB]

theorem tie_Bool_absent (p : Map) (k : Bytes) (d : Bool) (h : get p k = none) : parameters_BoolDefault p k d = .ok d := by
  simp [parameters_BoolDefault, h]

/-- setting one key leaves every other key's answers alone -/
theorem tie_SetStr_other (p : Map) (k k' v d : Bytes) (h : k' ≠ k) :
    parameters_StrDefault (parameters_SetStr p k v) k' d = parameters_StrDefault p k' d := by
  have h' : ¬ (k = k') := fun e => h e.symm
  simp [parameters_StrDefault, parameters_SetStr, get_set, h']

end Pgs.C19
