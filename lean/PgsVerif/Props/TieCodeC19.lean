import PgsVerif.Props.C19
import PgsVerif.Generated.Code_parameters_BoolDefault
import PgsVerif.Generated.Code_parameters_Int
import PgsVerif.Generated.Code_parameters_IntDefault
import PgsVerif.Generated.Code_parameters_OutputPath
import PgsVerif.Generated.Code_parameters_SetBool
import PgsVerif.Generated.Code_parameters_SetInt
import PgsVerif.Generated.Code_parameters_SetOutputPath
import PgsVerif.Generated.Code_parameters_SetStr
import PgsVerif.Generated.Code_parameters_SetUint
import PgsVerif.Generated.Code_parameters_Str
import PgsVerif.Generated.Code_parameters_StrDefault
import PgsVerif.Generated.Code_parameters_String
import PgsVerif.Generated.Code_parameters_UintDefault
import PgsVerif.Generated.Code_parseParameters
/-!
# Tie (translated code): the typed accessors of `Parameters`

`StrDefault / Str / SetStr / OutputPath / SetOutputPath / IntDefault / Int / SetInt / UintDefault /
Uint / SetUint / BoolDefault / Bool / SetBool` are translated statement by statement from the current
parameters.go (`Generated/Code.lean`): a map lookup with presence test becomes a `match` on the model's
`get`, `p[name] = v` the model's `set`, the strconv calls the model's codecs (with the base and bit
size the source passes).  The clauses of C19 about typed values are stated here **on the translated
accessors themselves**: what a setter stores, the getter of the same type reads back; a key that is
present with an empty value is present (not the default); a bare key reads as `true`.
-/
namespace Pgs.C19
open Pgs Pgs.GenCode

theorem get_set_same (m : Map) (k v : Bytes) : get (set m k v) k = some v := by
  rw [get_set]; simp

/-- a string comes back as it was stored - also the empty string (present, not "unset") -/
theorem tie_Str_SetStr (p : Map) (k v d : Bytes) : parameters_StrDefault (parameters_SetStr p k v) k d = v := by
  simp [parameters_StrDefault, parameters_SetStr, get_set_same]

theorem tie_StrDefault_absent (p : Map) (k d : Bytes) (h : get p k = none) : parameters_StrDefault p k d = d := by
  simp [parameters_StrDefault, h]

theorem tie_StrDefault_present (p : Map) (k d v : Bytes) (h : get p k = some v) : parameters_StrDefault p k d = v := by
  simp [parameters_StrDefault, h]

theorem tie_Str (p : Map) (k : Bytes) : parameters_Str p k = (get p k).getD [] := by
  unfold parameters_Str parameters_StrDefault; cases get p k <;> rfl

/-- `OutputPath` is the `output_path` parameter, "." when absent; `SetOutputPath` stores it there -/
theorem tie_OutputPath (p : Map) :
    parameters_OutputPath p = (get p Generated.outputPathKey).getD [46] := by
  unfold parameters_OutputPath parameters_StrDefault; cases get p Generated.outputPathKey <;> rfl

theorem tie_SetOutputPath (p : Map) (path : Bytes) :
    parameters_OutputPath (parameters_SetOutputPath p path) = path := by
  simp [parameters_OutputPath, parameters_SetOutputPath, tie_Str_SetStr]

/-- **int round trip through the real accessors** -/
theorem tie_Int_SetInt (p : Map) (k : Bytes) (i d : Int) (hlo : -(2:Int)^63 ≤ i) (hhi : i < 2^63) :
    parameters_IntDefault (parameters_SetInt p k i) k d = .ok i := by
  simp [parameters_IntDefault, parameters_SetInt, get_set_same, atoi, optE, C19_int_roundtrip i hlo hhi]

theorem tie_Int_absent (p : Map) (k : Bytes) (d : Int) (h : get p k = none) : parameters_IntDefault p k d = .ok d := by
  simp [parameters_IntDefault, h]

theorem tie_Int (p : Map) (k : Bytes) : parameters_Int p k = parameters_IntDefault p k 0 := rfl

/-- **uint round trip** -/
theorem tie_Uint_SetUint (p : Map) (k : Bytes) (n d : Nat) (h : n < 2 ^ 64) :
    parameters_UintDefault (parameters_SetUint p k n) k d = .ok n := by
  simp [parameters_UintDefault, parameters_SetUint, get_set_same, parseUintE, formatUintB, optE, C19_uint_roundtrip n h]

theorem tie_Uint_absent (p : Map) (k : Bytes) (d : Nat) (h : get p k = none) : parameters_UintDefault p k d = .ok d := by
  simp [parameters_UintDefault, h]

/-- **bool round trip** -/
theorem tie_Bool_SetBool (p : Map) (k : Bytes) (b d : Bool) :
    parameters_BoolDefault (parameters_SetBool p k b) k d = .ok b := by
  cases b <;> simp [parameters_BoolDefault, parameters_SetBool, get_set_same, formatBool, trimSpaceB, isSpaceB, parseBoolE, parseBool, optE] <;> decide

/-- a key without value (stored as the empty string) reads as `true` -/
theorem tie_Bool_bare (p : Map) (k : Bytes) (d : Bool) (h : get p k = some []) : parameters_BoolDefault p k d = .ok true := by
  simp [parameters_BoolDefault, h, trimSpaceB]

theorem tie_Bool_absent (p : Map) (k : Bytes) (d : Bool) (h : get p k = none) : parameters_BoolDefault p k d = .ok d := by
  simp [parameters_BoolDefault, h]

/-- setting one key leaves every other key's answers alone -/
theorem tie_SetStr_other (p : Map) (k k' v d : Bytes) (h : k' ≠ k) :
    parameters_StrDefault (parameters_SetStr p k v) k' d = parameters_StrDefault p k' d := by
  have h' : ¬ (k = k') := fun e => h e.symm
  simp [parameters_StrDefault, parameters_SetStr, get_set, h']

/-! ### `String()` and `ParseParameters` themselves (loops included) -/

/-- **`Parameters.String`**: one item per entry (`k` for an empty value, `k=v` otherwise), sorted, joined by commas -/
theorem tie_String (m : Map) : print m = parameters_String m := by
  unfold print parameters_String sortStrings joinStr
  simp only [List.nil_append]
  congr 2
  apply List.map_congr_left
  intro kv _
  unfold renderItem
  by_cases h : kv.2 = []
  · simp [h]
  · simp [h, sprintf, sprintfAux, equals]

theorem take_drop_at_first (q : Nat → Bool) (p : Bytes) :
    List.take (p.takeWhile q).length p = p.takeWhile q ∧
    List.drop ((p.takeWhile q).length + 1) p = (p.dropWhile q).drop 1 := by
  have h := List.takeWhile_append_dropWhile (p := q) (l := p)
  constructor
  · have := List.take_left' (l₁ := List.takeWhile q p) (l₂ := List.dropWhile q p) rfl
    rw [h] at this; exact this
  · have : List.drop ((List.takeWhile q p).length + 1) (List.takeWhile q p ++ List.dropWhile q p) = (List.dropWhile q p).drop 1 := by
      rw [List.drop_append]
      simp [Nat.add_sub_cancel_left]
    rw [h] at this; exact this

/-- one item of the comma-separated list, as the loop body of `ParseParameters` stores it -/
theorem item_step (m : Map) (p : Bytes) :
    (let i := indexStr p ([61] : Bytes)
     if decide (i < 0) then set m p ([] : Bytes)
     else set m (List.take (Int.toNat i) p) (List.drop (Int.toNat (i + (1 : Int))) p)) =
    set m (parseItem p).1 (parseItem p).2 := by
  unfold indexStr parseItem
  by_cases h : p.contains equals = true
  · have h' : p.contains 61 = true := h
    obtain ⟨a, b⟩ := take_drop_at_first (· != equals) p
    have e1 : Int.toNat (Int.ofNat (List.takeWhile (fun x => x != 61) p).length) = (List.takeWhile (· != equals) p).length := by
      simp [equals]
    have e2 : Int.toNat (Int.ofNat (List.takeWhile (fun x => x != 61) p).length + 1) = (List.takeWhile (· != equals) p).length + 1 := by
      simp only [Int.ofNat_eq_natCast, equals]; omega
    have hneg : ¬ (Int.ofNat (List.takeWhile (fun x => x != 61) p).length < 0) := by
      simp only [Int.ofNat_eq_natCast]; omega
    simp only [h, h', if_true, hneg, decide_false, Bool.false_eq_true, if_false, e1, e2, a, b]
  · have h' : p.contains 61 = false := by simpa [equals] using h
    have hm : ¬ (61 ∈ p) := by simpa using h'
    have hm' : ¬ (equals ∈ p) := hm
    simp [hm, hm']

/-- **`ParseParameters`**: split at the commas; each item stored under the part before its first `=`
    (the whole item, with the empty value, when it has none); later items overwrite earlier ones -/
theorem tie_ParseParameters (s : Bytes) : parse s = parseParameters s := by
  unfold parse ofList parseRaw parseParameters splitStr
  simp only [List.foldl_map, comma]
  congr 1
  funext m p
  exact (item_step m p).symm

/-! ### the C19 theorems, restated on the translated code -/

/-- parsing what `String()` printed gives the map back (non-empty map, keys free of `,` / `=`, values free of `,`) -/
theorem C19_parse_print_translated (m : Map) (hn : (m.map (·.1)).Nodup) (hd : printDom m = true) (k : Bytes) :
    get (parseParameters (parameters_String m)) k = get m k := by
  rw [← tie_String, ← tie_ParseParameters]; exact C19_parse_print m hn hd k

/-- for every string: parse ∘ print ∘ parse = parse -/
theorem C19_parse_print_parse_translated (s k : Bytes) :
    get (parseParameters (parameters_String (parseParameters s))) k = get (parseParameters s) k := by
  rw [← tie_ParseParameters, ← tie_String, ← tie_ParseParameters]; exact C19_parse_print_parse s k

/-- of duplicate keys the last wins -/
theorem C19_last_wins_translated (a b k : Bytes) :
    get (parseParameters (a ++ comma :: b)) k = (get (parseParameters b) k).or (get (parseParameters a) k) := by
  simp only [← tie_ParseParameters]; exact C19_last_wins a b k

/-- the output is deterministic: it does not depend on the order in which Go iterates the map -/
theorem C19_print_deterministic_translated (m1 m2 : Map) (h : m1.Perm m2) : parameters_String m1 = parameters_String m2 := by
  rw [← tie_String, ← tie_String]; exact C19_print_deterministic m1 m2 h

end Pgs.C19
