import PgsVerif.Model.AstSem2
import PgsVerif.Generated.Code_enumVal_Syntax
import PgsVerif.Generated.Code_enum_Syntax
import PgsVerif.Generated.Code_ext_Syntax
import PgsVerif.Generated.Code_field_HasOptionalKeyword
import PgsVerif.Generated.Code_field_HasPresence
import PgsVerif.Generated.Code_field_InOneOf
import PgsVerif.Generated.Code_field_InRealOneOf
import PgsVerif.Generated.Code_field_Required
import PgsVerif.Generated.Code_field_Syntax
import PgsVerif.Generated.Code_file_Syntax
import PgsVerif.Generated.Code_method_Syntax
import PgsVerif.Generated.Code_msg_Syntax
import PgsVerif.Generated.Code_oneof_IsSynthetic
import PgsVerif.Generated.Code_oneof_Syntax
import PgsVerif.Generated.Code_service_Syntax
import PgsVerif.Generated.Code_syntax_SupportsRequiredPrefix
/-!
# Tie (translated code): presence, label and synthetic-oneof logic

`Field.HasPresence`, `HasOptionalKeyword`, `Required`, `InRealOneOf` (field.go), `OneOf.IsSynthetic`
(oneof.go), `File.Syntax` (file.go) and `Syntax.SupportsRequiredPrefix` (proto.go) are translated from
the current source into `Generated/Code.lean`.  The model functions the C09 theorems are about
(`pgsPresence`, `pgsOptKw`, `pgsRequired`, `pgsSynthetic`, `pgsSyntax`) are equal to those translations
read on the field's / oneof's descriptor: the order of the tests and the value of every branch are
the source's.
-/
namespace Pgs.AST
open Pgs Pgs.GenCode

/-- a syntax string as the bytes the Go code compares (everything that is not one of the three
    spellings is represented by one byte string that differs from all of them) -/
def synCode (s : String) : Bytes :=
  if s = "" then []
  else if s = "proto2" then [112, 114, 111, 116, 111, 50]
  else if s = "proto3" then [112, 114, 111, 116, 111, 51]
  else [0]

theorem synCode_nil (s : String) : (synCode s == ([] : Bytes)) = (s == "") := by
  unfold synCode
  by_cases h1 : s = ""
  · simp [h1]
  · by_cases h2 : s = "proto2"
    · subst h2; decide
    · by_cases h3 : s = "proto3"
      · subst h3; decide
      · simp [h1, h2, h3]

theorem synCode_p3 (s : String) : (synCode s == ([112, 114, 111, 116, 111, 51] : Bytes)) = (s == "proto3") := by
  unfold synCode
  by_cases h1 : s = ""
  · subst h1; decide
  · by_cases h2 : s = "proto2"
    · subst h2; decide
    · by_cases h3 : s = "proto3"
      · subst h3; decide
      · simp [h1, h2, h3]

theorem synCode_p2 (s : String) : (synCode s != ([112, 114, 111, 116, 111, 50] : Bytes)) = (s != "proto2") := by
  unfold synCode
  by_cases h1 : s = ""
  · subst h1; decide
  · by_cases h2 : s = "proto2"
    · subst h2; decide
    · by_cases h3 : s = "proto3"
      · subst h3; decide
      · have : (s != "proto2") = true := by simp [h2]
        simp only [h1, h2, h3, if_false, this]; decide

/-- **`File.Syntax`**: the model's normalisation is the translated one -/
theorem tie_file_Syntax (f : FileD) : synCode (pgsSyntax f) = file_Syntax (synCode f.syn) := by
  unfold pgsSyntax file_Syntax
  simp only [synCode_p2, id]
  by_cases h : f.syn = "proto2"
  · simp [h]; decide
  · simp [h]

/-- every entity answers `Syntax()` with its container's: a field's, oneof's, message's, enum's,
    value's, extension's, method's and service's syntax is its file's -/
theorem tie_Syntax_delegates (s : Bytes) :
    field_Syntax s = s ∧ oneof_Syntax s = s ∧ msg_Syntax s = s ∧ enum_Syntax s = s ∧ enumVal_Syntax s = s ∧
    ext_Syntax s = s ∧ method_Syntax s = s ∧ service_Syntax s = s := ⟨rfl, rfl, rfl, rfl, rfl, rfl, rfl, rfl⟩

/-- `InOneOf`: the field has a oneof -/
theorem tie_InOneOf (fd : FieldD) : fd.oneofIndex.isSome = field_InOneOf fd.oneofIndex.isNone := by
  cases fd.oneofIndex <;> rfl

/-- what field.go reads from a field, in terms of the descriptor (`isMapField`: its type names a
    map entry — a map field is a repeated field of that shape) -/
def fieldEnv (f : FileD) (fd : FieldD) (isMapField : Bool) : FieldEnv :=
  { inOneOf := fd.oneofIndex.isSome,
    isEmbed := fd.label != 3 && fd.type == 11,
    isRepeated := fd.label == 3 && !isMapField,
    isMap := fd.label == 3 && isMapField,
    syn := synCode (pgsSyntax f),
    proto3Optional := fd.proto3Optional,
    label := fd.label }

theorem tie_SupportsRequiredPrefix (s : String) : syntax_SupportsRequiredPrefix (synCode s) = (s == "") := by
  unfold syntax_SupportsRequiredPrefix Generated.syntaxProto2
  exact synCode_nil s

theorem tie_HasOptionalKeyword (f : FileD) (fd : FieldD) (m : Bool) :
    pgsOptKw f fd = field_HasOptionalKeyword (fieldEnv f fd m) := by
  unfold pgsOptKw field_HasOptionalKeyword fieldEnv Generated.syntaxProto3
  simp only [synCode_p3]

theorem tie_Required (f : FileD) (fd : FieldD) (m : Bool) :
    pgsRequired f fd = field_Required (fieldEnv f fd m) := by
  unfold pgsRequired field_Required
  simp only [fieldEnv, tie_SupportsRequiredPrefix]

theorem tie_InRealOneOf (f : FileD) (fd : FieldD) (m : Bool) :
    (fd.oneofIndex.isSome && !fd.proto3Optional) = field_InRealOneOf (fieldEnv f fd m) := rfl

/-- **`Field.HasPresence`** -/
theorem tie_HasPresence (f : FileD) (fd : FieldD) (m : Bool) :
    pgsPresence f fd = field_HasPresence (fieldEnv f fd m) := by
  unfold pgsPresence field_HasPresence
  rw [← tie_HasOptionalKeyword f fd m]
  simp only [fieldEnv, Generated.syntaxProto2, synCode_nil]
  by_cases h1 : fd.oneofIndex.isSome = true
  · simp [h1]
  · by_cases h3 : fd.label = 3
    · cases m <;> simp [h1, h3]
    · cases m <;> simp [h1, h3]

/-- what oneof.go reads from a oneof -/
def oneofEnv (f : FileD) (h : MsgHead) (o : Nat) (m : Bool) : OneofEnv :=
  { syn := synCode (pgsSyntax f), nflds := (oneofFieldDs h o).length,
    firstInRealOneOf := match oneofFieldDs h o with
      | fd :: _ => field_InRealOneOf (fieldEnv f fd m)
      | [] => false }

/-- **`OneOf.IsSynthetic`** -/
theorem tie_IsSynthetic (f : FileD) (h : MsgHead) (o : Nat) (m : Bool) :
    pgsSynthetic f h o = oneof_IsSynthetic (oneofEnv f h o m) := by
  unfold pgsSynthetic oneof_IsSynthetic oneofEnv Generated.syntaxProto3
  simp only [synCode_p3]
  cases hl : oneofFieldDs h o with
  | nil => simp
  | cons a t =>
    cases t with
    | nil => simp [field_InRealOneOf, fieldEnv]
    | cons b t' => simp

end Pgs.AST
