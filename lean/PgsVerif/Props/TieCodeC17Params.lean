import PgsVerif.Generated.Code_goParamSteps
/-!
# Tie (translated code): the helpers of lang/go/parameters.go and the keys they use

Read from the current source: the parameter keys (`import_path`, the `M` prefix of import mappings, `paths` with its
value `source_relative`, `plugins` and its separator) and the ten helpers over them.  `context.OutputPath` asks
`Paths(c.p) == SourceRelative`, `optionPackage` looks `"M" + <input path>` up and `PackageName` reads `import_path`
(`TieCodeC17`, `TieCodeC17Package`): these are the keys those translations are written with.
-/
namespace Pgs.GoTypes
open Pgs.GenCode

def goParamStepsOf (fn : String) : List String := (goParamSteps.lookup fn).getD ["<no such function>"]

theorem tie_goParamConsts :
    goParamConsts = [("importPathKey", "import_path"), ("importMapKeyPrefix", "M"), ("pathTypeKey", "paths"), ("pluginsKey", "plugins"),
      ("pluginsSep", "+"), ("ImportPathRelative", ""), ("SourceRelative", "source_relative")] := by decide

/-- the path mode is the `paths` parameter as it is; setting it stores the value under the same key -/
theorem tie_param_Paths : goParamStepsOf ".Paths" = ["return PathType(p.Str(pathTypeKey))"] ∧
    goParamStepsOf ".SetPaths" = ["p.SetStr(pathTypeKey, string(pt))"] := by decide

theorem tie_param_ImportPath : goParamStepsOf ".ImportPath" = ["return p.Str(importPathKey)"] ∧
    goParamStepsOf ".SetImportPath" = ["p.SetStr(importPathKey, path)"] := by decide

/-- an import mapping is stored and looked up under the prefix followed by the proto file's name, nothing else -/
theorem tie_param_MappedImport :
    goParamStepsOf ".MappedImport" = ["imp, ok = p[fmt.Sprintf(\"%s%s\", importMapKeyPrefix, proto)]", "return imp, ok"] ∧
    goParamStepsOf ".AddImportMapping" = ["p[fmt.Sprintf(\"%s%s\", importMapKeyPrefix, proto)] = pkg"] := by decide

/-- plugins: absent = none; present and empty = all; otherwise the `+`-separated list -/
theorem tie_param_Plugins :
    goParamStepsOf ".Plugins" = ["s, ok = p[pluginsKey]", "if !ok {", "return", "}", "if all = s == \"\"; all {", "return", "}",
      "plugins = strings.Split(s, pluginsSep)", "return"] ∧
    goParamStepsOf ".HasPlugin" = ["plugins, all = Plugins(p)", "if all {", "return true", "}", "range plugins {", "if pl == name {", "return true", "}", "}", "return false"] ∧
    goParamStepsOf ".AddPlugin" = ["if len(name) == 0 {", "return", "}", "plugins, all = Plugins(p)", "if all {", "return", "}",
      "p.SetStr(pluginsKey, strings.Join(append(plugins, name...), pluginsSep))"] ∧
    goParamStepsOf ".EnableAllPlugins" = ["p.SetStr(pluginsKey, \"\")"] := by decide

end Pgs.GoTypes
