import PgsVerif.Model.Closure
namespace Pgs.AST
theorem placeholder_C05 : True := trivial
end Pgs.AST
