import PgsVerif.Proofs.Dfs
/-!
# C05 — bidirectional dependency sets are full transitive closures in any call order

`closure` is the visited-set traversal of `getDependents` / `getDependencies` (and the enum
variant); `query` adds the per-entity caches.  For **every** finite edge relation (no validity
needed) and **every** history of accessor calls.
-/
namespace Pgs.AST

/-- the caches only ever hold complete closures -/
def CachesOK (edges eedges : List (Ref × Ref)) (c : Caches) : Prop :=
  ∀ r k s, c.get r k = some s → s = closure edges eedges r k

theorem cachesOK_empty (edges eedges : List (Ref × Ref)) : CachesOK edges eedges Caches.empty := by
  intro r k s h; cases k <;> simp [Caches.get, Caches.empty] at h

theorem get_put (c : Caches) (r r' : Ref) (k k' : QKind) (s : List Ref) :
    (c.put r k s).get r' k' = if r = r' ∧ k = k' then some s else c.get r' k' := by
  by_cases h : r = r'
  · subst h; cases k <;> cases k' <;> simp [Caches.put, Caches.get, List.find?_cons]
  · have hb : (r == r') = false := by simpa using h
    cases k <;> cases k' <;> simp [Caches.put, Caches.get, List.find?_cons, hb, h]

/-- one call: the answer does not depend on the cache state, and the invariant is kept -/
theorem query_spec (edges eedges : List (Ref × Ref)) (c : Caches) (h : CachesOK edges eedges c) (r : Ref) (k : QKind) :
    (query edges eedges c r k).2 = present r k (closure edges eedges r k) ∧
    CachesOK edges eedges (query edges eedges c r k).1 := by
  unfold query
  cases hg : c.get r k with
  | some s => refine ⟨?_, h⟩; simp only; rw [h r k s hg]
  | none =>
    refine ⟨by simp only, ?_⟩
    simp only
    intro r' k' s' hs
    rw [get_put] at hs
    by_cases he : r = r' ∧ k = k'
    · obtain ⟨rfl, rfl⟩ := he
      simp only [and_self, if_true, Option.some.injEq] at hs
      exact hs.symm
    · simp only [he, if_false] at hs
      exact h r' k' s' hs

/-- **Order independence**: whatever was asked before (and however often), every answer is the
    answer a freshly built AST gives. -/
theorem C05_order_independent (edges eedges : List (Ref × Ref)) (qs : List (Ref × QKind)) :
    ∀ c, CachesOK edges eedges c →
      runQueries edges eedges c qs = qs.map fun (r, k) => sortRefs (present r k (closure edges eedges r k)) := by
  induction qs with
  | nil => intro c _; rfl
  | cons q qs ih =>
    intro c hc
    obtain ⟨r, k⟩ := q
    obtain ⟨h1, h2⟩ := query_spec edges eedges c hc r k
    simp only [runQueries, List.map_cons]
    rw [h1, ih _ h2]

/-! ### the closure is exactly reachability -/

theorem succs_mem (edges : List (Ref × Ref)) (m y : Ref) : y ∈ succs edges m ↔ (m, y) ∈ edges := by
  simp only [succs, List.mem_map, List.mem_filter, beq_iff_eq]
  constructor
  · rintro ⟨⟨a, b⟩, ⟨h1, h2⟩, rfl⟩; simp only at h2; subst h2; exact h1
  · intro h; exact ⟨(m, y), ⟨h, rfl⟩, rfl⟩

theorem preds_mem (edges : List (Ref × Ref)) (m y : Ref) : y ∈ preds edges m ↔ (y, m) ∈ edges := by
  simp only [preds, List.mem_map, List.mem_filter, beq_iff_eq]
  constructor
  · rintro ⟨⟨a, b⟩, ⟨h1, h2⟩, rfl⟩; simp only at h2; subst h2; exact h1
  · intro h; exact ⟨(y, m), ⟨h, rfl⟩, rfl⟩

/-- a message's dependencies are exactly all other messages reachable through chains of
    message-typed fields -/
theorem C05_dependencies (edges eedges : List (Ref × Ref)) (m x : Ref) :
    x ∈ present m .dependencies (closure edges eedges m .dependencies) ↔ Reach (succs edges) m x ∧ x ≠ m := by
  have hU : ∀ a ∈ m :: edges.map (·.2), ∀ y ∈ succs edges a, y ∈ m :: edges.map (·.2) := by
    intro a _ y hy
    exact List.mem_cons_of_mem _ (List.mem_map.mpr ⟨(a, y), (succs_mem edges a y).mp hy, rfl⟩)
  have := dfs_exact (succs edges) (m :: edges.map (·.2)) hU m (List.mem_cons_self ..) (fuelFor edges eedges)
    (by simp [fuelFor]; omega) x
  simp only [present, closure, List.mem_filter, bne_iff_ne, ne_eq, this]

/-- its dependents exactly all other messages from which it is reachable -/
theorem C05_dependents (edges eedges : List (Ref × Ref)) (m x : Ref) :
    x ∈ present m .dependents (closure edges eedges m .dependents) ↔ Reach (preds edges) m x ∧ x ≠ m := by
  have hU : ∀ a ∈ m :: edges.map (·.1), ∀ y ∈ preds edges a, y ∈ m :: edges.map (·.1) := by
    intro a _ y hy
    exact List.mem_cons_of_mem _ (List.mem_map.mpr ⟨(y, a), (preds_mem edges a y).mp hy, rfl⟩)
  have := dfs_exact (preds edges) (m :: edges.map (·.1)) hU m (List.mem_cons_self ..) (fuelFor edges eedges)
    (by simp [fuelFor]; omega) x
  simp only [present, closure, List.mem_filter, bne_iff_ne, ne_eq, this]

/-- an enum's dependents: the messages that use it in a field plus all of their dependents -/
theorem C05_enum_dependents (edges eedges : List (Ref × Ref)) (e x : Ref) :
    x ∈ present e .enumDependents (closure edges eedges e .enumDependents) ↔ Reach (enumAdj edges eedges e) e x := by
  have hU : ∀ a ∈ e :: (eedges.map (·.1) ++ edges.map (·.1)), ∀ y ∈ enumAdj edges eedges e a,
      y ∈ e :: (eedges.map (·.1) ++ edges.map (·.1)) := by
    intro a _ y hy
    apply List.mem_cons_of_mem
    unfold enumAdj at hy
    split at hy
    · exact List.mem_append_left _ (List.mem_map.mpr ⟨(y, e), (preds_mem eedges e y).mp hy, rfl⟩)
    · exact List.mem_append_right _ (List.mem_map.mpr ⟨(y, a), (preds_mem edges a y).mp hy, rfl⟩)
  have := dfs_exact (enumAdj edges eedges e) (e :: (eedges.map (·.1) ++ edges.map (·.1))) hU e (List.mem_cons_self ..)
    (fuelFor edges eedges) (by simp [fuelFor]; omega) x
  simp only [present, closure, this]

/-- reachability over `preds` is reachability over `succs` backwards: "dependents of m" are the
    messages from which m is reachable -/
theorem reach_cons {α} (adj : α → List α) {a b c : α} (h1 : b ∈ adj a) (h2 : Reach adj b c) : Reach adj a c := by
  induction h2 with
  | single hb => exact Reach.tail (Reach.single h1) hb
  | tail _ hc ih => exact Reach.tail ih hc

theorem reach_preds_iff (edges : List (Ref × Ref)) (m x : Ref) : Reach (preds edges) m x ↔ Reach (succs edges) x m := by
  constructor
  · intro h
    induction h with
    | single hb => exact Reach.single ((succs_mem edges _ _).mpr ((preds_mem edges _ _).mp hb))
    | tail _ hc ih => exact reach_cons _ ((succs_mem edges _ _).mpr ((preds_mem edges _ _).mp hc)) ih
  · intro h
    induction h with
    | single hb => exact Reach.single ((preds_mem edges _ _).mpr ((succs_mem edges _ _).mp hb))
    | tail _ hc ih => exact reach_cons _ ((preds_mem edges _ _).mpr ((succs_mem edges _ _).mp hc)) ih

/-! ### non-vacuity: A ↔ B, D → A (the shape that broke the memoised version) -/
private def A : Ref := ⟨0, [4, 0]⟩
private def B : Ref := ⟨0, [4, 1]⟩
private def D : Ref := ⟨0, [4, 2]⟩
private def demoEdges : List (Ref × Ref) := [(A, B), (B, A), (D, A)]
example : present A .dependents (closure demoEdges [] A .dependents) = [D, B] := by decide
example : present B .dependents (closure demoEdges [] B .dependents) = [D, A] := by decide

end Pgs.AST
