import PgsVerif.Model.GoNames
import PgsVerif.Generated.Code_context_ClientName
import PgsVerif.Generated.Code_context_ServerName
import PgsVerif.Generated.Code_context_ServerStream
import PgsVerif.Generated.Code_go_joinChild
import PgsVerif.Generated.Code_go_joinNames
import PgsVerif.Generated.Code_go_replaceProtected
/-!
# Tie (translated code): the name-joining helpers of lang/go/name.go

`joinChild`, `joinNames`, `replaceProtected`, `ServerName`, `ClientName`, `ServerStream` are translated
from the current source.  The model's `joinChild` (a nested type's name: glued on when it starts
with a lower-case letter, joined by `_` otherwise), the `_`-joined enum value names and the service
names are those translations.
-/
namespace Pgs.GoNames
open Pgs Pgs.GenCode

theorem tie_joinNames (a b : Bytes) : go_joinNames a b = a ++ underscore :: b := by
  simp [go_joinNames, sprintf, sprintfAux, underscore]

/-- **`joinChild`** -/
theorem tie_joinChild (a b : Bytes) : PgsGo.joinChild a b = go_joinChild a b := by
  unfold PgsGo.joinChild go_joinChild
  simp only [tie_joinNames, id, sprintf, sprintfAux, decodeRuneAscii, isLetterAscii, nextLower]
  cases b with
  | nil => simp [isLower]
  | cons c rest =>
    by_cases h : isLower c = true
    · simp [h]
    · simp [h]

/-- the nested name of a message / enum is `joinChild` folded along the nesting path, with the
    translated `joinChild` -/
theorem tie_nestedName (n : Bytes) (rest : List Bytes) :
    PgsGo.nestedName (n :: rest) = rest.foldl go_joinChild (PgsGo.camelCase n) := by
  have h : PgsGo.joinChild = go_joinChild := by funext a b; exact tie_joinChild a b
  simp only [PgsGo.nestedName, h]

theorem tie_ServerName (n : Bytes) : context_ServerName n = PgsGo.camelCase n ++ [83, 101, 114, 118, 101, 114] := by
  simp [context_ServerName, sprintf, sprintfAux]

theorem tie_ClientName (n : Bytes) : context_ClientName n = PgsGo.camelCase n ++ [67, 108, 105, 101, 110, 116] := by
  simp [context_ClientName, sprintf, sprintfAux]

theorem tie_ServerStream (s m : Bytes) :
    context_ServerStream s m = PgsGo.camelCase s ++ underscore :: PgsGo.camelCase m ++ [83, 101, 114, 118, 101, 114] := by
  simp [context_ServerStream, tie_joinNames]

/-- `replaceProtected` renames exactly the protected names, each to the replacement the table gives -/
theorem tie_replaceProtected (n : Bytes) :
    go_replaceProtected n = match (Generated.protectedNames.find? (·.1 == n)) with
      | some x => x.2
      | none => n := by
  unfold go_replaceProtected lookupTbl
  cases Generated.protectedNames.find? (·.1 == n) <;> rfl

end Pgs.GoNames
