import PgsVerif.Model.GoNames
import PgsVerif.Generated.Code_context_ClientName
import PgsVerif.Generated.Code_context_ServerName
import PgsVerif.Generated.Code_context_ServerStream
import PgsVerif.Generated.Code_go_joinChild
import PgsVerif.Generated.Code_go_joinNames
import PgsVerif.Generated.Code_go_replaceProtected
import PgsVerif.Generated.Code_go_unique
/-!
# Tie (translated code): the name-joining helpers of lang/go/name.go

`joinChild`, `joinNames`, `replaceProtected`, `ServerName`, `ClientName`, `ServerStream` are translated
from the current source.  The model's `joinChild` (a nested type's name: glued on when it starts
with a lower-case letter, joined by `_` otherwise), the `_`-joined enum value names and the service
names are those translations.

The function literal `unique` inside `uniqueNames` - the loop that appends underscores until the name
and, for a field, its getter are free, and the two reservations it then makes - is translated as well
(`go_unique`); the model's `makeUnique`, on which `C16_unique_names` rests, is that translation.
-/
namespace Pgs.GoNames
open Pgs Pgs.GenCode

theorem tie_joinNames (a b : Bytes) : go_joinNames a b = a ++ underscore :: b := by
  simp [go_joinNames, sprintf, sprintfAux, underscore]

/-- **`joinChild`** -/
theorem tie_joinChild (a b : Bytes) : PgsGo.joinChild a b = go_joinChild a b := by
  unfold PgsGo.joinChild go_joinChild
  simp only [tie_joinNames, id, sprintf, sprintfAux, decodeRuneAscii, isLetterAscii, nextLower]
  cases b with
  | nil => simp [isLower]
  | cons c rest =>
    by_cases h : isLower c = true
    · simp [h]
    · simp [h]

/-- the nested name of a message / enum is `joinChild` folded along the nesting path, with the
    translated `joinChild` -/
theorem tie_nestedName (n : Bytes) (rest : List Bytes) :
    PgsGo.nestedName (n :: rest) = rest.foldl go_joinChild (PgsGo.camelCase n) := by
  have h : PgsGo.joinChild = go_joinChild := by funext a b; exact tie_joinChild a b
  simp only [PgsGo.nestedName, h]

theorem tie_ServerName (n : Bytes) : context_ServerName n = PgsGo.camelCase n ++ [83, 101, 114, 118, 101, 114] := by
  simp [context_ServerName, sprintf, sprintfAux]

theorem tie_ClientName (n : Bytes) : context_ClientName n = PgsGo.camelCase n ++ [67, 108, 105, 101, 110, 116] := by
  simp [context_ClientName, sprintf, sprintfAux]

theorem tie_ServerStream (s m : Bytes) :
    context_ServerStream s m = PgsGo.camelCase s ++ underscore :: PgsGo.camelCase m ++ [83, 101, 114, 118, 101, 114] := by
  simp [context_ServerStream, tie_joinNames]

/-- `replaceProtected` renames exactly the protected names, each to the replacement the table gives -/
theorem tie_replaceProtected (n : Bytes) :
    go_replaceProtected n = match (Generated.protectedNames.find? (·.1 == n)) with
      | some x => x.2
      | none => n := by
  unfold go_replaceProtected lookupTbl
  cases Generated.protectedNames.find? (·.1 == n) <;> rfl

/-- the underscore loop of `unique`: the model's `bump` is the translated `for` loop, round for round -/
theorem tie_bump (u : Used) (getter : Bool) : ∀ (f : Nat) (n : Bytes),
    bump u getter f n =
      whileFuel (fun n => (u.get n || (getter && u.get (([71, 101, 116] : Bytes) ++ n)))) (fun n => n ++ ([95] : Bytes)) f n := by
  intro f
  induction f with
  | zero => intro n; rfl
  | succ f ih =>
    intro n
    simp only [bump, whileFuel, getPrefix, underscore]
    by_cases h : (u.get n || (getter && u.get (([71, 101, 116] : Bytes) ++ n))) = true
    · simp only [h, if_true]; exact ih _
    · simp only [h]; rfl

/-- **`unique`** (the closure of `uniqueNames`): the name found and the two reservations made -/
theorem tie_unique (u : Used) (n : Bytes) (getter : Bool) :
    makeUnique u n getter = go_unique u (u.length + 2) n getter := by
  simp only [makeUnique, go_unique, tie_bump, getPrefix]

/-- non-vacuity: `foo` after `get_foo` took `GetFoo`... the getter of `Foo` is taken, so `Foo_` -/
example : (go_unique [([71, 101, 116, 70, 111, 111], true)] 3 [70, 111, 111] true).1 = [70, 111, 111, 95] := by decide

end Pgs.GoNames
