import PgsVerif.Model.Persist
import PgsVerif.Generated.Code_persistSteps
/-!
# Tie (translated code): the artifact loop of `stdPersister.Persist`

The translator lists the steps of `Persist` in source order, one bracket per clause of its type
switch (message strings left out).  They are what `Persist.step` transcribes, arm by arm:

* the six generator kinds: `ProtoFile()` **first** and its error ends the run (`badName` / `render`);
  then the post-processors on the chunk's content; then the insertion - `insertFile` with the
  artifact's own overwrite flag for files, with `false` for injections, `insertAppend` under the
  *cleaned* name for appends.  A template kind does exactly what its plain twin does;
* custom files: the post-processed content (rendered first for the template kind, whose render error
  ends the run) goes to `writeFile` with the artifact's name, overwrite flag and permissions - the
  response is not touched;
* `GeneratorError`: the first message is stored as it is, every later one is joined on with `"; "`;
  nothing else happens, the loop goes on;
* anything else ends the run (`Failf`).

Before the loop the response is new and carries the supported features; after it it is returned.
One iteration in the model's terms is `TieCodeC10.step_protoFile`; the functions called here are
themselves translated (`TieCodeC10`, `TieCodeC10Surgery`, `TieCodeC10Post`, `TieCodeC12`).
-/
namespace Pgs.Persist
open Pgs.GenCode

def persistBody : List String := (persistSteps.lookup "stdPersister.Persist").getD []

def arm (h : String) : List String := (persistArms.lookup h).getD ["<no such clause>"]

/-- the frame: a fresh response with the supported features, one loop over the artifacts, the response returned -/
theorem tie_persist_frame :
    persistBody.take 3 = ["resp = new(plugin_go.CodeGeneratorResponse)", "resp.SupportedFeatures = p.supportedFeatures", "range arts {"] ∧
    persistBody.drop (persistBody.length - 2) = ["}", "return resp"] ∧
    persistArms.map (·.1) = ["GeneratorFile", "GeneratorTemplateFile", "GeneratorAppend", "GeneratorTemplateAppend",
      "GeneratorInjection", "GeneratorTemplateInjection", "CustomFile", "CustomTemplateFile", "GeneratorError", "default"] := by
  decide

/-- files: name check and rendering first, post-processing, insertion with the artifact's overwrite flag; the template kind likewise -/
theorem tie_persist_file :
    arm "GeneratorFile" = ["f, err = a.ProtoFile()", "p.CheckErr(err, a.Name)",
      "f.Content = proto.String(p.postProcess(a, f.GetContent()))", "p.insertFile(resp, f, a.Overwrite)"] ∧
    arm "GeneratorTemplateFile" = arm "GeneratorFile" := by decide

/-- appends: the same, inserted after the target's tail under the cleaned name -/
theorem tie_persist_append :
    arm "GeneratorAppend" = ["f, err = a.ProtoFile()", "p.CheckErr(err, a.FileName)",
      "f.Content = proto.String(p.postProcess(a, f.GetContent()))", "n, _ = cleanGeneratorFileName(a.FileName)", "p.insertAppend(resp, n, f)"] ∧
    arm "GeneratorTemplateAppend" = arm "GeneratorAppend" := by decide

/-- injections: never overwrite -/
theorem tie_persist_injection :
    arm "GeneratorInjection" = ["f, err = a.ProtoFile()", "p.CheckErr(err, a.InsertionPoint, a.FileName)",
      "f.Content = proto.String(p.postProcess(a, f.GetContent()))", "p.insertFile(resp, f, false)"] ∧
    arm "GeneratorTemplateInjection" = arm "GeneratorInjection" := by decide

/-- custom files go to the file system, written as they are met, and nowhere else -/
theorem tie_persist_custom :
    arm "CustomFile" = ["p.writeFile(a.Name, []byte(p.postProcess(a, a.Contents)), a.Overwrite, a.Perms)"] ∧
    arm "CustomTemplateFile" = ["content, err = a.render()", "p.CheckErr(err, a.Name)", "content = p.postProcess(a, content)",
      "p.writeFile(a.Name, []byte(content), a.Overwrite, a.Perms)"] := by decide

/-- errors accumulate (first as it is, later ones joined with "; "); an unknown artifact ends the run -/
theorem tie_persist_error :
    arm "GeneratorError" = ["if resp.Error == nil {", "resp.Error = proto.String(a.Message)", "continue", "}",
      "resp.Error = proto.String(strings.Join([]string{resp.GetError(), a.Message}, \"; \"))"] ∧
    arm "default" = ["p.Failf(a)"] := by decide

/-- … which is what the model does with an error artifact: `none` → the message, `some e` → `e ++ "; " ++ message` -/
theorem tie_step_error (procs : List Proc) (st : State) (m : Bytes) :
    step procs st (.err m) = .ok { st with resp := { st.resp with
      error := some (match st.resp.error with | none => m | some e => e ++ [59, 32] ++ m) } } := by
  cases h : st.resp.error <;> simp [step, h] <;> rfl

end Pgs.Persist
