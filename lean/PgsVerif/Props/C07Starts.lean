import PgsVerif.Props.C07
/-!
# C07 — the remaining start nodes: nested enums, leaves, and the pass-through visitor

`Props/C07` relates `Walk` from a package, a file, a message, a file-level enum and a service to the
generic forest walk.  Here: an enum nested in a message, every kind of leaf (field, oneof, enum
value, method, extension), and `PassThroughVisitor` on enums and services.
-/
namespace Pgs.AST

/-- a path that continues below a message with a tag other than `nested_type` designates no message -/
theorem at?_ext_none (t : Nat) (more : List Nat) (ht : t ≠ 3) : ∀ (ms : Msgs) (rest : List Nat) (x : MsgHead × Msgs),
    ms.at? rest = some x → ms.at? (rest ++ t :: more) = none := by
  intro ms rest
  fun_induction Msgs.at? ms rest with
  | case1 ms => intro x h; simp at h
  | case2 ms i =>
    intro x _
    show ms.at? (i :: t :: more) = none
    unfold Msgs.at?
    split
    · rfl
    · rename_i e _; simp at e
    · rename_i e _
      simp only [List.cons.injEq] at e
      exact absurd e.2.1 ht
    · rfl
  | case3 ms i rest hd nested hg ih =>
    intro x h
    show ms.at? (i :: 3 :: (rest ++ t :: more)) = none
    have := ih x h
    unfold Msgs.at?
    simp only [hg]
    exact this
  | case4 ms i rest hg =>
    intro x h; simp at h
  | case5 ms l h1 h2 h3 =>
    intro x h; simp at h

theorem msgAt_ext_none (w : World) (fi : Nat) (p : List Nat) (x : MsgHead × Msgs) (t : Nat) (more : List Nat) (ht : t ≠ 3)
    (h : w.msgAt ⟨fi, p⟩ = some x) : w.msgAt ⟨fi, p ++ t :: more⟩ = none := by
  obtain ⟨rest, hrest⟩ := msgAt_path w ⟨fi, p⟩ x h
  simp only at hrest
  subst hrest
  unfold World.msgAt at h ⊢
  cases hf : w.files[fi]? with
  | none => simp [hf] at h
  | some f =>
    simp only [hf] at h ⊢
    exact at?_ext_none t more ht _ _ _ h

theorem msgAt_none_of_head (w : World) (fi t : Nat) (rest : List Nat) (ht : t ≠ 4) : w.msgAt ⟨fi, t :: rest⟩ = none := by
  unfold World.msgAt
  split
  · rename_i e; simp only [List.cons.injEq] at e; exact absurd e.1 ht
  · rfl

/-- what `walkFrom` does at a start node that designates no container -/
def leafEnter (pol : Policy) (start : Ref) (pass : Bool) : WS :=
  if pass then ⟨[], none⟩ else
  match visit pol 0 start ⟨[], none⟩ with
  | (ws1, some _) => ws1
  | (ws1, none) => ws1

theorem walkFrom_leaf (pol : Policy) (w : World) (fi : Nat) (path : List Nat) (pass : Bool) (f : FileD)
    (hf : w.files[fi]? = some f) (hfi : fi < 900000)
    (hm : w.msgAt ⟨fi, path⟩ = none) (hne : path ≠ []) (h5 : ∀ i, path ≠ [5, i]) (h6 : ∀ i, path ≠ [6, i])
    (h4 : ∀ i rp, path.reverse ≠ i :: 4 :: rp) :
    walkFrom pol w ⟨fi, path⟩ pass = leafEnter pol ⟨fi, path⟩ pass := by
  have hge : ¬ (fi ≥ 900000) := by omega
  unfold walkFrom leafEnter
  simp only [hge, if_false, hf, hm]
  cases hv : visit pol 0 ⟨fi, path⟩ ⟨[], none⟩ with
  | mk ws1 o =>
    cases o <;> cases pass <;> by_cases he : ws1.err.isSome = true <;> simp only [he, Bool.false_eq_true, if_false, if_true]
    all_goals
      split
      · rename_i hp; exact absurd hp hne
      · rename_i i hp; exact absurd hp (h5 i)
      · rename_i i hp; exact absurd hp (h6 i)
      · split
        · rename_i i rp hp; exact absurd hp (h4 i rp)
        · simp_all

/-- **C07 (start at a leaf)**: a start node that is neither a file, a message, an enum nor a service
    is visited, and nothing else is; through `PassThroughVisitor` nothing is visited at all. -/
theorem C07_walk_leaf (pol : Policy) (w : World) (start : Ref) (f : FileD)
    (hf : w.files[start.file]? = some f) (hfi : start.file < 900000)
    (hm : w.msgAt start = none) (hne : start.path ≠ []) (h5 : ∀ i, start.path ≠ [5, i]) (h6 : ∀ i, start.path ≠ [6, i])
    (h4 : ∀ i rp, start.path.reverse ≠ i :: 4 :: rp) :
    walkFrom pol w start false = walkForest pol 0 (.node start .nil .nil) ⟨[], none⟩ ∧
    walkFrom pol w start true = ⟨[], none⟩ := by
  obtain ⟨fi, path⟩ := start
  rw [walkFrom_leaf pol w fi path false f hf hfi hm hne h5 h6 h4, walkFrom_leaf pol w fi path true f hf hfi hm hne h5 h6 h4]
  constructor
  · simp only [leafEnter, Bool.false_eq_true, if_false, walkForest]
    cases visit pol 0 ⟨fi, path⟩ ⟨[], none⟩ with
    | mk ws1 o => cases o <;> simp
  · simp [leafEnter]

/-- fields (tag 2), extensions (6) and oneofs (8) of a message are leaves -/
theorem C07_walk_member (pol : Policy) (w : World) (fi : Nat) (p : List Nat) (x : MsgHead × Msgs) (t k : Nat) (f : FileD)
    (hf : w.files[fi]? = some f) (hfi : fi < 900000) (hp : w.msgAt ⟨fi, p⟩ = some x) (ht : t = 2 ∨ t = 6 ∨ t = 8) :
    walkFrom pol w ⟨fi, p ++ [t, k]⟩ false = walkForest pol 0 (.node ⟨fi, p ++ [t, k]⟩ .nil .nil) ⟨[], none⟩ ∧
    walkFrom pol w ⟨fi, p ++ [t, k]⟩ true = ⟨[], none⟩ := by
  obtain ⟨rest, hrest⟩ := msgAt_path w ⟨fi, p⟩ x hp
  simp only at hrest
  have ht3 : t ≠ 3 := by omega
  have ht4 : t ≠ 4 := by omega
  apply C07_walk_leaf pol w ⟨fi, p ++ [t, k]⟩ f hf hfi (msgAt_ext_none w fi p x t [k] ht3 hp)
  · simp
  · intro i; rw [hrest]; simp
  · intro i; rw [hrest]; simp
  · intro i rp; simp only [List.reverse_append, List.reverse_cons, List.reverse_nil, List.nil_append, List.cons_append]
    intro e; simp only [List.cons.injEq] at e; exact ht4 e.2.1

/-- enum values of a file-level enum, methods, and file-level extensions are leaves -/
theorem C07_walk_top_leaf (pol : Policy) (w : World) (fi : Nat) (path : List Nat) (f : FileD)
    (hf : w.files[fi]? = some f) (hfi : fi < 900000)
    (hp : (∃ i k, path = [5, i, 2, k]) ∨ (∃ i k, path = [6, i, 2, k]) ∨ (∃ k, path = [7, k])) :
    walkFrom pol w ⟨fi, path⟩ false = walkForest pol 0 (.node ⟨fi, path⟩ .nil .nil) ⟨[], none⟩ ∧
    walkFrom pol w ⟨fi, path⟩ true = ⟨[], none⟩ := by
  rcases hp with ⟨i, k, rfl⟩ | ⟨i, k, rfl⟩ | ⟨k, rfl⟩
  all_goals
    apply C07_walk_leaf pol w _ f hf hfi (msgAt_none_of_head w fi _ _ (by decide))
    · simp
    · intro i; simp
    · intro i; simp
    · intro i rp; simp

/-- **C07 (start at an enum nested in a message)**: the enum and its values; through
    `PassThroughVisitor` its values. -/
theorem C07_walk_nested_enum (pol : Policy) (w : World) (fi : Nat) (p : List Nat) (h : MsgHead) (nested : Msgs)
    (i : Nat) (e : EnumD) (f : FileD) (hf : w.files[fi]? = some f) (hfi : fi < 900000)
    (hp : w.msgAt ⟨fi, p⟩ = some (h, nested)) (he : h.enums[i]? = some e) :
    walkFrom pol w ⟨fi, p ++ [4, i]⟩ false =
      walkForest pol 0 (.node ⟨fi, p ++ [4, i]⟩ (leavesF (childRefs fi (p ++ [4, i]) 2 e.values.length)) .nil) ⟨[], none⟩ ∧
    walkFrom pol w ⟨fi, p ++ [4, i]⟩ true =
      walkForest pol 0 (leavesF (childRefs fi (p ++ [4, i]) 2 e.values.length)) ⟨[], none⟩ := by
  obtain ⟨rest, hrest⟩ := msgAt_path w ⟨fi, p⟩ _ hp
  simp only at hrest
  have hge : ¬ (fi ≥ 900000) := by omega
  have hm := msgAt_ext_none w fi p _ 4 [i] (by decide) hp
  have hrev : (p ++ [4, i]).reverse = i :: 4 :: p.reverse := by simp
  constructor
  · unfold walkFrom
    simp only [hge, if_false, hf]
    split
    · rename_i hpp; rw [hrest] at hpp; simp at hpp
    · rename_i hpp; rw [hrest] at hpp; simp at hpp
    · rename_i hpp; rw [hrest] at hpp; simp at hpp
    · simp only [hm, hrev, List.reverse_reverse, hp, he, Bool.false_eq_true, if_false, walkForest]
      cases hv : visit pol 0 ⟨fi, p ++ [4, i]⟩ ⟨[], none⟩ with
      | mk ws1 o =>
        cases o with
        | none => simp
        | some v1 => simp [acceptLeaves_eq]
  · unfold walkFrom
    simp only [hge, if_false, hf]
    split
    · rename_i hpp; rw [hrest] at hpp; simp at hpp
    · rename_i hpp; rw [hrest] at hpp; simp at hpp
    · rename_i hpp; rw [hrest] at hpp; simp at hpp
    · simp [hm, hrev, hp, he, acceptLeaves_eq]

/-- `PassThroughVisitor` on a file-level enum or a service: its leaves -/
theorem C07_walk_enum_pass (pol : Policy) (w : World) (fi i : Nat) (f : FileD) (e : EnumD)
    (hf : w.files[fi]? = some f) (hfi : fi < 900000) (he : f.enums[i]? = some e) :
    walkFrom pol w ⟨fi, [5, i]⟩ true = walkForest pol 0 (leavesF (childRefs fi [5, i] 2 e.values.length)) ⟨[], none⟩ := by
  have hge : ¬ (fi ≥ 900000) := by omega
  simp [walkFrom, hge, hf, he, acceptLeaves_eq]

theorem C07_walk_service_pass (pol : Policy) (w : World) (fi i : Nat) (f : FileD) (s : ServiceD)
    (hf : w.files[fi]? = some f) (hfi : fi < 900000) (hs : f.services[i]? = some s) :
    walkFrom pol w ⟨fi, [6, i]⟩ true = walkForest pol 0 (leavesF (childRefs fi [6, i] 2 s.methods.length)) ⟨[], none⟩ := by
  have hge : ¬ (fi ≥ 900000) := by omega
  simp [walkFrom, hge, hf, hs, acceptLeaves_eq]

end Pgs.AST
