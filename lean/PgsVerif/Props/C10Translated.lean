import PgsVerif.Props.C11
import PgsVerif.Props.TieCodeC10
import PgsVerif.Props.TieCodeC10Surgery
/-!
# C10 — one iteration of the persist loop, computed by the translated code

`step_protoFile` (TieCodeC10) and `tie_insertFile` / `tie_insertAppend` (TieCodeC10Surgery) chained: for
a file, an injection and an append, what the model's loop iteration does to the response is exactly
the translated `ProtoFile`, the post-processors on the chunk's content, and the translated
`insertFile` / `insertAppend` on the response - everything but the post-processor chain regenerated
from artifact.go / persister.go on every run.  (The names the persister looks up are never empty: an
accepted name has at least one proper segment.)
-/
namespace Pgs.Persist
open Pgs Pgs.GenCode Pgs.FilePath

theorem accepted_ne_nil (n c : Bytes) (h : cleanGeneratorFileName n = .ok c) : c ≠ [] := by
  have hc : C11.cleanName n = .accepted c := (by
    rw [C11.tie_cleanGeneratorFileName, h])
  obtain ⟨_, hall, _⟩ := C11.C11_accepted_normal n c hc
  intro e
  subst e
  simp [splitOn, C11.properSeg] at hall

/-- a file artifact: the translated `ProtoFile` names the chunk, the translated `insertFile` places it -/
theorem C10_file_step_translated (procs : List Proc) (st st' : State) (name : Bytes) (body : Body) (ow tpl : Bool)
    (h : step procs st (.file name body ow tpl) = .ok st') :
    ∃ n c, cleanGeneratorFileName name = .ok n ∧
      postProcess procs (Art.file name body ow tpl).kind body.text = .ok c ∧
      st'.resp.files.map toResp = persister_insertFile (st.resp.files.map toResp) (toResp ⟨some n, none, c⟩) ow := by
  simp only [step, cleanOK_gen, render, bind, Except.bind, pure, Except.pure] at h
  cases hc : cleanGeneratorFileName name with
  | error e => simp [hc] at h
  | ok n =>
    simp only [hc] at h
    by_cases hf : (tpl && body.fails) = true
    · simp [hf] at h
    · simp only [hf, Bool.false_eq_true, if_false] at h
      cases hp : postProcess procs (Art.file name body ow tpl).kind body.text with
      | error e => simp [hp] at h
      | ok c =>
        simp only [hp, Except.ok.injEq] at h
        subst h
        refine ⟨n, c, rfl, rfl, ?_⟩
        exact (tie_insertFile st.resp.files ⟨some n, none, c⟩ ow (accepted_ne_nil name n hc)).symm

/-- an injection: never overwrites, always its own chunk -/
theorem C10_inj_step_translated (procs : List Proc) (st st' : State) (name ip : Bytes) (body : Body) (tpl : Bool)
    (h : step procs st (.inj name ip body tpl) = .ok st') :
    ∃ n c, cleanGeneratorFileName name = .ok n ∧
      postProcess procs (Art.inj name ip body tpl).kind body.text = .ok c ∧
      st'.resp.files.map toResp = persister_insertFile (st.resp.files.map toResp) (toResp ⟨some n, some ip, c⟩) false := by
  simp only [step, cleanOK_gen, render, bind, Except.bind, pure, Except.pure] at h
  cases hc : cleanGeneratorFileName name with
  | error e => simp [hc] at h
  | ok n =>
    simp only [hc] at h
    by_cases hf : (tpl && body.fails) = true
    · simp [hf] at h
    · simp only [hf, Bool.false_eq_true, if_false] at h
      cases hp : postProcess procs (Art.inj name ip body tpl).kind body.text with
      | error e => simp [hp] at h
      | ok c =>
        simp only [hp, Except.ok.injEq] at h
        subst h
        refine ⟨n, c, rfl, rfl, ?_⟩
        exact (tie_insertFile st.resp.files ⟨some n, some ip, c⟩ false (accepted_ne_nil name n hc)).symm

/-- an append: a nameless chunk placed by the translated `insertAppend` after the target's last chunk -/
theorem C10_app_step_translated (procs : List Proc) (st st' : State) (name : Bytes) (body : Body) (tpl : Bool)
    (h : step procs st (.app name body tpl) = .ok st') :
    ∃ n c, cleanGeneratorFileName name = .ok n ∧
      postProcess procs (Art.app name body tpl).kind body.text = .ok c ∧
      persister_insertAppend (st.resp.files.map toResp) n (toResp ⟨none, none, c⟩) = .ok (st'.resp.files.map toResp) := by
  simp only [step, cleanOK_gen, render, bind, Except.bind, pure, Except.pure] at h
  cases hc : cleanGeneratorFileName name with
  | error e => simp [hc] at h
  | ok n =>
    simp only [hc] at h
    by_cases hf : (tpl && body.fails) = true
    · simp [hf] at h
    · simp only [hf, Bool.false_eq_true, if_false] at h
      cases hp : postProcess procs (Art.app name body tpl).kind body.text with
      | error e => simp [hp] at h
      | ok c =>
        simp only [hp] at h
        cases hi : insertAppend st.resp.files n ⟨none, none, c⟩ with
        | error e => simp [hi] at h
        | ok fs =>
          simp only [hi, Except.ok.injEq] at h
          subst h
          refine ⟨n, c, rfl, rfl, ?_⟩
          have t := tie_insertAppend st.resp.files n ⟨none, none, c⟩ (accepted_ne_nil name n hc)
          rw [hi] at t
          cases hg : persister_insertAppend (st.resp.files.map toResp) n (toResp ⟨none, none, c⟩) with
          | error e => rw [hg] at t; simp at t
          | ok l => rw [hg] at t; simp at t; rw [t]

end Pgs.Persist
