import PgsVerif.Model.AstNav
namespace Pgs.AST
theorem placeholder_C01 : True := trivial
end Pgs.AST
