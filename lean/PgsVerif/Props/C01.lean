import PgsVerif.Proofs.Hydrate
import PgsVerif.Model.AstNav
import PgsVerif.Model.Valid
import PgsVerif.Proofs.DeclNodup
import PgsVerif.Proofs.DeclFacts
/-!
# C01 (building never fails) and C02 (lookup) — the index timeline of the AST builder

`hydrate` transcribes ast.go with every `mustSeen` looked up against the index as it is at that
moment.  `Valid` states, in terms of the declarations of the request, what protobuf's descriptor
validation guarantees and the proof needs: distinct keys, dependencies on earlier files, every type
reference naming a declaration of the right kind that is already declared when it is resolved.
-/
namespace Pgs.AST

theorem EntryRes.mono {a b : List Decl} {e : FieldD} (h : EntryRes a e) (hs : ∀ d ∈ a, d ∈ b) : EntryRes b e :=
  ⟨h.noGroup, h.notRepeated, fun x => (h.enum x).mono hs, fun x => (h.msg x).mono hs⟩

theorem FieldRes.mono {w : World} {a b : List Decl} {fd : FieldD} (h : FieldRes w a fd) (hs : ∀ d ∈ a, d ∈ b) :
    FieldRes w b fd := by
  refine ⟨h.noGroup, fun x => (h.enum x).mono hs, ?_⟩
  intro h11
  obtain ⟨d, hd, hk, hkind, hrep⟩ := h.msg h11
  refine ⟨d, hs d hd, hk, hkind, ?_⟩
  intro h3
  obtain ⟨hh, n, hat, hmap⟩ := hrep h3
  refine ⟨hh, n, hat, ?_⟩
  intro hme
  obtain ⟨k, v, rest, hf, hk', hv'⟩ := hmap hme
  exact ⟨k, v, rest, hf, hk'.mono hs, hv'.mono hs⟩

theorem AllFields.imp {P Q : FieldD → Prop} (h : ∀ fd, P fd → Q fd) : ∀ ms, AllFields P ms → AllFields Q ms := by
  intro ms
  induction ms with
  | nil => intro _; trivial
  | cons hd n r ih1 ih2 => intro ⟨a, b, c⟩; exact ⟨fun fd hfd => h fd (a fd hfd), ih1 b, ih2 c⟩

/-- what descriptor validation guarantees, in terms of the request's declarations -/
structure Valid (w : World) : Prop where
  keysNodup : ((declared w).map (·.key)).Nodup
  deps : ∀ pre f post, w.files = pre ++ f :: post → ∀ d ∈ f.deps, Resolves (declFrom 0 pre) d .file
  methods : ∀ pre f post, w.files = pre ++ f :: post → ∀ sv ∈ f.services, ∀ m ∈ sv.methods,
      Resolves (declFrom 0 pre ++ declFileHead pre.length f) m.input .msg ∧
      Resolves (declFrom 0 pre ++ declFileHead pre.length f) m.output .msg
  fields : ∀ pre f post, w.files = pre ++ f :: post → AllFields (FieldRes w (declFrom 0 (pre ++ [f]))) f.msgs
  exts : ∀ x ∈ allExts 0 w.files, FieldRes w (declared w) x.2 ∧ Resolves (declared w) x.2.extendee .msg

theorem nodup_reverse {α} {l : List α} (h : l.Nodup) : l.reverse.Nodup := by
  unfold List.Nodup at *
  rw [List.pairwise_reverse]
  exact h.imp (fun hab => Ne.symm hab)

theorem declFrom_append (n : Nat) (a b : List FileD) :
    declFrom n (a ++ b) = declFrom n a ++ declFrom (n + a.length) b := by
  induction a generalizing n with
  | nil => simp [declFrom]
  | cons f a ih =>
    have e : n + 1 + a.length = n + (a.length + 1) := by omega
    simp only [List.cons_append, declFrom, ih, List.append_assoc, List.length_cons, e]

theorem resolveFiles_ok (s : Seen) (hs : (s.map (·.key)).Nodup) :
    ∀ (ds : List String), (∀ d ∈ ds, Resolves s d .file) → ∃ rs, resolveFiles s ds = .ok rs := by
  intro ds
  induction ds with
  | nil => intro _; exact ⟨[], rfl⟩
  | cons d ds ih =>
    intro h
    obtain ⟨r, hr⟩ := mustSeen_of_resolves s hs d .file (h d (List.mem_cons_self ..))
    obtain ⟨rs, hrs⟩ := ih (fun x hx => h x (List.mem_cons_of_mem _ hx))
    exact ⟨r :: rs, by simp only [resolveFiles, hr, hrs]⟩

theorem nodup_keys_suffix (W : Seen) (hW : (W.map (·.key)).Nodup) (later s : Seen) (h : W = later ++ s) :
    (s.map (·.key)).Nodup := by
  rw [h, List.map_append] at hW
  exact (List.nodup_append.mp hW).2.1

/-- the timeline invariant over the files of the request -/
theorem hydrateFiles_ok (w : World) (hv : Valid w) :
    ∀ (post pre : List FileD) (g : Graph), w.files = pre ++ post →
      g.seen = (declFrom 0 pre).reverse →
      ∃ g', hydrateFiles w g pre.length post = .ok g' ∧ g'.seen = (declared w).reverse := by
  intro post
  induction post with
  | nil =>
    intro pre g hw hs
    refine ⟨g, rfl, ?_⟩
    simp only [List.append_nil] at hw
    rw [hs, declared, hw]
  | cons f post ih =>
    intro pre g hw hs
    have hWnd : (((declared w).reverse).map (·.key)).Nodup := by
      rw [List.map_reverse]; exact nodup_reverse hv.keysNodup
    -- the declarations of the request, split at this file
    have hdecl : declared w = declFrom 0 pre ++ (declFileHead pre.length f ++ declServices pre.length f)
        ++ declFrom (pre.length + 1) post := by
      unfold declared
      rw [hw, declFrom_append]
      simp [declFrom, declFile]
    have hW : (declared w).reverse = (declFrom (pre.length + 1) post).reverse ++ (declServices pre.length f).reverse
        ++ (declFileHead pre.length f).reverse ++ g.seen := by
      rw [hdecl, hs]; simp
    -- 1. dependencies, against the index that already holds this file
    obtain ⟨fd0, hfd0⟩ : ∃ d : Decl, d = ⟨f.name, ⟨pre.length, []⟩, .file⟩ := ⟨_, rfl⟩
    have hhead : declFileHead pre.length f = fd0 :: (declEnums pre.length (fileScope f) [] 5 f.enums
        ++ declFields pre.length (fileScope f) [] 7 .ext f.exts ++ declMsgs pre.length (fileScope f) [] 4 0 f.msgs) := by
      rw [hfd0]; rfl
    have hs1nd : (((fd0 :: g.seen)).map (·.key)).Nodup := by
      apply nodup_keys_suffix _ hWnd ((declFrom (pre.length + 1) post).reverse ++ (declServices pre.length f).reverse ++
        (declEnums pre.length (fileScope f) [] 5 f.enums ++ declFields pre.length (fileScope f) [] 7 .ext f.exts
          ++ declMsgs pre.length (fileScope f) [] 4 0 f.msgs).reverse)
      rw [hW, hhead]; simp
    obtain ⟨deps, hdeps⟩ := resolveFiles_ok (fd0 :: g.seen) hs1nd f.deps (by
      intro d hd
      refine (hv.deps pre f post hw d hd).mono ?_
      intro x hx
      exact List.mem_cons_of_mem _ (by rw [hs]; exact List.mem_reverse.mpr hx))
    -- 2. services, on top of everything the file declares before them
    have hbase : ∀ d ∈ declFrom 0 pre ++ declFileHead pre.length f, d ∈ (declFileHead pre.length f).reverse ++ g.seen := by
      intro d hd
      rcases List.mem_append.mp hd with h | h
      · exact List.mem_append_right _ (by rw [hs]; exact List.mem_reverse.mpr h)
      · exact List.mem_append_left _ (List.mem_reverse.mpr h)
    obtain ⟨mio, hmio⟩ := hydrateServices_ok pre.length (fileScope f) (declared w).reverse hWnd f.services
      ((declFileHead pre.length f).reverse ++ g.seen) 0 (declFrom 0 pre ++ declFileHead pre.length f) hbase
      ⟨(declFrom (pre.length + 1) post).reverse, by rw [hW, ← declServices_eq]; simp⟩
      (hv.methods pre f post hw)
    -- 3. field types, after the whole file is declared
    have hs3 : (declSvcsFrom pre.length (fileScope f) 0 f.services).reverse ++ ((declFileHead pre.length f).reverse ++ g.seen)
        = (declFrom 0 (pre ++ [f])).reverse := by
      rw [← declServices_eq, hs, declFrom_append]
      simp [declFrom, declFile]
    have hs3nd : (((declFrom 0 (pre ++ [f])).reverse).map (·.key)).Nodup := by
      apply nodup_keys_suffix _ hWnd (declFrom (pre.length + 1) post).reverse
      rw [hdecl, declFrom_append]
      simp [declFrom, declFile]
    obtain ⟨fts, hfts⟩ := msgFieldTypes_ok w (declFrom 0 (pre ++ [f])).reverse hs3nd pre.length f.msgs [] 4 0
      (AllFields.imp (fun fd h => h.mono (fun d hd => List.mem_reverse.mpr hd)) _ (hv.fields pre f post hw))
    -- assemble
    have hstep : hydrateFile w g pre.length f = .ok
        { g with seen := (declFrom 0 (pre ++ [f])).reverse, fileDeps := g.fileDeps ++ [(pre.length, deps)],
                 ftypes := g.ftypes ++ fts, mio := g.mio ++ mio } := by
      simp only [hydrateFile, ← hfd0, hdeps, hmio, hs3, hfts]
    obtain ⟨g', hg', hseen⟩ := ih (pre ++ [f])
      { g with seen := (declFrom 0 (pre ++ [f])).reverse, fileDeps := g.fileDeps ++ [(pre.length, deps)],
               ftypes := g.ftypes ++ fts, mio := g.mio ++ mio } (by rw [hw]; simp) rfl
    refine ⟨g', ?_, hseen⟩
    simp only [hydrateFiles, hstep]
    simpa using hg'

/-- **C01 — building never fails on a valid request**, and the index then holds exactly the
    declarations of the request. -/
theorem C01_no_failure (w : World) (hv : Valid w) : ∃ g, hydrate w = .ok g ∧ g.seen = (declared w).reverse := by
  obtain ⟨g, hg, hs⟩ := hydrateFiles_ok w hv w.files [] Graph.empty (by simp) (by simp [Graph.empty, declFrom])
  have hnd : ((g.seen).map (·.key)).Nodup := by
    rw [hs, List.map_reverse]; exact nodup_reverse hv.keysNodup
  obtain ⟨⟨ts, ms⟩, hx⟩ := hydrateExts_ok w g.seen hnd (allExts 0 w.files) (by
    intro x hx
    obtain ⟨h1, h2⟩ := hv.exts x hx
    have hsub : ∀ d ∈ declared w, d ∈ g.seen := fun d hd => by rw [hs]; exact List.mem_reverse.mpr hd
    exact ⟨h1.mono hsub, h2.mono hsub⟩)
  refine ⟨{ g with ftypes := g.ftypes ++ ts, extendees := ms }, ?_, hs⟩
  simp only [hydrate] at hg ⊢
  simp only [List.length_nil] at hg
  simp [hg, hx]

/-- **C02 — lookup**: looking up the key of a declared entity (a file: its path; otherwise its
    fully-qualified name) returns that same entity, and names that no descriptor declares are
    reported as not found. -/
theorem C02_lookup (w : World) (hv : Valid w) (g : Graph) (hg : hydrate w = .ok g) :
    (∀ d ∈ declared w, lookup g.seen d.key = some d) ∧
    (∀ k, k ∉ (declared w).map (·.key) → lookup g.seen k = none) := by
  obtain ⟨g', hg', hs⟩ := C01_no_failure w hv
  rw [hg] at hg'
  cases hg'
  constructor
  · intro d hd
    apply lookup_of_mem
    · rw [hs, List.map_reverse]; exact nodup_reverse hv.keysNodup
    · rw [hs]; exact List.mem_reverse.mpr hd
  · intro k hk
    apply lookup_none
    rw [hs, List.map_reverse]
    simpa using hk

/-- the navigation model never reports failure on a valid request -/
theorem C01_nav_not_failed (w : World) (hv : Valid w) : (navModel w).failed = false := by
  obtain ⟨g, hg, _⟩ := C01_no_failure w hv
  simp [navModel, hg]

end Pgs.AST

/-! ### the hypothesis is decidable: `validB` (evaluated on every generated request) implies `Valid` -/
namespace Pgs.AST

theorem resolvesB_sound {ds k kind} (h : resolvesB ds k kind = true) : Resolves ds k kind := by
  unfold resolvesB at h
  obtain ⟨d, hd, hp⟩ := List.any_eq_true.mp h
  simp only [Bool.and_eq_true, beq_iff_eq] at hp
  exact ⟨d, hd, hp.1, hp.2⟩

theorem entryResB_sound {ds e} (h : entryResB ds e = true) : EntryRes ds e := by
  unfold entryResB at h
  simp only [Bool.and_eq_true, Bool.or_eq_true, bne_iff_ne, ne_eq] at h
  obtain ⟨⟨⟨h1, h2⟩, h3⟩, h4⟩ := h
  refine ⟨h1, h2, ?_, ?_⟩
  · intro h14; rcases h3 with h3 | h3
    · exact absurd h14 h3
    · exact resolvesB_sound h3
  · intro h11; rcases h4 with h4 | h4
    · exact absurd h11 h4
    · exact resolvesB_sound h4

theorem fieldResB_sound {w ds fd} (h : fieldResB w ds fd = true) : FieldRes w ds fd := by
  unfold fieldResB at h
  simp only [Bool.and_eq_true, Bool.or_eq_true, bne_iff_ne, ne_eq] at h
  obtain ⟨⟨h1, h2⟩, h3⟩ := h
  refine ⟨h1, ?_, ?_⟩
  · intro h14; rcases h2 with h2 | h2
    · exact absurd h14 h2
    · exact resolvesB_sound h2
  · intro h11
    rcases h3 with h3 | h3
    · exact absurd h11 h3
    obtain ⟨d, hd, hp⟩ := List.any_eq_true.mp h3
    simp only [Bool.and_eq_true, Bool.or_eq_true, beq_iff_eq, bne_iff_ne, ne_eq] at hp
    obtain ⟨⟨hk, hkind⟩, hrep⟩ := hp
    refine ⟨d, hd, hk, hkind, ?_⟩
    intro hl
    rcases hrep with hrep | hrep
    · exact absurd hl hrep
    unfold mapOKB at hrep
    cases hat : w.msgAt d.ref with
    | none => simp [hat] at hrep
    | some hn =>
      obtain ⟨hh, n⟩ := hn
      refine ⟨hh, n, rfl, ?_⟩
      intro hme
      simp only [hat, hme, Bool.not_true, Bool.false_or] at hrep
      cases hf : hh.fields with
      | nil => simp [hf] at hrep
      | cons k r =>
        cases r with
        | nil => simp [hf] at hrep
        | cons v rest =>
          simp only [hf, Bool.and_eq_true] at hrep
          exact ⟨k, v, rest, rfl, entryResB_sound hrep.1, entryResB_sound hrep.2⟩

theorem allFieldsB_sound {p : FieldD → Bool} {P : FieldD → Prop} (hp : ∀ fd, p fd = true → P fd) :
    ∀ ms, allFieldsB p ms = true → AllFields P ms := by
  intro ms
  induction ms with
  | nil => intro _; trivial
  | cons h n r ih1 ih2 =>
    intro hb
    simp only [allFieldsB, Bool.and_eq_true, List.all_eq_true] at hb
    exact ⟨fun fd hfd => hp fd (hb.1.1 fd hfd), ih1 hb.1.2, ih2 hb.2⟩

theorem nodupB_sound : ∀ ks : List String, nodupB ks = true → ks.Nodup := by
  intro ks
  induction ks with
  | nil => intro _; exact List.nodup_nil
  | cons k ks ih =>
    intro h
    simp only [nodupB, Bool.and_eq_true, Bool.not_eq_true', List.contains_eq_mem, decide_eq_false_iff_not] at h
    exact List.nodup_cons.mpr ⟨h.1, ih h.2⟩

theorem filesOKB_sound (w : World) : ∀ (post0 pre0 : List FileD), filesOKB w pre0 post0 = true →
    ∀ pre f post, post0 = pre ++ f :: post → fileOKB w (pre0 ++ pre) f = true := by
  intro post0
  induction post0 with
  | nil => intro pre0 _ pre f post h; cases pre <;> simp at h
  | cons g post0 ih =>
    intro pre0 hb pre f post h
    simp only [filesOKB, Bool.and_eq_true] at hb
    cases pre with
    | nil =>
      simp only [List.nil_append, List.cons.injEq] at h
      rw [List.append_nil, ← h.1]; exact hb.1
    | cons g' pre =>
      simp only [List.cons_append, List.cons.injEq] at h
      have := ih (pre0 ++ [g]) hb.2 pre f post h.2
      rw [← h.1]
      simpa using this

theorem validB_sound (w : World) (h : validB w = true) : Valid w := by
  unfold validB at h
  simp only [Bool.and_eq_true, List.all_eq_true] at h
  obtain ⟨⟨hnd, hfiles⟩, hexts⟩ := h
  have hfile : ∀ pre f post, w.files = pre ++ f :: post → fileOKB w pre f = true := by
    intro pre f post hw
    simpa using filesOKB_sound w w.files [] hfiles pre f post hw
  refine ⟨nodupB_sound _ hnd, ?_, ?_, ?_, ?_⟩
  · intro pre f post hw d hd
    have := hfile pre f post hw
    simp only [fileOKB, Bool.and_eq_true, List.all_eq_true] at this
    exact resolvesB_sound (this.1.1 d hd)
  · intro pre f post hw sv hsv m hm
    have := hfile pre f post hw
    simp only [fileOKB, Bool.and_eq_true, List.all_eq_true] at this
    have := this.1.2 sv hsv m hm
    exact ⟨resolvesB_sound this.1, resolvesB_sound this.2⟩
  · intro pre f post hw
    have := hfile pre f post hw
    simp only [fileOKB, Bool.and_eq_true] at this
    exact allFieldsB_sound (fun fd => fieldResB_sound) _ this.2
  · intro x hx
    have := hexts x hx
    exact ⟨fieldResB_sound this.1, resolvesB_sound this.2⟩

/-- C01 for every request that passes the decidable check the driver evaluates -/
theorem C01_no_failure_dom (w : World) (h : validB w = true) : ∃ g, hydrate w = .ok g ∧ g.seen = (declared w).reverse :=
  C01_no_failure w (validB_sound w h)

end Pgs.AST

/-! ### non-vacuity: a concrete two-file request (enum, map field, cross-file message reference,
    service, extension) satisfies the hypothesis, so the theorems speak about something -/
namespace Pgs.AST
def exA : FileD where
  name := "a.proto"
  pkg := "p"
  syn := "proto3"
  deps := []
  publicDeps := []
  enums := [⟨"E", [⟨"Z", 0⟩]⟩]
  msgs := .cons ⟨"M", false, [⟨"e", 1, 1, 14, ".p.E", none, false, ""⟩, ⟨"m", 2, 3, 11, ".p.M.MEntry", none, false, ""⟩], [], [], []⟩
            (.cons ⟨"MEntry", true, [⟨"key", 1, 1, 9, "", none, false, ""⟩, ⟨"value", 2, 1, 11, ".p.M", none, false, ""⟩], [], [], []⟩ .nil .nil) .nil
  services := []
  exts := []
  locs := []
  goPackage := ""
def exB : FileD where
  name := "b.proto"
  pkg := "q"
  syn := ""
  deps := ["a.proto"]
  publicDeps := []
  enums := []
  msgs := .cons ⟨"N", false, [⟨"x", 1, 1, 11, ".p.M", none, false, ""⟩], [], [], []⟩ .nil .nil
  services := [⟨"S", [⟨"Do", ".p.M", ".q.N", false, false⟩]⟩]
  exts := [⟨"ext", 100, 1, 14, ".p.E", none, false, ".q.N"⟩]
  locs := []
  goPackage := ""
def exW : World := ⟨[exA, exB], ["b.proto"], false⟩
theorem exW_valid : Valid exW := validB_sound exW (by decide)
example : ∃ g, hydrate exW = .ok g ∧ g.seen = (declared exW).reverse := C01_no_failure exW exW_valid
end Pgs.AST

/-! ### every declared entity exactly once -/
namespace Pgs.AST

theorem declFrom_refs_nodup : ∀ (fs : List FileD) (n : Nat), ((declFrom n fs).map (·.ref)).Nodup := by
  intro fs
  induction fs with
  | nil => intro n; simp [declFrom]
  | cons f fs ih =>
    intro n
    simp only [declFrom, List.map_append]
    refine List.nodup_append.mpr ⟨declFile_refs_nodup n f, ih (n+1), ?_⟩
    intro x hx y hy e
    simp only [List.mem_map] at hx hy
    obtain ⟨d1, h1, rfl⟩ := hx
    obtain ⟨d2, h2, rfl⟩ := hy
    have a := declFile_file d1 h1
    have b := (declFrom_file fs (n+1) d2 h2).1
    rw [e] at a
    omega

/-- **C01 (exactly once)**: no two declarations of a request — files, messages (map entries
    included), enums, values, fields, oneofs, services, methods, extensions, at any depth — share a
    reference; with `C01_no_failure` (the index holds exactly the declarations) every declared
    entity is built exactly once.  Unconditional: holds for every request. -/
theorem C01_refs_nodup (w : World) : ((declared w).map (·.ref)).Nodup := declFrom_refs_nodup w.files 0

end Pgs.AST

/-! ### the "all messages / all enums" listings list nothing twice -/
namespace Pgs.AST

theorem allMsgRefs_sublist (fi : Nat) : ∀ (ms : Msgs) (p : List Nat) (tag i : Nat),
    (allMsgRefs fi p tag i ms).Sublist (msgsF fi p tag i ms).pre := by
  intro ms
  induction ms with
  | nil => intro p tag i; simp [allMsgRefs, msgsF, Forest.pre]
  | cons h nested rest ih1 ih2 =>
    intro p tag i
    by_cases hm : h.mapEntry = true
    · simp only [allMsgRefs, msgsF, hm, if_true, List.nil_append]
      exact ih2 _ _ _
    · have hm' : h.mapEntry = false := by simpa using hm
      rw [msgsF_pre_cons _ _ _ _ _ _ _ hm']
      simp only [allMsgRefs, hm', Bool.false_eq_true, if_false, List.cons_append]
      refine List.Sublist.cons_cons _ (List.Sublist.append ?_ (ih2 _ _ _))
      unfold msgKids
      exact List.sublist_append_of_sublist_right (List.sublist_append_of_sublist_left (ih1 _ _ _))

/-- **C01 (all messages, exactly once)**: the transitive listing of ordinary messages below a file
    names no message twice (and, being a subsequence of the containment pre-order, lists them in
    declaration order, parents before their nested messages). -/
theorem C01_allMessages_nodup (fi : Nat) (f : FileD) : (allMsgRefs fi [] 4 0 f.msgs).Nodup :=
  (allMsgRefs_sublist fi f.msgs [] 4 0).nodup (msgsF_nodup fi f.msgs [] 4 0)

end Pgs.AST
