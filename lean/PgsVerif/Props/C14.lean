import PgsVerif.Model.FailStop
/-!
# C14 — any failure is fail-stop: non-zero exit and no response bytes

Model: `C14.run` — the render pipeline under a fault plan.  (That `os.Exit` terminates the real
process and nothing else writes to its stdout is runtime behaviour, observed by the
correspondence run on real child processes: this property is claimed *partial*.)
-/
namespace Pgs.C14
open Pgs Pgs.Persist

theorem tag_ne_empty (f : Failure) : f.tag ≠ "" := by
  cases f with
  | artifact c => cases c <;> decide
  | _ => decide

/-- A run either succeeds with exit status 0, one complete response and nothing to report, or
    fails with status 1. -/
theorem C14_exit_codes (p : Plan) : run p = ⟨0, "full", ""⟩ ∨ (run p).exit = 1 := by
  unfold run
  repeat' split
  all_goals first | (left; rfl) | (right; rfl)

/-- **Fail-stop**: whenever the run does not succeed it exits non-zero, names a cause, and —
    unless the fault is the short write of the output itself — not a single byte of a response
    has been written. -/
theorem C14_fail_stop (p : Plan) (h : (run p).exit ≠ 0) :
    (run p).cause ≠ "" ∧ ((run p).stdout = "none" ∨ (run p).cause = "shortOutput") := by
  unfold run at h ⊢
  repeat' split at h
  all_goals first
    | (exact absurd rfl h)
    | (repeat' split
       all_goals first
         | (simp_all; done)
         | (refine ⟨?_, ?_⟩
            · simp only [failed]; exact tag_ne_empty _
            · first | (left; rfl) | (right; rfl)))

/-- A fault in the input, in the output, or in any artifact / file-system operation that takes
    effect makes the run fail; a plan without one succeeds. -/
theorem C14_succeeds_iff (p : Plan) :
    (run p).exit = 0 ↔
      p.input = .none ∧ p.out = .none ∧ ∃ st, persistF p.procs p.fsFault ⟨⟨[], none⟩, p.fs0⟩ 0 p.arts = .ok st := by
  unfold run
  constructor
  · intro h
    cases hi : p.input with
    | readError => simp [hi, failed] at h
    | garbage => simp [hi, failed] at h
    | noTargets => simp [hi, failed] at h
    | none =>
      simp only [hi] at h
      cases hp : persistF p.procs p.fsFault ⟨⟨[], none⟩, p.fs0⟩ 0 p.arts with
      | error f => simp [hp, failed] at h
      | ok st =>
        simp only [hp] at h
        cases ho : p.out with
        | error => simp [ho, failed] at h
        | short => simp [ho, failed] at h
        | none => exact ⟨rfl, rfl, st, rfl⟩
  · rintro ⟨h1, h2, st, h3⟩
    simp [h1, h2, h3]

/-- without a file-system fault, the faulty pipeline is the C10/C12 persister: its failures are
    exactly the artifact failures of `Persist.persistFrom` -/
theorem persistF_none (procs : List Proc) (arts : List Art) : ∀ (st : State) (k : Nat),
    persistF procs none st k arts =
      (match persistFrom procs st arts with | .ok s => .ok s | .error c => .error (.artifact c)) := by
  induction arts with
  | nil => intro st k; rfl
  | cons a as ih =>
    intro st k
    cases a with
    | custom name body perms ow tpl =>
      simp only [persistF, persistFrom, step]
      cases hr : render body tpl with
      | error c => simp [bind, Except.bind]
      | ok text =>
        simp only [bind, Except.bind]
        cases hp : postProcess procs (Art.custom name body perms ow tpl).kind text with
        | error c => simp
        | ok c =>
          simp only [writeFileF, writeFile, pure, Except.pure]
          by_cases he : ((st.fs.mkdirAll (FilePath.dir name)).exists name && !ow) = true
          · have : (st.fs.mkdirAll (FilePath.dir name)).exists name = true ∧ ow = false := by simpa using he
            simp [this.1, this.2, ih]
          · simp only [he]
            by_cases hex : (st.fs.mkdirAll (FilePath.dir name)).exists name = true
            · have how : ow = true := by
                cases ow with
                | true => rfl
                | false => simp [hex] at he
              simp [hex, how, ih]
            · simp [hex, ih]
    | file n b o t => simp only [persistF, persistFrom]; cases step procs st _ <;> simp [ih]
    | app n b t => simp only [persistF, persistFrom]; cases step procs st _ <;> simp [ih]
    | inj n i b t => simp only [persistF, persistFrom]; cases step procs st _ <;> simp [ih]
    | err m => simp only [persistF, persistFrom]; cases step procs st _ <;> simp [ih]
    | unknown => simp only [persistF, persistFrom]; cases step procs st _ <;> simp [ih]

/-- Φ_C14 holds of the model for every plan. -/
theorem C14_judge (p : Plan) : judge p (run p) = none := by
  unfold judge
  rcases C14_exit_codes p with h | h
  · simp [h]
  · have hne : (run p).exit ≠ 0 := by rw [h]; decide
    obtain ⟨h1, h2⟩ := C14_fail_stop p hne
    simp only [h, Nat.succ_ne_zero, if_false, bne_self_eq_false, Bool.false_eq_true, or_false]
    rcases h2 with h2 | h2
    · simp [h1, h2]
    · simp [h1, h2]

/-! ### non-vacuity: a plan whose only fault is a failing Close of the second custom file -/
private def demoPlan : Plan :=
  ⟨.none, [.custom [97] ⟨[49], false⟩ 420 false false, .file [102] ⟨[70], false⟩ false false,
           .custom [98] ⟨[50], false⟩ 420 false false], [], ⟨[], []⟩, some (1, .close), .none⟩
example : run demoPlan = ⟨1, "none", "fsWrite"⟩ := by decide
example : run { demoPlan with fsFault := none } = ⟨0, "full", ""⟩ := by decide

end Pgs.C14
