import PgsVerif.Generated.Tables
import PgsVerif.Model.Gen
/-!
# Tie by translation: the `output_path` parameter key (parameters.go)
-/
namespace Pgs.Tie

theorem tie_outputPathKey : Generated.outputPathKey = Pgs.C13.outputPathKey := rfl

end Pgs.Tie
