import PgsVerif.Props.TieCodeC17
import PgsVerif.Generated.Code_typePredicates
/-!
# Tie (translated code): the shape predicates of the five field-type structs

`scalarT`, `enumT`, `embedT`, `repT`, `mapT` (and the element structs `scalarE`, `enumE`, `embedE`)
answer `IsMap / IsRepeated / IsEmbed / IsEnum` with constants, inherited through struct embedding.
The translator lists which struct embeds which and which constants each declares; Go's method
resolution through embedding is `resolve` below.  The model's `FType` constructors carry exactly the
resolved answers (`tie_shape_*`) - these are the flags `Type` (TieCodeC17) and the C03 shape theorem read.
-/
namespace Pgs.GoTypes
open Pgs Pgs.AST Pgs.GenCode

/-- Go's promotion of methods through embedded structs: the struct's own declaration wins, else its
    embedded struct's answer -/
def resolve : Nat → String → String → Option Bool
  | 0, _, _ => none
  | fuel + 1, t, m =>
    match typePreds.find? (fun x => x.1 == t && x.2.1 == m) with
    | some x => some x.2.2
    | none =>
      match typeEmbeds.lookup t with
      | some parent => resolve fuel parent m
      | none => none

def goStruct : FType → String
  | .scalar _ => "scalarT" | .enum _ => "enumT" | .embed _ => "embedT" | .repeated _ => "repT" | .map _ _ => "mapT"

def goElemStruct : Elem → String
  | .scalar _ => "scalarE" | .enum _ _ => "enumE" | .embed _ _ => "embedE"

/-- the flags `Type` reads (`typeEnv`) are the resolved answers of the struct the type is built as -/
theorem tie_shape (w : World) (own : Nat) (p : Bool) (t : FType) :
    resolve 4 (goStruct t) "IsMap" = some (typeEnv w own p t).isMap ∧
    resolve 4 (goStruct t) "IsRepeated" = some (typeEnv w own p t).isRepeated ∧
    resolve 4 (goStruct t) "IsEmbed" = some (typeEnv w own p t).isEmbed ∧
    resolve 4 (goStruct t) "IsEnum" = some (typeEnv w own p t).isEnum := by
  cases t <;> refine ⟨?_, ?_, ?_, ?_⟩ <;> simp only [goStruct, typeEnv] <;> decide

theorem tie_elem_shape (w : World) (own : Nat) (e : Elem) :
    resolve 4 (goElemStruct e) "IsEmbed" = some (elemEnv w own e).isEmbed ∧
    resolve 4 (goElemStruct e) "IsEnum" = some (elemEnv w own e).isEnum := by
  cases e <;> refine ⟨?_, ?_⟩ <;> simp only [goElemStruct, elemEnv] <;> decide

/-- exactly one shape: a map is not "repeated" although it is built on the repeated struct -/
theorem tie_map_not_repeated : resolve 4 "mapT" "IsRepeated" = some false ∧ resolve 4 "repT" "IsRepeated" = some true := by decide

end Pgs.GoTypes
