import PgsVerif.Generated.Code_sciSteps
/-!
# Tie (translated code): how source locations are attached and kept

The loop of `hydrateSourceCodeInfo` and, for every kind of entity, where its own location is kept and what
`SourceCodeInfo()` returns - read from the current source in order.  It is the rule Φ_C08 states and the
C08 theorems prove of the model (`C08_designated`, `C08_only_designated`, `C08_no_other`, `C08_package_info`,
`C08_syntax_info`): every location of the file is considered, in order; the empty path designates nothing;
a one-element path is the syntax statement, the package statement, or nothing; any other path goes to the
entity `childAtPath` designates, if any (`TieCodeC08.tie_dispatch` for that function), and to no other;
each entity keeps one location, the last one stored; a file's `SourceCodeInfo()` is that of its syntax
statement.
-/
namespace Pgs.C08
open Pgs.GenCode

def sciStepsOf (fn : String) : List String := (sciSteps.lookup fn).getD ["<no such function>"]

/-- the attaching loop -/
theorem tie_hydrateSourceCodeInfo :
    sciStepsOf "graph.hydrateSourceCodeInfo" =
      ["range fd.GetSourceCodeInfo().GetLocation() {", "info = sci{desc: loc}", "path = loc.GetPath()", "if len(path) == 0 {", "continue", "}", "if len(path) == 1 {", "switch path[0] {", "case syntaxPath {", "f.addSourceCodeInfo(info)", "}", "case packagePath {", "f.addPackageSourceCodeInfo(info)", "}", "default {", "continue", "}", "}", "}", "if e = f.childAtPath(path); e != nil {", "e.addSourceCodeInfo(info)", "}", "}"] := by decide

/-- a file keeps the location of its syntax statement and that of its package statement apart; `SourceCodeInfo()` is the former -/
theorem tie_file_sci :
    sciStepsOf "file.addSourceCodeInfo" = ["f.syntaxInfo = info"] ∧ sciStepsOf "file.addPackageSourceCodeInfo" = ["f.packageInfo = info"] ∧
    sciStepsOf "file.SourceCodeInfo" = ["return f.SyntaxSourceCodeInfo()"] ∧ sciStepsOf "file.SyntaxSourceCodeInfo" = ["return f.syntaxInfo"] ∧
    sciStepsOf "file.PackageSourceCodeInfo" = ["return f.packageInfo"] := by decide

/-- every other kind of entity keeps exactly what it was given, and returns it -/
theorem tie_entity_sci :
    (["msg", "enum", "enumVal", "field", "oneof", "service", "method"].map fun k => ((sciStepsOf (k ++ ".addSourceCodeInfo")).length, (sciStepsOf (k ++ ".SourceCodeInfo")).length))
      = List.replicate 7 (1, 1) ∧
    sciStepsOf "msg.addSourceCodeInfo" = ["m.info = info"] ∧ sciStepsOf "msg.SourceCodeInfo" = ["return m.info"] ∧
    sciStepsOf "enum.addSourceCodeInfo" = ["e.info = info"] ∧ sciStepsOf "enum.SourceCodeInfo" = ["return e.info"] ∧
    sciStepsOf "enumVal.addSourceCodeInfo" = ["ev.info = info"] ∧ sciStepsOf "enumVal.SourceCodeInfo" = ["return ev.info"] ∧
    sciStepsOf "field.addSourceCodeInfo" = ["f.info = info"] ∧ sciStepsOf "field.SourceCodeInfo" = ["return f.info"] ∧
    sciStepsOf "oneof.addSourceCodeInfo" = ["o.info = info"] ∧ sciStepsOf "oneof.SourceCodeInfo" = ["return o.info"] ∧
    sciStepsOf "service.addSourceCodeInfo" = ["s.info = info"] ∧ sciStepsOf "service.SourceCodeInfo" = ["return s.info"] ∧
    sciStepsOf "method.addSourceCodeInfo" = ["m.info = info"] ∧ sciStepsOf "method.SourceCodeInfo" = ["return m.info"] := by decide

end Pgs.C08
