import PgsVerif.Model.CleanName
import PgsVerif.Generated.Code_cleanGeneratorFileName
/-!
# Tie (translated code): `cleanGeneratorFileName`

`Generated/Code.lean` holds the statement-by-statement translation of artifact.go's
`cleanGeneratorFileName`, regenerated from the source on every run.  The hand-written model the C11
theorems are about is equal to it: the order of the tests (absolute first, then normalise, then
"." / ".." on the *normalised* name) and what each branch returns are the source's.
-/
namespace Pgs.C11
open Pgs Pgs.FilePath

theorem tie_cleanGeneratorFileName (n : Bytes) :
    cleanName n = match GenCode.cleanGeneratorFileName n with
      | .ok c => .accepted c
      | .error _ => .rejected := by
  unfold cleanName GenCode.cleanGeneratorFileName GenCode.toSlashUnix GenCode.hasPrefix
  by_cases h1 : isAbs n = true
  · simp [h1]
  · simp only [h1, Bool.false_eq_true, if_false]
    by_cases h2 : clean n = dotSeg
    · simp [h2, dotSeg, dot]
    · by_cases h3 : isPrefixOfB dotdot (clean n) = true
      · have h3' : isPrefixOfB [46, 46] (clean n) = true := h3
        simp [h3, h3']
      · have h3' : isPrefixOfB [46, 46] (clean n) = false := by simpa [dotdot, dot] using h3
        have h2' : ¬ (clean n = [46]) := h2
        simp [h2, h3, h3', h2']

end Pgs.C11
