import PgsVerif.Model.Persist
import PgsVerif.Generated.Code_persister_writeFile
/-!
# Tie (translated code): `writeFile` of the persister

persister.go's `writeFile` is translated from the current source with the file system as the state
it updates (`MkdirAll` of the parent, `Exists`, `WriteFile`; faults belong to C14): make the parent
directories, look whether the path exists, and write unless it does and is not to be overwritten.
The model the C12 theorems are about is that translation.
-/
namespace Pgs.Persist
open Pgs Pgs.GenCode

theorem tie_writeFile (fs : FS) (name content : Bytes) (ow : Bool) (perms : Nat) :
    writeFile fs name content ow perms = persister_writeFile fs name content ow perms := by
  unfold writeFile persister_writeFile mkdirAllMode
  cases ow <;> simp

end Pgs.Persist
