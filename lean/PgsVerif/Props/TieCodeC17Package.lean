import PgsVerif.Model.GoTypes
import PgsVerif.Props.C17
import PgsVerif.Generated.Code_context_optionPackage
import PgsVerif.Generated.Code_context_PackageName
import PgsVerif.Generated.Code_context_resolveGoPackageOption
import PgsVerif.Generated.Code_packagePattern
/-!
# Tie (translated code): which Go package a file belongs to (lang/go/package.go)

`resolveGoPackageOption`, `optionPackage` and `PackageName` are translated from the current source,
every branch: the `M<file>=<path>` override for files that are not build targets, the file's own
`go_package`, that of the first file of the same proto package that declares one, the
`path;name` / `path/name` / bare-name spellings, the fall-back to the proto package name in snake
case or to the sanitised base name of the file, the `import_path` parameter (only when the file
declares no go_package), and the `_` put before a Go keyword or a leading digit.

What they read of the entity is the environment `PkgEnv` (input path, the file's go_package, the
go_packages of the files of its proto package in order, the proto package name, whether it is a
build target, the parameters).  `tie_optionPackage_declared` / `tie_PackageName_declared` prove the
model's `PgsGo.optionPackage` / `packageName` - which the C17 theorems compare with protoc-gen-go -
equal to the translations whenever a go_package is declared and no override is in force; the other
branches are stated on the translation itself.  The pattern whose matches become `_` is read from
the source (`tie_pattern`); that replacing every match of `[^a-zA-Z0-9]` is `sanitizeRunes` is the
(trusted) reading of Go's regexp on the rune sequence.
-/
namespace Pgs.GoTypes
open Pgs Pgs.GenCode

/-- the file's own go_package wins -/
theorem tie_resolve_own (env : PkgEnv) (h : env.goPackage ≠ []) : context_resolveGoPackageOption env = env.goPackage := by
  simp [context_resolveGoPackageOption, h]

/-- otherwise the first file of the proto package that declares one, in the package's file order; none: "" -/
theorem tie_resolve_first (env : PkgEnv) (h : env.goPackage = []) :
    context_resolveGoPackageOption env = ((env.pkgGoPackages.find? (· != [])).getD []) := by
  simp only [context_resolveGoPackageOption, h]
  cases hf : List.find? (fun f => f != ([] : Bytes)) env.pkgGoPackages <;> simp

theorem lastIndexB_none (c : Nat) (s : Bytes) (h : lastIndexOf c s = none) : lastIndexB s [c] = -1 := by
  simp [lastIndexB, h]
theorem lastIndexB_some (c : Nat) (s : Bytes) (i : Nat) (h : lastIndexOf c s = some i) : lastIndexB s [c] = (i : Int) := by
  simp [lastIndexB, h]

/-- a declared go_package, no M override in force: the model's `optionPackage` is the translation -/
theorem tie_optionPackage_declared (snake : Bytes → Bytes) (env : PkgEnv) (opt : Bytes)
    (hM : C19.get env.params (([77] : Bytes) ++ env.input) = none ∨ env.buildTarget = true)
    (hopt : context_resolveGoPackageOption env = opt) (hne : opt ≠ []) :
    context_optionPackage snake env = PgsGo.optionPackage env.input opt := by
  have hne' : (opt == ([] : Bytes)) = false := by simpa using hne
  have key : (let pkg := opt; let path := filePath_Dir env.input;
      if (pkg == ([] : Bytes)) then
        (let n := env.protoName; if (n != ([] : Bytes)) then (path, snake n) else (path, replaceNonAlnum (filePath_BaseName env.input) [95]))
      else
        let idx := lastIndexB pkg [59]
        if decide (idx > (-(1 : Int))) then (List.take (Int.toNat idx) pkg, replaceNonAlnum (List.drop (Int.toNat (idx + 1)) pkg) [95])
        else
          let idx := lastIndexB pkg [47]
          if decide (idx > (-(1 : Int))) then (pkg, replaceNonAlnum (List.drop (Int.toNat (idx + 1)) pkg) [95])
          else (path, replaceNonAlnum pkg [95])) = PgsGo.optionPackage env.input opt := by
    simp only [hne', PgsGo.optionPackage, semicolon, slash, replaceNonAlnum]
    cases h1 : lastIndexOf 59 opt with
    | some i =>
      have hlt : (-1 : Int) < (i : Int) := by omega
      have e1 : Int.toNat ((i : Int) + 1) = i + 1 := by omega
      simp [lastIndexB_some _ _ _ h1, hlt, e1]
    | none =>
      simp only [lastIndexB_none _ _ h1]
      cases h2 : lastIndexOf 47 opt with
      | some i =>
        have hn : decide ((-1 : Int) > (-(1 : Int))) = false := by decide
        have hlt : (-1 : Int) < (i : Int) := by omega
        have e1 : Int.toNat ((i : Int) + 1) = i + 1 := by omega
        simp [lastIndexB_some _ _ _ h2, hlt, e1]
      | none =>
        have hn : decide ((-1 : Int) > (-(1 : Int))) = false := by decide
        simp [lastIndexB_none _ _ h2, filePath_Dir]
  unfold context_optionPackage
  rcases hM with hM | hM
  · simp only [hM, hopt]; exact key
  · cases hg : C19.get env.params (([77] : Bytes) ++ env.input) with
    | none => simp only [hopt]; exact key
    | some o => simp only [hM, hopt]; exact key

/-- an `M<input>=<path>` parameter overrides everything for a file that is not a build target: the path as given, the package name what
    follows its last slash (not sanitised) -/
theorem tie_optionPackage_M (snake : Bytes → Bytes) (env : PkgEnv) (o : Bytes)
    (hM : C19.get env.params (([77] : Bytes) ++ env.input) = some o) (hT : env.buildTarget = false) :
    context_optionPackage snake env = (o, match lastIndexOf slash o with | some i => o.drop (i + 1) | none => o) := by
  unfold context_optionPackage
  simp only [hM, hT, slash]
  cases h : lastIndexOf 47 o with
  | some i =>
    have hlt : (-1 : Int) < (i : Int) := by omega
    have e1 : Int.toNat ((i : Int) + 1) = i + 1 := by omega
    simp [lastIndexB_some _ _ _ h, hlt, e1]
  | none => simp [lastIndexB_none _ _ h]

/-- no go_package anywhere in the proto package: the proto package name in snake case, or - without a package statement - the sanitised
    base name of the file; the import path is the file's directory -/
theorem tie_optionPackage_fallback (snake : Bytes → Bytes) (env : PkgEnv)
    (hM : C19.get env.params (([77] : Bytes) ++ env.input) = none ∨ env.buildTarget = true)
    (hopt : context_resolveGoPackageOption env = []) :
    context_optionPackage snake env =
      (FilePath.dir env.input, if env.protoName ≠ [] then snake env.protoName else PgsGo.sanitize (filePath_BaseName env.input)) := by
  unfold context_optionPackage
  rcases hM with hM | hM
  · simp only [hM, hopt]
    by_cases hp : env.protoName = [] <;> simp [hp, replaceNonAlnum, filePath_Dir]
  · cases hg : C19.get env.params (([77] : Bytes) ++ env.input) <;> simp only [hM, hopt] <;>
      by_cases hp : env.protoName = [] <;> simp [hp, replaceNonAlnum, filePath_Dir]

/-- **`PackageName`** for a file with a declared go_package: the model's `packageName` is the translation -/
theorem tie_PackageName_declared (snake : Bytes → Bytes) (env : PkgEnv) (opt : Bytes)
    (hM : C19.get env.params (([77] : Bytes) ++ env.input) = none ∨ env.buildTarget = true)
    (hopt : env.goPackage = opt) (hne : opt ≠ []) :
    context_PackageName snake env = PgsGo.packageName env.input opt := by
  have hr : context_resolveGoPackageOption env = opt := by rw [tie_resolve_own env (hopt ▸ hne), hopt]
  have hgp : (env.goPackage == ([] : Bytes)) = false := by rw [hopt]; simpa using hne
  unfold context_PackageName PgsGo.packageName
  simp only [tie_optionPackage_declared snake env opt hM hr hne, hgp, Bool.and_false, Bool.false_eq_true, if_false, id, decodeRuneAscii]
  by_cases hk : goKeywordsB.contains (PgsGo.optionPackage env.input opt).2 = true
  · simp only [hk, if_true]
    by_cases hdg : GoNames.isDigitB 95 = true <;> simp [hdg, underscore]
  · simp only [hk, if_false, Bool.false_eq_true]
    cases (PgsGo.optionPackage env.input opt).2 with
    | nil => simp [GoNames.isDigitB]
    | cons c cs => by_cases hdg : GoNames.isDigitB c = true <;> simp [hdg, underscore]

/-- the `import_path` parameter names the package only when the file declares no go_package; it gets the same `_` prefixes -/
theorem tie_PackageName_import_path (snake : Bytes → Bytes) (env : PkgEnv) (ip : Bytes)
    (hip : parameters_Str env.params [105, 109, 112, 111, 114, 116, 95, 112, 97, 116, 104] = ip) (hne : ip ≠ []) (hg : env.goPackage = []) :
    context_PackageName snake env =
      (let pkg := if goKeywordsB.contains ip then underscore :: ip else ip
       match pkg with
       | c :: _ => if GoNames.isDigitB c then underscore :: pkg else pkg
       | [] => pkg) := by
  have h1 : (ip != ([] : Bytes)) = true := by simpa using hne
  unfold context_PackageName
  simp only [hip, hg, h1, beq_self_eq_true, Bool.and_true, if_true, id, decodeRuneAscii]
  by_cases hk : goKeywordsB.contains ip = true
  · simp only [hk, if_true]
    by_cases hdg : GoNames.isDigitB 95 = true <;> simp [hdg, underscore]
  · simp only [hk, if_false, Bool.false_eq_true]
    cases ip with
    | nil => exact absurd rfl hne
    | cons c cs => by_cases hdg : GoNames.isDigitB c = true <;> simp [hdg, underscore]

/-! ### the C17 package theorems, on the translated functions -/

/-- **package name**: what the translated `PackageName` answers for a file with a declared go_package is the package name
    protoc-gen-go gives it (the three spellings; last element usable) -/
theorem C17_package_name_translated (snake : Bytes → Bytes) (env : PkgEnv) (opt : Bytes)
    (hM : C19.get env.params (([77] : Bytes) ++ env.input) = none ∨ env.buildTarget = true)
    (hopt : env.goPackage = opt) (hne : opt ≠ [])
    (hsemi : ∀ i, lastIndexOf semicolon opt = some i → firstIndexOf semicolon opt = some i)
    (hlast : usable (match firstIndexOf semicolon opt with
                      | some i => opt.drop (i+1)
                      | none => match lastIndexOf slash opt with | some i => opt.drop (i+1) | none => opt)) :
    context_PackageName snake env = Protogen.packageName opt := by
  rw [tie_PackageName_declared snake env opt hM hopt hne]
  exact C17_package_name env.input opt hsemi hlast

/-- **import path**: the path component of the translated `optionPackage` is protoc-gen-go's import path -/
theorem C17_import_path_translated (snake : Bytes → Bytes) (env : PkgEnv) (opt : Bytes)
    (hM : C19.get env.params (([77] : Bytes) ++ env.input) = none ∨ env.buildTarget = true)
    (hopt : env.goPackage = opt) (hne : opt ≠ [])
    (hsemi : ∀ i, lastIndexOf semicolon opt = some i → firstIndexOf semicolon opt = some i ∧ opt.take i ≠ [])
    (hnone : lastIndexOf semicolon opt = none → firstIndexOf semicolon opt = none) :
    (context_optionPackage snake env).1 = Protogen.importPath env.input opt := by
  have hr : context_resolveGoPackageOption env = opt := by rw [tie_resolve_own env (hopt ▸ hne), hopt]
  rw [tie_optionPackage_declared snake env opt hM hr hne]
  exact C17_import_path env.input opt hsemi hnone hne

/-- the pattern the source compiles: one rune that is not an ASCII letter or digit (no repetition: one `_` per rune) -/
theorem tie_pattern : nonAlphaNumPattern = "[^a-zA-Z0-9]" := by decide

/-- non-vacuity: go_package "example.com/foo/bar;2pkg" for a/b.proto; an M override; the fall-back -/
example : context_optionPackage id ⟨[97, 47, 98], [101, 120, 47, 102, 59, 50, 112], [], [], true, []⟩ = ([101, 120, 47, 102], [50, 112]) := by decide
example : context_PackageName id ⟨[97, 47, 98], [101, 120, 47, 102, 59, 50, 112], [], [], true, []⟩ = [95, 50, 112] := by decide
example : context_optionPackage id ⟨[97, 47, 98], [], [[], [103, 111]], [], true, []⟩ = ([97], [103, 111]) := by decide
example : context_optionPackage id ⟨[97, 47, 98], [120], [], [], false, [([77, 97, 47, 98], [113, 47, 114])]⟩ = ([113, 47, 114], [114]) := by decide

end Pgs.GoTypes
