import PgsVerif.Proofs.CamelCut
import PgsVerif.Proofs.NameSplit
/-!
# C15 — name splitting is lossless and segments identifiers as documented

Model: `C15.split` (transcription of `Name.Split`, the camel-case scanner as a fold) and
`C15.transform`.  Every theorem is for **all** rune sequences and **all** classifications
`up dg : Nat → Bool` of runes into upper/title-case and digits.
-/
namespace Pgs.C15
open Pgs

theorem joinWith_cons_head (sep : Runes) (u : Nat) (p : Runes) (ps : List Runes) :
    joinWith sep ((u :: p) :: ps) = u :: joinWith sep (p :: ps) := by
  cases ps with
  | nil => simp [joinWith]
  | cons q qs => simp [joinWith_cons_cons]

/-- Joining the parts with the separator the name was split on reproduces the name. -/
theorem C15_lossless (up dg : Nat → Bool) (rs : Runes) :
    joinWith (sepOf rs) (split up dg rs) = rs := by
  unfold split sepOf
  by_cases h0 : rs = []
  · subst h0; simp [joinWith]
  · rw [if_neg h0]
    by_cases hd : rs.contains dot = true
    · rw [if_pos hd, if_pos hd]; exact joinWith_splitOn dot rs
    · rw [if_neg hd, if_neg hd]
      by_cases hu : (rs.drop 1).contains underscore = true
      · rw [if_pos hu, if_pos hu]
        have hj := joinWith_splitOn underscore rs
        split
        · rename_i p1 ps heq
          rw [heq] at hj
          rw [joinWith_cons_head]
          rw [joinWith_cons_cons] at hj
          simpa using hj
        · exact hj
      · rw [if_neg hu, if_neg hu]
        rw [joinWith_nil]; exact camel_flatten up dg rs

/-- scanner invariant lifted to the whole fold -/
theorem foldl_nonempty (up dg : Nat → Bool) (rs : Runes) (s : St) (hp : ∀ p ∈ s.parts, p ≠ [])
    (hb : rs = [] → s.buf ≠ []) :
    (∀ p ∈ (rs.foldl (step up dg) s).parts, p ≠ []) ∧ (rs.foldl (step up dg) s).buf ≠ [] := by
  induction rs generalizing s with
  | nil => exact ⟨hp, hb rfl⟩
  | cons r rs ih =>
    simp only [List.foldl_cons]
    obtain ⟨h1, h2⟩ := step_nonempty up dg s r hp
    exact ih _ h1 (fun _ => h2)

/-- In the camel-case branch no part is empty. -/
theorem C15_camel_no_empty_part (up dg : Nat → Bool) (rs : Runes) (h0 : rs ≠ []) :
    ∀ p ∈ camel up dg rs, p ≠ [] := by
  obtain ⟨h1, h2⟩ := foldl_nonempty up dg rs St.init (by simp [St.init]) (fun e => absurd e h0)
  intro p hp
  simp only [camel, List.mem_append, List.mem_singleton] at hp
  rcases hp with hp | hp
  · exact h1 p hp
  · subst hp; exact h2

/-- The parts are the dot segments whenever the name contains a dot … -/
theorem C15_dot_segments (up dg : Nat → Bool) (rs : Runes) (h : rs.contains dot = true) :
    split up dg rs = splitOn dot rs := by
  have h0 : rs ≠ [] := by intro e; subst e; simp at h
  unfold split; rw [if_neg h0, if_pos h]

/-- … else the underscore segments with a leading underscore kept on the first word … -/
theorem C15_underscore_segments (up dg : Nat → Bool) (rs : Runes) (hd : rs.contains dot = false)
    (hu : (rs.drop 1).contains underscore = true) :
    split up dg rs =
      (match splitOn underscore rs with
       | [] :: p1 :: ps => (underscore :: p1) :: ps
       | ps => ps) := by
  have h0 : rs ≠ [] := by intro e; subst e; simp at hu
  have hd' : ¬ rs.contains dot = true := by rw [hd]; exact Bool.false_ne_true
  unfold split; rw [if_neg h0, if_neg hd', if_pos hu]
  rfl

/-- … else the scanner's camel-case words. -/
theorem C15_camel_branch (up dg : Nat → Bool) (rs : Runes) (h0 : rs ≠ []) (hd : rs.contains dot = false)
    (hu : (rs.drop 1).contains underscore = false) : split up dg rs = camel up dg rs := by
  have hd' : ¬ rs.contains dot = true := by rw [hd]; exact Bool.false_ne_true
  have hu' : ¬ (rs.drop 1).contains underscore = true := by rw [hu]; exact Bool.false_ne_true
  unfold split; rw [if_neg h0, if_neg hd', if_neg hu']

/-- the indexing `parts[1]` performed by the Go code in the underscore branch is in range -/
theorem C15_index_safe (rs : Runes) (hu : (rs.drop 1).contains underscore = true) :
    2 ≤ (splitOn underscore rs).length := by
  cases rs with
  | nil => simp at hu
  | cons r rest =>
    simp only [List.drop_succ_cons, List.drop_zero] at hu
    have hmem : underscore ∈ rest := by simpa using hu
    obtain ⟨a, b, rfl⟩ := List.append_of_mem hmem
    -- splitting at the first underscore of `rest`
    have key : ∀ (pre : Runes) (post : Runes), 2 ≤ (splitOn underscore (pre ++ underscore :: post)).length := by
      intro pre
      induction pre with
      | nil => intro post; simp [splitOn_cons_sep]; have := splitOn_ne_nil underscore post
               cases h : splitOn underscore post with
               | nil => exact absurd h this
               | cons _ _ => simp
      | cons c cs ih =>
        intro post
        by_cases hc : c = underscore
        · subst hc
          simp only [List.cons_append, splitOn_cons_sep, List.length_cons]
          have := ih post; omega
        · obtain ⟨s, ss, h1, h2⟩ := splitOn_cons_ne underscore c (cs ++ underscore :: post) hc
          have := ih post
          simp only [List.cons_append]
          rw [h2]; rw [h1] at this; simpa using this
    simpa using key (r :: a) b

theorem split_ne_nil (up dg : Nat → Bool) (rs : Runes) : split up dg rs ≠ [] := by
  unfold split
  split
  · simp
  · split
    · exact splitOn_ne_nil _ _
    · split
      · split
        · simp
        · rename_i h; intro e; exact splitOn_ne_nil underscore rs e
      · simp [camel]

/-- Every case conversion equals converting the parts one by one and joining them. -/
theorem C15_transform (up dg : Nat → Bool) (first mod : Runes → Runes) (sep : Runes) (rs : Runes) :
    ∃ p ps, split up dg rs = p :: ps ∧
      transform up dg first mod sep rs = joinWith sep (first p :: ps.map mod) := by
  cases h : split up dg rs with
  | nil => exact absurd h (split_ne_nil up dg rs)
  | cons p ps => exact ⟨p, ps, rfl, by simp [transform, transformParts, h]⟩

theorem cf_joinWith (cf : Runes → Runes) (hcf : ∀ a b, cf (a ++ b) = cf a ++ cf b) (sep : Runes)
    (hsep : cf sep = []) (ps : List Runes) : cf (joinWith sep ps) = (ps.map cf).flatten := by
  have hnil : cf [] = [] := by
    have h1 := hcf [] []
    simp only [List.append_nil] at h1
    have h2 := congrArg List.length h1
    simp only [List.length_append] at h2
    exact List.eq_nil_of_length_eq_zero (by omega)
  induction ps with
  | nil => simp [joinWith, hnil]
  | cons p ps ih =>
    cases ps with
    | nil => simp [joinWith]
    | cons q qs => rw [joinWith_cons_cons, hcf, hcf, hsep, ih]; simp

/-- Hence all conversions of one name agree up to letter case and separators: for any
    "skeleton" map `cf` that is a homomorphism for concatenation, erases the separator and does not
    see the per-part case change, every conversion has the skeleton of the concatenated parts. -/
theorem C15_conversions_agree (up dg : Nat → Bool) (first mod cf : Runes → Runes) (sep : Runes) (rs : Runes)
    (hcf : ∀ a b, cf (a ++ b) = cf a ++ cf b) (hsep : cf sep = [])
    (hf : ∀ p, cf (first p) = cf p) (hm : ∀ p, cf (mod p) = cf p) :
    cf (transform up dg first mod sep rs) = ((split up dg rs).map cf).flatten := by
  obtain ⟨p, ps, hs, ht⟩ := C15_transform up dg first mod sep rs
  rw [ht, hs, cf_joinWith cf hcf sep hsep]
  simp [hf, hm, Function.comp_def]

/-! ### non-vacuity: "fooBAR9x" and "_foo_bar" with ASCII classes -/
private def upA (n : Nat) : Bool := 65 ≤ n && n ≤ 90
private def dgA (n : Nat) : Bool := 48 ≤ n && n ≤ 57
example : split upA dgA [102,111,111,66,65,82,57,120] = [[102,111,111],[66,65,82],[57],[120]] := by decide
example : split upA dgA [95,102,111,111,95,98,97,114] = [[95,102,111,111],[98,97,114]] := by decide
example : specSplit upA dgA [102,111,111,66,65,82,57,120] = [[102,111,111],[66,65,82],[57],[120]] := by decide

end Pgs.C15

/-! ### the segmentation is the documented one -/
namespace Pgs.C15

/-- **C15 (segments)**: for every name and every classification in which no rune is both an
    upper/title-case letter and a digit, the parts are exactly the documented segmentation: the dot
    segments, else the underscore segments with the leading underscore kept on the first word, else
    the camel-case words cut at the declared boundaries (upper after non-upper, digit after
    non-digit, non-digit after digit, the last capital of an acronym) — a leading underscore
    shielding the position after it.  The scanner's retroactive acronym rule is proved equal to the
    look-ahead clause of `boundary` by an invariant over the scanner state (Proofs/CamelCut). -/
theorem C15_segments (up dg : Nat → Bool) (rs : Runes) (hcls : classOK up dg rs = true) :
    split up dg rs = specSplit up dg rs := by
  unfold split specSplit
  by_cases h0 : rs = []
  · simp [h0]
  rw [if_neg h0, if_neg h0]
  by_cases hd : rs.contains dot = true
  · rw [if_pos hd, if_pos hd]
  rw [if_neg hd, if_neg hd]
  by_cases hu : (rs.drop 1).contains underscore = true
  · rw [if_pos hu, if_pos hu]
  rw [if_neg hu, if_neg hu]
  exact camel_eq_spec rs h0 hcls (by simpa using hu)

/-- hence Φ's segment clause never fires on the model -/
theorem C15_segments_judge (up dg : Nat → Bool) (rs : Runes) :
    (classOK up dg rs && (split up dg rs != specSplit up dg rs)) = false := by
  cases h : classOK up dg rs with
  | false => rfl
  | true => simp [C15_segments up dg rs h]

/-! non-vacuity: an acronym followed by a word, digits, and a shielded leading underscore
    (65 'A' … 90 'Z' upper, 48 … 57 digits) -/
example : specCamel (fun r => decide (65 ≤ r ∧ r ≤ 90)) (fun r => decide (48 ≤ r ∧ r ≤ 57))
    [72, 84, 84, 80, 83, 101, 114, 118, 101, 114, 50, 120] =     -- "HTTPServer2x"
    [[72, 84, 84, 80], [83, 101, 114, 118, 101, 114], [50], [120]] := by decide
example : camel (fun r => decide (65 ≤ r ∧ r ≤ 90)) (fun r => decide (48 ≤ r ∧ r ≤ 57))
    [95, 70, 111, 111, 66, 65, 82] = [[95, 70, 111, 111], [66, 65, 82]] := by decide   -- "_FooBAR"

end Pgs.C15
