import PgsVerif.Props.C07Starts
import PgsVerif.Proofs.SpecWalk
/-!
# C07 — Φ's path-based specification equals the walk, for EVERY visitor policy

`Props/C07` proved `specWalk = walkModel` for the always-continuing visitor.  Here the same for an
arbitrary policy (visits answered by: continue, replace the visitor, prune, fail with or without a
visitor), with and without the pass-through wrapper.  The proof is `specFold_forest`
(Proofs/SpecWalk): on a forest that is well-formed for the path test `contains`, folding `specStep`
over the pre-order computes the recursive walk; the forest of a file is well-formed because it is
path-structured (`PF`) and lists nothing twice (`fileF_nodup`).
-/
namespace Pgs.AST

theorem preorder_file (w : World) (fi : Nat) (f : FileD) (hf : w.files[fi]? = some f) (hfi : fi < 900000) :
    preorder w ⟨fi, []⟩ = (fileF fi f).pre := by
  have hge : ¬ (fi ≥ 900000) := by omega
  rw [C07_pre_is_fileOrder]
  simp only [preorder, hge, if_false, hf]
  apply List.filter_eq_self.mpr
  exact fileOrder_contained w fi f hfi

/-- **C07 (Φ's specification = the walk; a file, any policy)** -/
theorem C07_spec_agrees_file (pol : Policy) (w : World) (fi : Nat) (f : FileD) (hf : w.files[fi]? = some f) (hfi : fi < 900000) :
    specWalk pol w ⟨fi, []⟩ false = walkModel pol w ⟨fi, []⟩ false := by
  obtain ⟨_, h1, h2, _⟩ := specFold_forest w pol false ⟨fi, []⟩ (fileF fi f) (fileF_fwf w fi f hfi)
    (by intro n _; rfl) 0 ⟨[], [], none, none⟩ [] [] rfl (by intro a ha; cases ha) (.inl ⟨rfl, rfl⟩) (by intro p hp; cases hp)
  unfold specWalk walkModel
  rw [preorder_file w fi f hf hfi, (C07_walk_file pol w fi f hf hfi).1]
  simp only [h1, h2]

/-- … and through `PassThroughVisitor`: the file is answered by the wrapper, its contents walked -/
theorem C07_spec_agrees_file_pass (pol : Policy) (w : World) (fi : Nat) (f : FileD) (hf : w.files[fi]? = some f) (hfi : fi < 900000) :
    specWalk pol w ⟨fi, []⟩ true = walkModel pol w ⟨fi, []⟩ true := by
  have hnd := fileF_nodup fi f
  simp only [fileF, Forest.pre, List.append_nil] at hnd
  have hnot : (⟨fi, []⟩ : Ref) ∉ (fileKidsF fi f).pre := (List.nodup_cons.mp hnd).1
  obtain ⟨wk, _, _, _, wfk, _⟩ := fileF_fwf w fi f hfi
  obtain ⟨_, h1, h2, _⟩ := specFold_forest w pol true ⟨fi, []⟩ (fileKidsF fi f) wfk
    (by
      intro n hn
      have : n ≠ (⟨fi, []⟩ : Ref) := fun e => hnot (e ▸ hn)
      simp [this])
    0 ⟨[], [(⟨fi, []⟩, 0)], none, none⟩ [] [(⟨fi, []⟩, 0)] rfl (by intro a ha; cases ha)
    (.inr ⟨_, [], rfl, wk⟩) (by intro p hp; cases hp)
  unfold specWalk walkModel
  rw [preorder_file w fi f hf hfi, (C07_walk_file pol w fi f hf hfi).2]
  simp only [fileF, Forest.pre, List.append_nil, List.foldl_cons]
  have hstep : specStep w pol true ⟨fi, []⟩ ⟨[], [], none, none⟩ ⟨fi, []⟩ = ⟨[], [(⟨fi, []⟩, 0)], none, none⟩ := by
    simp [specStep]
  rw [hstep]
  simp only [h1, h2]

end Pgs.AST

/-! ### every other start node inside a file -/
namespace Pgs.AST

theorem preorder_sub (w : World) (fi : Nat) (f : FileD) (start : Ref) (kids : Forest)
    (hf : w.files[fi]? = some f) (hfi : fi < 900000) (hs : start.file = fi) (hsub : Sub (fileF fi f) start kids) :
    preorder w start = start :: kids.pre := by
  have hge : ¬ (fi ≥ 900000) := by omega
  simp only [preorder, hs, hf]
  rw [if_neg hge, ← C07_pre_is_fileOrder]
  exact hsub.filter (fileF_fwf w fi f hfi) (fileF_nodup fi f)

/-- **C07 (Φ's specification = the walk; any node of a file, any policy)**: whenever the start node
    occurs in the file's containment forest with contents `kids` and the transcribed entry point is
    the generic walk over that sub-tree (which `Props/C07`, `Props/C07Starts` prove per kind of start
    node), the path-based specification gives the same observation. -/
theorem C07_spec_agrees_sub (pol : Policy) (w : World) (fi : Nat) (f : FileD) (start : Ref) (kids : Forest)
    (hf : w.files[fi]? = some f) (hfi : fi < 900000) (hs : start.file = fi) (hsub : Sub (fileF fi f) start kids)
    (hw : walkFrom pol w start false = walkForest pol 0 (.node start kids .nil) ⟨[], none⟩) :
    specWalk pol w start false = walkModel pol w start false := by
  obtain ⟨_, h1, h2, _⟩ := specFold_forest w pol false start (.node start kids .nil) (hsub.fwf (fileF_fwf w fi f hfi))
    (by intro n _; rfl) 0 ⟨[], [], none, none⟩ [] [] rfl (by intro a ha; cases ha) (.inl ⟨rfl, rfl⟩) (by intro p hp; cases hp)
  unfold specWalk walkModel
  rw [preorder_sub w fi f start kids hf hfi hs hsub, hw]
  simp only [Forest.pre, List.append_nil] at h1 h2
  simp only [h1, h2]

theorem C07_spec_agrees_sub_pass (pol : Policy) (w : World) (fi : Nat) (f : FileD) (start : Ref) (kids : Forest)
    (hf : w.files[fi]? = some f) (hfi : fi < 900000) (hs : start.file = fi) (hsub : Sub (fileF fi f) start kids)
    (hw : walkFrom pol w start true = walkForest pol 0 kids ⟨[], none⟩) :
    specWalk pol w start true = walkModel pol w start true := by
  have hpre := preorder_sub w fi f start kids hf hfi hs hsub
  have hnd : (start :: kids.pre).Nodup := by
    have := hsub.filter (c := contains w) (fileF_fwf w fi f hfi) (fileF_nodup fi f)
    rw [← this]
    exact (List.filter_sublist).nodup (fileF_nodup fi f)
  have hnot : start ∉ kids.pre := (List.nodup_cons.mp hnd).1
  obtain ⟨wk, _, _, _, wfk, _⟩ := hsub.fwf (c := contains w) (fileF_fwf w fi f hfi)
  obtain ⟨_, h1, h2, _⟩ := specFold_forest w pol true start kids wfk
    (by
      intro n hn
      have : n ≠ start := fun e => hnot (e ▸ hn)
      simp [this])
    0 ⟨[], [(start, 0)], none, none⟩ [] [(start, 0)] rfl (by intro a ha; cases ha)
    (.inr ⟨_, [], rfl, wk⟩) (by intro p hp; cases hp)
  unfold specWalk walkModel
  rw [hpre, hw]
  simp only [List.foldl_cons]
  have hstep : specStep w pol true start ⟨[], [], none, none⟩ start = ⟨[], [(start, 0)], none, none⟩ := by
    simp [specStep]
  rw [hstep]
  simp only [h1, h2]

/-! occurrences of the container kinds -/
theorem Sub_enumsF (fi : Nat) (p : List Nat) (tag : Nat) : ∀ (es : List EnumD) (i0 j : Nat) (e : EnumD), es[j]? = some e →
    Sub (enumsF fi p tag i0 es) ⟨fi, p ++ [tag, i0 + j]⟩ (leavesF (childRefs fi (p ++ [tag, i0 + j]) 2 e.values.length)) := by
  intro es
  induction es with
  | nil => intro i0 j e h; simp at h
  | cons e' es ih =>
    intro i0 j e h
    cases j with
    | zero => simp only [List.getElem?_cons_zero, Option.some.injEq] at h; subst h; exact Sub.here ..
    | succ j =>
      simp only [List.getElem?_cons_succ] at h
      have := ih (i0 + 1) j e h
      have e1 : i0 + 1 + j = i0 + (j + 1) := by omega
      rw [e1] at this
      exact Sub.next _ _ _ _ _ this

theorem Sub_servicesF (fi : Nat) : ∀ (ss : List ServiceD) (i0 j : Nat) (s : ServiceD), ss[j]? = some s →
    Sub (servicesF fi i0 ss) ⟨fi, [6, i0 + j]⟩ (leavesF (childRefs fi [6, i0 + j] 2 s.methods.length)) := by
  intro ss
  induction ss with
  | nil => intro i0 j s h; simp at h
  | cons s' ss ih =>
    intro i0 j s h
    cases j with
    | zero => simp only [List.getElem?_cons_zero, Option.some.injEq] at h; subst h; exact Sub.here ..
    | succ j =>
      simp only [List.getElem?_cons_succ] at h
      have := ih (i0 + 1) j s h
      have e1 : i0 + 1 + j = i0 + (j + 1) := by omega
      rw [e1] at this
      exact Sub.next _ _ _ _ _ this

/-- the ordinary (non map-entry) message at index `j` of a sibling list -/
theorem Sub_msgsF_here (fi : Nat) : ∀ (ms : Msgs) (p : List Nat) (tag i0 j : Nat) (h : MsgHead) (nested : Msgs),
    ms.get? j = some (h, nested) → h.mapEntry = false →
    Sub (msgsF fi p tag i0 ms) ⟨fi, p ++ [tag, i0 + j]⟩ (msgKidsF fi (p ++ [tag, i0 + j]) h nested) := by
  intro ms
  induction ms with
  | nil => intro p tag i0 j h nested hg; simp [Msgs.get?] at hg
  | cons h' nested' rest _ ih2 =>
    intro p tag i0 j h nested hg hm
    cases j with
    | zero =>
      simp only [Msgs.get?, Option.some.injEq, Prod.mk.injEq] at hg
      obtain ⟨rfl, rfl⟩ := hg
      simp only [msgsF, hm, Bool.false_eq_true, if_false, Nat.add_zero]
      exact Sub.here ..
    | succ j =>
      simp only [Msgs.get?] at hg
      have := ih2 p tag (i0 + 1) j h nested hg hm
      have e1 : i0 + 1 + j = i0 + (j + 1) := by omega
      rw [e1] at this
      simp only [msgsF]
      by_cases hm' : h'.mapEntry = true
      · simp only [hm', if_true]; exact this
      · simp only [hm', Bool.false_eq_true, if_false]; exact Sub.next _ _ _ _ _ this

/-- … and whatever occurs among the nested messages of an ordinary message occurs in the list -/
theorem Sub_msgsF_nested (fi : Nat) : ∀ (ms : Msgs) (p : List Nat) (tag i0 j : Nat) (h : MsgHead) (nested : Msgs) (r : Ref) (k : Forest),
    ms.get? j = some (h, nested) → h.mapEntry = false →
    Sub (msgsF fi (p ++ [tag, i0 + j]) 3 0 nested) r k → Sub (msgsF fi p tag i0 ms) r k := by
  intro ms
  induction ms with
  | nil => intro p tag i0 j h nested r k hg; simp [Msgs.get?] at hg
  | cons h' nested' rest _ ih2 =>
    intro p tag i0 j h nested r k hg hm hs
    cases j with
    | zero =>
      simp only [Msgs.get?, Option.some.injEq, Prod.mk.injEq] at hg
      obtain ⟨rfl, rfl⟩ := hg
      simp only [msgsF, hm, Bool.false_eq_true, if_false]
      simp only [Nat.add_zero] at hs
      exact Sub.kid _ _ _ _ _ (Sub.append_right _ (Sub.append_left _ hs))
    | succ j =>
      simp only [Msgs.get?] at hg
      have e1 : i0 + (j + 1) = i0 + 1 + j := by omega
      rw [e1] at hs
      have := ih2 p tag (i0 + 1) j h nested r k hg hm hs
      simp only [msgsF]
      by_cases hm' : h'.mapEntry = true
      · simp only [hm', if_true]; exact this
      · simp only [hm', Bool.false_eq_true, if_false]; exact Sub.next _ _ _ _ _ this

/-- every message along the path is an ordinary one (walks do not start inside map entries) -/
def Msgs.ordinaryAt : Msgs → List Nat → Bool
  | _, [] => false
  | ms, [i] => match ms.get? i with
    | some (h, _) => !h.mapEntry
    | none => false
  | ms, i :: 3 :: rest => match ms.get? i with
    | some (h, nested) => !h.mapEntry && nested.ordinaryAt rest
    | none => false
  | _, _ => false

theorem Sub_msgsF_at (fi : Nat) : ∀ (ms : Msgs) (rest : List Nat) (p : List Nat) (tag : Nat) (h : MsgHead) (nested : Msgs),
    ms.at? rest = some (h, nested) → ms.ordinaryAt rest = true →
    ∃ q, p ++ tag :: rest = q ∧ Sub (msgsF fi p tag 0 ms) ⟨fi, q⟩ (msgKidsF fi q h nested) := by
  intro ms rest
  fun_induction Msgs.at? ms rest with
  | case1 ms => intro p tag h nested ha; simp at ha
  | case2 ms i =>
    intro p tag h nested ha ho
    simp only [Msgs.ordinaryAt] at ho
    rw [ha] at ho
    simp only [Bool.not_eq_true'] at ho
    have := Sub_msgsF_here fi ms p tag 0 i h nested ha ho
    simp only [Nat.zero_add] at this
    exact ⟨_, rfl, by simpa using this⟩
  | case3 ms i rest hd nested' hg ih =>
    intro p tag h nested ha ho
    simp only [Msgs.ordinaryAt, hg, Bool.and_eq_true, Bool.not_eq_true'] at ho
    obtain ⟨q, hq, hs⟩ := ih (p ++ [tag, i]) 3 h nested ha ho.2
    have := Sub_msgsF_nested fi ms p tag 0 i hd nested' ⟨fi, q⟩ _ hg ho.1 (by simpa using hs)
    exact ⟨q, by rw [← hq]; simp, this⟩
  | case4 ms i rest hg => intro p tag h nested ha; simp at ha
  | case5 ms l h1 h2 h3 => intro p tag h nested ha; simp at ha

/-- **C07 (Φ's specification = the walk; a message at any depth, any policy, with and without the
    pass-through wrapper)** -/
theorem C07_spec_agrees_msg (pol : Policy) (w : World) (start : Ref) (f : FileD) (h : MsgHead) (nested : Msgs) (rest : List Nat)
    (hf : w.files[start.file]? = some f) (hfi : start.file < 900000) (hp : start.path = 4 :: rest)
    (hm : f.msgs.at? rest = some (h, nested)) (ho : f.msgs.ordinaryAt rest = true) (pass : Bool) :
    specWalk pol w start pass = walkModel pol w start pass := by
  obtain ⟨fi, path⟩ := start
  simp only at hf hfi hp
  subst hp
  have hmsg : w.msgAt ⟨fi, 4 :: rest⟩ = some (h, nested) := by simp [World.msgAt, hf, hm]
  obtain ⟨q, hq, hs⟩ := Sub_msgsF_at fi f.msgs rest [] 4 h nested hm ho
  simp only [List.nil_append] at hq
  subst hq
  have hsub : Sub (fileF fi f) ⟨fi, 4 :: rest⟩ (msgKidsF fi (4 :: rest) h nested) :=
    Sub.kid _ _ _ _ _ (Sub.append_right _ (Sub.append_left _ hs))
  have hw := C07_walk_msg pol w ⟨fi, 4 :: rest⟩ f h nested hf hfi hmsg
  cases pass with
  | false => exact C07_spec_agrees_sub pol w fi f _ _ hf hfi rfl hsub hw.1
  | true => exact C07_spec_agrees_sub_pass pol w fi f _ _ hf hfi rfl hsub hw.2

/-- … a file-level enum, a service -/
theorem C07_spec_agrees_enum (pol : Policy) (w : World) (fi i : Nat) (f : FileD) (e : EnumD)
    (hf : w.files[fi]? = some f) (hfi : fi < 900000) (he : f.enums[i]? = some e) (pass : Bool) :
    specWalk pol w ⟨fi, [5, i]⟩ pass = walkModel pol w ⟨fi, [5, i]⟩ pass := by
  have hs := Sub_enumsF fi [] 5 f.enums 0 i e he
  simp only [Nat.zero_add, List.nil_append] at hs
  have hsub : Sub (fileF fi f) ⟨fi, [5, i]⟩ (leavesF (childRefs fi [5, i] 2 e.values.length)) :=
    Sub.kid _ _ _ _ _ (Sub.append_left _ hs)
  cases pass with
  | false => exact C07_spec_agrees_sub pol w fi f _ _ hf hfi rfl hsub (C07_walk_enum pol w fi i f e hf hfi he)
  | true => exact C07_spec_agrees_sub_pass pol w fi f _ _ hf hfi rfl hsub (C07_walk_enum_pass pol w fi i f e hf hfi he)

theorem C07_spec_agrees_service (pol : Policy) (w : World) (fi i : Nat) (f : FileD) (s : ServiceD)
    (hf : w.files[fi]? = some f) (hfi : fi < 900000) (hs' : f.services[i]? = some s) (pass : Bool) :
    specWalk pol w ⟨fi, [6, i]⟩ pass = walkModel pol w ⟨fi, [6, i]⟩ pass := by
  have hs := Sub_servicesF fi f.services 0 i s hs'
  simp only [Nat.zero_add] at hs
  have hsub : Sub (fileF fi f) ⟨fi, [6, i]⟩ (leavesF (childRefs fi [6, i] 2 s.methods.length)) :=
    Sub.kid _ _ _ _ _ (Sub.append_right _ (Sub.append_right _ (Sub.append_left _ hs)))
  cases pass with
  | false => exact C07_spec_agrees_sub pol w fi f _ _ hf hfi rfl hsub (C07_walk_service pol w fi i f s hf hfi hs')
  | true => exact C07_spec_agrees_sub_pass pol w fi f _ _ hf hfi rfl hsub (C07_walk_service_pass pol w fi i f s hf hfi hs')

end Pgs.AST
