import PgsVerif.Model.Gen
import PgsVerif.Generated.Code_moduleSteps
/-!
# Tie (translated code): registration, and `ModuleBase`'s bookkeeping of artifacts

Read from the current generator.go / persister.go / module.go in source order:

* `RegisterModule` / `RegisterPostProcessor`: nil is refused (fail-stop), then the arguments are **appended**
  to what was registered before - registration order is execution order (C13), processor order is
  application order (C10) - and nothing else is kept of the argument list;
* `ModuleBase`: `InitContext` stores the context it is given; `Push` / `PushDir` / `Pop` / `PopDir` replace it by
  what the context's own method yields (C18's stack, one level per call); every `Add…` / `Overwrite…` helper
  appends exactly one artifact of the kind its name says, with the fields it was given (`Overwrite…` differs
  from `Add…` by `Overwrite: true` only; custom files carry their permissions); `Artifacts()` hands out what
  was added, in order, **once** (the list is emptied), which is what `Execute` implementations return.
-/
namespace Pgs.C13
open Pgs.GenCode

def moduleStepsOf (fn : String) : List String := (moduleSteps.lookup fn).getD ["<no such function>"]

set_option maxRecDepth 4000 in
theorem tie_Generator_RegisterModule :
    moduleStepsOf "Generator.RegisterModule" =
      ["range m {", "g.Assert(mod != nil)", "}", "g.mods = append(g.mods, m...)", "return g"] := by decide

set_option maxRecDepth 4000 in
theorem tie_Generator_RegisterPostProcessor :
    moduleStepsOf "Generator.RegisterPostProcessor" =
      ["range p {", "g.Assert(pp != nil)", "}", "g.persister.AddPostProcessor(p...)", "return g"] := by decide

set_option maxRecDepth 4000 in
theorem tie_stdPersister_AddPostProcessor :
    moduleStepsOf "stdPersister.AddPostProcessor" =
      ["p.procs = append(p.procs, proc...)"] := by decide

set_option maxRecDepth 4000 in
theorem tie_stdPersister_SetFS :
    moduleStepsOf "stdPersister.SetFS" =
      ["p.fs = fs"] := by decide

set_option maxRecDepth 4000 in
theorem tie_stdPersister_SetSupportedFeatures :
    moduleStepsOf "stdPersister.SetSupportedFeatures" =
      ["p.supportedFeatures = f"] := by decide

set_option maxRecDepth 4000 in
theorem tie_ModuleBase_InitContext :
    moduleStepsOf "ModuleBase.InitContext" =
      ["m.BuildContext = c"] := by decide

set_option maxRecDepth 4000 in
theorem tie_ModuleBase_Name :
    moduleStepsOf "ModuleBase.Name" =
      ["panic()"] := by decide

set_option maxRecDepth 4000 in
theorem tie_ModuleBase_Execute :
    moduleStepsOf "ModuleBase.Execute" =
      ["m.Fail()", "return m.Artifacts()"] := by decide

set_option maxRecDepth 4000 in
theorem tie_ModuleBase_Push :
    moduleStepsOf "ModuleBase.Push" =
      ["m.BuildContext = m.BuildContext.Push(prefix)", "return m"] := by decide

set_option maxRecDepth 4000 in
theorem tie_ModuleBase_PushDir :
    moduleStepsOf "ModuleBase.PushDir" =
      ["m.BuildContext = m.BuildContext.PushDir(dir)", "return m"] := by decide

set_option maxRecDepth 4000 in
theorem tie_ModuleBase_Pop :
    moduleStepsOf "ModuleBase.Pop" =
      ["m.BuildContext = m.BuildContext.Pop()", "return m"] := by decide

set_option maxRecDepth 4000 in
theorem tie_ModuleBase_PopDir :
    moduleStepsOf "ModuleBase.PopDir" =
      ["m.BuildContext = m.BuildContext.PopDir()", "return m"] := by decide

set_option maxRecDepth 4000 in
theorem tie_ModuleBase_Artifacts :
    moduleStepsOf "ModuleBase.Artifacts" =
      ["out = m.artifacts", "m.artifacts = nil", "return out"] := by decide

set_option maxRecDepth 4000 in
theorem tie_ModuleBase_AddArtifact :
    moduleStepsOf "ModuleBase.AddArtifact" =
      ["m.artifacts = append(m.artifacts, a...)"] := by decide

set_option maxRecDepth 4000 in
theorem tie_ModuleBase_AddGeneratorFile :
    moduleStepsOf "ModuleBase.AddGeneratorFile" =
      ["m.AddArtifact(GeneratorFile{Name: name, Contents: content})"] := by decide

set_option maxRecDepth 4000 in
theorem tie_ModuleBase_OverwriteGeneratorFile :
    moduleStepsOf "ModuleBase.OverwriteGeneratorFile" =
      ["m.AddArtifact(GeneratorFile{Name: name, Contents: content, Overwrite: true})"] := by decide

set_option maxRecDepth 4000 in
theorem tie_ModuleBase_AddGeneratorTemplateFile :
    moduleStepsOf "ModuleBase.AddGeneratorTemplateFile" =
      ["m.AddArtifact(GeneratorTemplateFile{Name: name, TemplateArtifact: TemplateArtifact{Template: tpl, Data: data}})"] := by decide

set_option maxRecDepth 4000 in
theorem tie_ModuleBase_OverwriteGeneratorTemplateFile :
    moduleStepsOf "ModuleBase.OverwriteGeneratorTemplateFile" =
      ["m.AddArtifact(GeneratorTemplateFile{Name: name, Overwrite: true, TemplateArtifact: TemplateArtifact{Template: tpl, Data: data}})"] := by decide

set_option maxRecDepth 4000 in
theorem tie_ModuleBase_AddGeneratorAppend :
    moduleStepsOf "ModuleBase.AddGeneratorAppend" =
      ["m.AddArtifact(GeneratorAppend{FileName: name, Contents: content})"] := by decide

set_option maxRecDepth 4000 in
theorem tie_ModuleBase_AddGeneratorTemplateAppend :
    moduleStepsOf "ModuleBase.AddGeneratorTemplateAppend" =
      ["m.AddArtifact(GeneratorTemplateAppend{FileName: name, TemplateArtifact: TemplateArtifact{Template: tpl, Data: data}})"] := by decide

set_option maxRecDepth 4000 in
theorem tie_ModuleBase_AddGeneratorInjection :
    moduleStepsOf "ModuleBase.AddGeneratorInjection" =
      ["m.AddArtifact(GeneratorInjection{FileName: name, InsertionPoint: point, Contents: content})"] := by decide

set_option maxRecDepth 4000 in
theorem tie_ModuleBase_AddGeneratorTemplateInjection :
    moduleStepsOf "ModuleBase.AddGeneratorTemplateInjection" =
      ["m.AddArtifact(GeneratorTemplateInjection{FileName: name, InsertionPoint: point, TemplateArtifact: TemplateArtifact{Template: tpl, Data: data}})"] := by decide

set_option maxRecDepth 4000 in
theorem tie_ModuleBase_AddCustomFile :
    moduleStepsOf "ModuleBase.AddCustomFile" =
      ["m.AddArtifact(CustomFile{Name: name, Contents: content, Perms: perms})"] := by decide

set_option maxRecDepth 4000 in
theorem tie_ModuleBase_OverwriteCustomFile :
    moduleStepsOf "ModuleBase.OverwriteCustomFile" =
      ["m.AddArtifact(CustomFile{Name: name, Contents: content, Perms: perms, Overwrite: true})"] := by decide

set_option maxRecDepth 4000 in
theorem tie_ModuleBase_AddCustomTemplateFile :
    moduleStepsOf "ModuleBase.AddCustomTemplateFile" =
      ["m.AddArtifact(CustomTemplateFile{Name: name, Perms: perms, TemplateArtifact: TemplateArtifact{Template: tpl, Data: data}})"] := by decide

set_option maxRecDepth 4000 in
theorem tie_ModuleBase_OverwriteCustomTemplateFile :
    moduleStepsOf "ModuleBase.OverwriteCustomTemplateFile" =
      ["m.AddArtifact(CustomTemplateFile{Name: name, Perms: perms, Overwrite: true, TemplateArtifact: TemplateArtifact{Template: tpl, Data: data}})"] := by decide

set_option maxRecDepth 4000 in
theorem tie_ModuleBase_AddError :
    moduleStepsOf "ModuleBase.AddError" =
      ["m.AddArtifact(GeneratorError{Message: message})"] := by decide

end Pgs.C13
