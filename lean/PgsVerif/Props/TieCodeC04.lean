import PgsVerif.Model.AstSem2
import PgsVerif.Generated.Code_file_TransitiveImports
/-!
# Tie (translated code): `File.TransitiveImports`

file.go's `TransitiveImports` is translated from the current source: a Go map keyed by file name used
as a set, filled by two nested loops - every direct import, and everything each direct import
transitively imports - and then listed.  The model's recursive union (`transImports`, the definition
the C04 theorems `C04_transitive`, `C04_acyclic` are about) is, level by level, that translation
applied to the direct imports and to the model's own answers for them.
-/
namespace Pgs.AST
open Pgs.GenCode

theorem foldl_setPut_loop : ∀ (l acc : List Nat),
    List.foldl setPut acc.reverse l = List.eraseDupsBy.loop (· == ·) l acc := by
  intro l
  induction l with
  | nil => intro acc; simp [List.eraseDupsBy.loop]
  | cons a l ih =>
    intro acc
    simp only [List.foldl_cons]
    unfold List.eraseDupsBy.loop
    have hany : acc.any (fun b => a == b) = acc.reverse.contains a := by
      cases h1 : acc.any (fun b => a == b) <;> cases h2 : acc.reverse.contains a <;> try rfl
      · exfalso
        have hm : a ∈ acc := by simpa using h2
        have : acc.any (fun b => a == b) = true := List.any_eq_true.mpr ⟨a, hm, by simp⟩
        rw [h1] at this; cases this
      · exfalso
        obtain ⟨x, hx, hxa⟩ := List.any_eq_true.mp h1
        have : x = a := by simpa using (beq_iff_eq.mp hxa).symm
        subst this
        have : acc.reverse.contains x = true := by simpa using hx
        rw [h2] at this; cases this
    cases h : acc.any (fun b => a == b) with
    | true =>
      have hc : acc.reverse.contains a = true := by rw [← hany]; exact h
      simp only [setPut, hc, if_true]
      exact ih acc
    | false =>
      have hc : acc.reverse.contains a = false := by rw [← hany]; exact h
      simp only [setPut, hc, Bool.false_eq_true, if_false]
      have : acc.reverse ++ [a] = (a :: acc).reverse := by simp
      rw [this]
      exact ih (a :: acc)

theorem foldl_setPut_eraseDups (l : List Nat) : List.foldl setPut [] l = l.eraseDups := by
  have := foldl_setPut_loop l []
  simpa [List.eraseDups, List.eraseDupsBy] using this

theorem foldl_nested (trans : Nat → List Nat) : ∀ (deps : List Nat) (acc : List Nat),
    List.foldl (fun m fl => List.foldl setPut (setPut m fl) (trans fl)) acc deps =
      List.foldl setPut acc ((deps.map fun d => d :: trans d).flatten) := by
  intro deps
  induction deps with
  | nil => intro acc; rfl
  | cons d ds ih =>
    intro acc
    simp only [List.foldl_cons, List.map_cons, List.flatten_cons, List.foldl_append, List.cons_append]
    rw [ih]

/-- **`TransitiveImports`**: one level of the model's recursive union is the translated function on the
    direct imports and the (smaller) answers for them -/
theorem tie_TransitiveImports (g : Graph) (fuel fi : Nat) :
    transImports g (fuel + 1) fi = file_TransitiveImports (g.depsOf fi) (transImports g fuel) := by
  unfold file_TransitiveImports
  simp only [transImports, List.nil_append, List.map_id']
  have h := foldl_nested (transImports g fuel) (g.depsOf fi) []
  rw [show (List.foldl (fun m_ fl => List.foldl (fun m_ imp => setPut m_ imp) (setPut m_ fl) (transImports g fuel fl)) [] (g.depsOf fi))
      = List.foldl (fun m fl => List.foldl setPut (setPut m fl) (transImports g fuel fl)) [] (g.depsOf fi) from rfl, h, foldl_setPut_eraseDups]

end Pgs.AST
