import PgsVerif.Props.C05
import PgsVerif.Props.TieCodeC05
/-!
# C05 / C06 — the theorems, restated on the translated accessors

`GenCode.msg_Dependents`, `msg_Dependencies` (with `msg_getDependents` / `msg_getDependencies` as the
traversal) are regenerated from message.go on every run.  By the tie theorems, the C05 theorems hold of
them: whatever the memo holds - nothing, or a closure computed by an earlier call - the answer is
exactly the reachability closure, and the memo afterwards is again that closure.
-/
namespace Pgs.AST
open Pgs.GenCode

/-- the translated `Dependents()` on a message whose memo is consistent (empty, or filled by an earlier
    call): the messages from which `m` can be reached along "uses" edges, `m` itself left out -/
theorem C05_dependents_translated (edges eedges : List (Ref × Ref)) (c : Caches) (hc : CachesOK edges eedges c) (m x : Ref) :
    x ∈ (msg_Dependents (msg_getDependents (preds edges) (fuelFor edges eedges)) m (c.get m .dependents)).2 ↔
      Reach (preds edges) m x ∧ x ≠ m := by
  rw [← (tie_query_dependents edges eedges c m).1, (query_spec edges eedges c hc m .dependents).1]
  exact C05_dependents edges eedges m x

theorem C05_dependencies_translated (edges eedges : List (Ref × Ref)) (c : Caches) (hc : CachesOK edges eedges c) (m x : Ref) :
    x ∈ (msg_Dependencies (msg_getDependencies (succs edges) (fuelFor edges eedges)) m (c.get m .dependencies)).2 ↔
      Reach (succs edges) m x ∧ x ≠ m := by
  rw [← (tie_query_dependencies edges eedges c m).1, (query_spec edges eedges c hc m .dependencies).1]
  exact C05_dependencies edges eedges m x

/-- on a fresh AST (no memo) in particular -/
theorem C05_dependents_fresh_translated (edges eedges : List (Ref × Ref)) (m x : Ref) :
    x ∈ (msg_Dependents (msg_getDependents (preds edges) (fuelFor edges eedges)) m none).2 ↔ Reach (preds edges) m x ∧ x ≠ m := by
  have := C05_dependents_translated edges eedges Caches.empty (cachesOK_empty edges eedges) m x
  simpa [Caches.get, Caches.empty] using this

/-- C06: asking again changes nothing - the memo the translated accessor leaves behind answers the
    next call with the same list -/
theorem C06_repetition_translated (walk : Ref → List Ref → List Ref) (m : Ref) (cache : Option (List Ref)) :
    (msg_Dependents walk m (msg_Dependents walk m cache).1).2 = (msg_Dependents walk m cache).2 ∧
    (msg_Dependents walk m (msg_Dependents walk m cache).1).1 = (msg_Dependents walk m cache).1 := by
  cases cache <;> simp [msg_Dependents, msg_populateDependentsCache]

end Pgs.AST
