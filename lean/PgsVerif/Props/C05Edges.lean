import PgsVerif.Props.C03
import PgsVerif.Props.C05
/-!
# C05 — the edges the closures run over are the ones the descriptors declare

`usesList` / `enumUses` read the direct "message uses message / enum" edges off the built graph
(`assignDependent`: the type recorded for each field).  On a valid request these are exactly the
edges read off the descriptors: for each ordinary message, each field whose declarative type
(`specType`, C03) is a message / enum — singular, repeated element or map value — points to THE
declaration of that name.  Together with `C05_order_independent` and `C05_dependencies/dependents`
(closure = reachability over the given edges, whatever was asked before) the answers are the
reachability sets of the descriptor-level relation.
-/
namespace Pgs.AST

def declUses (w : World) : List (Ref × Ref) :=
  ((ordinaryMsgs w).map fun (x : Ref × MsgHead) =>
    (idx x.2.fields).filterMap fun (q : Nat × FieldD) => (embedTarget (specType w q.2)).map fun t => (x.1, t)).flatten

def declEnumUses (w : World) : List (Ref × Ref) :=
  ((ordinaryMsgs w).map fun (x : Ref × MsgHead) =>
    (idx x.2.fields).filterMap fun (q : Nat × FieldD) => (enumTarget (specType w q.2)).map fun t => (x.1, t)).flatten

theorem filterMap_congr' {α β} {f g : α → Option β} : ∀ {l : List α}, (∀ x ∈ l, f x = g x) → l.filterMap f = l.filterMap g := by
  intro l
  induction l with
  | nil => intro _; rfl
  | cons a l ih =>
    intro h
    simp only [List.filterMap_cons, h a (List.mem_cons_self ..)]
    rw [ih (fun x hx => h x (List.mem_cons_of_mem _ hx))]

/-- the fields of a listed message are among the listed fields, at the message's path ++ [2, k] -/
theorem msgs_fields_mem (fi : Nat) : ∀ (ms : Msgs) (p : List Nat) (tag i : Nat),
    ∀ x ∈ msgsWithRefs fi p tag i ms, x.1.file = fi ∧
      ∀ q ∈ idx x.2.fields, ((⟨fi, x.1.path ++ [2, q.1]⟩ : Ref), q.2) ∈ fieldsOfMsgs fi p tag i ms := by
  intro ms
  induction ms with
  | nil => intro p tag i x hx; simp [msgsWithRefs] at hx
  | cons h nested rest ih1 ih2 =>
    intro p tag i x hx
    simp only [msgsWithRefs, List.mem_cons, List.mem_append] at hx
    simp only [fieldsOfMsgs, List.mem_append, List.mem_map]
    rcases hx with (rfl | hx) | hx
    · exact ⟨rfl, fun q hq => .inl (.inl ⟨q, hq, rfl⟩)⟩
    · obtain ⟨a, b⟩ := ih1 _ _ _ x hx
      exact ⟨a, fun q hq => .inl (.inr (b q hq))⟩
    · obtain ⟨a, b⟩ := ih2 _ _ _ x hx
      exact ⟨a, fun q hq => .inr (b q hq)⟩

theorem allMsgs_fields_mem (w : World) : ∀ x ∈ allMsgs w, ∀ q ∈ idx x.2.fields,
    ((⟨x.1.file, x.1.path ++ [2, q.1]⟩ : Ref), q.2) ∈ allFields w := by
  intro x hx q hq
  simp only [allMsgs, List.mem_flatten, List.mem_map] at hx
  obtain ⟨l, ⟨⟨fi, f⟩, hf, rfl⟩, hx⟩ := hx
  obtain ⟨a, b⟩ := msgs_fields_mem fi f.msgs [] 4 0 x hx
  simp only [allFields, List.mem_flatten, List.mem_map]
  exact ⟨_, ⟨(fi, f), hf, rfl⟩, by rw [a]; exact b q hq⟩

theorem msgFieldRefs_filterMap {β} (r : Ref) (h : MsgHead) (F : Ref → Option β) :
    (msgFieldRefs r h).filterMap F = (idx h.fields).filterMap (fun q => F ⟨r.file, r.path ++ [2, q.1]⟩) := by
  unfold msgFieldRefs childRefs
  rw [← idx_map_fst h.fields (fun k => (⟨r.file, r.path ++ [2, k]⟩ : Ref)), List.filterMap_map]
  rfl

/-- **C05 (edges)** -/
theorem C05_edges (w : World) (hv : Valid w) (g : Graph) (hg : hydrate w = .ok g) :
    usesList w g = declUses w ∧ enumUses w g = declEnumUses w := by
  have key : ∀ x ∈ ordinaryMsgs w, ∀ q ∈ idx x.2.fields,
      g.ftype? ⟨x.1.file, x.1.path ++ [2, q.1]⟩ = some (specType w q.2) := by
    intro x hx q hq
    have hm : x ∈ allMsgs w := (List.mem_filter.mp hx).1
    exact C03_type_of w hv g hg _ (List.mem_append_left _ (allMsgs_fields_mem w x hm q hq))
  constructor
  · unfold usesList declUses
    congr 1
    apply List.map_congr_left
    intro x hx
    obtain ⟨r, h⟩ := x
    simp only [msgFieldRefs_filterMap]
    apply filterMap_congr'
    intro q hq
    simp only [key (r, h) hx q hq, Option.bind_some]
  · unfold enumUses declEnumUses
    congr 1
    apply List.map_congr_left
    intro x hx
    obtain ⟨r, h⟩ := x
    simp only [msgFieldRefs_filterMap]
    apply filterMap_congr'
    intro q hq
    simp only [key (r, h) hx q hq, Option.bind_some]

/-- the compared observation on a valid request: the closures over the descriptor-level edges -/
theorem C05_model_valid (w : World) (hv : Valid w) (qs : List (Ref × QKind)) :
    (c05Model w qs).answers = qs.map fun (r, k) => sortRefs (present r k (closure (declUses w) (declEnumUses w) r k)) := by
  obtain ⟨g, hg, _⟩ := C01_no_failure w hv
  obtain ⟨e1, e2⟩ := C05_edges w hv g hg
  simp only [c05Model, hg]
  rw [C05_order_independent _ _ qs _ (cachesOK_empty _ _), e1, e2]

end Pgs.AST
