import PgsVerif.Model.Purity
namespace Pgs.AST
theorem placeholder_C06 : True := trivial
end Pgs.AST
