import PgsVerif.Props.C05
import PgsVerif.Model.Purity
/-!
# C06 — read accessors are pure: results independent of call order and repetition

The built AST has exactly two kinds of mutable state that a read accessor touches: the memoised
message / enum closures (message.go, enum.go — `Caches`, C05) and the per-file dependents cache
(file.go).  `runHistory` threads both through an arbitrary finite sequence of accessor calls and
walks; the theorem says that in every state such a history can reach, every call answers what the
first call on a freshly built AST answers (`freshResult`, the very function the correspondence check
compares with the real code).
-/
namespace Pgs.AST

/-- every cached answer is the answer a fresh AST gives -/
def HOK (w : World) (g : Graph) (st : HState) : Prop :=
  CachesOK (usesList w g) (enumUses w g) st.mc ∧
  ∀ e ∈ st.fc, e.2 = freshFileDependents w g e.1

theorem HOK_fresh (w : World) (g : Graph) : HOK w g HState.fresh :=
  ⟨cachesOK_empty _ _, by intro e he; simp [HState.fresh] at he⟩

theorem fileDependents_ok (w : World) (g : Graph) (st : HState) (h : HOK w g st) (fi : Nat) :
    st.fileDependents w g fi = freshFileDependents w g fi := by
  unfold HState.fileDependents
  cases hf : st.fc.find? (·.1 == fi) with
  | none => rfl
  | some e =>
    obtain ⟨k, l⟩ := e
    have hm := List.mem_of_find?_eq_some hf
    have hk : k = fi := by have := List.find?_some hf; simpa using this
    simp only
    rw [← hk]
    exact h.2 (k, l) hm

/-- one call in an admissible state: the fresh answer, and the state stays admissible -/
theorem stepH_spec (w : World) (g : Graph) (st : HState) (h : HOK w g st) (op : Ref × String) :
    (stepH w g st op).2 = freshResult w g op.1 op.2 ∧ HOK w g (stepH w g st op).1 := by
  have hq : (fun r k => (query (usesList w g) (enumUses w g) st.mc r k).2) = freshQ w g := by
    funext r k
    rw [freshQ, (query_spec _ _ st.mc h.1 r k).1, (query_spec _ _ Caches.empty (cachesOK_empty _ _) r k).1]
  have hf : st.fileDependents w g = freshFileDependents w g := funext (fileDependents_ok w g st h)
  constructor
  · simp only [stepH, hq, hf, freshResult]
  · constructor
    · simp only [stepH]
      cases kindOf op.2 with
      | none => exact h.1
      | some k => exact (query_spec _ _ st.mc h.1 op.1 k).2
    · simp only [stepH]
      split
      · intro e he
        rcases List.mem_cons.mp he with rfl | he
        · rfl
        · exact h.2 e he
      · exact h.2

/-- **C06 (any history)**: in every admissible state, a sequence of accessor calls and walks —
    any length, any order, any repetition — answers, call by call, what the first call on a
    freshly built AST of the same request answers. -/
theorem C06_history (w : World) (g : Graph) (ops : List (Ref × String)) :
    ∀ st, HOK w g st → runHistory w g st ops = ops.map fun op => freshResult w g op.1 op.2 := by
  induction ops with
  | nil => intro st _; rfl
  | cons op ops ih =>
    intro st h
    obtain ⟨h1, h2⟩ := stepH_spec w g st h op
    simp only [runHistory, List.map_cons]
    rw [h1, ih _ h2]

/-- from a freshly built AST -/
theorem C06_from_fresh (w : World) (g : Graph) (ops : List (Ref × String)) :
    runHistory w g HState.fresh ops = ops.map fun op => freshResult w g op.1 op.2 :=
  C06_history w g ops _ (HOK_fresh w g)

/-- **C06 (order independence)**: the answer to a call does not depend on what was called before it. -/
theorem C06_prefix_irrelevant (w : World) (g : Graph) (before : List (Ref × String)) (op : Ref × String) :
    runHistory w g HState.fresh (before ++ [op]) =
      runHistory w g HState.fresh before ++ runHistory w g HState.fresh [op] := by
  rw [C06_from_fresh, C06_from_fresh, C06_from_fresh, List.map_append]

/-- **C06 (repetition)**: repeating a history repeats its answers. -/
theorem C06_repetition (w : World) (g : Graph) (ops : List (Ref × String)) :
    runHistory w g HState.fresh (ops ++ ops) = runHistory w g HState.fresh ops ++ runHistory w g HState.fresh ops := by
  rw [C06_from_fresh, C06_from_fresh, List.map_append]

/-- the compared observation (the stateful model run call by call) is the list of fresh answers -/
theorem C06_model (w : World) (g : Graph) (hg : hydrate w = .ok g) (ops : List (Ref × String)) :
    (c06Model w ops).ops.map (·.res) = ops.map fun op => freshResult w g op.1 op.2 := by
  rw [← C06_from_fresh]
  simp [c06Model, hg, List.map_map, Function.comp_def]

end Pgs.AST
