import PgsVerif.Props.C17
import PgsVerif.Props.C16
import PgsVerif.Props.C03
/-!
# C17 — the predicted Go type of a field is the type protoc-gen-go gives it

Capstone over the two transcriptions: on a valid request, for every field (outside the model's
"untyped" fallback) whose descriptor is well-formed, `pgsTypeB` — pgsgo's `Type(f)` computed from the
graph hydration built — equals `genTypeB` — protoc-gen-go's `fieldGoType` with the struct field's
pointer rule, computed from the descriptors alone.  Ingredients: C03 (`C03_type_of`: the graph's type
of that field is the declarative one), C09/C17 (`C17_scalar_pointer`: both sides follow presence),
C16 (`C16_file_names`: both sides name every message and enum alike), C17 (`C17_package_name`,
`C17_import_path`, the scalar table), and the fact that a Go type name never starts with `*`, `[`
or `map[` (hypothesis `notPtr`, about identifiers).
-/
namespace Pgs.GoTypes
open Pgs Pgs.AST Pgs.GoNames

theorem pointer_of_not (n : Bytes) (h : PgsGo.isPointer n = false) : PgsGo.pointer n = star :: n := by
  simp [PgsGo.pointer, h, star]

/-- scalar kinds whose Go type is not already a slice -/
theorem scalar_notPtr : ∀ t ∈ scalarKinds, t ≠ 12 → PgsGo.isPointer (PgsGo.scalarType t) = false := by decide

theorem scalar_table_b : ∀ t ∈ scalarKinds, PgsGo.scalarType t = Protogen.scalarGo t := by decide

theorem bytes_type : PgsGo.scalarType 12 = [91, 93, 98, 121, 116, 101] := rfl
theorem bytes_isPtr : PgsGo.isPointer [91, 93, 98, 121, 116, 101] = true := rfl

/-- what the capstone assumes about one file `own` of the request -/
structure TyHyp (w : World) (own : Nat) : Prop where
  /-- both sides qualify every referenced type alike (from C16_file_names, C17_package_name, C17_import_path) -/
  qual : ∀ target, pgsQualified w own target = genQualified w own target
  /-- a (qualified) Go type name does not start with `*`, `[` or `map[` -/
  notPtr : ∀ target, PgsGo.isPointer (genQualified w own target) = false

/-- a field descriptor's type number is one of the scalar kinds, enum or message -/
def KindOK (fd : FieldD) : Prop := fd.type ∈ scalarKinds ∨ fd.type = 14 ∨ fd.type = 11

theorem base_scalar (t : Nat) (h : t ∈ scalarKinds) :
    (if t = 12 then ([91, 93, 98, 121, 116, 101] : Bytes) else Protogen.scalarGo t) = PgsGo.scalarType t := by
  by_cases h12 : t = 12
  · simp [h12, bytes_type]
  · simp [h12, scalar_table_b t h]

theorem scalar_ne (t : Nat) (h : t ∈ scalarKinds) : t ≠ 14 ∧ t ≠ 11 ∧ t ≠ 10 := by
  revert t; decide

/-- the element of a repeated or map value: both sides agree -/
theorem elem_agree (w : World) (own : Nat) (hy : TyHyp w own) (f : FileD) (v : FieldD) (hk : KindOK v) :
    (match specElem w v with
     | .enum _ x => pgsQualified w own x
     | .embed _ m => PgsGo.pointer (pgsQualified w own m)
     | .scalar k => PgsGo.scalarType k) =
    (if v.type = 14 then (genQualified w own (declaredAs w v.typeName .enum), prPresence f v)
     else if v.type = 11 || v.type = 10 then (star :: genQualified w own (declaredAs w v.typeName .msg), false)
     else if v.type = 12 then ([91, 93, 98, 121, 116, 101], false)
     else (Protogen.scalarGo v.type, prPresence f v)).1 := by
  unfold specElem
  rcases hk with hs | h14 | h11
  · obtain ⟨n14, n11, n10⟩ := scalar_ne v.type hs
    simp only [n14, n11, n10, if_false, Bool.or_self, Bool.false_eq_true, decide_false]
    by_cases h12 : v.type = 12
    · simp [h12, bytes_type]
    · simp [h12, scalar_table_b v.type hs]
  · simp [h14, hy.qual]
  · have : ¬ ((11 : Nat) = 14) := by decide
    simp [h11, this, hy.qual, pointer_of_not _ (hy.notPtr _)]

/-- **C17 (types)** -/
theorem C17_type (w : World) (g : Graph) (r : Ref) (fd : FieldD)
    (hft : g.ftype? r = some (specType w fd))
    (hy : TyHyp w r.file) (hok : FieldOK (fileD w r.file) fd) (hk : KindOK fd)
    (hmap : fd.label = 3 → fd.type = 11 → isMapEntryFqn w fd.typeName = true →
      ∃ h n k v rest, w.msgAt (declaredAs w fd.typeName .msg) = some (h, n) ∧ h.fields = k :: v :: rest ∧
        k.type ∈ scalarKinds ∧ KindOK v) :
    pgsTypeB w g r fd = genTypeB w r fd := by
  unfold pgsTypeB genTypeB
  simp only [hft]
  have hpres : pgsPresence (fileD w r.file) fd = prPresence (fileD w r.file) fd := C17_scalar_pointer _ _ hok
  unfold specType
  by_cases h3 : fd.label = 3
  · simp only [h3, if_true]
    by_cases h14 : fd.type = 14
    · have e11 : ¬ ((14 : Nat) = 11) := by decide
      simp [h14, e11, hy.qual]
    · by_cases h11 : fd.type = 11
      · have e1114 : ¬ ((11 : Nat) = 14) := by decide
        by_cases hm : isMapEntryFqn w fd.typeName = true
        · obtain ⟨h, n, k, v, rest, hat, hf, hks, hvk⟩ := hmap h3 h11 hm
          simp only [h11, e1114, hm, if_true, if_false, decide_true, Bool.and_self, hat, hf]
          have hkey : PgsGo.scalarType (specElem w k).t =
              (if k.type = 14 then (genQualified w r.file (declaredAs w k.typeName .enum), prPresence (fileD w r.file) k)
               else if k.type = 11 || k.type = 10 then (star :: genQualified w r.file (declaredAs w k.typeName .msg), false)
               else if k.type = 12 then ([91, 93, 98, 121, 116, 101], false)
               else (Protogen.scalarGo k.type, prPresence (fileD w r.file) k)).1 := by
            obtain ⟨n14, n11, n10⟩ := scalar_ne k.type hks
            unfold specElem
            simp only [n14, n11, n10, if_false, Bool.or_self, Bool.false_eq_true, decide_false, Elem.t]
            by_cases h12 : k.type = 12
            · simp [h12, bytes_type]
            · simp [h12, scalar_table_b k.type hks]
          have hval := elem_agree w r.file hy (fileD w r.file) v hvk
          rw [hkey]
          congr 2
        · simp [h11, e1114, hm, hy.qual, pointer_of_not _ (hy.notPtr _), sliceOf, star]
      · rcases hk with hs | h | h
        · simp only [h14, h11, if_false, Bool.and_false, Bool.false_eq_true, decide_false]
          have := base_scalar fd.type hs
          obtain ⟨_, _, n10⟩ := scalar_ne fd.type hs
          simp only [n10, Bool.or_self, Bool.false_eq_true, if_false, decide_false]
          by_cases h12 : fd.type = 12
          · simp [h12, bytes_type]
          · simp [h12, scalar_table_b fd.type hs]
        · exact absurd h h14
        · exact absurd h h11
  · simp only [h3, if_false, Bool.false_and, Bool.false_eq_true, decide_false]
    by_cases h14 : fd.type = 14
    · have e11 : ¬ ((14 : Nat) = 11) := by decide
      simp only [h14, if_true, hpres, hy.qual]
      cases hp : prPresence (fileD w r.file) fd with
      | true => simp [pointer_of_not _ (hy.notPtr _)]
      | false => simp
    · by_cases h11 : fd.type = 11
      · have e1114 : ¬ ((11 : Nat) = 14) := by decide
        simp [h11, e1114, hy.qual, pointer_of_not _ (hy.notPtr _)]
      · rcases hk with hs | h | h
        · obtain ⟨_, _, n10⟩ := scalar_ne fd.type hs
          simp only [h14, h11, n10, if_false, Bool.or_self, Bool.false_eq_true, decide_false, hpres]
          by_cases h12 : fd.type = 12
          · -- bytes: already a slice on both sides, never a pointer
            simp only [h12, if_true, bytes_type]
            cases prPresence (fileD w r.file) fd <;> simp [PgsGo.pointer, bytes_isPtr]
          · simp only [h12, if_false, ← scalar_table_b fd.type hs]
            cases hp : prPresence (fileD w r.file) fd with
            | true => simp [pointer_of_not _ (scalar_notPtr fd.type hs h12)]
            | false => simp
        · exact absurd h h14
        · exact absurd h h11

end Pgs.GoTypes

/-! ### where the hypotheses come from -/
namespace Pgs.GoTypes
open Pgs Pgs.AST Pgs.GoNames

theorem noDot_default : NoDotFile ⟨"", "", "", [], [], [], .nil, [], [], [], ""⟩ := by
  refine ⟨?_, trivial, ?_⟩ <;> intro x hx <;> simp at hx

/-- both sides give every message and enum of the request the same Go name (C16) -/
theorem typeNameAt_agree (w : World) (hn : ∀ f ∈ w.files, NoDotFile f) (r : Ref) :
    typeNameAt pgsSide w r = typeNameAt genSide w r := by
  unfold typeNameAt
  have : NoDotFile ((w.files[r.file]?).getD ⟨"", "", "", [], [], [], .nil, [], [], [], ""⟩) := by
    cases h : w.files[r.file]? with
    | none => exact noDot_default
    | some f => exact hn f (List.mem_of_getElem? h)
  rw [C16_file_names r.file _ this]

/-- **C17 (qualification)**: a type of another import path is qualified by the package name of its
    defining file, one of the same import path is not — alike on both sides, given that names,
    package names and import paths agree (C16_file_names, C17_package_name, C17_import_path). -/
theorem qual_agree (w : World) (hn : ∀ f ∈ w.files, NoDotFile f)
    (hip : ∀ fi, PgsGo.importPath (bytesOfString (fileD w fi).name) (bytesOfString (fileD w fi).goPackage) =
                 Protogen.importPath (bytesOfString (fileD w fi).name) (bytesOfString (fileD w fi).goPackage))
    (hpk : ∀ fi, PgsGo.packageName (bytesOfString (fileD w fi).name) (bytesOfString (fileD w fi).goPackage) =
                 Protogen.packageName (bytesOfString (fileD w fi).goPackage))
    (own : Nat) (target : Ref) : pgsQualified w own target = genQualified w own target := by
  unfold pgsQualified genQualified
  simp only [typeNameAt_agree w hn, hip, hpk]

/-- **C17 (types, assembled)**: on a valid request, for a well-formed field of a file whose referenced
    type names are not pointer-like, pgsgo's predicted Go type is protoc-gen-go's. -/
theorem C17_type_valid (w : World) (hv : Valid w) (g : Graph) (hg : hydrate w = .ok g)
    (x : Ref × FieldD) (hx : x ∈ allFields w ++ allExts 0 w.files)
    (hn : ∀ f ∈ w.files, NoDotFile f)
    (hip : ∀ fi, PgsGo.importPath (bytesOfString (fileD w fi).name) (bytesOfString (fileD w fi).goPackage) =
                 Protogen.importPath (bytesOfString (fileD w fi).name) (bytesOfString (fileD w fi).goPackage))
    (hpk : ∀ fi, PgsGo.packageName (bytesOfString (fileD w fi).name) (bytesOfString (fileD w fi).goPackage) =
                 Protogen.packageName (bytesOfString (fileD w fi).goPackage))
    (hnp : ∀ target, PgsGo.isPointer (genQualified w x.1.file target) = false)
    (hok : FieldOK (fileD w x.1.file) x.2) (hk : KindOK x.2)
    (hmap : x.2.label = 3 → x.2.type = 11 → isMapEntryFqn w x.2.typeName = true →
      ∃ h n k v rest, w.msgAt (declaredAs w x.2.typeName .msg) = some (h, n) ∧ h.fields = k :: v :: rest ∧
        k.type ∈ scalarKinds ∧ KindOK v) :
    pgsTypeB w g x.1 x.2 = genTypeB w x.1 x.2 :=
  C17_type w g x.1 x.2 (C03_type_of w hv g hg x hx) ⟨qual_agree w hn hip hpk x.1.file, hnp⟩ hok hk hmap

end Pgs.GoTypes
