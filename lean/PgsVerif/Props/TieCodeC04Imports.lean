import PgsVerif.Model.AstSem
import PgsVerif.Generated.Code_importSteps
/-!
# Tie (translated code): the import listings

`Imports()` of every entity kind and field type, `File.UnusedImports` and `File.Dependents`, read from
the current source in order.  They are the rules Φ_C04 states declaratively and the C04 theorems
prove of the model (`C04_imports`, `C04_field_files`, `C04_message_imports`, `C04_oneof_imports`,
`C04_method_imports`, `C04_service_imports`, `C04_unused`, `C04_dependents`): a type contributes its
target's file unless that is the file it stands in; containers take the union of their members, each
file once (a map keyed by file name); a file's unused imports are its non-public imports that nothing
defined in it - message fields at any depth, method inputs and outputs, extensions' types and
extendees - refers to.
-/
namespace Pgs.AST
open Pgs.GenCode

def importStepsOf (fn : String) : List String := (importSteps.lookup fn).getD ["<no such function>"]

set_option maxRecDepth 4000 in
/-- a copy of the declared dependencies, in declaration order -/
theorem tie_imports_file_Imports :
    importStepsOf "file.Imports" =
      ["out = make([]File, len(f.fileDependencies))", "copy(out, f.fileDependencies)", "return out"] := by decide

set_option maxRecDepth 4000 in
/-- the non-public imports, minus every file a message, a service or an extension defined in this file (at any depth: `AllMessages`) refers to - type files and extendee files -/
theorem tie_imports_file_UnusedImports :
    importStepsOf "file.UnusedImports" =
      ["public = make(map[int]struct{}, len(f.desc.PublicDependency))", "range f.desc.PublicDependency {", "public[int(i)] = struct{}{}", "}", "mp = make(map[string]File, len(f.fileDependencies))", "range f.fileDependencies {", "if _, ok = public[i]; ok {", "continue", "}", "mp[fl.Name().String()] = fl", "}", "range f.AllMessages() {", "range msg.Imports() {", "delete(mp, imp.Name().String())", "}", "}", "range f.Services() {", "range svc.Imports() {", "delete(mp, imp.Name().String())", "}", "}", "exts = f.DefinedExtensions()", "range f.AllMessages() {", "exts = append(exts[:len(exts):len(exts)], msg.DefinedExtensions()...)", "}", "range exts {", "range ext.Type().Imports() {", "delete(mp, imp.Name().String())", "}", "delete(mp, ext.Extendee().File().Name().String())", "}", "out = make([]File, 0, len(mp))", "range mp {", "out = append(out, fl)", "}", "return out"] := by decide

set_option maxRecDepth 4000 in
/-- memoised: the direct dependents and theirs, keyed by file name -/
theorem tie_imports_file_Dependents :
    importStepsOf "file.Dependents" =
      ["if f.dependentsCache == nil {", "set = make(map[string]File)", "range f.dependents {", "set[fl.Name().String()] = fl", "range fl.Dependents() {", "set[d.Name().String()] = d", "}", "}", "f.dependentsCache = make([]File, 0, len(set))", "range set {", "f.dependentsCache = append(f.dependentsCache, d)", "}", "}", "return f.dependentsCache"] := by decide

set_option maxRecDepth 4000 in
/-- the union, by file name, of the fields' imports -/
theorem tie_imports_msg_Imports :
    importStepsOf "msg.Imports" =
      ["mp = make(map[string]File, len(m.fields))", "range m.fields {", "range f.Imports() {", "mp[imp.File().Name().String()] = imp", "}", "}", "range mp {", "i = append(i, f)", "}", "return"] := by decide

set_option maxRecDepth 4000 in
/-- a field imports what its type imports -/
theorem tie_imports_field_Imports :
    importStepsOf "field.Imports" =
      ["return f.typ.Imports()"] := by decide

set_option maxRecDepth 4000 in
/-- the union of the member fields' imports -/
theorem tie_imports_oneof_Imports :
    importStepsOf "oneof.Imports" =
      ["mp = make(map[string]File, len(o.flds))", "range o.flds {", "range f.Imports() {", "mp[imp.File().Name().String()] = imp", "}", "}", "range mp {", "i = append(i, f)", "}", "return"] := by decide

set_option maxRecDepth 4000 in
/-- input file, then output file, each only if it is another file and listed once -/
theorem tie_imports_method_Imports :
    importStepsOf "method.Imports" =
      ["mine = m.File().Name()", "input = m.Input().File()", "output = m.Output().File()", "if mine != input.Name() {", "i = append(i, input)", "}", "if mine != output.Name() && input.Name() != output.Name() {", "i = append(i, output)", "}", "return"] := by decide

set_option maxRecDepth 4000 in
/-- the union of the methods' imports -/
theorem tie_imports_service_Imports :
    importStepsOf "service.Imports" =
      ["mp = make(map[string]File, len(s.methods))", "range s.methods {", "range m.Imports() {", "mp[imp.File().Name().String()] = imp", "}", "}", "range mp {", "i = append(i, f)", "}", "return"] := by decide

set_option maxRecDepth 4000 in
/-- an enum imports nothing -/
theorem tie_imports_enum_Imports :
    importStepsOf "enum.Imports" =
      ["return nil"] := by decide

set_option maxRecDepth 4000 in
/-- nor does a value -/
theorem tie_imports_enumVal_Imports :
    importStepsOf "enumVal.Imports" =
      ["return nil"] := by decide

set_option maxRecDepth 4000 in
/-- a scalar type imports nothing -/
theorem tie_imports_scalarT_Imports :
    importStepsOf "scalarT.Imports" =
      ["return nil"] := by decide

set_option maxRecDepth 4000 in
/-- the enum's file unless it is the field's own -/
theorem tie_imports_enumT_Imports :
    importStepsOf "enumT.Imports" =
      ["if f = e.enum.File(); f.Name() != e.fld.File().Name() {", "return []File{f}", "}", "return nil"] := by decide

set_option maxRecDepth 4000 in
/-- the message's file unless it is the field's own -/
theorem tie_imports_embedT_Imports :
    importStepsOf "embedT.Imports" =
      ["if f = e.msg.File(); f.Name() != e.fld.File().Name() {", "return []File{f}", "}", "return nil"] := by decide

set_option maxRecDepth 4000 in
/-- a repeated or map type imports what its element imports -/
theorem tie_imports_repT_Imports :
    importStepsOf "repT.Imports" =
      ["return r.el.Imports()"] := by decide

set_option maxRecDepth 4000 in
/-- a scalar element imports nothing -/
theorem tie_imports_scalarE_Imports :
    importStepsOf "scalarE.Imports" =
      ["return nil"] := by decide

set_option maxRecDepth 4000 in
/-- the enum's file unless it is the field's own (element) -/
theorem tie_imports_enumE_Imports :
    importStepsOf "enumE.Imports" =
      ["if f = e.enum.File(); f.Name() != e.ParentType().Field().File().Name() {", "return []File{f}", "}", "return nil"] := by decide

set_option maxRecDepth 4000 in
/-- the message's file unless it is the field's own (element) -/
theorem tie_imports_embedE_Imports :
    importStepsOf "embedE.Imports" =
      ["if f = e.msg.File(); f.Name() != e.ParentType().Field().File().Name() {", "return []File{f}", "}", "return nil"] := by decide

end Pgs.AST
