import PgsVerif.Model.Gen
import PgsVerif.Generated.Code_workflowSteps
/-!
# Tie (translated code): the steps of the workflow

The translator lists the effectful steps of `standardWorkflow.Init / Run / Persist`, of the three
`onceWorkflow` wrappers and of `Generator.AST / Render` in source order (message strings and `Debug`
calls left out: wording is not behaviour).  They are the steps the model `C13.stepOp` / `doInit` /
`doRun` / `doPersist` and the fault points of the C14 model transcribe:

* `Render` = Init, Run, Persist, each behind its own `sync.Once`; `AST` = Init;
* Init: read the input to the end, fail on a read error, unmarshal, fail on a parse error, fail without
  targets, parse the parameter string, run the mutators in order, build the AST (bidirectionally iff `BiDi`);
* Run: one context from the (mutated) parameters' output path; **every** module's `InitContext` (on a
  context prefixed with the module's name) before **any** module's `Execute`; artifacts concatenated in
  module order;
* Persist: the persister on all artifacts, marshal, fail on its error, **one** write of the whole
  response, fail on a write error, fail on a short write.
-/
namespace Pgs.C13
open Pgs.GenCode

def stepsOf (fn : String) : List String := (workflowSteps.lookup fn).getD []

theorem tie_render : stepsOf "Generator.Render" = ["ast = g.workflow.Init(g)", "arts = g.workflow.Run(ast)", "g.workflow.Persist(arts)"] ∧
    stepsOf "Generator.AST" = ["return g.workflow.Init(g)"] := by decide

/-- each phase runs at most once, and only that phase sits behind its `Once` -/
theorem tie_once :
    stepsOf "onceWorkflow.Init" = ["once wf.initOnce {", "wf.ast = wf.workflow.Init(g)", "}", "return wf.ast"] ∧
    stepsOf "onceWorkflow.Run" = ["once wf.runOnce {", "wf.arts = wf.workflow.Run(ast)", "}", "return wf.arts"] ∧
    stepsOf "onceWorkflow.Persist" = ["once wf.persistOnce {", "wf.workflow.Persist(artifacts)", "}"] := by decide

theorem tie_init :
    stepsOf "standardWorkflow.Init" =
      ["wf.Generator = g", "data, err = ioutil.ReadAll(g.in)", "wf.CheckErr(err)", "req = new(plugin_go.CodeGeneratorRequest)",
       "err = proto.Unmarshal(data, req)", "wf.CheckErr(err)", "wf.Assert(len(req.FileToGenerate) > 0)",
       "wf.params = ParseParameters(req.GetParameter())", "range wf.paramMutators {", "pm(wf.params)", "}",
       "if wf.BiDi {", "return ProcessCodeGeneratorRequestBidirectional(g, req)", "}", "return ProcessCodeGeneratorRequest(g, req)"] := by decide

/-- all `InitContext` calls, then all `Execute` calls: two loops over the modules -/
theorem tie_run :
    stepsOf "standardWorkflow.Run" =
      ["ctx = Context(wf.Debugger, wf.params, wf.params.OutputPath())",
       "range wf.mods {", "m.InitContext(ctx.Push(m.Name()))", "}",
       "range wf.mods {", "arts = append(arts, m.Execute(ast.Targets(), ast.Packages())...)", "}", "return"] := by decide

theorem tie_persist :
    stepsOf "standardWorkflow.Persist" =
      ["resp = wf.persister.Persist(arts...)", "data, err = proto.Marshal(resp)", "wf.CheckErr(err)",
       "n, err = wf.out.Write(data)", "wf.CheckErr(err)", "wf.Assert(len(data) == n)"] := by decide

/-- the model's `Render`: the three phases in this order, each guarded by its flag -/
theorem tie_stepOp_render (c : Cfg) (s : St) :
    stepOp c s .render =
      (let r1 := doInit s; let r2 := doRun c r1.1; let r3 := doPersist c r2.1; (r3.1, r1.2 ++ r2.2 ++ r3.2)) := rfl

/-- … and a run's events: every module initialised, in order, before any is executed -/
theorem tie_doRun_events (c : Cfg) (s : St) (h : s.runDone = false) : (doRun c s).2 = initEvents c ++ execEvents c := by
  simp [doRun, h]

end Pgs.C13
